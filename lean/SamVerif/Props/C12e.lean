import SamVerif.Model.Layout
/-! # C12 — whole-state layout theorem for acyclic type definitions

For definitions without reference cycles (a rank function strictly decreases along every
field-type reference) the layout chosen for a type is a function `spec` of the definitions alone:
whatever the roots and their order, every finished type has layout `spec`. -/
namespace SamVerif.Layout

/-- state-independent layout: the permit bit of a field type is read off the *specified* layout -/
def specPermitWith (sp : Nat → Option DLayout) : Ty → Bool
  | .int => false
  | .id m =>
    match sp m with
    | some (.enumL vs) => vs.all (· == .boxed)
    | some .structL => true
    | none => false

def specBit (sp : Nat → Option DLayout) : List Ty → Bool
  | t :: _ => specPermitWith sp t
  | [] => false

def bitsOf (sp : Nat → Option DLayout) (variants : List (List Ty)) : List (Nat × Bool) :=
  variants.map fun fields => (fields.length, specBit sp fields)

def spec (defs : Defs) : Nat → Nat → Option DLayout
  | 0, _ => none
  | k + 1, n =>
    match lookup defs n with
    | none => none
    | some (.enum variants) => some (.enumL (variantLoop (bitsOf (spec defs k) variants)))
    | some (.struct _) => some .structL

/-- every reference (enum variant field or struct field) goes to a type of strictly smaller rank -/
def Acyclic (defs : Defs) (rank : Nat → Nat) : Prop :=
  (∀ n variants, lookup defs n = some (.enum variants) → ∀ fields, fields ∈ variants → ∀ m,
    Ty.id m ∈ fields → rank m < rank n) ∧
  (∀ n fields, lookup defs n = some (.struct fields) → ∀ m, Ty.id m ∈ fields → rank m < rank n)

theorem bitsOf_congr (sp sp' : Nat → Option DLayout) (variants : List (List Ty))
    (h : ∀ fields, fields ∈ variants → ∀ m, Ty.id m ∈ fields → sp m = sp' m) :
    bitsOf sp variants = bitsOf sp' variants := by
  unfold bitsOf
  apply List.map_congr_left
  intro fields hf
  congr 1
  cases fields with
  | nil => rfl
  | cons t ts =>
    cases t with
    | int => rfl
    | id m => simp [specBit, specPermitWith, h (Ty.id m :: ts) hf m (by simp)]

theorem spec_stable (defs : Defs) (rank : Nat → Nat) (hac : Acyclic defs rank) :
    ∀ k k' n, rank n < k → rank n < k' → spec defs k n = spec defs k' n := by
  intro k
  induction k with
  | zero => intro k' n h; omega
  | succ k ih =>
    intro k' n h h'
    cases k' with
    | zero => omega
    | succ k' =>
      simp only [spec]
      cases hl : lookup defs n with
      | none => rfl
      | some d =>
        cases d with
        | struct fields => rfl
        | enum variants =>
          simp only [Option.some.injEq, DLayout.enumL.injEq]
          congr 1
          apply bitsOf_congr
          intro fields hf m hm
          have := hac.1 n variants hl fields hf m hm
          exact ih k' m (by omega) (by omega)

abbrev S (defs : Defs) (rank : Nat → Nat) (m : Nat) : Option DLayout := spec defs (rank m + 1) m

structure Inv (defs : Defs) (rank : Nat → Nat) (st : St) (P : Nat → Prop) : Prop where
  a : ∀ (m : Nat), st.names.contains m = true ↔ (P m ∨ (lookup st.done m).isSome = true)
  b : ∀ (m : Nat) (l : DLayout), lookup st.done m = some l → S defs rank m = some l
  c : ∀ (m : Nat), P m → lookup st.done m = none

def Mono (st st' : St) : Prop := ∀ m l, lookup st.done m = some l → lookup st'.done m = some l

/-- what the recursive call is assumed / shown to do -/
def RecOk (defs : Defs) (rank : Nat → Nat) (fuel : Nat) (rec : St → Nat → St) : Prop :=
  ∀ (P : Nat → Prop) (s : St) (m : Nat), Inv defs rank s P → (∀ q, P q → rank m < rank q) → rank m < fuel →
    Inv defs rank (rec s m) P ∧ Mono s (rec s m) ∧
      (∀ vs, lookup defs m = some vs → lookup (rec s m).done m = S defs rank m)

theorem fields_inv (defs : Defs) (rank : Nat → Nat) (fuel : Nat) (rec : St → Nat → St)
    (hrec : RecOk defs rank fuel rec) (P : Nat → Prop) :
    ∀ (fields : List Ty) (s : St), Inv defs rank s P →
      (∀ m, Ty.id m ∈ fields → (∀ q, P q → rank m < rank q) ∧ rank m < fuel) →
      Inv defs rank (demandFields rec s fields) P ∧ Mono s (demandFields rec s fields) ∧
        (∀ m, Ty.id m ∈ fields → ∀ vs, lookup defs m = some vs →
          lookup (demandFields rec s fields).done m = S defs rank m) := by
  intro fields
  induction fields with
  | nil => intro s hi _; exact ⟨hi, fun _ _ h => h, by simp⟩
  | cons t ts ih =>
    intro s hi hf
    cases t with
    | int =>
      have := ih s hi (fun m hm => hf m (List.mem_cons_of_mem _ hm))
      simp only [demandFields, List.foldl_cons] at this ⊢
      refine ⟨this.1, this.2.1, ?_⟩
      intro m hm
      rcases List.mem_cons.mp hm with h | h
      · cases h
      · exact this.2.2 m h
    | id m0 =>
      have h0 := hf m0 (by simp)
      have r0 := hrec P s m0 hi h0.1 h0.2
      have := ih (rec s m0) r0.1 (fun m hm => hf m (List.mem_cons_of_mem _ hm))
      simp only [demandFields, List.foldl_cons] at this ⊢
      refine ⟨this.1, fun m l h => this.2.1 m l (r0.2.1 m l h), ?_⟩
      intro m hm vs hvs
      rcases List.mem_cons.mp hm with h | h
      · cases h
        -- demanded first; later demands keep it
        have e := r0.2.2 vs hvs
        cases hS : S defs rank m0 with
        | none =>
          -- impossible: defined types have a specified layout
          cases vs <;> simp [S, spec, hvs] at hS
        | some l =>
          rw [hS] at e
          exact this.2.1 m0 l e
      · exact this.2.2 m h vs hvs

theorem permit_spec (defs : Defs) (rank : Nat → Nat) (st : St) (P : Nat → Prop)
    (hi : Inv defs rank st P) (fields : List Ty)
    (hd : ∀ m, Ty.id m ∈ fields → ∀ d, lookup defs m = some d → lookup st.done m = S defs rank m) :
    firstBit defs st fields = specBit (S defs rank) fields := by
  cases fields with
  | nil => rfl
  | cons t ts =>
    cases t with
    | int => rfl
    | id m =>
      simp only [firstBit, permit, specBit, specPermitWith]
      cases hl : lookup defs m with
      | some d =>
        rw [hd m (by simp) d hl]
        cases hS : S defs rank m with
        | none => cases d <;> simp [S, spec, hl] at hS
        | some l => cases l <;> rfl
      | none =>
        have hS : S defs rank m = none := by simp [S, spec, hl]
        cases hdn : lookup st.done m with
        | none => simp [hS, isStruct, hl]
        | some l => have := hi.b m l hdn; rw [hS] at this; cases this

theorem variants_inv (defs : Defs) (rank : Nat → Nat) (fuel : Nat) (rec : St → Nat → St)
    (hrec : RecOk defs rank fuel rec) (P : Nat → Prop) :
    ∀ (variants : List (List Ty)) (st : St) (bits : List (Nat × Bool)), Inv defs rank st P →
      (∀ fields, fields ∈ variants → ∀ m, Ty.id m ∈ fields → (∀ q, P q → rank m < rank q) ∧ rank m < fuel) →
      let r := variants.foldl (fun (acc : St × List (Nat × Bool)) fields =>
        let st' := demandFields rec acc.1 fields
        (st', acc.2 ++ [(fields.length, firstBit defs st' fields)])) (st, bits)
      Inv defs rank r.1 P ∧ Mono st r.1 ∧ r.2 = bits ++ bitsOf (S defs rank) variants := by
  intro variants
  induction variants with
  | nil => intro st bits hi _; exact ⟨hi, fun _ _ h => h, by simp [bitsOf]⟩
  | cons fields rest ih =>
    intro st bits hi hf
    have f1 := fields_inv defs rank fuel rec hrec P fields st hi (fun m hm => hf fields (by simp) m hm)
    have hb := permit_spec defs rank _ P f1.1 fields f1.2.2
    have := ih (demandFields rec st fields) (bits ++ [(fields.length, firstBit defs (demandFields rec st fields) fields)])
      f1.1 (fun fs hfs => hf fs (List.mem_cons_of_mem _ hfs))
    simp only [List.foldl_cons]
    refine ⟨this.1, fun m l h => this.2.1 m l (f1.2.1 m l h), ?_⟩
    rw [this.2.2, hb]
    simp [bitsOf]

theorem lookup_cons_ne {β : Type} (l : List (Nat × β)) (n m : Nat) (v : β) (h : n ≠ m) :
    lookup ((n, v) :: l) m = lookup l m := by
  simp [lookup, h]

/-- The central invariant: `demand` finishes `n` with its specified layout and keeps every
finished type as it was. -/
theorem demand_inv (defs : Defs) (rank : Nat → Nat) (hac : Acyclic defs rank) :
    ∀ fuel, RecOk defs rank fuel (demand defs fuel) := by
  intro fuel
  induction fuel with
  | zero => intro P s m _ _ h; omega
  | succ fuel ih =>
    intro P st n hi hP hfuel
    have hnP : ¬ P n := fun h => Nat.lt_irrefl _ (hP n h)
    simp only [demand]
    by_cases hc : st.names.contains n = true
    · -- already finished
      simp only [hc, ↓reduceIte]
      refine ⟨hi, fun _ _ h => h, ?_⟩
      intro vs _
      rcases (hi.a n).mp hc with h | h
      · exact absurd h hnP
      · obtain ⟨l, hl⟩ := Option.isSome_iff_exists.mp h
        rw [hl, hi.b n l hl]
    · simp only [hc, Bool.false_eq_true, ↓reduceIte]
      -- facts shared by the enum and the struct case: the state in which `n` is in progress
      let P' : Nat → Prop := fun q => P q ∨ q = n
      have hndone : lookup st.done n = none := by
        cases hd : lookup st.done n with
        | none => rfl
        | some l => exact absurd ((hi.a n).mpr (.inr (by simp [hd]))) hc
      have hi' : Inv defs rank { st with names := n :: st.names } P' := by
        refine ⟨?_, hi.b, ?_⟩
        · intro m
          simp only [List.contains_cons, Bool.or_eq_true, beq_iff_eq, P']
          rw [hi.a m]
          constructor
          · rintro (h | h | h)
            · exact .inl (.inr h)
            · exact .inl (.inl h)
            · exact .inr h
          · rintro ((h | h) | h)
            · exact .inr (.inl h)
            · exact .inl h
            · exact .inr (.inr h)
        · intro m hm
          rcases hm with h | h
          · exact hi.c m h
          · rw [h]; exact hndone
      -- closing step: insert the finished definition of `n`
      have finish : ∀ (r : St) (lay : DLayout), Inv defs rank r P' →
          Mono { st with names := n :: st.names } r → S defs rank n = some lay →
          Inv defs rank { r with done := (n, lay) :: r.done } P ∧
          Mono st { r with done := (n, lay) :: r.done } ∧
          lookup ({ r with done := (n, lay) :: r.done } : St).done n = S defs rank n := by
        intro r lay hri hrm hspec
        refine ⟨⟨?_, ?_, ?_⟩, ?_, ?_⟩
        · intro m
          rw [hri.a m]
          by_cases hmn : m = n
          · subst hmn
            simp [lookup, P', hnP]
          · have : lookup ((n, lay) :: r.done) m = lookup r.done m :=
              lookup_cons_ne _ n m _ (fun h => hmn h.symm)
            simp only [this, P', hmn, or_false]
        · intro m l h
          by_cases hmn : m = n
          · subst hmn
            simp [lookup] at h
            rw [hspec, h]
          · rw [lookup_cons_ne _ n m _ (fun h => hmn h.symm)] at h
            exact hri.b m l h
        · intro m hm
          have hmn : m ≠ n := fun h => hnP (h ▸ hm)
          rw [lookup_cons_ne _ n m _ (fun h => hmn h.symm)]
          exact hri.c m (.inl hm)
        · intro m l h
          have hmn : m ≠ n := fun e => by rw [e, hndone] at h; cases h
          rw [lookup_cons_ne _ n m _ (fun h => hmn h.symm)]
          exact hrm m l h
        · simp [lookup, hspec]
      cases hl : lookup defs n with
      | none => exact ⟨hi, fun _ _ h => h, by intro vs h; cases h⟩
      | some d =>
        cases d with
        | enum variants =>
          simp only
          have hranks : ∀ fields, fields ∈ variants → ∀ m, Ty.id m ∈ fields →
              (∀ q, P' q → rank m < rank q) ∧ rank m < fuel := by
            intro fields hf m hm
            have hr := hac.1 n variants hl fields hf m hm
            refine ⟨?_, by omega⟩
            intro q hq
            rcases hq with h | h
            · exact Nat.lt_trans hr (hP q h)
            · rw [h]; exact hr
          have hv := variants_inv defs rank fuel (demand defs fuel) ih P' variants
            { st with names := n :: st.names } [] hi' hranks
          simp only [demandVariants]
          generalize hr : (variants.foldl (fun (acc : St × List (Nat × Bool)) fields =>
              let st' := demandFields (demand defs fuel) acc.1 fields
              (st', acc.2 ++ [(fields.length, firstBit defs st' fields)]))
              ({ st with names := n :: st.names }, [])) = r at hv ⊢
          obtain ⟨hri, hrm, hrb⟩ := hv
          have hspec : S defs rank n = some (.enumL (variantLoop r.2)) := by
            simp only [S, spec, hl, hrb, List.nil_append, Option.some.injEq, DLayout.enumL.injEq]
            congr 1
            apply bitsOf_congr
            intro fields hf m hm
            have hr' := hac.1 n variants hl fields hf m hm
            exact spec_stable defs rank hac _ _ m hr' (by omega)
          obtain ⟨f1, f2, f3⟩ := finish r.1 _ hri hrm hspec
          exact ⟨f1, f2, fun _ _ => f3⟩
        | struct fields =>
          simp only
          have hranks : ∀ m, Ty.id m ∈ fields → (∀ q, P' q → rank m < rank q) ∧ rank m < fuel := by
            intro m hm
            have hr := hac.2 n fields hl m hm
            refine ⟨?_, by omega⟩
            intro q hq
            rcases hq with h | h
            · exact Nat.lt_trans hr (hP q h)
            · rw [h]; exact hr
          have hf := fields_inv defs rank fuel (demand defs fuel) ih P' fields
            { st with names := n :: st.names } hi' hranks
          have hspec : S defs rank n = some .structL := by simp [S, spec, hl]
          obtain ⟨f1, f2, f3⟩ := finish _ _ hf.1 hf.2.1 hspec
          exact ⟨f1, f2, fun _ _ => f3⟩

theorem layoutAll_inv (defs : Defs) (rank : Nat → Nat) (hac : Acyclic defs rank)
    (hrank : ∀ n, rank n ≤ defs.length) (roots : List Nat) (st : St)
    (hi : Inv defs rank st (fun _ => False)) :
    Inv defs rank (roots.foldl (fun st r => demand defs (defs.length + 1) st r) st) (fun _ => False) := by
  induction roots generalizing st with
  | nil => exact hi
  | cons r rs ih =>
    simp only [List.foldl_cons]
    apply ih
    exact (demand_inv defs rank hac (defs.length + 1) _ st r hi (fun _ h => h.elim)
      (by have := hrank r; omega)).1

/-- **layout_acyclic_order_independent** (whole state): for acyclic type definitions (enums and
structs), whatever roots are demanded in whatever order, every type that gets a layout gets the one
specified by the definitions alone — so two runs (two hash seeds, two root orders) agree on every
type both of them laid out. -/
theorem layout_acyclic_order_independent (defs : Defs) (rank : Nat → Nat) (hac : Acyclic defs rank)
    (hrank : ∀ n, rank n ≤ defs.length) (roots roots' : List Nat) (n : Nat) (l l' : DLayout)
    (h : layoutOf defs roots n = some l) (h' : layoutOf defs roots' n = some l') : l = l' := by
  have hinit : Inv defs rank { names := [], done := [] } (fun _ => False) :=
    ⟨by intro m; simp [lookup], by intro m l h; simp [lookup] at h, by intro m h; exact h.elim⟩
  have i1 := layoutAll_inv defs rank hac hrank roots _ hinit
  have i2 := layoutAll_inv defs rank hac hrank roots' _ hinit
  have e1 := i1.b n l h
  have e2 := i2.b n l' h'
  rw [e1] at e2
  exact Option.some.inj e2

/-- non-vacuity: `Box(val a: int, val b: int)` (struct), `Opt(None, Some(Box))`, `Wrap(W(Opt))` is
acyclic with rank `Box ↦ 0, Opt ↦ 1, Wrap ↦ 2`; both demand orders give `Some` unboxed over the
struct and `W` boxed over the enum with a data-less variant. -/
def acyclicDefs : Defs := [(0, .struct [.int, .int]), (1, .enum [[], [.id 0]]), (2, .enum [[.id 1]])]
example : layoutOf acyclicDefs [2, 0] 1 = some (.enumL [.int31, .unboxed]) ∧
    layoutOf acyclicDefs [0, 1, 2] 1 = some (.enumL [.int31, .unboxed]) ∧
    layoutOf acyclicDefs [2] 2 = some (.enumL [.boxed]) ∧
    layoutOf acyclicDefs [2] 0 = some .structL := by decide

end SamVerif.Layout
