import SamVerif.Model.BackendsEnum
/-!
# C04 (continued) — enum values and variant tests on the two back ends
-/
namespace SamVerif.Backends

/-- An unboxed variant excludes every other payload variant. -/
def WFLayout (L : List VRepr) : Prop :=
  ∀ (i : Nat), L[i]? = some VRepr.unboxed → ∀ (j : Nat) (r : VRepr), j ≠ i → L[j]? = some r → r = VRepr.int31

/-- invariant of the layout loop -/
structure LInv (s : LState) : Prop where
  permitAll : s.permit = true → s.pending = none ∧ ∀ (j : Nat) (r : VRepr), s.acc[j]? = some r → r = .int31
  pendingSome : ∀ (i : Nat), s.pending = some i →
    s.acc[i]? = some .unboxed ∧ ∀ (j : Nat) (r : VRepr), j ≠ i → s.acc[j]? = some r → r = .int31
  pendingNone : s.pending = none → ∀ (j : Nat), s.acc[j]? ≠ some .unboxed

theorem getElem?_append_singleton {α : Type} (l : List α) (x : α) (j : Nat) (r : α)
    (h : (l ++ [x])[j]? = some r) : l[j]? = some r ∨ (j = l.length ∧ r = x) := by
  by_cases hj : j < l.length
  · left; rwa [List.getElem?_append_left hj] at h
  · right
    rw [List.getElem?_append_right (by omega)] at h
    have : j - l.length = 0 := by
      cases hk : j - l.length with
      | zero => rfl
      | succ k => rw [hk] at h; simp at h
    rw [this] at h
    simp at h
    exact ⟨by omega, h.symm⟩

theorem linv_step (s : LState) (hs : LInv s) (types : List Bool) : LInv (layoutStep s types) := by
  unfold layoutStep
  by_cases he : types.isEmpty = true
  · simp only [he, if_true]
    refine ⟨?_, ?_, ?_⟩
    · intro hp
      obtain ⟨h1, h2⟩ := hs.permitAll hp
      refine ⟨h1, fun j r hr => ?_⟩
      rcases getElem?_append_singleton _ _ _ _ hr with h | ⟨_, h⟩
      · exact h2 j r h
      · exact h
    · intro i hi
      obtain ⟨h1, h2⟩ := hs.pendingSome i hi
      have hlt : i < s.acc.length := (List.getElem?_eq_some_iff.mp h1).1
      refine ⟨by rw [List.getElem?_append_left hlt]; exact h1, fun j r hj hr => ?_⟩
      rcases getElem?_append_singleton _ _ _ _ hr with h | ⟨_, h⟩
      · exact h2 j r hj h
      · exact h
    · intro hn j hj
      rcases getElem?_append_singleton _ _ _ _ hj with h | ⟨_, h⟩
      · exact hs.pendingNone hn j h
      · cases h
  · simp only [he, if_false, Bool.false_eq_true]
    -- after the demotion of a pending unboxed variant nothing is unboxed
    have hacc1 : ∀ (j : Nat), (match s.pending with
        | some i => s.acc.set i (.boxed 1)
        | none => s.acc)[j]? ≠ some .unboxed := by
      intro j
      cases hp : s.pending with
      | none => exact hs.pendingNone hp j
      | some i =>
        simp only
        rw [List.getElem?_set]
        by_cases hij : i = j
        · rw [if_pos hij]; split <;> simp
        · rw [if_neg hij]
          intro h
          have := (hs.pendingSome i hp).2 j _ (fun e => hij e.symm) h
          cases this
    by_cases hc : s.permit = true ∧ types = [true]
    · rw [if_pos hc]
      obtain ⟨hpn, hall⟩ := hs.permitAll hc.1
      simp only [hpn]
      refine ⟨(by intro h; cases h), ?_, (by intro h; cases h)⟩
      intro i hi
      cases hi
      refine ⟨by simp, fun j r hj hr => ?_⟩
      rcases getElem?_append_singleton _ _ _ _ hr with h | ⟨h, _⟩
      · exact hall j r h
      · exact absurd h hj
    · rw [if_neg hc]
      refine ⟨(by intro h; cases h), (by intro i hi; cases hi), ?_⟩
      intro _ j hj
      rcases getElem?_append_singleton _ _ _ _ hj with h | ⟨_, h⟩
      · exact hacc1 j h
      · cases h

theorem linv_foldl (vs : List (List Bool)) (s : LState) (hs : LInv s) : LInv (vs.foldl layoutStep s) := by
  induction vs generalizing s with
  | nil => exact hs
  | cons v vs ih => exact ih _ (linv_step s hs v)

/-- **The layout rule never mixes an unboxed variant with another payload variant** — for every
enum declaration. (This is what makes `typeof v === 'object'` a sound variant test in TypeScript.) -/
theorem layout_wf (variants : List (List Bool)) : WFLayout (layout variants) := by
  have h0 : LInv ⟨[], true, none⟩ :=
    ⟨fun _ => ⟨rfl, fun j r h => by simp at h⟩, fun i h => (by cases h), fun _ j => (by simp)⟩
  have h := linv_foldl variants _ h0
  intro i hi j r hj hr
  unfold layout at hi hr
  cases hp : (variants.foldl layoutStep ⟨[], true, none⟩).pending with
  | none => exact absurd hi (h.pendingNone hp i)
  | some p =>
    obtain ⟨h1, h2⟩ := h.pendingSome p hp
    by_cases hip : i = p
    · subst hip; exact h2 j r hj hr
    · have := h2 i _ hip hi
      cases this

example : layout [[], [], [true]] = [.int31, .int31, .unboxed] := by decide
example : layout [[], [true], [true]] = [.int31, .boxed 1, .boxed 1] := by decide
example : layout [[false], [false, false]] = [.boxed 1, .boxed 2] := by decide

theorem hasInt31_of (L : List VRepr) (j : Nat) (h : L[j]? = some .int31) : hasInt31 L = true := by
  unfold hasInt31
  rw [List.any_eq_true]
  exact ⟨.int31, List.mem_of_getElem? h, by decide⟩

/-- **Variant tests agree** (full strength, about the extracted `tsRefCmpStrict`): for every
well-formed layout, every value of the enum and every variant `k`, the TypeScript test and the
WebAssembly test both answer "the value was built by variant `k`" — and the WebAssembly test never
reads a field of a non-struct. -/
theorem variant_test_agree (L : List VRepr) (hwf : WFLayout L) (v : EVal) (hv : ValidFor L v)
    (k : Nat) (hk : k < L.length) :
    tsTest L k (tsRep v) = decide (v.variant = k) ∧
      wasmTest L k (wasmRepE v) = some (decide (v.variant = k)) := by
  have hstrict : tsRefCmpStrict = true := rfl
  have hLk : L[k]? = some L[k] := List.getElem?_eq_getElem hk
  cases hr : L[k] with
  | int31 =>
    rw [hr] at hLk
    cases v with
    | tag j =>
      simp only [tsTest, wasmTest, hLk, tsRep, wasmRepE, EVal.variant, tsRefEq, hstrict, if_true, strictEq]
      have e : ((2 * (j : Int) + 1) = 2 * (k : Int) + 1) ↔ j = k := by omega
      constructor
      · rw [Bool.eq_iff_iff]; simp [e]; exact (decide_eq_true_iff).symm
      · congr 1; rw [Bool.eq_iff_iff]; simp [e]; exact (decide_eq_true_iff).symm
    | box j id fs =>
      have hne : j ≠ k := by
        intro e; subst e; simp only [ValidFor] at hv; rw [hLk] at hv; cases hv
      simp [tsTest, wasmTest, hLk, tsRep, wasmRepE, EVal.variant, tsRefEq, hstrict, strictEq, hne]
    | payload j id es =>
      have hne : j ≠ k := by
        intro e; subst e; simp only [ValidFor] at hv; rw [hLk] at hv; cases hv
      simp [tsTest, wasmTest, hLk, tsRep, wasmRepE, EVal.variant, tsRefEq, hstrict, strictEq, hne]
  | unboxed =>
    rw [hr] at hLk
    cases v with
    | tag j =>
      have hne : j ≠ k := by
        intro e; subst e; simp only [ValidFor] at hv; rw [hLk] at hv; cases hv
      simp [tsTest, wasmTest, hLk, tsRep, wasmRepE, EVal.variant, tsIsPointer, wasmRefTest, hne]
    | box j id fs =>
      exfalso
      simp only [ValidFor] at hv
      have hne : j ≠ k := by intro e; subst e; rw [hLk] at hv; cases hv
      have := hwf k hLk j _ hne hv
      cases this
    | payload j id es =>
      simp only [ValidFor] at hv
      have hjk : j = k := by
        by_cases e : j = k
        · exact e
        · have := hwf k hLk j _ e hv; cases this
      subst hjk
      simp [tsTest, wasmTest, hLk, tsRep, wasmRepE, EVal.variant, tsIsPointer, wasmRefTest]
  | boxed n =>
    rw [hr] at hLk
    cases v with
    | tag j =>
      simp only [ValidFor] at hv
      have hi := hasInt31_of L j hv
      have hne : j ≠ k := by intro e; subst e; rw [hLk] at hv; cases hv
      simp [tsTest, wasmTest, hLk, tsRep, wasmRepE, EVal.variant, tsIsPointer, wasmRefTest, hi, hne]
    | box j id fs =>
      simp only [tsTest, wasmTest, hLk, tsRep, wasmRepE, EVal.variant, tsIsPointer, tsIndex0, looseEq,
        wasmRefTest, Bool.and_true, Bool.true_and]
      by_cases hjk : j = k
      · subst hjk; simp
      · have h1 : ¬ ((2 * (j : Int) + 1) = 2 * (k : Int) + 1) := by omega
        have h2 : WTy.sub j ≠ WTy.sub k := by intro e; cases e; exact hjk rfl
        cases hasInt31 L <;> simp [hjk, h1, h2]
    | payload j id es =>
      exfalso
      simp only [ValidFor] at hv
      have hne : k ≠ j := by intro e; subst e; rw [hLk] at hv; cases hv
      have := hwf j hv k _ hne hLk
      cases this

/-- **A whole `match`** (arms tested in any order): both back ends take the same arm, and it is the
arm of the variant the value was built with. -/
theorem match_agree (L : List VRepr) (hwf : WFLayout L) (v : EVal) (hv : ValidFor L v)
    (order : List Nat) (ho : ∀ k ∈ order, k < L.length) :
    firstArm (fun k => tsTest L k (tsRep v)) order =
        firstArm (fun k => (wasmTest L k (wasmRepE v)).getD false) order ∧
      firstArm (fun k => tsTest L k (tsRep v)) order = firstArm (fun k => decide (v.variant = k)) order := by
  induction order with
  | nil => exact ⟨rfl, rfl⟩
  | cons k ks ih =>
    obtain ⟨h1, h2⟩ := variant_test_agree L hwf v hv k (ho k List.mem_cons_self)
    obtain ⟨i1, i2⟩ := ih (fun j hj => ho j (List.mem_cons_of_mem _ hj))
    simp only [firstArm, h1, h2, Option.getD_some]
    constructor
    · split <;> simp_all
    · split <;> simp_all

/-- Historical (C04-F8): with loose equality the test for a payload-free variant accepted an
unboxed payload whose content coerces to the tag: layout `[int31, unboxed]`, value `Some([1])`. -/
theorem variant_test_loose_counterexample :
    looseEq (tsRep (.payload 1 7 [.num 1])) (.num (2 * 0 + 1)) = true ∧
      wasmTest [.int31, .unboxed] 0 (wasmRepE (.payload 1 7 [.num 1])) = some false := by
  decide

/-- the well-formedness hypothesis is necessary: in a (hypothetical) layout that mixes an unboxed
variant with a boxed one and has no Int31 variant, TypeScript would read field 0 of the foreign
payload object and could take it for a tag, while WebAssembly would trap. -/
theorem wf_needed :
    tsTest [.boxed 1, .unboxed] 0 (tsRep (.payload 1 7 [.num 1])) = true ∧
      wasmTest [.boxed 1, .unboxed] 0 (wasmRepE (.payload 1 7 [.num 1])) = none := by
  decide

end SamVerif.Backends
