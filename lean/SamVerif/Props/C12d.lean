import SamVerif.Model.MirFull
/-! # C12 — `mir_rename_invariant_full`: renaming invariance over the fuller MIR interpreter
(binary, if-else with final assignments, while/break, direct and closure calls, struct init,
indexed access, closures as objects). -/
namespace SamVerif.MirFull

def Inj (f : Nat → Nat) : Prop := ∀ a b, f a = f b → a = b

structure RenInj (ρ : Ren) : Prop where
  f : Inj ρ.f
  g : Inj ρ.g
  v : Inj ρ.v

theorem lookup_ren {β γ : Type} (r : Nat → Nat) (hr : Inj r) (h : β → γ) (l : List (Nat × β)) (k : Nat) :
    lookup (l.map fun kb => (r kb.1, h kb.2)) (r k) = (lookup l k).map h := by
  induction l with
  | nil => simp [lookup]
  | cons p ps ih =>
    obtain ⟨k', b⟩ := p
    simp only [List.map_cons, lookup]
    by_cases hk : k = k'
    · subst hk; simp
    · have : ¬ (r k = r k') := fun e => hk (hr _ _ e)
      simp [hk, this, ih]

theorem evalE_ren (ρ : Ren) (hρ : RenInj ρ) (p : Prog) (σ : St) (e : Expr) :
    evalE (renProg ρ p) (renSt ρ σ) (renE ρ e) = (evalE p σ e).map (renVal ρ) := by
  cases e with
  | lit n => simp [renE, evalE, renVal]
  | var x =>
    simp only [renE, evalE, renSt, renEnv]
    exact lookup_ren ρ.v hρ.v (renVal ρ) σ.env x
  | glob g =>
    simp only [renE, evalE, renProg]
    have := lookup_ren ρ.g hρ.g (id : List Nat → List Nat) p.globs g
    simp only [id] at this
    rw [this]
    cases lookup p.globs g <;> simp [renVal]
  | fname f => simp [renE, evalE, renVal]

theorem evalInt_ren (ρ : Ren) (hρ : RenInj ρ) (p : Prog) (σ : St) (e : Expr) :
    evalInt (renProg ρ p) (renSt ρ σ) (renE ρ e) = evalInt p σ e := by
  simp only [evalInt, evalE_ren ρ hρ]
  cases h : evalE p σ e with
  | none => simp
  | some v => cases v <;> simp [renVal]

theorem evalPrinted_ren (ρ : Ren) (hρ : RenInj ρ) (p : Prog) (σ : St) (e : Expr) :
    evalPrinted (renProg ρ p) (renSt ρ σ) (renE ρ e) = evalPrinted p σ e := by
  simp only [evalPrinted, evalE_ren ρ hρ]
  cases h : evalE p σ e with
  | none => simp
  | some v => cases v <;> simp [renVal]

theorem evalArgs_ren (ρ : Ren) (hρ : RenInj ρ) (p : Prog) (σ : St) (es : List Expr) :
    evalArgs (renProg ρ p) (renSt ρ σ) (es.map (renE ρ)) = (evalArgs p σ es).map (·.map (renVal ρ)) := by
  induction es with
  | nil => simp [evalArgs]
  | cons e es ih =>
    simp only [List.map_cons, evalArgs, evalE_ren ρ hρ, ih]
    cases evalE p σ e with
    | none => simp
    | some v => cases evalArgs p σ es <;> simp

theorem evalIsPtr_ren (ρ : Ren) (hρ : RenInj ρ) (p : Prog) (σ : St) (e : Expr) :
    evalIsPtr (renProg ρ p) (renSt ρ σ) (renE ρ e) = evalIsPtr p σ e := by
  simp only [evalIsPtr, evalE_ren ρ hρ]
  cases h : evalE p σ e with
  | none => simp
  | some v => cases v <;> simp [renVal]

theorem heap_ren (ρ : Ren) (σ : St) (a : Nat) :
    (renSt ρ σ).heap[a]? = (σ.heap[a]?).map (·.map (renVal ρ)) := by
  simp [renSt]

theorem evalIndex_ren (ρ : Ren) (hρ : RenInj ρ) (p : Prog) (σ : St) (e : Expr) (i : Nat) :
    evalIndex (renProg ρ p) (renSt ρ σ) (renE ρ e) i = (evalIndex p σ e i).map (renVal ρ) := by
  simp only [evalIndex, evalE_ren ρ hρ]
  cases h : evalE p σ e with
  | none => simp
  | some v =>
    cases v with
    | ptr a =>
      simp only [Option.map_some, renVal, heap_ren]
      cases σ.heap[a]? with
      | none => simp
      | some obj => simp
    | int n => simp [renVal]
    | str s => simp [renVal]
    | fn f => simp [renVal]

theorem resolveCallee_ren (ρ : Ren) (hρ : RenInj ρ) (p : Prog) (σ : St) (c : Callee) (args : List Val) :
    resolveCallee (renProg ρ p) (renSt ρ σ) (renCallee ρ c) (args.map (renVal ρ)) =
      (resolveCallee p σ c args).map fun r => (ρ.f r.1, r.2.map (renVal ρ)) := by
  cases c with
  | direct f => simp [resolveCallee, renCallee]
  | closure e =>
    simp only [resolveCallee, renCallee, evalE_ren ρ hρ]
    cases h : evalE p σ e with
    | none => simp
    | some v =>
      cases v with
      | ptr a =>
        simp only [Option.map_some, renVal, heap_ren]
        cases σ.heap[a]? with
        | none => simp
        | some obj =>
          match obj with
          | [] => simp
          | [x] => cases x <;> simp [renVal]
          | [x, ctx] => cases x <;> simp [renVal]
          | x :: y :: z :: rest => cases x <;> simp [renVal]
      | int n => simp [renVal]
      | str s => simp [renVal]
      | fn f => simp [renVal]

theorem bindParams_ren (ρ : Ren) (xs : List Nat) (vs : List Val) :
    bindParams (xs.map ρ.v) (vs.map (renVal ρ)) = renEnv ρ (bindParams xs vs) := by
  induction xs generalizing vs with
  | nil => simp [bindParams, renEnv]
  | cons x xs ih =>
    cases vs with
    | nil => simp [bindParams, renEnv]
    | cons v vs =>
      simp only [List.map_cons, bindParams, ih]
      simp [renEnv]

theorem lookup_fun_ren (ρ : Ren) (hρ : RenInj ρ) (p : Prog) (k : Nat) :
    lookup (renProg ρ p).funs (ρ.f k) = (lookup p.funs k).map (renFn ρ) :=
  lookup_ren ρ.f hρ.f (renFn ρ) p.funs k

theorem pickFinals_ren (ρ : Ren) (b : Bool) (finals : List (Nat × Expr × Expr)) :
    pickFinals b (finals.map (renTriple ρ)) = (pickFinals b finals).map (renE ρ) := by
  simp only [pickFinals, List.map_map]
  apply List.map_congr_left
  intro t _
  cases b <;> simp [renTriple]

theorem names_ren (ρ : Ren) (l : List (Nat × Expr × Expr)) :
    names (l.map (renTriple ρ)) = (names l).map ρ.v := by
  simp [names, List.map_map, renTriple, Function.comp_def]

theorem inits_ren (ρ : Ren) (l : List (Nat × Expr × Expr)) :
    inits (l.map (renTriple ρ)) = (inits l).map (renE ρ) := by
  simp [inits, List.map_map, renTriple, Function.comp_def]

theorem loopvals_ren (ρ : Ren) (l : List (Nat × Expr × Expr)) :
    loopVals (l.map (renTriple ρ)) = (loopVals l).map (renE ρ) := by
  simp [loopVals, List.map_map, renTriple, Function.comp_def]

theorem renEnv_append (ρ : Ren) (a b : List (Nat × Val)) :
    renEnv ρ (a ++ b) = renEnv ρ a ++ renEnv ρ b := by simp [renEnv]

theorem renS_ite (ρ : Ren) (n : Int) (t e : Stmt) :
    (if n ≠ 0 then renS ρ t else renS ρ e) = renS ρ (if n ≠ 0 then t else e) := by
  split <;> rfl

abbrev renRes (ρ : Ren) (r : Outcome × St) : Outcome × St := (renOutcome ρ r.1, renSt ρ r.2)

/-- Execution commutes with renaming (all fuel values, all statements, all states). -/
theorem exec_ren (ρ : Ren) (hρ : RenInj ρ) (p : Prog) (fuel : Nat) (s : Stmt) (σ : St) :
    exec (renProg ρ p) fuel (renS ρ s) (renSt ρ σ) = (exec p fuel s σ).map (renRes ρ) := by
  fun_induction exec p fuel s σ with
  | case1 fuel σ => simp [renS, exec, renRes, renOutcome]
  | case2 fuel a b σ h ih =>
    simp only [renS, exec, ih, h]; rfl
  | case3 fuel a b σ v σ' h ih =>
    simp only [renS, exec, ih, h]; rfl
  | case4 fuel a b σ σ' h ih1 ih2 =>
    simp only [renS, exec, ih1, h, Option.map_some, renRes, renOutcome]
    exact ih2
  | case5 fuel x op a b σ h =>
    simp [renS, exec, evalInt_ren ρ hρ, h]
  | case6 fuel x op a b σ m hm h =>
    simp [renS, exec, evalInt_ren ρ hρ, h, hm]
  | case7 fuel x op a b σ m hm n hn =>
    simp only [renS, exec, evalInt_ren ρ hρ, hn, hm]
    simp [renRes, renOutcome, renSt, renEnv, renVal]
  | case8 fuel e σ h =>
    simp [renS, exec, evalPrinted_ren ρ hρ, h]
  | case9 fuel e σ v h =>
    simp only [renS, exec, evalPrinted_ren ρ hρ, h]
    simp [renRes, renOutcome, renSt]
  | case10 x c args σ => simp [renS, exec]
  | case11 fuel x c args σ h =>
    simp [renS, exec, evalArgs_ren ρ hρ, h]
  | case12 fuel x c args σ vs hvs h =>
    simp [renS, exec, evalArgs_ren ρ hρ, hvs, resolveCallee_ren ρ hρ, h]
  | case13 fuel x c args σ vs hvs f full hres h =>
    simp [renS, exec, evalArgs_ren ρ hρ, hvs, resolveCallee_ren ρ hρ, hres, lookup_fun_ren ρ hρ, h]
  | case14 fuel x c args σ vs hvs f full hres fn hfn h ih =>
    have : renSt ρ { σ with env := bindParams fn.params full } =
        { renSt ρ σ with env := bindParams (fn.params.map ρ.v) (full.map (renVal ρ)) } := by
      simp [renSt, bindParams_ren]
    simp only [renS, exec, evalArgs_ren ρ hρ, hvs, resolveCallee_ren ρ hρ, hres, lookup_fun_ren ρ hρ,
      hfn, Option.map_some, renFn, ← this, ih, h, Option.map_none]
  | case15 fuel x c args σ vs hvs f full hres fn hfn v σ' h ih =>
    have : renSt ρ { σ with env := bindParams fn.params full } =
        { renSt ρ σ with env := bindParams (fn.params.map ρ.v) (full.map (renVal ρ)) } := by
      simp [renSt, bindParams_ren]
    simp only [renS, exec, evalArgs_ren ρ hρ, hvs, resolveCallee_ren ρ hρ, hres, lookup_fun_ren ρ hρ,
      hfn, Option.map_some, renFn, ← this, ih, h, renRes, renOutcome, Option.map_none]
  | case16 fuel x c args σ vs hvs f full hres fn hfn σ' h hr ih =>
    have : renSt ρ { σ with env := bindParams fn.params full } =
        { renSt ρ σ with env := bindParams (fn.params.map ρ.v) (full.map (renVal ρ)) } := by
      simp [renSt, bindParams_ren]
    simp only [renS, exec, evalArgs_ren ρ hρ, hvs, resolveCallee_ren ρ hρ, hres, lookup_fun_ren ρ hρ,
      hfn, Option.map_some, renFn, ← this, ih, h, renRes, renOutcome, evalE_ren ρ hρ, hr,
      Option.map_none]
  | case17 fuel x c args σ vs hvs f full hres fn hfn σ' h r hr ih =>
    have : renSt ρ { σ with env := bindParams fn.params full } =
        { renSt ρ σ with env := bindParams (fn.params.map ρ.v) (full.map (renVal ρ)) } := by
      simp [renSt, bindParams_ren]
    simp only [renS, exec, evalArgs_ren ρ hρ, hvs, resolveCallee_ren ρ hρ, hres, lookup_fun_ren ρ hρ,
      hfn, Option.map_some, renFn, ← this, ih, h, renRes, renOutcome, evalE_ren ρ hρ, hr]
    simp [renSt, renEnv]
  | case18 fuel x es σ h =>
    simp [renS, exec, evalArgs_ren ρ hρ, h]
  | case19 fuel x es σ vs h =>
    simp only [renS, exec, evalArgs_ren ρ hρ, h]
    simp [renRes, renOutcome, renSt, renEnv, renVal]
  | case20 fuel x e i σ h =>
    simp [renS, exec, evalIndex_ren ρ hρ, h]
  | case21 fuel x e i σ v h =>
    simp only [renS, exec, evalIndex_ren ρ hρ, h]
    simp [renRes, renOutcome, renSt, renEnv]
  | case22 fuel c t e finals σ h =>
    simp [renS, exec, evalInt_ren ρ hρ, h]
  | case23 fuel c t e finals σ n hn h ih =>
    simp only [dite_eq_ite] at h ih
    simp only [renS, exec, evalInt_ren ρ hρ, hn, renS_ite, ih, h, Option.map_none]
  | case24 fuel c t e finals σ n hn v σ' h ih =>
    simp only [dite_eq_ite] at h ih
    simp only [renS, exec, evalInt_ren ρ hρ, hn, renS_ite, ih, h, Option.map_some, renRes, renOutcome]
  | case25 fuel c t e finals σ n hn σ' h hf ih =>
    simp only [dite_eq_ite] at h ih
    simp only [renS, exec, evalInt_ren ρ hρ, hn, renS_ite, ih, h, Option.map_some, renRes, renOutcome,
      pickFinals_ren, evalArgs_ren ρ hρ, hf, Option.map_none]
  | case26 fuel c t e finals σ n hn σ' h vs hf ih =>
    simp only [dite_eq_ite] at h ih
    simp only [renS, exec, evalInt_ren ρ hρ, hn, renS_ite, ih, h, Option.map_some, renRes, renOutcome,
      pickFinals_ren, evalArgs_ren ρ hρ, hf, names_ren, bindParams_ren]
    simp [renSt, renEnv_append]
  | case27 vars body bc σ => simp [renS, exec]
  | case28 fuel vars body bc σ h =>
    simp [renS, exec, inits_ren, evalArgs_ren ρ hρ, h]
  | case29 fuel vars body bc σ vs h ih =>
    simp only [renS, exec, inits_ren, evalArgs_ren ρ hρ, h, Option.map_some, names_ren, bindParams_ren]
    have : renSt ρ { σ with env := bindParams (names vars) vs ++ σ.env } =
        { renSt ρ σ with env := renEnv ρ (bindParams (names vars) vs) ++ (renSt ρ σ).env } := by
      simp [renSt, renEnv_append]
    rw [← this]
    simpa [renS] using ih
  | case30 vars body bc σ => simp [renS, exec]
  | case31 fuel vars body bc σ h ih =>
    simp only [renS, exec, ih, h, Option.map_none]
  | case32 fuel vars body bc σ v σ' h ih =>
    simp only [renS, exec, ih, h, Option.map_some, renRes, renOutcome]
    simp [renSt, renEnv]
  | case33 fuel vars body bc σ σ' h hv ih =>
    simp only [renS, exec, ih, h, Option.map_some, renRes, renOutcome, loopvals_ren,
      evalArgs_ren ρ hρ, hv, Option.map_none]
  | case34 fuel vars body bc σ σ' h vs hv ih1 ih2 =>
    simp only [renS, exec, ih1, h, Option.map_some, renRes, renOutcome, loopvals_ren,
      evalArgs_ren ρ hρ, hv, names_ren, bindParams_ren]
    have : renSt ρ { σ' with env := bindParams (names vars) vs ++ σ'.env } =
        { renSt ρ σ' with env := renEnv ρ (bindParams (names vars) vs) ++ (renSt ρ σ').env } := by
      simp [renSt, renEnv_append]
    rw [← this]
    simpa [renS] using ih2
  | case35 fuel e σ h =>
    simp [renS, exec, evalE_ren ρ hρ, h]
  | case36 fuel e σ v h =>
    simp only [renS, exec, evalE_ren ρ hρ, h]
    simp [renRes, renOutcome]
  | case37 fuel x e σ h =>
    simp [renS, exec, evalInt_ren ρ hρ, h]
  | case38 fuel x e σ n h =>
    simp only [renS, exec, evalInt_ren ρ hρ, h]
    simp [renRes, renOutcome, renSt, renEnv, renVal]
  | case39 fuel x e σ h =>
    simp [renS, exec, evalIsPtr_ren ρ hρ, h]
  | case40 fuel x e σ n h =>
    simp only [renS, exec, evalIsPtr_ren ρ hρ, h]
    simp [renRes, renOutcome, renSt, renEnv, renVal]
  | case41 fuel x e σ h =>
    simp [renS, exec, evalE_ren ρ hρ, h]
  | case42 fuel x e σ v h =>
    simp only [renS, exec, evalE_ren ρ hρ, h]
    simp [renRes, renOutcome, renSt, renEnv]
  | case43 fuel x σ =>
    simp [renS, exec, renRes, renOutcome]
  | case44 fuel x e σ h =>
    simp [renS, exec, evalE_ren ρ hρ, h]
  | case45 fuel x e σ v h =>
    simp only [renS, exec, evalE_ren ρ hρ, h]
    simp [renRes, renOutcome, renSt, renEnv]
  | case46 fuel c invert body σ h =>
    simp [renS, exec, evalInt_ren ρ hρ, h]
  | case47 fuel c invert body σ n hn hc ih =>
    simp only [renS, exec, evalInt_ren ρ hρ, hn, hc, ↓reduceIte]
    exact ih
  | case48 fuel c invert body σ n hn hc =>
    simp only [renS, exec, evalInt_ren ρ hρ, hn, hc]
    simp [renRes, renOutcome]
  | case49 fuel x f ctx σ h =>
    simp [renS, exec, evalE_ren ρ hρ, h]
  | case50 fuel x f ctx σ v h =>
    simp only [renS, exec, evalE_ren ρ hρ, h]
    simp [renRes, renOutcome, renSt, renEnv, renVal]

/-- **mir_rename_invariant_full**: for every injective renaming of function names, string-global
names and variable / temporary names, every program, entry point and fuel: the renamed program
prints exactly what the original prints, and gets stuck / runs out of fuel exactly when it does. -/
theorem mir_rename_invariant_full (ρ : Ren) (hρ : RenInj ρ) (p : Prog) (fuel main : Nat) :
    run (renProg ρ p) fuel (ρ.f main) = run p fuel main := by
  unfold run
  rw [lookup_fun_ren ρ hρ]
  cases h : lookup p.funs main with
  | none => simp
  | some fn =>
    have := exec_ren ρ hρ p fuel fn.body { env := [], heap := [], out := [] }
    simp only [renSt, renEnv, List.map_nil] at this
    simp only [Option.map_some, renFn, this]
    cases exec p fuel fn.body { env := [], heap := [], out := [] } with
    | none => simp
    | some r =>
      obtain ⟨o, σ'⟩ := r
      cases o <;> simp [renRes, renOutcome, renSt]

/-- non-vacuity: `main` builds a closure `[fn 1, 5]`, calls it with `2` (prints 7), then runs
`i := 0; while true { if !(i < 3) break i; i := i + 1 }` and prints the break value (3).
Renaming: `main ↦ 20`, `f ↦ 21`, variables shifted by 100. -/
def demo : Prog :=
  { funs := [
      (0, ⟨[], .seq (.structInit 1 [.fname 1, .lit 5])
            (.seq (.call 2 (.closure (.var 1)) [.lit 2])
            (.seq (.print (.var 2))
            (.seq (.while [(3, .lit 0, .var 4)]
                    (.seq (.bin 5 .lt (.var 3) (.lit 3))
                    (.seq (.ite (.var 5) .skip (.brk (.var 3)) [])
                          (.bin 4 .add (.var 3) (.lit 1)))) 6)
                  (.print (.var 6))))), .lit 0⟩),
      (1, ⟨[10, 11], .bin 12 .add (.var 10) (.var 11), .var 12⟩)],
    globs := [] }
def demoRen : Ren := ⟨fun n => n + 20, fun n => n + 9, fun n => n + 100⟩

example : run demo 8 0 = some [.int 7, .int 3] := by
  simp [run, demo, lookup, exec, evalE, evalInt, evalPrinted, evalArgs, resolveCallee, bindParams, binop,
    pickFinals, names, inits, loopVals]

example : run (renProg demoRen demo) 8 20 = some [.int 7, .int 3] := by
  rw [show (20 : Nat) = demoRen.f 0 from rfl,
    mir_rename_invariant_full demoRen ⟨fun a b h => by simpa [demoRen] using h,
      fun a b h => by simpa [demoRen] using h, fun a b h => by simpa [demoRen] using h⟩]
  simp [run, demo, lookup, exec, evalE, evalInt, evalPrinted, evalArgs, resolveCallee, bindParams, binop,
    pickFinals, names, inits, loopVals]

/-- non-vacuity for the remaining statement kinds: `ClosureInit`, closure call, `Cast`, `IsPointer`,
`Not`, `LateInitDeclaration`, `SingleIf` (inverted) with a `LateInitAssignment`. Prints 7, 1, 9. -/
def demo2 : Prog :=
  { funs := [
      (0, ⟨[], .seq (.closureInit 1 1 (.lit 5))
            (.seq (.call 2 (.closure (.var 1)) [.lit 2])
            (.seq (.print (.var 2))
            (.seq (.cast 3 (.var 1))
            (.seq (.isPointer 4 (.var 3))
            (.seq (.print (.var 4))
            (.seq (.not 5 (.var 4))
            (.seq (.lateDecl 6)
            (.seq (.singleIf (.var 5) true (.lateAssign 6 (.lit 9)))
                  (.print (.var 6)))))))))), .lit 0⟩),
      (1, ⟨[10, 11], .bin 12 .add (.var 10) (.var 11), .var 12⟩)],
    globs := [] }

example : run demo2 4 0 = some [.int 7, .int 1, .int 9] := by
  simp [run, demo2, lookup, exec, evalE, evalInt, evalIsPtr, evalPrinted, evalArgs, resolveCallee, bindParams, binop]

end SamVerif.MirFull
