import SamVerif.Props.C11
/-! C11, necessity of the announcement hypothesis of `gcStep_safe` (seeded fault C11h collected the
announced module keys BEFORE the freshly checked modules were inserted): a checked module that is
not announced to the collector is never marked, and one GC round reclaims a string it holds —
although the marker covers it (`Cov`). So `∀ md ∈ all, md.id ∈ changed` is not a proof convenience:
it is the obligation `ServerState::recheck` has to meet, and the correspondence run checks it on
every real GC round (`UNANNOUNCED-MODULE`). -/
namespace SamVerif.Gc
open SamVerif.Heap

/-- a heap holding one freshly allocated (temporary, not yet marked) long string -/
def h1 : Heap := (allocString init nameA).1
def newModule : Module := ⟨3, [.ref 0]⟩

theorem h1_slot : h1.slots = [.temp nameA false] := by decide

theorem unannounced_module_counterexample :
    Cov h1 [newModule] [.ref 0] ∧ DistinctIds [newModule] ∧
    Heap.read h1 (.ref 0) = some nameA ∧
    -- announced: survives
    Heap.read (gcStep h1 [newModule] [3] numModuleMarkedPerSlice numSweepUnit [some 3, none]) (.ref 0) = some nameA ∧
    -- not announced (the module entered `checked_modules` after the keys were collected): reclaimed
    Heap.read (gcStep h1 [newModule] [] numModuleMarkedPerSlice numSweepUnit [none]) (.ref 0) = none := by
  refine ⟨?_, ?_, by decide, by decide, by decide⟩
  · intro p hp id hid
    right
    refine ⟨newModule, by simp, ?_⟩
    simp only [List.mem_singleton] at hp
    subst hp
    simp [newModule]
  · simp [DistinctIds, newModule]

/-- and with the hypothesis the general theorem applies to the same state -/
example : Heap.read (gcStep h1 [newModule] [3] 100 10000 [some 3, none]) (.ref 0) = some nameA :=
  gcStep_safe h1 (by unfold h1; exact (inv_step inv_init (.allocString nameA) (by simp [OpOk]))) [newModule]
    unannounced_module_counterexample.2.1 [3] (by simp [newModule]) 100 10000 [some 3, none] [.ref 0]
    unannounced_module_counterexample.1 (.ref 0) (by simp) nameA (by decide)

end SamVerif.Gc
