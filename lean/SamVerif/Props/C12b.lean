import SamVerif.Model.Layout
import SamVerif.Props.C12
/-! # C12 — enum layout choice vs. demand order (`layout_order_independent`) -/
namespace SamVerif.Layout

/-- `class A(ConsA(B))`, `class B(NilB, ConsB(A))` (names 0 and 1). -/
def mutualDefs : Defs := [(0, .enum [[.id 1]]), (1, .enum [[], [.id 0]])]

/- Full-strength statement, **false** on the unchanged code:
   `∀ defs roots roots', roots'.Perm roots → ∀ n, layoutOf defs roots' n = layoutOf defs roots n`. -/

/-- **layout_order_independent_counterexample**: the two demand orders of two mutually recursive
enums give different layouts (`ConsB` is `Unboxed` only when `A` is finished before `B`'s variant
is decided).  Before /repo e715c2f the difference was observable behaviour (finding C12-F3, witness
`A(NilA, ConsA(B))`, `B(NilB, ConsB(A))`); after it both layouts are sound representations, and
since /repo 15327a3 the roots are enumerated in module-name order
(`layout_sorted_roots_perm_invariant`), so the choice no longer depends on the hash seed. -/
theorem layout_order_independent_counterexample :
    ∃ (defs : Defs) (roots roots' : List Nat) (n : Nat), roots'.Perm roots ∧
      layoutOf defs roots' n ≠ layoutOf defs roots n :=
  ⟨mutualDefs, [0, 1], [1, 0], 1, List.Perm.swap 0 1 [], by decide⟩

example : layoutOf mutualDefs [0, 1] 0 = some (.enumL [.boxed]) ∧
    layoutOf mutualDefs [0, 1] 1 = some (.enumL [.int31, .boxed]) ∧
    layoutOf mutualDefs [1, 0] 0 = some (.enumL [.boxed]) ∧
    layoutOf mutualDefs [1, 0] 1 = some (.enumL [.int31, .unboxed]) := by decide

/-- a struct is a pointer even while it is in progress: `class S(val e: E)`, `class E(None, Some(S))`
gives `Some` unboxed over `S` in both demand orders. -/
example : layoutOf [(0, .struct [.id 1]), (1, .enum [[], [.id 0]])] [0] 1 = some (.enumL [.int31, .unboxed]) ∧
    layoutOf [(0, .struct [.id 1]), (1, .enum [[], [.id 0]])] [1] 1 = some (.enumL [.int31, .unboxed]) := by decide

/-- **layout_sorted_roots_perm_invariant** (/repo 15327a3): the specialisation roots are enumerated
in module-name order, so the layouts are the same for every iteration order of the module map. -/
theorem layout_sorted_roots_perm_invariant (defs : Defs) (roots roots' : List Nat)
    (hp : roots'.Perm roots) :
    layoutAll defs (SamVerif.ErrorSet.ofList SamVerif.ErrorSet.natLt roots') =
      layoutAll defs (SamVerif.ErrorSet.ofList SamVerif.ErrorSet.natLt roots) := by
  rw [SamVerif.ErrorSet.sorted_enumeration_perm_invariant SamVerif.ErrorSet.natLt_strictTotal roots roots' hp]

example : layoutAll mutualDefs (SamVerif.ErrorSet.ofList SamVerif.ErrorSet.natLt [1, 0]) =
    layoutAll mutualDefs (SamVerif.ErrorSet.ofList SamVerif.ErrorSet.natLt [0, 1]) := by decide

theorem stepV_fold_no_arity_one (vs vs' : List (Nat × Bool)) (s : LoopSt)
    (ha : vs.map (·.1) = vs'.map (·.1)) (h1 : ∀ v ∈ vs, v.1 ≠ 1) :
    vs.foldl stepV s = vs'.foldl stepV s := by
  induction vs generalizing vs' s with
  | nil => cases vs' with
    | nil => rfl
    | cons _ _ => simp at ha
  | cons v rest ih =>
    cases vs' with
    | nil => simp at ha
    | cons v' rest' =>
      simp only [List.map_cons, List.cons.injEq] at ha
      have hv : v.1 ≠ 1 := h1 v (by simp)
      have hv' : v'.1 ≠ 1 := ha.1 ▸ hv
      have : stepV s v = stepV s v' := by
        obtain ⟨a, b⟩ := v
        obtain ⟨a', b'⟩ := v'
        simp only at ha hv hv'
        have haa := ha.1
        subst haa
        simp [stepV, hv]
      simp only [List.foldl_cons, this]
      exact ih rest' _ ha.2 (fun w hw => h1 w (List.mem_cons_of_mem _ hw))

/-- **layout_loop_partial**: the order-dependent test only matters for an enum that has a variant
with exactly one field: for every other enum the variant loop yields the same layouts whatever the
permit bits (hence whatever the demand order) were. -/
theorem layout_loop_partial (vs vs' : List (Nat × Bool))
    (ha : vs.map (·.1) = vs'.map (·.1)) (h1 : ∀ v ∈ vs, v.1 ≠ 1) :
    variantLoop vs = variantLoop vs' := by
  unfold variantLoop
  rw [stepV_fold_no_arity_one vs vs' _ ha h1]

example : variantLoop [(0, false), (2, true), (3, false)] = variantLoop [(0, true), (2, false), (3, true)] := by
  decide

/-- …and the test *does* matter as soon as there is one: same arities, different bits. -/
theorem layout_loop_counterexample :
    ∃ vs vs' : List (Nat × Bool), vs.map (·.1) = vs'.map (·.1) ∧ variantLoop vs ≠ variantLoop vs' :=
  ⟨[(0, false), (1, true)], [(0, false), (1, false)], by decide, by decide⟩

end SamVerif.Layout
