import SamVerif.Lemmas.Incremental
/-!
# C10 — Incremental language-server diagnostics equal a from-scratch analysis

Property theorems only (helper lemmas, the hypotheses `Frame`, `LocalW`, `Kinds` on the checker
parameter and the invariants live in `Lemmas/Incremental.lean`).  The model is
`Model/Incremental.lean` (`dep_graph.rs`, `server_state.rs`, function by function; parser and type
checker are parameters).  It is tied to the code by the `lsphist` correspondence
(`harness/src/bin/c10.rs` vs `Driver/C10.lean`): the model, with the real checker's answers as its
checker parameter, must predict the exact diagnostics the real `ServerState` holds after every
operation of random histories.

Diagnostics are compared as sets (`ErrorSet` is a `BTreeSet`): `e ∈ getErrors s k`.

History.  Until the fix commits baf612a / 71ee3bd / f124d3b the code falsified the full statement;
this file then held `incremental_refines_fresh_partial` (no ROOT operand, parse-clean contents, no
class-moving rename) and three `…_counterexample_{rename,parse,root}` theorems (findings
C10-F1..F3).  The model now follows the fixed code, the theorem is at full strength, and the three
witnesses are regression `example`s below (and `corpus/C10/f*.json` on the real server).
-/
namespace SamVerif.Incremental

section Theorems
variable {Mod Content Sig Err : Type} [DecidableEq Mod]
variable (ck : Checker Mod Content Sig Err)

/-- **`transitive_set` is reachability** (dep_graph.rs:11-27), for every graph whose edges stay
inside a finite node list — no bound on the size of the graph.  (The fuel of the model's loop is
shown sufficient here, so the statement is fuel-free.) -/
theorem transitive_is_reachability (g : Mod → List Mod) (U : List Mod)
    (hU : ∀ x y, y ∈ g x → y ∈ U) (init : List Mod) (x : Mod) :
    x ∈ transitiveSet g U init ↔ ∃ i ∈ init, Reach g i x :=
  mem_transitiveSet g U hU init x

/-- **`affected_set` exactly**: `k` is rechecked iff some module `a` imports (transitively) a dirty
module and `k` is in the forward import closure of `a`. -/
theorem affected_exact (S : Sources Mod Content) (dirty : List Mod) (k : Mod) :
    k ∈ affectedSet ck S dirty ↔
      ∃ a, (∃ d ∈ dirty, Reach (fwdEdges ck S) a d) ∧ Reach (fwdEdges ck S) a k :=
  mem_affectedSet ck S dirty k

/-- **`affected_covers`**: every module whose forward import closure meets the dirty set is in
the recheck set (in particular the dirty modules themselves and all their transitive importers);
any graph, cyclic / self / missing imports included. -/
theorem affected_covers (S : Sources Mod Content) (dirty : List Mod) (k d : Mod)
    (hd : d ∈ dirty) (hr : Reach (fwdEdges ck S) k d) : k ∈ affectedSet ck S dirty :=
  (mem_affectedSet ck S dirty k).mpr ⟨k, ⟨d, hd, hr⟩, .refl k⟩

/-- The recheck set is closed under imports — what makes overwriting whole `errors` entries sound
although the checker reports some errors into imported modules (`LocalW`). -/
theorem affected_forward_closed (S : Sources Mod Content) (dirty : List Mod) (k x : Mod)
    (hk : k ∈ affectedSet ck S dirty) (hx : Reach (fwdEdges ck S) k x) :
    x ∈ affectedSet ck S dirty := by
  obtain ⟨a, ha, hak⟩ := (mem_affectedSet ck S dirty k).mp hk
  exact (mem_affectedSet ck S dirty x).mpr ⟨a, ha, hak.trans hx⟩

/-- The server's file map follows the file-system view of the history (all histories). -/
theorem sources_follow_files (S0 : Sources Mod Content) (ops : List (Op Mod Content)) :
    (run ck ops (fresh ck S0)).sources = applyOps ck.root ops S0 :=
  sources_run ck ops (fresh ck S0)

/-- **`incremental_refines_fresh`** (full strength): for **every** finite history of update
(single or batch, repeated modules, new files), rename and remove operations — ROOT operands,
unparsable contents, renames of modules with classes, renames onto existing or from missing
modules, cyclic / missing / self imports all included — starting from any set of files, the
incremental server holds for every module exactly the diagnostics of a freshly started server on
the current files, its `global_cx` is the fresh one, and its file map is the current files.

Hypotheses are on the checker parameter only: the frame hypothesis, weak locality (an error
reported into another module lies in the import closure and is also reported by that module's own
check) and "only the parser reports syntax errors"; all three are checked dynamically on every
real checker call of the correspondence run. -/
theorem incremental_refines_fresh (hF : Frame ck) (hL : LocalW ck) (hK : Kinds ck)
    (S0 : Sources Mod Content) (ops : List (Op Mod Content)) :
    (∀ k e, e ∈ getErrors (run ck ops (fresh ck S0)) k ↔
        e ∈ getErrors (fresh ck (applyOps ck.root ops S0)) k) ∧
      (∀ x, lookup (run ck ops (fresh ck S0)).globalCx x =
        lookup (fresh ck (applyOps ck.root ops S0)).globalCx x) ∧
      (run ck ops (fresh ck S0)).sources = applyOps ck.root ops S0 := by
  have hinv : Inv ck (run ck ops (fresh ck S0)) := by
    unfold run
    exact (foldl_inv (fun s => GraphFresh s ∧ Inv ck s) (step ck) ops
      (fun s o _ hs => ⟨graphFresh_step ck s o, step_inv ck hF hL hK s o hs.1 hs.2⟩) _
      ⟨(rfl : (fresh ck S0).graph = (fresh ck S0).sources), fresh_inv ck S0⟩).2
  have hsrc := sources_run ck ops (fresh ck S0)
  refine ⟨fun k e => ?_, fun x => ?_, hsrc⟩
  · rw [hinv.2 k e, hsrc]; rfl
  · rw [hinv.1 x, hsrc]; rfl

/-- Corollary: no stale diagnostics for a module that is not a file any more. -/
theorem no_diagnostics_for_non_files (hF : Frame ck) (hL : LocalW ck) (hK : Kinds ck)
    (S0 : Sources Mod Content) (ops : List (Op Mod Content)) (k : Mod)
    (hk : lookup (applyOps ck.root ops S0) k = none) :
    getErrors (run ck ops (fresh ck S0)) k = [] := by
  apply List.eq_nil_iff_forall_not_mem.mpr
  intro e he
  have := ((incremental_refines_fresh ck hF hL hK S0 ops).1 k e).mp he
  rw [fresh_char ck hL] at this
  obtain ⟨c, hc, _⟩ := this
  rw [hk] at hc; cases hc

/-- **`checked_tracks_sources`**: after every history, `checked_modules` has an entry for exactly
the current source modules: keys(checked_modules) = keys(parsed_modules) = keys(string_sources)
(the last equality is built into the model: the two maps are one).  This is the announcement
hypothesis of C11's GC theorem.  No hypothesis on the checker. -/
theorem checked_tracks_sources (S0 : Sources Mod Content) (ops : List (Op Mod Content)) (m : Mod) :
    m ∈ (run ck ops (fresh ck S0)).checked ↔
      (lookup (run ck ops (fresh ck S0)).sources m).isSome = true := by
  have : CheckedOk (run ck ops (fresh ck S0)) := by
    unfold run
    exact foldl_inv CheckedOk (step ck) ops (fun s o _ hs => step_checked ck s o hs) _
      (fresh_checked ck S0)
  exact this m

/-- **The LSP handlers have the file-system effect of the notifications** (`main.rs`
did_change / did_create_files / did_rename_files / did_delete_files → update / rename_module /
remove), deletes of files the server has never heard of (mapped to ROOT) and documents outside of the
source directory (skipped, fix d68f1d6) included. -/
theorem lsp_glue_file_view (S : Sources Mod Content) (evs : List (Event Mod Content))
    (h : ∀ ev ∈ evs, EventNoRoot ck.root ev) :
    applyOps ck.root (evs.map (glue ck.root)) S = applyEvents ck.root evs S :=
  glue_file_view_run ck.root evs h S

/-- **End to end**: after any sequence of LSP notifications the server holds, for every module,
the diagnostics of a freshly started server on the files as the notifications left them. -/
theorem lsp_events_refine_fresh (hF : Frame ck) (hL : LocalW ck) (hK : Kinds ck)
    (S0 : Sources Mod Content) (evs : List (Event Mod Content))
    (h : ∀ ev ∈ evs, EventNoRoot ck.root ev) (k : Mod) (e : Err) :
    e ∈ getErrors (run ck (evs.map (glue ck.root)) (fresh ck S0)) k ↔
      e ∈ getErrors (fresh ck (applyEvents ck.root evs S0)) k := by
  rw [(incremental_refines_fresh ck hF hL hK S0 _).1 k e, lsp_glue_file_view ck S0 evs h]

/-- **`incremental_refines_fresh_epochs`**: the refinement with the hypothesis about name identity
made explicit.  Signatures are built at the epoch of the operation that (re-)parses a module and are
kept across later operations and string-GC rounds; if names are stable (`NamesStable`), the server
after any history — operation `t` running with the checker of epoch `t + 1` — holds the diagnostics
of a server freshly started at **any** later epoch `T` on the current files. -/
theorem incremental_refines_fresh_epochs (e : EChecker Mod Content Sig Err) (hN : NamesStable e)
    (hF : Frame (e.at 0)) (hL : LocalW (e.at 0)) (hK : Kinds (e.at 0))
    (S0 : Sources Mod Content) (ops : List (Op Mod Content)) (T : Nat) (k : Mod) (err : Err) :
    err ∈ getErrors (runE e 1 ops (fresh (e.at 0) S0)) k ↔
      err ∈ getErrors (fresh (e.at T) (applyOps e.base.root ops S0)) k := by
  rw [runE_eq_run e hN, at_eq_of_stable e hN T 0]
  exact (incremental_refines_fresh (e.at 0) hF hL hK S0 ops).1 k err

/-- **`graph_fresh`**: after every history the stored dependency graph (`dep_graph`, which
`rename_module` and `remove` of the NEXT operation query) is the graph of the current sources:
`dep_graph = DependencyGraph::new(parsed_modules)`.  No hypothesis on the checker.  (A rebuild
placed before the modules are moved — seeded fault C11f — falsifies exactly this.) -/
theorem graph_fresh (S0 : Sources Mod Content) (ops : List (Op Mod Content)) :
    (run ck ops (fresh ck S0)).graph = (run ck ops (fresh ck S0)).sources := by
  have : GraphFresh (run ck ops (fresh ck S0)) := by
    unfold run
    exact foldl_inv GraphFresh (step ck) ops (fun s o _ _ => graphFresh_step ck s o) _ rfl
  exact this

/-- **`rename_single`**: what one effective rename `(a, b)` does to the file map and to
`global_cx`, whatever `b` was before (absent, an existing module that is overwritten, or `a`
itself): the text of `a` ends up under `b`, nothing under `a` (unless `a = b`), the signature under
`b` is the one built for `b`, everything else is untouched. -/
theorem rename_single (s : State Mod Content Sig Err) (a b : Mod) (c : Content)
    (ha : a ≠ ck.root) (hb : b ≠ ck.root) (hl : lookup s.sources a = some c) :
    (∀ x, lookup (rename ck s [(a, b)]).sources x =
        if b = x then some c else if a = x then none else lookup s.sources x) ∧
      (∀ x, lookup (rename ck s [(a, b)]).globalCx x =
        if b = x then some (ck.sig b c) else if a = x then none else lookup s.globalCx x) := by
  have hp : renamePairs ck.root [(a, b)] = [(a, b)] := by simp [renamePairs, ha, hb]
  have hs : (rename ck s [(a, b)]).sources = insert (erase s.sources a) b c := by
    simp only [rename, hp, List.foldl_cons, List.foldl_nil, renameOne, hl]; rfl
  have hgc : (rename ck s [(a, b)]).globalCx = insert (erase s.globalCx a) b (ck.sig b c) := by
    simp only [rename, hp, List.foldl_cons, List.foldl_nil, renameOne, hl]; rfl
  exact ⟨fun x => by rw [hs, lookup_insert, lookup_erase],
    fun x => by rw [hgc, lookup_insert, lookup_erase]⟩

/-- **`rename_self_identity`**: renaming a module onto its own name is the identity on the file
map, and leaves `global_cx` with the (rebuilt) signature of that module — it must not lose it
(seeded fault C10f: `remove(old)` after `insert(new)`). -/
theorem rename_self_identity (s : State Mod Content Sig Err) (m : Mod) (c : Content)
    (hm : m ≠ ck.root) (hl : lookup s.sources m = some c) :
    (∀ x, lookup (rename ck s [(m, m)]).sources x = lookup s.sources x) ∧
      lookup (rename ck s [(m, m)]).globalCx m = some (ck.sig m c) ∧
      (∀ x, x ≠ m → lookup (rename ck s [(m, m)]).globalCx x = lookup s.globalCx x) := by
  obtain ⟨h1, h2⟩ := rename_single ck s m m c hm hm hl
  refine ⟨fun x => ?_, ?_, fun x hx => ?_⟩
  · rw [h1]; by_cases h : m = x
    · subst h; simp [hl]
    · simp [h]
  · rw [h2]; simp
  · rw [h2]; have : ¬ m = x := fun e => hx e.symm
    simp [this]

/-- **`rename_missing_noop`**: a rename whose old name is not a file changes neither the file map
nor `global_cx` (the new name, if it is a module, keeps its text and signature). -/
theorem rename_missing_noop (s : State Mod Content Sig Err) (a b : Mod)
    (hl : lookup s.sources a = none) :
    (rename ck s [(a, b)]).sources = s.sources ∧ (rename ck s [(a, b)]).globalCx = s.globalCx := by
  by_cases hp : a ≠ ck.root ∧ b ≠ ck.root
  · have : renamePairs ck.root [(a, b)] = [(a, b)] := by simp [renamePairs, hp.1, hp.2]
    simp only [rename, this, List.foldl_cons, List.foldl_nil, renameOne, hl]
    exact ⟨rfl, rfl⟩
  · have : renamePairs ck.root [(a, b)] = [] := by
      simp only [renamePairs, List.filter_cons, List.filter_nil]
      split
      · rename_i h; simp at h; exact absurd h hp
      · rfl
    simp only [rename, this, List.foldl_nil]
    exact ⟨rfl, rfl⟩

/-- **`rename_chain`**: a chain `a → b → d` inside ONE batch moves the text of `a` to `d` and leaves
nothing (no text, no signature) under the intermediate name `b` nor under `a`. -/
theorem rename_chain (s : State Mod Content Sig Err) (a b d : Mod) (c : Content)
    (ha : a ≠ ck.root) (hb : b ≠ ck.root) (hd : d ≠ ck.root)
    (hab : a ≠ b) (had : a ≠ d) (hbd : b ≠ d) (hl : lookup s.sources a = some c) :
    lookup (rename ck s [(a, b), (b, d)]).sources d = some c ∧
      lookup (rename ck s [(a, b), (b, d)]).sources a = none ∧
      lookup (rename ck s [(a, b), (b, d)]).sources b = none ∧
      lookup (rename ck s [(a, b), (b, d)]).globalCx d = some (ck.sig d c) ∧
      lookup (rename ck s [(a, b), (b, d)]).globalCx a = none ∧
      lookup (rename ck s [(a, b), (b, d)]).globalCx b = none := by
  have hp : renamePairs ck.root [(a, b), (b, d)] = [(a, b), (b, d)] := by
    simp [renamePairs, ha, hb, hd]
  have h2 : lookup (insert (erase s.sources a) b c) b = some c := by simp [lookup_insert]
  have hs : (rename ck s [(a, b), (b, d)]).sources =
      insert (erase (insert (erase s.sources a) b c) b) d c := by
    simp only [rename, hp, List.foldl_cons, List.foldl_nil, renameOne, hl, h2]; rfl
  have hgc : (rename ck s [(a, b), (b, d)]).globalCx =
      insert (erase (insert (erase s.globalCx a) b (ck.sig b c)) b) d (ck.sig d c) := by
    simp only [rename, hp, List.foldl_cons, List.foldl_nil, renameOne, hl, h2]; rfl
  have e1 : ¬ d = a := fun e => had e.symm
  have e2 : ¬ d = b := fun e => hbd e.symm
  have e3 : ¬ b = a := fun e => hab e.symm
  refine ⟨?_, ?_, ?_, ?_, ?_, ?_⟩ <;>
    simp [hs, hgc, lookup_insert, lookup_erase, e1, e2, e3]

end Theorems

/-! ## Regression witnesses of the fixed findings, and non-vacuity -/

/-- Checker of former C10-F1: the signature is the module name it was built under; an import `x`
whose signature was built under another name is an error (`A` is incompatible with `A`). -/
def ckRename : Checker Nat (List Nat) Nat Nat where
  root := 99
  builtin := 99
  imports := fun c => c
  sig := fun m _ => m
  parseErrs := fun _ => []
  isSyntax := fun _ => false
  check := fun m c G => (c.filter (fun x => (G x).isSome && G x != some x)).map (fun x => (m, x))

theorem ckRename_local : LocalW ckRename := by
  intro S m c k e _ h
  simp only [ckRename, List.mem_map, Prod.mk.injEq] at h
  obtain ⟨_, _, rfl, _⟩ := h; exact .inl rfl

theorem ckRename_frame : Frame ckRename := by
  intro S S' m c hc h
  have : ∀ x ∈ c, lookup (freshCx ckRename S') x = lookup (freshCx ckRename S) x := by
    intro x hx
    have hr : Reach (fwdEdges ckRename S) m x :=
      .step (by simp [fwdEdges, hc, ckRename, hx]) (.refl x)
    simp only [lookup_freshCx, h x hr]
  have e : ∀ G, ckRename.check m c G =
      (c.filter (fun x => (G x).isSome && G x != some x)).map (fun x => (m, x)) := fun _ => rfl
  rw [e, e]
  congr 1
  apply List.filter_congr
  intro x hx
  rw [this x hx]

theorem ckRename_kinds : Kinds ckRename :=
  ⟨fun _ _ h => by simp [ckRename] at h, fun _ _ _ _ _ _ => rfl⟩

/-- Former C10-F1 witness (files `1 ↦ ∅`, `2 ↦ imports 3`; rename `1 → 3`): the stale-signature
error `3 ∈ errors[2]` is gone on the fixed code. -/
example : 3 ∉ getErrors (run ckRename [.rename [(1, 3)]] (fresh ckRename [(1, []), (2, [3])])) 2 := by
  decide

/-- Checker of former C10-F2: a content is (imports, has a syntax error); no type errors. -/
def ckParse : Checker Nat (List Nat × Bool) Unit Nat where
  root := 99
  builtin := ()
  imports := fun c => c.1
  sig := fun _ _ => ()
  parseErrs := fun c => if c.2 then [7] else []
  isSyntax := fun e => e == 7
  check := fun _ _ _ => []

/-- Former C10-F2 witnesses: the syntax error of `2` survives the recheck caused by re-saving its
dependency `1`; a batch that writes `1` twice keeps only the syntax errors of the last text; a
chained rename leaves no syntax error under the intermediate name. -/
example : 7 ∈ getErrors (run ckParse [.update [(1, ([], false))]]
    (fresh ckParse [(1, ([], false)), (2, ([1], true))])) 2 := by decide
example : 7 ∉ getErrors (run ckParse [.update [(1, ([], true)), (1, ([], false))]]
    (fresh ckParse [(1, ([], false))])) 1 := by decide
example : getErrors (run ckParse [.rename [(1, 2), (2, 3)]] (fresh ckParse [(1, ([], true))])) 2 = []
    ∧ getErrors (run ckParse [.rename [(1, 2), (2, 3)]] (fresh ckParse [(1, ([], true))])) 3 = [7] := by
  decide

/-- Checker of former C10-F3: every module needs the builtin signature under ROOT. -/
def ckRoot : Checker Nat Unit Unit Nat where
  root := 0
  builtin := ()
  imports := fun _ => []
  sig := fun _ _ => ()
  parseErrs := fun _ => []
  isSyntax := fun _ => false
  check := fun m _ G => if (G 0).isSome then [] else [(m, 5)]

/-- Former C10-F3 witness: `remove([ROOT])`, `update([(ROOT, _)])`, `rename ROOT` are ignored;
the later edit of module 1 sees the builtin signature. -/
example : getErrors (run ckRoot [.remove [0], .update [(0, ())], .rename [(0, 2), (1, 0)],
    .update [(1, ())]] (fresh ckRoot [(1, ())])) 1 = [] := by decide

/-- A checker that reports errors *into imported modules* (as the real one does for supertype
errors): a "bad" content reports `1` at itself, and every importer re-reports it at the same
place.  Editing an unrelated importer must not lose or duplicate anything. -/
def ckForeign : Checker Nat (List Nat × Bool) Bool Nat where
  root := 99
  builtin := false
  imports := fun c => c.1
  sig := fun _ c => c.2
  parseErrs := fun _ => []
  isSyntax := fun _ => false
  check := fun m c G => (if c.2 then [(m, 1)] else []) ++
    (c.1.filter (fun x => G x == some true)).map (fun x => (x, 1))

example :
    let ops : List (Op Nat (List Nat × Bool)) :=
      [.update [(3, ([1], false))], .update [(2, ([], false))], .remove [3], .update [(1, ([], false))]]
    let S0 : Sources Nat (List Nat × Bool) := [(1, ([], true)), (2, ([1], false))]
    (∀ k ∈ [1, 2, 3], getErrors (run ckForeign ops (fresh ckForeign S0)) k =
        getErrors (fresh ckForeign (applyOps 99 ops S0)) k) ∧
      getErrors (run ckForeign (ops.take 3) (fresh ckForeign S0)) 1 = [1] := by
  decide

/-- `NamesStable` is needed: if a re-parse at a later epoch gives a module's names another identity
(here: the signature of module 1 changes with the epoch), re-saving module 1 makes its importer 2
report an error a fresh server does not report — the shape of seeded fault C10e. -/
def eUnstable : EChecker Nat (List Nat) Nat Nat := { base := ckRename, sigAt := fun t m _ => m + t }

example : 1 ∈ getErrors (runE eUnstable 1 [.update [(1, [])]] (fresh (eUnstable.at 0) [(1, []), (2, [1])])) 2
    ∧ 1 ∉ getErrors (fresh (eUnstable.at 0) [(1, []), (2, [1])]) 2 := by decide

/-- `rename_self_identity` / `rename_chain` are not vacuous, and the self-rename keeps the diagnostics
of the importers right (module 2 imports 1; `1 → 1`): -/
example : getErrors (run ckRename [.rename [(1, 1)]] (fresh ckRename [(1, []), (2, [1])])) 2 = []
    ∧ lookup (run ckRename [.rename [(1, 1)]] (fresh ckRename [(1, []), (2, [1])])).globalCx 1 = some 1 := by
  decide
example : (run ckRename [.rename [(1, 3), (3, 4)]] (fresh ckRename [(1, [7]), (2, [3])])).sources
    = [(4, [7]), (2, [3])] := by decide

/-- LSP glue: deleting a file the server has never heard of (and one it knows) after a rename. -/
example : applyEvents 99 [.didRename [(some 1, some 3), (some 2, none)], .didDelete [none, some 2],
      .didChange (some 4) [3], .didChange none [], .didCreate [(some 5, none), (none, some []), (some 6, some [])]]
      [(1, []), (2, [3])]
    = [(6, []), (4, [3]), (3, [])] := by decide
example : glue 99 (.didChange none [1] : Event Nat (List Nat)) = .update [] := rfl
example : glue 99 (.didDelete [none, some 2] : Event Nat (List Nat)) = .remove [99, 2] := rfl

/-- `transitive_is_reachability` on a cyclic graph with a missing node. -/
example : transitiveSet (fun x => if x = 1 then [2, 7] else if x = 2 then [1] else []) [1, 2, 7] [2]
    = [7, 1, 2] := by decide

/-- The recheck set of a cyclic import graph with a self import and a missing import:
`1 → 2 → 1`, `3 → 3`, `4 → 9` (missing); editing 2 rechecks exactly {1, 2}. -/
example : affectedSet ckRename [(1, [2]), (2, [1]), (3, [3]), (4, [9])] [2] = [2, 1] := by decide
example : affectedSet ckRename [(1, [2]), (2, [1]), (3, [3]), (4, [9])] [9] = [9, 4] := by decide

/-- Non-vacuity of `incremental_refines_fresh`: its hypotheses hold for `ckRename`, and on a
history that creates and repairs errors in a dependent module the conclusion is a concrete fact. -/
example : ∀ k e, e ∈ getErrors (run ckRename
      [.update [(3, [2])], .rename [(3, 4)], .remove [1], .update [(1, [3, 4])]]
      (fresh ckRename [(1, []), (2, [3])])) k ↔
    e ∈ getErrors (fresh ckRename (applyOps 99
      [.update [(3, [2])], .rename [(3, 4)], .remove [1], .update [(1, [3, 4])]]
      [(1, []), (2, [3])])) k :=
  (incremental_refines_fresh ckRename ckRename_frame ckRename_local ckRename_kinds _ _).1

example : (run ckRename [.update [(3, [2])], .rename [(3, 4)], .remove [1], .update [(1, [3, 4])]]
      (fresh ckRename [(1, []), (2, [3])])).sources = [(1, [3, 4]), (4, [2]), (2, [3])] := by
  decide

end SamVerif.Incremental
