import SamVerif.Lemmas.Incremental
/-!
# C10 — Incremental language-server diagnostics equal a from-scratch analysis

Property theorems only (helper lemmas, the side conditions `Frame`, `Local`, `SigIndep`, `CleanS`,
`OpSafe` and the invariants live in `Lemmas/Incremental.lean`).  The model is
`Model/Incremental.lean` (`dep_graph.rs`, `server_state.rs`, function by function; parser and type
checker are parameters).  It is tied to the code by the `lsphist` correspondence
(`harness/src/bin/c10.rs` vs `Driver/C10.lean`): the model, with the real checker's answers as its
checker parameter, must predict the exact diagnostics the real `ServerState` holds after every
operation of random histories.

Diagnostics are compared as sets (`ErrorSet` is a `BTreeSet`): `e ∈ getErrors s k`.
-/
namespace SamVerif.Incremental

section Theorems
variable {Mod Content Sig Err : Type} [DecidableEq Mod]
variable (ck : Checker Mod Content Sig Err)

/-- **`transitive_set` is reachability** (dep_graph.rs:11-27), for every graph whose edges stay
inside a finite node list — no bound on the size of the graph.  (The fuel of the model's loop is
shown sufficient here, so the statement is fuel-free.) -/
theorem transitive_is_reachability (g : Mod → List Mod) (U : List Mod)
    (hU : ∀ x y, y ∈ g x → y ∈ U) (init : List Mod) (x : Mod) :
    x ∈ transitiveSet g U init ↔ ∃ i ∈ init, Reach g i x :=
  mem_transitiveSet g U hU init x

/-- **`affected_set` exactly**: `k` is rechecked iff some module `a` imports (transitively) a dirty
module and `k` is in the forward import closure of `a`. -/
theorem affected_exact (S : Sources Mod Content) (dirty : List Mod) (k : Mod) :
    k ∈ affectedSet ck S dirty ↔
      ∃ a, (∃ d ∈ dirty, Reach (fwdEdges ck S) a d) ∧ Reach (fwdEdges ck S) a k :=
  mem_affectedSet ck S dirty k

/-- **`affected_covers`**: every module whose forward import closure meets the dirty set is in
the recheck set (in particular the dirty modules themselves and all their transitive importers);
any graph, cyclic / self / missing imports included. -/
theorem affected_covers (S : Sources Mod Content) (dirty : List Mod) (k d : Mod)
    (hd : d ∈ dirty) (hr : Reach (fwdEdges ck S) k d) : k ∈ affectedSet ck S dirty :=
  (mem_affectedSet ck S dirty k).mpr ⟨k, ⟨d, hd, hr⟩, .refl k⟩

/-- The recheck set is closed under imports (what makes overwriting whole `errors` entries sound
for errors located in an imported module). -/
theorem affected_forward_closed (S : Sources Mod Content) (dirty : List Mod) (k x : Mod)
    (hk : k ∈ affectedSet ck S dirty) (hx : Reach (fwdEdges ck S) k x) :
    x ∈ affectedSet ck S dirty := by
  obtain ⟨a, ha, hak⟩ := (mem_affectedSet ck S dirty k).mp hk
  exact (mem_affectedSet ck S dirty x).mpr ⟨a, ha, hak.trans hx⟩

/-- **No `unwrap()` of `rename_module` (server_state.rs:157,165) can fire**, in any reachable
state, for any history whatsoever (ROOT operands, unparsable contents, duplicate batches included). -/
theorem rename_unwrap_never_fires (S0 : Sources Mod Content) (ops : List (Op Mod Content))
    (op : Op Mod Content) : StepOk ck (run ck ops (fresh ck S0)) op := by
  have hk : KeysOk (run ck ops (fresh ck S0)) := by
    unfold run
    exact foldl_inv KeysOk (step ck) ops (fun s o _ hs => keysOk_step ck s o hs) _
      (keysOk_fresh ck S0)
  cases op with
  | rename rens => exact renameOk_of_keysOk ck _ rens hk
  | update _ => trivial
  | remove _ => trivial

/-- The server's file map follows the file-system view of the history (all histories). -/
theorem sources_follow_files (S0 : Sources Mod Content) (ops : List (Op Mod Content)) :
    (run ck ops (fresh ck S0)).sources = applyOps ops S0 :=
  sources_run ck ops (fresh ck S0)

/-
**Full-strength statement** (`incremental_refines_fresh`), which the unchanged code falsifies:

  ∀ ck, Frame ck → Local ck → ∀ S0 ops k e,
    e ∈ getErrors (run ck ops (fresh ck S0)) k ↔ e ∈ getErrors (fresh ck (applyOps ops S0)) k

Three independent counterexamples are proved below (`FullSpec` is this statement):
`incremental_refines_fresh_counterexample_rename` (C10-F1: the moved signature still names the
old module), `…_counterexample_parse` (C10-F2: syntax errors of a rechecked, unedited module are
dropped), `…_counterexample_root` (C10-F3: `remove([ROOT])` deletes the builtin signature).
-/

/-- **`incremental_refines_fresh_partial`**: for every history of unbounded length in which
ROOT is never an operand, every written content parses without errors and renames occur only if
signatures do not mention their module (`OpSafe`), starting from any parse-clean set of files,
the incremental server holds for every module exactly the diagnostics of a freshly started server
on the current files, its `global_cx` is the fresh one, and its file map is the current files. -/
theorem incremental_refines_fresh_partial (hF : Frame ck) (hL : Local ck)
    (S0 : Sources Mod Content) (hS0 : CleanS ck S0) (ops : List (Op Mod Content))
    (hops : ∀ op ∈ ops, OpSafe ck op) :
    (∀ k e, e ∈ getErrors (run ck ops (fresh ck S0)) k ↔
        e ∈ getErrors (fresh ck (applyOps ops S0)) k) ∧
      (∀ x, lookup (run ck ops (fresh ck S0)).globalCx x =
        lookup (fresh ck (applyOps ops S0)).globalCx x) ∧
      (run ck ops (fresh ck S0)).sources = applyOps ops S0 := by
  have hinv : Inv ck (run ck ops (fresh ck S0)) := by
    unfold run
    exact foldl_inv (Inv ck) (step ck) ops (fun s o ho hs => step_inv ck hF hL s o (hops o ho) hs) _
      (fresh_inv ck S0 hS0)
  have hsrc := sources_run ck ops (fresh ck S0)
  refine ⟨fun k e => ?_, fun x => ?_, hsrc⟩
  · rw [hinv.2.1 k e, hsrc]; rfl
  · rw [hinv.1 x, hsrc]; rfl

/-- The full-strength statement at fixed types. -/
def FullSpec (Mod Content Sig Err : Type) [DecidableEq Mod] : Prop :=
  ∀ ck : Checker Mod Content Sig Err, Frame ck → Local ck →
    ∀ (S0 : Sources Mod Content) (ops : List (Op Mod Content)) (k : Mod) (e : Err),
      e ∈ getErrors (run ck ops (fresh ck S0)) k ↔ e ∈ getErrors (fresh ck (applyOps ops S0)) k

end Theorems

/-! ## Counterexamples (each replayed on the real `ServerState`, see `vlib/c10.py: probe_hist`) -/

/-- Checker for C10-F1: the signature is the module name it was built under; an import `x` whose
signature was built under another name is an error (`A` is incompatible with `A`). -/
def ckRename : Checker Nat (List Nat) Nat Nat where
  root := 99
  builtin := 99
  imports := fun c => c
  sig := fun m _ => m
  parseErrs := fun _ => []
  check := fun m c G => (c.filter (fun x => (G x).isSome && G x != some x)).map (fun x => (m, x))

theorem ckRename_local : Local ckRename := by
  intro S m c k e h
  simp only [ckRename, List.mem_map, Prod.mk.injEq] at h
  obtain ⟨_, _, rfl, _⟩ := h; rfl

theorem ckRename_frame : Frame ckRename := by
  intro S S' m c hc h
  have : ∀ x ∈ c, lookup (freshCx ckRename S') x = lookup (freshCx ckRename S) x := by
    intro x hx
    have hr : Reach (fwdEdges ckRename S) m x :=
      .step (by simp [fwdEdges, hc, ckRename, hx]) (.refl x)
    simp only [lookup_freshCx, h x hr]
  have e : ∀ G, ckRename.check m c G =
      (c.filter (fun x => (G x).isSome && G x != some x)).map (fun x => (m, x)) := fun _ => rfl
  rw [e, e]
  congr 1
  apply List.filter_congr
  intro x hx
  rw [this x hx]

/-- C10-F1 witness: files `1 ↦ (no imports)`, `2 ↦ imports 3`; rename `1 → 3`.  The incremental
server reports an error in module 2, a fresh one does not. -/
theorem incremental_refines_fresh_counterexample_rename : ¬ FullSpec Nat (List Nat) Nat Nat := by
  intro h
  have := h ckRename ckRename_frame ckRename_local [(1, []), (2, [3])] [.rename [(1, 3)]] 2 3
  revert this
  decide

/-- Checker for C10-F2: a content is (imports, has a syntax error); no type errors at all. -/
def ckParse : Checker Nat (List Nat × Bool) Unit Nat where
  root := 99
  builtin := ()
  imports := fun c => c.1
  sig := fun _ _ => ()
  parseErrs := fun c => if c.2 then [7] else []
  check := fun _ _ _ => []

/-- C10-F2 witness: `2` imports `1` and has a syntax error; re-saving `1` unchanged makes the
incremental server forget the syntax error of `2`. -/
theorem incremental_refines_fresh_counterexample_parse :
    ¬ FullSpec Nat (List Nat × Bool) Unit Nat := by
  intro h
  have := h ckParse (fun _ _ _ _ _ _ => rfl) (fun _ _ _ _ _ h => by simp [ckParse] at h)
    [(1, ([], false)), (2, ([1], true))] [.update [(1, ([], false))]] 2 7
  revert this
  decide

/-- Checker for C10-F3: every module needs the builtin signature under ROOT. -/
def ckRoot : Checker Nat Unit Unit Nat where
  root := 0
  builtin := ()
  imports := fun _ => []
  sig := fun _ _ => ()
  parseErrs := fun _ => []
  check := fun m _ G => if (G 0).isSome then [] else [(m, 5)]

theorem ckRoot_frame : Frame ckRoot := by
  intro S S' m c _ _
  simp [ckRoot, lookup_freshCx]

/-- C10-F3 witness: `remove([ROOT])` (what `did_delete_files` sends for an unknown file,
main.rs:251,409-411), then any edit: "cannot resolve" errors a fresh server does not have. -/
theorem incremental_refines_fresh_counterexample_root : ¬ FullSpec Nat Unit Unit Nat := by
  intro h
  have := h ckRoot ckRoot_frame
    (fun S m c k e h => by
      simp only [ckRoot] at h
      split at h
      · simp at h
      · simp only [List.mem_singleton, Prod.mk.injEq] at h; exact h.1)
    [(1, ())] [.remove [0], .update [(1, ())]] 1 5
  revert this
  decide

/-! ## Non-vacuity -/

/-- `transitive_is_reachability` on a cyclic graph with a missing node. -/
example : transitiveSet (fun x => if x = 1 then [2, 7] else if x = 2 then [1] else []) [1, 2, 7] [2]
    = [7, 1, 2] := by decide

/-- The recheck set of a cyclic import graph with a self import and a missing import:
`1 → 2 → 1`, `3 → 3`, `4 → 9` (missing); editing 2 rechecks exactly {1, 2}. -/
example : affectedSet ckRename [(1, [2]), (2, [1]), (3, [3]), (4, [9])] [2] = [2, 1] := by decide
example : affectedSet ckRename [(1, [2]), (2, [1]), (3, [3]), (4, [9])] [9] = [9, 4] := by decide

/-- The hypotheses of `incremental_refines_fresh_partial` are satisfiable by a history that does
produce and then repair an error in a dependent module: module 2 imports 3; creating 3 … -/
example :
    let ops : List (Op Nat (List Nat)) := [.update [(3, [2])], .remove [1], .update [(1, [3, 4])]]
    (∀ op ∈ ops, OpSafe ckRename op) ∧ CleanS ckRename [(1, []), (2, [3])] := by
  refine ⟨?_, fun _ _ _ => rfl⟩
  intro op hop
  simp only [List.mem_cons, List.not_mem_nil, or_false] at hop
  rcases hop with rfl | rfl | rfl <;> simp [OpSafe, keys, ckRename]

/-- …and its conclusion is a non-trivial fact on that history. -/
example : (run ckRename [.update [(3, [2])], .remove [1], .update [(1, [3, 4])]]
      (fresh ckRename [(1, []), (2, [3])])).sources = [(1, [3, 4]), (3, [2]), (2, [3])] := by
  decide

/-- `rename_unwrap_never_fires`: `RenameOk` is a real condition (false in an unreachable state). -/
example : ¬ RenameOk ckRename ⟨[(1, [])], [], []⟩ [(1, 2)] := by
  intro h; simp [RenameOk, lookup] at h

end SamVerif.Incremental
