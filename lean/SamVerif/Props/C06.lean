import SamVerif.Lemmas.IntRange
import SamVerif.Lemmas.Assign
/-!
# C06 — A program containing a static error is always rejected and never compiled

Property theorems only (helper lemmas: `Lemmas/IntRange.lean`, `Lemmas/Assign.lean`).

Two decision kernels of the front end are modelled and proved about:

* the integer-literal range gate (`Model/IntRange.lean` = `TokenProducer` of `lexer.rs:711-767`
  composed with the parser's `parse::<i32>().unwrap_or(0)`, `source_parser.rs:1512`);
* the assignability / meet / same-type kernels every type diagnostic goes through
  (`Model/Assign.lean` = `type_system.rs:11-169`, `type_.rs` `is_the_same_type`).

Both are tied to the code on every run by the `tok` / `asg` / `slv` correspondence protocols
(`harness/src/bin/c06.rs` vs `Driver/C06.lean`).  The inference engine that decides *where* `any`
placeholders arise, name resolution, visibility and exhaustiveness are not modelled; they are
reached by the mutant oracle of `vlib/c06.py` only (claim label: proof (partial)).
-/
namespace SamVerif.IntRange

/-! ## Integer literal range gate -/

/-- Exact description of the code, for every raw token stream: a literal is reported as
"Not a 32-bit integer." iff it exceeds 2³¹, or it is 2³¹ *and is the very first token*. -/
theorem literal_error_iff (rs : List Raw) (i v : Nat) (h : rs[i]? = some (.int v)) :
    (produce rs).2[i]? = some true ↔ (maxP1 < v ∨ (v = maxP1 ∧ i = 0)) := by
  simpa [produce] using run_err none rs i v h

example : (produce [.other 0, .int 5, .int 2147483649]).2 = [false, false, true] := by decide

/-- One error flag per raw token, never more. -/
theorem errors_aligned (rs : List Raw) : (produce rs).2.length = rs.length :=
  run_errs_length none rs

/-- Everything above 2³¹ is rejected wherever it stands (full strength, no side condition). -/
theorem above_range_always_rejected (rs : List Raw) (i v : Nat) (h : rs[i]? = some (.int v))
    (hv : maxP1 < v) : (produce rs).2[i]? = some true :=
  (literal_error_iff rs i v h).2 (Or.inl hv)

example : (produce [.minus, .int 2147483649]).2 = [false, true] := by decide

/-
FULL-STRENGTH STATEMENT (the property): for every token stream, a literal passes without an error
iff it is a 32-bit integer as written:

  theorem int_range_exact (rs : List Raw) (i v : Nat) (h : rs[i]? = some (.int v)) :
      (produce rs).2[i]? = some false ↔ InRange rs i v

The unchanged code falsifies it (design probe P11): 2³¹ after any token other than `-` passes.
-/
theorem int_range_exact_counterexample :
    ¬ ∀ (rs : List Raw) (i v : Nat), rs[i]? = some (.int v) →
        ((produce rs).2[i]? = some false ↔ InRange rs i v) := by
  intro h
  have := (h [.other 0, .int maxP1] 1 maxP1 rfl).1 (by decide)
  rcases this with h1 | ⟨_, j, hj, hm⟩
  · exact absurd h1 (by decide)
  · have : j = 0 := by omega
    subst this
    exact absurd hm (by decide)

/-- `_partial`: exact under the side condition "this literal is not 2³¹, or it is the first token,
or it directly follows a `-`" (decidable per token; satisfied e.g. by every literal < 2³¹). -/
theorem int_range_exact_partial (rs : List Raw) (i v : Nat) (h : rs[i]? = some (.int v))
    (side : v = maxP1 → i = 0 ∨ ∃ j, i = j + 1 ∧ rs[j]? = some .minus) :
    (produce rs).2[i]? = some false ↔ InRange rs i v := by
  have := run_err_false none rs i v h
  simp only [produce, this, InRange]
  constructor
  · intro hn
    rcases Nat.lt_trichotomy v maxP1 with hlt | heq | hgt
    · exact Or.inl hlt
    · rcases side heq with h0 | hj
      · exact absurd (Or.inr ⟨heq, h0, trivial⟩) hn
      · exact Or.inr ⟨heq, hj⟩
    · exact absurd (Or.inl hgt) hn
  · rintro (hlt | ⟨heq, j, hj, _⟩) hbad
    · rcases hbad with hgt | ⟨heq, _⟩ <;> omega
    · rcases hbad with hgt | ⟨_, h0, _⟩ <;> omega

example : (produce [.minus, .int maxP1]).2[1]? = some false ∧ InRange [.minus, .int maxP1] 1 maxP1 :=
  ⟨by decide, Or.inr ⟨rfl, 0, rfl, rfl⟩⟩
example : (produce [.int maxP1]).2[0]? = some true := by decide

/-- Nothing is lost or invented by the one-token buffer: un-merging the yielded tokens gives back
exactly the raw stream (so no literal can escape the gate by being dropped). -/
theorem producer_conserves_tokens (rs : List Raw) : expand (produce rs).1 = rs := by
  simpa [produce, expand] using run_conserves none rs

example : (produce [.other 1, .minus, .int maxP1, .minus]).1 =
    [.raw (.other 1), .negMin, .raw .minus] := by decide

/-
FULL-STRENGTH STATEMENT: if no error is reported, every integer token the parser receives is read
as the value that was written, and that value is a 32-bit integer:

  theorem accepted_literals_faithful (rs : List Raw) (hok : ∀ b ∈ (produce rs).2, b = false)
      (t : Tok) (ht : t ∈ (produce rs).1) (w : Int) (hw : writtenValue t = some w) :
      parserValue t = some w ∧ -(maxP1 : Int) ≤ w ∧ w < maxP1

Falsified by the unchanged code: `( 2147483648` is accepted without an error and read as `0`.
-/
theorem accepted_literals_faithful_counterexample :
    ∃ (rs : List Raw), (∀ b ∈ (produce rs).2, b = false) ∧
      ∃ t ∈ (produce rs).1, ∃ w, writtenValue t = some w ∧ parserValue t ≠ some w :=
  ⟨[.other 0, .int maxP1], by decide, .raw (.int maxP1), by decide, (maxP1 : Int), rfl, by decide⟩

/-- `_partial`: under `Guarded` (every literal 2³¹ is the first token or directly follows `-`),
a run without errors hands the parser only literals it reads faithfully, all within 32 bits. -/
theorem accepted_literals_faithful_partial (rs : List Raw) (hg : Guarded rs)
    (hok : ∀ b ∈ (produce rs).2, b = false)
    (t : Tok) (ht : t ∈ (produce rs).1) (w : Int) (hw : writtenValue t = some w) :
    parserValue t = some w ∧ -(maxP1 : Int) ≤ w ∧ w < maxP1 := by
  cases t with
  | negMin =>
    simp only [writtenValue, Option.some.injEq] at hw
    subst hw
    refine ⟨rfl, by simp [maxP1], by simp [maxP1]⟩
  | raw r =>
    cases r with
    | minus => simp [writtenValue] at hw
    | other k => simp [writtenValue] at hw
    | int v =>
      simp only [writtenValue, Option.some.injEq] at hw
      subst hw
      rcases mem_run_int none rs v ht with hp | ⟨i, hi, hn⟩
      · simp at hp
      · -- no error at i
        have hlen := run_errs_length none rs
        have hil : i < rs.length := by
          rcases Nat.lt_or_ge i rs.length with h' | h'
          · exact h'
          · simp [List.getElem?_eq_none h'] at hi
        have hne : (produce rs).2[i]? ≠ some true := by
          intro hc
          have := hok _ (List.mem_of_getElem? hc)
          simp at this
        have hchar := literal_error_iff rs i v hi
        have hnot : ¬ (maxP1 < v ∨ (v = maxP1 ∧ i = 0)) := fun hc => hne (hchar.2 hc)
        have hlt : v < maxP1 := by
          rcases Nat.lt_trichotomy v maxP1 with hlt | heq | hgt
          · exact hlt
          · exfalso
            subst heq
            rcases hg i hi with h0 | ⟨j, hj, hm⟩
            · exact hnot (Or.inr ⟨rfl, h0⟩)
            · apply hn
              refine ⟨rfl, ?_⟩
              subst hj
              simpa [prevIsMinus] using hm
          · exact absurd (Or.inl hgt) hnot
        refine ⟨by simp [parserValue, hlt], by simp [maxP1] <;> omega, by exact_mod_cast hlt⟩

example : Guarded [.other 3, .int 7, .minus, .int maxP1] := by
  intro i hi
  match i with
  | 0 => simp at hi
  | 1 => simp [maxP1] at hi
  | 2 => simp at hi
  | 3 => exact Or.inr ⟨2, rfl, rfl⟩
  | n + 4 => simp at hi

end SamVerif.IntRange

namespace SamVerif.Assign

/-! ## Assignability, meet, same-type: the gate of every type diagnostic -/

/-- For types without `any`, the assignability check accepts iff the two types are identical
(reasons/locations are not part of the model). -/
theorem assignable_iff_equal (a b : Ty) (ha : anyFree a = true) (hb : anyFree b = true) :
    assignable a b = true ↔ a = b :=
  assignable_iff_eq a b ha hb

example : assignable (.nominal false 1 2 [.prim .int]) (.nominal false 1 2 [.prim .bool]) = false := by
  decide

/-- The *only* way a type fault slips through an assignability check: an `any` on one side. -/
theorem fault_slips_only_through_any (a b : Ty) (h : assignable a b = true) (hne : a ≠ b) :
    anyFree a = false ∨ anyFree b = false := by
  cases ha : anyFree a
  · exact Or.inl rfl
  · cases hb : anyFree b
    · exact Or.inr rfl
    · exact absurd ((assignable_iff_eq a b ha hb).1 h) hne

/-- …and an `any` really is a hole: it is accepted against everything, on either side. -/
theorem any_accepts_everything (p : Bool) (t : Ty) :
    assignable (.any p) t = true ∧ assignable t (.any p) = true := by
  cases t <;> simp [assignable]

/-- `type_meet` reports an error exactly when `assignability_check` does (all types, `any` included). -/
theorem meet_accepts_iff_assignable (a b : Ty) : (meet a b).isSome = assignable a b :=
  meet_isSome_eq a b

/-- Without `any`, a successful meet is the (identical) input type: nothing is invented. -/
theorem meet_anyFree_eq (a b c : Ty) (ha : anyFree a = true) (hb : anyFree b = true)
    (h : meet a b = some c) : c = a ∧ a = b := by
  refine ⟨meet_anyFree a b c ha hb h, ?_⟩
  apply (assignable_iff_eq a b ha hb).1
  rw [← meet_isSome_eq, h]; rfl

example : meet (.fn [.prim .int] (.any true)) (.fn [.any false] (.prim .bool))
    = some (.fn [.prim .int] (.prim .bool)) := by simp [meet, meetL]

/-- `is_the_same_type` (interface-member conformance, bound identity) on annotation types — no
`any`, no class-statics — is equality. -/
theorem sameType_iff_equal (a b : Ty) (ha : anyFree a = true) (hb : anyFree b = true)
    (sa : noStatics a = true) (sb : noStatics b = true) : sameType a b = true ↔ a = b :=
  sameType_iff_eq a b ha hb sa sb

example : sameType (.fn [.prim .int] (.prim .int)) (.fn [.prim .int] (.prim .bool)) = false := by decide

/-- Arity gate inside types: function types (and type-argument lists) of different lengths are
never assignable, even when every component is `any`. -/
theorem arity_gate (as bs : List Ty) (r r' : Ty) (h : assignable (.fn as r) (.fn bs r') = true) :
    as.length = bs.length := by
  have : ∀ (xs ys : List Ty), assignableL xs ys = true → xs.length = ys.length := by
    intro xs
    induction xs with
    | nil => intro ys h; cases ys <;> simp_all [assignableL]
    | cons x xs ih =>
      intro ys h
      cases ys with
      | nil => simp [assignableL] at h
      | cons y ys =>
        simp only [assignableL, Bool.and_eq_true] at h
        simp [ih ys h.2]
  simp only [assignable, Bool.and_eq_true] at h
  exact this as bs h.1

example : assignable (.fn [.any true] (.any true)) (.fn [.any true, .any true] (.any true)) = false := by
  decide

/-- Call-site arity gate (`main_checker.rs:766`): accepted iff the counts agree. -/
theorem call_arity_gate (expected actual : Nat) : arityOk expected actual = true ↔ expected = actual := by
  simp [arityOk]

/-- Correct programs are not rejected by this gate: every type is assignable to itself. -/
theorem assignable_reflexive (a : Ty) : assignable a a = true := assignable_refl a

end SamVerif.Assign
