import SamVerif.Lemmas.IntRange
import SamVerif.Lemmas.Assign
/-!
# C06 — A program containing a static error is always rejected and never compiled

Property theorems only (helper lemmas: `Lemmas/IntRange.lean`, `Lemmas/Assign.lean`).

Two decision kernels of the front end are modelled and proved about:

* the integer-literal range gate (`Model/IntRange.lean` = `TokenProducer` of `lexer.rs:711-767`
  composed with the parser's `parse::<i32>().unwrap_or(0)`, `source_parser.rs:1512`);
* the assignability / meet / same-type kernels every type diagnostic goes through
  (`Model/Assign.lean` = `type_system.rs:11-169`, `type_.rs` `is_the_same_type`).

Both are tied to the code on every run by the `tok` / `asg` / `slv` correspondence protocols
(`harness/src/bin/c06.rs` vs `Driver/C06.lean`).  The inference engine that decides *where* `any`
placeholders arise, name resolution, visibility and exhaustiveness are not modelled; they are
reached by the mutant oracle of `vlib/c06.py` only (claim label: proof (partial)).
-/
namespace SamVerif.IntRange

/-! ## Integer literal range gate (code as of fix commit d5c9a21)

Historical note: before the fix the gate rejected the literal 2³¹ only as the very first token of a
file (finding C06-F1, design probe P11); this file then held `int_range_exact_counterexample`
(witness `( 2147483648`), `int_range_exact_partial` and the analogous pair for
`accepted_literals_faithful`. The fixed code satisfies the full-strength statements below. -/

/-- A literal, as written at index `i`, directly follows a `-` token. -/
theorem prevIsMinus_iff (rs : List Raw) (i : Nat) :
    prevIsMinus none rs i ↔ ∃ j, i = j + 1 ∧ rs[j]? = some .minus := by
  cases i with
  | zero => simp [prevIsMinus]
  | succ j => simp [prevIsMinus]

/-- **Full strength.** For every raw token stream and every integer literal in it: the literal
passes the gate without an error iff it is a 32-bit integer as written (below 2³¹, or exactly 2³¹
directly preceded by `-`). -/
theorem int_range_exact (rs : List Raw) (i v : Nat) (h : rs[i]? = some (.int v)) :
    (produce rs).2[i]? = some false ↔ InRange rs i v := by
  have := run_err_false none rs i v h
  simp only [produce, this, InRange, ← prevIsMinus_iff]
  constructor
  · intro hn
    rcases Nat.lt_trichotomy v maxP1 with hlt | heq | hgt
    · exact Or.inl hlt
    · refine Or.inr ⟨heq, ?_⟩
      apply Classical.byContradiction
      intro hc
      exact hn (Or.inr ⟨heq, hc⟩)
    · exact absurd (Or.inl hgt) hn
  · rintro (hlt | ⟨heq, hm⟩) hbad
    · rcases hbad with hgt | ⟨heq, _⟩ <;> omega
    · rcases hbad with hgt | ⟨_, hnm⟩
      · omega
      · exact hnm hm

example : (produce [.other 0, .int maxP1]).2 = [false, true] := by decide
example : (produce [.minus, .int maxP1]).2 = [false, false] := by decide
example : (produce [.other 0, .int 5, .int 2147483649]).2 = [false, false, true] := by decide

/-- Equivalent reading: an error is reported exactly for the out-of-range literals. -/
theorem literal_error_iff (rs : List Raw) (i v : Nat) (h : rs[i]? = some (.int v)) :
    (produce rs).2[i]? = some true ↔ ¬ InRange rs i v := by
  have := run_err none rs i v h
  simp only [produce, this, InRange, ← prevIsMinus_iff]
  constructor
  · rintro (hgt | ⟨heq, hnm⟩) (hlt | ⟨heq', hm⟩)
    · omega
    · omega
    · omega
    · exact hnm hm
  · intro hn
    rcases Nat.lt_trichotomy v maxP1 with hlt | heq | hgt
    · exact absurd (Or.inl hlt) hn
    · exact Or.inr ⟨heq, fun hm => hn (Or.inr ⟨heq, hm⟩)⟩
    · exact Or.inl hgt

/-- One error flag per raw token, never more. -/
theorem errors_aligned (rs : List Raw) : (produce rs).2.length = rs.length :=
  run_errs_length none rs

/-- Everything above 2³¹ is rejected wherever it stands. -/
theorem above_range_always_rejected (rs : List Raw) (i v : Nat) (h : rs[i]? = some (.int v))
    (hv : maxP1 < v) : (produce rs).2[i]? = some true :=
  (run_err none rs i v h).2 (Or.inl hv)

example : (produce [.minus, .int 2147483649]).2 = [false, true] := by decide

/-- Nothing is lost or invented by the one-token buffer: un-merging the yielded tokens gives back
exactly the raw stream (so no literal can escape the gate by being dropped). -/
theorem producer_conserves_tokens (rs : List Raw) : expand (produce rs).1 = rs := by
  simpa [produce, expand] using run_conserves none rs

example : (produce [.other 1, .minus, .int maxP1, .minus]).1 =
    [.raw (.other 1), .negMin, .raw .minus] := by decide

/-- **Full strength.** If no error is reported, every integer token the parser receives is read
(`parse::<i32>().unwrap_or(0)`) as exactly the value that was written, and that value is a 32-bit
integer. -/
theorem accepted_literals_faithful (rs : List Raw)
    (hok : ∀ b ∈ (produce rs).2, b = false)
    (t : Tok) (ht : t ∈ (produce rs).1) (w : Int) (hw : writtenValue t = some w) :
    parserValue t = some w ∧ -(maxP1 : Int) ≤ w ∧ w < maxP1 := by
  cases t with
  | negMin =>
    simp only [writtenValue, Option.some.injEq] at hw
    subst hw
    refine ⟨rfl, by simp [maxP1], by simp [maxP1]⟩
  | raw r =>
    cases r with
    | minus => simp [writtenValue] at hw
    | other k => simp [writtenValue] at hw
    | int v =>
      simp only [writtenValue, Option.some.injEq] at hw
      subst hw
      rcases mem_run_int none rs v ht with hp | ⟨i, hi, hn⟩
      · simp at hp
      · have hne : (produce rs).2[i]? ≠ some true := by
          intro hc
          have := hok _ (List.mem_of_getElem? hc)
          simp at this
        have hchar := run_err none rs i v hi
        have hnot : ¬ (maxP1 < v ∨ (v = maxP1 ∧ ¬ prevIsMinus none rs i)) := fun hc => hne (hchar.2 hc)
        have hlt : v < maxP1 := by
          rcases Nat.lt_trichotomy v maxP1 with hlt | heq | hgt
          · exact hlt
          · exfalso
            exact hnot (Or.inr ⟨heq, fun hm => hn ⟨heq, hm⟩⟩)
          · exact absurd (Or.inl hgt) hnot
        refine ⟨by simp [parserValue, hlt], by simp [maxP1] <;> omega, by exact_mod_cast hlt⟩

example : (produce [.other 3, .int 7, .minus, .int maxP1]).2 = [false, false, false, false] ∧
    (produce [.other 3, .int 7, .minus, .int maxP1]).1 = [.raw (.other 3), .raw (.int 7), .negMin] := by
  decide

end SamVerif.IntRange

namespace SamVerif.Assign

/-! ## Assignability, meet, same-type: the gate of every type diagnostic -/

/-- For types without `any`, the assignability check accepts iff the two types are identical
(reasons/locations are not part of the model). -/
theorem assignable_iff_equal (a b : Ty) (ha : anyFree a = true) (hb : anyFree b = true) :
    assignable a b = true ↔ a = b :=
  assignable_iff_eq a b ha hb

example : assignable (.nominal false 1 2 [.prim .int]) (.nominal false 1 2 [.prim .bool]) = false := by
  decide

/-- **Class identity in assignability.** Two nominal types are assignable only if they name the
same toplevel of the same *module* with the same class-statics flag (and have assignable type
arguments): identity is (module, name, statics), never the name alone. -/
theorem assign_nominal_identity (s1 s2 : Bool) (m1 m2 i1 i2 : Nat) (as bs : List Ty)
    (h : assignable (.nominal s1 m1 i1 as) (.nominal s2 m2 i2 bs) = true) :
    m1 = m2 ∧ i1 = i2 ∧ s1 = s2 ∧ assignableL as bs = true := by
  simp only [assignable, Bool.and_eq_true, beq_iff_eq] at h
  exact ⟨h.1.1.1, h.1.1.2, h.1.2, h.2⟩

/-- Counterexample to the name-only reading (the shape of seeded fault C06g): same class name and
type arguments, different module — not assignable, in either direction, nor are they "the same
type" for conformance. -/
theorem assign_nominal_name_only_counterexample :
    assignable (.nominal false 1 5 [.prim .int]) (.nominal false 2 5 [.prim .int]) = false ∧
    assignable (.nominal false 2 5 [.prim .int]) (.nominal false 1 5 [.prim .int]) = false ∧
    (meet (.nominal false 1 5 []) (.nominal false 2 5 [])).isSome = false ∧
    sameType (.nominal false 1 5 []) (.nominal false 2 5 []) = false := by
  refine ⟨by decide, by decide, ?_, by decide⟩
  rw [meet_isSome_eq]; decide

/-- The *only* way a type fault slips through an assignability check: an `any` on one side. -/
theorem fault_slips_only_through_any (a b : Ty) (h : assignable a b = true) (hne : a ≠ b) :
    anyFree a = false ∨ anyFree b = false := by
  cases ha : anyFree a
  · exact Or.inl rfl
  · cases hb : anyFree b
    · exact Or.inr rfl
    · exact absurd ((assignable_iff_eq a b ha hb).1 h) hne

/-- …and an `any` really is a hole: it is accepted against everything, on either side. -/
theorem any_accepts_everything (p : Bool) (t : Ty) :
    assignable (.any p) t = true ∧ assignable t (.any p) = true := by
  cases t <;> simp [assignable]

/-- **Exact characterisation with `any`.** The assignability check accepts two types iff they have
a common `any`-free instance, i.e. iff they are equal up to filling `any` holes (consistency of
gradual typing). Nothing else is ever accepted. -/
theorem assignable_iff_consistent (a b : Ty) :
    assignable a b = true ↔ ∃ c, anyFree c = true ∧ refines a c = true ∧ refines b c = true := by
  constructor
  · intro h
    exact ⟨common a b, common_spec a b h⟩
  · rintro ⟨c, hc, ha, hb⟩
    exact assignable_of_common_instance a b c hc ha hb

example : ¬ ∃ c, anyFree c = true ∧ refines (.fn [.any true] (.prim .int)) c = true ∧
    refines (.fn [.prim .bool] (.prim .bool)) c = true := by
  rw [← assignable_iff_consistent]; decide

/-- `type_meet` reports an error exactly when `assignability_check` does (all types, `any` included). -/
theorem meet_accepts_iff_assignable (a b : Ty) : (meet a b).isSome = assignable a b :=
  meet_isSome_eq a b

/-- Without `any`, a successful meet is the (identical) input type: nothing is invented. -/
theorem meet_anyFree_eq (a b c : Ty) (ha : anyFree a = true) (hb : anyFree b = true)
    (h : meet a b = some c) : c = a ∧ a = b := by
  refine ⟨meet_anyFree a b c ha hb h, ?_⟩
  apply (assignable_iff_eq a b ha hb).1
  rw [← meet_isSome_eq, h]; rfl

example : meet (.fn [.prim .int] (.any true)) (.fn [.any false] (.prim .bool))
    = some (.fn [.prim .int] (.prim .bool)) := by simp [meet, meetL]

/-- `is_the_same_type` (interface-member conformance, bound identity) on annotation types — no
`any`, no class-statics — is equality. -/
theorem sameType_iff_equal (a b : Ty) (ha : anyFree a = true) (hb : anyFree b = true)
    (sa : noStatics a = true) (sb : noStatics b = true) : sameType a b = true ↔ a = b :=
  sameType_iff_eq a b ha hb sa sb

example : sameType (.fn [.prim .int] (.prim .int)) (.fn [.prim .int] (.prim .bool)) = false := by decide

/-- Arity gate inside types: function types (and type-argument lists) of different lengths are
never assignable, even when every component is `any`. -/
theorem arity_gate (as bs : List Ty) (r r' : Ty) (h : assignable (.fn as r) (.fn bs r') = true) :
    as.length = bs.length := by
  have : ∀ (xs ys : List Ty), assignableL xs ys = true → xs.length = ys.length := by
    intro xs
    induction xs with
    | nil => intro ys h; cases ys <;> simp_all [assignableL]
    | cons x xs ih =>
      intro ys h
      cases ys with
      | nil => simp [assignableL] at h
      | cons y ys =>
        simp only [assignableL, Bool.and_eq_true] at h
        simp [ih ys h.2]
  simp only [assignable, Bool.and_eq_true] at h
  exact this as bs h.1

example : assignable (.fn [.any true] (.any true)) (.fn [.any true, .any true] (.any true)) = false := by
  decide

/-- Call-site arity gate (`main_checker.rs:766`): accepted iff the counts agree. -/
theorem call_arity_gate (expected actual : Nat) : arityOk expected actual = true ↔ expected = actual := by
  simp [arityOk]

/-! ## Constraint solving (`solve_type_constraints`, used for contextually typed calls) -/

/-- **Soundness of the generic-instantiation gate.** For an `any`-free concrete type and an
`any`-free generic type: if `solve_type_constraints` reports no error, then the computed
substitution really instantiates the generic type to the concrete type (and the returned "solved
generic type" is the concrete type). So a concrete type that is *not* an instance of the generic
type is always reported. -/
theorem solve_sound (tps : List Nat) (c g : Ty) (hc : anyFree c = true) (hg : anyFree g = true)
    (hok : (solveTypeConstraints tps c g).2.2 = false) :
    subst (solveTypeConstraints tps c g).1 g = c ∧ (solveTypeConstraints tps c g).2.1 = c := by
  simp only [solveTypeConstraints, solveMultiple, List.foldl_cons, List.foldl_nil] at hok ⊢
  have hv0 : AnyFreeVals ([] : Subst) := by intro n t h; simp [Subst.get] at h
  have hk0 : KeysIn tps ([] : Subst) := by intro n t h; simp [Subst.get] at h
  have hinv := solve_inv tps g c [] hc hv0 hk0
  have hfill := fill_inv tps tps (solve tps c g []) hinv.2.2 (fun n h => h)
  have hass : assignable c (subst (fillPlaceholders tps (solve tps c g [])) g) = true := by
    rw [← meet_isSome_eq]
    cases hm : meet c (subst (fillPlaceholders tps (solve tps c g [])) g) with
    | some _ => rfl
    | none => simp [hm] at hok
  have := solve_exact tps g c [] (fillPlaceholders tps (solve tps c g [])) hc hg hv0 hk0
    (by simpa [fillPlaceholders] using hfill.1) (by simpa [fillPlaceholders] using hfill.2) hass
  exact ⟨this, this⟩

example : (solveTypeConstraints [1] (.nominal false 1 2 [.prim .int, .prim .bool])
    (.nominal false 1 2 [.generic 1, .generic 1])).2.2 = true := by decide

/-! ## Branch joins: if / else-if chains and match arms -/

/-- **Full strength.** An if / else-if chain of any length whose branch types contain no `any` is
accepted iff *every* branch has the type of the first one. Hence a chain with one differently
typed branch — first, interior or last, whatever the context expects — has no accepted typing. -/
theorem ifChain_join_exact (a : Ty) (rest : List Ty) (h : anyFreeL (a :: rest) = true) :
    ifChainOk (a :: rest) = true ↔ ∀ t ∈ rest, t = a := by
  induction rest generalizing a with
  | nil => simp [ifChainOk]
  | cons b rest ih =>
    simp only [anyFreeL, Bool.and_eq_true] at h
    have hb : anyFreeL (b :: rest) = true := by simp [anyFreeL, h.2.1, h.2.2]
    have h1 := assignable_iff_eq b a h.2.1 h.1
    simp only [ifChainOk, Bool.and_eq_true, h1, ih b hb, List.mem_cons, forall_eq_or_imp]
    constructor
    · rintro ⟨rfl, h2⟩; exact ⟨rfl, h2⟩
    · rintro ⟨rfl, h2⟩; exact ⟨rfl, h2⟩

/-- One wrongly typed branch at *any* position of a chain of >= 2 branches is rejected. -/
theorem ifChain_one_wrong_branch_rejected (a t : Ty) (pre post : List Ty)
    (hpre : ∀ x ∈ pre, x = a) (hpost : ∀ x ∈ post, x = a) (hne : t ≠ a)
    (hlen : pre ≠ [] ∨ post ≠ []) (ha : anyFree a = true) (ht : anyFree t = true) :
    ifChainOk (pre ++ t :: post) = false := by
  have hall : ∀ (l : List Ty), (∀ x ∈ l, x = a) → anyFreeL l = true := by
    intro l hl
    induction l with
    | nil => rfl
    | cons x xs ih =>
      have hx : x = a := hl x (by simp)
      simp [anyFreeL, hx, ha, ih (fun y hy => hl y (by simp [hy]))]
  have hfree : anyFreeL (pre ++ t :: post) = true := by
    have : ∀ (l m : List Ty), anyFreeL l = true → anyFreeL m = true → anyFreeL (l ++ m) = true := by
      intro l m hl hm
      induction l with
      | nil => simpa using hm
      | cons x xs ih =>
        simp only [anyFreeL, Bool.and_eq_true] at hl
        simp [anyFreeL, hl.1, ih hl.2]
    exact this pre (t :: post) (hall pre hpre) (by simp [anyFreeL, ht, hall post hpost])
  cases hc : ifChainOk (pre ++ t :: post) with
  | false => rfl
  | true =>
    exfalso
    cases pre with
    | nil =>
      simp only [List.nil_append] at hc hfree
      have := (ifChain_join_exact t post hfree).1 hc
      cases post with
      | nil => simp at hlen
      | cons y ys =>
        have h1 : y = t := this y (by simp)
        have h2 : y = a := hpost y (by simp)
        exact hne (h1.symm.trans h2)
    | cons x xs =>
      simp only [List.cons_append] at hc hfree
      have := (ifChain_join_exact x (xs ++ t :: post) hfree).1 hc t (by simp)
      have hx : x = a := hpre x (by simp)
      exact hne (this.trans hx)

example : ifChainOk [.prim .int, .prim .bool, .prim .int, .prim .int] = false := by decide
example : ifChainOk [.prim .int, .prim .int, .prim .int] = true := by decide

/-- **Full strength.** Match arms without `any` are accepted iff every arm has the type of the
first one. -/
theorem match_join_exact (a : Ty) (rest : List Ty) (h : anyFreeL (a :: rest) = true) :
    matchArmsOk (a :: rest) = true ↔ ∀ t ∈ rest, t = a := by
  simp only [anyFreeL, Bool.and_eq_true] at h
  simp only [matchArmsOk, List.all_eq_true]
  have hmem : ∀ t ∈ rest, anyFree t = true := by
    have : ∀ (l : List Ty), anyFreeL l = true → ∀ t ∈ l, anyFree t = true := by
      intro l
      induction l with
      | nil => intro _ t ht; simp at ht
      | cons x xs ih =>
        intro hl t ht
        simp only [anyFreeL, Bool.and_eq_true] at hl
        rcases List.mem_cons.1 ht with rfl | ht'
        · exact hl.1
        · exact ih hl.2 t ht'
    exact this rest h.2
  constructor
  · intro hall t ht
    exact (assignable_iff_eq t a (hmem t ht) h.1).1 (hall t ht)
  · intro hall t ht
    exact (assignable_iff_eq t a (hmem t ht) h.1).2 (hall t ht)

example : matchArmsOk [.prim .int, .prim .int, .prim .bool] = false := by decide

/-- Correct programs are not rejected by this gate: every type is assignable to itself. -/
theorem assignable_reflexive (a : Ty) : assignable a a = true := assignable_refl a

end SamVerif.Assign
