import SamVerif.Lemmas.LexerValid
import SamVerif.Lemmas.LexerErr
import SamVerif.Lemmas.ParserLoops
import SamVerif.Lemmas.EntryPoint
/-!
# C05 — Any input text yields a result or diagnostics, never a crash or a hang

Property theorems about the scanner model `Model/Lexer.lean` (helper lemmas: `Lemmas/Lexer.lean`).
The model is tied to `crates/samlang-parser/src/lexer.rs` on every run by the translator
`extract/c05_keywords.py` (token tables) and the `lex` correspondence protocol
(`harness/src/bin/c05.rs`, hook H6, vs `Driver/C05.lean`).
-/
namespace SamVerif.Lexer

/-! ## scan_progress: the scanner cannot hang -/

/-- **Every scanner step consumes input**: a `next_token` call that returns a token leaves strictly
fewer bytes than it found (for every input and position; no bound). -/
theorem scan_step_progress (input : Bytes) (pos : Pos) (s : Scanned)
    (h : nextRaw input pos = .tok s) : s.rest.length < input.length :=
  nextRaw_progress h

example : ∃ s, nextRaw [32, 120, 32] ⟨0, 0⟩ = .tok s ∧ s.rest = [32] := ⟨_, rfl, rfl⟩

theorem rawLoop_terminates (fuel : Nat) (rest : Bytes) (pos : Pos) (h : rest.length < fuel) :
    (rawLoop fuel rest pos).fin ≠ .fuel ∧ (rawLoop fuel rest pos).toks.length ≤ rest.length := by
  induction fuel generalizing rest pos with
  | zero => omega
  | succ fuel ih =>
    unfold rawLoop
    split
    · simp
    · simp
    · rename_i s hs
      have hp := nextRaw_progress hs
      have := ih s.rest s.pos (by omega)
      simp only [List.length_cons]
      exact ⟨this.1, by omega⟩

/-- More fuel than `len + 1` never changes the answer: the fuel argument is not observable. -/
theorem rawLoop_fuel_irrelevant (f1 f2 : Nat) (rest : Bytes) (pos : Pos)
    (h1 : rest.length < f1) (h2 : rest.length < f2) : rawLoop f1 rest pos = rawLoop f2 rest pos := by
  induction f1 generalizing rest pos f2 with
  | zero => omega
  | succ f1 ih =>
    cases f2 with
    | zero => omega
    | succ f2 =>
      unfold rawLoop
      split
      · rfl
      · rfl
      · rename_i s hs
        have hp := nextRaw_progress hs
        rw [ih f2 s.rest s.pos (by omega) (by omega)]

/-- number of tokens the producer holds or has yielded -/
def PState.count (st : PState) : Nat := st.out.length + (if st.pending.isSome then 1 else 0)

theorem processRaw_count (st : PState) (t : Token) : (processRaw st t).count ≤ st.count + 1 := by
  unfold processRaw PState.count
  cases hp : st.pending <;> simp only [] <;> (repeat' split) <;> simp_all <;> omega

theorem foldl_processRaw_count (ts : List Token) (st : PState) :
    (ts.foldl processRaw st).count ≤ st.count + ts.length := by
  induction ts generalizing st with
  | nil => simp
  | cons t ts ih =>
    simp only [List.foldl_cons, List.length_cons]
    have := ih (processRaw st t)
    have := processRaw_count st t
    omega

theorem produce_length (raw : RawResult) : (produce raw).toks.length ≤ raw.toks.length := by
  unfold produce
  have h := foldl_processRaw_count raw.toks ⟨none, [], []⟩
  simp only [PState.count] at h
  generalize raw.toks.foldl processRaw ⟨none, [], []⟩ = st at h
  simp only
  split <;> simp_all <;> omega

/-- **scan_progress** (full strength): for every input, tokenisation terminates — the model's
recursion never runs out of its `len + 1` budget — and yields at most one token per input byte.
Together with `scan_step_progress` this is "no hang" for the scanner. -/
theorem scan_progress (doc : Bytes) :
    (tokenize doc).fin ≠ .fuel ∧ (tokenize doc).toks.length ≤ doc.length := by
  have h := rawLoop_terminates (doc.length + 1) doc ⟨0, 0⟩ (by omega)
  have hl := produce_length (rawTokens doc)
  unfold tokenize
  refine ⟨?_, ?_⟩
  · simpa [produce, rawTokens] using h.1
  · unfold rawTokens at hl ⊢; omega

example : (tokenize [120, 32, 43, 32, 49]).toks.length = 3 := by decide

/-! ## scan_total: the scanner cannot panic

Historical note: until fix c949025 the four bytes `/**/` made `&chars[3..(chars.len() - 2)]`
(lexer.rs:405) a slice `[3..2]`; this file then held `scan_total_counterexample` (witness `/**/`,
finding C05-F1) and `scan_total_partial` (side condition "text does not contain `/**/`").  The model
now follows the fixed code (`chars.len() > 4 && chars[2] == b'*'`) and the statement is proved at
full strength. -/

theorem rawLoop_safe (fuel : Nat) (rest : Bytes) (pos : Pos) (hf : rest.length < fuel)
    (h : Valid rest) : (rawLoop fuel rest pos).fin = .ok := by
  induction fuel generalizing rest pos with
  | zero => omega
  | succ fuel ih =>
    have hs := nextRaw_safe rest pos h
    unfold rawLoop
    split
    · rfl
    · rename_i hp; exact absurd hp hs.1
    · rename_i s hs'
      have hp := nextRaw_progress hs'
      exact ih s.rest s.pos (by omega) (hs.2 s hs')

/-- **scan_total** (full strength): for every valid-UTF-8 text no scanner step evaluates a partial
slice / `bump` / index / `unwrap` out of range: tokenisation ends normally. No bound on the text. -/
theorem scan_total (doc : Bytes) (h : Valid doc) : (tokenize doc).fin = .ok := by
  have := rawLoop_safe (doc.length + 1) doc ⟨0, 0⟩ (by omega) h
  simpa [tokenize, produce, rawTokens] using this

-- non-vacuity: `/* é */ x` (non-ASCII inside a block comment); the former witness `/**/` now lexes
example : (tokenize [47, 42, 32, 195, 169, 32, 42, 47, 32, 120]).fin = .ok :=
  scan_total _ (by
    repeat (first | exact Valid.nil | apply Valid.one _ _ (by decide)
                  | apply Valid.two _ _ _ (by decide) (by decide) (by decide)))
example : (tokenize [47, 42, 42, 47]).toks.map (·.kind) = [.block] := by decide

/-! ## syntax_error_reported: error tokens and out-of-range integers always leave a diagnostic

(DESIGN's `syntax_error_iff`; only this direction is what C05 asks: "a syntax error is always
reported".)  Since fix d5c9a21 the integer rule has no exception besides the `-2147483648` merge, so
the statement is full strength. -/

/-- **syntax_error_reported** (full strength): for every text, every `error` token the producer
yields has its "Invalid token." entry, and every integer token it yields whose value is ≥ 2³¹ — i.e.
every out-of-range literal; the merged `-2147483648` is the only in-range token spelled with a minus —
has its "Not a 32-bit integer." entry in the error set. -/
theorem syntax_error_reported (doc : Bytes) :
    (∀ t ∈ (tokenize doc).toks, t.kind = .error →
      (⟨t.start, t.stop, .tok⟩ : Err) ∈ (tokenize doc).errs) ∧
    (∀ t ∈ (tokenize doc).toks, t.kind = .int → t.text.head? ≠ some 45 →
      twoPow31 ≤ digitsVal t.text 0 → (⟨t.start, t.stop, .int⟩ : Err) ∈ (tokenize doc).errs) := by
  have hraw := rawLoop_error_reported (doc.length + 1) doc ⟨0, 0⟩
  have hfold := foldl_processRaw_inv (rawTokens doc).toks ⟨none, [], []⟩ []
    (by simp [PState.all]) (by simp [PState.all])
  simp only [List.append_nil] at hfold
  obtain ⟨hint, herr⟩ := hfold
  have hsub : ∀ t ∈ (tokenize doc).toks,
      t ∈ ((rawTokens doc).toks.foldl processRaw ⟨none, [], []⟩).all := by
    intro t ht
    simp only [tokenize, produce] at ht
    simp only [PState.all, List.mem_append]
    generalize (rawTokens doc).toks.foldl processRaw ⟨none, [], []⟩ = st at *
    split at ht
    · rename_i p _ hp
      simp only [List.mem_append, List.mem_singleton] at ht
      rcases ht with h | rfl
      · exact Or.inl h
      · exact Or.inr (by simp [hp])
    · exact Or.inl ht
  constructor
  · intro t ht hk
    have hmem := herr t (hsub t ht) hk
    simp only [tokenize, produce, List.mem_append]
    exact Or.inl (hraw t hmem hk)
  · intro t ht hk hh hv
    simp only [tokenize, produce, List.mem_append]
    exact Or.inr (hint t (hsub t ht) hk hh hv)

example : (tokenize [40, 50, 49, 52, 55, 52, 56, 51, 54, 52, 56]).errs.length = 1 := by decide  -- `(2147483648`
example : (tokenize [45, 50, 49, 52, 55, 52, 56, 51, 54, 52, 56]).errs = [] := by decide       -- `-2147483648`
example : (tokenize [38, 120]).errs.map (·.code) = [.tok] := by decide                          -- `&x`

end SamVerif.Lexer

namespace SamVerif.ParserLoops

/-! ## parser_loops_progress: the recovery loops cannot spin

Five loop skeletons (`Model/ParserLoops.lean`); whether each recovery arm consumes its token is read
from the source on every run (`Generated/ParserLoops.lean`). -/

/-- **parser_loops_progress** (full strength, for every token list and every sub-parser that never
un-reads): the top-level recovery loop, the comma-separated-list loop, the block statement loop, the
class-member loop and the match-arm loop each leave within `len + 1` iterations — every iteration
consumes a token or exits, also at EOF. -/
theorem parser_loops_progress (sub : List TK → List TK) (hs : NoUnread sub) (ts : List TK) :
    toplevelLoop sub (ts.length + 1) ts ≠ none ∧ commaLoop sub (ts.length + 1) ts ≠ none ∧
      blockLoop sub (ts.length + 1) ts ≠ none ∧ memberLoop sub (ts.length + 1) ts ≠ none ∧
      matchLoop sub (ts.length + 1) ts ≠ none :=
  ⟨toplevelLoop_progress sub hs _ ts (by omega), commaLoop_progress sub hs _ ts (by omega),
   blockLoop_progress sub hs _ ts (by omega), memberLoop_progress sub hs _ ts (by omega),
   matchLoop_progress sub hs _ ts (by omega)⟩

-- non-vacuity: `{ ) ) }`-like input: an expression parser that consumes nothing still terminates
example : blockLoop id 5 [.other, .other, .rbrace, .cls] = some [.cls] := by decide
example : matchLoop id 4 [.pat, .pat, .rbrace] = some [.rbrace] := by decide

end SamVerif.ParserLoops

namespace SamVerif.EntryPoint

/-! ## entry points: the roots of generics specialisation are closed

`compile_sources` must not panic on an accepted program. Entry points (`Main.main`) are rewritten
with an empty type-replacement map; the selection predicate (`Model/EntryPoint.lean`, tied by the
decision-table correspondence of `vlib/c05.py`) is exactly what makes that safe. -/

/-- **entry_root_closed** (full strength): in a well-scoped program (every type a member mentions uses
only type variables in its scope) an entry point mentions no type variable at all, so rewriting its
types with the EMPTY replacement map - what generics specialisation does to its roots - never hits
the `unwrap()` on a missing replacement. Each conjunct of `isEntryMember` is needed: see the
counterexamples below. -/
theorem entry_root_closed (c : Class) (m : Member) (t : Ty)
    (hentry : isEntryMember m = true) (hscoped : ∀ v ∈ freeVars t, v ∈ scope c m) :
    (substOpt [] t).isSome := by
  apply substOpt_total
  intro v hv
  have hs := hscoped v hv
  simp only [isEntryMember, Bool.and_eq_true, Bool.not_eq_true', beq_iff_eq, List.isEmpty_iff] at hentry
  obtain ⟨⟨⟨_, hm⟩, _⟩, ht⟩ := hentry
  simp [scope, hm, ht] at hs

/-- dropping `tparams.isEmpty` (seeded fault C05f): a generic `main` that mentions `T` panics -/
theorem entry_needs_no_tparams :
    ∃ (c : Class) (m : Member) (t : Ty), m.isMainName ∧ !m.isMethod ∧ m.nParams = 0 ∧
      (∀ v ∈ freeVars t, v ∈ scope c m) ∧ substOpt [] t = none :=
  ⟨⟨true, [], []⟩, ⟨true, false, 0, [7]⟩, .fn [.generic 7] (.generic 7), by decide⟩

/-- dropping `!isMethod` (finding C05-F8): a method `main` of `class Main<T>` that mentions `T` panics -/
theorem entry_needs_static :
    ∃ (c : Class) (m : Member) (t : Ty), m.isMainName ∧ m.nParams = 0 ∧ m.tparams = [] ∧
      (∀ v ∈ freeVars t, v ∈ scope c m) ∧ substOpt [] t = none :=
  ⟨⟨true, [3], []⟩, ⟨true, true, 0, []⟩, .nominal [.generic 3], by decide⟩


example : isEntryClass ⟨true, [], [⟨true, false, 0, []⟩]⟩ = true := by decide
example : isEntryClass ⟨true, [1], [⟨true, true, 0, []⟩]⟩ = false := by decide

end SamVerif.EntryPoint
