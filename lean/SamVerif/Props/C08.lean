import SamVerif.Lemmas.Fmt
/-!
# C08 — Formatting a file never changes the program it denotes (expression / literal fragment)

Property theorems only (helper lemmas: `Lemmas/Fmt.lean`, model: `Model/Fmt.lean`).  The model is
tied to `crates/samlang-printer` / `crates/samlang-parser` by the `fmt-expr` correspondence
protocol (`harness/src/bin/c08.rs` vs `Driver/C08.lean`), which compares on every run
(a) the real parser's tree with `parseE`, (b) the real printer's token sequence with `printE`,
(c) the tree of the re-parsed output with `parseE (printE e)`, and (d) "the real round trip
succeeds" with the side condition `RT e` of the partial theorem.

The full-strength statement

    theorem roundtrip_expr (e : Expr) : parseE (printE e) = some e

was **false** for the original code in four ways (known findings C08-F1 … C08-F4, all repaired by
`fix:` commits, see the history note below) and is still false in one (C08-F5, same-operator
regrouping, pinned by a golden test).
-/
namespace SamVerif.Fmt

private def a : Expr := .atom 0
private def b : Expr := .atom 1
private def c : Expr := .atom 2

/-! ## Expressions: what is still false, and what the fixes made true

History.  On the original tree the full-strength statement had four families of counterexamples, all
replayed on the real formatter and repaired by `fix:` commits in /repo (model updated accordingly):
* C08-F1 `a * (b / c)` ↦ `a * b / c`, `t == (x < y)` ↦ `t == x < y`   (9730edb, 8fbb1c9)
* C08-F3 `-(-a)` ↦ `--a`, `!(!a)` ↦ `!!a` (syntax errors)              (7a6d532)
* C08-F4 `(a + b) :: c` ↦ `a + b :: c` = `a + (b :: c)` …              (8067f9b, parser)
* C08-F2 `"q\"uote"` ↦ `"q"uote"`                                      (b0a5193)
* C08-F6 `(a.b) < c` ↦ `a.b < c` (syntax error: `<` after a member name)  (0291c0a)
What remains (C08-F5, open: the golden test `assert_reprint_expr("1 + (1 + 1)", "1 + 1 + 1")`,
source_printer.rs tests, pins it): `a ⊕ (b ⊕ c)` with ⊕ ∈ {+, *, &&, ||} is printed `a ⊕ b ⊕ c`
and read back as `(a ⊕ b) ⊕ c` — another tree, the same value. -/

/-- C08-F5: `a + (b + c)` is printed `a + b + c`, which is `(a + b) + c`. -/
theorem shortcut_regroups_same_operator :
    printE (.binary .plus a (.binary .plus b c)) = [.atom 0, .op .plus, .atom 1, .op .plus, .atom 2] ∧
    parseE (printE (.binary .plus a (.binary .plus b c))) = some (.binary .plus (.binary .plus a b) c) := by
  decide

/-- **Negation of the full-strength tree-equality statement** (still, after the fixes). -/
theorem roundtrip_expr_counterexample : ¬ ∀ e : Expr, parseE (printE e) = some e := by
  intro h
  have := h (.binary .plus a (.binary .plus b c))
  rw [shortcut_regroups_same_operator.2] at this
  exact absurd this (by decide)

/-- the former witnesses of C08-F1, F3, F4 now round-trip (regression, by evaluation). -/
theorem former_witnesses_roundtrip :
    parseE (printE (.binary .mul a (.binary .div b c))) = some (.binary .mul a (.binary .div b c)) ∧
    parseE (printE (.binary .eq a (.binary .lt b c))) = some (.binary .eq a (.binary .lt b c)) ∧
    parseE (printE (.binary .mul a (.binary .mul (.binary .div a b) c))) =
      some (.binary .mul a (.binary .mul (.binary .div a b) c)) ∧
    parseE (printE (.unary .neg (.unary .neg a))) = some (.unary .neg (.unary .neg a)) ∧
    parseE (printE (.unary .not (.unary .not a))) = some (.unary .not (.unary .not a)) ∧
    parseE (printE (.binary .concat (.binary .plus a b) c)) = some (.binary .concat (.binary .plus a b) c) ∧
    parseE (printE (.binary .concat (.binary .mul a b) c)) = some (.binary .concat (.binary .mul a b) c) ∧
    parseE (printE (.binary .concat a (.binary .mul b c))) = some (.binary .concat a (.binary .mul b c)) := by
  decide

/-! ## Expressions: the round-trip theorems -/

/-- **Round trip under the side condition `RT`** (unbounded expressions, fuel-free): if the printer
leaves operands without parentheses only where the parser's level structure reads them back as
operands (`RT`, decidable, see `Model/Fmt.lean`), then the printed token sequence parses to exactly
the original tree — same operators, same grouping, same postfix chains, same lambda bodies. -/
theorem roundtrip_expr_partial (e : Expr) (h : RT e = true) : parseE (printE e) = some e := by
  have hm := main_top (main e h) h (stopsAbove_nil 0)
  rw [List.append_nil] at hm
  have hb := B_le e
  have := hm (fuelFor (printE e)) (by simp only [fuelFor]; omega)
  simp [parseE, parseFuel, this]

/-- The same in context: a printed expression followed by any input at which the loops of all
levels stop (`)`, end of input, or another non-operator, non-postfix token) is read back as that
expression, leaving the rest. -/
theorem roundtrip_expr_in_context (e : Expr) (h : RT e = true) (rest : List Tok)
    (hs : ∀ t r, rest = t :: r → bl t = none) (f : Nat) (hf : fuelFor (printE e) ≤ f) :
    parseTop f (printE e ++ rest) = some (e, rest) := by
  have hm := main_top (main e h) h (rest := rest)
    (fun t r b ht hb => by rw [hs t r ht] at hb; cases hb)
  have hb := B_le e
  exact hm f (by simp only [fuelFor] at hf; omega)

/-- **The recursion budget never changes an answer**: once the parser model returns a tree, every
larger budget returns the same tree. -/
theorem parseFuel_stable (f f' : Nat) (ts : List Tok) (e : Expr) (h : parseFuel f ts = some e)
    (hf : f ≤ f') : parseFuel f' ts = some e := by
  have := parseTop_mono (parseFuel_some h) hf
  simp [parseFuel, this]

/-- **Redundant parentheses are invisible to the parser** (used by C13): if a complete token
sequence parses to `e`, so does the same sequence wrapped in one more pair of parentheses. -/
theorem paren_insensitive (ts : List Tok) (e : Expr) (h : parseE ts = some e) :
    parseE (.lp :: (ts ++ [.rp])) = some e := by
  have h0 := parseFuel_some h
  have h1 : PTop (fuelFor ts) (ts ++ [.rp]) e [.rp] :=
    ptop_of_some (by simpa using (ext_all (fuelFor ts)).1 ts e [] h0)
  have h6 := plevel6 (Nat.le_refl 6) (pbase_paren h1) (ploop_stop_of (e := e) (stopsAbove_nil 0) (Nat.zero_le 6))
  have hsb : startsBase (.lp :: (ts ++ [.rp])) := by
    intro r; constructor <;> intro he <;> cases he
  have hl0 := lift (Nat.le_refl 6) h6 (fun _ => hsb) 6 0 (by omega) (stopsAbove_nil 0)
  have hnk : notKw (.lp :: (ts ++ [.rp])) := by
    intro k r; constructor <;> intro he <;> cases he
  have := ptop_level hl0 hnk (fuelFor (.lp :: (ts ++ [.rp])))
    (by simp only [fuelFor, List.length_cons, List.length_append, List.length_nil]; omega)
  simp [parseE, parseFuel, this]

/-- C08-F6 (fixed by 0291c0a): `(a.b) < c` was printed `a.b < c`; after a member name the parser
takes `<` for the start of type arguments, so the output did not parse. The printer now keeps the
parentheses; the parser model still rejects the unparenthesised text. -/
theorem member_name_before_lt :
    printE (.binary .lt (.post a 0 true) b) = [.lp, .atom 0, .post 0 true, .rp, .op .lt, .atom 1] ∧
    parseE (printE (.binary .lt (.post a 0 true) b)) = some (.binary .lt (.post a 0 true) b) ∧
    parseE (printE (.binary .lt (.unary .neg (.post a 0 true)) b)) =
      some (.binary .lt (.unary .neg (.post a 0 true)) b) ∧
    parseE [.atom 0, .post 0 true, .op .lt, .atom 1] = none ∧
    parseE [.atom 0, .post 0 true, .op .le, .atom 1] = some (.binary .le (.post a 0 true) b) ∧
    parseE [.atom 0, .post 0 false, .op .lt, .atom 1] = some (.binary .lt (.post a 0 false) b) := by
  decide

/-- does the printer take the right-operand shortcut at the node `binary o l r`? -/
def usesShortcut (o : BinOp) (l r : Expr) : Bool :=
  l.prec != 4 + o.pprec && r.prec == 4 + o.pprec && shortcutOk o r

/-- no node of the expression takes the shortcut (i.e. no `x ⊕ (y ⊕ z)` with ⊕ ∈ {+,*,&&,||}, `x`
not on ⊕'s level and `y` not on ⊕'s level; C08-F5). -/
def NoShortcut : Expr → Bool
  | .atom _ | .ifElse _ | .matchE _ => true
  | .post e _ _ => NoShortcut e
  | .unary _ e => NoShortcut e
  | .lambda _ b => NoShortcut b
  | .binary o l r => NoShortcut l && NoShortcut r && !usesShortcut o l r

/-- after fix 8067f9b the printer's table and the parser's level order are mirror images. -/
theorem plevel_eq (o : BinOp) : o.plevel = 4 - o.pprec := by cases o <;> rfl

theorem pprec_le4 (o : BinOp) : o.pprec ≤ 4 := by cases o <;> decide

theorem lParen_true {o : BinOp} {l : Expr} (h1 : l.prec ≠ 4 + o.pprec) (h2 : l.prec ≥ 4 + o.pprec) :
    lParen o l = true := by
  unfold lParen
  split
  · rfl
  · simp [h1, needParen, h2]

/-- **On the fixed code the side condition `RT` is implied by "no shortcut taken"**: every other
parenthesisation decision of the printer (precedence classes 0/1/2/4–8/10/11/12) agrees with the
parser. -/
theorem rt_of_noShortcut (e : Expr) (h : NoShortcut e = true) : RT e = true := by
  induction e with
  | atom a => rfl
  | ifElse k => rfl
  | matchE k => rfl
  | lambda k b ih => simp only [NoShortcut] at h; simp only [RT]; exact ih h
  | post e p fld ih =>
    simp only [NoShortcut] at h
    simp only [RT, Bool.and_eq_true, Bool.or_eq_true, decide_eq_true_eq]
    refine ⟨ih h, ?_⟩
    cases e with
    | atom a => right; simp [Expr.lvl, Expr.operandOk]
    | post e' p' f' => right; simp [Expr.lvl, Expr.operandOk]
    | unary u' e' => left; simp [needParen, Expr.prec]
    | binary o l r => left; simp [needParen, Expr.prec]; omega
    | ifElse k => left; simp [needParen, Expr.prec]
    | matchE k => left; simp [needParen, Expr.prec]
    | lambda k b => left; simp [needParen, Expr.prec]
  | unary u e ih =>
    simp only [NoShortcut] at h
    simp only [RT, Bool.and_eq_true, Bool.or_eq_true, decide_eq_true_eq]
    refine ⟨ih h, ?_⟩
    cases e with
    | atom a => right; simp [Expr.lvl, Expr.operandOk]
    | post e' p' f' => right; simp [Expr.lvl, Expr.operandOk]
    | unary u' e' => left; simp [needParen, Expr.prec]
    | binary o l r => left; simp [needParen, Expr.prec]; omega
    | ifElse k => left; simp [needParen, Expr.prec]
    | matchE k => left; simp [needParen, Expr.prec]
    | lambda k b => left; simp [needParen, Expr.prec]
  | binary o l r ihl ihr =>
    simp only [NoShortcut, Bool.and_eq_true] at h
    obtain ⟨⟨hl, hr⟩, hsc⟩ := h
    have hpl := plevel_eq o
    have hp4 := pprec_le4 o
    simp only [RT, Bool.and_eq_true, Bool.or_eq_true, decide_eq_true_eq]
    refine ⟨⟨⟨⟨ihl hl, ihr hr⟩, ?_⟩, ?_⟩, ?_⟩
    · -- left operand
      cases l with
      | atom a => right; simp only [Expr.lvl, Expr.operandOk]; exact ⟨trivial, by omega⟩
      | post e p f' => right; simp only [Expr.lvl, Expr.operandOk]; exact ⟨trivial, by omega⟩
      | unary u e => right; simp only [Expr.lvl, Expr.operandOk]; exact ⟨trivial, by omega⟩
      | ifElse k => left; exact lParen_true (by simp [Expr.prec]; omega) (by simp [Expr.prec]; omega)
      | matchE k => left; exact lParen_true (by simp [Expr.prec]; omega) (by simp [Expr.prec]; omega)
      | lambda k b => left; exact lParen_true (by simp [Expr.prec]; omega) (by simp [Expr.prec]; omega)
      | binary ol l1 l2 =>
        have hol := plevel_eq ol
        have := pprec_le4 ol
        by_cases hgt : o.pprec < ol.pprec
        · left
          have h1 : ¬ (4 + ol.pprec = 4 + o.pprec) := by omega
          have h2 : 4 + ol.pprec ≥ 4 + o.pprec := by omega
          have hlp : (Expr.binary ol l1 l2).prec = 4 + ol.pprec := rfl
          exact lParen_true (by rw [hlp]; exact h1) (by rw [hlp]; exact h2)
        · right; simp only [Expr.lvl, Expr.operandOk]; exact ⟨trivial, by omega⟩
    · -- right operand
      cases r with
      | atom a => right; simp only [Expr.lvl, Expr.operandOk]; exact ⟨trivial, by omega⟩
      | post e p f' => right; simp only [Expr.lvl, Expr.operandOk]; exact ⟨trivial, by omega⟩
      | unary u e => right; simp only [Expr.lvl, Expr.operandOk]; exact ⟨trivial, by omega⟩
      | ifElse k =>
        left
        have hrp : (Expr.ifElse k).prec = 10 := rfl
        by_cases hlq : l.prec = 4 + o.pprec
        · simp [rParen, needParen, hrp, hlq]; omega
        · have : ¬ (10 = 4 + o.pprec) := by omega
          simp [rParen, needParen, hrp, hlq, this]; omega
      | matchE k =>
        left
        have hrp : (Expr.matchE k).prec = 11 := rfl
        by_cases hlq : l.prec = 4 + o.pprec
        · simp [rParen, needParen, hrp, hlq]; omega
        · have : ¬ (11 = 4 + o.pprec) := by omega
          simp [rParen, needParen, hrp, hlq, this]; omega
      | lambda k b =>
        left
        have hrp : (Expr.lambda k b).prec = 12 := rfl
        by_cases hlq : l.prec = 4 + o.pprec
        · simp [rParen, needParen, hrp, hlq]; omega
        · have : ¬ (12 = 4 + o.pprec) := by omega
          simp [rParen, needParen, hrp, hlq, this]; omega
      | binary or_ r1 r2 =>
        have hor := plevel_eq or_
        have := pprec_le4 or_
        by_cases hgt : or_.pprec < o.pprec
        · right; simp only [Expr.lvl, Expr.operandOk]; exact ⟨trivial, by omega⟩
        · left
          have h2 : 4 + or_.pprec ≥ 4 + o.pprec := by omega
          have hrp : (Expr.binary or_ r1 r2).prec = 4 + or_.pprec := rfl
          rw [usesShortcut, hrp] at hsc
          by_cases hlq : l.prec = 4 + o.pprec
          · simp only [rParen, needParen, hrp, hlq, h2, if_true, decide_true]
          · have hrne : ¬ (4 + or_.pprec = 4 + o.pprec ∧ shortcutOk o (Expr.binary or_ r1 r2) = true) := by
              intro hh
              simp [hlq, hh.1, hh.2] at hsc
            simp only [rParen, needParen, hrp, hlq, hrne, h2, if_false, if_true, decide_true]
    · -- a `<` never directly follows a member name: the printer keeps those parentheses
      by_cases hlt : o = .lt
      · subst hlt
        by_cases hf : lastField l = true
        · have hm := endsMember_of_lastField l hf
          simp [lParen, hm]
        · simp [hf]
      · simp [hlt]

/-- **Round trip for every expression in which the shortcut is not taken** (unbounded size,
fuel-free): the printed tokens parse back to exactly the original tree. On the fixed code this is
the full-strength statement except for the shortcut nodes pinned by the golden test (C08-F5). -/
theorem roundtrip_expr_noShortcut (e : Expr) (h : NoShortcut e = true) :
    parseE (printE e) = some e :=
  roundtrip_expr_partial e (rt_of_noShortcut e h)

-- non-vacuity: the side conditions are satisfiable by nested expressions of every level and class …
example : NoShortcut (.binary .or (.binary .and a (.unary .not (.unary .not (.post (.post b 0 true) 1 false))))
    (.binary .lt (.binary .plus a (.binary .mul (.post (.lambda 0 (.binary .plus b (.ifElse 1))) 2 true)
        (.binary .concat c (.matchE 0))))
      (.binary .minus (.binary .minus a b) (.binary .plus b (.unary .neg (.post (.unary .neg c) 3 true)))))) = true := by
  decide
example : NoShortcut (.binary .mul a (.binary .div b c)) = true := by decide
-- … and exclude exactly the remaining witness
example : NoShortcut (.binary .plus a (.binary .plus b c)) = false ∧
    RT (.binary .plus a (.binary .plus b c)) = false := by decide
-- the concrete parser agrees with the theorems on samples
example : parseE (printE (.binary .minus a (.binary .minus b (.unary .neg (.binary .plus a c))))) =
    some (.binary .minus a (.binary .minus b (.unary .neg (.binary .plus a c)))) := by decide
example : printE (.post (.lambda 0 (.binary .plus b (.ifElse 1))) 2 true) =
    [.lp, .lam 0, .atom 1, .op .plus, .lp, .kwIf 1, .rp, .rp, .post 2 true] := by decide
example : parseE [.lp, .atom 0, .op .plus, .atom 1, .rp] = some (.binary .plus a b) := by decide

/-! ## String literals -/

/-- **String round trip, full strength** (true since fix b0a5193; before it `"q\"uote"` was printed
`"q"uote"`, finding C08-F2): whatever the lexer accepts as a string token — any content, any
escapes, any following input — the parser's stored string is printed as a literal that lexes to the
same token with the same remaining input, and the parser stores the same string again. -/
theorem roundtrip_str (inp c rest : List Char) (h : lexStr inp = some (c, rest)) :
    parseStr inp = some (unescapeQuotes c, rest) ∧
    printStr (unescapeQuotes c) = '"' :: (c ++ ['"']) ∧
    parseStr (printStr (unescapeQuotes c) ++ rest) = some (unescapeQuotes c, rest) := by
  refine ⟨by simp [parseStr, h], ?_⟩
  cases inp with
  | nil => simp [lexStr] at h
  | cons q inp =>
    by_cases hq' : q = '"'
    · subst hq'
      simp only [lexStr] at h
      obtain ⟨s, hc, _, hcl, hb⟩ := lexStrGo_some inp [] c rest h
      simp only [List.reverse_nil, List.nil_append] at hc
      subst hc
      have hqe : quotesEscaped false c = true := by
        simpa [countBackslashes] using closed_quotesEscaped c [] hcl
      have hesc := escape_unescape c hqe
      have := lexStrGo_closed c [] rest hcl hb
      simp only [List.reverse_nil, List.nil_append] at this
      refine ⟨by simp [printStr, hesc], ?_⟩
      simp [parseStr, printStr, lexStr, hesc, this]
    · unfold lexStr at h
      split at h
      · rename_i heq; cases heq; exact absurd rfl hq'
      · cases h

-- non-vacuity, incl. the former counterexample "q\"u" followed by more input
example : lexStr ['"', 'q', '\\', '"', 'u', '"', '/', '/'] = some (['q', '\\', '"', 'u'], ['/', '/']) ∧
    parseStr (printStr ['q', '"', 'u'] ++ ['/', '/']) = some (['q', '"', 'u'], ['/', '/']) := by decide

/-! ## Int literals and `-` -/

/-- **Int literal round trip**, for every literal value the parser can produce
(`0 … 2147483647` and the merged `-2147483648`). -/
theorem roundtrip_int (i : Int) (h : (0 ≤ i ∧ i < 2147483648) ∨ i = -2147483648) :
    readInt (mergeMinInt (printInt i)) = some i := by
  rcases h with ⟨h0, h1⟩ | rfl
  · have hn : ¬ i < 0 := by omega
    have h2 : i.toNat < 2147483648 := by omega
    simp only [printInt, hn, if_false, mergeMinInt, readInt, h2, if_true]
    congr 1
    omega
  · decide

/-- a `-` in front of any other literal stays a separate token (`- 5`, `-5` are `NEG 5`), and a
`-` in front of the printed `-2147483648` does not capture its sign (`--2147483648`). -/
theorem minus_not_merged (n : Nat) (hn : n ≠ 2147483648) (rest : List RawTok) :
    mergeMinInt (.minus :: .int n :: rest) = .minus :: .int n :: mergeMinInt rest ∧
    mergeMinInt (.minus :: (printInt (-2147483648) ++ rest)) = .minus :: .minInt :: mergeMinInt rest := by
  constructor
  · rw [mergeMinInt]
    · simp [mergeMinInt]
    · intro r h; cases h; exact hn rfl
  · simp [printInt, mergeMinInt]

example : readInt (mergeMinInt (printInt 2147483647)) = some 2147483647 := by decide

end SamVerif.Fmt
