import SamVerif.Lemmas.Fmt
/-!
# C08 — Formatting a file never changes the program it denotes (expression / literal fragment)

Property theorems only (helper lemmas: `Lemmas/Fmt.lean`, model: `Model/Fmt.lean`).  The model is
tied to `crates/samlang-printer` / `crates/samlang-parser` by the `fmt-expr` correspondence
protocol (`harness/src/bin/c08.rs` vs `Driver/C08.lean`), which compares on every run
(a) the real parser's tree with `parseE`, (b) the real printer's token sequence with `printE`,
(c) the tree of the re-parsed output with `parseE (printE e)`, and (d) "the real round trip
succeeds" with the side condition `RT e` of the partial theorem.

The full-strength statement

    theorem roundtrip_expr (e : Expr) : parseE (printE e) = some e

is **false** for the unchanged code; the witnesses below are replayed on the real formatter by the
check (known findings C08-F1 … C08-F4).
-/
namespace SamVerif.Fmt

private def a : Expr := .atom 0
private def b : Expr := .atom 1
private def c : Expr := .atom 2

/-! ## Expressions: counterexamples to the full-strength round trip -/

/-- P3 / C08-F1: `a * (b / c)` is printed `a * b / c`, which is `(a * b) / c`. -/
theorem shortcut_regroups_mul_div :
    printE (.binary .mul a (.binary .div b c)) = [.atom 0, .op .mul, .atom 1, .op .div, .atom 2] ∧
    parseE (printE (.binary .mul a (.binary .div b c))) = some (.binary .div (.binary .mul a b) c) := by
  decide

/-- **Negation of the full-strength statement.** -/
theorem roundtrip_expr_counterexample : ¬ ∀ e : Expr, parseE (printE e) = some e := by
  intro h
  have := h (.binary .mul a (.binary .div b c))
  rw [shortcut_regroups_mul_div.2] at this
  exact absurd this (by decide)

/-- C08-F1 on a well-typed program: `t == (x < y)` is printed `t == x < y` = `(t == x) < y`,
which no longer type-checks. -/
theorem shortcut_regroups_comparison :
    parseE (printE (.binary .eq a (.binary .lt b c))) = some (.binary .lt (.binary .eq a b) c) := by
  decide

/-- C08-F3: `-(-a)` is printed `--a` and `!(!a)` is printed `!!a`; neither parses
(the operand of a unary operator is parsed by `parse_function_call_or_field_access`). -/
theorem nested_unary_unparsable :
    printE (.unary .neg (.unary .neg a)) = [.op .minus, .op .minus, .atom 0] ∧
    parseE (printE (.unary .neg (.unary .neg a))) = none ∧
    parseE (printE (.unary .not (.unary .not a))) = none := by
  decide

/-- C08-F4: the printer's table puts `::` on the level of `+ -`, the parser binds it tighter than
`* / %`: `(a + b) :: c` is printed `a + b :: c` = `a + (b :: c)`; `(a * b) :: c` and
`a :: (b * c)` lose their parentheses as well. -/
theorem concat_level_mismatch :
    parseE (printE (.binary .concat (.binary .plus a b) c)) = some (.binary .plus a (.binary .concat b c)) ∧
    parseE (printE (.binary .concat (.binary .mul a b) c)) = some (.binary .mul a (.binary .concat b c)) ∧
    parseE (printE (.binary .concat a (.binary .mul b c))) = some (.binary .mul (.binary .concat a b) c) := by
  decide

/-! ## Expressions: the partial round-trip theorem -/

/-- **Round trip under the side condition `RT`** (unbounded expressions): if the printer leaves
operands without parentheses only where the parser's level structure reads them back as
operands (`RT`, decidable, see `Model/Fmt.lean`), then the printed token sequence parses, with
every sufficiently large recursion budget, to exactly the original tree — same operators, same
grouping. -/
theorem roundtrip_expr_partial (e : Expr) (h : RT e = true) :
    ∃ n, ∀ f, n ≤ f → parseFuel f (printE e) = some e := by
  have hm := main_at (main e h) (k := 0) (Nat.zero_le _) (by omega) (stopsAbove_nil 0)
  obtain ⟨n, hn⟩ := hm
  refine ⟨n, fun f hf => ?_⟩
  have := hn f hf
  rw [List.append_nil] at this
  simp [parseFuel, this]

/-- **The recursion budget never changes an answer**: once the parser model returns a tree, every
larger budget returns the same tree. -/
theorem parseFuel_stable (f f' : Nat) (ts : List Tok) (e : Expr) (h : parseFuel f ts = some e)
    (hf : f ≤ f') : parseFuel f' ts = some e := by
  have := parseLevel_mono (parseFuel_some h) hf
  simp [parseFuel, this]

/-- **No wrong tree at any budget**: under `RT`, whatever budget the parser model is run with on the
printed tokens, it either runs out of budget or returns exactly the original tree
(and by `roundtrip_expr_partial` the latter for every sufficiently large budget). -/
theorem roundtrip_expr_never_wrong (e : Expr) (h : RT e = true) (f : Nat) (e' : Expr)
    (hp : parseFuel f (printE e) = some e') : e' = e := by
  obtain ⟨n, hn⟩ := roundtrip_expr_partial e h
  have h1 := parseFuel_stable f (f + n) _ _ hp (by omega)
  have h2 := hn (f + n) (by omega)
  rw [h1] at h2
  cases h2
  rfl

/-- The same in context: a printed expression followed by any input at which the loops of all
levels stop (`)`, end of input, or a non-operator token) is read back as that expression. -/
theorem roundtrip_expr_in_context (e : Expr) (h : RT e = true) (rest : List Tok)
    (hs : ∀ o t, rest ≠ .op o :: t) :
    ∃ n, ∀ f, n ≤ f → parseLevel f 0 (printE e ++ rest) = some (e, rest) :=
  main_at (main e h) (k := 0) (Nat.zero_le _) (by omega) (fun o t ht => absurd ht (hs o t))

/-- An explicit, purely syntactic sufficient condition for `RT`: no `::`, no unary operator
directly under a unary operator, and no right operand on the printer-precedence level of its
parent unless the parent is `- / %` or the left operand is on that level too (in both cases the
printer keeps the parentheses). -/
def Clean : Expr → Bool
  | .atom _ => true
  | .unary _ e => Clean e && (match e with | .unary _ _ => false | _ => true)
  | .binary o l r =>
    Clean l && Clean r && o != .concat &&
      !(l.prec != 4 + o.pprec && r.prec == 4 + o.pprec && !o.noShortcut)

theorem plevel_eq_of_ne_concat (o : BinOp) (h : o ≠ .concat) : o.plevel = 4 - o.pprec := by
  cases o <;> first | rfl | exact absurd rfl h

theorem pprec_le4 (o : BinOp) : o.pprec ≤ 4 := by cases o <;> decide

/-- the top operator of a `Clean` expression is not `::`. -/
theorem clean_top {o : BinOp} {l r : Expr} (h : Clean (.binary o l r) = true) : o ≠ .concat := by
  simp only [Clean, Bool.and_eq_true, bne_iff_ne] at h
  exact h.1.2

theorem rt_of_clean (e : Expr) (h : Clean e = true) : RT e = true := by
  induction e with
  | atom a => rfl
  | unary u e ih =>
    simp only [Clean, Bool.and_eq_true] at h
    simp only [RT, Bool.and_eq_true, Bool.or_eq_true, decide_eq_true_eq]
    refine ⟨ih h.1, ?_⟩
    cases e with
    | atom a => right; simp [Expr.lvl]
    | unary u' e' => simp at h
    | binary o l r => left; simp [needParen, Expr.prec]; omega
  | binary o l r ihl ihr =>
    simp only [Clean, Bool.and_eq_true, bne_iff_ne] at h
    obtain ⟨⟨⟨hl, hr⟩, ho⟩, hsc⟩ := h
    have hpl := plevel_eq_of_ne_concat o ho
    have hp4 := pprec_le4 o
    have hp5 := plevel_le5 o
    simp only [RT, Bool.and_eq_true, Bool.or_eq_true, decide_eq_true_eq]
    refine ⟨⟨⟨ihl hl, ihr hr⟩, ?_⟩, ?_⟩
    · -- left operand
      cases l with
      | atom a => right; simp only [Expr.lvl]; omega
      | unary u e => right; simp only [Expr.lvl]; omega
      | binary ol l1 l2 =>
        have hol := plevel_eq_of_ne_concat ol (clean_top hl)
        have := pprec_le4 ol
        by_cases hgt : o.pprec < ol.pprec
        · left
          have h1 : ¬ (4 + ol.pprec = 4 + o.pprec) := by omega
          have h2 : 4 + ol.pprec ≥ 4 + o.pprec := by omega
          have hlp : (Expr.binary ol l1 l2).prec = 4 + ol.pprec := rfl
          simp only [lParen, needParen, hlp, h1, h2, if_false, if_true, decide_true]
        · right; simp only [Expr.lvl]; omega
    · -- right operand
      cases r with
      | atom a => right; simp only [Expr.lvl]; omega
      | unary u e => right; simp only [Expr.lvl]; omega
      | binary or_ r1 r2 =>
        have hor := plevel_eq_of_ne_concat or_ (clean_top hr)
        have := pprec_le4 or_
        by_cases hgt : or_.pprec < o.pprec
        · right; simp only [Expr.lvl]; omega
        · left
          have h2 : 4 + or_.pprec ≥ 4 + o.pprec := by omega
          have hrp : (Expr.binary or_ r1 r2).prec = 4 + or_.pprec := rfl
          rw [hrp] at hsc
          by_cases hlq : l.prec = 4 + o.pprec
          · simp only [rParen, needParen, hrp, hlq, h2, if_true, decide_true]
          · have hrne : ¬ (4 + or_.pprec = 4 + o.pprec ∧ o.noShortcut = false) := by
              intro hh
              simp [hlq, hh.1, hh.2] at hsc
            simp only [rParen, needParen, hrp, hlq, hrne, h2, if_false, if_true, decide_true]

/-- **Round trip for `Clean` expressions** (corollary of `roundtrip_expr_partial`). -/
theorem roundtrip_expr_clean (e : Expr) (h : Clean e = true) :
    ∃ n, ∀ f, n ≤ f → parseFuel f (printE e) = some e :=
  roundtrip_expr_partial e (rt_of_clean e h)

-- non-vacuity: the side conditions are satisfiable by nested expressions of every level …
example : RT (.binary .or (.binary .and a (.unary .not b))
    (.binary .lt (.binary .plus a (.binary .mul b c)) (.binary .minus (.binary .minus a b) c))) = true := by
  decide
example : Clean (.binary .minus a (.binary .minus b (.unary .neg (.binary .plus a c)))) = true := by decide
-- … `RT` also admits `::` where printer and parser happen to agree (`a + (b :: c)`, `(a :: b) :: c`) …
example : RT (.binary .plus a (.binary .concat (.binary .concat b c) a)) = true := by decide
-- … and they exclude exactly the witnesses above
example : RT (.binary .mul a (.binary .div b c)) = false := by decide
example : RT (.unary .neg (.unary .neg a)) = false := by decide
example : RT (.binary .concat (.binary .plus a b) c) = false := by decide
-- the concrete parser agrees with the theorem on a sample
example : parseE (printE (.binary .minus a (.binary .minus b (.unary .neg (.binary .plus a c))))) =
    some (.binary .minus a (.binary .minus b (.unary .neg (.binary .plus a c)))) := by decide

/-! ## String literals -/

/-- `"q\"uote"` (P4 / C08-F2): the parser stores `q"uote`, the printer emits `"q"uote"`, which
lexes as the string `q` followed by garbage. Full-strength statement
`∀ inp c rest, parseStr inp = some (c, rest) → parseStr (printStr c ++ rest) = some (c, rest)` is false. -/
theorem roundtrip_str_counterexample :
    ¬ ∀ inp c rest, parseStr inp = some (c, rest) → parseStr (printStr c ++ rest) = some (c, rest) := by
  intro h
  have := h ['"', 'q', '\\', '"', 'u', '"'] ['q', '"', 'u'] [] (by decide)
  revert this
  decide

/-- **String round trip under the side condition "no `\"` in the literal"**: whatever the lexer
accepted as a string token (any content, any other escapes, any following input), the printed
literal lexes to the same token with the same remaining input, and the parser stores the same
string. -/
theorem roundtrip_str_partial (inp c rest : List Char) (h : lexStr inp = some (c, rest))
    (hq : hasEscapedQuote c = false) :
    parseStr inp = some (c, rest) ∧ parseStr (printStr c ++ rest) = some (c, rest) := by
  have hu := unescape_id c hq
  refine ⟨by simp [parseStr, h, hu], ?_⟩
  cases inp with
  | nil => simp [lexStr] at h
  | cons q inp =>
    by_cases hq' : q = '"'
    · subst hq'
      simp only [lexStr] at h
      obtain ⟨s, hc, _, hcl, hb⟩ := lexStrGo_some inp [] c rest h
      simp only [List.reverse_nil, List.nil_append] at hc
      subst hc
      have := lexStrGo_closed c [] rest hcl hb
      simp only [List.reverse_nil, List.nil_append] at this
      simp [parseStr, printStr, lexStr, this, hu]
    · unfold lexStr at h
      split at h
      · rename_i heq; cases heq; exact absurd rfl hq'
      · cases h

example : lexStr ['"', 'a', '\\', 'n', '\\', '\\', '"', 'x'] = some (['a', '\\', 'n', '\\', '\\'], ['x']) ∧
    hasEscapedQuote ['a', '\\', 'n', '\\', '\\'] = false := by decide

/-! ## Int literals and `-` -/

/-- **Int literal round trip**, for every literal value the parser can produce
(`0 … 2147483647` and the merged `-2147483648`). -/
theorem roundtrip_int (i : Int) (h : (0 ≤ i ∧ i < 2147483648) ∨ i = -2147483648) :
    readInt (mergeMinInt (printInt i)) = some i := by
  rcases h with ⟨h0, h1⟩ | rfl
  · have hn : ¬ i < 0 := by omega
    have h2 : i.toNat < 2147483648 := by omega
    simp only [printInt, hn, if_false, mergeMinInt, readInt, h2, if_true]
    congr 1
    omega
  · decide

/-- a `-` in front of any other literal stays a separate token (`- 5`, `-5` are `NEG 5`), and a
`-` in front of the printed `-2147483648` does not capture its sign (`--2147483648`). -/
theorem minus_not_merged (n : Nat) (hn : n ≠ 2147483648) (rest : List RawTok) :
    mergeMinInt (.minus :: .int n :: rest) = .minus :: .int n :: mergeMinInt rest ∧
    mergeMinInt (.minus :: (printInt (-2147483648) ++ rest)) = .minus :: .minInt :: mergeMinInt rest := by
  constructor
  · rw [mergeMinInt]
    · simp [mergeMinInt]
    · intro r h; cases h; exact hn rfl
  · simp [printInt, mergeMinInt]

example : readInt (mergeMinInt (printInt 2147483647)) = some 2147483647 := by decide

end SamVerif.Fmt
