import SamVerif.Lemmas.FmtEval
import SamVerif.Lemmas.Fmt
import SamVerif.Lemmas.FmtPat
import SamVerif.Model.FmtLists
/-!
# C08 — Formatting a file never changes the program it denotes (expression / literal fragment)

Property theorems only (helper lemmas: `Lemmas/FmtFull.lean`, `Lemmas/FmtEval.lean`, `Lemmas/Fmt.lean`;
models: `Model/FmtFull.lean` expressions, `Model/FmtEval.lean` evaluation, `Model/Fmt.lean` tables and
literals).  The model is tied to `crates/samlang-printer` / `crates/samlang-parser` by the `fmt-expr`
correspondence protocol (`harness/src/bin/c08.rs` vs `Driver/C08.lean`), which compares on every run
(a) the real parser's tree with `parseE`, (b) the real printer's token sequence with `printE`,
(c) the tree of the re-parsed output with `parseE (printE e)` and with `regroup e`, and
(d) "the real round trip is exact" with `regroup e = e`.

The full-strength *tree* statement

    theorem roundtrip_expr (e : Expr) : parseE (printE e) = some e

was false for the original code in five ways (known findings C08-F1 … F4, F6, all repaired by
`fix:` commits, see the history note below) and is still false in one (C08-F5, same-operator
regrouping, pinned by a golden test).  What *is* true for every expression is stated by
`roundtrip_expr_total` (what exactly is read back) and `format_preserves_meaning` (it means the same).
-/
namespace SamVerif.FmtFull
open SamVerif.Fmt (BinOp UOp Val M)

private def a : Expr := .atom 0
private def b : Expr := .atom 1
private def c : Expr := .atom 2

/-! ## What is still false, and what the fixes made true

History.  Witnesses replayed on the real formatter and repaired by `fix:` commits in /repo:
* C08-F1 `a * (b / c)` ↦ `a * b / c`, `t == (x < y)` ↦ `t == x < y`, `a * ((x / y) * z)`  (9730edb, 8fbb1c9)
* C08-F3 `-(-a)` ↦ `--a`, `!(!a)` ↦ `!!a` (syntax errors)                               (7a6d532)
* C08-F4 `(a + b) :: c` ↦ `a + b :: c` = `a + (b :: c)` …                               (8067f9b, parser)
* C08-F2 `"q\"uote"` ↦ `"q"uote"`                                                       (b0a5193)
* C08-F6 `(a.b) < c` ↦ `a.b < c` (syntax error: `<` after a member name)                 (0291c0a)
What remains (C08-F5, open: the golden test `assert_reprint_expr("1 + (1 + 1)", "1 + 1 + 1")` pins
it): `a ⊕ (b ⊕ c)` with ⊕ ∈ {+, *, &&, ||} is printed `a ⊕ b ⊕ c` and read back as `(a ⊕ b) ⊕ c`
— another tree, the same meaning (`format_preserves_meaning`). -/

/-- C08-F5: `a + (b + c)` is printed `a + b + c`, which is `(a + b) + c`. -/
theorem shortcut_regroups_same_operator :
    printE (.binary .plus a (.binary .plus b c)) = [.atom 0, .op .plus, .atom 1, .op .plus, .atom 2] ∧
    parseE (printE (.binary .plus a (.binary .plus b c))) = some (.binary .plus (.binary .plus a b) c) := by
  decide

/-- **Negation of the full-strength tree-equality statement** (still, after the fixes). -/
theorem roundtrip_expr_counterexample : ¬ ∀ e : Expr, parseE (printE e) = some e := by
  intro h
  have := h (.binary .plus a (.binary .plus b c))
  rw [shortcut_regroups_same_operator.2] at this
  exact absurd this (by decide)

/-- the former witnesses of C08-F1, F3, F4 now round-trip (regression, by evaluation). -/
theorem former_witnesses_roundtrip :
    parseE (printE (.binary .mul a (.binary .div b c))) = some (.binary .mul a (.binary .div b c)) ∧
    parseE (printE (.binary .eq a (.binary .lt b c))) = some (.binary .eq a (.binary .lt b c)) ∧
    parseE (printE (.binary .mul a (.binary .mul (.binary .div a b) c))) =
      some (.binary .mul a (.binary .mul (.binary .div a b) c)) ∧
    parseE (printE (.unary .neg (.unary .neg a))) = some (.unary .neg (.unary .neg a)) ∧
    parseE (printE (.unary .not (.unary .not a))) = some (.unary .not (.unary .not a)) ∧
    parseE (printE (.binary .concat (.binary .plus a b) c)) = some (.binary .concat (.binary .plus a b) c) ∧
    parseE (printE (.binary .concat (.binary .mul a b) c)) = some (.binary .concat (.binary .mul a b) c) ∧
    parseE (printE (.binary .concat a (.binary .mul b c))) = some (.binary .concat a (.binary .mul b c)) := by
  decide

/-- C08-F6 (fixed by 0291c0a): `(a.b) < c` keeps its parentheses; the parser model rejects the
unparenthesised text, accepts `<=`, and accepts `<` after explicit type arguments or a call. -/
theorem member_name_before_lt :
    printE (.binary .lt (.post a 0 true) b) = [.lp, .atom 0, .post 0 true, .rp, .op .lt, .atom 1] ∧
    parseE (printE (.binary .lt (.post a 0 true) b)) = some (.binary .lt (.post a 0 true) b) ∧
    parseE (printE (.binary .lt (.unary .neg (.post a 0 true)) b)) =
      some (.binary .lt (.unary .neg (.post a 0 true)) b) ∧
    parseE [.atom 0, .post 0 true, .op .lt, .atom 1] = none ∧
    parseE [.atom 0, .post 0 true, .op .le, .atom 1] = some (.binary .le (.post a 0 true) b) ∧
    parseE [.atom 0, .post 0 false, .op .lt, .atom 1] = some (.binary .lt (.post a 0 false) b) ∧
    parseE [.atom 0, .lp, .rp, .op .lt, .atom 1] = some (.binary .lt (.call0 a) b) := by
  decide

/-! ## The round-trip theorems -/

/-- **What formatting does to every expression** (unbounded size, fuel-free, no side condition;
operators, unary operators, member accesses with and without type arguments, calls with their
arguments, tuples, blocks with `let` and expression statements, if-else, match with its cases,
lambdas — recursively in every position):
the printed token sequence always parses, and the tree read back is `regroup e` — the original tree
with the right spine of every shortcut node `x ⊕ (y ⊕ z)` (⊕ ∈ {+, *, &&, ||}) re-associated to
the left, and nothing else changed. -/
theorem roundtrip_expr_total (e : Expr) : parseE (printE e) = some (regroup e) := by
  have hm := main_top (main e) (stopsAbove_nil 0)
  rw [List.append_nil] at hm
  have hb := B_le e
  have := hm (fuelFor (printE e)) (by simp only [fuelFor]; omega)
  simp [parseE, parseFuel, this]

/-- The same in context: a printed expression followed by any input at which the loops of all
levels stop (`)`, `,`, `{`, `}`, end of input, … — anything but an operator, a member access or an
opening parenthesis) is read back as `regroup e`, leaving the rest. -/
theorem roundtrip_expr_in_context (e : Expr) (rest : List Tok)
    (hs : ∀ t r, rest = t :: r → bl t = none) (f : Nat) (hf : fuelFor (printE e) ≤ f) :
    parseTop f (printE e ++ rest) = some (regroup e, rest) := by
  have hm := main_top (main e) (rest := rest)
    (fun t r b ht hb => by rw [hs t r ht] at hb; cases hb)
  have hb := B_le e
  exact hm f (by simp only [fuelFor] at hf; omega)

/-- **With the parser's size check** (`parseExpr`: a parse is accepted iff every tuple expression has
at most 16 elements, on whichever of the parser's two tuple paths it was built): every expression the
parser can produce is printed to a text the parser accepts again, and reads back as `regroup e`. -/
theorem roundtrip_expr_sized (e : Expr) (h : sizeOk e = true) :
    parseExpr (printE e) = some (regroup e) := by
  simp [parseExpr, roundtrip_expr_total, sizeOk_regroup, h]

/-- acceptance of a tuple depends only on its number of elements (16 accepted, 17 rejected),
whatever its first element looks like. -/
theorem tuple_size_limit (e : Expr) (es : Args) (h : sizeOk e = true) (hs : sizeOkArgs es = true) :
    (parseExpr (printE (.tuple e es))).isSome = decide (es.len + 1 ≤ 16) := by
  by_cases hl : es.len + 1 ≤ 16
  · rw [roundtrip_expr_sized _ (by simp [sizeOk, hl, h, hs])]; simp [hl]
  · simp [parseExpr, roundtrip_expr_total, sizeOk_regroup, sizeOk, hl]

theorem eval_regroup (I : Interp) (e : Expr) : eval I (regroup e) = eval I e := (eval_rg I e).1

/-- **Formatting never changes the meaning of an expression of the fragment**: the output parses,
and the tree read back evaluates — under every interpretation of the opaque units — to the same
value or trap with the same sequence of observable events (left-to-right evaluation of operands,
arguments and elements, short-circuit `&&`/`||`, one branch of `if`, 32-bit wrap-around arithmetic).
This covers the still-open tree change C08-F5. -/
theorem format_preserves_meaning (I : Interp) (e : Expr) :
    ∃ e', parseE (printE e) = some e' ∧ eval I e' = eval I e :=
  ⟨regroup e, roundtrip_expr_total e, eval_regroup I e⟩

mutual
/-- no node of the expression takes the shortcut (no `x ⊕ (y ⊕ z)` with ⊕ ∈ {+,*,&&,||}, `x` not on
⊕'s level and `y` not on ⊕'s level; C08-F5). -/
def NoShortcut : Expr → Bool
  | .atom _ => true
  | .tuple e es => NoShortcut e && NoShortcutArgs es
  | .block b => NoShortcutBlk b
  | .post e _ _ => NoShortcut e
  | .call0 f => NoShortcut f
  | .call f args => NoShortcut f && NoShortcutArgs args
  | .unary _ e => NoShortcut e
  | .binary o l r => NoShortcut l && NoShortcut r && !usesShortcut o l r
  | .ifElse c t e => NoShortcut c && NoShortcutBlk t && NoShortcutBlk e
  | .matchE m cs => NoShortcut m && NoShortcutCases cs
  | .lambda _ b => NoShortcut b
def NoShortcutArgs : Args → Bool
  | .one e => NoShortcut e
  | .cons e rest => NoShortcut e && NoShortcutArgs rest
def NoShortcutCases : Cases → Bool
  | .one _ b => NoShortcut b
  | .cons _ b rest => NoShortcut b && NoShortcutCases rest
def NoShortcutBlk : Blk → Bool
  | .fin ss e => NoShortcutStmts ss && NoShortcut e
  | .noFin ss => NoShortcutStmts ss
def NoShortcutStmts : Stmts → Bool
  | .nil => true
  | .letS _ e rest => NoShortcut e && NoShortcutStmts rest
  | .exprS e rest => NoShortcut e && NoShortcutStmts rest
end

mutual
theorem regroup_noShortcut : (e : Expr) → NoShortcut e = true → regroup e = e
  | .atom a, _ => by simp [regroup, rg, wrapCtx]
  | .tuple e es, h => by
    simp only [NoShortcut, Bool.and_eq_true] at h
    have : regroup (.tuple e es) = .tuple (regroup e) (rgArgs es) := by simp [regroup, rg, wrapCtx]
    rw [this, regroup_noShortcut e h.1, rgArgs_noShortcut es h.2]
  | .block b, h => by
    have : regroup (.block b) = .block (rgBlk b) := by simp [regroup, rg, wrapCtx]
    rw [this, rgBlk_noShortcut b (by simpa [NoShortcut] using h)]
  | .post e p f, h => by
    have : regroup (.post e p f) = .post (regroup e) p f := by simp [regroup, rg, wrapCtx]
    rw [this, regroup_noShortcut e (by simpa [NoShortcut] using h)]
  | .call0 f, h => by
    have : regroup (.call0 f) = .call0 (regroup f) := by simp [regroup, rg, wrapCtx]
    rw [this, regroup_noShortcut f (by simpa [NoShortcut] using h)]
  | .call f args, h => by
    simp only [NoShortcut, Bool.and_eq_true] at h
    have : regroup (.call f args) = .call (regroup f) (rgArgs args) := by simp [regroup, rg, wrapCtx]
    rw [this, regroup_noShortcut f h.1, rgArgs_noShortcut args h.2]
  | .unary u x, h => by
    have : regroup (.unary u x) = .unary u (regroup x) := by simp [regroup, rg, wrapCtx]
    rw [this, regroup_noShortcut x (by simpa [NoShortcut] using h)]
  | .binary o l r, h => by
    simp only [NoShortcut, Bool.and_eq_true, Bool.not_eq_true'] at h
    rw [regroup_binary, h.2, regroup_noShortcut l h.1.1, regroup_noShortcut r h.1.2]
    simp
  | .ifElse x y z, h => by
    simp only [NoShortcut, Bool.and_eq_true] at h
    have : regroup (.ifElse x y z) = .ifElse (regroup x) (rgBlk y) (rgBlk z) := by
      simp [regroup, rg, wrapCtx]
    rw [this, regroup_noShortcut x h.1.1, rgBlk_noShortcut y h.1.2, rgBlk_noShortcut z h.2]
  | .matchE m cs, h => by
    simp only [NoShortcut, Bool.and_eq_true] at h
    have : regroup (.matchE m cs) = .matchE (regroup m) (rgCases cs) := by simp [regroup, rg, wrapCtx]
    rw [this, regroup_noShortcut m h.1, rgCases_noShortcut cs h.2]
  | .lambda k x, h => by
    have : regroup (.lambda k x) = .lambda k (regroup x) := by simp [regroup, rg, wrapCtx]
    rw [this, regroup_noShortcut x (by simpa [NoShortcut] using h)]
theorem rgArgs_noShortcut : (es : Args) → NoShortcutArgs es = true → rgArgs es = es
  | .one e, h => by
    have : rgArgs (.one e) = .one (regroup e) := by simp [rgArgs, regroup]
    rw [this, regroup_noShortcut e (by simpa [NoShortcutArgs] using h)]
  | .cons e rest, h => by
    simp only [NoShortcutArgs, Bool.and_eq_true] at h
    have : rgArgs (.cons e rest) = .cons (regroup e) (rgArgs rest) := by simp [rgArgs, regroup]
    rw [this, regroup_noShortcut e h.1, rgArgs_noShortcut rest h.2]
theorem rgCases_noShortcut : (cs : Cases) → NoShortcutCases cs = true → rgCases cs = cs
  | .one k x, h => by
    have : rgCases (.one k x) = .one k (regroup x) := by simp [rgCases, regroup]
    rw [this, regroup_noShortcut x (by simpa [NoShortcutCases] using h)]
  | .cons k x rest, h => by
    simp only [NoShortcutCases, Bool.and_eq_true] at h
    have : rgCases (.cons k x rest) = .cons k (regroup x) (rgCases rest) := by simp [rgCases, regroup]
    rw [this, regroup_noShortcut x h.1, rgCases_noShortcut rest h.2]
theorem rgBlk_noShortcut : (b : Blk) → NoShortcutBlk b = true → rgBlk b = b
  | .fin ss e, h => by
    simp only [NoShortcutBlk, Bool.and_eq_true] at h
    have : rgBlk (.fin ss e) = .fin (rgStmts ss) (regroup e) := by simp [rgBlk, regroup]
    rw [this, rgStmts_noShortcut ss h.1, regroup_noShortcut e h.2]
  | .noFin ss, h => by
    have : rgBlk (.noFin ss) = .noFin (rgStmts ss) := by simp [rgBlk]
    rw [this, rgStmts_noShortcut ss (by simpa [NoShortcutBlk] using h)]
theorem rgStmts_noShortcut : (ss : Stmts) → NoShortcutStmts ss = true → rgStmts ss = ss
  | .nil, _ => by simp [rgStmts]
  | .letS k e rest, h => by
    simp only [NoShortcutStmts, Bool.and_eq_true] at h
    have : rgStmts (.letS k e rest) = .letS k (regroup e) (rgStmts rest) := by simp [rgStmts, regroup]
    rw [this, regroup_noShortcut e h.1, rgStmts_noShortcut rest h.2]
  | .exprS e rest, h => by
    simp only [NoShortcutStmts, Bool.and_eq_true] at h
    have : rgStmts (.exprS e rest) = .exprS (regroup e) (rgStmts rest) := by simp [rgStmts, regroup]
    rw [this, regroup_noShortcut e h.1, rgStmts_noShortcut rest h.2]
end

/-- **Exact round trip for every expression in which the shortcut is not taken**: the printed
tokens parse back to exactly the original tree.  Every parenthesisation decision of the printer
other than the shortcut (precedence classes 0/1/2/4–8/10/11/12, member name before `<`) and every
delimited position (arguments, elements, branches, cases, bodies) is thereby proved to agree with
the parser. -/
theorem roundtrip_expr_noShortcut (e : Expr) (h : NoShortcut e = true) :
    parseE (printE e) = some e := by
  rw [roundtrip_expr_total, regroup_noShortcut e h]

/-- **The recursion budget never changes an answer**: once the parser model returns a tree, every
larger budget returns the same tree. -/
theorem parseFuel_stable (f f' : Nat) (ts : List Tok) (e : Expr) (h : parseFuel f ts = some e)
    (hf : f ≤ f') : parseFuel f' ts = some e := by
  have := parseTop_mono (parseFuel_some h) hf
  simp [parseFuel, this]

/-- **Redundant parentheses are invisible to the parser** (used by C13): if a complete token
sequence parses to `e`, so does the same sequence wrapped in one more pair of parentheses. -/
theorem paren_insensitive (ts : List Tok) (e : Expr) (h : parseE ts = some e) :
    parseE (.lp :: (ts ++ [.rp])) = some e := by
  have h0 := parseFuel_some h
  have h1 : PTop (fuelFor ts) (ts ++ [.rp]) e [.rp] :=
    ptop_of_some (by simpa using (ext_all (fuelFor ts)).1 ts e [] h0)
  have h6 := plevel6 (Nat.le_refl 6) (pbase_paren h1) (ploop_stop_of (e := e) (stopsAbove_nil 0) (Nat.zero_le 6))
  have hsb : startsBase (.lp :: (ts ++ [.rp])) := by
    intro r; constructor <;> intro he <;> cases he
  have hl0 := lift (Nat.le_refl 6) h6 (fun _ => hsb) 6 0 (by omega) (stopsAbove_nil 0)
  have hnk : notKw (.lp :: (ts ++ [.rp])) := by
    intro r; constructor <;> intro he <;> cases he
  have := ptop_level hl0 hnk (fuelFor (.lp :: (ts ++ [.rp])))
    (by simp only [fuelFor, List.length_cons, List.length_append, List.length_nil]; omega)
  simp [parseE, parseFuel, this]

-- non-vacuity: nested expressions of every level, class and delimited position …
private def big : Expr :=
  .binary .or (.binary .and a (.unary .not (.unary .not (.post (.post b 0 true) 1 false))))
    (.binary .lt
      (.binary .plus a (.binary .mul
        (.call (.lambda 0 (.binary .plus b (.ifElse a (.fin (.letS 0 (.binary .mul a b) (.exprS (.call0 c) .nil)) (.binary .plus b c)) (.noFin (.exprS (.tuple a (.one (.unary .neg b))) .nil)))))
          (.cons (.binary .plus a b) (.one (.block (.fin .nil c)))))
        (.binary .concat c (.matchE a (.cons 0 (.binary .minus a b) (.one 1 (.call0 c)))))))
      (.binary .minus (.binary .minus a b) (.binary .plus b (.unary .neg (.post (.unary .neg c) 3 true)))))
example : NoShortcut big = true ∧ parseE (printE big) = some big := by decide
example : NoShortcut (.binary .mul a (.binary .div b c)) = true := by decide
-- … the remaining witness is excluded, and `regroup` is what is read back
example : NoShortcut (.binary .plus a (.binary .plus b c)) = false ∧
    regroup (.binary .plus a (.binary .plus b (.binary .plus c a))) =
      .binary .plus (.binary .plus (.binary .plus a b) c) a ∧
    regroup (.call a (.one (.binary .mul a (.binary .mul b c)))) =
      .call a (.one (.binary .mul (.binary .mul a b) c)) := by decide
-- the semantics is not trivial: events are ordered, arithmetic wraps around, `if` takes one branch
private def Iex : Interp :=
  { atom := fun n => ([n], some (.int 2147483647)), member := fun _ _ v => ([], some v),
    call := fun _ vs => ([100 + vs.length], some (.int 0)), tuple := fun _ => ([], none),
    matchSel := fun _ cs => ((cs.headD (0, ([], none))).2), lam := fun _ d => d,
    letBind := fun n _ => ([200 + n], some (.other 0)) }
example : eval Iex (.binary .plus a (.binary .plus b c)) = ([0, 1, 2], some (.int 2147483645)) ∧
    eval Iex (.binary .and a (.binary .and b c)) = ([0], some (.bool false)) ∧
    eval Iex (.call a (.cons b (.one c))) = ([0, 1, 2, 102], some (.int 0)) ∧
    eval Iex (.ifElse (.binary .eq a a) (.fin (.letS 7 c .nil) b) (.noFin .nil)) =
      ([0, 0, 2, 207, 1], some (.int 2147483647)) ∧
    eval Iex (.binary .plus a (.tuple b (.one c))) = ([0, 1, 2], none) := by decide
example : parseE [.lp, .atom 0, .op .plus, .atom 1, .rp] = some (.binary .plus a b) := by decide

end SamVerif.FmtFull

namespace SamVerif.FmtLists

/-! ## Trailing commas of bracketed lists -/

/-- **The printer emits a trailing comma only where the parser accepts one**, for every kind of
bracketed, comma separated list (the two tables are compared with the real printer and parser by the
`trail` stream on every run; seed C08e — type arguments parsed with the wrong closing token — makes
the parser's table differ). -/
theorem trailing_comma_emitted_only_where_accepted (k : ListKind) :
    printerEmitsTrailing k = true → parserAcceptsTrailing k = true := by
  cases k <;> decide

theorem allKinds_complete (k : ListKind) : k ∈ allKinds := by cases k <;> decide

end SamVerif.FmtLists

namespace SamVerif.FmtPat

/-! ## Patterns (`let`, `match` cases, `if let`) -/

/-- **Pattern round trip, full strength**: every pattern — identifiers, `_`, variants with and without
data, tuple and object patterns, or-patterns, nested arbitrarily — is printed to a token sequence that
the pattern parser reads back as exactly that pattern, leaving the rest of the input, whenever the
rest does not start with `(` or `|` (in the language it starts with `=`, `:`, `->`, `,`, `)` or `}`). -/
theorem roundtrip_pattern (o : OPat) (rest : List PTok) (hl : ∀ r, rest ≠ .lp :: r)
    (hb : ∀ r, rest ≠ .bar :: r) : parsePattern (printO o ++ rest) = some (o, rest) := by
  have := sizeO_le o
  exact mO o rest hl hb _ (by simp only [List.length_append]; omega)

/-- the side conditions are necessary: a tag followed by `(` takes it as its data, a pattern followed
by `|` continues as an or-pattern. -/
theorem roundtrip_pattern_side_conditions :
    parsePattern (printO (.one (.variant 0)) ++ [.lp, .lower 1, .rp]) =
      some (.one (.variantT 0 (.one (.one (.id 1)))), []) ∧
    parsePattern (printO (.one (.id 0)) ++ [.bar, .us]) = some (.alt (.id 0) (.one .wild), []) := by
  decide

private def samplePat : OPat :=
  .alt (.variantT 0 (.cons (.one (.id 1)) (.one (.alt .wild (.one (.variant 2))))))
    (.one (.obj (.consS 3 (.oneA 4 (.one (.tuple (.cons (.one (.id 5)) (.one (.one .wild)))))))))
example : parsePattern (printO samplePat ++ [.other 0]) = some (samplePat, [.other 0]) := by decide

end SamVerif.FmtPat

namespace SamVerif.Fmt

/-! ## String literals -/

/-- **String round trip, full strength** (true since fix b0a5193; before it `"q\"uote"` was printed
`"q"uote"`, finding C08-F2): whatever the lexer accepts as a string token — any content, any
escapes, any following input — the parser's stored string is printed as a literal that lexes to the
same token with the same remaining input, and the parser stores the same string again. -/
theorem roundtrip_str (inp c rest : List Char) (h : lexStr inp = some (c, rest)) :
    parseStr inp = some (unescapeQuotes c, rest) ∧
    printStr (unescapeQuotes c) = '"' :: (c ++ ['"']) ∧
    parseStr (printStr (unescapeQuotes c) ++ rest) = some (unescapeQuotes c, rest) := by
  refine ⟨by simp [parseStr, h], ?_⟩
  cases inp with
  | nil => simp [lexStr] at h
  | cons q inp =>
    by_cases hq' : q = '"'
    · subst hq'
      simp only [lexStr] at h
      obtain ⟨s, hc, _, hcl, hb⟩ := lexStrGo_some inp [] c rest h
      simp only [List.reverse_nil, List.nil_append] at hc
      subst hc
      have hqe : quotesEscaped false c = true := by
        simpa [countBackslashes] using closed_quotesEscaped c [] hcl
      have hesc := escape_unescape c hqe
      have := lexStrGo_closed c [] rest hcl hb
      simp only [List.reverse_nil, List.nil_append] at this
      refine ⟨by simp [printStr, hesc], ?_⟩
      simp [parseStr, printStr, lexStr, hesc, this]
    · unfold lexStr at h
      split at h
      · rename_i heq; cases heq; exact absurd rfl hq'
      · cases h

-- non-vacuity, incl. the former counterexample "q\"u" followed by more input
example : lexStr ['"', 'q', '\\', '"', 'u', '"', '/', '/'] = some (['q', '\\', '"', 'u'], ['/', '/']) ∧
    parseStr (printStr ['q', '"', 'u'] ++ ['/', '/']) = some (['q', '"', 'u'], ['/', '/']) := by decide

/-! ## Int literals and `-` -/

/-- **Int literal round trip**, for every literal value the parser can produce
(`0 … 2147483647` and the merged `-2147483648`). -/
theorem roundtrip_int (i : Int) (h : (0 ≤ i ∧ i < 2147483648) ∨ i = -2147483648) :
    readInt (mergeMinInt (printInt i)) = some i := by
  rcases h with ⟨h0, h1⟩ | rfl
  · have hn : ¬ i < 0 := by omega
    have h2 : i.toNat < 2147483648 := by omega
    simp only [printInt, hn, if_false, mergeMinInt, readInt, h2, if_true]
    congr 1
    omega
  · decide

/-- a `-` in front of any other literal stays a separate token (`- 5`, `-5` are `NEG 5`), and a
`-` in front of the printed `-2147483648` does not capture its sign (`--2147483648`). -/
theorem minus_not_merged (n : Nat) (hn : n ≠ 2147483648) (rest : List RawTok) :
    mergeMinInt (.minus :: .int n :: rest) = .minus :: .int n :: mergeMinInt rest ∧
    mergeMinInt (.minus :: (printInt (-2147483648) ++ rest)) = .minus :: .minInt :: mergeMinInt rest := by
  constructor
  · rw [mergeMinInt]
    · simp [mergeMinInt]
    · intro r h; cases h; exact hn rfl
  · simp [printInt, mergeMinInt]

example : readInt (mergeMinInt (printInt 2147483647)) = some 2147483647 := by decide


/-! ## Legacy: the round-2 model `Model/Fmt.lean` (opaque call arguments / if / match)

Kept because `Props/C09b.lean` and `Props/C13b.lean` are stated over it.  It is the restriction of
`Model/FmtFull.lean` to expressions whose call arguments, if-else and match parts are single words;
the driver runs both models on every line of the `fmt-expr` protocol that lies in the smaller
fragment and reports any difference (`v2=` field), so it stays tied to the code. -/

/-- (legacy model) **Round trip under the side condition `RT`** (unbounded expressions, fuel-free): if the printer
leaves operands without parentheses only where the parser's level structure reads them back as
operands (`RT`, decidable, see `Model/Fmt.lean`), then the printed token sequence parses to exactly
the original tree — same operators, same grouping, same postfix chains, same lambda bodies. -/
theorem roundtrip_expr_partial (e : Expr) (h : RT e = true) : parseE (printE e) = some e := by
  have hm := main_top (main e h) h (stopsAbove_nil 0)
  rw [List.append_nil] at hm
  have hb := B_le e
  have := hm (fuelFor (printE e)) (by simp only [fuelFor]; omega)
  simp [parseE, parseFuel, this]

/-- (legacy model) **Redundant parentheses are invisible to the parser** (used by C13): if a complete token
sequence parses to `e`, so does the same sequence wrapped in one more pair of parentheses. -/
theorem paren_insensitive (ts : List Tok) (e : Expr) (h : parseE ts = some e) :
    parseE (.lp :: (ts ++ [.rp])) = some e := by
  have h0 := parseFuel_some h
  have h1 : PTop (fuelFor ts) (ts ++ [.rp]) e [.rp] :=
    ptop_of_some (by simpa using (ext_all (fuelFor ts)).1 ts e [] h0)
  have h6 := plevel6 (Nat.le_refl 6) (pbase_paren h1) (ploop_stop_of (e := e) (stopsAbove_nil 0) (Nat.zero_le 6))
  have hsb : startsBase (.lp :: (ts ++ [.rp])) := by
    intro r; constructor <;> intro he <;> cases he
  have hl0 := lift (Nat.le_refl 6) h6 (fun _ => hsb) 6 0 (by omega) (stopsAbove_nil 0)
  have hnk : notKw (.lp :: (ts ++ [.rp])) := by
    intro k r; constructor <;> intro he <;> cases he
  have := ptop_level hl0 hnk (fuelFor (.lp :: (ts ++ [.rp])))
    (by simp only [fuelFor, List.length_cons, List.length_append, List.length_nil]; omega)
  simp [parseE, parseFuel, this]


end SamVerif.Fmt
