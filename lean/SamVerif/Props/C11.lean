import SamVerif.Lemmas.Gc
/-!
# C11 — the language server never reads a string its GC has reclaimed

Logic core of the property: the incremental mark/sweep driver (`gc.rs:274-295`, model
`Model/Gc.lean`) on top of the heap (`Model/Heap.lean`, C17).  Theorems are for **every** history of
edits, every hash-order choice of `pop`, every slice size and sweep unit, every table size.

`Cov` (every handle the server state holds is visited by `mark_module` of some checked module, or
is permanent/inline) is a *hypothesis* here: it is a statement about a 270-line AST walker and is
checked dynamically on every run by the query sweep of `vlib/c11.py` (it is in fact false on the
unchanged tree for member parameter names — known finding C11-F2).
-/
namespace SamVerif.Gc
open SamVerif.Heap

/-- Coverage hypothesis for one GC round. -/
def Cov (h : Heap) (all : List Module) (roots : List Handle) : Prop :=
  ∀ p ∈ roots, ∀ id, p = .ref id →
    (∃ s : Bytes, h.slots[id]? = some (Slot.perm s)) ∨ ∃ md ∈ all, p ∈ md.marks

/-- **One GC round never reclaims a covered root** — for any slice size, sweep unit, queue order
(`choices`, even inconsistent ones), provided all checked modules are announced as changed (which
`ServerState::recheck` does: it passes all keys of `checked_modules`). -/
theorem gcStep_safe (h : Heap) (hi : Inv h) (all : List Module) (hd : DistinctIds all)
    (changed : List Nat) (hch : ∀ md ∈ all, md.id ∈ changed) (slice work : Nat)
    (choices : List (Option Nat)) (roots : List Handle) (hcov : Cov h all roots)
    (p : Handle) (hp : p ∈ roots) (s : Bytes) (hr : Heap.read h p = some s) :
    Heap.read (gcStep h all changed slice work choices) p = some s := by
  unfold gcStep
  have hi1 := inv_addAll hi changed
  have hq1 : Queued all (addAll h changed) :=
    fun md hmd => Or.inl (addAll_mem changed h md.id (Or.inl (hch md hmd)))
  obtain ⟨hi2, hq2, hread, hsafe⟩ := markLoop_props all hd choices slice _ hi1 hq1
  have hr2 : Heap.read (markLoop all choices slice (addAll h changed)) p = some s :=
    hread p s (by rw [addAll_read]; exact hr)
  rcases read_stable_or_reclaimed _ hi2 (.sweep work) p s hr2 with h1 | ⟨_, w, id, _, hpe, hsl, hum, _⟩
  · exact h1
  · exfalso
    subst hpe
    rcases hcov _ hp id rfl with ⟨t, hperm⟩ | ⟨md, hmd, hin⟩
    · -- permanent slots stay permanent through adds and marks
      have hs0 : SweepSafe (addAll h changed) (.ref id) := by
        intro j hj u; cases hj; rw [addAll_slots, hperm]; simp
      exact hsafe _ hs0 id rfl s hsl
    · rcases hq2 md hmd with hu | hs
      · rw [hum] at hu; cases hu
      · exact hs _ hin id rfl s hsl

/-- **Gate**: while some module is still queued (e.g. more modules than the slice) the sweep does
nothing at all, so partial marking is never followed by reclamation. -/
theorem gate_sound (h : Heap) (all : List Module) (changed : List Nat) (slice work : Nat)
    (choices : List (Option Nat))
    (hne : (markLoop all choices slice (addAll h changed)).unmarked ≠ []) :
    gcStep h all changed slice work choices = markLoop all choices slice (addAll h changed) := by
  unfold gcStep sweep
  cases hu : (markLoop all choices slice (addAll h changed)).unmarked with
  | nil => exact absurd hu hne
  | cons a b => simp [hu]

/-! ## Histories -/

/-- Heap calls made by parsing / checking: allocations only. -/
def isAlloc : Op → Bool
  | .allocString _ | .allocStatic _ | .allocTemp _ | .allocModuleRef _ => true
  | _ => false

def opResult (h : Heap) : Op → Option Handle
  | .allocString s => some (allocString h s).2
  | .allocStatic s => some (allocStatic h s).2
  | .allocTemp n => some (allocTemp h n).2
  | _ => none

/-- Handles returned by a sequence of heap calls. -/
def results : Heap → List Op → List Handle
  | _, [] => []
  | h, op :: ops => (opResult h op).toList ++ results (step h op) ops

/-- One server operation (update / rename / remove followed by recheck + GC), abstractly. -/
structure Edit where
  allocs : List Op                 -- heap calls of parsing + checking
  all : List Module                -- `checked_modules` afterwards, with what `mark_module` visits
  choices : List (Option Nat)      -- hash order of the GC queue
  roots : List Handle              -- every handle the server state holds afterwards

structure Srv where
  heap : Heap
  roots : List Handle

def applyEdit (st : Srv) (e : Edit) : Srv :=
  { heap := gcStep (run e.allocs st.heap) e.all (e.all.map (·.id))
              numModuleMarkedPerSlice numSweepUnit e.choices,
    roots := e.roots }

/-- An edit is well-formed in a state: only allocation calls on existing handles; distinct module
keys; every root is an old root or was returned by one of this edit's allocations (the server
holds no handle from anywhere else); and the marker covers the roots. -/
def EditOk (st : Srv) (e : Edit) : Prop :=
  (∀ op ∈ e.allocs, isAlloc op = true) ∧ OpsOk st.heap e.allocs ∧ DistinctIds e.all ∧
  (∀ p ∈ e.roots, p ∈ st.roots ∨ p ∈ results st.heap e.allocs) ∧
  Cov (run e.allocs st.heap) e.all e.roots

def EditsOk : Srv → List Edit → Prop
  | _, [] => True
  | st, e :: es => EditOk st e ∧ EditsOk (applyEdit st e) es

theorem allocStatic_reads (h : Heap) (hi : Inv h) (s : Bytes) :
    Heap.read (allocStatic h s).1 (allocStatic h s).2 = some s := by
  unfold allocStatic
  split
  · rfl
  · split
    · rename_i id hs
      simp [Heap.read, hi.staticSound s id hs]
    · split
      · rename_i id ht
        have hlt : id < h.slots.length := by
          rcases hi.tempSound s id ht with hm | hm <;> exact (List.getElem?_eq_some_iff.mp hm).1
        simp [Heap.read, hlt]
      · simp [Heap.read]

theorem opResult_reads (h : Heap) (hi : Inv h) (op : Op) (p : Handle) (hp : opResult h op = some p) :
    ∃ s, Heap.read (step h op) p = some s := by
  cases op with
  | allocString s => simp only [opResult, Option.some.injEq] at hp; subst hp; exact ⟨s, allocString_reads h hi s⟩
  | allocStatic s => simp only [opResult, Option.some.injEq] at hp; subst hp; exact ⟨s, allocStatic_reads h hi s⟩
  | allocTemp n => simp only [opResult, Option.some.injEq] at hp; subst hp; exact ⟨n, rfl⟩
  | allocModuleRef ps => simp [opResult] at hp
  | addUnmarked m => simp [opResult] at hp
  | popUnmarked c => simp [opResult] at hp
  | mark q => simp [opResult] at hp
  | sweep w => simp [opResult] at hp
  | syncTemp t => simp [opResult] at hp

theorem isAlloc_not_sweep (ops : List Op) (ha : ∀ op ∈ ops, isAlloc op = true) :
    ∀ op ∈ ops, ∀ w, op ≠ .sweep w := by
  intro op hop w hc; subst hc; have := ha _ hop; simp [isAlloc] at this

theorem results_read (ops : List Op) (h : Heap) (hi : Inv h) (hok : OpsOk h ops)
    (ha : ∀ op ∈ ops, isAlloc op = true) (p : Handle) (hp : p ∈ results h ops) :
    ∃ s, Heap.read (run ops h) p = some s := by
  induction ops generalizing h with
  | nil => cases hp
  | cons op ops ih =>
    simp only [results, List.mem_append, Option.mem_toList] at hp
    have hi' := inv_step hi op hok.1
    have ha' : ∀ o ∈ ops, isAlloc o = true := fun o ho => ha o (List.mem_cons_of_mem _ ho)
    simp only [run, List.foldl_cons]
    rcases hp with hp | hp
    · obtain ⟨s, hs⟩ := opResult_reads h hi op p hp
      exact ⟨s, live_without_sweep ops _ hi' hok.2 p s hs (isAlloc_not_sweep ops ha')⟩
    · exact ih _ hi' hok.2 ha' hp

/-- **C11 (GC clause), every history**: starting from a fresh heap, after any sequence of
well-formed edits — each followed by one GC round with the real constants — every handle the
server state holds is readable (never `Deallocated`), for any number of collections. -/
theorem gc_safe (es : List Edit) (st : Srv) (hi : Inv st.heap)
    (hroots : ∀ p ∈ st.roots, ∃ s, Heap.read st.heap p = some s) (hok : EditsOk st es) :
    Inv (es.foldl applyEdit st).heap ∧
    ∀ p ∈ (es.foldl applyEdit st).roots, ∃ s, Heap.read (es.foldl applyEdit st).heap p = some s := by
  induction es generalizing st with
  | nil => exact ⟨hi, hroots⟩
  | cons e es ih =>
    obtain ⟨⟨halloc, hops, hdist, horigin, hcov⟩, hrest⟩ := hok
    simp only [List.foldl_cons]
    have hi1 : Inv (run e.allocs st.heap) := inv_run e.allocs st.heap hi hops
    have hlive1 : ∀ p ∈ e.roots, ∃ s, Heap.read (run e.allocs st.heap) p = some s := by
      intro p hp
      rcases horigin p hp with hold | hnew
      · obtain ⟨s, hs⟩ := hroots p hold
        exact ⟨s, live_without_sweep e.allocs _ hi hops p s hs (isAlloc_not_sweep _ halloc)⟩
      · exact results_read e.allocs st.heap hi hops halloc p hnew
    apply ih (applyEdit st e)
    · -- invariant after the GC round
      simp only [applyEdit, gcStep]
      have := markLoop_props e.all hdist e.choices numModuleMarkedPerSlice _
        (inv_addAll hi1 (e.all.map (·.id)))
        (fun md hmd => Or.inl (addAll_mem _ _ md.id (Or.inl (List.mem_map_of_mem hmd))))
      exact inv_sweep this.1 _
    · intro p hp
      obtain ⟨s, hs⟩ := hlive1 p hp
      exact ⟨s, gcStep_safe _ hi1 e.all hdist _ (fun md hmd => List.mem_map_of_mem hmd) _ _ _
        e.roots hcov p hp s hs⟩
    · exact hrest

theorem gc_safe_from_init (es : List Edit) (hok : EditsOk ⟨init, []⟩ es) :
    ∀ p ∈ (es.foldl applyEdit ⟨init, []⟩).roots,
      ∃ s, Heap.read (es.foldl applyEdit ⟨init, []⟩).heap p = some s :=
  (gc_safe es ⟨init, []⟩ inv_init (fun _ h => by cases h) hok).2

/-! ## Non-vacuity: two edits; the second drops a name, which is then reclaimed, while the
covered one survives two collections. -/
def nameA : Bytes := List.replicate 20 65
def nameB : Bytes := List.replicate 21 66

def edit1 : Edit :=
  { allocs := [.allocString nameA, .allocString nameB], all := [⟨3, [.ref 0, .ref 1]⟩],
    choices := [some 3, none], roots := [.ref 0, .ref 1] }
def edit2 : Edit :=
  { allocs := [.allocString nameA], all := [⟨3, [.ref 0]⟩], choices := [some 3, none],
    roots := [.ref 0] }

theorem demo_ok : EditsOk ⟨init, []⟩ [edit1, edit2, edit2] := by
  simp [EditsOk, EditOk, edit1, edit2, isAlloc, OpsOk, OpOk, DistinctIds, Cov, results, opResult,
    applyEdit, gcStep, addAll, addUnmarked, markLoop, popUnmarked, findModule, markAll, mark, run,
    step, init, allocString, lookup, nameA, nameB, inlineMax, sweep, sweepWindow, sweepSlots,
    sweepSlot, reclaimedStrings, numModuleMarkedPerSlice, numSweepUnit]

example : Heap.read ([edit1, edit2, edit2].foldl applyEdit ⟨init, []⟩).heap (.ref 0) = some nameA := by
  decide
example : Heap.read ([edit1, edit2, edit2].foldl applyEdit ⟨init, []⟩).heap (.ref 1) = none := by
  decide

end SamVerif.Gc
