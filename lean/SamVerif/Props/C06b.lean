import SamVerif.Model.Gates
import SamVerif.Lemmas.Assign
/-!
# C06 (continued) — visibility, type-argument arity, interface conformance, bound validation

Property theorems about `Model/Gates.lean`. Tie: the `vis`, `tya`, `conf`, `bnd` streams of
`vlib/c06.py` run generated declarations through the real checker and compare its verdict with
these kernels (`Driver/C06.lean`).
-/
namespace SamVerif.Gates
open SamVerif.Assign

/-! ## Visibility -/

/-- Exact rule of member resolution: the class is public or in the current module, the member is
declared, and it is public or we are inside that very class (same module *and* same name). -/
theorem member_resolved_iff (cx : Ctx) (c : ClassRef) (ms : List (Nat × Bool)) (n : Nat) :
    memberResolved cx c ms n = true ↔
      (c.isPrivate = false ∨ c.modRef = cx.curMod) ∧
      ∃ p, lookupMember ms n = some p ∧ (p = true ∨ (cx.curMod = c.modRef ∧ c.id = cx.curClass)) := by
  unfold memberResolved classVisible inSameClass
  cases hl : lookupMember ms n <;> cases hp : c.isPrivate <;> simp
  all_goals (try (split <;> simp_all))

/-- A private method or function used from anywhere but its own class (another module, or another
class of the same module) is never resolved. -/
theorem private_member_never_resolved (cx : Ctx) (c : ClassRef) (ms : List (Nat × Bool)) (n : Nat)
    (hpriv : lookupMember ms n = some false)
    (hother : ¬ (cx.curMod = c.modRef ∧ cx.curClass = c.id)) :
    memberResolved cx c ms n = false := by
  cases h : memberResolved cx c ms n with
  | false => rfl
  | true =>
    obtain ⟨_, p, hp, hor⟩ := (member_resolved_iff cx c ms n).1 h
    rw [hpriv] at hp
    simp at hp
    subst hp
    rcases hor with h1 | ⟨h1, h2⟩
    · simp at h1
    · exact absurd ⟨h1, h2.symm⟩ hother

example : memberResolved ⟨1, 5⟩ ⟨2, 5, false⟩ [(7, false)] 7 = false := by decide
example : memberResolved ⟨2, 5⟩ ⟨2, 5, false⟩ [(7, false)] 7 = true := by decide

/-- Same rule for fields (as of fix d05f979; before it the module was not compared, finding C06-F3:
class `Circle` of another module could read private fields of `lib.Circle`). -/
theorem private_field_never_visible_outside_class (cx : Ctx) (c : ClassRef) (fs : List (Nat × Bool))
    (n : Nat) (hpriv : lookupMember fs n = some false)
    (hother : ¬ (cx.curMod = c.modRef ∧ cx.curClass = c.id)) :
    fieldResolved cx c fs n = false :=
  private_member_never_resolved cx c fs n hpriv hother

example : fieldResolved ⟨1, 5⟩ ⟨2, 5, false⟩ [(7, false)] 7 = false := by decide

/-- No member or field of a private class is resolved from another module, public or not. -/
theorem private_class_never_resolved (cx : Ctx) (c : ClassRef) (ms : List (Nat × Bool)) (n : Nat)
    (hp : c.isPrivate = true) (hm : c.modRef ≠ cx.curMod) :
    memberResolved cx c ms n = false ∧ fieldResolved cx c ms n = false := by
  simp [memberResolved, fieldResolved, classVisible, hp, hm]

example : memberResolved ⟨1, 5⟩ ⟨2, 6, true⟩ [(7, true)] 7 = false := by decide

/-- Import gate: only existing, non-private toplevels can be imported. -/
theorem import_gate (e : Option Bool) : importOk e = true ↔ e = some false := by
  cases e with
  | none => simp [importOk]
  | some b => cases b <;> simp [importOk]

/-! ## Type-argument arity -/

mutual
theorem tyArgsOk_iff (tab : ArityTable) : ∀ (t : Ty), tyArgsOk tab t = true ↔
    ∀ node ∈ nominalNodes t, ∀ k, arityOf tab node.1 node.2.1 = some k → k = node.2.2
  | .any _ => by simp [tyArgsOk, nominalNodes]
  | .prim _ => by simp [tyArgsOk, nominalNodes]
  | .generic _ => by simp [tyArgsOk, nominalNodes]
  | .fn as r => by
    simp only [tyArgsOk, nominalNodes, Bool.and_eq_true, tyArgsOkL_iff tab as, tyArgsOk_iff tab r,
      List.mem_append]
    constructor
    · rintro ⟨h1, h2⟩ node (h | h)
      · exact h1 node h
      · exact h2 node h
    · intro h
      exact ⟨fun node hn => h node (Or.inl hn), fun node hn => h node (Or.inr hn)⟩
  | .nominal _ m i ts => by
    simp only [tyArgsOk, nominalNodes, Bool.and_eq_true, tyArgsOkL_iff tab ts, List.mem_cons]
    constructor
    · rintro ⟨h1, h2⟩ node (h | h)
      · subst h
        intro k hk
        simp only at hk
        rw [hk] at h2
        simpa using h2
      · exact h1 node h
    · intro h
      refine ⟨fun node hn => h node (Or.inr hn), ?_⟩
      cases ha : arityOf tab m i with
      | none => rfl
      | some k =>
        have := h (m, i, ts.length) (Or.inl rfl) k ha
        simp [this]
theorem tyArgsOkL_iff (tab : ArityTable) : ∀ (ts : List Ty), tyArgsOkL tab ts = true ↔
    ∀ node ∈ nominalNodesL ts, ∀ k, arityOf tab node.1 node.2.1 = some k → k = node.2.2
  | [] => by simp [tyArgsOkL, nominalNodesL]
  | t :: ts => by
    simp only [tyArgsOkL, nominalNodesL, Bool.and_eq_true, tyArgsOk_iff tab t, tyArgsOkL_iff tab ts,
      List.mem_append]
    constructor
    · rintro ⟨h1, h2⟩ node (h | h)
      · exact h1 node h
      · exact h2 node h
    · intro h
      exact ⟨fun node hn => h node (Or.inl hn), fun node hn => h node (Or.inr hn)⟩
end

/-- **Type-argument arity gate.** A type passes `validate_type_instantiation` without an arity
error iff *every* nominal node inside it, at any depth (type arguments, function parameter and
return types), carries exactly as many type arguments as its toplevel declares. -/
theorem tyarg_arity_gate (tab : ArityTable) (t : Ty) : tyArgsOk tab t = true ↔
    ∀ node ∈ nominalNodes t, ∀ k, arityOf tab node.1 node.2.1 = some k → k = node.2.2 :=
  tyArgsOk_iff tab t

example : tyArgsOk [((1, 2), 1)] (.fn [.nominal false 1 2 [.nominal false 1 2 []]] (.prim .int)) = false := by
  decide
example : tyArgsOk [((1, 2), 1)] (.nominal false 1 2 [.nominal false 1 2 [.prim .int]]) = true := by decide

/-- Explicit type arguments of a member access are accepted iff their count is the declared one. -/
theorem explicit_tyarg_gate (declared given : Nat) : explicitTyArgsOk declared given = true ↔ given = declared := by
  simp [explicitTyArgsOk]

/-! ## Interface conformance -/

/-- signatures that come from annotations: no `any`, no class statics -/
def annot (t : Ty) : Prop := anyFree t = true ∧ noStatics t = true

def annotBound : Option Ty → Prop
  | none => True
  | some t => annot t

def MSig.wf (s : MSig) : Prop := annot s.ty ∧ ∀ p ∈ s.tparams, annotBound p.2

theorem boundConforms_iff (e a : Option Ty) (he : annotBound e) (ha : annotBound a) :
    boundConforms e a = true ↔ e = a := by
  cases e <;> cases a <;> simp [boundConforms]
  rename_i x y
  exact sameType_iff_eq x y he.1 ha.1 he.2 ha.2

theorem tparams_conform_iff : ∀ (es as : List (Nat × Option Ty)),
    (∀ p ∈ es, annotBound p.2) → (∀ p ∈ as, annotBound p.2) →
    ((es.length == as.length && tparamsConform es as) = true ↔ es = as)
  | [], [], _, _ => by simp [tparamsConform]
  | [], _ :: _, _, _ => by simp
  | _ :: _, [], _, _ => by simp
  | e :: es, a :: as, he, ha => by
    have ih := tparams_conform_iff es as (fun p hp => he p (by simp [hp])) (fun p hp => ha p (by simp [hp]))
    have hb := boundConforms_iff e.2 a.2 (he e (by simp)) (ha a (by simp))
    simp only [Bool.and_eq_true, beq_iff_eq] at ih
    simp only [List.length_cons, tparamsConform, Bool.and_eq_true, beq_iff_eq, Nat.add_right_cancel_iff, hb,
      List.cons.injEq]
    constructor
    · rintro ⟨hl, ⟨h1, h2⟩, h3⟩
      exact ⟨Prod.ext h1 h2, ih.1 ⟨hl, h3⟩⟩
    · rintro ⟨rfl, hrest⟩
      have := ih.2 hrest
      exact ⟨this.1, ⟨rfl, rfl⟩, this.2⟩

/-- One declared method against one inherited signature: no diagnostic iff type parameters
(names and bounds) and the function type are identical. -/
theorem member_conforms_iff (e a : MSig) (he : e.wf) (ha : a.wf) :
    memberConforms e a = true ↔ e.tparams = a.tparams ∧ e.ty = a.ty := by
  have h1 := tparams_conform_iff e.tparams a.tparams he.2 ha.2
  have h2 := sameType_iff_eq e.ty a.ty he.1.1 ha.1.1 he.1.2 ha.1.2
  simp only [Bool.and_eq_true] at h1
  simp only [memberConforms, Bool.and_eq_true, h2]
  constructor
  · rintro ⟨⟨hl, hz⟩, ht⟩; exact ⟨h1.1 ⟨hl, hz⟩, ht⟩
  · rintro ⟨hp, ht⟩; exact ⟨h1.2 hp, ht⟩

/-- **Interface conformance is exact.** A class passes iff every inherited member is declared, and
every declaration that bears an inherited name is public and has exactly the inherited type
parameters and function type. So a missing or mistyped member always produces a diagnostic. -/
theorem conformance_exact (expected declared : List MSig)
    (he : ∀ e ∈ expected, e.wf) (hd : ∀ a ∈ declared, a.wf) :
    classConforms expected declared = true ↔
      (∀ e ∈ expected, ∃ a ∈ declared, a.name = e.name) ∧
      (∀ a ∈ declared, ∀ e ∈ expected, e.name = a.name →
        a.isPublic = true ∧ e.tparams = a.tparams ∧ e.ty = a.ty) := by
  simp only [classConforms, Bool.and_eq_true, List.all_eq_true, List.any_eq_true, beq_iff_eq,
    Bool.or_eq_true, bne_iff_ne, ne_eq]
  constructor
  · rintro ⟨h1, h2⟩
    refine ⟨h1, fun a ha e hee hname => ?_⟩
    rcases h2 a ha e hee with hne | ⟨hc, hp⟩
    · exact absurd hname (by simpa using hne)
    · exact ⟨hp, (member_conforms_iff e a (he e hee) (hd a ha)).1 hc⟩
  · rintro ⟨h1, h2⟩
    refine ⟨h1, fun a ha e hee => ?_⟩
    by_cases hname : e.name = a.name
    · right
      have := h2 a ha e hee hname
      exact ⟨(member_conforms_iff e a (he e hee) (hd a ha)).2 this.2, this.1⟩
    · left; simpa using hname

example : classConforms [⟨1, true, [], .fn [] (.prim .int)⟩] [] = false := by decide
example : classConforms [⟨1, true, [], .fn [] (.prim .int)⟩] [⟨1, true, [], .fn [] (.prim .bool)⟩] = false := by
  decide
example : classConforms [⟨1, true, [], .fn [] (.prim .int)⟩]
    [⟨1, true, [], .fn [] (.prim .int)⟩, ⟨2, false, [], .fn [] (.prim .bool)⟩] = true := by decide

/-! ## Bound validation -/

/-- **Bound gate.** A type argument passes the bound `B` iff it is `B` itself or it is a nominal
type that has `B` among its (transitive, instantiated) super types. A class that does not
implement the bound is always reported. -/
theorem bound_gate (targ bound : Ty) (supers : List Ty)
    (ht : annot targ) (hb : annot bound) (hs : ∀ s ∈ supers, annot s) :
    boundOk targ supers bound = true ↔
      targ = bound ∨ ((∃ s m i ts, targ = .nominal s m i ts) ∧ bound ∈ supers) := by
  have heq := sameType_iff_eq targ bound ht.1 hb.1 ht.2 hb.2
  have hmem : (supers.any fun s => sameType s bound) = true ↔ bound ∈ supers := by
    simp only [List.any_eq_true]
    constructor
    · rintro ⟨s, hs', hst⟩
      have := (sameType_iff_eq s bound (hs s hs').1 hb.1 (hs s hs').2 hb.2).1 hst
      exact this ▸ hs'
    · intro h
      exact ⟨bound, h, (sameType_iff_eq bound bound hb.1 hb.1 hb.2 hb.2).2 rfl⟩
  cases targ with
  | nominal s m i ts =>
    simp only [boundOk, isSubtypeWith, List.any_cons, Bool.or_eq_true, heq, hmem]
    constructor
    · rintro (h | h | h)
      · exact Or.inl h
      · exact Or.inl h
      · exact Or.inr ⟨⟨s, m, i, ts, rfl⟩, h⟩
    · rintro (h | ⟨_, h⟩)
      · exact Or.inl h
      · exact Or.inr (Or.inr h)
  | any p => simp [annot, anyFree] at ht
  | prim k =>
    simp only [boundOk, isSubtypeWith, Bool.or_false, heq]
    constructor
    · exact Or.inl
    · rintro (h | ⟨⟨s, m, i, ts, h⟩, _⟩)
      · exact h
      · cases h
  | generic n =>
    simp only [boundOk, isSubtypeWith, Bool.or_false, heq]
    constructor
    · exact Or.inl
    · rintro (h | ⟨⟨s, m, i, ts, h⟩, _⟩)
      · exact h
      · cases h
  | fn as r =>
    simp only [boundOk, isSubtypeWith, Bool.or_false, heq]
    constructor
    · exact Or.inl
    · rintro (h | ⟨⟨s, m, i, ts, h⟩, _⟩)
      · exact h
      · cases h

example : boundOk (.nominal false 1 3 []) [] (.nominal false 1 9 []) = false := by decide
example : boundOk (.nominal false 1 3 []) [.nominal false 1 9 []] (.nominal false 1 9 []) = true := by decide

end SamVerif.Gates
