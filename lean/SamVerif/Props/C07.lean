import SamVerif.Lemmas.Useful
import SamVerif.Lemmas.UsefulTerm
import SamVerif.Lemmas.UsefulNorm
import SamVerif.Lemmas.UsefulSem
import SamVerif.Lemmas.UsefulErr
import SamVerif.Generated.C07Tuples
/-!
# C07 — Exhaustiveness and usefulness analysis of patterns is exact

Property theorems only (helper lemmas: `Lemmas/Useful.lean`; model: `Model/Useful.lean`, mirroring
`crates/samlang-checker/src/pattern_matching.rs`).  Tied to the code by the `patcheck`
correspondence (`harness/src/bin/c07.rs` vs `Driver/C07.lean`).
-/
namespace SamVerif.Useful

/-- `q` is useful with respect to `P` at column types `ts`: some well-typed vector of values is
matched by `q` and by no row of `P` (Maranget, Definition 1). -/
def Useful (sig : Sig) (P : Matrix) (q : Row) (ts : List Nat) : Prop :=
  ∃ vs, hasTys sig vs ts = true ∧ pmatchAll q vs = true ∧ ∀ r ∈ P, pmatchAll r vs = false

theorem useful_iff (sig : Sig) (cx : Cx) (hcx : CxOk sig cx) (hinh : Inhabited' sig) :
    ∀ (fuel : Nat) (P : Matrix) (q : Row) (ts : List Nat) (b : Bool),
      matrixTy sig P ts = true → patTys sig q ts = true → okPats q = true →
      usefulF cx fuel P q = some b → (b = true ↔ Useful sig P q ts) := by
  intro fuel
  induction fuel with
  | zero => intro P q ts b _ _ _ h; simp [usefulF] at h
  | succ n ih =>
    intro P q ts b hP hq hok h
    simp only [usefulF] at h
    split at h
    · -- no rows: useful, because `q` matches some value
      rename_i hemp
      simp only [Option.some.injEq] at h
      subst h
      simp only [true_iff]
      obtain ⟨vs, hvs, hm⟩ := exists_matches sig hinh q ts hq hok
      have : P = [] := by simpa using hemp
      exact ⟨vs, hvs, hm, by simp [this]⟩
    · rename_i hne
      split at h
      · -- q = []
        simp only [Option.some.injEq] at h
        subst h
        simp only [Bool.false_eq_true, false_iff]
        rintro ⟨vs, hvs, _, hun⟩
        cases ts with
        | cons t ts => simp [patTys] at hq
        | nil =>
          cases P with
          | nil => simp at hne
          | cons r P =>
            have hr := hun r (by simp)
            simp only [matrixTy, List.all_cons, Bool.and_eq_true] at hP
            cases r with
            | cons p r => simp [patTys] at hP
            | nil =>
              cases vs with
              | nil => simp [pmatchAll] at hr
              | cons v vs => simp [hasTys] at hvs
      · -- q = struct c rs :: rest
        rename_i c rs rest
        cases ts with
        | nil => simp [patTys] at hq
        | cons t ts =>
          simp only [patTys, patTy, Bool.and_eq_true] at hq
          simp only [okPats, okPat, Bool.and_eq_true] at hok
          cases hc : ctorFields sig t c with
          | none => simp [hc] at hq
          | some tys =>
            simp only [hc] at hq
            have hl : rs.length = tys.length := patTys_length sig rs tys hq.1
            rw [hl] at h
            have ih' := ih _ _ (tys ++ ts) b (spec_matrix_ty sig t ts P hP c tys hc)
              (patTys_append sig _ _ _ _ hq.1 hq.2) (by simp [okPats_append, hok.1, hok.2]) h
            rw [ih']
            constructor
            · rintro ⟨xs, hxs, hm, hun⟩
              obtain ⟨ws, vs, e, hws, hvs⟩ := hasTys_append_inv sig tys xs ts hxs
              subst e
              have hlw : rs.length = ws.length := by rw [hl, hasTys_length sig ws tys hws]
              rw [pmatchAll_append _ _ _ _ hlw, Bool.and_eq_true] at hm
              refine ⟨.con c ws :: vs, by simp [hasTys, hasTy, hc, hws, hvs],
                by simp [pmatchAll, pmatch, hm.1, hm.2], ?_⟩
              exact (spec_matrix sig t ts P hP c tys ws vs hc hws).mp hun
            · rintro ⟨xs, hxs, hm, hun⟩
              cases xs with
              | nil => simp [hasTys] at hxs
              | cons v vs =>
                simp only [hasTys, Bool.and_eq_true] at hxs
                simp only [pmatchAll, Bool.and_eq_true] at hm
                cases v with
                | prim k => simp [pmatch] at hm
                | con c' ws =>
                  simp only [pmatch, Bool.and_eq_true, decide_eq_true_eq] at hm
                  obtain ⟨⟨e, hmw⟩, hmr⟩ := hm
                  subst e
                  have hws : hasTys sig ws tys = true := by
                    have := hxs.1
                    simp only [hasTy, hc] at this
                    exact this
                  have hlw : rs.length = ws.length := by rw [hl, hasTys_length sig ws tys hws]
                  refine ⟨ws ++ vs, hasTys_append sig _ _ _ _ hws hxs.2, ?_, ?_⟩
                  · rw [pmatchAll_append _ _ _ _ hlw]; simp [hmw, hmr]
                  · exact (spec_matrix sig t ts P hP c tys ws vs hc hws).mpr hun
      · -- q = wild :: rest
        rename_i rest
        cases ts with
        | nil => simp [patTys] at hq
        | cons t ts =>
          simp only [patTys, patTy, Bool.and_eq_true, true_and] at hq
          simp only [okPats, okPat, Bool.and_eq_true, true_and] at hok
          have hty : ∀ c n, (c, n) ∈ rootCtors P → ∃ tys, ctorFields sig t c = some tys ∧ tys.length = n :=
            fun c n hm => rawRoots_ty sig t ts P hP c n (rootCtors_sub P _ hm)
          split at h
          · -- complete signature: try every root constructor
            rename_i hsig
            have hany := anyO_some _ _ b h
            constructor
            · intro hb
              obtain ⟨⟨c, n⟩, hmem, hu⟩ := hany.1 hb
              obtain ⟨tys, hc, hlen⟩ := hty c n hmem
              subst hlen
              have ih' := ih _ _ (tys ++ ts) true (spec_matrix_ty sig t ts P hP c tys hc)
                (patTys_append sig _ _ _ _ (patTys_wilds sig tys) hq)
                (by simp [okPats_append, okPats_wilds, hok]) hu
              obtain ⟨xs, hxs, hm, hun⟩ := ih'.mp rfl
              obtain ⟨ws, vs, e, hws, hvs⟩ := hasTys_append_inv sig tys xs ts hxs
              subst e
              rw [pmatchAll_wilds_append _ _ _ _ (hasTys_length sig ws tys hws)] at hm
              refine ⟨.con c ws :: vs, by simp [hasTys, hasTy, hc, hws, hvs],
                by simp [pmatchAll, pmatch, hm], ?_⟩
              exact (spec_matrix sig t ts P hP c tys ws vs hc hws).mp hun
            · rintro ⟨xs, hxs, hm, hun⟩
              cases hb : b with
              | true => rfl
              | false =>
                exfalso
                have hall := hany.2 hb
                cases xs with
                | nil => simp [hasTys] at hxs
                | cons v vs =>
                  simp only [hasTys, Bool.and_eq_true] at hxs
                  simp only [pmatchAll, pmatch, Bool.true_and] at hm
                  cases v with
                  | prim k =>
                    -- an opaque type has no root constructors, so the signature is never complete
                    have hroots : rootCtors P = [] := by
                      cases hr : rootCtors P with
                      | nil => rfl
                      | cons x l =>
                        obtain ⟨tys, hc, _⟩ := hty x.1 x.2 (by rw [hr]; simp)
                        have := hxs.1
                        simp only [hasTy] at this
                        unfold ctorFields at hc
                        cases hs : sig t <;> simp [hs] at this hc
                    rw [hroots] at hsig
                    simp [sigIncomplete] at hsig
                  | con c ws =>
                    obtain ⟨n, hmem⟩ := sigIncomplete_none sig cx hcx t ts P hP hsig c ws hxs.1
                    obtain ⟨tys, hc, hlen⟩ := hty c n hmem
                    subst hlen
                    have hws : hasTys sig ws tys = true := by
                      have := hxs.1
                      simp only [hasTy, hc] at this
                      exact this
                    have hu := hall (c, tys.length) hmem
                    have ih' := ih _ _ (tys ++ ts) false (spec_matrix_ty sig t ts P hP c tys hc)
                      (patTys_append sig _ _ _ _ (patTys_wilds sig tys) hq)
                      (by simp [okPats_append, okPats_wilds, hok]) hu
                    have : Useful sig (specialize P c tys.length) (wilds tys.length ++ rest) (tys ++ ts) :=
                      ⟨ws ++ vs, hasTys_append sig _ _ _ _ hws hxs.2,
                        by rw [pmatchAll_wilds_append _ _ _ _ (hasTys_length sig ws tys hws)]; exact hm,
                        (spec_matrix sig t ts P hP c tys ws vs hc hws).mpr hun⟩
                    exact absurd (ih'.mpr this) (by simp)
          · -- incomplete signature: default matrix
            rename_i inc hsig
            have ih' := ih _ _ ts b (default_matrix_ty sig t ts P hP) hq hok h
            rw [ih']
            constructor
            · rintro ⟨vs, hvs, hm, hun⟩
              obtain ⟨v, hv, hf⟩ := sigIncomplete_some sig cx hcx hinh t ts P hP inc hsig
              exact ⟨v :: vs, by simp [hasTys, hv, hvs], by simp [pmatchAll, pmatch, hm],
                default_unmatched_conv P v vs hf hun⟩
            · rintro ⟨xs, hxs, hm, hun⟩
              cases xs with
              | nil => simp [hasTys] at hxs
              | cons v vs =>
                simp only [hasTys, Bool.and_eq_true] at hxs
                simp only [pmatchAll, pmatch, Bool.true_and] at hm
                exact ⟨vs, hxs.2, hm, default_unmatched P v vs hun⟩
      · -- q = or ps :: rest
        rename_i ps rest
        cases ts with
        | nil => simp [patTys] at hq
        | cons t ts =>
          simp only [patTys, patTy, Bool.and_eq_true] at hq
          simp only [okPats, okPat, Bool.and_eq_true] at hok
          have hany := anyO_some _ _ b h
          have hpt := (patTyAll_iff sig ps t).mp hq.1
          constructor
          · intro hb
            obtain ⟨r, hmem, hu⟩ := hany.1 hb
            have ih' := ih P (r :: rest) (t :: ts) true hP
              (by simp [patTys, hpt r hmem, hq.2])
              (by simp [okPats, okPats_mem ps r hok.1.2 hmem, hok.2]) hu
            obtain ⟨xs, hxs, hm, hun⟩ := ih'.mp rfl
            cases xs with
            | nil => simp [hasTys] at hxs
            | cons v vs =>
              simp only [pmatchAll, Bool.and_eq_true] at hm
              exact ⟨v :: vs, hxs, by
                simp only [pmatchAll, pmatch, Bool.and_eq_true]
                exact ⟨(pmatchAny_iff ps v).mpr ⟨r, hmem, hm.1⟩, hm.2⟩, hun⟩
          · rintro ⟨xs, hxs, hm, hun⟩
            cases hb : b with
            | true => rfl
            | false =>
              exfalso
              have hall := hany.2 hb
              cases xs with
              | nil => simp [hasTys] at hxs
              | cons v vs =>
                simp only [pmatchAll, pmatch, Bool.and_eq_true] at hm
                obtain ⟨r, hmem, hmr⟩ := (pmatchAny_iff ps v).mp hm.1
                have ih' := ih P (r :: rest) (t :: ts) false hP
                  (by simp [patTys, hpt r hmem, hq.2])
                  (by simp [okPats, okPats_mem ps r hok.1.2 hmem, hok.2]) (hall r hmem)
                have : Useful sig P (r :: rest) (t :: ts) :=
                  ⟨v :: vs, hxs, by simp [pmatchAll, hmr, hm.2], hun⟩
                exact absurd (ih'.mpr this) (by simp)


/-- `is_additional_pattern_useful` (one column): the new pattern is reported useful exactly when some
value of the scrutinee type is matched by it and by none of the existing patterns. -/
theorem additional_useful_iff (sig : Sig) (cx : Cx) (hcx : CxOk sig cx) (hinh : Inhabited' sig)
    (fuel : Nat) (existing : List Pat) (p : Pat) (t : Nat) (u : Bool)
    (he : ∀ e ∈ existing, patTy sig e t = true) (hp : patTy sig p t = true) (hok : okPat p = true)
    (h : isAdditionalPatternUsefulF cx fuel existing p = some u) :
    (u = true ↔ ∃ v, hasTy sig v t = true ∧ pmatch p v = true ∧ ∀ e ∈ existing, pmatch e v = false) := by
  have hP : matrixTy sig (existing.map fun e => [e]) [t] = true := by
    simp only [matrixTy, List.all_eq_true, List.mem_map]
    rintro r ⟨e, hmem, rfl⟩
    simp [patTys, he e hmem]
  have := useful_iff sig cx hcx hinh fuel _ [p] [t] u hP (by simp [patTys, hp]) (by simp [okPats, hok]) h
  rw [this]
  constructor
  · rintro ⟨vs, hvs, hm, hun⟩
    cases vs with
    | nil => simp [hasTys] at hvs
    | cons v vs =>
      cases vs with
      | cons w ws => simp [hasTys] at hvs
      | nil =>
        refine ⟨v, by simpa [hasTys] using hvs, by simpa [pmatchAll] using hm, ?_⟩
        intro e hmem
        have := hun [e] (List.mem_map.mpr ⟨e, hmem, rfl⟩)
        simpa [pmatchAll] using this
  · rintro ⟨v, hv, hm, hun⟩
    refine ⟨[v], by simp [hasTys, hv], by simp [pmatchAll, hm], ?_⟩
    intro r hr
    obtain ⟨e, hmem, rfl⟩ := List.mem_map.mp hr
    simp [pmatchAll, hun e hmem]

/-- **If-let** (main_checker.rs:939-946): the "irrefutable pattern" diagnostic fires
(`is_additional_pattern_useful([p], _) = false`) exactly when the pattern matches every value of the
scrutinee type. -/
theorem iflet_useless_iff (sig : Sig) (cx : Cx) (hcx : CxOk sig cx) (hinh : Inhabited' sig)
    (fuel : Nat) (p : Pat) (t : Nat) (u : Bool) (hp : patTy sig p t = true)
    (h : isAdditionalPatternUsefulF cx fuel [p] .wild = some u) :
    (u = false ↔ ∀ v, hasTy sig v t = true → pmatch p v = true) := by
  have := additional_useful_iff sig cx hcx hinh fuel [p] .wild t u (by simpa using hp) (by simp [patTy])
    (by simp [okPat]) h
  constructor
  · intro hu v hv
    cases hm : pmatch p v with
    | true => rfl
    | false =>
      have : u = true := this.mpr ⟨v, hv, by simp [pmatch], by simpa using hm⟩
      rw [hu] at this; cases this
  · intro hall
    cases hu : u with
    | false => rfl
    | true =>
      obtain ⟨v, hv, _, hun⟩ := this.mp hu
      have := hun p (by simp)
      rw [hall v hv] at this; cases this

/-- **Match / let accepted ⇒ exhaustive** (`incomplete_counterexample_internal` returning `None`,
main_checker.rs:995-999, 1540-1544): if the counterexample search finds nothing, every well-typed
value vector is matched by some row.  No inhabitedness hypothesis is needed for this direction. -/
theorem accepted_exhaustive (sig : Sig) (cx : Cx) (hcx : CxOk sig cx) :
    ∀ (fuel : Nat) (P : Matrix) (n : Nat) (ts : List Nat),
      matrixTy sig P ts = true → ts.length = n → cexF cx fuel P n = some none →
      ∀ vs, hasTys sig vs ts = true → ∃ r ∈ P, pmatchAll r vs = true := by
  intro fuel
  induction fuel with
  | zero => intro P n ts _ _ h; simp [cexF] at h
  | succ k ih =>
    intro P n ts hP hn h vs hvs
    simp only [cexF] at h
    split at h
    · -- n = 0
      rename_i hz
      subst hz
      have hts : ts = [] := List.length_eq_zero_iff.mp hn
      subst hts
      split at h
      · simp at h
      · rename_i hne
        cases P with
        | nil => simp at hne
        | cons r P =>
          simp only [matrixTy, List.all_cons, Bool.and_eq_true] at hP
          cases r with
          | cons p r => simp [patTys] at hP
          | nil =>
            cases vs with
            | nil => exact ⟨[], by simp, by simp [pmatchAll]⟩
            | cons v vs => simp [hasTys] at hvs
    · rename_i hnz
      cases ts with
      | nil => simp at hn; exact absurd hn.symm hnz
      | cons t ts =>
        cases vs with
        | nil => simp [hasTys] at hvs
        | cons v vs =>
          simp only [hasTys, Bool.and_eq_true] at hvs
          have hty : ∀ c m, (c, m) ∈ rootCtors P → ∃ tys, ctorFields sig t c = some tys ∧ tys.length = m :=
            fun c m hm => rawRoots_ty sig t ts P hP c m (rootCtors_sub P _ hm)
          apply Classical.byContradiction
          intro hno
          have hun : ∀ r ∈ P, pmatchAll r (v :: vs) = false := by
            intro r hr
            cases hm : pmatchAll r (v :: vs) with
            | false => rfl
            | true => exact absurd ⟨r, hr, hm⟩ hno
          split at h
          · -- incomplete signature: default matrix
            rename_i inc hsig
            split at h
            · simp at h
            · rename_i hrec
              have hlen : ts.length = n - 1 := by simp at hn; omega
              obtain ⟨r', hr', hm'⟩ := ih _ _ ts (default_matrix_ty sig t ts P hP) hlen hrec vs hvs.2
              have := default_unmatched P v vs hun r' hr'
              rw [hm'] at this; cases this
            · simp at h
          · -- complete signature: every root constructor
            rename_i hsig
            have hall := firstO_none _ _ h
            cases v with
            | prim kk =>
              have hroots : rootCtors P = [] := by
                cases hr : rootCtors P with
                | nil => rfl
                | cons x l =>
                  obtain ⟨tys, hc, _⟩ := hty x.1 x.2 (by rw [hr]; simp)
                  have := hvs.1
                  simp only [hasTy] at this
                  unfold ctorFields at hc
                  cases hs : sig t <;> simp [hs] at this hc
              rw [hroots] at hsig
              simp [sigIncomplete] at hsig
            | con c ws =>
              obtain ⟨m, hmem⟩ := sigIncomplete_none sig cx hcx t ts P hP hsig c ws hvs.1
              obtain ⟨tys, hc, hlen⟩ := hty c m hmem
              subst hlen
              have hws : hasTys sig ws tys = true := by
                have := hvs.1
                simp only [hasTy, hc] at this
                exact this
              have hx := hall (c, tys.length) ((mem_sortByKey _ _).mpr hmem)
              simp only at hx
              split at hx
              · simp at hx
              · rename_i hrec
                have hl2 : (tys ++ ts).length = tys.length + n - 1 := by simp at hn ⊢; omega
                obtain ⟨r', hr', hm'⟩ := ih _ _ (tys ++ ts) (spec_matrix_ty sig t ts P hP c tys hc) hl2 hrec
                  (ws ++ vs) (hasTys_append sig _ _ _ _ hws hvs.2)
                have := (spec_matrix sig t ts P hP c tys ws vs hc hws).mpr hun r' hr'
                rw [hm'] at this; cases this
              · simp at hx

/-- **Counterexample soundness** (`incomplete_counterexample_internal` returning `Some(d)`): the
reported vector `d` is a well-typed pattern vector without `nothing()`, and *every* well-typed value
vector it denotes is matched by no row. -/
theorem cex_some_sound (sig : Sig) (cx : Cx) (hcx : CxOk sig cx) (hnd : SigNodup sig) :
    ∀ (fuel : Nat) (P : Matrix) (n : Nat) (ts : List Nat) (d : Row),
      matrixTy sig P ts = true → ts.length = n → cexF cx fuel P n = some (some d) →
      patTys sig d ts = true ∧ okPats d = true ∧
        ∀ vs, hasTys sig vs ts = true → pmatchAll d vs = true → ∀ r ∈ P, pmatchAll r vs = false := by
  intro fuel
  induction fuel with
  | zero => intro P n ts d _ _ h; simp [cexF] at h
  | succ k ih =>
    intro P n ts d hP hn h
    simp only [cexF] at h
    split at h
    · -- n = 0
      rename_i hz
      subst hz
      have hts : ts = [] := List.length_eq_zero_iff.mp hn
      subst hts
      split at h
      · rename_i hemp
        simp only [Option.some.injEq] at h
        subst h
        have : P = [] := by simpa using hemp
        subst this
        exact ⟨by simp [patTys], by simp [okPats], by simp⟩
      · simp at h
    · rename_i hnz
      cases ts with
      | nil => simp at hn; exact absurd hn.symm hnz
      | cons t ts =>
        have hty : ∀ c m, (c, m) ∈ rootCtors P → ∃ tys, ctorFields sig t c = some tys ∧ tys.length = m :=
          fun c m hm => rawRoots_ty sig t ts P hP c m (rootCtors_sub P _ hm)
        have hkey : ∀ c m, (c, m) ∈ rawRoots P → ∃ m', (c, m') ∈ rootCtors P :=
          fun c m hm => rootCtors_key P (c, m) hm
        split at h
        · -- incomplete signature
          rename_i inc hsig
          split at h
          · simp at h
          · simp at h
          · rename_i v' hrec
            simp only [Option.some.injEq] at h
            have hlen : ts.length = n - 1 := by simp at hn; omega
            obtain ⟨hv'ty, hv'ok, hv'un⟩ := ih _ _ ts v' (default_matrix_ty sig t ts P hP) hlen hrec
            rcases sigIncomplete_some_cases cx _ inc hsig with ⟨hroots, hinc⟩ | ⟨c0, rn, rest, hroots, hincne, hincs⟩
            · -- no root constructors at all: head is `_`
              subst hinc
              simp only [minCtor] at h
              subst h
              refine ⟨by simp [patTys, patTy, hv'ty], by simp [okPats, okPat, hv'ok], ?_⟩
              intro vs hvs hm
              cases vs with
              | nil => simp [hasTys] at hvs
              | cons v vs =>
                simp only [hasTys, Bool.and_eq_true] at hvs
                simp only [pmatchAll, pmatch, Bool.true_and] at hm
                refine default_unmatched_conv P v vs ?_ (hv'un vs hvs.2 hm)
                cases v with
                | prim kk => simp [headFree]
                | con c ws =>
                  intro m hmem
                  obtain ⟨m', hm'⟩ := hkey c m hmem
                  rw [hroots] at hm'; simp at hm'
            · -- head is the least missing variant applied to wildcards
              cases hmin : minCtor inc with
              | none => exact absurd (minCtor_none inc hmin) hincne
              | some x =>
                obtain ⟨variant, size⟩ := x
                simp only [hmin] at h
                subst h
                obtain ⟨hcls, hcxm, hfresh⟩ := hincs _ (minCtor_mem inc _ hmin)
                simp only at hcls hcxm hfresh
                obtain ⟨tys0, htc0, _⟩ := hty (some c0) rn (by rw [hroots]; simp)
                obtain ⟨vsd, hsig', _⟩ := ctorFields_some htc0
                rw [hcx t c0.cls vsd hsig'] at hcxm
                obtain ⟨vt, hvt, evt⟩ := List.mem_map.mp hcxm
                obtain ⟨vname, vtys⟩ := vt
                simp only [Prod.mk.injEq] at evt
                have hfv : findVariant vsd variant.name = some vtys := by
                  rw [← evt.1]; exact findVariant_nodup vsd vname vtys (hnd t c0.cls vsd hsig') hvt
                have hcf : ctorFields sig t (some variant) = some vtys := by
                  simp [ctorFields, hsig', hcls, hfv]
                have hsz : size = vtys.length := evt.2.symm
                refine ⟨?_, by simp [okPats, okPat, okPats_wilds, hv'ok], ?_⟩
                · simp only [patTys, patTy, hcf, Bool.and_eq_true]
                  exact ⟨by rw [hsz]; exact patTys_wilds sig vtys, hv'ty⟩
                · intro vs hvs hm
                  cases vs with
                  | nil => simp [hasTys] at hvs
                  | cons v vs =>
                    simp only [hasTys, Bool.and_eq_true] at hvs
                    simp only [pmatchAll, Bool.and_eq_true] at hm
                    refine default_unmatched_conv P v vs ?_ (hv'un vs hvs.2 hm.2)
                    cases v with
                    | prim kk => simp [headFree]
                    | con c ws =>
                      have hc : some variant = c := by
                        have := hm.1
                        simp only [pmatch, Bool.and_eq_true, decide_eq_true_eq] at this
                        exact this.1
                      subst hc
                      intro m hmem
                      obtain ⟨m', hm'⟩ := hkey _ m hmem
                      exact hfresh variant m' hm' rfl
        · -- complete signature: first root constructor with a gap
          rename_i hsig
          obtain ⟨⟨c, a⟩, hmem, hfx⟩ := firstO_some _ _ d h
          have hmem' : (c, a) ∈ rootCtors P := (mem_sortByKey _ _).mp hmem
          obtain ⟨tys, hc, hlen⟩ := hty c a hmem'
          subst hlen
          simp only at hfx
          split at hfx
          · simp at hfx
          · simp at hfx
          · rename_i v' hrec
            simp only [Option.some.injEq] at hfx
            subst hfx
            have hl2 : (tys ++ ts).length = tys.length + n - 1 := by simp at hn ⊢; omega
            obtain ⟨hv'ty, hv'ok, hv'un⟩ := ih _ _ (tys ++ ts) v' (spec_matrix_ty sig t ts P hP c tys hc) hl2 hrec
            obtain ⟨hty1, hty2⟩ := patTys_take_drop sig tys ts v' hv'ty
            obtain ⟨hok1, hok2⟩ := okPats_take_drop tys.length v' hv'ok
            refine ⟨by simp [patTys, patTy, hc, hty1, hty2], by simp [okPats, okPat, hok1, hok2], ?_⟩
            intro vs hvs hm
            cases vs with
            | nil => simp [hasTys] at hvs
            | cons v vs =>
              simp only [hasTys, Bool.and_eq_true] at hvs
              simp only [pmatchAll, Bool.and_eq_true] at hm
              cases v with
              | prim kk => simp [pmatch] at hm
              | con c' ws =>
                obtain ⟨hm1, hm2⟩ := hm
                simp only [pmatch, Bool.and_eq_true, decide_eq_true_eq] at hm1
                obtain ⟨e, hm1⟩ := hm1
                subst e
                have hws : hasTys sig ws tys = true := by
                  have := hvs.1
                  simp only [hasTy, hc] at this
                  exact this
                have hmv : pmatchAll v' (ws ++ vs) = true := by
                  rw [← List.take_append_drop tys.length v',
                    pmatchAll_append _ _ _ _ (pmatchAll_length _ _ hm1), hm1, hm2]; rfl
                exact (spec_matrix sig t ts P hP c tys ws vs hc hws).mp (hv'un _ (hasTys_append sig _ _ _ _ hws hvs.2) hmv)


/-- **Exhaustiveness verdict is exact** (both directions): whenever the counterexample search returns,
it returns `None` exactly when every well-typed value vector is matched by some row. -/
theorem exhaustive_iff (sig : Sig) (cx : Cx) (hcx : CxOk sig cx) (hnd : SigNodup sig) (hinh : Inhabited' sig)
    (fuel : Nat) (P : Matrix) (n : Nat) (ts : List Nat) (res : Option Row)
    (hP : matrixTy sig P ts = true) (hn : ts.length = n) (h : cexF cx fuel P n = some res) :
    (res = none ↔ ∀ vs, hasTys sig vs ts = true → ∃ r ∈ P, pmatchAll r vs = true) := by
  constructor
  · intro hr; subst hr
    exact accepted_exhaustive sig cx hcx fuel P n ts hP hn h
  · intro hall
    cases res with
    | none => rfl
    | some d =>
      obtain ⟨hty, hok, hun⟩ := cex_some_sound sig cx hcx hnd fuel P n ts d hP hn h
      obtain ⟨vs, hvs, hm⟩ := exists_matches sig hinh d ts hty hok
      obtain ⟨r, hr, hmr⟩ := hall vs hvs
      rw [hun vs hvs hm r hr] at hmr; cases hmr

/-- **Rejected ⇒ the reported counterexample denotes a value that no row matches** (existence needs
inhabited types). -/
theorem counterexample_denotes_unmatched (sig : Sig) (cx : Cx) (hcx : CxOk sig cx) (hnd : SigNodup sig)
    (hinh : Inhabited' sig) (fuel : Nat) (P : Matrix) (n : Nat) (ts : List Nat) (d : Row)
    (hP : matrixTy sig P ts = true) (hn : ts.length = n) (h : cexF cx fuel P n = some (some d)) :
    ∃ vs, hasTys sig vs ts = true ∧ pmatchAll d vs = true ∧ ∀ r ∈ P, pmatchAll r vs = false := by
  obtain ⟨hty, hok, hun⟩ := cex_some_sound sig cx hcx hnd fuel P n ts d hP hn h
  obtain ⟨vs, hvs, hm⟩ := exists_matches sig hinh d ts hty hok
  exact ⟨vs, hvs, hm, hun vs hvs hm⟩

/-- `incomplete_counterexample` on the one-column matrix of a `match` / `let`: no diagnostic ⇒ every
value of the scrutinee type is matched by some arm. -/
theorem match_accepted_exhaustive (sig : Sig) (cx : Cx) (hcx : CxOk sig cx) (fuel : Nat)
    (arms : List Pat) (t : Nat) (ha : ∀ a ∈ arms, patTy sig a t = true)
    (h : incompleteCounterexampleF cx fuel arms = some none) :
    ∀ v, hasTy sig v t = true → ∃ a ∈ arms, pmatch a v = true := by
  intro v hv
  have hP : matrixTy sig (arms.map fun e => [e]) [t] = true := by
    simp only [matrixTy, List.all_eq_true, List.mem_map]
    rintro r ⟨e, hmem, rfl⟩
    simp [patTys, ha e hmem]
  have hc : cexF cx fuel (arms.map fun e => [e]) 1 = some none := by
    unfold incompleteCounterexampleF at h
    split at h <;> simp_all
  obtain ⟨r, hr, hm⟩ := accepted_exhaustive sig cx hcx fuel _ 1 [t] hP rfl hc [v] (by simp [hasTys, hv])
  obtain ⟨a, hmem, rfl⟩ := List.mem_map.mp hr
  exact ⟨a, hmem, by simpa [pmatchAll] using hm⟩

/-- `incomplete_counterexample` of a `match` / destructuring `let` (main_checker.rs:995-999,
1540-1544): the diagnostic is absent exactly when every value of the scrutinee type is matched by
some arm; when it is present, its payload `d` is a well-typed pattern, denotes some value, and no
value it denotes is matched by any arm. -/
theorem match_exhaustive_iff (sig : Sig) (cx : Cx) (hcx : CxOk sig cx) (hnd : SigNodup sig)
    (hinh : Inhabited' sig) (fuel : Nat) (arms : List Pat) (t : Nat) (res : Option Pat)
    (ha : ∀ a ∈ arms, patTy sig a t = true) (h : incompleteCounterexampleF cx fuel arms = some res) :
    (res = none ↔ ∀ v, hasTy sig v t = true → ∃ a ∈ arms, pmatch a v = true) ∧
    (∀ d, res = some d → patTy sig d t = true ∧ (∃ v, hasTy sig v t = true ∧ pmatch d v = true) ∧
      ∀ v, hasTy sig v t = true → pmatch d v = true → ∀ a ∈ arms, pmatch a v = false) := by
  have hP : matrixTy sig (arms.map fun e => [e]) [t] = true := by
    simp only [matrixTy, List.all_eq_true, List.mem_map]
    rintro r ⟨e, hmem, rfl⟩
    simp [patTys, ha e hmem]
  unfold incompleteCounterexampleF at h
  cases hc : cexF cx fuel (arms.map fun e => [e]) 1 with
  | none => simp [hc] at h
  | some r =>
    cases r with
    | none =>
      simp only [hc, Option.some.injEq] at h
      subst h
      refine ⟨⟨fun _ => ?_, fun _ => rfl⟩, by simp⟩
      intro v hv
      obtain ⟨r, hr, hm⟩ := accepted_exhaustive sig cx hcx fuel _ 1 [t] hP rfl hc [v] (by simp [hasTys, hv])
      obtain ⟨a, hmem, rfl⟩ := List.mem_map.mp hr
      exact ⟨a, hmem, by simpa [pmatchAll] using hm⟩
    | some row =>
      obtain ⟨hty, hok, hun⟩ := cex_some_sound sig cx hcx hnd fuel _ 1 [t] row hP rfl hc
      cases row with
      | nil => simp [patTys] at hty
      | cons d rest =>
        cases rest with
        | cons x y => simp [patTys] at hty
        | nil =>
          simp only [hc, Option.some.injEq] at h
          subst h
          simp only [patTys, Bool.and_true] at hty
          simp only [okPats, Bool.and_true] at hok
          have hunm : ∀ v, hasTy sig v t = true → pmatch d v = true → ∀ a ∈ arms, pmatch a v = false := by
            intro v hv hm a hmem
            have := hun [v] (by simp [hasTys, hv]) (by simp [pmatchAll, hm]) [a] (List.mem_map.mpr ⟨a, hmem, rfl⟩)
            simpa [pmatchAll] using this
          obtain ⟨v, hv, hm⟩ := exists_match sig hinh d t hty hok
          refine ⟨⟨fun h => (by cases h), fun hall => ?_⟩, ?_⟩
          · obtain ⟨a, hmem, hma⟩ := hall v hv
            rw [hunm v hv hm a hmem] at hma; cases hma
          · intro d' hd'
            simp only [Option.some.injEq] at hd'
            subst hd'
            exact ⟨hty, ⟨v, hv, hm⟩, hunm⟩

/-! ### Termination: the fuel-free statements

`useful_internal` and `incomplete_counterexample_internal` terminate on *every* input (typed or not):
beyond some amount of fuel the fuelled model functions return one fixed answer
(measure `(matW P + rowW q, |q|)`, resp. `(matW P, n)`, lexicographic; `Lemmas/UsefulTerm.lean`). -/

theorem useful_terminates (cx : Cx) (P : Matrix) (q : Row) :
    ∃ n b, ∀ m, n ≤ m → usefulF cx m P q = some b :=
  useful_terminates_aux cx _ _ P q (Nat.le_refl _) (Nat.le_refl _)

theorem cex_terminates (cx : Cx) (P : Matrix) (n : Nat) :
    ∃ k r, ∀ m, k ≤ m → cexF cx m P n = some r :=
  cex_terminates_aux cx _ _ P n (Nat.lt_succ_self _) (Nat.le_refl _)

/-- **Explicit fuel bound**: `usefulFuel P q` (computed from the weights and the largest constructor
arity) is enough, for every input. -/
theorem useful_fuel_bound (cx : Cx) (P : Matrix) (q : Row) :
    ∃ b, ∀ m, usefulFuel P q ≤ m → usefulF cx m P q = some b := by
  obtain ⟨r, h⟩ := useful_fuel_aux cx (max (arM P) (arL q))
    ((matW P + rowW q) * (max (arM P) (arL q) + 1) + q.length) P q
    (Nat.le_max_left _ _) (Nat.le_max_right _ _) (Nat.le_refl _)
  exact ⟨r, fun m hm => h m (by unfold usefulFuel at hm; omega)⟩

theorem cex_fuel_bound (cx : Cx) (P : Matrix) (n : Nat) :
    ∃ r, ∀ m, cexFuel P n ≤ m → cexF cx m P n = some r := by
  obtain ⟨r, h⟩ := cex_fuel_aux cx (arM P) (matW P * (arM P + 1) + n) P n (Nat.le_refl _) (Nat.le_refl _)
  exact ⟨r, fun m hm => h m (by unfold cexFuel at hm; omega)⟩

/-- **Usefulness is decided exactly** (fuel-free): the algorithm terminates, and its answer is
`true` exactly when `q` is useful with respect to `P`. -/
theorem useful_exact (sig : Sig) (cx : Cx) (hcx : CxOk sig cx) (hinh : Inhabited' sig)
    (P : Matrix) (q : Row) (ts : List Nat)
    (hP : matrixTy sig P ts = true) (hq : patTys sig q ts = true) (hok : okPats q = true) :
    ∃ n b, (∀ m, n ≤ m → usefulF cx m P q = some b) ∧ (b = true ↔ Useful sig P q ts) := by
  obtain ⟨n, b, h⟩ := useful_terminates cx P q
  exact ⟨n, b, h, useful_iff sig cx hcx hinh n P q ts b hP hq hok (h n (Nat.le_refl _))⟩

/-- **If-let, fuel-free**: the check terminates and flags the pattern exactly when it matches every
value of the scrutinee type. -/
theorem iflet_exact (sig : Sig) (cx : Cx) (hcx : CxOk sig cx) (hinh : Inhabited' sig)
    (p : Pat) (t : Nat) (hp : patTy sig p t = true) :
    ∃ n u, (∀ m, n ≤ m → isAdditionalPatternUsefulF cx m [p] .wild = some u) ∧
      (u = false ↔ ∀ v, hasTy sig v t = true → pmatch p v = true) := by
  obtain ⟨n, u, h⟩ := useful_terminates cx ([p].map fun e => [e]) [.wild]
  exact ⟨n, u, h, iflet_useless_iff sig cx hcx hinh n p t u hp (h n (Nat.le_refl _))⟩

/-- **Match / let, fuel-free**: the exhaustiveness check terminates; it reports nothing exactly when
every value of the scrutinee type is matched by some arm; and a reported counterexample is a
well-typed pattern denoting at least one value, none of whose values is matched by any arm. -/
theorem match_exact (sig : Sig) (cx : Cx) (hcx : CxOk sig cx) (hnd : SigNodup sig) (hinh : Inhabited' sig)
    (arms : List Pat) (t : Nat) (ha : ∀ a ∈ arms, patTy sig a t = true) :
    ∃ n res, (∀ m, n ≤ m → incompleteCounterexampleF cx m arms = some res) ∧
      (res = none ↔ ∀ v, hasTy sig v t = true → ∃ a ∈ arms, pmatch a v = true) ∧
      (∀ d, res = some d → patTy sig d t = true ∧ (∃ v, hasTy sig v t = true ∧ pmatch d v = true) ∧
        ∀ v, hasTy sig v t = true → pmatch d v = true → ∀ a ∈ arms, pmatch a v = false) := by
  obtain ⟨n, r, h⟩ := cex_terminates cx (arms.map fun e => [e]) 1
  have heq : ∀ m, n ≤ m → incompleteCounterexampleF cx m arms = incompleteCounterexampleF cx n arms := by
    intro m hm
    simp only [incompleteCounterexampleF, h m hm, h n (Nat.le_refl _)]
  cases hr : incompleteCounterexampleF cx n arms with
  | none =>
    simp only [incompleteCounterexampleF, h n (Nat.le_refl _)] at hr
    split at hr <;> simp_all
  | some res =>
    exact ⟨n, res, fun m hm => by rw [heq m hm, hr],
      match_exhaustive_iff sig cx hcx hnd hinh n arms t res ha hr⟩

/-! ### From source patterns: no typing hypothesis left

`check_matching_pattern` (model: `normalize`) turns *any* source pattern — well-formed or not — into
an abstract pattern that is well-typed for the scrutinee type (`normalize_typed`), so the exactness
theorems apply to every `match` / `let` / `if let` the checker analyses. -/

/-- `check_match` / `check_declaration_statement` (main_checker.rs:969-1010, 1520-1545). -/
theorem checker_match_exact (sig : Sig) (cx : Cx) (hcx : CxOk sig cx) (hnd : SigNodup sig)
    (hinh : Inhabited' sig) (srcArms : List SPat) (t : Nat) :
    let arms := srcArms.map (fun p => (normalize sig true p (some t)).pat)
    ∃ n res, (∀ m, n ≤ m → incompleteCounterexampleF cx m arms = some res) ∧
      (res = none ↔ ∀ v, hasTy sig v t = true → ∃ a ∈ arms, pmatch a v = true) ∧
      (∀ d, res = some d → patTy sig d t = true ∧ (∃ v, hasTy sig v t = true ∧ pmatch d v = true) ∧
        ∀ v, hasTy sig v t = true → pmatch d v = true → ∀ a ∈ arms, pmatch a v = false) := by
  intro arms
  apply match_exact sig cx hcx hnd hinh arms t
  intro a ha
  obtain ⟨p, _, rfl⟩ := List.mem_map.mp ha
  exact normalize_typed sig true p (some t)

/-- `check_if_else` with a guard (main_checker.rs:936-948). -/
theorem checker_iflet_exact (sig : Sig) (cx : Cx) (hcx : CxOk sig cx) (hinh : Inhabited' sig)
    (src : SPat) (t : Nat) :
    let p := (normalize sig false src (some t)).pat
    ∃ n u, (∀ m, n ≤ m → isAdditionalPatternUsefulF cx m [p] .wild = some u) ∧
      (u = false ↔ ∀ v, hasTy sig v t = true → pmatch p v = true) :=
  iflet_exact sig cx hcx hinh _ t (normalize_typed sig false src (some t))

/-! ### Source-level statements

`smatch` (Model/Useful.lean) says directly when a value matches a *source* pattern; `swf` singles
out the source patterns the checker does not report an error for on their own account (known tags /
fields, no surplus elements, no field twice, consistent or-bindings; omitted fields are allowed).
`normalize_sem`: for those, the abstract node matches exactly the values the source pattern
matches.  Hence the property in its own terms: -/

/-- **C07 for `match` / `let`, on source patterns.** The exhaustiveness check terminates; no
diagnostic ⇔ every value of the scrutinee type is matched (source-level) by some arm; a reported
counterexample is a well-typed pattern, denotes a value, and no value it denotes is matched
(source-level) by any arm. -/
theorem checker_match_exact_src (sig : Sig) (cx : Cx) (hcx : CxOk sig cx) (hnd : SigNodup sig)
    (hinh : Inhabited' sig) (srcArms : List SPat) (t : Nat)
    (hwf : ∀ p ∈ srcArms, swf sig true p t = true) :
    let arms := srcArms.map (fun p => (normalize sig true p (some t)).pat)
    ∃ n res, (∀ m, n ≤ m → incompleteCounterexampleF cx m arms = some res) ∧
      (res = none ↔ ∀ v, hasTy sig v t = true → ∃ p ∈ srcArms, smatch sig p t v = true) ∧
      (∀ d, res = some d → patTy sig d t = true ∧ (∃ v, hasTy sig v t = true ∧ pmatch d v = true) ∧
        ∀ v, hasTy sig v t = true → pmatch d v = true → ∀ p ∈ srcArms, smatch sig p t v = false) := by
  intro arms
  obtain ⟨n, res, h1, h2, h3⟩ := checker_match_exact sig cx hcx hnd hinh srcArms t
  refine ⟨n, res, h1, ?_, ?_⟩
  · rw [h2]
    constructor
    · intro h v hv
      obtain ⟨a, ha, hm⟩ := h v hv
      obtain ⟨p, hp, rfl⟩ := List.mem_map.mp ha
      exact ⟨p, hp, by rw [← normalize_sem sig true p t v (hwf p hp) hv]; exact hm⟩
    · intro h v hv
      obtain ⟨p, hp, hm⟩ := h v hv
      exact ⟨_, List.mem_map.mpr ⟨p, hp, rfl⟩, by rw [normalize_sem sig true p t v (hwf p hp) hv]; exact hm⟩
  · intro d hd
    obtain ⟨hty, hex, hun⟩ := h3 d hd
    refine ⟨hty, hex, ?_⟩
    intro v hv hm p hp
    rw [← normalize_sem sig true p t v (hwf p hp) hv]
    exact hun v hv hm _ (List.mem_map.mpr ⟨p, hp, rfl⟩)

/-- **C07 for `if let`, on the source pattern**: flagged irrefutable ⇔ it matches (source-level)
every value of the scrutinee type. -/
theorem checker_iflet_exact_src (sig : Sig) (cx : Cx) (hcx : CxOk sig cx) (hinh : Inhabited' sig)
    (src : SPat) (t : Nat) (hwf : swf sig false src t = true) :
    let p := (normalize sig false src (some t)).pat
    ∃ n u, (∀ m, n ≤ m → isAdditionalPatternUsefulF cx m [p] .wild = some u) ∧
      (u = false ↔ ∀ v, hasTy sig v t = true → smatch sig src t v = true) := by
  intro p
  obtain ⟨n, u, h1, h2⟩ := checker_iflet_exact sig cx hcx hinh src t
  refine ⟨n, u, h1, ?_⟩
  rw [h2]
  constructor
  · intro h v hv; rw [← normalize_sem sig false src t v hwf hv]; exact h v hv
  · intro h v hv; rw [normalize_sem sig false src t v hwf hv]; exact h v hv

/-! ### The functions without a fuel argument (what the driver runs) -/

theorem incompleteCounterexample_eq (cx : Cx) (arms : List Pat) (n : Nat) (res : Option Pat)
    (h1 : ∀ m, n ≤ m → incompleteCounterexampleF cx m arms = some res) :
    incompleteCounterexample cx arms = some res := by
  obtain ⟨r, hr⟩ := cex_fuel_bound cx (arms.map fun e => [e]) 1
  have e1 := h1 (max n (cexFuel (arms.map fun e => [e]) 1)) (Nat.le_max_left _ _)
  have c1 := hr (max n (cexFuel (arms.map fun e => [e]) 1)) (Nat.le_max_right _ _)
  have c2 := hr (cexFuel (arms.map fun e => [e]) 1) (Nat.le_refl _)
  unfold incompleteCounterexample
  simp only [incompleteCounterexampleF, c2]
  simp only [incompleteCounterexampleF, c1] at e1
  exact e1

theorem isAdditionalPatternUseful_eq (cx : Cx) (existing : List Pat) (p : Pat) (n : Nat) (u : Bool)
    (h1 : ∀ m, n ≤ m → isAdditionalPatternUsefulF cx m existing p = some u) :
    isAdditionalPatternUseful cx existing p = some u := by
  obtain ⟨r, hr⟩ := useful_fuel_bound cx (existing.map fun e => [e]) [p]
  have e1 := h1 (max n (usefulFuel (existing.map fun e => [e]) [p])) (Nat.le_max_left _ _)
  have c1 := hr (max n (usefulFuel (existing.map fun e => [e]) [p])) (Nat.le_max_right _ _)
  have c2 := hr (usefulFuel (existing.map fun e => [e]) [p]) (Nat.le_refl _)
  unfold isAdditionalPatternUseful
  simp only [isAdditionalPatternUsefulF] at e1 ⊢
  rw [c2]; rw [c1] at e1; exact e1

/-- **`incomplete_counterexample`, no fuel, source level**: the model function the driver executes
always returns, and its answer is exact in the sense of `checker_match_exact_src`. -/
theorem checker_match_decided (sig : Sig) (cx : Cx) (hcx : CxOk sig cx) (hnd : SigNodup sig)
    (hinh : Inhabited' sig) (srcArms : List SPat) (t : Nat)
    (hwf : ∀ p ∈ srcArms, swf sig true p t = true) :
    let arms := srcArms.map (fun p => (normalize sig true p (some t)).pat)
    ∃ res, incompleteCounterexample cx arms = some res ∧
      (res = none ↔ ∀ v, hasTy sig v t = true → ∃ p ∈ srcArms, smatch sig p t v = true) ∧
      (∀ d, res = some d → patTy sig d t = true ∧ (∃ v, hasTy sig v t = true ∧ pmatch d v = true) ∧
        ∀ v, hasTy sig v t = true → pmatch d v = true → ∀ p ∈ srcArms, smatch sig p t v = false) := by
  obtain ⟨n, res, h1, h2, h3⟩ := checker_match_exact_src sig cx hcx hnd hinh srcArms t hwf
  exact ⟨res, incompleteCounterexample_eq cx _ n res h1, h2, h3⟩

/-- **`is_additional_pattern_useful([p], _)`, no fuel, source level.** -/
theorem checker_iflet_decided (sig : Sig) (cx : Cx) (hcx : CxOk sig cx) (hinh : Inhabited' sig)
    (src : SPat) (t : Nat) (hwf : swf sig false src t = true) :
    let p := (normalize sig false src (some t)).pat
    ∃ u, isAdditionalPatternUseful cx [p] .wild = some u ∧
      (u = false ↔ ∀ v, hasTy sig v t = true → smatch sig src t v = true) := by
  obtain ⟨n, u, h1, h2⟩ := checker_iflet_exact_src sig cx hcx hinh src t hwf
  exact ⟨u, isAdditionalPatternUseful_eq cx _ _ n u h1, h2⟩

/-! ### Tuples of every size: the declarations in std/tuples.sam (data the checker reads)

A tuple pattern of size N is resolved against the declared fields of the std class for that size;
the model treats an N-tuple as a struct whose field `k` has the type of component `k`.  That is what
the standard library says, for every size the language has (`Generated/C07Tuples.lean` is
regenerated from /repo's current std/tuples.sam by `extract/c07_tuples.py` on every run): -/
theorem std_tuples_fields :
    (SamVerif.Generated.C07Tuples.table.map (·.1)) = (List.range 15).map (· + 2) ∧
    ∀ e ∈ SamVerif.Generated.C07Tuples.table,
      e.2.1 = e.1 ∧ e.2.2 = (List.range e.1).map (fun i => (i, i)) := by
  decide

/-! ### Which declaration the scrutinee's type parameter resolves to (innermost binder) -/

theorem resolveTParam_append (a b : TParams) (n : Nat) :
    resolveTParam (a ++ b) n = (resolveTParam a n).orElse (fun _ => resolveTParam b n) := by
  induction a with
  | nil => simp [resolveTParam]
  | cons x xs ih =>
    obtain ⟨m, bd⟩ := x
    by_cases e : m = n
    · simp [resolveTParam, e]
    · simp [resolveTParam, e, ih]

/-- **In a static function only the function's own type parameters are in scope**: a class type
parameter of the same name (whatever its bound) is invisible, and one the function does not declare
does not resolve at all. -/
theorem static_function_scope (classParams fnParams : TParams) (n : Nat) :
    resolveTParam (scopeOf false classParams fnParams) n = resolveTParam fnParams n := by
  simp [scopeOf]

/-- **In a method the class's and the method's parameters are both visible**; when their names are
distinct (the checker reports a collision otherwise, `tparamCollision`) each resolves to its own
declaration. -/
theorem method_scope (classParams fnParams : TParams) (n : Nat)
    (hd : tparamCollision true classParams fnParams = false) :
    resolveTParam (scopeOf true classParams fnParams) n =
      (resolveTParam classParams n).orElse (fun _ => resolveTParam fnParams n) ∧
    (∀ b, resolveTParam fnParams n = some b → resolveTParam (scopeOf true classParams fnParams) n = some b) := by
  have h1 : resolveTParam (scopeOf true classParams fnParams) n =
      (resolveTParam classParams n).orElse (fun _ => resolveTParam fnParams n) := by
    simp [scopeOf, resolveTParam_append]
  refine ⟨h1, ?_⟩
  intro b hb
  rw [h1]
  have hnone : resolveTParam classParams n = none := by
    cases hc : resolveTParam classParams n with
    | none => rfl
    | some bc =>
      exfalso
      have memc : ∀ (l : TParams) bd, resolveTParam l n = some bd → ∃ x ∈ l, x.1 = n := by
        intro l
        induction l with
        | nil => intro bd h; simp [resolveTParam] at h
        | cons x xs ih =>
          intro bd h
          obtain ⟨m, bx⟩ := x
          by_cases e : m = n
          · exact ⟨(m, bx), by simp, e⟩
          · simp only [resolveTParam, e, if_false] at h
            obtain ⟨y, hy, hyn⟩ := ih bd h
            exact ⟨y, by simp [hy], hyn⟩
      obtain ⟨c, hcm, hcn⟩ := memc classParams bc hc
      obtain ⟨f, hfm, hfn⟩ := memc fnParams b hb
      simp only [tparamCollision, Bool.true_and, List.any_eq_false] at hd
      have := hd f hfm
      simp only [List.any_eq_true, not_exists, not_and, decide_eq_true_eq] at this
      exact this c hcm (by rw [hcn, hfn])
  simp [hnone, hb]

/-- **Pattern conversion is compositional** (main_checker.rs:1360-1480): the abstract node of a variant
pattern `Tag(p₁, …, pₙ)` with the right number of arguments is the constructor node `Tag` over the
abstract nodes of `p₁ … pₙ` — for an enum with *any* number of variants (in particular a single one:
no shortcut to a wildcard), whatever the `pᵢ` are. -/
theorem variant_pattern_compositional (sig : Sig) (w : Bool) (t cls : Nat) (vs : List (Nat × List Nat))
    (hs : sig t = .enum cls vs) (tag : Nat) (tys : List Nat) (hf : findVariant vs tag = some tys)
    (ps : List SPat) (hl : ps.length = tys.length) :
    (normalize sig w (.variant tag ps) (some t)).pat =
      .struct (some ⟨cls, tag⟩) (List.zipWith (fun p ty => (normalize sig w p (some ty)).pat) ps tys) := by
  simp [normalize, sigAt, hs, hf, normTuple_pats_eq sig w ps tys hl, hl, wilds]

/-- The same for a tuple pattern on a struct: one column per field, each the abstract node of the
element (main_checker.rs:1195-1265). -/
theorem tuple_pattern_compositional (sig : Sig) (w : Bool) (t : Nat) (fs : List (Nat × Nat))
    (hs : sig t = .struct fs) (ps : List SPat) (hl : ps.length = fs.length) :
    (normalize sig w (.tuple ps) (some t)).pat =
      .struct none (List.zipWith (fun p ty => (normalize sig w p (some ty)).pat) ps (fs.map (·.2))) := by
  simp [normalize, sigAt, hs, normTuple_pats_eq sig w ps (fs.map (·.2)) (by simpa using hl), hl, wilds]

/-- **Object patterns: a field's sub-pattern lands in the column of the field's declaration index**,
in whatever order the fields are written; columns of fields that are not named hold `_`
(main_checker.rs:1266-1345, `abstract_pattern_nodes[*field_order] = abstract_node`). -/
theorem object_pattern_columns (sig : Sig) (w : Bool) (t : Nat) (fs : List (Nat × Nat))
    (hs : sig t = .struct fs) (names : List Nat) (ps : List SPat)
    (hnd : nodupNat names = true) (hk : ∀ n ∈ names, fieldIndex fs n ≠ none) :
    ∃ cols, (normalize sig w (.object names ps) (some t)).pat = .struct none cols ∧
      cols.length = fs.length ∧
      (∀ (k name : Nat) (p : SPat) (i ty : Nat), names[k]? = some name → ps[k]? = some p → fieldIndex fs name = some (i, ty) →
        cols[i]? = some (normalize sig w p (some ty)).pat) ∧
      (∀ (j : Nat), j < fs.length → (∀ n ∈ names, ∀ (i ty : Nat), fieldIndex fs n = some (i, ty) → i ≠ j) →
        cols[j]? = some .wild) := by
  refine ⟨(normObject sig w fs ps names (wilds fs.length)).pats, by simp [normalize, sigAt, hs], ?_, ?_, ?_⟩
  · rw [normObject_length, wilds_length]
  · intro k name p i ty hn hp hf
    have hi : i < (wilds fs.length).length := by
      have := List.getElem?_eq_some_iff.mp (fieldIndex_some fs name i ty hf)
      obtain ⟨h, _⟩ := this
      simpa [wilds_length] using h
    exact normObject_column sig w fs ps names _ k name p i ty hnd hk hn hp hf hi
  · intro j hj hne
    rw [normObject_other sig w fs ps names _ j hk hne]
    simp [wilds, hj]

/-! ### No fragment left: every source pattern is either in the domain of the semantics theorem or rejected

`shape` is the encoding invariant of `SPat.object` (as many field names as sub-patterns — the parser
and the protocol pair them). -/

/-- **Dichotomy**: a source pattern is `swf` (then `normalize_sem`: its abstract node matches exactly
the values it matches) or `check_matching_pattern` reports a diagnostic for it (the program is
rejected whatever the exhaustiveness verdict). -/
theorem source_pattern_dichotomy (sig : Sig) (w : Bool) (p : SPat) (t : Nat) (hs : shape p = true) :
    swf sig w p t = true ∨ (normalize sig w p (some t)).err = true := by
  cases h : swf sig w p t with
  | true => exact Or.inl rfl
  | false => exact Or.inr (not_swf_err sig w p t hs h)

/-- **C07 for every `match` / `let`** (no well-formedness hypothesis on the arms): either some arm
makes the checker report a diagnostic of its own (rejected), or the verdict of the exhaustiveness
check is exact in source-level terms. -/
theorem checker_match_total_src (sig : Sig) (cx : Cx) (hcx : CxOk sig cx) (hnd : SigNodup sig)
    (hinh : Inhabited' sig) (srcArms : List SPat) (t : Nat) (hsh : ∀ p ∈ srcArms, shape p = true) :
    (∃ p ∈ srcArms, (normalize sig true p (some t)).err = true) ∨
    (let arms := srcArms.map (fun p => (normalize sig true p (some t)).pat)
     ∃ res, incompleteCounterexample cx arms = some res ∧
      (res = none ↔ ∀ v, hasTy sig v t = true → ∃ p ∈ srcArms, smatch sig p t v = true) ∧
      (∀ d, res = some d → patTy sig d t = true ∧ (∃ v, hasTy sig v t = true ∧ pmatch d v = true) ∧
        ∀ v, hasTy sig v t = true → pmatch d v = true → ∀ p ∈ srcArms, smatch sig p t v = false)) := by
  by_cases h : ∃ p ∈ srcArms, (normalize sig true p (some t)).err = true
  · exact Or.inl h
  · refine Or.inr (checker_match_decided sig cx hcx hnd hinh srcArms t ?_)
    intro p hp
    rcases source_pattern_dichotomy sig true p t (hsh p hp) with hw | he
    · exact hw
    · exact absurd ⟨p, hp, he⟩ h

/-- the same for `if let` -/
theorem checker_iflet_total_src (sig : Sig) (cx : Cx) (hcx : CxOk sig cx) (hinh : Inhabited' sig)
    (src : SPat) (t : Nat) (hsh : shape src = true) :
    (normalize sig false src (some t)).err = true ∨
    (let p := (normalize sig false src (some t)).pat
     ∃ u, isAdditionalPatternUseful cx [p] .wild = some u ∧
      (u = false ↔ ∀ v, hasTy sig v t = true → smatch sig src t v = true)) := by
  rcases source_pattern_dichotomy sig false src t hsh with hw | he
  · exact Or.inr (checker_iflet_decided sig cx hcx hinh src t hw)
  · exact Or.inl he

/-- **Scrutinee of type-parameter type**: when the parameter resolves (innermost binder) to the bound
`t`, the exact theorem holds for the bounding class's declaration. -/
theorem checker_match_total_tparam (sig : Sig) (cx : Cx) (hcx : CxOk sig cx) (hnd : SigNodup sig)
    (hinh : Inhabited' sig) (isMethod : Bool) (classParams memberParams : TParams) (name t : Nat)
    (hr : scrutineeType (scopeOf isMethod classParams memberParams) (.tparam name) = some t)
    (srcArms : List SPat) (hsh : ∀ p ∈ srcArms, shape p = true) :
    (∃ p ∈ srcArms,
      (normalize sig true p (scrutineeType (scopeOf isMethod classParams memberParams) (.tparam name))).err = true) ∨
    (let arms := srcArms.map (fun p =>
        (normalize sig true p (scrutineeType (scopeOf isMethod classParams memberParams) (.tparam name))).pat)
     ∃ res, incompleteCounterexample cx arms = some res ∧
      (res = none ↔ ∀ v, hasTy sig v t = true → ∃ p ∈ srcArms, smatch sig p t v = true)) := by
  rw [hr]
  rcases checker_match_total_src sig cx hcx hnd hinh srcArms t hsh with h | h
  · exact Or.inl h
  · obtain ⟨res, h1, h2, _⟩ := h
    exact Or.inr ⟨res, h1, h2⟩

/-- `exhaustive_iff`, in the words of the property: the counterexample search returns nothing exactly
when no well-typed value vector is left unmatched (full pattern language: nested constructors,
or-patterns, structs / tuples of any width, enums with any number of variants ≥ 1). -/
theorem exhaustive_iff_no_unmatched_value (sig : Sig) (cx : Cx) (hcx : CxOk sig cx) (hnd : SigNodup sig)
    (hinh : Inhabited' sig) (fuel : Nat) (P : Matrix) (n : Nat) (ts : List Nat) (res : Option Row)
    (hP : matrixTy sig P ts = true) (hn : ts.length = n) (h : cexF cx fuel P n = some res) :
    (res = none ↔ ¬ ∃ vs, hasTys sig vs ts = true ∧ ∀ r ∈ P, pmatchAll r vs = false) := by
  rw [exhaustive_iff sig cx hcx hnd hinh fuel P n ts res hP hn h]
  constructor
  · rintro hall ⟨vs, hvs, hun⟩
    obtain ⟨r, hr, hm⟩ := hall vs hvs
    rw [hun r hr] at hm; cases hm
  · intro hno vs hvs
    apply Classical.byContradiction
    intro hc
    apply hno
    refine ⟨vs, hvs, fun r hr => ?_⟩
    cases hm : pmatchAll r vs with
    | false => rfl
    | true => exact absurd ⟨r, hr, hm⟩ hc

/-- the printed counterexample is a genuine unmatched value: it denotes a well-typed value vector, and
every well-typed vector it denotes is matched by no row. -/
theorem counterexample_is_unmatched (sig : Sig) (cx : Cx) (hcx : CxOk sig cx) (hnd : SigNodup sig)
    (hinh : Inhabited' sig) (fuel : Nat) (P : Matrix) (n : Nat) (ts : List Nat) (d : Row)
    (hP : matrixTy sig P ts = true) (hn : ts.length = n) (h : cexF cx fuel P n = some (some d)) :
    (∃ vs, hasTys sig vs ts = true ∧ pmatchAll d vs = true ∧ ∀ r ∈ P, pmatchAll r vs = false) ∧
    (∀ vs, hasTys sig vs ts = true → pmatchAll d vs = true → ∀ r ∈ P, pmatchAll r vs = false) :=
  ⟨counterexample_denotes_unmatched sig cx hcx hnd hinh fuel P n ts d hP hn h,
   (cex_some_sound sig cx hcx hnd fuel P n ts d hP hn h).2.2⟩

/-! ### Every hypothesis decided by computation (what a replayed case certifies)

For a finite type table, `cxOkCheck`, `nodupCheck`, `rankCheck` and `swf` are executable; the driver
prints them for every case (`hyp`, `inh`, `swf`).  When they are all true the verdict the driver
prints for that case is exact, with no hypothesis left: -/
theorem replayed_match_exact (defs : List Def) (rank : List Nat) (srcArms : List SPat) (t : Nat)
    (hcx : cxOkCheck defs = true) (hnd : nodupCheck defs = true) (hrk : rankCheck defs rank = true)
    (hwf : srcArms.all (fun p => swf (sigOfTable defs) true p t) = true) :
    let sig := sigOfTable defs
    let arms := srcArms.map (fun p => (normalize sig true p (some t)).pat)
    ∃ res, incompleteCounterexample (cxOf defs) arms = some res ∧
      (res = none ↔ ∀ v, hasTy sig v t = true → ∃ p ∈ srcArms, smatch sig p t v = true) ∧
      (∀ d, res = some d → patTy sig d t = true ∧ (∃ v, hasTy sig v t = true ∧ pmatch d v = true) ∧
        ∀ v, hasTy sig v t = true → pmatch d v = true → ∀ p ∈ srcArms, smatch sig p t v = false) :=
  checker_match_decided (sigOfTable defs) (cxOf defs) (cxOk_of_check defs hcx) (sigNodup_of_check defs hnd)
    (inhabited_of_rankCheck defs rank hrk) srcArms t (fun p hp => List.all_eq_true.mp hwf p hp)

theorem replayed_iflet_exact (defs : List Def) (rank : List Nat) (src : SPat) (t : Nat)
    (hcx : cxOkCheck defs = true) (hrk : rankCheck defs rank = true)
    (hwf : swf (sigOfTable defs) false src t = true) :
    let sig := sigOfTable defs
    let p := (normalize sig false src (some t)).pat
    ∃ u, isAdditionalPatternUseful (cxOf defs) [p] .wild = some u ∧
      (u = false ↔ ∀ v, hasTy sig v t = true → smatch sig src t v = true) :=
  checker_iflet_decided (sigOfTable defs) (cxOf defs) (cxOk_of_check defs hcx)
    (inhabited_of_rankCheck defs rank hrk) src t hwf

/-
Full-strength statement without the side condition `okPats q` (no `nothing()` = `Or([])` inside the
*tested* vector):
  ∀ P q ts b, matrixTy sig P ts → patTys sig q ts → usefulF cx fuel P q = some b → (b = true ↔ Useful sig P q ts)
It is false for the code as written: `useful_internal` answers `true` as soon as the matrix is empty
(pattern_matching.rs:169-171), also for a vector that contains `nothing()` and therefore matches no
value.  The checker only ever tests the vector `[_]` (main_checker.rs:940-944), for which `okPats`
holds, so this is not observable through `type_check_sources`.
-/
def sigInt : Sig := fun _ => .prim

theorem useful_iff_counterexample :
    usefulF (fun _ => []) 1 [] [.or []] = some true ∧ ¬ Useful sigInt [] [.or []] [0] := by
  refine ⟨by decide, ?_⟩
  rintro ⟨vs, _, hm, _⟩
  cases vs with
  | nil => simp [pmatchAll] at hm
  | cons v vs => simp [pmatchAll, pmatch, pmatchAny] at hm

/-- **Inhabitedness is decidable by a certificate**: on a finite type table, a rank assignment that
passes the executable check `rankCheck` (every struct field, and all fields of one variant of every
enum, have a smaller rank) makes every type inhabited, so `Inhabited'` in the theorems above can be
discharged by computation (the driver computes such ranks for every replayed case). -/
theorem inhabited_certificate (defs : List Def) (rank : List Nat) (h : rankCheck defs rank = true) :
    Inhabited' (sigOfTable defs) := inhabited_of_rankCheck defs rank h

/-! ### Non-vacuity: `Option<int>`-like and list-like signatures satisfy the hypotheses, and the
algorithm gives both answers on them. -/

/-- type 0 = `int`, type 1 = `Opt(None, Some(int))`, type 2 = `List(Nil, Cons(int, List))`,
type 3 = `Pair(Opt, List)` -/
def sigEx : Sig := fun t =>
  match t with
  | 1 => .enum 0 [(0, []), (1, [0])]
  | 2 => .enum 1 [(0, []), (1, [0, 2])]
  | 3 => .struct [(0, 1), (1, 2)]
  | _ => .prim

def cxEx : Cx := fun c => match c with | 0 => [(0, 0), (1, 1)] | 1 => [(0, 0), (1, 2)] | _ => []

theorem sigEx_cxOk : CxOk sigEx cxEx := by
  intro t cls vs h
  unfold sigEx at h
  split at h <;> first | (injection h with h1 h2; subst h1; subst h2; rfl) | cases h

theorem sigEx_inhabited : Inhabited' sigEx := by
  intro t
  by_cases h1 : t = 1
  · exact ⟨.con (some ⟨0, 0⟩) [], by subst h1; decide⟩
  by_cases h2 : t = 2
  · exact ⟨.con (some ⟨1, 0⟩) [], by subst h2; decide⟩
  by_cases h3 : t = 3
  · exact ⟨.con none [.con (some ⟨0, 0⟩) [], .con (some ⟨1, 0⟩) []], by subst h3; decide⟩
  · refine ⟨.prim 0, ?_⟩
    have : sigEx t = .prim := by
      unfold sigEx
      split <;> simp_all
    simp [hasTy, this]

theorem sigEx_nodup : SigNodup sigEx := by
  intro t cls vs h
  unfold sigEx at h
  split at h <;> first | (injection h with h1 h2; subst h2; decide) | cases h

/-- the same signature as a finite table, with a rank certificate checked by `decide` -/
def defsEx : List Def :=
  [.prim, .enum 0 [(0, []), (1, [0])], .enum 1 [(0, []), (1, [0, 2])], .struct [(0, 1), (1, 2)]]

example : rankCheck defsEx [0, 1, 1, 2] = true := by decide
example : cxOkCheck defsEx = true ∧ nodupCheck defsEx = true := by decide
example : Inhabited' (sigOfTable defsEx) := inhabited_of_rankCheck defsEx [0, 1, 1, 2] (by decide)
-- an uninhabited recursive enum `class Inf(More(Inf))` has no certificate with these ranks
example : rankCheck [.enum 0 [(0, [0])]] [0] = false := by decide

def pNone : Pat := .struct (some ⟨0, 0⟩) []
def pSome (p : Pat) : Pat := .struct (some ⟨0, 1⟩) [p]

-- `Some(_)` after `None`: useful; `_` after `None, Some(_)`: useless; typed, ok, enough fuel.
example : isAdditionalPatternUseful cxEx [pNone] (pSome .wild) = some true := by decide
example : (incompleteCounterexample cxEx [pNone]).map Option.isSome = some true := by decide
example : isAdditionalPatternUsefulF cxEx 10 [pNone] (pSome .wild) = some true := by decide
example : isAdditionalPatternUsefulF cxEx 10 [pNone, pSome .wild] .wild = some false := by decide
example : patTy sigEx (pSome .wild) 1 = true ∧ patTy sigEx pNone 1 = true := by decide
-- if-let: `None | Some(_)` is irrefutable, `Some(_)` is not
example : isAdditionalPatternUsefulF cxEx 10 [.or [pNone, pSome .wild]] .wild = some false := by decide
example : isAdditionalPatternUsefulF cxEx 10 [pSome .wild] .wild = some true := by decide
-- the theorem instantiates on them
example : (incompleteCounterexampleF cxEx 10 [pNone, pSome .wild]).map Option.isNone = some true := by decide
example : (incompleteCounterexampleF cxEx 10 [pNone]).map Option.isSome = some true := by decide
-- source level: `{ b as Nil, a as None }` on `Pair(a: Opt, b: List)` (fields renamed and reordered)
-- matches exactly the pairs (None, Nil)
example : swf sigEx true (.object [1, 0] [.variant 0 [], .variant 0 []]) 3 = true := by decide
example : smatch sigEx (.object [1, 0] [.variant 0 [], .variant 0 []]) 3
    (.con none [.con (some ⟨0, 0⟩) [], .con (some ⟨1, 0⟩) []]) = true := by decide
example : smatch sigEx (.object [1, 0] [.variant 0 [], .variant 0 []]) 3
    (.con none [.con (some ⟨0, 1⟩) [.prim 5], .con (some ⟨1, 0⟩) []]) = false := by decide
-- `{ b as Nil, a as None }` on `Pair(a: Opt, b: List)`: written second, `a`'s sub-pattern is column 0
example : (normalize sigEx true (.object [1, 0] [.variant 0 [], .variant 0 []]) (some 3)).pat =
    .struct none [.struct (some ⟨0, 0⟩) [], .struct (some ⟨1, 0⟩) []] := by rfl
-- a single-variant wrapper `class W(Only(Pair))` (type 4): `Only((None, _))` keeps its refutable payload
example : (normalize (fun t => if t = 4 then .enum 2 [(0, [3])] else sigEx t) true
    (.variant 0 [.tuple [.variant 0 [], .wild]]) (some 4)).pat =
    .struct (some ⟨2, 0⟩) [.struct none [.struct (some ⟨0, 0⟩) [], .wild]] := by rfl
-- `class Box<T: Narrow> { function <T: Wide> f(x: T) }`: inside `f`, `T` is the function's (bound 1 = Wide)
example : scrutineeType (scopeOf false [(0, some 0)] [(0, some 1)]) (.tparam 0) = some 1 := by decide
-- in a method of `Box<T: Narrow>` with its own `U: Wide`, `T` is the class's (bound 0 = Narrow)
example : scrutineeType (scopeOf true [(0, some 0)] [(1, some 1)]) (.tparam 0) = some 0 := by decide
-- dichotomy: `(None, _, _)` on the 2-field `Pair` is outside `swf`, and the checker reports an error for it
example : swf sigEx true (.tuple [.variant 0 [], .wild, .wild]) 3 = false ∧
    (normalize sigEx true (.tuple [.variant 0 [], .wild, .wild]) (some 3)).err = true := by decide
-- fuel-free, both directions, on the example signature
example : ∃ n res, (∀ m, n ≤ m → incompleteCounterexampleF cxEx m [pNone, pSome .wild] = some res) ∧
    (res = none ↔ ∀ v, hasTy sigEx v 1 = true → ∃ a ∈ [pNone, pSome .wild], pmatch a v = true) := by
  obtain ⟨n, res, h1, h2, _⟩ := match_exact sigEx cxEx sigEx_cxOk sigEx_nodup sigEx_inhabited
    [pNone, pSome .wild] 1 (by decide)
  exact ⟨n, res, h1, h2⟩
example : ∀ v, hasTy sigEx v 1 = true → pmatch (.or [pNone, pSome .wild]) v = true :=
  (iflet_useless_iff sigEx cxEx sigEx_cxOk sigEx_inhabited 10 _ 1 false (by decide) (by decide)).mp rfl

end SamVerif.Useful
