import SamVerif.Props.C08
import SamVerif.Props.C09
import SamVerif.Lemmas.FmtDoc
/-!
# C08 composed with C09 (builder-C09's layout engine and import models)

The only file of C08 that imports another property's theorems.  It discharges the two clauses of the
property text that C08's own models do not speak about:

* "× line widths": C08's models are token-level; `Model/Doc.lean` (C09) is the layout engine.
* "up to the documented merging and sorting of import lines": `Model/Imports.lean` (C09) is
  `source_module_to_document`'s import section (source_printer.rs:1260-1302).

Round 6: `Model/FmtDoc.lean` is the printer one level earlier — `docOf e` is the `Document` that
`create_doc` builds for an expression of `Model/FmtFull.lean` (dotted chains with their three layouts,
calls and tuples, unary/binary, if-else flattened ∪ expanded, match, lambda, blocks with statements),
and the theorems below say that *every* layout alternative of *every* `Union` in it reads the token
sequence `printE e`, so that the round-trip theorems of `Props/C08.lean` hold at every line width.
-/
namespace SamVerif.C08b
open SamVerif.Doc SamVerif.Imports

/-- **Checking the printed tokens at one width is checking them at every width**: if, for a document
whose `Union` branches agree on their text, the non-whitespace characters of the output at some width
`w₀` are `target` (in the `fmt-expr` correspondence: the characters of the model's token sequence
`printE e`), then they are `target` at every width.  (From `pretty_print_width_irrelevant`, C09.) -/
theorem tokens_at_one_width_suffice (d : Doc) (h : Agree textKey d) (target : List Char) (w₀ : Nat)
    (h0 : nonWs (prettyPrint w₀ d) = target) (w : Nat) : nonWs (prettyPrint w d) = target := by
  rw [pretty_print_width_irrelevant w w₀ d h, h0]

/-- **Imports are the same up to merging and sorting**: the printed import section has exactly one
line per imported module, for exactly the modules of the source, and the members on the line of a
module are a permutation of all members imported from that module anywhere in the source — nothing is
lost, duplicated or attributed to another module.  (From `imports_group_exact`, `sortBy_perm`, C09.)
This is the normal form modulo which the reparse oracle compares `parse (format m)` with `parse m`. -/
theorem imports_same_up_to_merge_sort (imps : List Import) :
    ((sortedGroups imps).map (·.path)).Nodup ∧
    (∀ p, p ∈ (sortedGroups imps).map (·.path) ↔ p ∈ imps.map (·.path)) ∧
    ∀ g ∈ sortedGroups imps,
      g.members.Perm ((imps.filter (fun i => i.path = g.path)).flatMap (·.members)) := by
  obtain ⟨hnd, hmem, hg⟩ := imports_group_exact imps
  have hperm : (sortBy (fun a b => strLe a.path b.path) (organize imps)).Perm (organize imps) :=
    sortBy_perm _ _
  have hpaths : ((sortedGroups imps).map (·.path)) =
      (sortBy (fun a b => strLe a.path b.path) (organize imps)).map (·.path) := by
    simp [sortedGroups, List.map_map, Function.comp_def]
  refine ⟨?_, ?_, ?_⟩
  · rw [hpaths]
    exact (hperm.map _).nodup_iff.mpr hnd
  · intro p
    rw [hpaths, (hperm.map _).mem_iff]
    exact hmem p
  · intro g hgm
    unfold sortedGroups at hgm
    obtain ⟨g0, hg0, rfl⟩ := List.mem_map.mp hgm
    have hm : g0 ∈ organize imps := hperm.mem_iff.mp hg0
    have := (hg g0 hm).2
    simp only
    rw [← this]
    exact sortBy_perm _ _

/-! ## The document of an expression: every layout is the printed token sequence -/

open SamVerif.FmtDoc SamVerif.FmtFull

/-- **Every `Union` of the document of an expression offers the same text in both branches** — the
flattened, less-expanded and expanded layouts of a dotted chain, the flattened and expanded if-else,
the one-line and broken forms of every bracket: whatever the layout engine picks, no token is lost,
added or reordered.  (`L.Ok`: the same holds inside the opaque leaves.) -/
theorem doc_unions_agree (L : Leaves) (hL : L.Ok) (e : Expr) : Agree textKey (docOf L e) :=
  (ir_ok L hL e).doc.1

/-- The text of the document is the printed token sequence of `Model/FmtFull.lean`. -/
theorem doc_reads_printed_tokens (L : Leaves) (hL : L.Ok) (e : Expr) :
    val textKey (docOf L e) = chars L (printE e) :=
  (ir_ok L hL e).doc.2

/-- **For every width, the tokens the layout engine emits for `docOf e` are `printE e`**
(`∀ w, tokens (layout w (docOf e)) = tokensOf e`). -/
theorem layout_tokens_every_width (L : Leaves) (hL : L.Ok) (e : Expr) (w : Nat) :
    tval textKey (tokens w (docOf L e)) = chars L (printE e) := by
  rw [layout_preserves_text textKey w _ (doc_unions_agree L hL e), doc_reads_printed_tokens L hL e]

/-- String level: for every width, the non-whitespace characters of the formatted expression are
those of `printE e`. -/
theorem formatted_text_every_width (L : Leaves) (hL : L.Ok) (e : Expr) (w : Nat) :
    nonWs (prettyPrint w (docOf L e)) = chars L (printE e) := by
  rw [pretty_print_preserves_text w _ (doc_unions_agree L hL e), doc_reads_printed_tokens L hL e]

/-- **Round trip at every width**: at every line width the formatted expression consists of exactly
the tokens `printE e`, and these parse back to `regroup e` (`roundtrip_expr_total`), which denotes the
same program (`format_preserves_meaning`). -/
theorem roundtrip_every_width (L : Leaves) (hL : L.Ok) (e : Expr) (w : Nat) :
    nonWs (prettyPrint w (docOf L e)) = chars L (printE e) ∧ parseE (printE e) = some (regroup e) :=
  ⟨formatted_text_every_width L hL e w, roundtrip_expr_total e⟩

/-- The obligation is not vacuous and not trivially true: a chain document whose expanded layout has
lost the first member (the shape of the seeded fault C08f) has a `Union` whose branches differ. -/
theorem chain_layout_losing_a_member_counterexample :
    ¬ Agree textKey (.union (concatV [.nstext ['a'], .text ['.'], .nstext ['b'], .text ['.'], .nstext ['c']])
      (concatV [.nstext ['a'], .nest 2 (concatV [.lineHard, .text ['.'], .nstext ['c']])])) := by
  intro h
  exact absurd h.1 (by decide)

/-- Leaves that satisfy `L.Ok` (identifiers as non-static text, no type arguments / annotations). -/
def plainLeaves : Leaves :=
  ⟨fun a => .nstext (Nat.repr a).toList, fun p => .nstext (Nat.repr p).toList, fun _ => .nil,
   fun k => .nstext (Nat.repr k).toList, fun k => .nstext (Nat.repr k).toList, fun _ => .nil,
   fun k => .nstext (Nat.repr k).toList⟩

theorem plainLeaves_ok : plainLeaves.Ok :=
  ⟨fun _ => trivial, fun _ => trivial, fun _ => trivial, fun _ => trivial, fun _ => trivial,
   fun _ => trivial, fun _ => trivial⟩

/-- `a.b` really is a `Union` of three layouts. -/
example : docOf plainLeaves (.post (.atom 0) 1 true) =
    .union (concatV [.nstext ['0'], .nil, .text ['.'], .nstext ['1'], .nil])
      (.union (concatV [.nstext ['0'], .nil, .text ['.'], concatV [.nstext ['1'], .nil], .nest 2 .nil])
        (concatV [.nstext ['0'], .nest 2 (concatV [.lineHard, .text ['.'], .nstext ['1'], .nil])])) := by
  decide

end SamVerif.C08b
