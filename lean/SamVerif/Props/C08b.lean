import SamVerif.Props.C08
import SamVerif.Props.C09
/-!
# C08 composed with C09 (builder-C09's layout engine and import models)

The only file of C08 that imports another property's theorems.  It discharges the two clauses of the
property text that C08's own models do not speak about:

* "× line widths": C08's models are token-level; `Model/Doc.lean` (C09) is the layout engine.
* "up to the documented merging and sorting of import lines": `Model/Imports.lean` (C09) is
  `source_module_to_document`'s import section (source_printer.rs:1260-1302).
-/
namespace SamVerif.C08b
open SamVerif.Doc SamVerif.Imports

/-- **Checking the printed tokens at one width is checking them at every width**: if, for a document
whose `Union` branches agree on their text, the non-whitespace characters of the output at some width
`w₀` are `target` (in the `fmt-expr` correspondence: the characters of the model's token sequence
`printE e`), then they are `target` at every width.  (From `pretty_print_width_irrelevant`, C09.) -/
theorem tokens_at_one_width_suffice (d : Doc) (h : Agree textKey d) (target : List Char) (w₀ : Nat)
    (h0 : nonWs (prettyPrint w₀ d) = target) (w : Nat) : nonWs (prettyPrint w d) = target := by
  rw [pretty_print_width_irrelevant w w₀ d h, h0]

/-- **Imports are the same up to merging and sorting**: the printed import section has exactly one
line per imported module, for exactly the modules of the source, and the members on the line of a
module are a permutation of all members imported from that module anywhere in the source — nothing is
lost, duplicated or attributed to another module.  (From `imports_group_exact`, `sortBy_perm`, C09.)
This is the normal form modulo which the reparse oracle compares `parse (format m)` with `parse m`. -/
theorem imports_same_up_to_merge_sort (imps : List Import) :
    ((sortedGroups imps).map (·.path)).Nodup ∧
    (∀ p, p ∈ (sortedGroups imps).map (·.path) ↔ p ∈ imps.map (·.path)) ∧
    ∀ g ∈ sortedGroups imps,
      g.members.Perm ((imps.filter (fun i => i.path = g.path)).flatMap (·.members)) := by
  obtain ⟨hnd, hmem, hg⟩ := imports_group_exact imps
  have hperm : (sortBy (fun a b => strLe a.path b.path) (organize imps)).Perm (organize imps) :=
    sortBy_perm _ _
  have hpaths : ((sortedGroups imps).map (·.path)) =
      (sortBy (fun a b => strLe a.path b.path) (organize imps)).map (·.path) := by
    simp [sortedGroups, List.map_map, Function.comp_def]
  refine ⟨?_, ?_, ?_⟩
  · rw [hpaths]
    exact (hperm.map _).nodup_iff.mpr hnd
  · intro p
    rw [hpaths, (hperm.map _).mem_iff]
    exact hmem p
  · intro g hgm
    unfold sortedGroups at hgm
    obtain ⟨g0, hg0, rfl⟩ := List.mem_map.mp hgm
    have hm : g0 ∈ organize imps := hperm.mem_iff.mp hg0
    have := (hg g0 hm).2
    simp only
    rw [← this]
    exact sortBy_perm _ _

end SamVerif.C08b
