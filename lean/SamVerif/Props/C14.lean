import SamVerif.Lemmas.LexerPos
/-!
# C14 — Source positions attached to syntax are faithful to the text

Property theorems about the position bookkeeping of the scanner model (`Model/Lexer.lean`, shared
with C05) and about the `Location` algebra of `crates/samlang-ast/src/loc.rs`
(`posMin`/`posMax` = the two components of `Location::union`, `Pos.le` = derived `Ord`).
Ground truth: `posOf pre` = position reached after the bytes `pre` (count `\n`, byte columns).
Columns are *byte* columns (the implementation's convention; LSP's UTF-16 columns differ for
non-ASCII lines — an observation, not a claim).
-/
namespace SamVerif.Lexer

/-! ## ground truth -/

-- `advanceAll p bs` (position after reading `bs` from `p`) and `posOf pre` (= `advanceAll ⟨0,0⟩ pre`)
-- are defined in `Model/Lexer.lean` (ground-truth section).

/-- `Location` (module reference dropped: `union` asserts both sides agree on it) -/
structure Loc where
  start : Pos
  stop : Pos
  deriving DecidableEq, Repr

/-- `Location::union` (loc.rs:51-56) -/
def Loc.union (a b : Loc) : Loc := ⟨posMin a.start b.start, posMax a.stop b.stop⟩
/-- `Location::contains_position` -/
def Loc.containsPos (a : Loc) (p : Pos) : Prop := a.start ≤ p ∧ p ≤ a.stop
/-- `Location::contains` -/
def Loc.contains (a b : Loc) : Prop := a.containsPos b.start ∧ a.containsPos b.stop
def Loc.wf (a : Loc) : Prop := a.start ≤ a.stop
instance (a : Loc) (p : Pos) : Decidable (a.containsPos p) := by unfold Loc.containsPos; exact inferInstance
instance (a b : Loc) : Decidable (a.contains b) := by unfold Loc.contains; exact inferInstance
instance (a : Loc) : Decidable a.wf := by unfold Loc.wf; exact inferInstance

theorem pos_le_iff (a b : Pos) : a ≤ b ↔ (a.line < b.line ∨ (a.line = b.line ∧ a.col ≤ b.col)) := Iff.rfl
theorem pos_lt_iff (a b : Pos) : a < b ↔ (a.line < b.line ∨ (a.line = b.line ∧ a.col < b.col)) := Iff.rfl

theorem Pos.le_refl (a : Pos) : a ≤ a := by rw [pos_le_iff]; omega
theorem Pos.le_trans {a b c : Pos} (h1 : a ≤ b) (h2 : b ≤ c) : a ≤ c := by
  rw [pos_le_iff] at *; omega
theorem Pos.le_antisymm {a b : Pos} (h1 : a ≤ b) (h2 : b ≤ a) : a = b := by
  rw [pos_le_iff] at *
  cases a; cases b; simp only [Pos.mk.injEq] at *; omega
theorem Pos.le_total (a b : Pos) : a ≤ b ∨ b ≤ a := by
  rw [pos_le_iff, pos_le_iff]; omega

theorem posMin_le_left (a b : Pos) : posMin a b ≤ a := by
  unfold posMin; split
  · exact Pos.le_refl a
  · rename_i h; rw [pos_lt_iff] at h; rw [pos_le_iff]; omega
theorem posMin_le_right (a b : Pos) : posMin a b ≤ b := by
  unfold posMin; split
  · rename_i h; rw [pos_lt_iff] at h; rw [pos_le_iff]; omega
  · exact Pos.le_refl b
theorem le_posMax_left (a b : Pos) : a ≤ posMax a b := by
  unfold posMax; split
  · exact Pos.le_refl a
  · rename_i h; rw [pos_lt_iff] at h; rw [pos_le_iff]; omega
theorem le_posMax_right (a b : Pos) : b ≤ posMax a b := by
  unfold posMax; split
  · rename_i h; rw [pos_lt_iff] at h; rw [pos_le_iff]; omega
  · exact Pos.le_refl b
theorem le_posMin {c a b : Pos} (h1 : c ≤ a) (h2 : c ≤ b) : c ≤ posMin a b := by
  unfold posMin; split <;> assumption
theorem posMax_le {c a b : Pos} (h1 : a ≤ c) (h2 : b ≤ c) : posMax a b ≤ c := by
  unfold posMax; split <;> assumption

/-- **union_lub** (full strength): for well-formed locations, `union a b` is well-formed, contains
`a` and `b`, and is contained in every location that contains both — it is the least upper bound
of the containment order. Hence any node whose location is a union of its children's locations
encloses them. -/
theorem union_lub (a b : Loc) (ha : a.wf) (hb : b.wf) :
    (a.union b).wf ∧ (a.union b).contains a ∧ (a.union b).contains b ∧
      ∀ c : Loc, c.contains a → c.contains b → c.contains (a.union b) := by
  unfold Loc.wf at *
  refine ⟨?_, ?_, ?_, ?_⟩
  · exact Pos.le_trans (posMin_le_left _ _) (Pos.le_trans ha (le_posMax_left _ _))
  · exact ⟨⟨posMin_le_left _ _, Pos.le_trans ha (le_posMax_left _ _)⟩,
      ⟨Pos.le_trans (posMin_le_left _ _) ha, le_posMax_left _ _⟩⟩
  · exact ⟨⟨posMin_le_right _ _, Pos.le_trans hb (le_posMax_right _ _)⟩,
      ⟨Pos.le_trans (posMin_le_right _ _) hb, le_posMax_right _ _⟩⟩
  · intro c hca hcb
    obtain ⟨⟨h1, _⟩, ⟨_, h4⟩⟩ := hca
    obtain ⟨⟨h5, _⟩, ⟨_, h8⟩⟩ := hcb
    have hs : c.start ≤ posMin a.start b.start := le_posMin h1 h5
    have he : posMax a.stop b.stop ≤ c.stop := posMax_le h4 h8
    have hw : posMin a.start b.start ≤ posMax a.stop b.stop :=
      Pos.le_trans (posMin_le_left _ _) (Pos.le_trans ha (le_posMax_left _ _))
    exact ⟨⟨hs, Pos.le_trans hw he⟩, ⟨Pos.le_trans hs hw, he⟩⟩

example : (Loc.union ⟨⟨1, 3⟩, ⟨3, 1⟩⟩ ⟨⟨2, 3⟩, ⟨4, 1⟩⟩) = ⟨⟨1, 3⟩, ⟨4, 1⟩⟩ := by decide

/-- containment of well-formed locations is a partial order -/
theorem contains_refl (a : Loc) (h : a.wf) : a.contains a :=
  ⟨⟨Pos.le_refl _, h⟩, ⟨h, Pos.le_refl _⟩⟩
theorem contains_trans {a b c : Loc} (h1 : a.contains b) (h2 : b.contains c) : a.contains c :=
  ⟨⟨Pos.le_trans h1.1.1 h2.1.1, Pos.le_trans h2.1.2 h1.2.2⟩,
   ⟨Pos.le_trans h1.1.1 h2.2.1, Pos.le_trans h2.2.2 h1.2.2⟩⟩
theorem contains_antisymm {a b : Loc} (h1 : a.contains b) (h2 : b.contains a) : a = b := by
  cases a; cases b
  simp only [Loc.mk.injEq]
  exact ⟨Pos.le_antisymm h1.1.1 h2.1.1, Pos.le_antisymm h2.2.2 h1.2.2⟩

/-! ## productions: `loc` of a node = union of its first and last item

Every parser production builds the location of its node as
`first_item.loc.union(&last_item.loc)` where the items are, in source order, the node's own
delimiter tokens (`(`, `{`, `if`, `match`, `let`, `;` …) and its children (e.g.
`peeked_loc.union(&body.loc())` for a lambda, `e1.loc().union(&e2.loc())` for a binary expression;
source_parser.rs `expression_parser`, `pattern_parser`, `type_parser`).  `Production` states that
shape once for all ~60 productions; the implementation-side walk (`vlib/c14.py: PRODUCTIONS`)
compares, for every parsed node, its location with its first/last child (exact equality where the
edge is a child) or its delimiter token (where the edge is a delimiter). -/

/-- the items of a production in source order: each well-formed, none starts before its predecessor ends -/
def Ordered : List Loc → Prop
  | [] => True
  | [a] => a.wf
  | a :: b :: rest => a.wf ∧ a.stop ≤ b.start ∧ Ordered (b :: rest)

/-- `first.union(&last)` over the item list `first :: rest` -/
def prodLoc (first : Loc) (rest : List Loc) : Loc := first.union ((first :: rest).getLast (by simp))

theorem Ordered.tail {a : Loc} {l : List Loc} (h : Ordered (a :: l)) : Ordered l := by
  cases l with
  | nil => trivial
  | cons b r => exact h.2.2

theorem Ordered.head_wf {a : Loc} {l : List Loc} (h : Ordered (a :: l)) : a.wf := by
  cases l with
  | nil => exact h
  | cons b r => exact h.1

/-- in an ordered item list every item starts at or after the first item's start and ends at or
before the last item's end -/
theorem Ordered.bounds {a : Loc} {l : List Loc} (h : Ordered (a :: l)) :
    ∀ x ∈ a :: l, x.wf ∧ a.start ≤ x.start ∧ x.stop ≤ ((a :: l).getLast (by simp)).stop := by
  induction l generalizing a with
  | nil =>
    intro x hx
    simp only [List.mem_singleton] at hx
    subst hx
    exact ⟨h, Pos.le_refl _, Pos.le_refl _⟩
  | cons b r ih =>
    intro x hx
    have hb := ih h.2.2
    have hlast : (a :: b :: r).getLast (by simp) = (b :: r).getLast (by simp) := by
      simp [List.getLast_cons]
    rw [hlast]
    rcases List.mem_cons.mp hx with rfl | hx'
    · have hbb := hb b (List.mem_cons_self ..)
      refine ⟨h.1, Pos.le_refl _, ?_⟩
      exact Pos.le_trans h.2.1 (Pos.le_trans hbb.1 hbb.2.2)
    · have hxx := hb x hx'
      exact ⟨hxx.1, Pos.le_trans (Pos.le_trans h.1 h.2.1) hxx.2.1, hxx.2.2⟩

/-- **encloses_children** (full strength, every production): a node whose location is built as the
union of its first and last item encloses every one of its items (children and delimiters alike),
and is itself well-formed — provided only that the items are in source order.  A production that
unions with the wrong item (e.g. the parameter list instead of the body) violates the conclusion,
so the walk's per-node comparison is a proof obligation, not a heuristic. -/
theorem encloses_children (first : Loc) (rest : List Loc) (h : Ordered (first :: rest)) :
    (prodLoc first rest).wf ∧ ∀ x ∈ first :: rest, (prodLoc first rest).contains x := by
  have hb := h.bounds
  have hfirst := hb first (List.mem_cons_self ..)
  have hlastmem : (first :: rest).getLast (by simp) ∈ first :: rest := List.getLast_mem _
  have hlast := hb _ hlastmem
  have hu := union_lub first ((first :: rest).getLast (by simp)) hfirst.1 hlast.1
  refine ⟨hu.1, ?_⟩
  intro x hx
  have hxx := hb x hx
  have h1 : (prodLoc first rest).start ≤ x.start :=
    Pos.le_trans (posMin_le_left _ _) hxx.2.1
  have h2 : x.stop ≤ (prodLoc first rest).stop :=
    Pos.le_trans hxx.2.2 (le_posMax_right _ _)
  exact ⟨⟨h1, Pos.le_trans hxx.1 h2⟩, ⟨Pos.le_trans h1 hxx.1, h2⟩⟩

/-- **prodLoc_exact**: the node starts exactly where its first item starts and ends exactly where its
last item ends (the equalities the walk checks edge by edge). -/
theorem prodLoc_exact (first : Loc) (rest : List Loc) (h : Ordered (first :: rest)) :
    (prodLoc first rest).start = first.start ∧
      (prodLoc first rest).stop = ((first :: rest).getLast (by simp)).stop := by
  have hb := h.bounds
  have hfirst := hb first (List.mem_cons_self ..)
  have hlast := hb _ (List.getLast_mem (l := first :: rest) (by simp))
  constructor
  · apply Pos.le_antisymm (posMin_le_left _ _)
    exact le_posMin (Pos.le_refl _) hlast.2.1
  · apply Pos.le_antisymm
    · exact posMax_le hfirst.2.2 (Pos.le_refl _)
    · exact le_posMax_right _ _

/-- the seeded-fault shape: `(a, b: T) -> e` with the lambda's location unioned with the parameter
list instead of the body does not enclose the body -/
example : ¬ (Loc.union ⟨⟨0, 0⟩, ⟨0, 11⟩⟩ ⟨⟨0, 0⟩, ⟨0, 11⟩⟩).contains ⟨⟨0, 15⟩, ⟨0, 20⟩⟩ := by decide
example : (prodLoc ⟨⟨0, 0⟩, ⟨0, 11⟩⟩ [⟨⟨0, 15⟩, ⟨0, 20⟩⟩]).contains ⟨⟨0, 15⟩, ⟨0, 20⟩⟩ :=
  (encloses_children _ _ (by refine ⟨by decide, by decide, ?_⟩; show Loc.wf _; decide)).2 _ (by simp)

/-! ## position bookkeeping of the scanner equals the ground truth -/

/-! ## position bookkeeping of the scanner equals the ground truth

Per-path lemmas (`Lemmas/LexerPos.lean`): `wsPos_exact`, `blockEnd_pos_exact`, `strEnd_no_newline`,
`advanceAll_no_newline`, `lexStrLit_spec`, `lexLineComment_spec`, `lexBlockComment_spec`,
`logosNext_spec`, `lexError_spec`, composed into `nextRaw_spec` (one step) and `rawLoop_tracked`
(the whole run).  `TokensAt doc o ts` (defined there) says: the tokens sit at strictly increasing,
non-overlapping byte ranges `[a, b)` of `doc`, `start = posOf (doc.take a)`, `stop = posOf (doc.take b)`,
and an identifier's text is exactly `doc[a..b)` on one line. -/

/-- **pos_tracking_exact** (full strength): for every document, every token the scanner emits
carries exactly the ground-truth positions (newline count, byte column) of the first byte of its
range and of the byte after its range; the ranges are non-empty, inside the document, in increasing
order and pairwise disjoint. Multi-line block comments, strings, CRLF, tabs, non-ASCII included. -/
theorem pos_tracking_exact (doc : Bytes) : TokensAt doc 0 (rawTokens doc).toks := by
  have := rawLoop_tracked doc (doc.length + 1) 0 (by omega)
  simpa [rawTokens, posOf, advanceAll] using this

theorem TokensAt.ordered {doc : Bytes} {o : Nat} {ts : List Token} (h : TokensAt doc o ts) :
    Ordered (ts.map fun t => (⟨t.start, t.stop⟩ : Loc)) ∧
      ∀ t ∈ ts.head?, posOf (doc.take o) ≤ t.start := by
  induction ts generalizing o with
  | nil => simp [Ordered]
  | cons t ts ih =>
    obtain ⟨a, b, hoa, hab, hb, hs, he, _, hrest⟩ := h
    have hwf : t.start ≤ t.stop := by rw [hs, he]; exact posOf_mono doc a b (by omega)
    have hh : ∀ t' ∈ (t :: ts).head?, posOf (doc.take o) ≤ t'.start := by
      intro t' ht'
      simp only [List.head?_cons, Option.mem_def, Option.some.injEq] at ht'
      subst ht'
      rw [hs]; exact posOf_mono doc o a hoa
    refine ⟨?_, hh⟩
    have ih' := ih hrest
    cases ts with
    | nil => exact hwf
    | cons u us =>
      refine ⟨hwf, ?_, ih'.1⟩
      have := ih'.2 u (by simp)
      show t.stop ≤ u.start
      rw [he]; exact this

/-- **tokens_ordered** (full strength): for every document every token has `start ≤ end` and
consecutive tokens satisfy `endᵢ ≤ startᵢ₊₁` in the `Position` order the tools use. -/
theorem tokens_ordered (doc : Bytes) :
    Ordered ((rawTokens doc).toks.map fun t => (⟨t.start, t.stop⟩ : Loc)) :=
  (pos_tracking_exact doc).ordered.1

theorem TokensAt.names {doc : Bytes} {o : Nat} {ts : List Token} (h : TokensAt doc o ts) :
    ∀ t ∈ ts, (t.kind = .upper ∨ t.kind = .lower) →
      ∃ a b, a < b ∧ b ≤ doc.length ∧ t.start = posOf (doc.take a) ∧
        t.text = (doc.drop a).take (b - a) ∧ t.stop = addCol t.start t.text.length := by
  induction ts generalizing o with
  | nil => simp
  | cons u us ih =>
    obtain ⟨a, b, _, hab, hb, hs, _, hid, hrest⟩ := h
    intro t ht hk
    rcases List.mem_cons.mp ht with rfl | ht
    · exact ⟨a, b, hab, hb, hs, (hid hk).1, (hid hk).2⟩
    · exact ih hrest t ht hk

/-- **name_span_exact** (full strength): an identifier token covers exactly the bytes that spell its
name: its text is the document slice at its start offset, and its span stays on one line with
column length = name length (in bytes). -/
theorem name_span_exact (doc : Bytes) (t : Token) (ht : t ∈ (rawTokens doc).toks)
    (hk : t.kind = .upper ∨ t.kind = .lower) :
    ∃ a b, a < b ∧ b ≤ doc.length ∧ t.start = posOf (doc.take a) ∧
      t.text = (doc.drop a).take (b - a) ∧ t.stop = addCol t.start t.text.length :=
  (pos_tracking_exact doc).names t ht hk

/-- the `-` / `2147483648` merge of `TokenProducer` (`prev_loc.union(&loc)`) keeps exactness: for
ordered operands the union starts at the minus sign and ends at the literal's end -/
theorem merge_span_exact (p t : Loc) (hp : p.wf) (ht : t.wf) (h : p.stop ≤ t.start) :
    posMin p.start t.start = p.start ∧ posMax p.stop t.stop = t.stop := by
  have := prodLoc_exact p [t] (show Ordered [p, t] from ⟨hp, h, ht⟩)
  simpa [prodLoc, Loc.union] using this

example : (rawTokens [97, 10, 32, 98, 99]).toks.map (fun t => (t.start, t.stop)) =
    [(⟨0, 0⟩, ⟨0, 1⟩), (⟨1, 1⟩, ⟨1, 3⟩)] := by decide
example : posOf [97, 10, 98] = ⟨1, 1⟩ := by decide

end SamVerif.Lexer
