import SamVerif.Lemmas.Lexer
/-!
# C14 — Source positions attached to syntax are faithful to the text

Property theorems about the position bookkeeping of the scanner model (`Model/Lexer.lean`, shared
with C05) and about the `Location` algebra of `crates/samlang-ast/src/loc.rs`
(`posMin`/`posMax` = the two components of `Location::union`, `Pos.le` = derived `Ord`).
Ground truth: `posOf pre` = position reached after the bytes `pre` (count `\n`, byte columns).
Columns are *byte* columns (the implementation's convention; LSP's UTF-16 columns differ for
non-ASCII lines — an observation, not a claim).
-/
namespace SamVerif.Lexer

/-! ## ground truth -/

/-- position after reading `bs` starting at `p` -/
def advanceAll (p : Pos) (bs : Bytes) : Pos := bs.foldl advance p

/-- position of byte offset `pre.length` in a document that starts with `pre` -/
def posOf (pre : Bytes) : Pos := advanceAll ⟨0, 0⟩ pre

/-- `Location` (module reference dropped: `union` asserts both sides agree on it) -/
structure Loc where
  start : Pos
  stop : Pos
  deriving DecidableEq, Repr

/-- `Location::union` (loc.rs:51-56) -/
def Loc.union (a b : Loc) : Loc := ⟨posMin a.start b.start, posMax a.stop b.stop⟩
/-- `Location::contains_position` -/
def Loc.containsPos (a : Loc) (p : Pos) : Prop := a.start ≤ p ∧ p ≤ a.stop
/-- `Location::contains` -/
def Loc.contains (a b : Loc) : Prop := a.containsPos b.start ∧ a.containsPos b.stop
def Loc.wf (a : Loc) : Prop := a.start ≤ a.stop

theorem pos_le_iff (a b : Pos) : a ≤ b ↔ (a.line < b.line ∨ (a.line = b.line ∧ a.col ≤ b.col)) := Iff.rfl
theorem pos_lt_iff (a b : Pos) : a < b ↔ (a.line < b.line ∨ (a.line = b.line ∧ a.col < b.col)) := Iff.rfl

theorem Pos.le_refl (a : Pos) : a ≤ a := by rw [pos_le_iff]; omega
theorem Pos.le_trans {a b c : Pos} (h1 : a ≤ b) (h2 : b ≤ c) : a ≤ c := by
  rw [pos_le_iff] at *; omega
theorem Pos.le_antisymm {a b : Pos} (h1 : a ≤ b) (h2 : b ≤ a) : a = b := by
  rw [pos_le_iff] at *
  cases a; cases b; simp only [Pos.mk.injEq] at *; omega
theorem Pos.le_total (a b : Pos) : a ≤ b ∨ b ≤ a := by
  rw [pos_le_iff, pos_le_iff]; omega

theorem posMin_le_left (a b : Pos) : posMin a b ≤ a := by
  unfold posMin; split
  · exact Pos.le_refl a
  · rename_i h; rw [pos_lt_iff] at h; rw [pos_le_iff]; omega
theorem posMin_le_right (a b : Pos) : posMin a b ≤ b := by
  unfold posMin; split
  · rename_i h; rw [pos_lt_iff] at h; rw [pos_le_iff]; omega
  · exact Pos.le_refl b
theorem le_posMax_left (a b : Pos) : a ≤ posMax a b := by
  unfold posMax; split
  · exact Pos.le_refl a
  · rename_i h; rw [pos_lt_iff] at h; rw [pos_le_iff]; omega
theorem le_posMax_right (a b : Pos) : b ≤ posMax a b := by
  unfold posMax; split
  · rename_i h; rw [pos_lt_iff] at h; rw [pos_le_iff]; omega
  · exact Pos.le_refl b
theorem le_posMin {c a b : Pos} (h1 : c ≤ a) (h2 : c ≤ b) : c ≤ posMin a b := by
  unfold posMin; split <;> assumption
theorem posMax_le {c a b : Pos} (h1 : a ≤ c) (h2 : b ≤ c) : posMax a b ≤ c := by
  unfold posMax; split <;> assumption

/-- **union_lub** (full strength): for well-formed locations, `union a b` is well-formed, contains
`a` and `b`, and is contained in every location that contains both — it is the least upper bound
of the containment order. Hence any node whose location is a union of its children's locations
encloses them. -/
theorem union_lub (a b : Loc) (ha : a.wf) (hb : b.wf) :
    (a.union b).wf ∧ (a.union b).contains a ∧ (a.union b).contains b ∧
      ∀ c : Loc, c.contains a → c.contains b → c.contains (a.union b) := by
  unfold Loc.wf at *
  refine ⟨?_, ?_, ?_, ?_⟩
  · exact Pos.le_trans (posMin_le_left _ _) (Pos.le_trans ha (le_posMax_left _ _))
  · exact ⟨⟨posMin_le_left _ _, Pos.le_trans ha (le_posMax_left _ _)⟩,
      ⟨Pos.le_trans (posMin_le_left _ _) ha, le_posMax_left _ _⟩⟩
  · exact ⟨⟨posMin_le_right _ _, Pos.le_trans hb (le_posMax_right _ _)⟩,
      ⟨Pos.le_trans (posMin_le_right _ _) hb, le_posMax_right _ _⟩⟩
  · intro c hca hcb
    obtain ⟨⟨h1, _⟩, ⟨_, h4⟩⟩ := hca
    obtain ⟨⟨h5, _⟩, ⟨_, h8⟩⟩ := hcb
    have hs : c.start ≤ posMin a.start b.start := le_posMin h1 h5
    have he : posMax a.stop b.stop ≤ c.stop := posMax_le h4 h8
    have hw : posMin a.start b.start ≤ posMax a.stop b.stop :=
      Pos.le_trans (posMin_le_left _ _) (Pos.le_trans ha (le_posMax_left _ _))
    exact ⟨⟨hs, Pos.le_trans hw he⟩, ⟨Pos.le_trans hs hw, he⟩⟩

example : (Loc.union ⟨⟨1, 3⟩, ⟨3, 1⟩⟩ ⟨⟨2, 3⟩, ⟨4, 1⟩⟩) = ⟨⟨1, 3⟩, ⟨4, 1⟩⟩ := by decide

/-- containment of well-formed locations is a partial order -/
theorem contains_refl (a : Loc) (h : a.wf) : a.contains a :=
  ⟨⟨Pos.le_refl _, h⟩, ⟨h, Pos.le_refl _⟩⟩
theorem contains_trans {a b c : Loc} (h1 : a.contains b) (h2 : b.contains c) : a.contains c :=
  ⟨⟨Pos.le_trans h1.1.1 h2.1.1, Pos.le_trans h2.1.2 h1.2.2⟩,
   ⟨Pos.le_trans h1.1.1 h2.2.1, Pos.le_trans h2.2.2 h1.2.2⟩⟩
theorem contains_antisymm {a b : Loc} (h1 : a.contains b) (h2 : b.contains a) : a = b := by
  cases a; cases b
  simp only [Loc.mk.injEq]
  exact ⟨Pos.le_antisymm h1.1.1 h2.1.1, Pos.le_antisymm h2.2.2 h1.2.2⟩

/-! ## position bookkeeping of the scanner equals the ground truth -/

/-- bytes without a newline only move the column (`next_n_column`, `loc_of_advance`) -/
theorem advanceAll_no_newline (p : Pos) (bs : Bytes) (h : ∀ b ∈ bs, b.toNat ≠ 10) :
    advanceAll p bs = addCol p bs.length := by
  induction bs generalizing p with
  | nil => simp [advanceAll, addCol]
  | cons b bs ih =>
    have hb : b.toNat ≠ 10 := h b (List.mem_cons_self ..)
    have := ih (advance p b) (fun x hx => h x (List.mem_cons_of_mem _ hx))
    simp only [advanceAll, List.foldl_cons] at this ⊢
    rw [this]
    simp [advance, hb, addCol, Nat.add_assoc, Nat.add_comm 1]

/-- **skip_whitespace tracks positions exactly**: after the whitespace run the tracked position is
the ground-truth position of the bytes skipped (newlines, CR, tabs, form feeds included). -/
theorem wsPos_exact (bs : Bytes) (p : Pos) :
    wsPos bs p = advanceAll p (bs.take (run isAsciiWs bs)) := by
  induction bs generalizing p with
  | nil => simp [wsPos, run, advanceAll]
  | cons b bs ih =>
    simp only [wsPos, run]
    split
    · simp [ih, advanceAll]
    · simp [advanceAll]

/-- **the block-comment loop tracks positions exactly**: when `blockEnd` finds the closing `*/`
after `m - n` bytes, the position it reports is the ground-truth position after those bytes
(multi-line comments included). -/
theorem blockEnd_pos_exact (cs : Bytes) (p : Pos) (n m : Nat) (q : Pos)
    (h : blockEnd cs p n = some (m, q)) : n ≤ m ∧ q = advanceAll p (cs.take (m - n)) := by
  fun_induction blockEnd cs p n with
  | case1 c d cs p n hq =>
    simp only [Option.some.injEq, Prod.mk.injEq] at h
    obtain ⟨rfl, rfl⟩ := h
    refine ⟨by omega, ?_⟩
    have : n + 2 - n = 2 := by omega
    rw [this]
    simp [advanceAll, advance, addCol, hq.1, hq.2]
  | case2 c d cs p n _ ih =>
    obtain ⟨hle, hq⟩ := ih h
    refine ⟨by omega, ?_⟩
    have : m - n = (m - (n + 1)) + 1 := by omega
    rw [this, hq]
    simp [advanceAll]
  | case3 => simp at h

/-- a string literal never spans a line: the bytes `strEnd` accepts contain no newline, so the
column-only update `position.1 += pos + 1` (lexer.rs:344) is exact -/
theorem strEnd_no_newline (cs : Bytes) (esc pos n : Nat) (h : strEnd cs esc pos = some n) :
    ∀ b ∈ cs.take (n - pos), b.toNat ≠ 10 := by
  fun_induction strEnd cs esc pos with
  | case1 => simp at h
  | case2 c cs esc pos hq =>
    simp only [Option.some.injEq] at h
    subst h
    have : pos + 1 - pos = 1 := by omega
    rw [this]
    intro b hb
    simp at hb
    subst hb
    omega
  | case3 => simp at h
  | case4 c cs esc pos hq hn ih =>
    have hgt := strEnd_gt _ _ _ _ h
    have : n - pos = (n - (pos + 1)) + 1 := by omega
    rw [this]
    intro b hb
    simp only [List.take_succ_cons, List.mem_cons] at hb
    rcases hb with rfl | hb
    · exact hn
    · exact ih h b hb

example : posOf [97, 10, 98] = ⟨1, 1⟩ := by decide

end SamVerif.Lexer
