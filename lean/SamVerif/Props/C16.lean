import SamVerif.Lemmas.Differ
import SamVerif.Lemmas.DifferText
/-!
# C16 — Text edits proposed by the language server apply cleanly

Property theorems only (helper lemmas live in `Lemmas/Differ.lean`).  The model is
`Model/Differ.lean` — the list differ of `crates/samlang-services/src/ast_differ.rs` that computes
every edit of an auto-import quick fix / completion item; it is tied to the code by the `diff`
correspondence protocol (`harness/src/bin/c16.rs` through hook `verif_hooks_c16::list_diff` vs
`Driver/C16.lean`), exact script equality.

All statements are for arbitrary element types with decidable equality and for lists of any
length; no bound on sizes or steps; fuel appears only where it is the explicit subject and
`longestTrace_total` / `diff_total_correct` remove it.
-/
namespace SamVerif.Differ
variable {α : Type} [DecidableEq α]
set_option linter.unusedSectionVars false

/-- **The breadth-first search only returns valid traces**: whatever `longest_trace` returns (for any
amount of fuel, i.e. after any number of rounds of the Rust `loop`) is a strictly increasing
sequence of in-bounds match points `old[x] = new[y]`. -/
theorem trace_valid (fuel : Nat) (old new : List α) (tr : Trace)
    (h : longestTrace fuel old new = some tr) : ValidTrace old new tr := by
  unfold longestTrace at h
  refine bfs_valid old new fuel _ _ ?_ tr h
  intro e he
  simp only [List.mem_singleton] at he
  subst he
  exact followSnake_rvalid old new 0 0 [] trivial

/-- non-vacuity: the hypothesis is satisfiable (and by `longestTrace_total` below always is) -/
example : longestTrace 2 [7] [7, 8] = some [(0, 0)] := by
  simp [longestTrace, followSnake, bfs, lookupV, expand, visit]

/-- **Script correctness** for *any* valid trace (not only the one the search finds): deletes of the
trace complement, inserts between trace points, sorting and insert+delete fusion together produce a
script that turns `old` into `new` — empty lists, duplicates, full replacement included. -/
theorem script_correct (old new : List α) (tr : Trace) (hv : ValidTrace old new tr) :
    applyScript old (computeWith old new tr) = new := by
  unfold computeWith applyScript
  rw [sorted_eq_segs old new tr hv]
  have := segs_apply old new tr 0 0 0 hv (Nat.zero_le _) (Nat.zero_le _) (Nat.le_refl _)
  simpa [slice] using this

/-- non-vacuity: valid traces exist, also non-trivial ones and the empty one (full replacement) -/
example : ValidTrace [1, 3, 4, 5] [1, 2, 3, 5] [(0, 0), (1, 2), (3, 3)] := by
  simp [ValidTrace, ValidFrom]
example : applyScript [1, 2] (computeWith [1, 2] [3, 4, 5] []) = [3, 4, 5] :=
  script_correct _ _ _ (by simp [ValidTrace, ValidFrom])

/-- **End to end**: whenever `list_differ::compute` returns, its script applied to `old` is `new`. -/
theorem diff_correct (fuel : Nat) (old new : List α) (s : Script α)
    (h : compute fuel old new = some s) : applyScript old s = new := by
  unfold compute at h
  cases ht : longestTrace fuel old new with
  | none => simp [ht] at h
  | some tr =>
    simp [ht] at h
    subst h
    exact script_correct old new tr (trace_valid fuel old new tr ht)

example : ∃ s, compute 2 [7] [7, 8] = some s := by
  simp [compute, longestTrace, followSnake, bfs, lookupV, expand, visit]

/-- **No index panic in the fusion loop**: the sorted script never contains an empty insert, so
`items[0]` (ast_differ.rs:157) is in bounds. -/
theorem compute_no_panic (old new : List α) (tr : Trace) (hv : ValidTrace old new tr) :
    FuseOk ((presort old new tr).mergeSort cle) := by
  rw [sorted_eq_segs old new tr hv]
  intro p ld hmem
  have key : ∀ (tr : Trace) (px : Int) (first c : Nat),
      (p, Change.insert ([] : List α) ld) ∉ segs old new px first c tr := by
    intro tr
    induction tr with
    | nil =>
      intro px first c hm
      simp only [segs, List.mem_append] at hm
      rcases hm with hm | hm
      · obtain ⟨h1, h2⟩ := mem_insOpt hm
        simp only [Prod.mk.injEq, Change.insert.injEq] at h1
        exact h2 h1.2.1.symm
      · exact delRun_no_insert old _ _ _ _ _ hm
    | cons q tr ih =>
      intro px first c hm
      obtain ⟨x, y⟩ := q
      simp only [segs, List.mem_append] at hm
      rcases hm with hm | hm | hm
      · obtain ⟨h1, h2⟩ := mem_insOpt hm
        simp only [Prod.mk.injEq, Change.insert.injEq] at h1
        exact h2 h1.2.1.symm
      · exact delRun_no_insert old _ _ _ _ _ hm
      · exact ih _ _ _ hm
  exact key tr _ _ _ hmem

example : FuseOk (α := Nat) [(0, .insert [1] false)] := by
  intro p ld h; simp at h


/-- **Positions are sorted**: in the final script positions strictly increase, except that the
`replace` of old element `p` may be followed by the `insert` behind `p` (the rest of a fused
insert).  In particular no old element is touched by two delete/replace changes and no position
receives two inserts. -/
theorem script_positions_sorted (old new : List α) (tr : Trace) (hv : ValidTrace old new tr) :
    (computeWith old new tr).Pairwise Before := by
  unfold computeWith
  rw [sorted_eq_segs old new tr hv]
  exact fuse_sorted _ (segs_sorted old new tr (-1) 0 0 hv (by simp)).2 (segs_noReplace old new tr _ _ _)

example : Before (α := Nat) (1, .replace 2 4) (1, .insert [5] true) := Or.inr ⟨rfl, ⟨_, _, rfl⟩, ⟨_, _, rfl⟩⟩

/-- **Edit ranges are ordered and never overlap** — for *every* layout of the old items in the
document (`st i ≤ en i ≤ st (i+1)`, arbitrary gaps: blank lines, comments), the text ranges that
`wrapped_list_diff` gives to the changes satisfy `end ≤ next start` for every pair, in script order.
Delete/replace ranges are ranges of old items and insert ranges are empty ranges at the end of an old
item (or at the start of the first), so all of them lie inside the span of the old items. -/
theorem edit_ranges_ordered (old new : List α) (tr : Trace) (hv : ValidTrace old new tr)
    (st en : Nat → Nat) (hmono : ∀ i j, i < j → en i ≤ st j) (hle : ∀ i, st i ≤ en i) :
    (computeWith old new tr).Pairwise
      (fun a b => (rangeOf st en a).2 ≤ (rangeOf st en b).1) := by
  have hsorted := script_positions_sorted old new tr hv
  have hnn : NonNeg (computeWith old new tr) := by
    unfold computeWith
    rw [sorted_eq_segs old new tr hv]
    exact fuse_nonneg _ (segs_nonneg old new tr _ _ _)
  refine List.Pairwise.imp_of_mem ?_ hsorted
  intro a b ha hb hab
  exact range_le_of_before st en hmono hle a b (hnn a ha) (hnn b hb) hab

/-- non-vacuity: a layout satisfying the hypotheses (item `i` occupies `[3i, 3i+2)`) -/
example : (∀ i j : Nat, i < j → 3 * i + 2 ≤ 3 * j) ∧ ∀ i : Nat, 3 * i ≤ 3 * i + 2 := by
  constructor <;> intros <;> omega

/-- **Positions are in bounds**: every change addresses an existing old element (`delete`/`replace`
at `0 ≤ p < n`) or a gap behind one / before the first (`insert` at `-1 ≤ p < n`). -/
theorem script_positions_in_bounds (old new : List α) (tr : Trace) (hv : ValidTrace old new tr) :
    ∀ e ∈ computeWith old new tr, -1 ≤ e.1 ∧ e.1 < Int.ofNat old.length ∧
      ((∀ it ld, e.2 ≠ Change.insert it ld) → 0 ≤ e.1) := by
  intro e he
  unfold computeWith at he
  rw [sorted_eq_segs old new tr hv] at he
  have hlow := fuse_gt (-2) _ (fun e' he' => by
    have := (segs_sorted old new tr (-1) 0 0 hv (by simp)).1 e' he'; omega) e he
  have hup := fuse_lt (Int.ofNat old.length) _
    (segs_lt old new tr (-1) 0 0 hv (Nat.zero_le _) (by simp)) e he
  exact ⟨by omega, hup, fuse_nonneg _ (segs_nonneg old new tr _ _ _) e he⟩

/-- **Edit ranges lie inside the span of the old items**: for a non-empty old list and every
monotone layout, each range is inside `[st 0, en (n-1)]` — from the start of the first old item to
the end of the last one (for an empty old list the only possible change is the insert at `-1`,
which the callers place at the document start / behind the last import). -/
theorem edit_ranges_inside (old new : List α) (tr : Trace) (hv : ValidTrace old new tr)
    (st en : Nat → Nat) (hmono : ∀ i j, i < j → en i ≤ st j) (hle : ∀ i, st i ≤ en i)
    (hne : 0 < old.length) :
    ∀ e ∈ computeWith old new tr,
      st 0 ≤ (rangeOf st en e).1 ∧ (rangeOf st en e).1 ≤ (rangeOf st en e).2 ∧
        (rangeOf st en e).2 ≤ en (old.length - 1) := by
  intro e he
  obtain ⟨h1, h2, h3⟩ := script_positions_in_bounds old new tr hv e he
  have hst0 : ∀ j, st 0 ≤ st j := by
    intro j
    cases j with
    | zero => exact Nat.le_refl _
    | succ j => exact Nat.le_trans (hle 0) (hmono 0 (j + 1) (by omega))
  have hen : ∀ i j, i ≤ j → en i ≤ en j := by
    intro i j h
    rcases Nat.lt_or_eq_of_le h with h | h
    · exact Nat.le_trans (hmono i j h) (hle j)
    · subst h; exact Nat.le_refl _
  obtain ⟨p, c⟩ := e
  simp only [Int.ofNat_eq_natCast] at h2
  cases c with
  | insert it ld =>
    simp only [rangeOf]
    by_cases hp : p < 0
    · simp only [hp, ↓reduceIte]
      exact ⟨Nat.le_refl _, Nat.le_refl _, Nat.le_trans (hst0 _) (hle _)⟩
    · simp only [hp, ↓reduceIte]
      exact ⟨Nat.le_trans (hst0 _) (hle _), Nat.le_refl _, hen _ _ (by omega)⟩
  | delete x =>
    have := h3 (by intro _ _ h; cases h)
    simp only [rangeOf]
    exact ⟨hst0 _, hle _, hen _ _ (by omega)⟩
  | replace x y =>
    have := h3 (by intro _ _ h; cases h)
    simp only [rangeOf]
    exact ⟨hst0 _, hle _, hen _ _ (by omega)⟩

/-- **The auto-import shape** (`generate_auto_import_edits`, lib.rs:554-575, diffs `imports` against
`imports ++ [new import]`): the search finds the diagonal trace in two rounds and the whole script
is exactly one insert of `[x]` behind the last old element (`-1` = document start when there is no
import) — fuel-free, for every list and every `x`, also when `x` already occurs in `old`. -/
theorem diff_append_one (old : List α) (x : α) :
    diff old (old ++ [x]) = some [(Int.ofNat old.length - 1, Change.insert [x] false)] := by
  have hfuel : defaultFuel old (old ++ [x]) = (old.length + old.length + 1) + 1 + 1 := by
    simp [defaultFuel]; omega
  have htrace : longestTrace (defaultFuel old (old ++ [x])) old (old ++ [x]) = some (diag 0 old.length) := by
    unfold longestTrace
    rw [hfuel, snake_diag old x old.length 0 [] (by omega)]
    have hne : ¬ (old.length = old.length ∧ old.length = old.length + 1) := by omega
    have f1 : ∀ t, followSnake old (old ++ [x]) (old.length + 1) old.length t = (old.length + 1, old.length, t) := by
      intro t; rw [followSnake]; simp only [show ¬ (old.length + 1 < old.length) by omega, ↓reduceDIte]
    have f2 : ∀ t, followSnake old (old ++ [x]) old.length (old.length + 1) t = (old.length, old.length + 1, t) := by
      intro t; rw [followSnake]; simp only [Nat.lt_irrefl, ↓reduceDIte]
    simp [bfs, lookupV, expand, visit, f1, f2]
  unfold diff compute
  rw [htrace]
  simp only [Option.map_some, Option.some.injEq]
  have hv : ValidTrace old (old ++ [x]) (diag 0 old.length) := trace_valid _ _ _ _ htrace
  unfold computeWith
  rw [sorted_eq_segs old (old ++ [x]) _ hv]
  have := segs_diag old x old.length 0 (by omega)
  simp only [Int.ofNat_eq_natCast, Int.cast_ofNat_Int, Int.zero_sub] at this
  simp only [Int.ofNat_eq_natCast]
  rw [this]
  simp [fuse]

/-- **Nothing changed, nothing edited**: diffing a list against itself (the toplevel list of the
cloned AST in `generate_auto_import_edits`) gives the empty script — so the only edit of an auto-import
is the one import insert of `diff_append_one`. -/
theorem diff_self (l : List α) : diff l l = some [] := by
  have hfuel : defaultFuel l l = (l.length + l.length + 1) + 1 := by simp [defaultFuel]
  have htrace : longestTrace (defaultFuel l l) l l = some (diag 0 l.length) := by
    unfold longestTrace
    rw [hfuel, snake_diag_self l l.length 0 [] (by omega)]
    simp [bfs, lookupV]
  unfold diff compute
  rw [htrace]
  simp only [Option.map_some, Option.some.injEq]
  have hv : ValidTrace l l (diag 0 l.length) := trace_valid _ _ _ _ htrace
  unfold computeWith
  rw [sorted_eq_segs l l _ hv, segs_diag_self l l.length 0 (-1) (by omega)]
  simp [fuse]

/-- The range of that single edit: the empty range at the end of the last import. -/
example (st en : Nat → Nat) (n : Nat) (x : Nat) (h : 0 < n) :
    rangeOf st en ((Int.ofNat n - 1 : Int), Change.insert [x] false) = (en (n - 1), en (n - 1)) := by
  have h1 : ¬ (Int.ofNat n - 1 < 0) := by simp only [Int.ofNat_eq_natCast]; omega
  have h2 : (Int.ofNat n - 1).toNat = n - 1 := by simp only [Int.ofNat_eq_natCast]; omega
  simp only [rangeOf, h1, ↓reduceIte, h2]

/-- **The search terminates**: the breadth-first search of `longest_trace` reaches `(n, m)` within
`n + m + 2` rounds for all lists (completeness of the BFS: while `(n, m)` is unvisited some frontier
node inside the rectangle has an unvisited successor that is strictly closer to `(n, m)`).  So the
Rust `loop` (which has no bound and no empty-frontier exit) always returns. -/
theorem longestTrace_total (old new : List α) :
    ∃ tr, longestTrace (defaultFuel old new) old new = some tr := by
  unfold longestTrace
  apply bfs_total old new
  · refine ⟨by simp [hasKey], ?_⟩
    intro p hp _ _ hnf
    obtain ⟨t, ht⟩ := hp
    simp only [List.mem_singleton, Prod.mk.injEq] at ht
    exact absurd (by simp [ht.1]) hnf
  · refine ⟨((followSnake old new 0 0 []).1, (followSnake old new 0 0 []).2.1),
      ⟨(followSnake old new 0 0 []).2.2, by simp⟩, ?_, ?_⟩
    · have := followSnake_bounds old new 0 0 []
      exact ⟨this.2.2.1 (Nat.zero_le _), this.2.2.2 (Nat.zero_le _)⟩
    · simp only [rank, defaultFuel]; omega

/-- **Fuel-free end-to-end statement**: for all lists `list_differ::compute` returns a script, and
that script turns `old` into `new`. -/
theorem diff_total_correct (old new : List α) :
    ∃ s, diff old new = some s ∧ applyScript old s = new := by
  obtain ⟨tr, htr⟩ := longestTrace_total old new
  refine ⟨computeWith old new tr, by simp [diff, compute, htr], ?_⟩
  exact script_correct old new tr (trace_valid _ old new tr htr)

/-! ## Text level (`Model/DifferText.lean`) -/

/-- **Lift of `script_correct` to text.**  Let the old items occupy the ranges `[st i, en i)` of the
document `doc` (any monotone layout: arbitrary gaps — blank lines, comments — between items) and let
the edits be what `wrapped_list_diff` + `Change::to_edit` make of the script (range `rangeOf`, text
`changeText`: a replace is the rendering of the new item, a delete is empty, an insert is the
renderings joined by "\n" with a leading "\n" when `leading_separator`).  Applying them in order gives
exactly the chunk sequence `expChunks`: the document up to the first old item verbatim, every gap
verbatim, every matched old item verbatim, every other new item as its rendering — and the item
chunks, read in order, are precisely the new list. -/
theorem text_lift (doc : Text) (st en : Nat → Nat) (hl : Lay st en) (rnd : α → Text)
    (old new : List α) (tr : Trace) (hv : ValidTrace old new tr) :
    applyTE 0 doc (toOffEdits st en rnd (computeWith old new tr))
        = dslice doc 0 (bnd st en 0) ++ flatChunks (expChunks doc st en rnd old new 0 0 tr) ∧
      (expChunks doc st en rnd old new 0 0 tr).filterMap (·.1) = new := by
  constructor
  · unfold computeWith
    rw [sorted_eq_segs old new tr hv]
    have := ttrace_apply doc st en hl rnd old new tr 0 0 0 hv (Nat.zero_le _) (Nat.zero_le _) (Nat.zero_le _)
    simpa using this
  · simpa using items_expChunks doc st en rnd old new tr 0 0 hv (Nat.zero_le _)

/-- non-vacuity: a layout (`[3i, 3i+2)`) exists -/
example : Lay (fun i => 3 * i) (fun i => 3 * i + 2) :=
  ⟨fun i => by omega, fun i j h => by omega⟩

/-- **The same for a document given as lines with `(line, column)` edits**, fuel-free: for all item
lists the differ returns a script, and applying the `(line, col)` edits of `importEdits`
(`wrapped_list_diff` + `to_edit` for the import list) to the document yields the expected chunk
sequence whose items are the new list. Layout hypothesis: the offsets of the item locations are
monotone. -/
theorem import_edits_text (doc : Doc) (locs : List (Pos × Pos)) (rnd : α → Text) (old new : List α)
    (hl : Lay (fun i => off doc (locStart locs i)) (fun i => off doc (locStop locs i))) :
    ∃ s tr, diff old new = some s ∧
      applyEdits doc (importEdits locs rnd s) =
        dslice (flatten doc) 0 (off doc (locStart locs 0)) ++
          flatChunks (expChunks (flatten doc) (fun i => off doc (locStart locs i))
            (fun i => off doc (locStop locs i)) rnd old new 0 0 tr) ∧
      (expChunks (flatten doc) (fun i => off doc (locStart locs i))
        (fun i => off doc (locStop locs i)) rnd old new 0 0 tr).filterMap (·.1) = new := by
  obtain ⟨tr, htr⟩ := longestTrace_total old new
  have hv := trace_valid _ old new tr htr
  refine ⟨computeWith old new tr, tr, by simp [diff, compute, htr], ?_⟩
  have := text_lift (flatten doc) _ _ hl rnd old new tr hv
  unfold applyEdits
  rw [importEdits_off]
  simpa [bnd] using this

/-- **Auto-import as text** (`generate_auto_import_edits`, lib.rs:554-590): for every import list, every
layout and every new import `x`, the quick fix / completion edit applied to the document gives the
document with "\n" + the rendered import inserted right behind the last existing import — or, with
no import yet, the rendered import in front of the document.  Nothing else changes. -/
theorem auto_import_text (doc : Doc) (locs : List (Pos × Pos)) (rnd : α → Text) (old : List α) (x : α) :
    ∃ eds, autoImportEdits locs rnd old x = some eds ∧
      applyEdits doc eds =
        if old = [] then (flatten doc).take (off doc (locStart locs 0)) ++ rnd x ++
            (flatten doc).drop (off doc (locStart locs 0))
        else (flatten doc).take (off doc (locStop locs (old.length - 1))) ++ sepNL ++ rnd x ++
            (flatten doc).drop (off doc (locStop locs (old.length - 1))) := by
  unfold autoImportEdits
  rw [diff_append_one]
  refine ⟨_, rfl, ?_⟩
  cases old with
  | nil =>
    simp [importEdits, rangeOfPos, changeText, joinSep, applyEdits, applyTE]
  | cons a as =>
    have h1 : ¬ (Int.ofNat (a :: as).length - 1 < 0) := by
      simp only [List.length_cons, Int.ofNat_eq_natCast]; omega
    have h2 : (Int.ofNat (a :: as).length - 1).toNat = (a :: as).length - 1 := by
      simp only [List.length_cons, Int.ofNat_eq_natCast]; omega
    have h3 : ¬ ((as.length : Int) < 0) := by omega
    simp [importEdits, rangeOfPos, h3, changeText, joinSep, applyEdits, applyTE]

/-- With no import, `locStart [] 0 = (0, 0)` is the document start: the import is simply prepended. -/
example (doc : Doc) (rnd : Nat → Text) (x : Nat) :
    ∃ eds, autoImportEdits [] rnd [] x = some eds ∧ applyEdits doc eds = rnd x ++ flatten doc := by
  obtain ⟨eds, h1, h2⟩ := auto_import_text doc [] rnd [] x
  refine ⟨eds, h1, ?_⟩
  rw [h2]; simp [locStart, off]

/-- **Completion additional edits** (lib.rs:668-714): an item whose class name is already available in
the document (imported from any module, or declared in it) or that belongs to the root module carries
no edit — the document stays as it is; every other item carries exactly the auto-import edit, whose
effect on the text is that of `auto_import_text` (a new import line behind the last import, never a
change of an existing import — also when the module is already imported with other members). -/
theorem completion_edits_text {ν : Type} [DecidableEq ν] (doc : Doc) (locs : List (Pos × Pos))
    (rnd : α → Text) (imports : List α) (available : List ν) (isRoot : Bool) (n : ν) (x : α) :
    ∃ eds, completionAdditionalEdits locs rnd imports available isRoot n x = some eds ∧
      ((n ∈ available ∨ isRoot = true) → eds = [] ∧ applyEdits doc eds = flatten doc) ∧
      (¬ (n ∈ available ∨ isRoot = true) → autoImportEdits locs rnd imports x = some eds) := by
  unfold completionAdditionalEdits
  by_cases h : n ∈ available ∨ isRoot = true
  · have : (available.contains n || isRoot) = true := by
      rcases h with h | h
      · simp [h]
      · simp [h]
    simp only [this, ↓reduceIte]
    exact ⟨[], rfl, fun _ => ⟨rfl, rfl⟩, fun hn => absurd h hn⟩
  · have : (available.contains n || isRoot) = false := by
      simp only [not_or] at h
      simp [h.1, h.2]
    obtain ⟨eds, he, _⟩ := auto_import_text doc locs rnd imports x
    simp only [this]
    exact ⟨eds, he, fun hp => absurd hp h, fun _ => he⟩

/-- non-vacuity of both branches -/
example : completionAdditionalEdits (α := Nat) [] (fun _ => []) [] ["Foo"] false "Foo" 1 = some [] := by
  simp [completionAdditionalEdits]

/-- **Lines and the flat text agree**: splitting a text into lines and joining them with `\n` gives
the text back, so every text *is* a `Doc`. -/
theorem flatten_splitLines (t : Text) : flatten (splitLines t) = t := flatten_splitLines_aux t

/-- **`off` addresses lines**: for every document and every existing line `l`, the bytes of the flat
text at offsets `[off (l,0), off (l,0) + |line l|)` are exactly line `l`, columns add to the offset, and
the line lies inside the text — so `(line, col)` positions with `col ≤ |line l|` mean what LSP says. -/
theorem off_line (doc : Doc) (l : Nat) (hl : l < doc.length) (c : Nat) :
    ((flatten doc).drop (off doc (l, 0))).take doc[l].length = doc[l] ∧
      off doc (l, c) = off doc (l, 0) + c ∧
      off doc (l, 0) + doc[l].length ≤ (flatten doc).length := by
  obtain ⟨h1, h2⟩ := off_line_aux doc l hl
  exact ⟨h1, by simp [off], h2⟩

example : off [[1, 2], [3]] (1, 1) = 4 := by decide

/-- **Toplevel `Err` path** (ast_differ.rs:388-407): a module without toplevels that gets the toplevels
`new` — for every `new`, fuel-free, the edits insert the renderings joined by "\n" at the end of the
last old import (document start if there is none) and change nothing else. -/
theorem toplevel_err_text (doc : Doc) (locsI : List (Pos × Pos)) (rnd : α → Text) (new : List α) :
    ∃ s, diff [] new = some s ∧
      applyEdits doc (toplevelEdits locsI [] rnd s) =
        (flatten doc).take (off doc (if locsI.isEmpty then ((0, 0) : Pos) else locStop locsI (locsI.length - 1))) ++
          (flatChunks (insChunks rnd new false) ++
            (flatten doc).drop (off doc (if locsI.isEmpty then ((0, 0) : Pos) else locStop locsI (locsI.length - 1)))) := by
  obtain ⟨tr, htr⟩ := longestTrace_total [] new
  have hv := trace_valid _ [] new tr htr
  have htr0 := validTrace_nil_old new tr hv
  subst htr0
  refine ⟨computeWith [] new [], by simp [diff, compute, htr], ?_⟩
  unfold applyEdits
  rw [toplevelEdits_off_empty]
  have hl : Lay (fun _ : Nat => off doc (if locsI.isEmpty then ((0, 0) : Pos) else locStop locsI (locsI.length - 1)))
      (fun _ : Nat => off doc (if locsI.isEmpty then ((0, 0) : Pos) else locStop locsI (locsI.length - 1))) :=
    ⟨fun _ => Nat.le_refl _, fun _ _ _ => Nat.le_refl _⟩
  have := (text_lift (flatten doc) _ _ hl rnd [] new [] hv).1
  rw [this]
  simp [expChunks, segChunks, bnd, dslice, slice, flatChunks]

/-- With at least one old toplevel, toplevel changes are positioned exactly like import changes
(`compute_toplevel_diff` only ever produces a `Replace` of the whole toplevel), so `text_lift` /
`import_edits_text` apply verbatim to the toplevel list. -/
theorem toplevel_edits_eq (locsI locsT : List (Pos × Pos)) (hne : locsT ≠ []) (rnd : α → Text) (s : Script α) :
    toplevelEdits locsI locsT rnd s = importEdits locsT rnd s :=
  toplevelEdits_off_nonempty [] locsI locsT hne rnd s

/-- **Which errors yield a quick fix** (lib.rs:505-530): offered iff the error covers the request, the
class was looked up in the document itself and the candidate module declares the name; and then the
edits are the auto-import edits on the *document's own* import list, so `auto_import_text` describes
the edited document.  In particular a class imported from a module that does not export it
(`lookup ≠ docModule`) never gets a quick fix computed against another module's imports. -/
theorem code_action_offered_iff {μ : Type} [DecidableEq μ] (covers : Bool) (lookup docModule : μ)
    (declaresName : Bool) (doc : Doc) (docLocs : List (Pos × Pos)) (rnd : α → Text) (docImports : List α) (x : α) :
    (codeActionOffered covers lookup docModule declaresName = true ↔
      covers = true ∧ lookup = docModule ∧ declaresName = true) ∧
    (codeActionOffered covers lookup docModule declaresName = true →
      ∃ eds, codeActionEdits covers lookup docModule declaresName docLocs rnd docImports x = some eds ∧
        autoImportEdits docLocs rnd docImports x = some eds) ∧
    (codeActionOffered covers lookup docModule declaresName = false →
      codeActionEdits covers lookup docModule declaresName docLocs rnd docImports x = none) := by
  refine ⟨by simp [codeActionOffered, and_assoc], ?_, ?_⟩
  · intro h
    obtain ⟨eds, he, _⟩ := auto_import_text doc docLocs rnd docImports x
    exact ⟨eds, by simp [codeActionEdits, h, he], he⟩
  · intro h; simp [codeActionEdits, h]

example : codeActionOffered true "Doc" "Doc" true = true := by decide
example : codeActionOffered true "A" "Doc" true = false := by decide

/-- **Give-up path** (ast_differ.rs:367-371, 419-424): when the comment stores differ the only edit is
`Location::full_document` with the pretty-printed new module, and applying it to any document with
fewer than 2^32 lines yields exactly that text — nothing of the old document survives. -/
theorem full_document_edit_text {β : Type} (doc : Doc) (printedNew : Text) (locsI locsT : List (Pos × Pos))
    (rndI : α → Text) (rndT : β → Text) (sI : Script α) (sT : Script β) (hlen : doc.length ≤ 4294967295) :
    applyEdits doc (moduleDiffEdits false printedNew locsI locsT rndI rndT sI sT) = printedNew := by
  have h := flatten_length_le_off doc 4294967295 4294967295 hlen
  simp only [moduleDiffEdits, applyEdits, fullDocument, Bool.false_eq_true, ↓reduceIte, List.map_cons,
    List.map_nil, applyTE]
  have h0 : off doc (0, 0) = 0 := by simp [off]
  rw [h0]
  simp only [Nat.sub_zero, List.take_zero, List.nil_append]
  rw [List.drop_eq_nil_of_le h]
  simp

theorem module_diff_edits_equal_comments {β : Type} (printedNew : Text) (locsI locsT : List (Pos × Pos))
    (rndI : α → Text) (rndT : β → Text) (sI : Script α) (sT : Script β) :
    moduleDiffEdits true printedNew locsI locsT rndI rndT sI sT = moduleEdits locsI locsT rndI rndT sI sT := rfl

/-! ## The whole edit list of `compute_module_diff`: import edits followed by toplevel edits -/

/-- Every range of the script lies between the boundary in front of the first old item and the
boundary behind the last one, and is not reversed (also for an empty old list). -/
theorem edit_offsets_in_bnd (old new : List α) (tr : Trace) (hv : ValidTrace old new tr)
    (st en : Nat → Nat) (hl : Lay st en) :
    ∀ e ∈ computeWith old new tr,
      bnd st en 0 ≤ (rangeOf st en e).1 ∧ (rangeOf st en e).1 ≤ (rangeOf st en e).2 ∧
        (rangeOf st en e).2 ≤ bnd st en old.length := by
  intro e he
  by_cases hn : 0 < old.length
  · have := edit_ranges_inside old new tr hv st en hl.mono hl.le hn e he
    have hb : bnd st en old.length = en (old.length - 1) := by
      unfold bnd
      have : ¬ old.length = 0 := by omega
      simp [this]
    have h0 : bnd st en 0 = st 0 := by simp [bnd]
    rw [hb, h0]
    exact this
  · have hz : old.length = 0 := by omega
    obtain ⟨h1, h2, h3⟩ := script_positions_in_bounds old new tr hv e he
    obtain ⟨p, c⟩ := e
    simp only [hz, Int.ofNat_eq_natCast, Int.natCast_zero] at h2
    cases c with
    | insert it ld =>
      have hp : p < 0 := h2
      simp [rangeOf, hp, bnd, hz]
    | delete x => have := h3 (by intro _ _ h; cases h); simp only at this h2; omega
    | replace x y => have := h3 (by intro _ _ h; cases h); simp only at this h2; omega

/-- **The produced edit list satisfies the LSP requirement**: in the order `list_differ` emits them the
text edits have non-reversed ranges and each ends before (or where) the next one starts. -/
theorem edits_ordered (old new : List α) (tr : Trace) (hv : ValidTrace old new tr)
    (st en : Nat → Nat) (hl : Lay st en) (rnd : α → Text) :
    OrderedEdits (toOffEdits st en rnd (computeWith old new tr)) := by
  refine ⟨?_, ?_⟩
  · intro e he
    simp only [toOffEdits, List.mem_map] at he
    obtain ⟨ch, hch, rfl⟩ := he
    exact (edit_offsets_in_bnd old new tr hv st en hl ch hch).2.1
  · simp only [toOffEdits, List.pairwise_map]
    exact edit_ranges_ordered old new tr hv st en hl.mono hl.le

/-- **… also across the two lists**: the import edits followed by the toplevel edits (the order in which
`compute_module_diff` sends them) are ordered and non-overlapping, provided the imports precede the
toplevels in the document (`hsep`). -/
theorem module_edits_ordered {β : Type} [DecidableEq β]
    (oldI newI : List α) (trI : Trace) (hvI : ValidTrace oldI newI trI)
    (oldT newT : List β) (trT : Trace) (hvT : ValidTrace oldT newT trT)
    (stI enI stT enT : Nat → Nat) (hlI : Lay stI enI) (hlT : Lay stT enT)
    (hsep : bnd stI enI oldI.length ≤ bnd stT enT 0) (rndI : α → Text) (rndT : β → Text) :
    OrderedEdits (toOffEdits stI enI rndI (computeWith oldI newI trI) ++
      toOffEdits stT enT rndT (computeWith oldT newT trT)) := by
  obtain ⟨a1, a2⟩ := edits_ordered oldI newI trI hvI stI enI hlI rndI
  obtain ⟨b1, b2⟩ := edits_ordered oldT newT trT hvT stT enT hlT rndT
  refine ⟨?_, ?_⟩
  · intro e he
    simp only [List.mem_append] at he
    rcases he with he | he
    · exact a1 e he
    · exact b1 e he
  · refine List.pairwise_append.mpr ⟨a2, b2, ?_⟩
    intro x hx y hy
    simp only [toOffEdits, List.mem_map] at hx hy
    obtain ⟨cx, hcx, rfl⟩ := hx
    obtain ⟨cy, hcy, rfl⟩ := hy
    have h1 := (edit_offsets_in_bnd oldI newI trI hvI stI enI hlI cx hcx).2.2
    have h2 := (edit_offsets_in_bnd oldT newT trT hvT stT enT hlT cy hcy).1
    simp only
    omega

/-- **Composition**: applying the whole edit list of `compute_module_diff` — import edits, then toplevel
edits, in that order — to the old text gives: the document up to the first import, the import part
(`expChunksBody`: gaps and kept imports verbatim, new imports rendered), the text between the last old
import and the first old toplevel verbatim, and the toplevel part including the tail of the document;
the import items read in order are the new import list and the toplevel items the new toplevel list —
i.e. the text of the new module. -/
theorem module_edits_text {β : Type} [DecidableEq β] (doc : Text)
    (oldI newI : List α) (trI : Trace) (hvI : ValidTrace oldI newI trI)
    (oldT newT : List β) (trT : Trace) (hvT : ValidTrace oldT newT trT)
    (stI enI stT enT : Nat → Nat) (hlI : Lay stI enI) (hlT : Lay stT enT)
    (hsep : bnd stI enI oldI.length ≤ bnd stT enT 0) (rndI : α → Text) (rndT : β → Text) :
    applyTE 0 doc (toOffEdits stI enI rndI (computeWith oldI newI trI) ++
        toOffEdits stT enT rndT (computeWith oldT newT trT)) =
      dslice doc 0 (bnd stI enI 0) ++ flatChunks (expChunksBody doc stI enI rndI oldI newI 0 0 trI) ++
        dslice doc (bnd stI enI oldI.length) (bnd stT enT 0) ++
        flatChunks (expChunks doc stT enT rndT oldT newT 0 0 trT) ∧
      (expChunksBody doc stI enI rndI oldI newI 0 0 trI).filterMap (·.1) = newI ∧
      (expChunks doc stT enT rndT oldT newT 0 0 trT).filterMap (·.1) = newT := by
  have hI := text_lift doc stI enI hlI rndI oldI newI trI hvI
  have hT := text_lift doc stT enT hlT rndT oldT newT trT hvT
  have hsplit := expChunks_split doc stI enI rndI oldI newI trI 0 0
  refine ⟨?_, ?_, hT.2⟩
  · -- run the import edits
    obtain ⟨o1, o2⟩ := edits_ordered oldI newI trI hvI stI enI hlI rndI
    have hwf := runTE_wf doc (bnd stI enI oldI.length) (toOffEdits stI enI rndI (computeWith oldI newI trI)) 0
      (Nat.zero_le _) (by
        intro e he
        simp only [toOffEdits, List.mem_map] at he
        obtain ⟨ch, hch, rfl⟩ := he
        have := edit_offsets_in_bnd oldI newI trI hvI stI enI hlI ch hch
        exact ⟨Nat.zero_le _, this.2.1, this.2.2⟩) o2
    simp only [List.drop_zero] at hwf
    obtain ⟨hrest, _, hpos⟩ := hwf
    rw [applyTE_append, hrest]
    -- the toplevel edits from the cursor the import edits left
    unfold computeWith
    rw [sorted_eq_segs oldT newT trT hvT]
    have hT' := ttrace_apply doc stT enT hlT rndT oldT newT trT 0 0
      (runTE 0 doc (toOffEdits stI enI rndI ((presort oldI newI trI).mergeSort cle |> fuse))).2.1
      hvT (Nat.zero_le _) (Nat.zero_le _) (by
        have : (fuse ((presort oldI newI trI).mergeSort cle)) = computeWith oldI newI trI := rfl
        rw [this]; omega)
    have hcw : (fuse ((presort oldI newI trI).mergeSort cle)) = computeWith oldI newI trI := rfl
    rw [hcw] at hT' ⊢
    simp only [Int.ofNat_eq_natCast, Int.natCast_zero, Int.zero_sub] at hT'
    rw [hT']
    -- what the import edits produced
    have hrun := applyTE_run (toOffEdits stI enI rndI (computeWith oldI newI trI)) 0 doc
    rw [hI.1, hsplit, flat_append, hrest] at hrun
    have htail : flatChunks [((none : Option α), doc.drop (bnd stI enI oldI.length))] =
        doc.drop (bnd stI enI oldI.length) := by simp [flatChunks]
    rw [htail, ← dslice_drop doc _ _ hpos] at hrun
    have hcancel : dslice doc 0 (bnd stI enI 0) ++ flatChunks (expChunksBody doc stI enI rndI oldI newI 0 0 trI) =
        (runTE 0 doc (toOffEdits stI enI rndI (computeWith oldI newI trI))).1 ++
          dslice doc (runTE 0 doc (toOffEdits stI enI rndI (computeWith oldI newI trI))).2.1 (bnd stI enI oldI.length) := by
      have := hrun
      simp only [← List.append_assoc] at this
      exact List.append_cancel_right this
    rw [← dslice_append doc _ (bnd stI enI oldI.length) (bnd stT enT 0) hpos hsep]
    simp only [← List.append_assoc]
    rw [← hcancel]
  · have := hI.2
    rw [hsplit] at this
    simpa using this

/-- **The same for a document of lines and the `(line, col)` edits of `moduleEdits`**, fuel-free, when the
old module has at least one toplevel: for all import and toplevel lists both diffs return, the edit
list is ordered as LSP requires, and applying it yields the text of the new module (`module_edits_text`). -/
theorem module_diff_text {β : Type} [DecidableEq β] (doc : Doc) (locsI locsT : List (Pos × Pos))
    (hT : locsT ≠ []) (rndI : α → Text) (rndT : β → Text)
    (oldI newI : List α) (oldT newT : List β)
    (hlI : Lay (fun i => off doc (locStart locsI i)) (fun i => off doc (locStop locsI i)))
    (hlT : Lay (fun i => off doc (locStart locsT i)) (fun i => off doc (locStop locsT i)))
    (hsep : bnd (fun i => off doc (locStart locsI i)) (fun i => off doc (locStop locsI i)) oldI.length ≤
      off doc (locStart locsT 0)) :
    ∃ sI sT trI trT, diff oldI newI = some sI ∧ diff oldT newT = some sT ∧
      OrderedEdits ((moduleEdits locsI locsT rndI rndT sI sT).map
        (fun ed => (off doc ed.start, off doc ed.stop, ed.text))) ∧
      applyEdits doc (moduleEdits locsI locsT rndI rndT sI sT) =
        dslice (flatten doc) 0 (off doc (locStart locsI 0)) ++
          flatChunks (expChunksBody (flatten doc) (fun i => off doc (locStart locsI i))
            (fun i => off doc (locStop locsI i)) rndI oldI newI 0 0 trI) ++
          dslice (flatten doc)
            (bnd (fun i => off doc (locStart locsI i)) (fun i => off doc (locStop locsI i)) oldI.length)
            (off doc (locStart locsT 0)) ++
          flatChunks (expChunks (flatten doc) (fun i => off doc (locStart locsT i))
            (fun i => off doc (locStop locsT i)) rndT oldT newT 0 0 trT) ∧
      (expChunksBody (flatten doc) (fun i => off doc (locStart locsI i))
        (fun i => off doc (locStop locsI i)) rndI oldI newI 0 0 trI).filterMap (·.1) = newI ∧
      (expChunks (flatten doc) (fun i => off doc (locStart locsT i))
        (fun i => off doc (locStop locsT i)) rndT oldT newT 0 0 trT).filterMap (·.1) = newT := by
  obtain ⟨trI, htrI⟩ := longestTrace_total oldI newI
  obtain ⟨trT, htrT⟩ := longestTrace_total oldT newT
  have hvI := trace_valid _ oldI newI trI htrI
  have hvT := trace_valid _ oldT newT trT htrT
  have hsep' : bnd (fun i => off doc (locStart locsI i)) (fun i => off doc (locStop locsI i)) oldI.length ≤
      bnd (fun i => off doc (locStart locsT i)) (fun i => off doc (locStop locsT i)) 0 := by
    simpa [bnd] using hsep
  have hmap : (moduleEdits locsI locsT rndI rndT (computeWith oldI newI trI) (computeWith oldT newT trT)).map
      (fun ed => (off doc ed.start, off doc ed.stop, ed.text)) =
      toOffEdits (fun i => off doc (locStart locsI i)) (fun i => off doc (locStop locsI i)) rndI (computeWith oldI newI trI) ++
      toOffEdits (fun i => off doc (locStart locsT i)) (fun i => off doc (locStop locsT i)) rndT (computeWith oldT newT trT) := by
    simp only [moduleEdits, List.map_append, importEdits_off, toplevel_edits_eq locsI locsT hT]
  refine ⟨computeWith oldI newI trI, computeWith oldT newT trT, trI, trT,
    by simp [diff, compute, htrI], by simp [diff, compute, htrT], ?_, ?_⟩
  · rw [hmap]
    exact module_edits_ordered oldI newI trI hvI oldT newT trT hvT _ _ _ _ hlI hlT hsep' rndI rndT
  · have := module_edits_text (flatten doc) oldI newI trI hvI oldT newT trT hvT _ _ _ _ hlI hlT hsep' rndI rndT
    unfold applyEdits
    rw [hmap]
    simpa [bnd] using this

/-- **The insertion-location rule** (`wrapped_list_diff`, ast_differ.rs:327-338): an insertion behind old
element `p` is the *zero-width* range at that element's end position — both ends are the element's end
`(line, column)`; an insertion before everything is the zero-width range at the first element's start.
`text_lift` needs exactly this: the chunk sequence keeps the whole of every untouched old element,
which a range starting on an earlier line of a multi-line element would cut. -/
theorem insert_range_is_element_end (locs : List (Pos × Pos)) (p : Int)
    (items : List α) (ld : Bool) :
    (0 ≤ p → rangeOfPos locs (p, Change.insert items ld) = (locStop locs p.toNat, locStop locs p.toNat)) ∧
    (p < 0 → rangeOfPos locs (p, Change.insert items ld) = (locStart locs 0, locStart locs 0)) := by
  constructor
  · intro h; have : ¬ p < 0 := by omega
    simp [rangeOfPos, this]
  · intro h; simp [rangeOfPos, h]

/-- Why line *and* column: for a two-line element `ab⏎cd` at `(0,0)–(1,2)`, inserting `X` behind it at the
rule's range `(1,2)–(1,2)` keeps the element; a range that only moved the column, `(0,2)–(1,2)`, deletes
its second line. -/
example : applyEdits [[97, 98], [99, 100]] [⟨(1, 2), (1, 2), [88]⟩] = [97, 98, 10, 99, 100, 88] := by decide
example : applyEdits [[97, 98], [99, 100]] [⟨(0, 2), (1, 2), [88]⟩] = [97, 98, 88] := by decide

end SamVerif.Differ
