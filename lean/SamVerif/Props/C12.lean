import SamVerif.Lemmas.ErrorSet
/-!
# C12 — compilation results depend only on the sources (order / schedule / hash-seed invariance)

Property theorems over `Model/ErrorSet.lean`.  The compiler's result may depend on hash seeds and
schedules only through (a) the *order* in which a `HashMap` is enumerated / parallel results are
merged, and (b) the *numbers* handed out along such an enumeration (module-reference ids, heap
string ids, synthetic function / type / temp numbers).  Every theorem below is a statement "for
every permutation of the enumeration …" or "for every id assignment …".

Full-strength statements that the unchanged code falsifies are kept as comments with a proved
`…_counterexample` and a `…_partial` theorem.
-/
namespace SamVerif.ErrorSet

section Generic
variable {α : Type} {lt : α → α → Bool}

/-- **errorset_merge_ac** (samlang-checker/src/lib.rs:39-52, samlang-errors/src/lib.rs:892-894).
Merging the per-module error sets in *any* order (any rayon schedule, any `HashMap` iteration
order of the modules) yields the same ordered set. -/
theorem errorset_merge_ac (h : StrictTotal lt) (ls ls' : List (List α)) (hp : ls'.Perm ls) :
    mergeAll lt ls' = mergeAll lt ls := by
  apply sorted_ext _ _ h (mergeAll_sorted ls' h) (mergeAll_sorted ls h)
  intro x
  rw [mem_mergeAll ls' x h, mem_mergeAll ls x h]
  constructor
  · rintro ⟨l, hl, hx⟩; exact ⟨l, hp.mem_iff.mp hl, hx⟩
  · rintro ⟨l, hl, hx⟩; exact ⟨l, hp.mem_iff.mpr hl, hx⟩

example : mergeAll lexLt [[[1], [3]], [[2]]] = mergeAll lexLt [[[2]], [[1], [3]]] := by decide

/-- Association: merging two partial results equals merging everything one by one
(any tree-shaped reduction of the parallel results gives the same set). -/
theorem errorset_merge_assoc (h : StrictTotal lt) (ls₁ ls₂ : List (List α)) :
    merge lt (mergeAll lt ls₁) (mergeAll lt ls₂) = mergeAll lt (ls₁ ++ ls₂) := by
  apply sorted_ext _ _ h (merge_sorted _ _ h (mergeAll_sorted ls₁ h)) (mergeAll_sorted _ h)
  intro x
  rw [mem_merge _ _ x h, mem_mergeAll ls₁ x h, mem_mergeAll ls₂ x h, mem_mergeAll _ x h]
  simp only [List.mem_append]
  constructor
  · rintro (⟨l, hl, hx⟩ | ⟨l, hl, hx⟩)
    · exact ⟨l, .inl hl, hx⟩
    · exact ⟨l, .inr hl, hx⟩
  · rintro ⟨l, hl | hl, hx⟩
    · exact .inl ⟨l, hl, hx⟩
    · exact .inr ⟨l, hl, hx⟩

example : merge lexLt (mergeAll lexLt [[[5]]]) (mergeAll lexLt [[[1]], [[5]]]) = [[1], [5]] := by decide

/-- The merged set only depends on *which* errors were reported (not on how they were grouped,
ordered or duplicated): it is the canonical sorted, duplicate-free list of the union. -/
theorem errorset_extensional (h : StrictTotal lt) (ls ls' : List (List α))
    (hm : ∀ x, (∃ l ∈ ls, x ∈ l) ↔ (∃ l ∈ ls', x ∈ l)) : mergeAll lt ls = mergeAll lt ls' := by
  apply sorted_ext _ _ h (mergeAll_sorted ls h) (mergeAll_sorted ls' h)
  intro x
  rw [mem_mergeAll ls x h, mem_mergeAll ls' x h]
  exact hm x

example : mergeAll lexLt [[[1], [1]], [[2]]] = mergeAll lexLt [[[2], [1]]] := by decide

/-- The order of two orders that agree on the reported errors gives the same sequence
(used for `OrdStable` below). -/
theorem mergeAll_order_agree {lt' : α → α → Bool} (h : StrictTotal lt) (h' : StrictTotal lt')
    (ls : List (List α))
    (agree : ∀ a b, (∃ l ∈ ls, a ∈ l) → (∃ l ∈ ls, b ∈ l) → lt a b = true → lt' a b = true) :
    mergeAll lt ls = mergeAll lt' ls := by
  apply sorted_ext (lt := lt') _ _ h' _ (mergeAll_sorted ls h')
  · intro x
    rw [mem_mergeAll ls x h, mem_mergeAll ls x h']
  · apply sorted_transfer _ (mergeAll_sorted ls h)
    intro a ha b hb
    exact agree a b ((mem_mergeAll ls a h).mp ha) ((mem_mergeAll ls b h).mp hb)

/-- **sorted_first_perm_invariant** (samlang-checker/src/pattern_matching.rs:354): the
counterexample search sorts the root-constructor map before its first-match-wins loop, therefore
its answer is the same for every iteration order of that `HashMap`. -/
theorem sorted_first_perm_invariant {β : Type} (h : StrictTotal lt) (f : α → Option β)
    (entries entries' : List α) (hp : entries'.Perm entries) :
    sortedFirst lt f entries' = sortedFirst lt f entries := by
  unfold sortedFirst
  congr 1
  apply sorted_ext _ _ h (ofList_sorted _ h) (ofList_sorted _ h)
  intro x
  rw [mem_ofList _ x h, mem_ofList _ x h]
  exact hp.mem_iff

example : sortedFirst lexLt (fun k => if k = [2] then none else some k) [[3], [2], [1]] = some [1] := by
  decide

/-- **min_perm_invariant** (pattern_matching.rs:343 `incomplete_names.into_iter().min()`). -/
theorem min_perm_invariant (h : StrictTotal lt) (entries entries' : List α)
    (hp : entries'.Perm entries) : minOf lt entries' = minOf lt entries := by
  unfold minOf
  congr 1
  apply sorted_ext _ _ h (ofList_sorted _ h) (ofList_sorted _ h)
  intro x
  rw [mem_ofList _ x h, mem_ofList _ x h]
  exact hp.mem_iff

example : minOf lexLt [[3], [1], [2]] = some [1] := by decide

/-- **sorted_enumeration_perm_invariant**: enumerating a `HashMap` through a sort by key (module
name order: `compile_sources` lib.rs:45 since /repo 06eeb5e, `compile_sources_with_generics_preserved`
hir_lowering.rs since /repo 15327a3, the CLI directory walk) yields the same sequence for every
iteration order of the map. -/
theorem sorted_enumeration_perm_invariant (h : StrictTotal lt) (entries entries' : List α)
    (hp : entries'.Perm entries) : ofList lt entries' = ofList lt entries := by
  apply sorted_ext _ _ h (ofList_sorted _ h) (ofList_sorted _ h)
  intro x
  rw [mem_ofList _ x h, mem_ofList _ x h]
  exact hp.mem_iff

end Generic

/-- module names / handles as numbers ordered by `<` -/
def natLt (a b : Nat) : Bool := decide (a < b)

theorem natLt_strictTotal : StrictTotal natLt :=
  ⟨fun a => by simp [natLt], fun a b c h1 h2 => by simp [natLt] at *; omega,
   fun a b h1 h2 => by simp [natLt] at *; omega⟩

example : ofList natLt [3, 1, 2] = ofList natLt [2, 3, 1] := by decide

/-- Without the sort the loop is *not* invariant — this is exactly the shape of a fault that drops
`sorted_by_key` (or of any first-match loop over a raw `HashMap`): full statement
`∀ f xs ys, ys.Perm xs → firstSome f ys = firstSome f xs` is false. -/
theorem unsorted_first_counterexample :
    ∃ (f : Nat → Option Nat) (xs ys : List Nat), ys.Perm xs ∧ firstSome f ys ≠ firstSome f xs :=
  ⟨some, [1, 2], [2, 1], List.Perm.swap 1 2 [], by decide⟩

/-! ## Rendered diagnostics -/

/-- **diagnostics_schedule_independent**: for a fixed assignment of ids to handles, the rendered
sequence of errors does not depend on the order in which the per-module results arrive. -/
theorem diagnostics_schedule_independent (ids : Nat → Nat) (hi : Inj ids)
    (perModule perModule' : List (List Err)) (hp : perModule'.Perm perModule) :
    render ids perModule' = render ids perModule :=
  errorset_merge_ac (errLt_strictTotal ids hi) _ _ (hp.map _)

def e1 : Err := ⟨0, 1, 31, 1, 35, 19, []⟩
def e2 : Err := ⟨1, 1, 32, 1, 33, 19, []⟩
example : render id [[e1], [e2]] = render id [[e2], [e1]] := by decide

/-- The order in which the errors *inside* one module are reported is irrelevant as well. -/
theorem diagnostics_report_order_independent (ids : Nat → Nat) (hi : Inj ids)
    (perModule perModule' : List (List Err))
    (hm : ∀ x, (∃ l ∈ perModule, x ∈ l) ↔ (∃ l ∈ perModule', x ∈ l)) :
    render ids perModule = render ids perModule' := by
  have hs := errLt_strictTotal ids hi
  have aux : ∀ (pm : List (List Err)) (x : Err),
      (∃ l ∈ pm.map (ofList (errLt ids)), x ∈ l) ↔ ∃ l ∈ pm, x ∈ l := by
    intro pm x
    constructor
    · rintro ⟨l, hl, hx⟩
      obtain ⟨m, hm, rfl⟩ := List.mem_map.mp hl
      exact ⟨m, hm, (mem_ofList _ x hs).mp hx⟩
    · rintro ⟨m, hm, hx⟩
      exact ⟨_, List.mem_map_of_mem hm, (mem_ofList _ x hs).mpr hx⟩
  apply errorset_extensional hs
  intro x
  rw [aux, aux]
  exact hm x

/- Full-strength statement (what the property demands), **false** on the unchanged code:
   `∀ ids ids', Inj ids → Inj ids' → render ids pm = render ids' pm`
   — the ids are allocation numbers: module references are numbered in enumeration order of the
   modules, heap strings (> 15 bytes) in parse order, which follows the hash seed. -/

/-- **diagnostics_depend_on_ids_counterexample** (finding C12-F1, fixed by /repo cc1fd59 for the
report of `compile_sources`, which is now rendered in module-name order — see
`diagnostics_by_name_independent_of_module_ids` in Props/C12g.lean; the statement below remains
true of `ErrorSet::pretty_print_error_messages`, whose order a golden test pins): two modules with
one error each; numbering the modules in the other order swaps the two rendered blocks. -/
theorem diagnostics_depend_on_ids_counterexample :
    ∃ (ids ids' : Nat → Nat) (pm : List (List Err)), Inj ids ∧ Inj ids' ∧
      render ids pm ≠ render ids' pm :=
  ⟨id, fun n => if n = 0 then 1 else if n = 1 then 0 else n, [[e1], [e2]],
   fun _ _ h => h,
   by intro a b; simp only; split <;> split <;> (try split) <;> (try split) <;> omega,
   by decide⟩

/-- Same for heap string ids (finding C12-F2, fixed by /repo 06eeb5e: the ids are now handed out
along the name-sorted enumeration, `sorted_numbering_perm_invariant`; the statement below is kept
because it is why an *unsorted* parse order leaks): two errors at the same place that differ in a
heap-allocated name are rendered in allocation order of the two names. -/
def e3 : Err := ⟨0, 2, 3, 2, 9, 3, [.heap 10]⟩
def e4 : Err := ⟨0, 2, 3, 2, 9, 3, [.heap 11]⟩
theorem diagnostics_depend_on_heap_ids_counterexample :
    ∃ (ids ids' : Nat → Nat), Inj ids ∧ Inj ids' ∧ ids 0 = ids' 0 ∧
      render ids [[e3, e4]] ≠ render ids' [[e3, e4]] :=
  ⟨id, fun n => if n = 10 then 11 else if n = 11 then 10 else n,
   fun _ _ h => h,
   by intro a b; simp only; split <;> split <;> (try split) <;> (try split) <;> omega,
   by decide, by decide⟩

/-- Ids handed out along an enumeration: the id of handle `h` is its position. -/
def idsOf (enumeration : List Nat) (h : Nat) : Nat := (numbering enumeration h).getD enumeration.length

/-- **sorted_numbering_perm_invariant** (fix /repo 06eeb5e for finding C12-F2, /repo 15327a3):
numbers handed out along the *name-sorted* enumeration of the modules (heap string ids during
parsing, synthetic function / type / string-global numbers and specialisation roots during
lowering) do not depend on the iteration order of the `HashMap`. -/
theorem sorted_numbering_perm_invariant (items items' : List Nat) (hp : items'.Perm items) (x : Nat) :
    numbering (ofList natLt items') x = numbering (ofList natLt items) x := by
  rw [sorted_enumeration_perm_invariant natLt_strictTotal items items' hp]

/-- **diagnostics_hash_seed_independent** (full strength for the hash-seed part of the property,
after /repo 06eeb5e): with ids handed out along the name-sorted enumeration, the rendered report is
the same for every iteration order of the source map and every arrival order of the per-module
results. -/
theorem diagnostics_hash_seed_independent (handles handles' : List Nat) (hp : handles'.Perm handles)
    (pm pm' : List (List Err)) (hpm : pm'.Perm pm)
    (hi : Inj (idsOf (ofList natLt handles))) :
    render (idsOf (ofList natLt handles')) pm' = render (idsOf (ofList natLt handles)) pm := by
  rw [sorted_enumeration_perm_invariant natLt_strictTotal handles handles' hp]
  exact diagnostics_schedule_independent _ hi pm pm' hpm

example : render (idsOf (ofList natLt [1, 0])) [[e2], [e1]] = render (idsOf (ofList natLt [0, 1])) [[e1], [e2]] := by
  decide

/-- **diagnostics_ids_partial** (`OrdStable`): if two id assignments order the reported errors
the same way, the rendered sequences are identical. The side condition is decidable for concrete
`pm` and holds e.g. when all errors are in one module and no two errors at the same location
differ first in a heap string. -/
theorem diagnostics_ids_partial (ids ids' : Nat → Nat) (hi : Inj ids) (hi' : Inj ids')
    (pm : List (List Err))
    (stable : ∀ a b, (∃ l ∈ pm, a ∈ l) → (∃ l ∈ pm, b ∈ l) →
      errLt ids a b = true → errLt ids' a b = true) :
    render ids pm = render ids' pm := by
  have hs := errLt_strictTotal ids hi
  have hs' := errLt_strictTotal ids' hi'
  unfold render
  -- first replace the per-module sets, then the merged set
  have hper : pm.map (ofList (errLt ids)) = pm.map (ofList (errLt ids')) := by
    apply List.map_congr_left
    intro l hl
    apply sorted_ext (lt := errLt ids') _ _ hs' _ (ofList_sorted _ hs')
    · intro x; rw [mem_ofList _ x hs, mem_ofList _ x hs']
    · apply sorted_transfer _ (ofList_sorted _ hs)
      intro a ha b hb
      exact stable a b ⟨l, hl, (mem_ofList _ a hs).mp ha⟩ ⟨l, hl, (mem_ofList _ b hs).mp hb⟩
  rw [hper]
  apply mergeAll_order_agree hs hs'
  intro a b ha hb
  obtain ⟨l, hl, ha⟩ := ha
  obtain ⟨l', hl', hb⟩ := hb
  obtain ⟨m, hm, rfl⟩ := List.mem_map.mp hl
  obtain ⟨m', hm', rfl⟩ := List.mem_map.mp hl'
  exact stable a b ⟨m, hm, (mem_ofList _ a hs').mp ha⟩ ⟨m', hm', (mem_ofList _ b hs').mp hb⟩

example : render id [[e1, ⟨0, 3, 1, 3, 2, 3, [.inl [97]]⟩]] =
    render (fun n => n + 5) [[e1, ⟨0, 3, 1, 3, 2, 3, [.inl [97]]⟩]] := by decide

/-! ## Closure context layout, numbering -/

theorem ctxIndex_lt (c : List (Nat × Int)) (x i : Nat) (h : ctxIndex c x = some i) :
    i < c.length := by
  induction c generalizing i with
  | nil => simp [ctxIndex] at h
  | cons p ps ih =>
    obtain ⟨y, v⟩ := p
    simp only [ctxIndex] at h
    split at h
    · cases h; simp
    · cases h2 : ctxIndex ps x with
      | none => simp [h2] at h
      | some j =>
        simp [h2] at h
        have := ih j h2
        simp only [List.length_cons]
        omega

/-- Reading a captured variable through the context struct returns the value it was captured
with (first binding of the name), i.e. the lookup in the capture map. -/
theorem ctxRead_eq_lookup (c : List (Nat × Int)) (x : Nat) : ctxRead c x = ctxLookup c x := by
  induction c with
  | nil => simp [ctxRead, ctxIndex, ctxLookup]
  | cons p ps ih =>
    obtain ⟨y, v⟩ := p
    simp only [ctxRead, ctxIndex, ctxLayout, ctxLookup] at ih ⊢
    by_cases hxy : x = y
    · subst hxy; simp
    · simp only [hxy, ↓reduceIte, List.map_cons]
      cases h2 : ctxIndex ps x with
      | none => simp [h2] at ih ⊢; exact ih
      | some j => simp [h2] at ih ⊢; exact ih

theorem ctxLookup_iff (l : List (Nat × Int)) (hl : (l.map (·.1)).Nodup) (x : Nat) (v : Int) :
    ctxLookup l x = some v ↔ (x, v) ∈ l := by
  induction l with
  | nil => simp [ctxLookup]
  | cons p ps ih =>
    obtain ⟨y, w⟩ := p
    simp only [List.map_cons, List.nodup_cons] at hl
    simp only [ctxLookup, List.mem_cons, Prod.mk.injEq]
    by_cases hxy : x = y
    · subst hxy
      simp only [↓reduceIte, Option.some.injEq, true_and]
      constructor
      · intro h; exact .inl h.symm
      · rintro (h | h)
        · exact h.symm
        · exact absurd (List.mem_map_of_mem (f := (·.1)) h) hl.1
    · simp only [hxy, ↓reduceIte, false_and, false_or]
      exact ih hl.2

/-- **ctx_layout_perm_invariant** (samlang-compiler/src/hir_lowering.rs:1067-1074): the captured
variables are laid out in `HashMap` order; whatever that order, the lambda body reads back for
every variable the value it was captured with. -/
theorem ctx_layout_perm_invariant (c c' : List (Nat × Int)) (hp : c'.Perm c)
    (hn : (c.map (·.1)).Nodup) (x : Nat) : ctxRead c' x = ctxRead c x := by
  rw [ctxRead_eq_lookup, ctxRead_eq_lookup]
  have hn' : (c'.map (·.1)).Nodup := (hp.map _).nodup_iff.mpr hn
  cases h1 : ctxLookup c x with
  | some v =>
    exact (ctxLookup_iff c' hn' x v).mpr (hp.mem_iff.mpr ((ctxLookup_iff c hn x v).mp h1))
  | none =>
    cases h2 : ctxLookup c' x with
    | none => rfl
    | some v =>
      have := (ctxLookup_iff c hn x v).mpr (hp.mem_iff.mp ((ctxLookup_iff c' hn' x v).mp h2))
      rw [h1] at this
      cases this

example : ctxRead [(1, 10), (2, 20)] 2 = ctxRead [(2, 20), (1, 10)] 2 := by decide

theorem numbering_some_iff (items : List Nat) (x : Nat) :
    (numbering items x).isSome ↔ x ∈ items := by
  induction items with
  | nil => simp [numbering]
  | cons y ys ih =>
    simp only [numbering, List.mem_cons]
    by_cases h : x = y
    · simp [h]
    · simp [h, ih]

theorem numbering_inj (items : List Nat) (x y : Nat) (n : Nat)
    (hx : numbering items x = some n) (hy : numbering items y = some n) : x = y := by
  induction items generalizing n with
  | nil => simp [numbering] at hx
  | cons z zs ih =>
    simp only [numbering] at hx hy
    by_cases h1 : x = z <;> by_cases h2 : y = z
    · rw [h1, h2]
    · simp only [h1, ↓reduceIte, Option.some.injEq, h2] at hx hy
      subst hx
      cases h3 : numbering zs y <;> simp [h3] at hy
    · simp only [h1, ↓reduceIte, Option.some.injEq, h2] at hx hy
      subst hy
      cases h3 : numbering zs x <;> simp [h3] at hx
    · simp only [h1, ↓reduceIte, h2] at hx hy
      cases h3 : numbering zs x with
      | none => simp [h3] at hx
      | some a =>
        cases h4 : numbering zs y with
        | none => simp [h4] at hy
        | some b =>
          simp [h3] at hx; simp [h4] at hy
          exact ih a h3 (by rw [h4]; congr 1; omega)

/-- **numbering_is_renaming** (hir_lowering.rs:113-123, 1281-1316; hir_string_manager; type
synthesizer; `TempPStrCounter`): numbers handed out along two enumerations of the same items are
related by a *bijective renaming*: both numberings are total and injective on the items, so
`n ↦ n'` (the numbers of the same item) is a bijection between the two sets of numbers. -/
theorem numbering_is_renaming (items items' : List Nat) (hp : items'.Perm items) (x y : Nat)
    (hx : x ∈ items) (_hy : y ∈ items) :
    (numbering items x).isSome ∧ (numbering items' x).isSome ∧
    (numbering items x = numbering items y ↔ numbering items' x = numbering items' y) := by
  have h1 := (numbering_some_iff items x).mpr hx
  have h2 := (numbering_some_iff items' x).mpr (hp.mem_iff.mpr hx)
  refine ⟨h1, h2, ?_⟩
  obtain ⟨n, hn⟩ := Option.isSome_iff_exists.mp h1
  obtain ⟨m, hm⟩ := Option.isSome_iff_exists.mp h2
  constructor
  · intro h
    rw [numbering_inj items x y n hn (h ▸ hn)]
  · intro h
    rw [numbering_inj items' x y m hm (h ▸ hm)]

example : numbering [7, 8, 9] 9 = some 2 ∧ numbering [9, 7, 8] 9 = some 0 := by decide

end SamVerif.ErrorSet
