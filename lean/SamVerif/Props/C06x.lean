import SamVerif.Model.CompileGate
import SamVerif.Props.C07
/-!
# C06 (cross-property) — the composed statements that need other properties' models

This is the *only* C06 file that imports another property's model or theorems:

* `Model/CompileGate.lean` (builder C03's model of the decision `compile_sources` takes before it
  lowers anything; shared, not duplicated). `Props/C03.lean` proves the iff `compile_gate` over it;
  that file is deliberately *not* imported (it pulls in C04's theorems), the direction C06 needs is
  proved here directly over the same model;
* `Model/Useful.lean` + `Useful.checker_match_decided` (builder C07): `incomplete_counterexample`
  always answers, and answers `none` iff the arms cover every value of the matched type.

Their ties are run by the checks of C03 (`gate` stream) and C07 (`useful`/`match` streams); C06's
own mutant oracle observes the composed fact on whole programs (mutant kind non-exhaustive-match:
error located in the mutated module and `compile_sources = Err`).
-/
namespace SamVerif.C06x
open SamVerif SamVerif.Gate SamVerif.Useful

/-- **Static error ⇒ no code** (property C06's second half), for every compile input: as soon as
the parser or the checker has reported at least one error, `compile_sources` does not reach the
back end — it returns `Err` (rejected) or `Err("Invalid entry point")`. -/
theorem static_error_never_compiled (i : Input) (h : 0 < i.parseErrors ∨ 0 < i.checkErrors) :
    compileSources i = .rejected ∨ compileSources i = .invalidEntry := by
  unfold compileSources
  split
  · exact Or.inr rfl
  · have hpos : i.parseErrors + i.checkErrors > 0 := by omega
    left
    simp [hpos]

example : compileSources ⟨[1], [1], 0, 1⟩ = .rejected := by decide

/-- What `check_match` adds to the error set for its arms (main_checker.rs:998-1002):
one `NonExhaustiveMatch` error, located at the match expression, iff `incomplete_counterexample`
returns a counterexample. -/
def matchErrors (cx : Cx) (arms : List Pat) : Nat :=
  match incompleteCounterexample cx arms with
  | some (some _) => 1
  | _ => 0

/-- **Non-exhaustive match ⇒ error ⇒ no code.** For well-formed source arms over a matched type
`t`: if some value of type `t` is matched by no arm, the checker reports an error for this match,
and every compile run whose checker errors include it is rejected (no code). -/
theorem nonexhaustive_match_never_compiled (sig : Sig) (cx : Cx) (hcx : CxOk sig cx)
    (hnd : SigNodup sig) (hinh : Inhabited' sig) (srcArms : List SPat) (t : Nat)
    (hwf : ∀ p ∈ srcArms, swf sig true p t = true)
    (hne : ∃ v, hasTy sig v t = true ∧ ∀ p ∈ srcArms, smatch sig p t v = false) :
    matchErrors cx (srcArms.map (fun p => (normalize sig true p (some t)).pat)) = 1 ∧
    ∀ (i : Input),
      matchErrors cx (srcArms.map (fun p => (normalize sig true p (some t)).pat)) ≤ i.checkErrors →
      compileSources i = .rejected ∨ compileSources i = .invalidEntry := by
  obtain ⟨res, hres, hnone, _⟩ := checker_match_decided sig cx hcx hnd hinh srcArms t hwf
  have hsome : ∃ d, res = some d := by
    cases res with
    | some d => exact ⟨d, rfl⟩
    | none =>
      exfalso
      obtain ⟨v, hv, hno⟩ := hne
      obtain ⟨p, hp, hm⟩ := (hnone.1 rfl) v hv
      rw [hno p hp] at hm
      exact absurd hm (by decide)
  obtain ⟨d, rfl⟩ := hsome
  have h1 : matchErrors cx (srcArms.map (fun p => (normalize sig true p (some t)).pat)) = 1 := by
    simp only [matchErrors]
    rw [hres]
  refine ⟨h1, fun i hi => static_error_never_compiled i (Or.inr ?_)⟩
  omega

/-- …and an exhaustive match contributes no error (the gate does not reject correct matches). -/
theorem exhaustive_match_no_error (sig : Sig) (cx : Cx) (hcx : CxOk sig cx)
    (hnd : SigNodup sig) (hinh : Inhabited' sig) (srcArms : List SPat) (t : Nat)
    (hwf : ∀ p ∈ srcArms, swf sig true p t = true)
    (hex : ∀ v, hasTy sig v t = true → ∃ p ∈ srcArms, smatch sig p t v = true) :
    matchErrors cx (srcArms.map (fun p => (normalize sig true p (some t)).pat)) = 0 := by
  obtain ⟨res, hres, hnone, _⟩ := checker_match_decided sig cx hcx hnd hinh srcArms t hwf
  have : res = none := hnone.2 hex
  subst this
  simp only [matchErrors]
  rw [hres]

end SamVerif.C06x
