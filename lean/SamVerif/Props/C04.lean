import SamVerif.Lemmas.Backends
/-!
# C04 — the TypeScript and the WebAssembly back end produce programs with identical behaviour

Property theorems only (helpers: `Lemmas/Backends.lean`; model: `Model/Backends.lean` over the
operator table `Generated/TsOps.lean` that `/verif/extract/c04_tsops.py` regenerates from `/repo`
on every run).  Where the unchanged code falsifies the full-strength statement, the statement is
kept as a comment, its negation is proved from a concrete witness (`…_counterexample`), and a
`…_partial` / `…_iff` theorem states exactly where agreement holds.
-/
namespace SamVerif.Backends

/-! ## 1. Operators -/

/- Full-strength statement (FALSE on the unchanged code, see `bin_agree_counterexample`):
   theorem bin_agree (op : Op) (a b : Int) (ha : InRange a) (hb : InRange b)
       (hex : ¬ Excluded op a b) : Agree (tsBin op a b) (wasmBin op a b)                         -/

/-- `-7 / 2`: TypeScript `Math.floor(-3.5) = -4`, WebAssembly `i32.div_s = -3` (finding C04-F1). -/
theorem bin_agree_counterexample :
    ¬ ∀ (op : Op) (a b : Int), InRange a → InRange b → ¬ Excluded op a b →
        Agree (tsBin op a b) (wasmBin op a b) := by
  intro h
  exact absurd (h .DIV (-7) 2 (by decide) (by decide) (by decide)) (by decide)

/-- **Exact characterisation for `/`**: outside the excluded runs the two back ends agree on
`a / b` iff the quotient is exact or both operands have the same sign. -/
theorem div_agree_iff (a b : Int) (hex : ¬ Excluded .DIV a b) :
    Agree (tsBin .DIV a b) (wasmBin .DIV a b) ↔
      (a % b = 0 ∨ (0 < a ∧ 0 < b) ∨ (a < 0 ∧ b < 0)) := by
  simp only [Excluded, not_or] at hex
  obtain ⟨hb0, hmin⟩ := hex
  simp only [tsBin, wasmBin, tsForm, wasmOpcode, evalJs, evalWasm, hb0, if_false, hmin]
  by_cases h0 : a % b = 0
  · simp only [h0, if_true, applyWrap, true_or, iff_true]
    rw [agree_int_iff]
    have hd : b ∣ a := Int.dvd_iff_emod_eq_zero.mpr h0
    rw [Int.tdiv_eq_ediv]; simp [hd]
  · simp only [h0, if_false, applyWrap]
    rw [agree_int_iff, fdiv_eq_tdiv_iff a b hb0]
    simp only [h0]

example : Agree (tsBin .DIV 7 2) (wasmBin .DIV 7 2) := by decide
example : Agree (tsBin .DIV (-8) 2) (wasmBin .DIV (-8) 2) := by decide
example : ¬ Agree (tsBin .DIV 7 (-2)) (wasmBin .DIV 7 (-2)) := by decide

/-- `>>>` (never produced from source programs: no source operator lowers to `SHR`): TypeScript
yields the unsigned value, WebAssembly the same bits as a signed `i32`. -/
theorem shr_disagree_witness : ¬ Agree (tsBin .SHR (-1) 0) (wasmBin .SHR (-1) 0) := by decide

/-- Side condition under which every operator agrees. -/
def BinSide (op : Op) (a b : Int) : Prop :=
  (op = .DIV → (a % b = 0 ∨ (0 < a ∧ 0 < b) ∨ (a < 0 ∧ b < 0))) ∧ (op = .SHR → 0 ≤ a)

instance (op : Op) (a b : Int) : Decidable (BinSide op a b) := by unfold BinSide; infer_instance

/-- **All 16 operators, all int32 operands**: outside the excluded runs (overflow, `/0`) the value
the emitted TypeScript computes equals the value the emitted WebAssembly computes — for `/` under
the (exact) condition of `div_agree_iff`, for `>>>` for a non-negative left operand. -/
theorem bin_agree_partial (op : Op) (a b : Int) (ha : InRange a) (_hb : InRange b)
    (hex : ¬ Excluded op a b) (hside : BinSide op a b) :
    Agree (tsBin op a b) (wasmBin op a b) := by
  cases op
  case DIV => exact (div_agree_iff a b hex).mpr (hside.1 rfl)
  case MUL =>
    simp only [Excluded, Classical.not_not] at hex
    simp only [tsBin, wasmBin, tsForm, wasmOpcode, evalJs, evalWasm, applyWrap, wrap32_id hex]
    exact agree_int _
  case PLUS =>
    simp only [Excluded, Classical.not_not] at hex
    simp only [tsBin, wasmBin, tsForm, wasmOpcode, evalJs, evalWasm, applyWrap, wrap32_id hex]
    exact agree_int _
  case MINUS =>
    simp only [Excluded, Classical.not_not] at hex
    simp only [tsBin, wasmBin, tsForm, wasmOpcode, evalJs, evalWasm, applyWrap, wrap32_id hex]
    exact agree_int _
  case MOD =>
    simp only [Excluded] at hex
    simp only [tsBin, wasmBin, tsForm, wasmOpcode, evalJs, evalWasm, applyWrap, hex, if_false]
    exact agree_int _
  case SHR =>
    have h0 : 0 ≤ a := hside.2 rfl
    simp only [tsBin, wasmBin, tsForm, wasmOpcode, evalJs, evalWasm, applyWrap]
    rw [agree_int_iff]
    symm; apply wrap32_id
    have hu : toU32 a = a := by unfold toU32; unfold InRange at ha; omega
    rw [hu]
    have hp : (0 : Int) < 2 ^ (toU32 b % 32).toNat := Int.pow_pos (by decide)
    have h1 : a / 2 ^ (toU32 b % 32).toNat ≤ a := Int.ediv_le_self _ h0
    have h2 : 0 ≤ a / 2 ^ (toU32 b % 32).toNat := Int.ediv_nonneg h0 (Int.le_of_lt hp)
    unfold InRange at ha ⊢; omega
  all_goals
    simp only [tsBin, wasmBin, tsForm, wasmOpcode, evalJs, evalWasm, applyWrap]
    exact agree_int _

example : BinSide .DIV 9 4 ∧ ¬ Excluded .DIV 9 4 := by decide
example : BinSide .MUL (-46341) 46340 ∧ ¬ Excluded .MUL (-46341) 46340 := by decide

/-- Comparison results are always 0/1 on both sides (no exclusions needed). -/
theorem cmp_agree (op : Op) (hop : op = .LT ∨ op = .LE ∨ op = .GT ∨ op = .GE ∨ op = .EQ ∨ op = .NE)
    (a b : Int) : Agree (tsBin op a b) (wasmBin op a b) := by
  rcases hop with h | h | h | h | h | h <;> subst h <;>
    simp only [tsBin, wasmBin, tsForm, wasmOpcode, evalJs, evalWasm, applyWrap] <;> exact agree_int _

/-! ## 2. `int` elements of a `Vec` travel through `ref.i31` -/

/- Full-strength statement (FALSE): theorem i31_roundtrip (n) (h : InRange n) : i31wrap n = n -/

/-- `Vec.of(2000000000).get(0)`: WebAssembly returns `-147483648` (finding C04-F5). -/
theorem i31_roundtrip_counterexample : ¬ ∀ n : Int, InRange n → i31wrap n = n := by
  intro h; exact absurd (h 2000000000 (by decide)) (by decide)

/-- exactly the 31-bit values survive the boxing -/
theorem i31_roundtrip_iff (n : Int) : i31wrap n = n ↔ InI31 n := by
  unfold i31wrap InI31; omega

theorem i31_roundtrip_partial (n : Int) (h : InI31 n) : i31wrap n = n := (i31_roundtrip_iff n).mpr h

example : InI31 1073741823 ∧ InI31 (-1073741824) ∧ ¬ InI31 1073741824 := by decide

/-! ## 3. String constants -/

/- Full-strength statement (still FALSE on the code after fixes 0e855e5 and 8056d1e: C04-F2):
   theorem strconst_agree (raw : Text) (h : lexAccepts raw = true) :
       tsDecode (content raw) = some (wasmDecode (content raw))                                   -/

/-- `"a\nb"`: the TypeScript template literal cooks the escape into a line feed, the WebAssembly
data segment keeps backslash + `n` (finding C04-F2, open). -/
theorem strconst_agree_counterexample :
    ¬ ∀ raw : Text, lexAccepts raw = true → tsDecode (content raw) = some (wasmDecode (content raw)) := by
  intro h
  have h1 := h [97, 92, 110, 98] (by decide)
  have h2 : wasmDecode (content [97, 92, 110, 98]) = [97, 92, 110, 98] := by
    simp [wasmDecode, content, unescapeQuotes, utf8, byteToU8, utf8Decode, utf16]
  rw [h2] at h1
  simp [tsDecode, tsEscape, tsCook, content, unescapeQuotes, utf16] at h1

/- Historical note: before fix 8056d1e `"é"` was a second witness (bytes read back one UTF-16 unit
per sign-extended byte, C04-F4) and before fix 0e855e5 a back quote / `${` a third one (C04-F3);
both are now inside `strconst_agree_partial`. -/

/-- Unicode scalar value -/
def Scalar (v : Nat) : Prop := v < 1114112 ∧ ¬ (55296 ≤ v ∧ v < 57344)

instance (v : Nat) : Decidable (Scalar v) := by unfold Scalar; infer_instance

/-- any text without backslash and carriage return (back quotes, `$`, `{`, non-ASCII allowed) -/
def CleanText (s : Text) : Prop := ∀ c ∈ s, Scalar c ∧ c ≠ 92 ∧ c ≠ 13

theorem tsCook_plain_cons (c : Nat) (rest : Text) (h1 : c ≠ 92) (h2 : c ≠ 96) (h3 : c ≠ 13)
    (h4 : c = 36 → rest.head? ≠ some 123) :
    tsCook (c :: rest) = (tsCook rest).map (utf16 c ++ ·) := by
  rw [tsCook.eq_def]
  split <;> simp_all

theorem tsCook_escaped (c : Nat) (rest : Text) (hc : c = 96 ∨ c = 36) :
    tsCook (92 :: c :: rest) = (tsCook rest).map (utf16 c ++ ·) := by
  rw [tsCook.eq_def]
  rcases hc with rfl | rfl <;> simp [isDigit]

theorem tsEscape_head (r : Text) (h : (tsEscape r).head? = some 123) : r.head? = some 123 := by
  induction r using tsEscape.induct with
  | case1 => simp [tsEscape] at h
  | case2 r _ => simp [tsEscape] at h
  | case3 r _ => simp [tsEscape] at h
  | case4 c r h1 h2 _ =>
    rw [tsEscape] at h
    · simpa using h
    · exact h1
    · exact h2

/-- the escaped template literal denotes exactly the content's UTF-16 code units -/
theorem tsDecode_clean (s : Text) (h : ∀ c ∈ s, c ≠ 92 ∧ c ≠ 13) :
    tsDecode s = some (s.flatMap utf16) := by
  unfold tsDecode
  induction s using tsEscape.induct with
  | case1 => simp [tsEscape, tsCook]
  | case2 r ih =>
    rw [tsEscape, tsCook_escaped 96 _ (Or.inl rfl), ih (fun c hc => h c (List.mem_cons_of_mem _ hc))]
    simp
  | case3 r ih =>
    rw [tsEscape, tsCook_escaped 36 _ (Or.inr rfl),
      tsCook_plain_cons 123 _ (by decide) (by decide) (by decide) (fun e => absurd e (by decide)),
      ih (fun c hc => h c (List.mem_cons_of_mem _ (List.mem_cons_of_mem _ hc)))]
    simp
  | case4 c r h1 h2 ih =>
    have hc := h c List.mem_cons_self
    rw [tsEscape]
    · rw [tsCook_plain_cons c _ hc.1 (fun e => h1 e) hc.2, ih (fun d hd => h d (List.mem_cons_of_mem _ hd))]
      · simp
      · intro e hh
        have := tsEscape_head r hh
        cases r with
        | nil => simp at this
        | cons d r' => simp at this; subst this; exact h2 r' e rfl
    · exact h1
    · exact h2

theorem byteToU8_id (b : Nat) (h : b < 256) : byteToU8 b = b := by
  unfold byteToU8; split <;> omega

/-- decoding the UTF-8 encoding of a scalar value gives the value back -/
theorem utf8Decode_utf8 (v : Nat) (hv : Scalar v) (rest : List Nat) :
    utf8Decode ((utf8 v).map byteToU8 ++ rest) = v :: utf8Decode rest := by
  unfold Scalar at hv
  unfold utf8
  by_cases h1 : v < 128
  · simp only [h1, if_true, List.map_cons, List.map_nil, byteToU8_id v (by omega), List.singleton_append]
    rw [utf8Decode]; simp [h1]
  · by_cases h2 : v < 2048
    · simp only [h1, h2, if_true, if_false, List.map_cons, List.map_nil, List.cons_append, List.nil_append,
        byteToU8_id (192 + v / 64) (by omega), byteToU8_id (128 + v % 64) (by omega)]
      rw [utf8Decode]
      simp only [List.getD_cons_zero, List.drop_succ_cons, List.drop_zero, isCont]
      rw [if_neg (by omega), if_pos (by simp; omega)]
      rw [List.cons.injEq]; exact ⟨by omega, rfl⟩
    · by_cases h3 : v < 65536
      · simp only [h1, h2, h3, if_true, if_false, List.map_cons, List.map_nil, List.cons_append, List.nil_append,
          byteToU8_id (224 + v / 4096) (by omega), byteToU8_id (128 + v / 64 % 64) (by omega),
          byteToU8_id (128 + v % 64) (by omega)]
        rw [utf8Decode]
        simp only [List.getD_cons_zero, List.getD_cons_succ, List.drop_succ_cons, List.drop_zero, isCont]
        rw [if_neg (by omega), if_neg (by simp; omega), if_pos (by simp; omega)]
        rw [List.cons.injEq]; exact ⟨by omega, rfl⟩
      · simp only [h1, h2, h3, if_false, List.map_cons, List.map_nil, List.cons_append, List.nil_append,
          byteToU8_id (240 + v / 262144) (by omega), byteToU8_id (128 + v / 4096 % 64) (by omega),
          byteToU8_id (128 + v / 64 % 64) (by omega), byteToU8_id (128 + v % 64) (by omega)]
        rw [utf8Decode]
        simp only [List.getD_cons_zero, List.getD_cons_succ, List.drop_succ_cons, List.drop_zero, isCont]
        rw [if_neg (by omega), if_neg (by simp; omega), if_neg (by simp; omega), if_pos (by simp; omega)]
        rw [List.cons.injEq]; exact ⟨by omega, rfl⟩

theorem utf8_roundtrip (s : Text) (h : ∀ c ∈ s, Scalar c) :
    utf8Decode ((s.flatMap utf8).map byteToU8) = s := by
  induction s with
  | nil => simp [utf8Decode]
  | cons c r ih =>
    simp only [List.flatMap_cons, List.map_append]
    rw [utf8Decode_utf8 c (h c List.mem_cons_self), ih (fun d hd => h d (List.mem_cons_of_mem _ hd))]

/-- **String constants**: for every content without backslash and carriage return — back quotes,
`${`, quotes and all of Unicode included — the emitted TypeScript and the emitted WebAssembly (with
its loader) hold the same string. -/
theorem strconst_agree_content (s : Text) (h : CleanText s) : tsDecode s = some (wasmDecode s) := by
  rw [tsDecode_clean s (fun c hc => (h c hc).2)]
  unfold wasmDecode
  rw [utf8_roundtrip s (fun c hc => (h c hc).1)]

example : CleanText [97, 96, 36, 123, 49, 125, 233, 128184] := by
  intro c hc; simp at hc; rcases hc with rfl | rfl | rfl | rfl | rfl | rfl | rfl | rfl <;> decide

/-- a literal as written whose only escape is `\"` and that has no line feed / carriage return -/
def QuoteEscapesOnly : Text → Prop
  | 92 :: 34 :: r => QuoteEscapesOnly r
  | c :: r => Scalar c ∧ c ≠ 92 ∧ c ≠ 34 ∧ c ≠ 10 ∧ c ≠ 13 ∧ QuoteEscapesOnly r
  | [] => True

theorem closesAtEnd_one_quote (r : Text) : closesAtEnd 1 (34 :: r) = closesAtEnd 0 r := by
  simp [closesAtEnd]

/-- **Partial form of `strconst_agree`** on the literal as written: every literal whose only
escape sequence is `\"` (no other backslash, no raw CR) is accepted by the lexer and denotes the
same string in the emitted TypeScript and the emitted WebAssembly. -/
theorem strconst_agree_partial (raw : Text) (h : QuoteEscapesOnly raw) :
    lexAccepts raw = true ∧ tsDecode (content raw) = some (wasmDecode (content raw)) := by
  have key : closesAtEnd 0 raw = true ∧ validEscapes false raw = true ∧ CleanText (content raw) := by
    induction raw using QuoteEscapesOnly.induct with
    | case1 r ih =>
      rw [QuoteEscapesOnly] at h
      obtain ⟨a, b, c⟩ := ih h
      refine ⟨by simp [closesAtEnd, a], by simp [validEscapes, b], ?_⟩
      simp only [content, unescapeQuotes]
      intro d hd
      rcases List.mem_cons.mp hd with rfl | hd
      · decide
      · exact c d hd
    | case2 c r hne ih =>
      rw [QuoteEscapesOnly] at h
      · obtain ⟨hs, h92, h34, h10, h13, hr⟩ := h
        obtain ⟨a, b, cc⟩ := ih hr
        refine ⟨by simp [closesAtEnd, h10, h34, h92, a], by simp [validEscapes, h92, b], ?_⟩
        have hu : unescapeQuotes (c :: r) = c :: unescapeQuotes r := by
          rw [unescapeQuotes]
          intro r' e1 e2; exact h92 e1
        simp only [content, hu]
        intro d hd
        rcases List.mem_cons.mp hd with rfl | hd
        · exact ⟨hs, h92, h13⟩
        · exact cc d hd
      · exact hne
    | case3 => exact ⟨rfl, rfl, by intro d hd; simp [content, unescapeQuotes] at hd⟩
  exact ⟨by unfold lexAccepts; rw [key.1, key.2.1]; rfl, strconst_agree_content _ key.2.2⟩

example : QuoteEscapesOnly [115, 97, 121, 32, 92, 34, 104, 105, 92, 34, 96, 36, 123, 233] := by
  simp [QuoteEscapesOnly]; decide

end SamVerif.Backends
