import SamVerif.Lemmas.Backends
/-!
# C04 — the TypeScript and the WebAssembly back end produce programs with identical behaviour

Property theorems only (helpers: `Lemmas/Backends.lean`; model: `Model/Backends.lean` over the
operator table `Generated/TsOps.lean` that `/verif/extract/c04_tsops.py` regenerates from `/repo`
on every run).  Where the unchanged code falsifies the full-strength statement, the statement is
kept as a comment, its negation is proved from a concrete witness (`…_counterexample`), and a
`…_partial` / `…_iff` theorem states exactly where agreement holds.
-/
namespace SamVerif.Backends

/-! ## 1. Operators -/

/- Full-strength statement (FALSE on the unchanged code, see `bin_agree_counterexample`):
   theorem bin_agree (op : Op) (a b : Int) (ha : InRange a) (hb : InRange b)
       (hex : ¬ Excluded op a b) : Agree (tsBin op a b) (wasmBin op a b)                         -/

/-- `-7 / 2`: TypeScript `Math.floor(-3.5) = -4`, WebAssembly `i32.div_s = -3` (finding C04-F1). -/
theorem bin_agree_counterexample :
    ¬ ∀ (op : Op) (a b : Int), InRange a → InRange b → ¬ Excluded op a b →
        Agree (tsBin op a b) (wasmBin op a b) := by
  intro h
  exact absurd (h .DIV (-7) 2 (by decide) (by decide) (by decide)) (by decide)

/-- **Exact characterisation for `/`**: outside the excluded runs the two back ends agree on
`a / b` iff the quotient is exact or both operands have the same sign. -/
theorem div_agree_iff (a b : Int) (hex : ¬ Excluded .DIV a b) :
    Agree (tsBin .DIV a b) (wasmBin .DIV a b) ↔
      (a % b = 0 ∨ (0 < a ∧ 0 < b) ∨ (a < 0 ∧ b < 0)) := by
  simp only [Excluded, not_or] at hex
  obtain ⟨hb0, hmin⟩ := hex
  simp only [tsBin, wasmBin, tsForm, wasmOpcode, evalJs, evalWasm, hb0, if_false, hmin]
  by_cases h0 : a % b = 0
  · simp only [h0, if_true, applyWrap, true_or, iff_true]
    rw [agree_int_iff]
    have hd : b ∣ a := Int.dvd_iff_emod_eq_zero.mpr h0
    rw [Int.tdiv_eq_ediv]; simp [hd]
  · simp only [h0, if_false, applyWrap]
    rw [agree_int_iff, fdiv_eq_tdiv_iff a b hb0]
    simp only [h0]

example : Agree (tsBin .DIV 7 2) (wasmBin .DIV 7 2) := by decide
example : Agree (tsBin .DIV (-8) 2) (wasmBin .DIV (-8) 2) := by decide
example : ¬ Agree (tsBin .DIV 7 (-2)) (wasmBin .DIV 7 (-2)) := by decide

/-- `>>>` (never produced from source programs: no source operator lowers to `SHR`): TypeScript
yields the unsigned value, WebAssembly the same bits as a signed `i32`. -/
theorem shr_disagree_witness : ¬ Agree (tsBin .SHR (-1) 0) (wasmBin .SHR (-1) 0) := by decide

/-- Side condition under which every operator agrees. -/
def BinSide (op : Op) (a b : Int) : Prop :=
  (op = .DIV → (a % b = 0 ∨ (0 < a ∧ 0 < b) ∨ (a < 0 ∧ b < 0))) ∧ (op = .SHR → 0 ≤ a)

instance (op : Op) (a b : Int) : Decidable (BinSide op a b) := by unfold BinSide; infer_instance

/-- **All 16 operators, all int32 operands**: outside the excluded runs (overflow, `/0`) the value
the emitted TypeScript computes equals the value the emitted WebAssembly computes — for `/` under
the (exact) condition of `div_agree_iff`, for `>>>` for a non-negative left operand. -/
theorem bin_agree_partial (op : Op) (a b : Int) (ha : InRange a) (_hb : InRange b)
    (hex : ¬ Excluded op a b) (hside : BinSide op a b) :
    Agree (tsBin op a b) (wasmBin op a b) := by
  cases op
  case DIV => exact (div_agree_iff a b hex).mpr (hside.1 rfl)
  case MUL =>
    simp only [Excluded, Classical.not_not] at hex
    simp only [tsBin, wasmBin, tsForm, wasmOpcode, evalJs, evalWasm, applyWrap, wrap32_id hex]
    exact agree_int _
  case PLUS =>
    simp only [Excluded, Classical.not_not] at hex
    simp only [tsBin, wasmBin, tsForm, wasmOpcode, evalJs, evalWasm, applyWrap, wrap32_id hex]
    exact agree_int _
  case MINUS =>
    simp only [Excluded, Classical.not_not] at hex
    simp only [tsBin, wasmBin, tsForm, wasmOpcode, evalJs, evalWasm, applyWrap, wrap32_id hex]
    exact agree_int _
  case MOD =>
    simp only [Excluded] at hex
    simp only [tsBin, wasmBin, tsForm, wasmOpcode, evalJs, evalWasm, applyWrap, hex, if_false]
    exact agree_int _
  case SHR =>
    have h0 : 0 ≤ a := hside.2 rfl
    simp only [tsBin, wasmBin, tsForm, wasmOpcode, evalJs, evalWasm, applyWrap]
    rw [agree_int_iff]
    symm; apply wrap32_id
    have hu : toU32 a = a := by unfold toU32; unfold InRange at ha; omega
    rw [hu]
    have hp : (0 : Int) < 2 ^ (toU32 b % 32).toNat := Int.pow_pos (by decide)
    have h1 : a / 2 ^ (toU32 b % 32).toNat ≤ a := Int.ediv_le_self _ h0
    have h2 : 0 ≤ a / 2 ^ (toU32 b % 32).toNat := Int.ediv_nonneg h0 (Int.le_of_lt hp)
    unfold InRange at ha ⊢; omega
  all_goals
    simp only [tsBin, wasmBin, tsForm, wasmOpcode, evalJs, evalWasm, applyWrap]
    exact agree_int _

example : BinSide .DIV 9 4 ∧ ¬ Excluded .DIV 9 4 := by decide
example : BinSide .MUL (-46341) 46340 ∧ ¬ Excluded .MUL (-46341) 46340 := by decide

/-- Comparison results are always 0/1 on both sides (no exclusions needed). -/
theorem cmp_agree (op : Op) (hop : op = .LT ∨ op = .LE ∨ op = .GT ∨ op = .GE ∨ op = .EQ ∨ op = .NE)
    (a b : Int) : Agree (tsBin op a b) (wasmBin op a b) := by
  rcases hop with h | h | h | h | h | h <;> subst h <;>
    simp only [tsBin, wasmBin, tsForm, wasmOpcode, evalJs, evalWasm, applyWrap] <;> exact agree_int _

/-! ## 2. `int` elements of a `Vec` travel through `ref.i31` -/

/- Full-strength statement (FALSE): theorem i31_roundtrip (n) (h : InRange n) : i31wrap n = n -/

/-- `Vec.of(2000000000).get(0)`: WebAssembly returns `-147483648` (finding C04-F5). -/
theorem i31_roundtrip_counterexample : ¬ ∀ n : Int, InRange n → i31wrap n = n := by
  intro h; exact absurd (h 2000000000 (by decide)) (by decide)

/-- exactly the 31-bit values survive the boxing -/
theorem i31_roundtrip_iff (n : Int) : i31wrap n = n ↔ InI31 n := by
  unfold i31wrap InI31; omega

theorem i31_roundtrip_partial (n : Int) (h : InI31 n) : i31wrap n = n := (i31_roundtrip_iff n).mpr h

example : InI31 1073741823 ∧ InI31 (-1073741824) ∧ ¬ InI31 1073741824 := by decide

/-! ## 3. String constants -/

/- Full-strength statement (FALSE):
   theorem strconst_agree (raw : Text) (h : lexAccepts raw = true) :
       tsCook (content raw) = some (wasmDecode (content raw))                                     -/

/-- `"a\nb"`: the TypeScript template literal cooks the escape into a line feed, the WebAssembly
data segment keeps backslash + `n` (finding C04-F2). -/
theorem strconst_agree_counterexample :
    ¬ ∀ raw : Text, lexAccepts raw = true → tsCook (content raw) = some (wasmDecode (content raw)) := by
  intro h
  have := h [97, 92, 110, 98] (by decide)
  simp [tsCook, content, unescapeQuotes, wasmDecode, utf8, utf16, byteToUnit] at this

/-- `"é"`: UTF-8 bytes read back one code unit per (sign-extended) byte (finding C04-F4). -/
theorem strconst_nonascii_witness :
    lexAccepts [233] = true ∧ tsCook (content [233]) = some [233] ∧
      wasmDecode (content [233]) = [65475, 65449] := by
  refine ⟨by decide, ?_, by decide⟩
  simp [tsCook, content, unescapeQuotes, utf16]

/-- a back quote, or `${`, inside a literal: the emitted TypeScript is not the intended template
literal (finding C04-F3). -/
theorem strconst_backtick_witness :
    lexAccepts [97, 96, 98] = true ∧ tsCook (content [97, 96, 98]) = none ∧
    lexAccepts [36, 123, 49, 125] = true ∧ tsCook (content [36, 123, 49, 125]) = none := by
  refine ⟨by decide, ?_, by decide, ?_⟩ <;> simp [tsCook, content, unescapeQuotes]

/-- no `${` -/
def noSubst : Text → Bool
  | 36 :: 123 :: _ => false
  | _ :: rest => noSubst rest
  | [] => true

/-- ASCII without backslash, back quote, carriage return; `$` allowed unless followed by `{` -/
def PlainText (s : Text) : Prop :=
  (∀ c ∈ s, c < 128 ∧ c ≠ 92 ∧ c ≠ 96 ∧ c ≠ 13) ∧ noSubst s = true

theorem tsCook_plain_cons (c : Nat) (rest : Text) (h1 : c ≠ 92) (h2 : c ≠ 96) (h3 : c ≠ 13)
    (h4 : c = 36 → rest.head? ≠ some 123) :
    tsCook (c :: rest) = (tsCook rest).map (utf16 c ++ ·) := by
  rw [tsCook.eq_def]
  split <;> simp_all

/-- **String constants with plain content** are the same string on both back ends. -/
theorem strconst_agree_content (s : Text) (h : PlainText s) : tsCook s = some (wasmDecode s) := by
  induction s with
  | nil => simp [tsCook, wasmDecode]
  | cons c rest ih =>
    obtain ⟨hc, hn⟩ := h
    have hcc := hc c (List.mem_cons_self)
    have hrest : PlainText rest := by
      refine ⟨fun d hd => hc d (List.mem_cons_of_mem _ hd), ?_⟩
      unfold noSubst at hn
      split at hn <;> simp_all
    have h4 : c = 36 → rest.head? ≠ some 123 := by
      rintro rfl hh
      cases rest with
      | nil => simp at hh
      | cons d r => simp at hh; subst hh; simp [noSubst] at hn
    rw [tsCook_plain_cons c rest hcc.2.1 hcc.2.2.1 hcc.2.2.2 h4, ih hrest]
    have hu8 : utf8 c = [c] := by simp [utf8, hcc.1]
    have hu16 : utf16 c = [c] := by unfold utf16; rw [if_pos (by omega)]
    have hb : byteToUnit c = c := by simp [byteToUnit, hcc.1]
    simp [wasmDecode, hu8, hu16, hb]

/-- **Partial form of `strconst_agree`** on the literal as written: a literal made of plain text
without `"` and line feed is accepted by the lexer, is its own content, and denotes the same string
in the emitted TypeScript and the emitted WebAssembly. -/
theorem strconst_agree_partial (raw : Text) (hp : PlainText raw) (hq : ∀ c ∈ raw, c ≠ 34 ∧ c ≠ 10) :
    lexAccepts raw = true ∧ content raw = raw ∧
      tsCook (content raw) = some (wasmDecode (content raw)) := by
  have hcontent : content raw = raw := by
    unfold content
    induction raw with
    | nil => rfl
    | cons c rest ih =>
      have hc := (hp.1 c List.mem_cons_self).2.1
      have hr : PlainText rest := by
        refine ⟨fun d hd => hp.1 d (List.mem_cons_of_mem _ hd), ?_⟩
        have hn := hp.2
        unfold noSubst at hn
        split at hn <;> simp_all
      rw [unescapeQuotes.eq_def]
      split
      · simp_all
      · rename_i c' rest' _ heq
        cases heq
        rw [ih hr (fun d hd => hq d (List.mem_cons_of_mem _ hd))]
      · simp_all
  have hclose : ∀ (s : Text), (∀ c ∈ s, c ≠ 34 ∧ c ≠ 10 ∧ c ≠ 92) → closesAtEnd 0 s = true := by
    intro s hs
    induction s with
    | nil => rfl
    | cons c rest ih =>
      have := hs c List.mem_cons_self
      simp only [closesAtEnd, this.1, this.2.1, this.2.2, if_false]
      exact ih (fun d hd => hs d (List.mem_cons_of_mem _ hd))
  have hvalid : ∀ (s : Text), (∀ c ∈ s, c ≠ 92) → validEscapes false s = true := by
    intro s hs
    induction s with
    | nil => rfl
    | cons c rest ih =>
      have := hs c List.mem_cons_self
      simp only [validEscapes, this, if_false]
      exact ih (fun d hd => hs d (List.mem_cons_of_mem _ hd))
  refine ⟨?_, hcontent, ?_⟩
  · unfold lexAccepts
    rw [hclose raw (fun c hc => ⟨(hq c hc).1, (hq c hc).2, (hp.1 c hc).2.1⟩),
      hvalid raw (fun c hc => (hp.1 c hc).2.1)]
    rfl
  · rw [hcontent]; exact strconst_agree_content raw hp

example : PlainText [80, 114, 105, 99, 101, 58, 32, 36, 53] := by   -- "Price: $5"
  refine ⟨by decide, by decide⟩

end SamVerif.Backends
