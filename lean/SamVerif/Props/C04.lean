import SamVerif.Lemmas.Backends
/-!
# C04 — the TypeScript and the WebAssembly back end produce programs with identical behaviour

Property theorems only (helpers: `Lemmas/Backends.lean`; model: `Model/Backends.lean` over the
operator table `Generated/TsOps.lean` that `/verif/extract/c04_tsops.py` regenerates from `/repo`
on every run).  Where the unchanged code falsifies the full-strength statement, the statement is
kept as a comment, its negation is proved from a concrete witness (`…_counterexample`), and a
`…_partial` / `…_iff` theorem states exactly where agreement holds.
-/
namespace SamVerif.Backends

/-! ## 1. Operators -/

/- Full-strength statement (FALSE on the unchanged code, see `bin_agree_counterexample`):
   theorem bin_agree (op : Op) (a b : Int) (ha : InRange a) (hb : InRange b)
       (hex : ¬ Excluded op a b) : Agree (tsBin op a b) (wasmBin op a b)                         -/

/-- `-7 / 2`: TypeScript `Math.floor(-3.5) = -4`, WebAssembly `i32.div_s = -3` (finding C04-F1). -/
theorem bin_agree_counterexample :
    ¬ ∀ (op : Op) (a b : Int), InRange a → InRange b → ¬ Excluded op a b →
        Agree (tsBin op a b) (wasmBin op a b) := by
  intro h
  exact absurd (h .DIV (-7) 2 (by decide) (by decide) (by decide)) (by decide)

/-- **Exact characterisation for `/`**: outside the excluded runs the two back ends agree on
`a / b` iff the quotient is exact or both operands have the same sign. -/
theorem div_agree_iff (a b : Int) (hex : ¬ Excluded .DIV a b) :
    Agree (tsBin .DIV a b) (wasmBin .DIV a b) ↔
      (a % b = 0 ∨ (0 < a ∧ 0 < b) ∨ (a < 0 ∧ b < 0)) := by
  simp only [Excluded, not_or] at hex
  obtain ⟨hb0, hmin⟩ := hex
  simp only [tsBin, wasmBin, tsForm, wasmOpcode, evalJs, evalWasm, hb0, if_false, hmin]
  by_cases h0 : a % b = 0
  · simp only [h0, if_true, applyWrap, true_or, iff_true]
    rw [agree_int_iff]
    have hd : b ∣ a := Int.dvd_iff_emod_eq_zero.mpr h0
    rw [Int.tdiv_eq_ediv]; simp [hd]
  · simp only [h0, if_false, applyWrap]
    rw [agree_int_iff, fdiv_eq_tdiv_iff a b hb0]
    simp only [h0]

example : Agree (tsBin .DIV 7 2) (wasmBin .DIV 7 2) := by decide
example : Agree (tsBin .DIV (-8) 2) (wasmBin .DIV (-8) 2) := by decide
example : ¬ Agree (tsBin .DIV 7 (-2)) (wasmBin .DIV 7 (-2)) := by decide

/-- `>>>` (never produced from source programs: no source operator lowers to `SHR`): TypeScript
yields the unsigned value, WebAssembly the same bits as a signed `i32`. -/
theorem shr_disagree_witness : ¬ Agree (tsBin .SHR (-1) 0) (wasmBin .SHR (-1) 0) := by decide

/-- Side condition under which every operator agrees. -/
def BinSide (op : Op) (a b : Int) : Prop :=
  (op = .DIV → (a % b = 0 ∨ (0 < a ∧ 0 < b) ∨ (a < 0 ∧ b < 0))) ∧ (op = .SHR → 0 ≤ a)

instance (op : Op) (a b : Int) : Decidable (BinSide op a b) := by unfold BinSide; infer_instance

/-- **All 16 operators, all int32 operands**: outside the excluded runs (overflow, `/0`) the value
the emitted TypeScript computes equals the value the emitted WebAssembly computes — for `/` under
the (exact) condition of `div_agree_iff`, for `>>>` for a non-negative left operand. -/
theorem bin_agree_partial (op : Op) (a b : Int) (ha : InRange a) (_hb : InRange b)
    (hex : ¬ Excluded op a b) (hside : BinSide op a b) :
    Agree (tsBin op a b) (wasmBin op a b) := by
  cases op
  case DIV => exact (div_agree_iff a b hex).mpr (hside.1 rfl)
  case MUL =>
    simp only [Excluded, Classical.not_not] at hex
    simp only [tsBin, wasmBin, tsForm, wasmOpcode, evalJs, evalWasm, applyWrap, wrap32_id hex]
    exact agree_int _
  case PLUS =>
    simp only [Excluded, Classical.not_not] at hex
    simp only [tsBin, wasmBin, tsForm, wasmOpcode, evalJs, evalWasm, applyWrap, wrap32_id hex]
    exact agree_int _
  case MINUS =>
    simp only [Excluded, Classical.not_not] at hex
    simp only [tsBin, wasmBin, tsForm, wasmOpcode, evalJs, evalWasm, applyWrap, wrap32_id hex]
    exact agree_int _
  case MOD =>
    simp only [Excluded] at hex
    simp only [tsBin, wasmBin, tsForm, wasmOpcode, evalJs, evalWasm, applyWrap, hex, if_false]
    exact agree_int _
  case SHR =>
    have h0 : 0 ≤ a := hside.2 rfl
    simp only [tsBin, wasmBin, tsForm, wasmOpcode, evalJs, evalWasm, applyWrap]
    rw [agree_int_iff]
    symm; apply wrap32_id
    have hu : toU32 a = a := by unfold toU32; unfold InRange at ha; omega
    rw [hu]
    have hp : (0 : Int) < 2 ^ (toU32 b % 32).toNat := Int.pow_pos (by decide)
    have h1 : a / 2 ^ (toU32 b % 32).toNat ≤ a := Int.ediv_le_self _ h0
    have h2 : 0 ≤ a / 2 ^ (toU32 b % 32).toNat := Int.ediv_nonneg h0 (Int.le_of_lt hp)
    unfold InRange at ha ⊢; omega
  all_goals
    simp only [tsBin, wasmBin, tsForm, wasmOpcode, evalJs, evalWasm, applyWrap]
    exact agree_int _

example : BinSide .DIV 9 4 ∧ ¬ Excluded .DIV 9 4 := by decide
example : BinSide .MUL (-46341) 46340 ∧ ¬ Excluded .MUL (-46341) 46340 := by decide

/-- Comparison results are always 0/1 on both sides (no exclusions needed). -/
theorem cmp_agree (op : Op) (hop : op = .LT ∨ op = .LE ∨ op = .GT ∨ op = .GE ∨ op = .EQ ∨ op = .NE)
    (a b : Int) : Agree (tsBin op a b) (wasmBin op a b) := by
  rcases hop with h | h | h | h | h | h <;> subst h <;>
    simp only [tsBin, wasmBin, tsForm, wasmOpcode, evalJs, evalWasm, applyWrap] <;> exact agree_int _

/-! ## 2. `int` elements of a `Vec` travel through `ref.i31` -/

/- Full-strength statement (FALSE): theorem i31_roundtrip (n) (h : InRange n) : i31wrap n = n -/

/-- `Vec.of(2000000000).get(0)`: WebAssembly returns `-147483648` (finding C04-F5). -/
theorem i31_roundtrip_counterexample : ¬ ∀ n : Int, InRange n → i31wrap n = n := by
  intro h; exact absurd (h 2000000000 (by decide)) (by decide)

/-- exactly the 31-bit values survive the boxing -/
theorem i31_roundtrip_iff (n : Int) : i31wrap n = n ↔ InI31 n := by
  unfold i31wrap InI31; omega

theorem i31_roundtrip_partial (n : Int) (h : InI31 n) : i31wrap n = n := (i31_roundtrip_iff n).mpr h

example : InI31 1073741823 ∧ InI31 (-1073741824) ∧ ¬ InI31 1073741824 := by decide

/-! ## 3. String constants -/

/- Historical note. Before the fixes the full-strength statement below was false and this section
held counterexample theorems: `"a\nb"` (C04-F2: escapes cooked by the template literal, kept raw in
the data segment; fixed 9fd2988), `"é"` (C04-F4, fixed 8056d1e), a back quote / `${` (C04-F3, fixed
0e855e5), `"\01"` (C03-F4: octal escape, fixed 9fd2988). -/

/-- Unicode scalar value -/
def Scalar (v : Nat) : Prop := v < 1114112 ∧ ¬ (55296 ≤ v ∧ v < 57344)

instance (v : Nat) : Decidable (Scalar v) := by unfold Scalar; infer_instance

/-- the eight escape letters of the language (`t v 0 b f n r \`) -/
def IsEsc (e : Nat) : Prop :=
  e = 116 ∨ e = 118 ∨ e = 48 ∨ e = 98 ∨ e = 102 ∨ e = 110 ∨ e = 114 ∨ e = 92

instance (e : Nat) : Decidable (IsEsc e) := by unfold IsEsc; infer_instance

/-- content in which every backslash starts one of the eight escape sequences -/
def WellEsc : Text → Prop
  | [] => True
  | 92 :: [] => False
  | 92 :: e :: r => IsEsc e ∧ WellEsc r
  | _ :: r => WellEsc r

/-- the same for the literal as written: `\"` is a ninth escape, a bare `"` or line feed cannot occur -/
def WellEscQ : Text → Prop
  | [] => True
  | 92 :: [] => False
  | 92 :: e :: r => (IsEsc e ∨ e = 34) ∧ WellEscQ r
  | c :: r => c ≠ 34 ∧ c ≠ 10 ∧ WellEscQ r

theorem wellEscQ_cons_plain (c : Nat) (r : Text) (h : c ≠ 92) :
    WellEscQ (c :: r) ↔ (c ≠ 34 ∧ c ≠ 10 ∧ WellEscQ r) := by
  rw [WellEscQ]
  · intro e; exact absurd e h
  · intro e r' h1 _; exact absurd h1 h

theorem wellEsc_cons_plain (c : Nat) (r : Text) (h : c ≠ 92) : WellEsc (c :: r) ↔ WellEsc r := by
  rw [WellEsc]
  · intro e; exact absurd e h
  · intro e r' h1 _; exact absurd h1 h

/-- what the lexer's two scans accept, with `bs` backslashes pending -/
theorem lex_wellEscQ (raw : Text) :
    (∀ bs, bs % 2 = 0 → closesAtEnd bs raw = true → validEscapes false raw = true → WellEscQ raw) ∧
    (∀ bs, bs % 2 = 1 → closesAtEnd bs raw = true → validEscapes true raw = true →
      WellEscQ (92 :: raw)) := by
  induction raw with
  | nil =>
    refine ⟨fun _ _ _ _ => trivial, fun bs hb hc _ => ?_⟩
    simp [closesAtEnd] at hc; omega
  | cons c r ih =>
    obtain ⟨ih0, ih1⟩ := ih
    constructor
    · intro bs hb hc hv
      by_cases h92 : c = 92
      · subst h92
        simp only [closesAtEnd, validEscapes] at hc hv
        simp at hc hv
        exact ih1 (bs + 1) (by omega) hc hv
      · by_cases h10 : c = 10
        · subst h10; simp [closesAtEnd] at hc
        · by_cases h34 : c = 34
          · subst h34; simp [closesAtEnd] at hc; omega
          · simp only [closesAtEnd, validEscapes, h92, h10, h34, if_false] at hc hv
            simp at hv
            rw [wellEscQ_cons_plain c r h92]
            exact ⟨h34, h10, ih0 0 rfl hc hv⟩
    · intro bs hb hc hv
      by_cases h92 : c = 92
      · subst h92
        simp only [closesAtEnd, validEscapes] at hc hv
        simp at hc hv
        exact ⟨Or.inl (by unfold IsEsc; simp), ih0 (bs + 1) (by omega) hc hv⟩
      · by_cases h10 : c = 10
        · subst h10; simp [closesAtEnd] at hc
        · by_cases h34 : c = 34
          · subst h34
            simp only [closesAtEnd, validEscapes] at hc hv
            simp at hc hv
            exact ⟨Or.inr rfl, ih0 0 rfl hc.2 hv.2⟩
          · simp only [closesAtEnd, validEscapes, h92, h10, h34, if_false] at hc hv
            simp at hv
            refine ⟨Or.inl ?_, ih0 0 rfl hc hv.2⟩
            have := hv.1
            simp [lexEscapes] at this
            unfold IsEsc
            omega

theorem lexAccepts_wellEscQ (raw : Text) (h : lexAccepts raw = true) : WellEscQ raw := by
  unfold lexAccepts at h
  simp at h
  exact (lex_wellEscQ raw).1 0 rfl h.1 h.2

/-- `unescape_quotes` turns an accepted literal into well-escaped content (the left-to-right
replacement of `\"` never splits a `\\` pair) and only drops characters -/
theorem content_wellEsc (raw : Text) (h : WellEscQ raw) :
    WellEsc (content raw) ∧ ∀ c ∈ content raw, c ∈ raw := by
  unfold content
  induction raw using WellEscQ.induct with
  | case1 => exact ⟨trivial, by simp [unescapeQuotes]⟩
  | case2 => exact absurd h (by simp [WellEscQ])
  | case3 e r ih =>
    rw [WellEscQ] at h
    obtain ⟨he, hr⟩ := h
    obtain ⟨ih1, ih2⟩ := ih hr
    by_cases h34 : e = 34
    · subst h34
      simp only [unescapeQuotes]
      refine ⟨by rw [wellEsc_cons_plain 34 _ (by decide)]; exact ih1, ?_⟩
      intro c hc
      rcases List.mem_cons.mp hc with rfl | hc
      · simp
      · exact List.mem_cons_of_mem _ (List.mem_cons_of_mem _ (ih2 c hc))
    · have hesc : IsEsc e := he.elim id (fun h => absurd h h34)
      have h1 : unescapeQuotes (92 :: e :: r) = 92 :: unescapeQuotes (e :: r) := by
        rw [unescapeQuotes]
        intro r' e1 e2
        exact h34 (List.cons.inj e2).1
      have h2 : unescapeQuotes (e :: r) = e :: unescapeQuotes r := by
        by_cases h92 : e = 92
        · subst h92
          -- `r` cannot start with a bare quote
          cases r with
          | nil => simp [unescapeQuotes]
          | cons q r' =>
            have hq : q ≠ 34 := by
              intro hq; subst hq
              rw [WellEscQ] at hr
              · exact hr.1 rfl
              · intro e; cases e
              · intro e r'' h1 _; cases h1
            rw [unescapeQuotes]
            intro r'' e1 e2
            injection e2 with e2 e3
            exact hq e2
        · rw [unescapeQuotes]
          intro r' e1 _; exact h92 e1
      rw [h1, h2]
      refine ⟨by rw [WellEsc]; exact ⟨hesc, ih1⟩, ?_⟩
      intro c hc
      rcases List.mem_cons.mp hc with rfl | hc
      · simp
      · rcases List.mem_cons.mp hc with rfl | hc
        · simp
        · exact List.mem_cons_of_mem _ (List.mem_cons_of_mem _ (ih2 c hc))
  | case4 c r hne1 hne2 ih =>
    have h92 : c ≠ 92 := by
      intro e; subst e
      cases r with
      | nil => exact hne1 rfl rfl
      | cons e r' => exact hne2 e r' rfl rfl
    rw [wellEscQ_cons_plain c r h92] at h
    obtain ⟨ih1, ih2⟩ := ih h.2.2
    have hu : unescapeQuotes (c :: r) = c :: unescapeQuotes r := by
      rw [unescapeQuotes]
      intro r' e1 _; exact h92 e1
    rw [hu]
    refine ⟨by rw [wellEsc_cons_plain c _ h92]; exact ih1, ?_⟩
    intro d hd
    rcases List.mem_cons.mp hd with rfl | hd
    · simp
    · exact List.mem_cons_of_mem _ (ih2 d hd)

theorem byteToU8_id (b : Nat) (h : b < 256) : byteToU8 b = b := by
  unfold byteToU8; split <;> omega

/-- decoding the UTF-8 encoding of a scalar value gives the value back -/
theorem utf8Decode_utf8 (v : Nat) (hv : Scalar v) (rest : List Nat) :
    utf8Decode ((utf8 v).map byteToU8 ++ rest) = v :: utf8Decode rest := by
  unfold Scalar at hv
  unfold utf8
  by_cases h1 : v < 128
  · simp only [h1, if_true, List.map_cons, List.map_nil, byteToU8_id v (by omega), List.singleton_append]
    rw [utf8Decode]; simp [h1]
  · by_cases h2 : v < 2048
    · simp only [h1, h2, if_true, if_false, List.map_cons, List.map_nil, List.cons_append, List.nil_append,
        byteToU8_id (192 + v / 64) (by omega), byteToU8_id (128 + v % 64) (by omega)]
      rw [utf8Decode]
      simp only [List.getD_cons_zero, List.drop_succ_cons, List.drop_zero, isCont]
      rw [if_neg (by omega), if_pos (by simp; omega)]
      rw [List.cons.injEq]; exact ⟨by omega, rfl⟩
    · by_cases h3 : v < 65536
      · simp only [h1, h2, h3, if_true, if_false, List.map_cons, List.map_nil, List.cons_append, List.nil_append,
          byteToU8_id (224 + v / 4096) (by omega), byteToU8_id (128 + v / 64 % 64) (by omega),
          byteToU8_id (128 + v % 64) (by omega)]
        rw [utf8Decode]
        simp only [List.getD_cons_zero, List.getD_cons_succ, List.drop_succ_cons, List.drop_zero, isCont]
        rw [if_neg (by omega), if_neg (by simp; omega), if_pos (by simp; omega)]
        rw [List.cons.injEq]; exact ⟨by omega, rfl⟩
      · simp only [h1, h2, h3, if_false, List.map_cons, List.map_nil, List.cons_append, List.nil_append,
          byteToU8_id (240 + v / 262144) (by omega), byteToU8_id (128 + v / 4096 % 64) (by omega),
          byteToU8_id (128 + v / 64 % 64) (by omega), byteToU8_id (128 + v % 64) (by omega)]
        rw [utf8Decode]
        simp only [List.getD_cons_zero, List.getD_cons_succ, List.drop_succ_cons, List.drop_zero, isCont]
        rw [if_neg (by omega), if_neg (by simp; omega), if_neg (by simp; omega), if_pos (by simp; omega)]
        rw [List.cons.injEq]; exact ⟨by omega, rfl⟩

theorem utf8_roundtrip (s : Text) (h : ∀ c ∈ s, Scalar c) :
    utf8Decode ((s.flatMap utf8).map byteToU8) = s := by
  induction s with
  | nil => simp [utf8Decode]
  | cons c r ih =>
    simp only [List.flatMap_cons, List.map_append]
    rw [utf8Decode_utf8 c (h c List.mem_cons_self), ih (fun d hd => h d (List.mem_cons_of_mem _ hd))]

/-! ### equations of the two printers -/

theorem tsCook_plain_cons (c : Nat) (rest : Text) (h1 : c ≠ 92) (h2 : c ≠ 96) (h3 : c ≠ 13)
    (h4 : c = 36 → rest.head? ≠ some 123) :
    tsCook (c :: rest) = (tsCook rest).map (utf16 c ++ ·) := by
  rw [tsCook.eq_def]
  split <;> simp_all

theorem tsCook_escaped (c : Nat) (rest : Text) (hc : c = 96 ∨ c = 36) :
    tsCook (92 :: c :: rest) = (tsCook rest).map (utf16 c ++ ·) := by
  rw [tsCook.eq_def]
  rcases hc with rfl | rfl <;> simp [isDigit]


theorem tsEscape_nil : tsEscape [] = [] := by rw [tsEscape]

theorem tsEscape_nul_digit (d : Nat) (r : Text) (h : isDigit d = true) :
    tsEscape (92 :: 48 :: d :: r) = 92 :: 120 :: 48 :: 48 :: tsEscape (d :: r) := by
  rw [tsEscape]; simp [h, tsNulBeforeDigit]

theorem tsEscape_nul_other (d : Nat) (r : Text) (h : isDigit d = false) :
    tsEscape (92 :: 48 :: d :: r) = 92 :: 48 :: tsEscape (d :: r) := by
  rw [tsEscape]; simp [h]

theorem tsEscape_nul_end : tsEscape [92, 48] = [92, 48] := by
  rw [tsEscape]; simp [tsEscape_nil]

theorem tsEscape_esc (e : Nat) (r : Text) (h : e ≠ 48) :
    tsEscape (92 :: e :: r) = 92 :: e :: tsEscape r := by
  rw [tsEscape]; simp [h]

theorem tsEscape_backtick (r : Text) : tsEscape (96 :: r) = 92 :: 96 :: tsEscape r := by
  rw [tsEscape]
  · simp [tsRewriteOf, tsRewrites]
  all_goals (intros; simp_all)

theorem tsEscape_subst (r : Text) : tsEscape (36 :: 123 :: r) = 92 :: 36 :: tsEscape (123 :: r) := by
  rw [tsEscape]
  · simp [tsRewriteOf, tsRewrites]
  all_goals (intros; simp_all)

theorem tsEscape_cr (r : Text) : tsEscape (13 :: r) = 92 :: 114 :: tsEscape r := by
  rw [tsEscape]
  · simp [tsRewriteOf, tsRewrites]
  all_goals (intros; simp_all)

theorem tsEscape_plain (c : Nat) (r : Text) (h1 : c ≠ 92) (h2 : c ≠ 96) (h3 : c ≠ 13)
    (h4 : c = 36 → r.head? ≠ some 123) : tsEscape (c :: r) = c :: tsEscape r := by
  have hnone : tsRewriteOf c r.head? = none := by
    simp only [tsRewriteOf, tsRewrites, List.findSome?_cons, List.findSome?_nil]
    have e1 : ¬ (96 = c) := fun e => h2 e.symm
    have e3 : ¬ (13 = c) := fun e => h3 e.symm
    by_cases h36 : c = 36
    · subst h36
      have := h4 rfl
      have e4 : ¬ (some 123 = r.head?) := fun hh => this hh.symm
      simp [e4]
    · have e2 : ¬ (36 = c) := fun e => h36 e.symm
      simp [e1, e2, e3]
  rw [tsEscape]
  · rw [hnone]
  · intro h; exact absurd h h1
  · intro n r' h; exact absurd h h1

/-- every rewritten prefix starts with a backslash, so any other first character is the original one -/
theorem tsEscape_head (s : Text) (x : Nat) (hx : x ≠ 92) (h : (tsEscape s).head? = some x) :
    s.head? = some x := by
  cases s with
  | nil => rw [tsEscape_nil] at h; cases h
  | cons c r =>
    by_cases h92 : c = 92
    · subst h92
      exfalso
      cases r with
      | nil => rw [tsEscape] at h <;> simp_all
      | cons e r' =>
        by_cases he : e = 48
        · subst he
          cases r' with
          | nil => rw [tsEscape_nul_end] at h; simp at h; exact hx h.symm
          | cons d r'' =>
            cases hd : isDigit d
            · rw [tsEscape_nul_other d r'' hd] at h; simp at h; exact hx h.symm
            · rw [tsEscape_nul_digit d r'' hd] at h; simp at h; exact hx h.symm
        · rw [tsEscape_esc e r' he] at h; simp at h; exact hx h.symm
    · by_cases h96 : c = 96
      · subst h96; rw [tsEscape_backtick] at h; simp at h; exact absurd h.symm hx
      · by_cases h13 : c = 13
        · subst h13; rw [tsEscape_cr] at h; simp at h; exact absurd h.symm hx
        · by_cases h36 : c = 36 ∧ r.head? = some 123
          · obtain ⟨rfl, hr⟩ := h36
            cases r with
            | nil => simp at hr
            | cons q r' =>
              simp at hr; subst hr
              rw [tsEscape_subst] at h; simp at h; exact absurd h.symm hx
          · rw [tsEscape_plain c r h92 h96 h13 (fun e hh => h36 ⟨e, hh⟩)] at h
            simpa using h

theorem tsCook_hex00 (rest : Text) : tsCook (92 :: 120 :: 48 :: 48 :: rest) = (tsCook rest).map (0 :: ·) := by
  rw [tsCook.eq_def]; simp [hexDigitVal]

theorem tsCook_nul (rest : Text) (h : (rest.head?.map isDigit).getD false = false) :
    tsCook (92 :: 48 :: rest) = (tsCook rest).map (0 :: ·) := by
  rw [tsCook.eq_def]; simp [h]

theorem tsCook_esc (e : Nat) (rest : Text) (he : e ≠ 48) (hesc : IsEsc e) :
    ∃ c, escChar e = some c ∧ c < 128 ∧ tsCook (92 :: e :: rest) = (tsCook rest).map (c :: ·) := by
  unfold IsEsc at hesc
  rcases hesc with rfl | rfl | rfl | rfl | rfl | rfl | rfl | rfl
  · exact ⟨9, by decide, by decide, by rw [tsCook.eq_def]; simp⟩
  · exact ⟨11, by decide, by decide, by rw [tsCook.eq_def]; simp⟩
  · exact absurd rfl he
  · exact ⟨8, by decide, by decide, by rw [tsCook.eq_def]; simp⟩
  · exact ⟨12, by decide, by decide, by rw [tsCook.eq_def]; simp⟩
  · exact ⟨10, by decide, by decide, by rw [tsCook.eq_def]; simp⟩
  · exact ⟨13, by decide, by decide, by rw [tsCook.eq_def]; simp⟩
  · exact ⟨92, by decide, by decide, by rw [tsCook.eq_def]; simp [isDigit, utf16]⟩

theorem tsCook_r (rest : Text) : tsCook (92 :: 114 :: rest) = (tsCook rest).map (13 :: ·) := by
  rw [tsCook.eq_def]; simp

theorem escChar_isEsc (e : Nat) (h : IsEsc e) : ∃ c, escChar e = some c ∧ c < 128 := by
  unfold IsEsc at h
  rcases h with rfl | rfl | rfl | rfl | rfl | rfl | rfl | rfl
  · exact ⟨9, by decide, by decide⟩
  · exact ⟨11, by decide, by decide⟩
  · exact ⟨0, by decide, by decide⟩
  · exact ⟨8, by decide, by decide⟩
  · exact ⟨12, by decide, by decide⟩
  · exact ⟨10, by decide, by decide⟩
  · exact ⟨13, by decide, by decide⟩
  · exact ⟨92, by decide, by decide⟩

theorem utf16_small (c : Nat) (h : c < 65536) : utf16 c = [c] := by unfold utf16; rw [if_pos h]

/-- **Both printers denote the same characters**: for well-escaped content the cooked template
literal is exactly the UTF-16 form of the characters `string_constant_bytes` stores. -/
theorem cook_escape (n : Nat) : ∀ s : Text, s.length ≤ n → WellEsc s →
    tsCook (tsEscape s) = some ((wasmUnescape s).flatMap utf16) := by
  induction n with
  | zero =>
    intro s hl _
    have : s = [] := List.length_eq_zero_iff.mp (by omega)
    subst this; simp [tsEscape_nil, tsCook, wasmUnescape]
  | succ n ih =>
    intro s hl hw
    cases s with
    | nil => simp [tsEscape_nil, tsCook, wasmUnescape]
    | cons c r =>
      simp only [List.length_cons] at hl
      by_cases h92 : c = 92
      · subst h92
        cases r with
        | nil => exact absurd hw (by simp [WellEsc])
        | cons e r' =>
          rw [WellEsc] at hw
          obtain ⟨hesc, hw'⟩ := hw
          obtain ⟨ch, hch, hsmall⟩ := escChar_isEsc e hesc
          have hun : wasmUnescape (92 :: e :: r') = ch :: wasmUnescape r' := by
            rw [wasmUnescape]; simp [hch]
          simp only [List.length_cons] at hl
          by_cases he : e = 48
          · subst he
            have hch0 : ch = 0 := by
              have : escChar 48 = some 0 := by decide
              rw [this] at hch; exact (Option.some.inj hch).symm
            subst hch0
            cases r' with
            | nil =>
              rw [tsEscape_nul_end, tsCook_nul [] (by simp), hun]
              simp [tsCook, wasmUnescape, utf16]
            | cons d r'' =>
              have ihd := ih (d :: r'') (by simp only [List.length_cons] at hl ⊢; omega) hw'
              cases hd : isDigit d
              · rw [tsEscape_nul_other d r'' hd, tsCook_nul, ihd, hun]
                · simp [utf16]
                · -- the character after `\0` is still not a digit
                  cases hh : (tsEscape (d :: r'')).head? with
                  | none => simp
                  | some x =>
                    simp only [Option.map_some, Option.getD_some]
                    by_cases hx : x = 92
                    · subst hx; decide
                    · have := tsEscape_head (d :: r'') x hx hh
                      simp at this; subst this; exact hd
              · rw [tsEscape_nul_digit d r'' hd, tsCook_hex00, ihd, hun]
                simp [utf16]
          · obtain ⟨c2, hc2, _, hcook⟩ := tsCook_esc e (tsEscape r') he hesc
            have : c2 = ch := by rw [hch] at hc2; exact (Option.some.inj hc2).symm
            subst this
            rw [tsEscape_esc e r' he, hcook, ih r' (by omega) hw', hun]
            simp [utf16_small c2 (by omega)]
      · have hw' : WellEsc r := (wellEsc_cons_plain c r h92).mp hw
        have ihr := ih r (by omega) hw'
        have hun : wasmUnescape (c :: r) = c :: wasmUnescape r := by
          rw [wasmUnescape]
          all_goals (intros; simp_all)
        by_cases h96 : c = 96
        · subst h96
          rw [tsEscape_backtick, tsCook_escaped 96 _ (Or.inl rfl), ihr, hun]; simp
        · by_cases h13 : c = 13
          · subst h13
            rw [tsEscape_cr, tsCook_r, ihr, hun]; simp [utf16]
          · by_cases h36 : c = 36 ∧ r.head? = some 123
            · obtain ⟨rfl, hr⟩ := h36
              cases r with
              | nil => simp at hr
              | cons q r' =>
                simp at hr; subst hr
                rw [tsEscape_subst, tsCook_escaped 36 _ (Or.inr rfl), ihr, hun]; simp
            · rw [tsEscape_plain c r h92 h96 h13 (fun e hh => h36 ⟨e, hh⟩),
                tsCook_plain_cons c _ h92 h96 h13, ihr, hun]
              · simp
              · intro e hh
                exact h36 ⟨e, tsEscape_head r 123 (by decide) hh⟩

theorem wasmUnescape_scalar (n : Nat) : ∀ s : Text, s.length ≤ n → WellEsc s → (∀ c ∈ s, Scalar c) →
    ∀ c ∈ wasmUnescape s, Scalar c := by
  induction n with
  | zero =>
    intro s hl _ _
    have : s = [] := List.length_eq_zero_iff.mp (by omega)
    subst this; simp [wasmUnescape]
  | succ n ih =>
    intro s hl hw hs
    cases s with
    | nil => simp [wasmUnescape]
    | cons c r =>
      simp only [List.length_cons] at hl
      by_cases h92 : c = 92
      · subst h92
        cases r with
        | nil => exact absurd hw (by simp [WellEsc])
        | cons e r' =>
          rw [WellEsc] at hw
          obtain ⟨ch, hch, hsmall⟩ := escChar_isEsc e hw.1
          simp only [List.length_cons] at hl
          rw [wasmUnescape]; simp only [hch]
          intro x hx
          rcases List.mem_cons.mp hx with rfl | hx
          · unfold Scalar; omega
          · exact ih r' (by omega) hw.2 (fun y hy => hs y (by simp [hy])) x hx
      · have hw' : WellEsc r := (wellEsc_cons_plain c r h92).mp hw
        rw [wasmUnescape]
        · intro x hx
          rcases List.mem_cons.mp hx with rfl | hx
          · exact hs _ List.mem_cons_self
          · exact ih r (by omega) hw' (fun y hy => hs y (List.mem_cons_of_mem _ hy)) x hx
        all_goals (intros; simp_all)

/-- content form: every well-escaped text of Unicode scalar values -/
theorem strconst_agree_content (s : Text) (hw : WellEsc s) (hs : ∀ c ∈ s, Scalar c) :
    tsDecode s = some (wasmDecode s) := by
  unfold tsDecode wasmDecode
  rw [cook_escape s.length s (Nat.le_refl _) hw,
    utf8_roundtrip _ (wasmUnescape_scalar s.length s (Nat.le_refl _) hw hs)]

/-- **`strconst_agree`, full strength** (true after fixes 0e855e5, 8056d1e, 9fd2988): for EVERY
string literal the lexer accepts — all eight escape sequences, `\"`, back quotes, `${`, raw carriage
returns, `\0` before digits, all of Unicode — the emitted TypeScript and the emitted WebAssembly
(with its loader) hold the same string. -/
theorem strconst_agree (raw : Text) (h : lexAccepts raw = true) (hs : ∀ c ∈ raw, Scalar c) :
    tsDecode (content raw) = some (wasmDecode (content raw)) := by
  obtain ⟨hw, hsub⟩ := content_wellEsc raw (lexAccepts_wellEscQ raw h)
  exact strconst_agree_content _ hw (fun c hc => hs c (hsub c hc))

example : lexAccepts [97, 92, 110, 98, 92, 48, 49, 13, 96, 36, 123, 92, 34, 233] = true := by decide

end SamVerif.Backends
