import SamVerif.Props.C06d
/-!
# C06 (continued) — the memoised super-type walk (the code since fix 8144d53c)

`Gates.resolveSupersMF` is what `resolve_all_transitive_super_types_recursive` does today (tied
exactly by the `supm` stream). This file proves, for every declaration table, type, path and
accumulator: the walk only appends; unless it flags a cycle (or the model's recursion budget is
exhausted) the collected list is *topologically ordered* — every collected type has all of its own
instantiated super types collected strictly before it — and contains every direct super type of the
queried type; hence a result without the cyclic flag contains no cycle of super-type instances.
-/
namespace SamVerif.Gates
open SamVerif.Assign

mutual
theorem sameType_refl : ∀ (t : Ty), sameType t t = true
  | .any _ => by simp [sameType]
  | .prim _ => by simp [sameType]
  | .generic _ => by simp [sameType]
  | .nominal _ _ _ ts => by simp [sameType, sameTypeL_refl ts]
  | .fn as r => by simp [sameType, sameTypeL_refl as, sameType_refl r]
theorem sameTypeL_refl : ∀ (ts : List Ty), sameTypeL ts ts = true
  | [] => by simp [sameTypeL]
  | t :: ts => by simp [sameTypeL, sameType_refl t, sameTypeL_refl ts]
end

/-- membership up to `is_the_same_type` (the test the memoised walk uses) -/
def MemIn (l : List Ty) (u : Ty) : Prop := ∃ e ∈ l, sameType e u = true

theorem MemIn.append_left {l : List Ty} {u : Ty} (m : List Ty) (h : MemIn l u) : MemIn (l ++ m) u := by
  obtain ⟨e, he, hs⟩ := h
  exact ⟨e, by simp [he], hs⟩

theorem any_iff_MemIn (l : List Ty) (s : Ty) : (l.any fun u => sameType u s) = true ↔ MemIn l s := by
  simp [MemIn, List.any_eq_true]

/-- `u` is one of the instantiated direct super types of `s`. -/
def Edge (tab : List Decl) (s u : Ty) : Prop :=
  ∃ k d, keyOf s = some k ∧ findDecl tab k = some d ∧ u ∈ d.supers.map (subst (d.tparams.zip (targsOf s)))

/-- every element has all of its super types among the elements before it -/
def OrderedAux (tab : List Decl) : List Ty → List Ty → Prop
  | _, [] => True
  | pre, s :: rest => (∀ u, Edge tab s u → MemIn pre u) ∧ OrderedAux tab (pre ++ [s]) rest

def Ordered (tab : List Decl) (l : List Ty) : Prop := OrderedAux tab [] l

theorem orderedAux_snoc (tab : List Decl) : ∀ (l pre : List Ty) (s : Ty),
    OrderedAux tab pre (l ++ [s]) ↔ OrderedAux tab pre l ∧ ∀ u, Edge tab s u → MemIn (pre ++ l) u
  | [], pre, s => by simp [OrderedAux]
  | x :: l, pre, s => by
    simp only [List.cons_append, OrderedAux, orderedAux_snoc tab l (pre ++ [x]) s, List.append_assoc,
      List.singleton_append, List.nil_append, and_assoc]

/-- the accumulator is fine: a cycle was flagged, the budget ran out, or the list is ordered -/
def Good (tab : List Decl) (a : SupAcc) : Prop := a.2.1 = true ∨ a.2.2 = true ∨ Ordered tab a.1

def Post (tab : List Decl) (t : Ty) (r : SupAcc) : Prop :=
  r.2.1 = true ∨ r.2.2 = true ∨ ∀ u, Edge tab t u → MemIn r.1 u

/-- the fold step of the memoised walk -/
def memoStep (tab : List Decl) (fuel : Nat) (path : List (Nat × Nat)) (a : SupAcc) (s : Ty) : SupAcc :=
  if a.1.any (fun u => sameType u s) then a
  else ((resolveSupersMF tab fuel path s a).1 ++ [s], (resolveSupersMF tab fuel path s a).2.1,
    (resolveSupersMF tab fuel path s a).2.2)

theorem resolveSupersMF_succ (tab : List Decl) (fuel : Nat) (path : List (Nat × Nat)) (t : Ty) (acc : SupAcc) :
    resolveSupersMF tab (fuel + 1) path t acc =
      match keyOf t with
      | none => acc
      | some k =>
        if path.contains k then (acc.1, true, acc.2.2)
        else match findDecl tab k with
          | none => acc
          | some d => (d.supers.map (subst (d.tparams.zip (targsOf t)))).foldl (memoStep tab fuel (k :: path)) acc := by
  rw [resolveSupersMF]
  rfl

/-- The walk only appends to the collected list. -/
theorem memo_extends (tab : List Decl) : ∀ (fuel : Nat) (path : List (Nat × Nat)) (t : Ty) (acc : SupAcc),
    ∃ suf, (resolveSupersMF tab fuel path t acc).1 = acc.1 ++ suf
  | 0, _, _, acc => ⟨[], by simp [resolveSupersMF]⟩
  | fuel + 1, path, t, acc => by
    rw [resolveSupersMF_succ]
    split
    · exact ⟨[], by simp⟩
    · split
      · exact ⟨[], by simp⟩
      · split
        · exact ⟨[], by simp⟩
        · rename_i _ k _ _ _ d _
          have : ∀ (l : List Ty) (a : SupAcc), ∃ suf, (l.foldl (memoStep tab fuel (k :: path)) a).1 = a.1 ++ suf := by
            intro l
            induction l with
            | nil => intro a; exact ⟨[], by simp⟩
            | cons s l ih =>
              intro a
              simp only [List.foldl_cons]
              obtain ⟨suf2, h2⟩ := ih (memoStep tab fuel (k :: path) a s)
              by_cases hm : (a.1.any fun u => sameType u s) = true
              · simp only [memoStep, hm, if_true] at h2 ⊢
                exact ⟨suf2, h2⟩
              · obtain ⟨suf1, h1⟩ := memo_extends tab fuel (k :: path) s a
                simp only [memoStep, hm] at h2 ⊢
                refine ⟨suf1 ++ [s] ++ suf2, ?_⟩
                rw [h2]
                simp [h1, List.append_assoc]
          exact this _ acc

/-- budget exhaustion, once recorded, stays recorded -/
theorem memo_exhausted_monotone (tab : List Decl) : ∀ (fuel : Nat) (path : List (Nat × Nat)) (t : Ty)
    (acc : SupAcc), acc.2.2 = true → (resolveSupersMF tab fuel path t acc).2.2 = true
  | 0, _, _, _, _ => by simp [resolveSupersMF]
  | fuel + 1, path, t, acc, h => by
    rw [resolveSupersMF_succ]
    split
    · exact h
    · split
      · exact h
      · split
        · exact h
        · rename_i _ k _ _ _ d _
          have : ∀ (l : List Ty) (a : SupAcc), a.2.2 = true →
              (l.foldl (memoStep tab fuel (k :: path)) a).2.2 = true := by
            intro l
            induction l with
            | nil => intro a h; exact h
            | cons s l ihl =>
              intro a h
              simp only [List.foldl_cons]
              apply ihl
              simp only [memoStep]
              split
              · exact h
              · exact memo_exhausted_monotone tab fuel (k :: path) s a h
          exact this _ acc h

/-- **Main invariant of the memoised walk.** Started on a fine accumulator it returns a fine
accumulator that contains every direct super type of `t` (unless flagged / out of budget). -/
theorem memo_invariant (tab : List Decl) : ∀ (fuel : Nat) (path : List (Nat × Nat)) (t : Ty) (acc : SupAcc),
    Good tab acc → Good tab (resolveSupersMF tab fuel path t acc) ∧ Post tab t (resolveSupersMF tab fuel path t acc)
  | 0, _, _, acc, _ => by
    simp [resolveSupersMF, Good, Post]
  | fuel + 1, path, t, acc, hg => by
    rw [resolveSupersMF_succ]
    split
    · rename_i hk
      refine ⟨hg, Or.inr (Or.inr ?_)⟩
      rintro u ⟨k, d, hk', _, _⟩
      rw [hk] at hk'; cases hk'
    · rename_i k hk
      split
      · exact ⟨Or.inl rfl, Or.inl rfl⟩
      · split
        · rename_i hd
          refine ⟨hg, Or.inr (Or.inr ?_)⟩
          rintro u ⟨k', d, hk', hd', _⟩
          rw [hk] at hk'; cases hk'
          rw [hd] at hd'; cases hd'
        · rename_i d hd
          -- fold invariant
          have hfold : ∀ (l done : List Ty) (a : SupAcc), Good tab a →
              (a.2.1 = true ∨ a.2.2 = true ∨ ∀ u ∈ done, MemIn a.1 u) →
              Good tab (l.foldl (memoStep tab fuel (k :: path)) a) ∧
              ((l.foldl (memoStep tab fuel (k :: path)) a).2.1 = true ∨
               (l.foldl (memoStep tab fuel (k :: path)) a).2.2 = true ∨
               ∀ u ∈ done ++ l, MemIn (l.foldl (memoStep tab fuel (k :: path)) a).1 u) := by
            intro l
            induction l with
            | nil => intro done a ha hdone; simpa using ⟨ha, hdone⟩
            | cons s l ih =>
              intro done a ha hdone
              simp only [List.foldl_cons]
              have key : Good tab (memoStep tab fuel (k :: path) a s) ∧
                  ((memoStep tab fuel (k :: path) a s).2.1 = true ∨ (memoStep tab fuel (k :: path) a s).2.2 = true ∨
                    ∀ u ∈ done ++ [s], MemIn (memoStep tab fuel (k :: path) a s).1 u) := by
                by_cases hm : (a.1.any fun u => sameType u s) = true
                · simp only [memoStep, hm, if_true]
                  refine ⟨ha, ?_⟩
                  rcases hdone with h | h | h
                  · exact Or.inl h
                  · exact Or.inr (Or.inl h)
                  · refine Or.inr (Or.inr ?_)
                    intro u hu
                    rcases List.mem_append.1 hu with hu | hu
                    · exact h u hu
                    · simp at hu; subst hu; exact (any_iff_MemIn a.1 u).1 hm
                · obtain ⟨hg1, hp1⟩ := memo_invariant tab fuel (k :: path) s a ha
                  obtain ⟨suf, hext⟩ := memo_extends tab fuel (k :: path) s a
                  simp only [memoStep, hm]
                  generalize hr : resolveSupersMF tab fuel (k :: path) s a = r at hg1 hp1 hext
                  by_cases hf : r.2.1 = true
                  · exact ⟨Or.inl hf, Or.inl hf⟩
                  by_cases hx : r.2.2 = true
                  · exact ⟨Or.inr (Or.inl hx), Or.inr (Or.inl hx)⟩
                  have hord : Ordered tab r.1 := by
                    rcases hg1 with h | h | h
                    · exact absurd h hf
                    · exact absurd h hx
                    · exact h
                  have hpost : ∀ u, Edge tab s u → MemIn r.1 u := by
                    rcases hp1 with h | h | h
                    · exact absurd h hf
                    · exact absurd h hx
                    · exact h
                  refine ⟨Or.inr (Or.inr ?_), Or.inr (Or.inr ?_)⟩
                  · show Ordered tab (r.1 ++ [s])
                    unfold Ordered
                    rw [orderedAux_snoc]
                    exact ⟨hord, by simpa using hpost⟩
                  · intro u hu
                    show MemIn (r.1 ++ [s]) u
                    rcases List.mem_append.1 hu with hu | hu
                    · -- u was collected before: it still is
                      have hflag : ¬ a.2.1 = true := by
                        intro h
                        have := cyclic_flag_monotone_memo tab fuel (k :: path) s a h
                        rw [hr] at this; exact hf this
                      rcases hdone with h | h | h
                      · exact absurd h hflag
                      · exfalso
                        have := memo_exhausted_monotone tab fuel (k :: path) s a h
                        rw [hr] at this; exact hx this
                      · obtain ⟨e, he, hs⟩ := h u hu
                        exact ⟨e, by rw [hext]; simp [he], hs⟩
                    · simp at hu; subst hu
                      exact ⟨u, by simp, sameType_refl u⟩
              obtain ⟨hg2, hd2⟩ := key
              have := ih (done ++ [s]) _ hg2 hd2
              simpa [List.append_assoc] using this
          have := hfold (d.supers.map (subst (d.tparams.zip (targsOf t)))) [] acc hg (Or.inr (Or.inr (by simp)))
          refine ⟨this.1, ?_⟩
          rcases this.2 with h | h | h
          · exact Or.inl h
          · exact Or.inr (Or.inl h)
          · refine Or.inr (Or.inr ?_)
            rintro u ⟨k', d', hk', hd', hu⟩
            rw [hk] at hk'; cases hk'
            rw [hd] at hd'; cases hd'
            exact h u (by simpa using hu)

/-- **Result of the memoised walk.** Unless `is_cyclic` is set (or the model's budget ran out, which
the driver checks never happens), the collected list is topologically ordered and contains every
direct super type of the queried type. -/
theorem memo_result_ordered (tab : List Decl) (t : Ty) :
    (resolveSupersM tab t).2.1 = true ∨ (resolveSupersM tab t).2.2 = true ∨
      (Ordered tab (resolveSupersM tab t).1 ∧ ∀ u, Edge tab t u → MemIn (resolveSupersM tab t).1 u) := by
  have := memo_invariant tab (tab.length + 2) [] t ([], false, false) (Or.inr (Or.inr (by simp [Ordered, OrderedAux])))
  unfold resolveSupersM
  rcases this.1 with h | h | h
  · exact Or.inl h
  · exact Or.inr (Or.inl h)
  · rcases this.2 with h' | h' | h'
    · exact Or.inl h'
    · exact Or.inr (Or.inl h')
    · exact Or.inr (Or.inr ⟨h, h'⟩)

/-! ## An ordered result contains no cycle: the memoised walk reports every reachable cycle -/

/-- declared super types are nominal types (`NominalType` in the Rust code) -/
def WfTab (tab : List Decl) : Prop :=
  ∀ k d, findDecl tab k = some d → ∀ s ∈ d.supers, ∃ st m i ts, s = Ty.nominal st m i ts

def keysOf (l : List Ty) : List (Nat × Nat) := l.filterMap keyOf

theorem keyOf_subst_nominal (σ : Subst) (st : Bool) (m i : Nat) (ts : List Ty) :
    keyOf (subst σ (.nominal st m i ts)) = some (m, i) := by
  simp [subst, keyOf]

theorem sameType_keyOf (e u : Ty) (k : Nat × Nat) (h : sameType e u = true) (hu : keyOf u = some k) :
    keyOf e = some k := by
  cases u <;> simp [keyOf] at hu
  cases e <;> simp [sameType] at h
  rename_i s m i ts s' m' i' ts'
  simp only [keyOf, Option.some.injEq]
  rw [← hu, h.1.1, h.1.2]

theorem memIn_key (l : List Ty) (u : Ty) (k : Nat × Nat) (h : MemIn l u) (hu : keyOf u = some k) :
    k ∈ keysOf l := by
  obtain ⟨e, he, hs⟩ := h
  have := sameType_keyOf e u k hs hu
  simp only [keysOf, List.mem_filterMap]
  exact ⟨e, he, this⟩

/-- a walk that returns can be replayed from any other instance of the same toplevel -/
theorem returns_transfer (tab : List Decl) (hw : WfTab tab) : ∀ (n : Nat) (u : Ty) (seen : List (Nat × Nat)),
    Returns tab n u seen → ∀ u', keyOf u' = keyOf u → Returns tab n u' seen := by
  intro n u seen h
  induction h with
  | hit n t k seen hk hmem =>
    intro u' hu'
    exact Returns.hit n u' k seen (by rw [hu', hk]) hmem
  | step n t w k seen hedge _ ih =>
    intro u' hu'
    obtain ⟨hk, d, hd, hwm⟩ := hedge
    simp only [List.mem_map] at hwm
    obtain ⟨sup, hsup, rfl⟩ := hwm
    obtain ⟨st, m, i, ts, rfl⟩ := hw k d hd sup hsup
    refine Returns.step n u' (subst (d.tparams.zip (targsOf u')) (.nominal st m i ts)) k seen
      ⟨by rw [hu', hk], d, hd, List.mem_map_of_mem hsup⟩ ?_
    apply ih
    rw [keyOf_subst_nominal, keyOf_subst_nominal]

/-- no walk that starts at a collected toplevel can return to anything but a collected toplevel -/
def Closed (tab : List Decl) (l : List Ty) : Prop :=
  ∀ (n : Nat) (u : Ty) (seen : List (Nat × Nat)) (k : Nat × Nat), keyOf u = some k → k ∈ keysOf l →
    Returns tab n u seen → ∃ κ ∈ seen, κ ∈ keysOf l

theorem keysOf_append (a b : List Ty) : keysOf (a ++ b) = keysOf a ++ keysOf b := by
  simp [keysOf, List.filterMap_append]

theorem closed_snoc (tab : List Decl) (hw : WfTab tab) (pre : List Ty) (s : Ty)
    (hc : Closed tab pre) (hs : ∀ u, Edge tab s u → MemIn pre u) : Closed tab (pre ++ [s]) := by
  intro n u seen k hk hmem hret
  rw [keysOf_append] at hmem ⊢
  by_cases hpre : k ∈ keysOf pre
  · obtain ⟨κ, h1, h2⟩ := hc n u seen k hk hpre hret
    exact ⟨κ, h1, by simp [h2]⟩
  · -- then `k` is the key of `s`
    have hks : keyOf s = some k := by
      rcases List.mem_append.1 hmem with h | h
      · exact absurd h hpre
      · cases hs' : keyOf s with
        | none => simp [keysOf, hs'] at h
        | some k' => simp [keysOf, hs'] at h; rw [h]
    cases hret with
    | hit _ _ k' _ hk' hm =>
      rw [hk] at hk'; cases hk'
      exact ⟨k, hm, by simp [keysOf, hks]⟩
    | step n' _ w k' _ hedge hrest =>
      obtain ⟨hk', d, hd, hwm⟩ := hedge
      rw [hk] at hk'; cases hk'
      simp only [List.mem_map] at hwm
      obtain ⟨sup, hsup, rfl⟩ := hwm
      obtain ⟨st, m, i, ts, rfl⟩ := hw k d hd sup hsup
      -- the same declared super type, instantiated at `s`, was collected before `s`
      have hin := hs (subst (d.tparams.zip (targsOf s)) (.nominal st m i ts))
        ⟨k, d, hks, hd, List.mem_map_of_mem hsup⟩
      have hkey := memIn_key pre _ (m, i) hin (keyOf_subst_nominal _ st m i ts)
      obtain ⟨κ, h1, h2⟩ := hc n' _ (k :: seen) (m, i) (keyOf_subst_nominal _ st m i ts) hkey hrest
      rcases List.mem_cons.1 h1 with rfl | h1'
      · exact absurd h2 hpre
      · exact ⟨κ, h1', by simp [h2]⟩

theorem ordered_closed (tab : List Decl) (hw : WfTab tab) : ∀ (rest pre : List Ty),
    OrderedAux tab pre rest → Closed tab pre → Closed tab (pre ++ rest)
  | [], pre, _, hc => by simpa using hc
  | s :: rest, pre, ho, hc => by
    have := ordered_closed tab hw rest (pre ++ [s]) ho.2 (closed_snoc tab hw pre s hc ho.1)
    simpa [List.append_assoc] using this

/-- **Every reachable cycle is reported by the memoised walk** (the code since fix 8144d53c): if a
cycle of the declaration graph can be reached from `t`, the result has `is_cyclic` set — or the
model's recursion budget was exhausted, which the driver reports and the `supm` stream never
observes. No bound on the length of the walk to the cycle. -/
theorem cycle_detected_memo (tab : List Decl) (hw : WfTab tab) (t : Ty) (n : Nat)
    (h : Returns tab n t []) :
    (resolveSupersM tab t).2.1 = true ∨ (resolveSupersM tab t).2.2 = true := by
  rcases memo_result_ordered tab t with hf | hx | ⟨hord, hpost⟩
  · exact Or.inl hf
  · exact Or.inr hx
  · exfalso
    have hclosed : Closed tab (resolveSupersM tab t).1 := by
      have := ordered_closed tab hw (resolveSupersM tab t).1 [] hord (by
        intro n u seen k _ hk; simp [keysOf] at hk)
      simpa using this
    cases h with
    | hit _ _ k _ _ hm => simp at hm
    | step n' _ w k _ hedge hrest =>
      obtain ⟨hk, d, hd, hwm⟩ := hedge
      have hwm' := hwm
      simp only [List.mem_map] at hwm'
      obtain ⟨sup, hsup, rfl⟩ := hwm'
      obtain ⟨st, m, i, ts, rfl⟩ := hw k d hd sup hsup
      have hin := hpost _ ⟨k, d, hk, hd, hwm⟩
      have hkey := memIn_key _ _ (m, i) hin (keyOf_subst_nominal _ st m i ts)
      obtain ⟨κ, h1, h2⟩ := hclosed n' _ [k] (m, i) (keyOf_subst_nominal _ st m i ts) hkey hrest
      simp at h1; subst h1
      -- the toplevel of `t` itself is collected: replay the walk from that collected instance
      simp only [keysOf, List.mem_filterMap] at h2
      obtain ⟨t', ht', hkt'⟩ := h2
      have hret' := returns_transfer tab hw (n' + 1) t []
        (Returns.step n' t _ κ [] ⟨hk, d, hd, hwm⟩ hrest) t' (by rw [hkt', hk])
      obtain ⟨κ', h3, _⟩ := hclosed (n' + 1) t' [] κ hkt' (by
        simp only [keysOf, List.mem_filterMap]; exact ⟨t', ht', hkt'⟩) hret'
      simp at h3

example : WfTab [⟨(1, 1), [], [.nominal false 1 2 []]⟩, ⟨(1, 2), [], [.nominal false 1 1 []]⟩] := by
  intro k d h s hs
  simp only [findDecl] at h
  split at h
  · cases h; simp at hs; exact ⟨_, _, _, _, hs⟩
  · split at h
    · cases h; simp at hs; exact ⟨_, _, _, _, hs⟩
    · cases h

/-! ## No duplicates in the list collected by the memoised walk -/

/-- visiting a type whose toplevel is already on the path sets the flag (or exhausts the budget) -/
theorem memo_path_hit (tab : List Decl) (fuel : Nat) (path : List (Nat × Nat)) (t : Ty) (acc : SupAcc)
    (κ : Nat × Nat) (hk : keyOf t = some κ) (hp : κ ∈ path) :
    (resolveSupersMF tab fuel path t acc).2.1 = true ∨ (resolveSupersMF tab fuel path t acc).2.2 = true := by
  cases fuel with
  | zero => right; simp [resolveSupersMF]
  | succ fuel =>
    left
    rw [resolveSupersMF_succ, hk]
    simp [hp]

theorem memoStep_flag_mono (tab : List Decl) (fuel : Nat) (path : List (Nat × Nat)) (a : SupAcc) (s : Ty)
    (h : a.2.1 = true) : (memoStep tab fuel path a s).2.1 = true := by
  simp only [memoStep]
  split
  · exact h
  · exact cyclic_flag_monotone_memo tab fuel path s a h

theorem memoStep_exh_mono (tab : List Decl) (fuel : Nat) (path : List (Nat × Nat)) (a : SupAcc) (s : Ty)
    (h : a.2.2 = true) : (memoStep tab fuel path a s).2.2 = true := by
  simp only [memoStep]
  split
  · exact h
  · exact memo_exhausted_monotone tab fuel path s a h

theorem fold_exh_mono (f : SupAcc → Ty → SupAcc) (hm : ∀ a s, a.2.2 = true → (f a s).2.2 = true) :
    ∀ (l : List Ty) (acc : SupAcc), acc.2.2 = true → (l.foldl f acc).2.2 = true
  | [], _, h => h
  | s :: l, acc, h => fold_exh_mono f hm l (f acc s) (hm acc s h)

/-- Everything an unflagged, unexhausted walk appends has a toplevel that is neither on the path nor
the toplevel of the visited type. -/
theorem memo_pushed_keys (tab : List Decl) : ∀ (fuel : Nat) (path : List (Nat × Nat)) (t : Ty) (acc : SupAcc),
    (resolveSupersMF tab fuel path t acc).2.1 = false → (resolveSupersMF tab fuel path t acc).2.2 = false →
    ∀ e ∈ (resolveSupersMF tab fuel path t acc).1,
      e ∈ acc.1 ∨ ∀ κ, keyOf e = some κ → κ ∉ path ∧ keyOf t ≠ some κ
  | 0, _, _, acc, _, hx => by simp [resolveSupersMF] at hx
  | fuel + 1, path, t, acc, hf, hx => by
    rw [resolveSupersMF_succ] at hf hx ⊢
    cases hk : keyOf t with
    | none => simp only [hk] at hf hx ⊢; intro e he; exact Or.inl he
    | some k =>
      simp only [hk] at hf hx ⊢
      by_cases hnp : path.contains k = true
      · rw [if_pos hnp] at hf; simp at hf
      · have hnp' : path.contains k = false := by simpa using hnp
        simp only [hnp', Bool.false_eq_true, if_false] at hf hx ⊢
        cases hd : findDecl tab k with
        | none => simp only [hd] at hf hx ⊢; intro e he; exact Or.inl he
        | some d =>
          simp only [hd] at hf hx ⊢
          have hfold : ∀ (l : List Ty) (a : SupAcc),
              (l.foldl (memoStep tab fuel (k :: path)) a).2.1 = false →
              (l.foldl (memoStep tab fuel (k :: path)) a).2.2 = false →
              ∀ e ∈ (l.foldl (memoStep tab fuel (k :: path)) a).1,
                e ∈ a.1 ∨ ∀ κ, keyOf e = some κ → κ ∉ k :: path := by
            intro l
            induction l with
            | nil => intro a _ _ e he; exact Or.inl he
            | cons s l ih =>
              intro a hf' hx' e he
              simp only [List.foldl_cons] at hf' hx' he
              have hfa : (memoStep tab fuel (k :: path) a s).2.1 = false := by
                cases h : (memoStep tab fuel (k :: path) a s).2.1 with
                | false => rfl
                | true =>
                  have := fold_flag_mono _ (memoStep_flag_mono tab fuel (k :: path)) l _ h
                  rw [this] at hf'; cases hf'
              have hxa : (memoStep tab fuel (k :: path) a s).2.2 = false := by
                cases h : (memoStep tab fuel (k :: path) a s).2.2 with
                | false => rfl
                | true =>
                  have := fold_exh_mono _ (memoStep_exh_mono tab fuel (k :: path)) l _ h
                  rw [this] at hx'; cases hx'
              rcases ih _ hf' hx' e he with h1 | h1
              · -- e was in the accumulator after this step
                by_cases hm : (a.1.any fun u => sameType u s) = true
                · simp only [memoStep, hm, if_true] at h1; exact Or.inl h1
                · simp only [memoStep, hm] at h1 hfa hxa
                  rcases List.mem_append.1 h1 with h2 | h2
                  · rcases memo_pushed_keys tab fuel (k :: path) s a hfa hxa e h2 with h3 | h3
                    · exact Or.inl h3
                    · exact Or.inr fun κ hκ => (h3 κ hκ).1
                  · simp at h2; subst h2
                    right
                    intro κ hκ hin
                    rcases memo_path_hit tab fuel (k :: path) e a κ hκ hin with h | h
                    · rw [h] at hfa; cases hfa
                    · rw [h] at hxa; cases hxa
              · exact Or.inr h1
          intro e he
          rcases hfold _ acc hf hx e he with h | h
          · exact Or.inl h
          · right
            intro κ hκ
            have := h κ hκ
            simp only [List.mem_cons, not_or] at this
            exact ⟨this.2, by intro hc; cases hc; exact this.1 rfl⟩

/-- no two collected types are "the same type" -/
def NoDupS (l : List Ty) : Prop := l.Pairwise (fun e s => sameType e s = false)

def Good2 (a : SupAcc) : Prop := a.2.1 = true ∨ a.2.2 = true ∨ NoDupS a.1

/-- The memoised walk never collects a type twice (unless it flags a cycle / runs out of budget). -/
theorem memo_nodup_invariant (tab : List Decl) (hw : WfTab tab) : ∀ (fuel : Nat) (path : List (Nat × Nat))
    (t : Ty) (acc : SupAcc), Good2 acc → Good2 (resolveSupersMF tab fuel path t acc)
  | 0, _, _, _, _ => by simp [resolveSupersMF, Good2]
  | fuel + 1, path, t, acc, hg => by
    rw [resolveSupersMF_succ]
    split
    · exact hg
    · rename_i k hk
      split
      · exact Or.inl rfl
      · split
        · exact hg
        · rename_i d hd
          have hfold : ∀ (l : List Ty) (a : SupAcc), (∀ s ∈ l, ∃ st m i ts, s = Ty.nominal st m i ts) →
              Good2 a → Good2 (l.foldl (memoStep tab fuel (k :: path)) a) := by
            intro l
            induction l with
            | nil => intro a _ h; exact h
            | cons s l ih =>
              intro a hnom ha
              simp only [List.foldl_cons]
              apply ih _ (fun x hx => hnom x (by simp [hx]))
              obtain ⟨st, m, i, ts, hs_eq⟩ := hnom s (by simp)
              subst hs_eq
              by_cases hm : (a.1.any fun u => sameType u (Ty.nominal st m i ts)) = true
              · simpa [memoStep, hm] using ha
              · simp only [memoStep, hm]
                have hr := memo_nodup_invariant tab hw fuel (k :: path) (Ty.nominal st m i ts) a ha
                have hpk := memo_pushed_keys tab fuel (k :: path) (Ty.nominal st m i ts) a
                generalize resolveSupersMF tab fuel (k :: path) (Ty.nominal st m i ts) a = r at hr hpk
                by_cases hf : r.2.1 = true
                · exact Or.inl hf
                by_cases hx : r.2.2 = true
                · exact Or.inr (Or.inl hx)
                have hnd : NoDupS r.1 := by
                  rcases hr with h | h | h
                  · exact absurd h hf
                  · exact absurd h hx
                  · exact h
                refine Or.inr (Or.inr ?_)
                show NoDupS (r.1 ++ [Ty.nominal st m i ts])
                unfold NoDupS
                rw [List.pairwise_append]
                refine ⟨hnd, by simp, ?_⟩
                intro e he s' hs'
                have hs'' : s' = Ty.nominal st m i ts := by simpa using hs'
                subst hs''
                cases hse : sameType e (Ty.nominal st m i ts) with
                | false => rfl
                | true =>
                  exfalso
                  have hkey := sameType_keyOf e _ (m, i) hse (by simp [keyOf])
                  rcases hpk (by simpa using hf) (by simpa using hx) e he with h | h
                  · apply hm
                    exact (any_iff_MemIn a.1 _).2 ⟨e, h, hse⟩
                  · exact (h (m, i) hkey).2 (by simp [keyOf])
          apply hfold _ acc _ hg
          intro s hs
          simp only [List.mem_map] at hs
          obtain ⟨sup, hsup, rfl⟩ := hs
          obtain ⟨st, m, i, ts, rfl⟩ := hw k d hd sup hsup
          exact ⟨st, m, i, substL (d.tparams.zip (targsOf t)) ts, by simp [subst]⟩

/-- **No duplicates.** Unless `is_cyclic` is set (or the model's budget ran out) the list collected
by the memoised walk contains no two types that are the same type. -/
theorem memo_result_nodup (tab : List Decl) (hw : WfTab tab) (t : Ty) :
    (resolveSupersM tab t).2.1 = true ∨ (resolveSupersM tab t).2.2 = true ∨ NoDupS (resolveSupersM tab t).1 :=
  memo_nodup_invariant tab hw (tab.length + 2) [] t ([], false, false) (Or.inr (Or.inr List.Pairwise.nil))

end SamVerif.Gates
