import SamVerif.Lemmas.OptKernel
import SamVerif.Model.OptTempPhases
/-!
# C02 — optimisation passes never change output or termination: property theorems

Model: `SamVerif/Model/OptKernel.lean` (kernels of CCP, operand reordering, constant merging,
trip counts, IV elimination, strength reduction). All statements quantify over *all* 32-bit
operands / expressions / valuations / loop parameters; no bounds. Where the unchanged code
falsifies the full-strength statement, the file keeps that statement (as the body of the negated
`…_counterexample` theorem), proves the negation by a concrete witness and proves a `…_partial`
theorem under an explicit decidable side condition. The witnesses are replayed on the real code by
`vlib/c02.py` (known findings C02-F1 … C02-F7).
-/
namespace SamVerif.Opt

/-! ## 1. Constant folding (`evaluate_bin_op`) computes exactly what the target computes

History: before `fix:` 3b705a0 the evaluator used unchecked `+ - * / % <<`; the full statement was
false (`fold_exact_counterexample`: `MAX + 1` panicked; `fold_mod_counterexample`: `MIN % -1`
panicked although the target computes 0) and only `fold_exact_partial`/`fold_total_partial` held.
The model now follows the fixed code and the full-strength statement is proved. -/

theorem fold_val_exact (op : Op) (a b v : Int)
    (h : evalImpl op a b = .val v) : evalTarget op a b = some v := by
  cases op <;> simp only [evalImpl, evalTarget] at h ⊢
  case div =>
    split at h
    · simp at h
    · rename_i hc
      have h1 : ¬ b = 0 := fun e => hc (Or.inl e)
      have h2 : ¬ (a = -2147483648 ∧ b = -1) := fun e => hc (Or.inr e)
      simp only [h1, h2, if_false]; simpa using h
  case mod =>
    split at h
    · simp at h
    · rename_i hb; simp only [hb, if_false]; simpa using h
  all_goals simpa using h

theorem fold_nofold_traps (op : Op) (a b : Int) (h : evalImpl op a b = .nofold) :
    evalTarget op a b = none := by
  cases op <;> simp only [evalImpl, evalTarget] at h ⊢
  case div =>
    split at h
    · rename_i hc
      rcases hc with hc | hc
      · simp [hc]
      · by_cases hb : b = 0
        · simp [hb]
        · simp [hc]
    · simp at h
  case mod =>
    split at h
    · rename_i hc; simp [hc]
    · simp at h
  all_goals simp at h

theorem fold_never_panics (op : Op) (a b : Int) : evalImpl op a b ≠ .panic := by
  cases op <;> simp only [evalImpl] <;> (try split) <;> simp

/-- FULL STRENGTH: for every operator and all operands the evaluator either produces exactly the
value the target computes (wrap-around, truncating division, masked shift counts, 0/1
comparisons) or declines exactly when the target traps, in which case the statement is kept. -/
theorem fold_exact (op : Op) (a b : Int) :
    (∃ v, evalImpl op a b = .val v ∧ evalTarget op a b = some v) ∨
    (evalImpl op a b = .nofold ∧ evalTarget op a b = none) := by
  cases h : evalImpl op a b with
  | val v => exact Or.inl ⟨v, rfl, fold_val_exact op a b v h⟩
  | nofold => exact Or.inr ⟨rfl, fold_nofold_traps op a b h⟩
  | panic => exact absurd h (fold_never_panics op a b)
example : evalImpl .mul 65536 32767 = .val 2147418112 := by decide
example : evalImpl .add 2147483647 1 = .val (-2147483648) := by decide
example : evalImpl .mod (-2147483648) (-1) = .val 0 := by decide
example : evalImpl .div (-2147483648) (-1) = .nofold := by decide
example : evalImpl .div 7 0 = .nofold := by decide

/-! ## 2. CCP's literal / algebraic rules -/

/-- FULL STATEMENT (false): every rule that replaces `e1 op e2` by an operand yields the value the
target computes. Witness: `x / x → 1` at `x = 0` removes the division-by-zero trap (C02-F2). -/
theorem ccp_rule_exact_counterexample :
    ¬ (∀ (op : Op) (e1 e2 r : Operand) (ρ : Nat → Int), (∀ x, InRange (ρ x)) →
        ccpRule op e1 e2 = .bind r → evalTarget op (e1.eval ρ) (e2.eval ρ) = some (r.eval ρ)) := by
  intro h
  have := h .div (.var 0) (.var 0) (.lit 1) (fun _ => 0) (by intro _; decide) (by decide)
  revert this; decide

/-- The rule that is not exact: `x / x`, `x % x` with `x = 0`. -/
def CcpSafe (op : Op) (e1 e2 : Operand) (ρ : Nat → Int) : Prop :=
  match e1, e2 with
  | .var x, .var y => (x = y ∧ (op = .div ∨ op = .mod)) → ρ x ≠ 0
  | _, _ => True

theorem ccp_rule_exact_partial (op : Op) (e1 e2 r : Operand) (ρ : Nat → Int)
    (hρ : ∀ x, InRange (ρ x)) (hl1 : ∀ n, e1 = .lit n → InRange n)
    (hs : CcpSafe op e1 e2 ρ)
    (h : ccpRule op e1 e2 = .bind r) :
    evalTarget op (e1.eval ρ) (e2.eval ρ) = some (r.eval ρ) := by
  have hin1 : InRange (e1.eval ρ) := by
    cases e1 with
    | lit n => exact hl1 n rfl
    | var x => exact hρ x
  cases e2 with
  | lit v2 =>
    simp only [ccpRule] at h
    split at h
    · rename_i hc; obtain ⟨rfl, rfl⟩ := hc
      injection h with h; subst h
      show evalTarget .add (e1.eval ρ) 0 = some (e1.eval ρ)
      simp only [evalTarget, Int.add_zero, wrap32_of_inRange hin1]
    · split at h
      · rename_i hc; obtain ⟨rfl, rfl⟩ := hc
        injection h with h; subst h
        simp [evalTarget, Operand.eval, wrap32]
      · split at h
        · rename_i hc; obtain ⟨rfl, rfl⟩ := hc
          injection h with h; subst h
          simp [evalTarget, Operand.eval]
        · split at h
          · rename_i hc; obtain ⟨rfl, hop⟩ := hc
            injection h with h; subst h
            rcases hop with rfl | rfl
            · show evalTarget .mul (e1.eval ρ) 1 = some (e1.eval ρ)
              simp only [evalTarget, Int.mul_one, wrap32_of_inRange hin1]
            · show evalTarget .div (e1.eval ρ) 1 = some (e1.eval ρ)
              simp [evalTarget]
          · cases e1 with
            | lit v1 =>
              simp only at h
              split at h
              · rename_i v hv
                injection h with h; subst h
                exact fold_val_exact op v1 v2 v hv
              · simp at h
              · simp at h
            | var x => simp at h
  | var y =>
    simp only [ccpRule, ccpSameVar] at h
    cases e1 with
    | lit n => simp at h
    | var x =>
      simp only at h
      split at h
      · rename_i hxy; subst hxy
        simp only [CcpSafe] at hs
        split at h
        · rename_i hop
          injection h with h; subst h
          rcases hop with rfl | rfl
          · simp [evalTarget, Operand.eval, wrap32]
          · have := hs ⟨trivial, Or.inr rfl⟩
            simp [evalTarget, Operand.eval, this]
        · split at h
          · rename_i hop; subst hop
            injection h with h; subst h
            have h0 := hs ⟨trivial, Or.inl rfl⟩
            have := hρ x
            simp [evalTarget, Operand.eval, h0]
            unfold InRange at this; omega
          · simp at h
      · simp at h
example : ccpRule .mul (.var 3) (.lit 0) = .bind (.lit 0) := by decide
example : CcpSafe .div (.var 0) (.var 0) (fun _ => 5) := by simp [CcpSafe]

/-! ## 3. Operand reordering and comparison flipping (`mir.rs:664-747`) — full strength -/

def evalE (V : Valuation) (t : Op × Expr × Expr) : Option Int :=
  evalTarget t.1 (V.f t.2.1) (V.f t.2.2)

theorem binaryUnwrapped_sound (V : Valuation) (op : Op) (e1 e2 : Expr) :
    evalE V (binaryUnwrapped op e1 e2) = evalTarget op (V.f e1) (V.f e2) := by
  unfold binaryUnwrapped
  split
  · split
    · simp only [evalE, evalTarget, V.lit, Int.sub_eq_add_neg]
    · rfl
  · rfl

theorem flexibleOrder_sound (V : Valuation) (op : Op) (e1 e2 : Expr) :
    evalE V (flexibleOrder op e1 e2) = evalTarget op (V.f e1) (V.f e2) := by
  rw [← binaryUnwrapped_sound V op e1 e2]
  unfold flexibleOrder
  generalize binaryUnwrapped op e1 e2 = t
  obtain ⟨o, a, b⟩ := t
  cases o <;> simp only [evalE]
  all_goals (try split)
  all_goals (try rfl)
  all_goals (first
    | (apply evalTarget_comm; simp)
    | (simp only [evalTarget, gt_iff_lt, ge_iff_le]))

theorem flexUnwrapped_sound (V : Valuation) (op : Op) (e1 e2 : Expr) :
    evalE V (flexUnwrapped op e1 e2) = evalTarget op (V.f e1) (V.f e2) := by
  rw [← flexibleOrder_sound V op e1 e2]
  unfold flexUnwrapped
  generalize flexibleOrder op e1 e2 = t
  obtain ⟨o, a, b⟩ := t
  exact binaryUnwrapped_sound V o a b
example : flexUnwrapped .lt (.i32 3) (.var 2) = (.gt, .var 2, .i32 3) := by decide
example : flexUnwrapped .sub (.var 1) (.i32 5) = (.add, .var 1, .i32 (-5)) := by decide
example : binaryUnwrapped .sub (.var 1) (.i32 (-2147483648)) = (.sub, .var 1, .i32 (-2147483648)) := by decide

/-! ## 4. Merging of constants through two statements (`merge_binary_expression`) -/

/-- `(x inner c1) outer c2` on the target. -/
def evalNested (outer inner : Op) (x c1 c2 : Int) : Option Int :=
  (evalTarget inner x c1).bind fun y => evalTarget outer y c2

def Op.isOrd : Op → Bool
  | .lt | .le | .gt | .ge => true
  | _ => false

/-- FULL STATEMENT (false): a merged statement computes what the two original statements compute.
Witness: `(x + 1) < 0` becomes `x < -1`, wrong at `x = MAX` where `x + 1` wraps (C02-F3). -/
theorem merge_sound_counterexample :
    ¬ (∀ (outer inner op : Op) (x c1 c2 c : Int), InRange x → InRange c1 → InRange c2 →
        mergeBinary outer inner c1 c2 = .merged op c →
        evalNested outer inner x c1 c2 = evalTarget op x c) := by
  intro h
  have := h .lt .add .lt 2147483647 1 0 (-1) (by decide) (by decide) (by decide) (by decide)
  revert this; decide

theorem merge_sound_partial (outer inner op : Op) (x c1 c2 c : Int)
    (hx : InRange x) (h2 : InRange c2)
    (hs : outer.isOrd = true → InRange (x + c1))
    (h : mergeBinary outer inner c1 c2 = .merged op c) :
    evalNested outer inner x c1 c2 = evalTarget op x c := by
  unfold mergeBinary at h
  cases outer <;> simp only [] at h
  case add =>
    split at h
    · rename_i hi; subst hi
      injection h with h1 h2; subst h1; subst h2
      simp only [evalNested, evalTarget, Option.bind]
      congr 1; unfold wrap32; omega
    · simp at h
  case mul =>
    split at h
    · rename_i hi; subst hi
      injection h with h1 h2; subst h1; subst h2
      simp only [evalNested, evalTarget, Option.bind]
      rw [wrap32_mul_left, wrap32_mul_right, Int.mul_assoc]
    · simp at h
  case lt | le | gt | ge =>
    split at h
    · rename_i hi; subst hi
      simp only [chkM] at h; split at h
      · injection h with h1 h2; subst h1; subst h2
        have := hs rfl
        simp only [evalNested, evalTarget, Option.bind, wrap32_of_inRange this]
        congr 2; apply decide_eq_decide.mpr; omega
      · simp at h
    · simp at h
  case eq | ne =>
    split at h
    · rename_i hi; subst hi
      simp only [chkM] at h; split at h
      · rename_i hr
        injection h with h1 h2; subst h1; subst h2
        simp only [evalNested, evalTarget, Option.bind]
        congr 2; apply decide_eq_decide.mpr
        unfold InRange at hx h2 hr; unfold wrap32; omega
      · simp at h
    · simp at h
  all_goals simp at h

example : mergeBinary .lt .add 3 10 = .merged .lt 7 := by decide
example : mergeBinary .mul .mul 3 10 = .merged .mul 30 := by decide

/-! ## 5. Induction-variable elimination and strength reduction -/

/-- FULL STATEMENT (false): the loop after `loop_optimizations` prints the same values and breaks
with the same value as the original loop. Witness P2: guard `i <= 10` is replaced by `j < 20`
(always `<`), one iteration is lost (C02-F4). -/
theorem ivelim_counterexample :
    let L : ObsLoop := { g := .le, i0 := 0, step := 1, bound := 10, m := 2, c := 0 }
    runOriginal L 100 = .out [0, 0, 2, 4, 6, 8, 10, 12, 14, 16, 18] 20 ∧
    runOptimised L 100 = .out [0, 0, 2, 4, 6, 8, 10, 12, 14, 16] 18 := by
  decide

/-- History: before `fix:` d2fa066 a zero or negative literal multiplier was eliminated too and the
loop ran zero iterations (`ivelim_negative_multiplier_counterexample`); now such loops only get
strength reduction and behave like the original. -/
theorem ivelim_negative_multiplier_fixed :
    let L : ObsLoop := { g := .lt, i0 := 0, step := 1, bound := 3, m := -1, c := 0 }
    runOriginal L 100 = .out [0, 0, -1] (-2) ∧ runOptimised L 100 = .out [0, 0, -1] (-2) := by
  decide

/-- The part of IV elimination that is right: for guard `<`, a positive multiplier and no
overflow, the new guard `m*i+c < m*bound+c` decides exactly like `i < bound`. -/
theorem ivelim_guard_partial (m c i b : Int) (hm : 0 < m)
    (hi : InRange (c + m * i)) (hb : InRange (c + m * b)) :
    (addT c (mulT m i) < addT c (mulT m b)) ↔ i < b := by
  unfold addT mulT
  rw [wrap32_add_right, wrap32_add_right, wrap32_of_inRange hi, wrap32_of_inRange hb]
  constructor
  · intro h
    have : m * i < m * b := by omega
    exact (Int.mul_lt_mul_left hm).mp this
  · intro h
    have : m * i < m * b := (Int.mul_lt_mul_left hm).mpr h
    omega

theorem strength_sound (L : ObsLoop) (k : Nat) :
    iterW (addT L.c (mulT L.m L.i0)) (L.step * L.m) k = L.derived (iterW L.i0 L.step k) := by
  rw [derived_eq]
  induction k with
  | zero => simp only [iterW, addT, mulT, wrap32_add_right]
  | succ k ih =>
    simp only [iterW]
    rw [ih, wrap32_add_left]
    have h1 : wrap32 (L.c + L.m * wrap32 (iterW L.i0 L.step k + L.step))
        = wrap32 (L.c + L.m * (iterW L.i0 L.step k + L.step)) := by
      rw [← wrap32_add_right L.c (L.m * wrap32 _), wrap32_mul_right, wrap32_add_right]
    rw [h1]
    congr 1
    grind
example : (addT 1 (mulT 3 4) < addT 1 (mulT 3 5)) := by decide
example : iterW (addT 2 (mulT 3 0)) (1 * 3) 4 = 14 := by decide

/-! ### Loop level: what `loop_optimizations` makes of the observed counting loop -/

/-- FULL STRENGTH: when IV elimination does not apply (two derived statements hang off `i`, or the multiplier is not positive), what
`loop_optimizations` produces (strength reduction only) behaves exactly like the original loop,
for every loop of the family and every fuel. -/
theorem loopopt_strength_path_sound (L : ObsLoop) (h : L.singleDerived = false ∨ L.m ≤ 0) (fuel : Nat) :
    runOptimised L fuel = runOriginal L fuel := by
  unfold runOptimised runOriginal mergeMul
  have hc : ¬ (L.singleDerived = true ∧ 0 < L.m) := by
    rcases h with h | h
    · simp [h]
    · intro hh; omega
  simp only [hc, if_false]
  have := runStrength_eq L fuel 0 0 []
  simp only [iterW] at this
  simp [this]

/-- `ivelim_sound`, loop level, under the explicit condition that the new guard decides like the
old one at every iteration up to the exit (`n` = the original loop's trip count). -/
theorem ivelim_sound_partial (L : ObsLoop) (n : Nat) (hs : L.singleDerived = true) (hm0 : 0 < L.m)
    (hbr : BreaksAt L.g L.i0 L.step L.bound n)
    (hg : ∀ k, k ≤ n →
      decide (iterW (addT L.c (mulT L.m L.i0)) (wrap32 (L.step * L.m)) k < addT L.c (mulT L.m L.bound))
        = L.g.holds (iterW L.i0 L.step k) L.bound)
    (fuel : Nat) : runOptimised L fuel = runOriginal L fuel := by
  unfold runOptimised runOriginal mergeMul
  simp only [hs, hm0, and_self, if_true]
  have := runElim_eq L n hbr hg fuel 0 (by omega) 0 []
  simp only [iterW] at this
  rw [this]

/-- … and that condition holds for a `<` guard, a positive multiplier and no overflow of
`m*i + c` along the run (composition with `ivelim_guard_partial`). -/
theorem ivelim_sound_noovf (L : ObsLoop) (n : Nat) (hs : L.singleDerived = true)
    (hgd : L.g = .lt) (hm : 0 < L.m)
    (hbr : BreaksAt L.g L.i0 L.step L.bound n)
    (hov : ∀ k, k ≤ n → InRange (L.c + L.m * iterW L.i0 L.step k))
    (hb : InRange (L.c + L.m * L.bound))
    (fuel : Nat) : runOptimised L fuel = runOriginal L fuel := by
  apply ivelim_sound_partial L n hs hm hbr _ fuel
  intro k hk
  rw [strength_iter, derivedOf_eq, addT_mulT_eq, wrap32_of_inRange (hov k hk), wrap32_of_inRange hb, hgd]
  simp only [Guard.holds]
  apply decide_eq_decide.mpr
  constructor
  · intro h
    have : L.m * iterW L.i0 L.step k < L.m * L.bound := by omega
    exact (Int.mul_lt_mul_left hm).mp this
  · intro h
    have : L.m * iterW L.i0 L.step k < L.m * L.bound := (Int.mul_lt_mul_left hm).mpr h
    omega
example : ({ g := .lt, i0 := 0, step := 1, bound := 5, m := 3, c := 2 } : ObsLoop).singleDerived = false := by decide
example : runOptimised { g := .lt, i0 := 0, step := 1, bound := 5, m := 2, c := 0 } 20
        = runOriginal { g := .lt, i0 := 0, step := 1, bound := 5, m := 2, c := 0 } 20 := by decide

/-! ### Strength reduction in loops with several basic induction variables
(`loop_strength_reduction.rs:38-69`; the class of the seeded fault "initial value from the wrong
basic induction variable") -/

/-- FULL STRENGTH: in a loop with any number of basic induction variables, the loop variable that
strength reduction introduces for a derived variable `d = m * v_base + c` has, at every iteration,
exactly the value the original body computes — provided its initial value is taken from the
ASSOCIATED base variable. -/
theorem strength_multi_sound (ivs : List (Int × Int)) (d : Derived) (k : Nat)
    (hb : d.base < ivs.length) : srVal ivs d k = derivedVal ivs d k := by
  unfold srVal srParams derivedVal ivVal
  have : ivs[d.base]? = some ivs[d.base] := List.getElem?_eq_getElem hb
  rw [this]
  simp only [Option.map]
  exact strength_iter _ _ _ _ _

/-- FULL STRENGTH, whole transform: the strength-reduced loop prints exactly the trace of the
original loop, for every loop of the family, every fuel. -/
theorem strength_multi_trace (L : MultiLoop) (hb : ∀ d ∈ L.ds, d.base < L.ivs.length)
    (fuel k : Nat) (acc : List Int) :
    runMulti (srVal L.ivs) L fuel k acc = runMulti (derivedVal L.ivs) L fuel k acc := by
  induction fuel generalizing k acc with
  | zero => rfl
  | succ fuel ih =>
    simp only [runMulti]
    split
    · have : L.ds.map (fun d => srVal L.ivs d k) = L.ds.map (fun d => derivedVal L.ivs d k) := by
        apply List.map_congr_left
        intro d hd
        exact strength_multi_sound L.ivs d k (hb d hd)
      rw [this, ih]
    · rfl

/-- The fault class "initial value taken from another basic induction variable" is refuted by the
model: with two counters starting at different values the traces differ. -/
theorem strength_wrong_base_counterexample :
    let ivs : List (Int × Int) := [(0, 1), (7, 5)]
    let d : Derived := { base := 1, m := 3, c := 1 }
    derivedVal ivs d 0 = 22 ∧ iterW (addT d.c (mulT d.m 0)) (wrap32 (5 * d.m)) 0 = 1 := by
  decide
example : runMultiOpt { ivs := [(0, 1), (7, 5)], gi := 0, g := .lt, bound := 4, ds := [{ base := 1, m := 3, c := 1 }] } 10
        = some [0, 22, 1, 37, 2, 52, 3, 67] := by decide

/-! ## 6. Trip-count closed forms (`loop_algebraic_optimization.rs:10-58`)

History: before `fix:` 0934671 the closed form was computed in unchecked 32-bit arithmetic and
never asked whether the counter wraps; the full statement was false
(`tripcount_exact_counterexample`: `while (i < MAX) i += 2` from 0 never terminates on the target,
the closed form said 2^30; `tripcount_panics_counterexample`: `bound + 1` overflowed) and only
`tripcount_exact_partial` (side condition: final counter value in range) held. The fixed code
checks that side condition itself, so the full-strength statement is now a theorem. -/

/-- FULL STRENGTH: for all four guard kinds, every initial value, stride and bound: if the closed
form answers `n`, the target's loop `while (i G bound) i += step` leaves after exactly `n`
iterations. -/
theorem tripcount_exact (g : Guard) (i0 step bound n : Int)
    (hi : InRange i0) (hb : InRange bound)
    (h : tripCount g i0 step bound = .count n) :
    BreaksAt g i0 step bound n.toNat := by
  obtain ⟨h0, h1, h2, hs⟩ := tripCount_ideal g i0 step bound n hi h
  constructor
  · intro k hk
    have hk' : (k : Int) < n := by omega
    obtain ⟨hh, hr⟩ := h1 k (by omega) hk'
    rw [iterW_eq i0 step hi k]
    have : InRange (i0 + step * (k : Int)) := by
      unfold InRange at hi hb ⊢; omega
    rw [wrap32_of_inRange this]; exact hh
  · rw [iterW_eq i0 step hi n.toNat]
    have : ((n.toNat : Nat) : Int) = n := Int.toNat_of_nonneg h0
    rw [this, wrap32_of_inRange hs]; exact h2

/-- FULL STRENGTH: the final counter value the pass materialises (`initial + increment * n`,
loop_algebraic_optimization.rs) is the value the loop leaves in the counter. -/
theorem tripcount_final_value (g : Guard) (i0 step bound n : Int) (hi : InRange i0)
    (h : tripCount g i0 step bound = .count n) : iterW i0 step n.toNat = i0 + step * n := by
  obtain ⟨h0, _, _, hs⟩ := tripCount_ideal g i0 step bound n hi h
  rw [iterW_eq i0 step hi, Int.toNat_of_nonneg h0, wrap32_of_inRange hs]

/-- The former witnesses are now declined by the closed form. -/
theorem tripcount_declines_wrapping_loops :
    tripCount .lt 0 2 2147483647 = .unknown ∧ tripCount .le 0 1 2147483647 = .unknown ∧
    tripCount .ge 7 1 (-2147483647) = .unknown := by decide

example : tripCount .ge 9 (-2) 0 = .count 5 := by decide
example : tripCount .lt 0 2 2147483646 = .count 1073741823 := by decide
example : BreaksAt .lt 0 3 10 4 := tripcount_exact .lt 0 3 10 4 (by decide) (by decide) (by decide)
example : iterW 0 3 4 = 12 := by decide

/-! ## 7. Dead-code elimination keeps every possibly-trapping statement and every effect -/

/-- FULL STRENGTH: for every straight-line block, every set of names used afterwards and every two
environments that agree on the names DCE considers used at entry: the optimised block prints the
same values, traps iff the original traps, and ends in an environment that agrees on the names
used afterwards. -/
theorem dce_preserves (p : List SStmt) (live : List Nat) (ρ1 ρ2 : Nat → Int)
    (h : ∀ x, x ∈ (dce p live).2 → ρ1 x = ρ2 x) :
    (execS p ρ1).1 = (execS (dce p live).1 ρ2).1 ∧
    (match (execS p ρ1).2, (execS (dce p live).1 ρ2).2 with
     | none, none => True
     | some σ1, some σ2 => ∀ x, x ∈ live → σ1 x = σ2 x
     | _, _ => False) := by
  induction p generalizing ρ1 ρ2 with
  | nil => exact ⟨rfl, h⟩
  | cons s r ih =>
    cases s with
    | print a =>
      rw [dce_print] at h ⊢
      simp only [execS]
      have ha : a.eval ρ1 = a.eval ρ2 := eval_agree a ρ1 ρ2 (fun x hx => h x (by simp [hx]))
      have := ih ρ1 ρ2 (fun x hx => h x (by simp [hx]))
      refine ⟨by rw [ha, this.1], this.2⟩
    | bin y op a b =>
      by_cases hc : y ∉ (dce r live).2 ∧ op ≠ .div ∧ op ≠ .mod
      · -- dropped: y unused afterwards and op cannot trap
        rw [dce_bin, if_pos hc] at h ⊢
        obtain ⟨v, hv⟩ := evalTarget_total_of_not_div op (a.eval ρ1) (b.eval ρ1) hc.2.1 hc.2.2
        simp only [execS, hv]
        apply ih (update ρ1 y v) ρ2
        intro x hx
        have hxy : x ≠ y := fun e => hc.1 (e ▸ hx)
        simp only [update, hxy, if_false]
        exact h x hx
      · rw [dce_bin, if_neg hc] at h ⊢
        have ha : a.eval ρ1 = a.eval ρ2 := eval_agree a ρ1 ρ2 (fun x hx => h x (by simp [hx]))
        have hb : b.eval ρ1 = b.eval ρ2 := eval_agree b ρ1 ρ2 (fun x hx => h x (by simp [hx]))
        simp only [execS, ha, hb]
        cases hv : evalTarget op (a.eval ρ2) (b.eval ρ2) with
        | none => simp
        | some v =>
          simp only
          apply ih (update ρ1 y v) (update ρ2 y v)
          intro x hx
          simp only [update]
          split
          · rfl
          · exact h x (by simp [hx])

/-- The keep rule is necessary: dropping an unused division changes the outcome. -/
theorem dce_div_must_stay :
    (execS [.bin 0 .div (.lit 1) (.var 1)] (fun _ => 0)).2.isNone = true ∧
    (execS [] (fun _ => 0)).2.isSome = true ∧
    (dce [.bin 0 .div (.lit 1) (.var 1)] []).1 = [.bin 0 .div (.lit 1) (.var 1)] := by
  decide
example : (dce [.bin 2 .add (.var 0) (.lit 1), .bin 3 .mul (.var 0) (.var 1), .print (.var 3)] [3]).1
    = [.bin 3 .mul (.var 0) (.var 1), .print (.var 3)] := by decide

/-! ## 8. Loop-invariant code motion never introduces a trap -/

/-- FULL STRENGTH (`licm_no_new_trap`): whatever the loop body and whatever the environment, the
statements LICM places in front of the loop print nothing and cannot trap — so a loop that runs zero
iterations behaves as before. -/
theorem licm_no_new_trap (body : List SStmt) (variant : List Nat) (ρ : Nat → Int) :
    (execS (licm body variant).1 ρ).1 = [] ∧ (execS (licm body variant).1 ρ).2.isSome = true :=
  execS_noTrap _ (licm_hoisted_noTrap body variant) ρ

/-- Historical witness (before `fix:` 5a00c22 the rule had no operator test): hoisting an
invariant division introduces a trap into a zero-iteration loop. -/
theorem licm_div_hoist_counterexample :
    (execS [.bin 2 .div (.var 0) (.var 1)] (fun _ => 0)).2.isNone = true ∧
    (licm [.bin 2 .div (.var 0) (.var 1)] [5]).1 = [] := by decide
example : (licm [.bin 2 .mul (.var 1) (.lit 3), .bin 3 .add (.var 0) (.var 2), .bin 4 .div (.var 1) (.var 1)] [0]).1
    = [.bin 2 .mul (.var 1) (.lit 3)] := by decide

/-! ## 9. Local value numbering rewrites every consuming position (incl. `Break`)

`lvnSimple_preserves` (in `Lemmas/OptKernel.lean`, audited below) is the general statement for
arbitrary contexts; the theorems here are its whole-block and loop-body forms. -/

/-- corollary for a whole block started with empty contexts (what `optimize_function` does): same
prints; trap iff trap; break with the same value; or both fall through with every name of the
original readable in the optimised environment through the final renaming. -/
theorem lvn_preserves (p : List Simple) (seen : List Nat) (ρ : Nat → Int) (hwf : wfSimple p seen = true) :
    (execSimple p ρ).1 = (execSimple (lvnSimple p { ren := [], avail := [] }).1 ρ).1 ∧
    (match (execSimple p ρ).2, (execSimple (lvnSimple p { ren := [], avail := [] }).1 ρ).2 with
     | .trap, .trap => True
     | .brk v, .brk w => v = w
     | .next ρ1, .next ρ2 =>
        ∀ x, x ∈ seenAfter p seen → ρ1 x = ρ2 (rn (lvnSimple p { ren := [], avail := [] }).2.ren x)
     | _, _ => False) := by
  have := lvnSimple_preserves p seen _ ρ ρ hwf (inv_empty seen ρ)
  refine ⟨this.1, ?_⟩
  have h2 := this.2
  revert h2
  cases (execSimple p ρ).2 <;> cases (execSimple (lvnSimple p { ren := [], avail := [] }).1 ρ).2 <;>
    simp only [ResRel] <;> intro h2
  all_goals first | exact h2 | exact h2.rel | trivial

/-- The dropped consuming position of the seeded fault class: if `Break` were not rewritten, the
block `t1 = e; t2 = e; break t2` would break with the never-assigned `t2`. -/
theorem lvn_break_must_be_renamed :
    (lvnSimple [.bin 2 .mul (.var 0) (.var 0), .bin 3 .mul (.var 0) (.var 0), .brk (.var 3)] { ren := [], avail := [] }).1
      = [.bin 2 .mul (.var 0) (.var 0), .brk (.var 2)] ∧
    (execSimple [.bin 2 .mul (.var 0) (.var 0), .brk (.var 3)] (fun v => if v = 0 then 5 else 0)).2 matches .brk 0 := by
  decide
/-- FULL STRENGTH, loop bodies: blocks of statements, `SingleIf`s and `IfElse`s (with final
assignments) whose branches are statement blocks (any `Break` inside them included): same prints, same way of ending (trap / break with the same value /
fall through). -/
theorem lvnL_preserves (p : List LStmt) (seen : List Nat) (cx : Cx) (ρ1 ρ2 : Nat → Int)
    (hwf : wfL p seen = true) (h : Inv seen cx ρ1 ρ2) :
    (execL p ρ1).1 = (execL (lvnL p cx) ρ2).1 ∧
    (match (execL p ρ1).2, (execL (lvnL p cx) ρ2).2 with
     | .trap, .trap => True
     | .brk v, .brk w => v = w
     | .next ρ1', .next ρ2' => Inv (seenAfterL p seen) (lvnCx p cx) ρ1' ρ2'
     | _, _ => False) := by
  induction p generalizing seen cx ρ1 ρ2 with
  | nil => exact ⟨rfl, h⟩
  | cons st r ih =>
    cases st with
    | s st =>
      simp only [wfL, Bool.and_eq_true] at hwf
      have hs := lvnSimple_preserves [st] seen cx ρ1 ρ2 hwf.1 h
      simp only [lvnSimple] at hs
      simp only [lvnL, execL, seenAfterL, lvnCx]
      cases ho : lvn1 st cx with
      | mk o cx1 =>
        rw [ho] at hs
        simp only at hs
        cases o with
        | none =>
          simp only [execSimple] at hs
          simp only
          cases hr1 : execSimple [st] ρ1 with
          | mk t1 res1 =>
            rw [hr1] at hs
            simp only at hs
            cases res1 with
            | trap => simp [ResRel] at hs
            | brk v => simp [ResRel] at hs
            | next ρ1' =>
              simp only [ResRel] at hs
              have := ih _ cx1 ρ1' ρ2 hwf.2 hs.2
              simp only
              rw [hs.1]; simpa using this
        | some st' =>
          simp only [execL]
          cases hr1 : execSimple [st] ρ1 with
          | mk t1 res1 =>
            cases hr2 : execSimple [st'] ρ2 with
            | mk t2 res2 =>
              rw [hr1, hr2] at hs
              simp only at hs
              cases res1 <;> cases res2 <;> simp only [ResRel] at hs
              · exact ⟨hs.1, trivial⟩
              · exact hs.2.elim
              · exact hs.2.elim
              · exact hs.2.elim
              · exact ⟨hs.1, hs.2⟩
              · exact hs.2.elim
              · exact hs.2.elim
              · exact hs.2.elim
              · rename_i ρ1' ρ2'
                have := ih _ cx1 ρ1' ρ2' hwf.2 hs.2
                simp only
                rw [hs.1, this.1]; exact ⟨rfl, this.2⟩
    | sif c inv body =>
      simp only [wfL, Bool.and_eq_true] at hwf
      obtain ⟨⟨hc, hb⟩, hr⟩ := hwf
      have ec := rnO_eval h c (vars_all hc)
      simp only [lvnL, execL, ec, seenAfterL, lvnCx]
      split
      · have hs := lvnSimple_preserves body seen cx ρ1 ρ2 hb h
        cases hr1 : execSimple body ρ1 with
        | mk t1 res1 =>
          cases hr2 : execSimple (lvnSimple body cx).1 ρ2 with
          | mk t2 res2 =>
            rw [hr1, hr2] at hs
            simp only at hs
            cases res1 <;> cases res2 <;> simp only [ResRel] at hs
            · exact ⟨hs.1, trivial⟩
            · exact hs.2.elim
            · exact hs.2.elim
            · exact hs.2.elim
            · exact ⟨hs.1, hs.2⟩
            · exact hs.2.elim
            · exact hs.2.elim
            · exact hs.2.elim
            · rename_i ρ1' ρ2'
              have f1 : ∀ v, v ∈ seen → ρ1' v = ρ1 v := fun v hv =>
                execSimple_frame body ρ1 ρ1' (by rw [hr1]) v (fun hd => defs_not_seen body seen hb v hd hv)
              have f2 : ∀ v, v ∈ seen → ρ2' v = ρ2 v := fun v hv =>
                execSimple_frame _ ρ2 ρ2' (by rw [hr2]) v
                  (fun hd => defs_not_seen body seen hb v (defs_lvnSimple body cx v hd) hv)
              have := ih seen cx ρ1' ρ2' hr (inv_frame h f1 f2)
              simp only
              rw [hs.1, this.1]; exact ⟨rfl, this.2⟩
      · exact ih seen cx ρ1 ρ2 hr h
    | ife c s1 s2 fas =>
      simp only [wfL, Bool.and_eq_true] at hwf
      obtain ⟨⟨⟨⟨⟨hc, hb1⟩, hb2⟩, hfas⟩, hwfa⟩, hr⟩ := hwf
      have ec := rnO_eval h c (vars_all hc)
      have hfas' := List.all_eq_true.mp hfas
      simp only [lvnL, execL, ec, List.map_map, Function.comp_def, seenAfterL, lvnCx]
      split
      · have hbr := lvn_branch h s1 hb1 fas (fun q => q.1)
          (fun fa hfa => vars_all (by have := hfas' fa hfa; simp only [Bool.and_eq_true] at this; exact this.1)) hwfa
        cases hr1 : execSimple s1 ρ1 with
        | mk t1 res1 =>
          cases hr2 : execSimple (lvnSimple s1 cx).1 ρ2 with
          | mk t2 res2 =>
            rw [hr1, hr2] at hbr
            simp only at hbr
            cases res1 <;> cases res2 <;> simp only at hbr ⊢
            · exact ⟨hbr.1, trivial⟩
            · exact hbr.2.elim
            · exact hbr.2.elim
            · exact hbr.2.elim
            · exact ⟨hbr.1, hbr.2⟩
            · exact hbr.2.elim
            · exact hbr.2.elim
            · exact hbr.2.elim
            · have := ih _ cx _ _ hr hbr.2
              rw [hbr.1, this.1]; exact ⟨rfl, this.2⟩
      · have hbr := lvn_branch h s2 hb2 fas (fun q => q.2)
          (fun fa hfa => vars_all (by have := hfas' fa hfa; simp only [Bool.and_eq_true] at this; exact this.2)) hwfa
        cases hr1 : execSimple s2 ρ1 with
        | mk t1 res1 =>
          cases hr2 : execSimple (lvnSimple s2 cx).1 ρ2 with
          | mk t2 res2 =>
            rw [hr1, hr2] at hbr
            simp only at hbr
            cases res1 <;> cases res2 <;> simp only at hbr ⊢
            · exact ⟨hbr.1, trivial⟩
            · exact hbr.2.elim
            · exact hbr.2.elim
            · exact hbr.2.elim
            · exact ⟨hbr.1, hbr.2⟩
            · exact hbr.2.elim
            · exact hbr.2.elim
            · exact hbr.2.elim
            · have := ih _ cx _ _ hr hbr.2
              rw [hbr.1, this.1]; exact ⟨rfl, this.2⟩
example : wfL [.s (.bin 2 .mul (.var 0) (.var 0)), .s (.bin 3 .gt (.var 2) (.var 1)),
              .sif (.var 3) false [.bin 4 .mul (.var 0) (.var 0), .brk (.var 4)]] [0, 1] = true := by decide
example : lvnL [.s (.bin 2 .mul (.var 0) (.var 0)), .s (.bin 3 .gt (.var 2) (.var 1)),
              .sif (.var 3) false [.bin 4 .mul (.var 0) (.var 0), .brk (.var 4)]] { ren := [], avail := [] }
        = [.s (.bin 2 .mul (.var 0) (.var 0)), .s (.bin 3 .gt (.var 2) (.var 1)), .sif (.var 3) false [.brk (.var 2)]] := by decide

/-! ### LVN of a `While` (nested loop, loop values) -/

/-- well-formedness of a `While` relative to the names in scope before it -/
def wfLoop (W : Loop) (seen : List Nat) : Bool :=
  W.lvs.all (fun lv => lv.2.1.vars.all seen.contains)
    && wfFa (W.lvs.map (·.1)) seen
    && wfL W.body (seenFa (W.lvs.map (·.1)) seen)
    && W.lvs.all (fun lv => lv.2.2.vars.all (seenAfterL W.body (seenFa (W.lvs.map (·.1)) seen)).contains)

def LoopRel : Option (List Int × Res) → Option (List Int × Res) → Prop
  | none, none => True
  | some (t1, .trap), some (t2, .trap) => t1 = t2
  | some (t1, .brk v), some (t2, .brk w) => t1 = t2 ∧ v = w
  | _, _ => False

theorem iterLoop_preserves (W : Loop) (seen : List Nat) (cx : Cx) (hwf : wfLoop W seen = true)
    (fuel : Nat) (ρ1 ρ2 : Nat → Int) (h : Inv seen cx ρ1 ρ2) (l : List (Nat × Int))
    (hl : l.map (·.1) = W.lvs.map (·.1)) :
    LoopRel (iterLoop W.lvs W.body fuel (assignAll ρ1 l))
            (iterLoop (lvnLoop W cx).lvs (lvnLoop W cx).body fuel (assignAll ρ2 l)) := by
  simp only [wfLoop, Bool.and_eq_true] at hwf
  obtain ⟨⟨⟨hinit, hnames⟩, hbody⟩, hvals⟩ := hwf
  induction fuel generalizing ρ1 ρ2 l with
  | zero => simp [iterLoop, LoopRel]
  | succ fuel ih =>
    have hA := assign_inv l seen ρ1 ρ2 h (by rw [hl]; exact hnames)
    rw [hl] at hA
    have hb := lvnL_preserves W.body _ cx _ _ hbody hA
    simp only [lvnLoop, lvnLc_eq, iterLoop]
    cases hr1 : execL W.body (assignAll ρ1 l) with
    | mk t1 res1 =>
      cases hr2 : execL (lvnL W.body cx) (assignAll ρ2 l) with
      | mk t2 res2 =>
        rw [hr1, hr2] at hb
        simp only at hb
        cases res1 <;> cases res2 <;> simp only at hb ⊢
        · exact hb.1
        · exact hb.2.elim
        · exact hb.2.elim
        · exact hb.2.elim
        · exact ⟨hb.1, hb.2⟩
        · exact hb.2.elim
        · exact hb.2.elim
        · exact hb.2.elim
        · rename_i A' B'
          obtain ⟨ht, hI⟩ := hb
          -- the body and the loop-variable assignments only touch names outside `seen`
          have hlv : ∀ v, v ∈ seen → v ∉ l.map (·.1) := by
            intro v hv hm; rw [hl] at hm; exact wfFa_not_seen _ seen hnames v hm hv
          have f1 : ∀ v, v ∈ seen → A' v = ρ1 v := by
            intro v hv
            rw [execL_frame W.body _ A' (by rw [hr1]) v
              (fun hd => defsL_not_seen W.body _ hbody v hd ((mem_seenFa _ seen v).mpr (Or.inr hv)))]
            exact assignAll_frame l ρ1 v (hlv v hv)
          have f2 : ∀ v, v ∈ seen → B' v = ρ2 v := by
            intro v hv
            rw [execL_frame _ _ B' (by rw [hr2]) v
              (fun hd => defsL_not_seen W.body _ hbody v (defsL_lvnL W.body cx v hd) ((mem_seenFa _ seen v).mpr (Or.inr hv)))]
            exact assignAll_frame l ρ2 v (hlv v hv)
          have hout := inv_frame h f1 f2
          have hvals' := List.all_eq_true.mp hvals
          have heq : ((W.lvs.map fun lv => (lv.1, rnO cx.ren lv.2.1, rnO (lvnCx W.body cx).ren lv.2.2)).map
                fun lv => (lv.1, lv.2.2.eval B')) = (W.lvs.map fun lv => (lv.1, lv.2.2.eval A')) := by
            rw [List.map_map]
            apply List.map_congr_left
            intro lv hlv'
            simp only [Function.comp_def]
            rw [rnO_eval hI lv.2.2 (vars_all (hvals' lv hlv'))]
          rw [heq]
          have := ih A' B' hout (W.lvs.map fun lv => (lv.1, lv.2.2.eval A')) (by simp [List.map_map, Function.comp_def])
          simp only [lvnLoop, lvnLc_eq] at this
          revert this
          cases iterLoop W.lvs W.body fuel (assignAll A' (W.lvs.map fun lv => (lv.1, lv.2.2.eval A'))) with
          | none =>
            cases iterLoop _ (lvnL W.body cx) fuel (assignAll B' (W.lvs.map fun lv => (lv.1, lv.2.2.eval A'))) with
            | none => simp [LoopRel]
            | some r2 => simp [LoopRel]
          | some r1 =>
            cases iterLoop _ (lvnL W.body cx) fuel (assignAll B' (W.lvs.map fun lv => (lv.1, lv.2.2.eval A'))) with
            | none => obtain ⟨a, b⟩ := r1; cases b <;> simp [LoopRel]
            | some r2 =>
              obtain ⟨a1, b1⟩ := r1; obtain ⟨a2, b2⟩ := r2
              cases b1 <;> cases b2 <;> simp only [LoopRel, Option.map] <;> intro this
              all_goals first | exact this.elim | (rw [ht, this]) | exact ⟨by rw [ht, this.1], this.2⟩

/-- FULL STRENGTH: local value numbering of a `While` (initial values through the outer context, body
in a pushed scope, loop values through the context at the end of the body): for every fuel the loop
prints the same values and traps / breaks with the same value, or both are still running. -/
theorem lvnLoop_preserves (W : Loop) (seen : List Nat) (cx : Cx) (ρ1 ρ2 : Nat → Int)
    (hwf : wfLoop W seen = true) (h : Inv seen cx ρ1 ρ2) (fuel : Nat) :
    LoopRel (execLoop W fuel ρ1) (execLoop (lvnLoop W cx) fuel ρ2) := by
  have hinit : ((lvnLoop W cx).lvs.map fun lv => (lv.1, lv.2.1.eval ρ2)) = (W.lvs.map fun lv => (lv.1, lv.2.1.eval ρ1)) := by
    simp only [lvnLoop, List.map_map]
    apply List.map_congr_left
    intro lv hlv
    simp only [Function.comp_def]
    have hw := hwf
    simp only [wfLoop, Bool.and_eq_true] at hw
    rw [rnO_eval h lv.2.1 (vars_all (List.all_eq_true.mp hw.1.1.1 lv hlv))]
  unfold execLoop
  rw [hinit]
  exact iterLoop_preserves W seen cx hwf fuel ρ1 ρ2 h _ (by simp [List.map_map, Function.comp_def])

example : (lvnLoop { lvs := [(2, .lit 0, .var 5)], body := [.s (.bin 3 .mul (.var 2) (.var 2)), .s (.bin 4 .gt (.var 3) (.var 1)),
      .sif (.var 4) false [.bin 6 .mul (.var 2) (.var 2), .brk (.var 6)], .s (.bin 5 .add (.var 2) (.lit 1)), .s (.bin 7 .add (.var 2) (.lit 1))] }
    { ren := [], avail := [] }).lvs = [(2, .lit 0, .var 5)] := by decide

/-! ### The use analysis that gates IV elimination (`stmt_uses_basic_induction_var`) -/

def Agree (x : Nat) (ρ1 ρ2 : Nat → Int) : Prop := ∀ y, y ≠ x → ρ1 y = ρ2 y

theorem eval_of_not_uses (x : Nat) (a : Operand) (ρ1 ρ2 : Nat → Int) (h : a.uses x = false) (hA : Agree x ρ1 ρ2) :
    a.eval ρ1 = a.eval ρ2 := by
  cases a with
  | lit n => rfl
  | var y =>
    simp only [Operand.uses, beq_eq_false_iff_ne] at h
    exact hA y h

theorem agree_update (x : Nat) (ρ1 ρ2 : Nat → Int) (hA : Agree x ρ1 ρ2) (y : Nat) (v : Int) :
    Agree x (update ρ1 y v) (update ρ2 y v) := by
  intro z hz
  simp only [update]
  split
  · rfl
  · exact hA z hz

theorem agree_assignAll (x : Nat) (l : List (Nat × Int)) (ρ1 ρ2 : Nat → Int) (hA : Agree x ρ1 ρ2) :
    Agree x (assignAll ρ1 l) (assignAll ρ2 l) := by
  induction l generalizing ρ1 ρ2 with
  | nil => exact hA
  | cons p r ih => obtain ⟨y, v⟩ := p; exact ih _ _ (agree_update x _ _ hA y v)

def ResAgree (x : Nat) : Res → Res → Prop
  | .trap, .trap => True
  | .brk v, .brk w => v = w
  | .next ρ1, .next ρ2 => Agree x ρ1 ρ2
  | _, _ => False

theorem execSimple_irrel (x : Nat) (p : List Simple) (ρ1 ρ2 : Nat → Int)
    (h : p.any (usesSimple x) = false) (hA : Agree x ρ1 ρ2) :
    (execSimple p ρ1).1 = (execSimple p ρ2).1 ∧ ResAgree x (execSimple p ρ1).2 (execSimple p ρ2).2 := by
  induction p generalizing ρ1 ρ2 with
  | nil => exact ⟨rfl, hA⟩
  | cons st r ih =>
    simp only [List.any_cons, Bool.or_eq_false_iff] at h
    cases st with
    | print a =>
      simp only [usesSimple] at h
      have := ih ρ1 ρ2 h.2 hA
      simp only [execSimple, eval_of_not_uses x a ρ1 ρ2 h.1 hA]
      exact ⟨by rw [this.1], this.2⟩
    | brk a =>
      simp only [usesSimple] at h
      simp only [execSimple, eval_of_not_uses x a ρ1 ρ2 h.1 hA]
      exact ⟨trivial, by simp [ResAgree]⟩
    | bin y op a b =>
      simp only [usesSimple, Bool.or_eq_false_iff] at h
      simp only [execSimple, eval_of_not_uses x a ρ1 ρ2 h.1.1 hA, eval_of_not_uses x b ρ1 ρ2 h.1.2 hA]
      cases evalTarget op (a.eval ρ2) (b.eval ρ2) with
      | none => exact ⟨rfl, trivial⟩
      | some v => exact ih _ _ h.2 (agree_update x _ _ hA y v)

theorem fas_vals_agree (x : Nat) (fas : List (Nat × Operand × Operand)) (sel : Operand × Operand → Operand)
    (ρ1 ρ2 : Nat → Int) (h : ∀ fa, fa ∈ fas → (sel fa.2).uses x = false) (hA : Agree x ρ1 ρ2) :
    (fas.map fun fa => (fa.1, (sel fa.2).eval ρ1)) = (fas.map fun fa => (fa.1, (sel fa.2).eval ρ2)) := by
  apply List.map_congr_left
  intro fa hfa
  rw [eval_of_not_uses x _ ρ1 ρ2 (h fa hfa) hA]

theorem execL_irrel (x : Nat) (p : List LStmt) (ρ1 ρ2 : Nat → Int)
    (h : p.any (usesL x) = false) (hA : Agree x ρ1 ρ2) :
    (execL p ρ1).1 = (execL p ρ2).1 ∧ ResAgree x (execL p ρ1).2 (execL p ρ2).2 := by
  induction p generalizing ρ1 ρ2 with
  | nil => exact ⟨rfl, hA⟩
  | cons st r ih =>
    simp only [List.any_cons, Bool.or_eq_false_iff] at h
    obtain ⟨hst, hr⟩ := h
    cases st with
    | s st =>
      simp only [usesL] at hst
      have hs := execSimple_irrel x [st] ρ1 ρ2 (by simp [hst]) hA
      simp only [execL]
      cases h1 : execSimple [st] ρ1 with
      | mk t1 r1 =>
        cases h2 : execSimple [st] ρ2 with
        | mk t2 r2 =>
          rw [h1, h2] at hs
          simp only at hs
          cases r1 <;> cases r2 <;> simp only [ResAgree] at hs ⊢
          all_goals first | exact ⟨hs.1, trivial⟩ | exact hs.2.elim | exact ⟨hs.1, hs.2⟩ | skip
          have := ih _ _ hr hs.2
          exact ⟨by rw [hs.1, this.1], this.2⟩
    | sif c inv body =>
      simp only [usesL, Bool.or_eq_false_iff] at hst
      simp only [execL, eval_of_not_uses x c ρ1 ρ2 hst.1 hA]
      split
      · have hs := execSimple_irrel x body ρ1 ρ2 hst.2 hA
        cases h1 : execSimple body ρ1 with
        | mk t1 r1 =>
          cases h2 : execSimple body ρ2 with
          | mk t2 r2 =>
            rw [h1, h2] at hs
            simp only at hs
            cases r1 <;> cases r2 <;> simp only [ResAgree] at hs ⊢
            all_goals first | exact ⟨hs.1, trivial⟩ | exact hs.2.elim | exact ⟨hs.1, hs.2⟩ | skip
            have := ih _ _ hr hs.2
            exact ⟨by rw [hs.1, this.1], this.2⟩
      · exact ih _ _ hr hA
    | ife c s1 s2 fas =>
      simp only [usesL, Bool.or_eq_false_iff] at hst
      obtain ⟨⟨⟨hc, h1'⟩, h2'⟩, hf⟩ := hst
      have hf' : ∀ fa, fa ∈ fas → fa.2.1.uses x = false ∧ fa.2.2.uses x = false := by
        intro fa hfa
        have := List.any_eq_false.mp hf fa hfa
        simpa [Bool.or_eq_false_iff] using this
      simp only [execL, eval_of_not_uses x c ρ1 ρ2 hc hA]
      split
      · have hs := execSimple_irrel x s1 ρ1 ρ2 h1' hA
        cases e1 : execSimple s1 ρ1 with
        | mk t1 r1 =>
          cases e2 : execSimple s1 ρ2 with
          | mk t2 r2 =>
            rw [e1, e2] at hs
            simp only at hs
            cases r1 <;> cases r2 <;> simp only [ResAgree] at hs ⊢
            all_goals first | exact ⟨hs.1, trivial⟩ | exact hs.2.elim | exact ⟨hs.1, hs.2⟩ | skip
            rename_i σ1 σ2
            rw [fas_vals_agree x fas (fun q => q.1) σ1 σ2 (fun fa hfa => (hf' fa hfa).1) hs.2]
            have := ih _ _ hr (agree_assignAll x (fas.map fun fa => (fa.1, fa.2.1.eval σ2)) σ1 σ2 hs.2)
            exact ⟨by rw [hs.1, this.1], this.2⟩
      · have hs := execSimple_irrel x s2 ρ1 ρ2 h2' hA
        cases e1 : execSimple s2 ρ1 with
        | mk t1 r1 =>
          cases e2 : execSimple s2 ρ2 with
          | mk t2 r2 =>
            rw [e1, e2] at hs
            simp only at hs
            cases r1 <;> cases r2 <;> simp only [ResAgree] at hs ⊢
            all_goals first | exact ⟨hs.1, trivial⟩ | exact hs.2.elim | exact ⟨hs.1, hs.2⟩ | skip
            rename_i σ1 σ2
            rw [fas_vals_agree x fas (fun q => q.2) σ1 σ2 (fun fa hfa => (hf' fa hfa).2) hs.2]
            have := ih _ _ hr (agree_assignAll x (fas.map fun fa => (fa.1, fa.2.2.eval σ2)) σ1 σ2 hs.2)
            exact ⟨by rw [hs.1, this.1], this.2⟩

theorem iterLoop_irrel (x : Nat) (W : Loop) (h : usesLoop x W = false) (fuel : Nat) (ρ1 ρ2 : Nat → Int)
    (hA : Agree x ρ1 ρ2) : LoopRel (iterLoop W.lvs W.body fuel ρ1) (iterLoop W.lvs W.body fuel ρ2) := by
  simp only [usesLoop, Bool.or_eq_false_iff] at h
  obtain ⟨hl, hb⟩ := h
  have hl' : ∀ lv, lv ∈ W.lvs → lv.2.1.uses x = false ∧ lv.2.2.uses x = false := by
    intro lv hlv
    have := List.any_eq_false.mp hl lv hlv
    simpa [Bool.or_eq_false_iff] using this
  induction fuel generalizing ρ1 ρ2 with
  | zero => simp [iterLoop, LoopRel]
  | succ fuel ih =>
    have hs := execL_irrel x W.body ρ1 ρ2 hb hA
    simp only [iterLoop]
    cases e1 : execL W.body ρ1 with
    | mk t1 r1 =>
      cases e2 : execL W.body ρ2 with
      | mk t2 r2 =>
        rw [e1, e2] at hs
        simp only at hs
        cases r1 <;> cases r2 <;> simp only [ResAgree] at hs ⊢
        all_goals first | exact hs.1 | exact hs.2.elim | exact ⟨hs.1, hs.2⟩ | skip
        rename_i σ1 σ2
        rw [fas_vals_agree x W.lvs (fun q => q.2) σ1 σ2 (fun lv hlv => (hl' lv hlv).2) hs.2]
        have := ih _ _ (agree_assignAll x (W.lvs.map fun lv => (lv.1, lv.2.2.eval σ2)) σ1 σ2 hs.2)
        revert this
        cases iterLoop W.lvs W.body fuel (assignAll σ1 (W.lvs.map fun lv => (lv.1, lv.2.2.eval σ2))) with
        | none =>
          cases iterLoop W.lvs W.body fuel (assignAll σ2 (W.lvs.map fun lv => (lv.1, lv.2.2.eval σ2))) with
          | none => simp [LoopRel]
          | some r2 => simp [LoopRel]
        | some r1 =>
          cases iterLoop W.lvs W.body fuel (assignAll σ2 (W.lvs.map fun lv => (lv.1, lv.2.2.eval σ2))) with
          | none => obtain ⟨a, b⟩ := r1; cases b <;> simp [LoopRel]
          | some r2 =>
            obtain ⟨a1, b1⟩ := r1; obtain ⟨a2, b2⟩ := r2
            cases b1 <;> cases b2 <;> simp only [LoopRel, Option.map] <;> intro this
            all_goals first | exact this.elim | (rw [hs.1, this]) | exact ⟨by rw [hs.1, this.1], this.2⟩

/-- FULL STRENGTH (`unused_counter_irrelevant`): if the use analysis says that a nested `While` does
not read `x` — its loop variables' INITIAL values, loop values and body included — then the loop
prints and ends the same whatever `x` holds (in particular when `x` is no longer assigned because
induction-variable elimination dropped it), for every loop, every fuel, every environment. -/
theorem unused_counter_irrelevant (x : Nat) (W : Loop) (h : usesLoop x W = false) (fuel : Nat)
    (ρ : Nat → Int) (v : Int) : LoopRel (execLoop W fuel ρ) (execLoop W fuel (update ρ x v)) := by
  have hA : Agree x ρ (update ρ x v) := by
    intro y hy; simp [update, hy]
  have hl := h
  simp only [usesLoop, Bool.or_eq_false_iff] at hl
  have hl' : ∀ lv, lv ∈ W.lvs → lv.2.1.uses x = false := by
    intro lv hlv
    have := List.any_eq_false.mp hl.1 lv hlv
    have h2 : (lv.2.1.uses x || lv.2.2.uses x) = false := by simpa using this
    exact (Bool.or_eq_false_iff.mp h2).1
  unfold execLoop
  rw [fas_vals_agree x W.lvs (fun q => q.1) ρ (update ρ x v) hl' hA]
  exact iterLoop_irrel x W h fuel _ _ (agree_assignAll x _ _ _ hA)

/-- The clause is necessary (seeded-fault class C02d): a use analysis that ignores the initial values
of the nested loop's variables calls `x` unused although the loop's result depends on it. -/
theorem uses_must_count_initial_values :
    let W : Loop := { lvs := [(1, .var 0, .var 3)],
                      body := [.s (.bin 2 .ge (.var 1) (.lit 3)), .sif (.var 2) false [.brk (.var 1)],
                               .s (.bin 3 .add (.var 1) (.lit 1))] }
    usesLoopNoInit 0 W = false ∧ usesLoop 0 W = true ∧
    execLoop W 9 (fun _ => 0) = some ([], .brk 3) ∧ execLoop W 9 (update (fun _ => 0) 0 7) = some ([], .brk 7) := by
  refine ⟨by decide, by decide, ?_, ?_⟩ <;> rfl

/-! ### LICM over every statement kind -/

/-- FULL STRENGTH: whatever the loop body, every statement LICM hoists is a value-defining statement
that cannot trap and reads no loop-variant name (neither a loop variable nor a name defined by a
statement that stayed in the loop before it). -/
theorem licmF_hoisted_invariant (p : List LS) (variant : List Nat) :
    ∀ s, s ∈ (licmF p variant).1 →
      ∃ x reads, s = .pure x reads false ∧ ∀ v, v ∈ reads → v ∉ variant := by
  induction p generalizing variant with
  | nil => intro s h; simp [licmF] at h
  | cons st r ih =>
    intro s h
    cases st with
    | stay defs =>
      simp only [licmF] at h
      obtain ⟨x, reads, hs, hr⟩ := ih (defs ++ variant) s h
      exact ⟨x, reads, hs, fun v hv hm => hr v hv (List.mem_append_right _ hm)⟩
    | pure x reads trap =>
      simp only [licmF] at h
      split at h
      · rename_i hc
        simp only [Bool.and_eq_true, Bool.not_eq_true', List.all_eq_true] at hc
        simp only [List.mem_cons] at h
        rcases h with rfl | h
        · refine ⟨x, reads, by rw [hc.1], ?_⟩
          intro v hv hm
          have := hc.2 v hv
          simp at this; exact this hm
        · exact ih variant s h
      · obtain ⟨y, rs, hs, hr⟩ := ih (x :: variant) s h
        exact ⟨y, rs, hs, fun v hv hm => hr v hv (List.mem_cons_of_mem _ hm)⟩

/-- every name defined by a statement that stays in the loop is reported loop-variant, and the
variant set only grows (so later hoisting decisions see it) -/
theorem licmF_variant_grows (p : List LS) (variant : List Nat) :
    ∀ v, v ∈ variant → v ∈ (licmF p variant).2.2 := by
  induction p generalizing variant with
  | nil => intro v h; exact h
  | cons st r ih =>
    intro v h
    cases st with
    | stay defs => simp only [licmF]; exact ih _ v (List.mem_append_right _ h)
    | pure x reads trap =>
      simp only [licmF]
      split
      · exact ih _ v h
      · exact ih _ v (List.mem_cons_of_mem _ h)

theorem licmF_kept_defs_variant (p : List LS) (variant : List Nat) :
    ∀ s, s ∈ (licmF p variant).2.1 →
      (∀ x reads t, s = .pure x reads t → x ∈ (licmF p variant).2.2) ∧
      (∀ defs, s = .stay defs → ∀ d, d ∈ defs → d ∈ (licmF p variant).2.2) := by
  induction p generalizing variant with
  | nil => intro s h; simp [licmF] at h
  | cons st r ih =>
    intro s h
    cases st with
    | stay defs =>
      simp only [licmF, List.mem_cons] at h ⊢
      rcases h with rfl | h
      · refine ⟨fun x reads t e => LS.noConfusion e, fun d e => ?_⟩
        injection e with e; subst e
        intro y hy
        exact licmF_variant_grows r _ y (List.mem_append_left _ hy)
      · exact ih _ s h
    | pure x reads trap =>
      simp only [licmF] at h ⊢
      split at h
      · rename_i hc; simp only [hc, if_true]; exact ih _ s h
      · rename_i hc
        simp only [hc]
        simp only [List.mem_cons] at h
        rcases h with rfl | h
        · refine ⟨fun y rs t e => ?_, fun d e => LS.noConfusion e⟩
          injection e with e1 _ _; subst e1
          exact licmF_variant_grows r _ x (by simp)
        · exact ih _ s h

example : (licmF [.pure 2 [1] false, .pure 3 [0] false, .pure 4 [3] false, .stay [5], .pure 6 [5] false, .pure 7 [1, 2] true] [0]).1
    = [.pure 2 [1] false] := by decide

/-! ### Closed-form ("algebraic") loop elimination: applicability and result -/

/-- FULL STRENGTH: whenever the closed-form elimination fires on a well-formed loop, (a) the emitted
code reads no name that existed only inside the deleted loop, (b) the original loop leaves after exactly
`n` iterations and (c) the value given to the break collector is the value the break expression has
at that moment — for the counter, every general induction variable, literals and outer names. -/
theorem algopt_sound (A : AlgLoop) (hwf : A.wf) (hi : InRange A.i0) (hb : InRange A.bound)
    (hg : ∀ p, p ∈ A.givs → InRange p.1) :
    algOpt A ≠ .readsInner ∧
    ∀ v, algOpt A = .value v →
      ∃ n : Nat, BreaksAt A.g A.i0 A.step A.bound n ∧ A.brkAt n = some v := by
  unfold algOpt algOptWith
  by_cases hd : (!A.literals || (true && A.nonIv != 0) || (true && A.derived != 0) || (true && A.stmts != 0)) = true
  · simp only [hd, if_true]; exact ⟨by simp, fun v h => by simp at h⟩
  · simp only [hd]
    simp only [Bool.true_and, Bool.or_eq_true, Bool.not_eq_true', bne_iff_ne, ne_eq, not_or, Bool.not_eq_false,
      Decidable.not_not] at hd
    cases ht : tripCount A.g A.i0 A.step A.bound with
    | unknown => exact ⟨by simp, fun v h => by simp at h⟩
    | panic => exact ⟨by simp, fun v h => by simp at h⟩
    | count n =>
      have hbr := tripcount_exact A.g A.i0 A.step A.bound n hi hb ht
      have hfin := tripcount_final_value A.g A.i0 A.step A.bound n hi ht
      obtain ⟨h0, _, _, _⟩ := tripCount_ideal A.g A.i0 A.step A.bound n hi ht
      simp only
      cases hbk : A.brk with
      | none => exact ⟨by simp, fun v h => by simp at h⟩
      | some bv =>
        cases bv with
        | counter =>
          refine ⟨by simp, fun v h => ?_⟩
          simp at h
          exact ⟨n.toNat, hbr, by simp [AlgLoop.brkAt, hbk, hfin, h]⟩
        | lit w =>
          refine ⟨by simp, fun v h => ?_⟩
          simp at h
          exact ⟨n.toNat, hbr, by simp [AlgLoop.brkAt, hbk, h]⟩
        | outer w =>
          refine ⟨by simp, fun v h => ?_⟩
          simp at h
          exact ⟨n.toNat, hbr, by simp [AlgLoop.brkAt, hbk, h]⟩
        | inner =>
          have := hwf.1 hbk
          rcases this with h | h | h
          · exact absurd hd.1.1.2 h
          · exact absurd hd.1.2 h
          · exact absurd hd.2 h
        | giv k =>
          have hk := hwf.2 k hbk
          have hget : A.givs[k]? = some A.givs[k] := List.getElem?_eq_getElem hk
          simp only [hget]
          refine ⟨by simp, fun v h => ?_⟩
          simp at h
          refine ⟨n.toNat, hbr, ?_⟩
          have hin := hg A.givs[k] (List.getElem_mem hk)
          simp only [AlgLoop.brkAt, hbk, hget, Option.map]
          rw [iterW_eq _ _ hin, Int.toNat_of_nonneg h0, ← h]
          unfold addT mulT
          rw [wrap32_add_right]

/-- Each decline condition is necessary. (1) dropped (seeded-fault class C02e): a loop carrying a
passed-through variable that is its break value is "solved" by code that reads that variable after
the loop is gone. -/
theorem algopt_needs_no_nonIv :
    let A : AlgLoop := { g := .lt, i0 := 0, step := 1, bound := 10, literals := true, nonIv := 1, derived := 0,
                         stmts := 0, givs := [], brk := some .inner }
    A.wf ∧ algOpt A = .declined ∧ algOptWith false true true A = .readsInner := by
  refine ⟨⟨fun _ => Or.inl (by decide), fun k h => by simp at h⟩, by decide, by decide⟩

/-- (2) dropped: the break value is a derived induction variable computed in the body -/
theorem algopt_needs_no_derived :
    let A : AlgLoop := { g := .lt, i0 := 0, step := 1, bound := 10, literals := true, nonIv := 0, derived := 1,
                         stmts := 0, givs := [], brk := some .inner }
    A.wf ∧ algOpt A = .declined ∧ algOptWith true false true A = .readsInner := by
  refine ⟨⟨fun _ => Or.inr (Or.inl (by decide)), fun k h => by simp at h⟩, by decide, by decide⟩

/-- (3) dropped: a body with a statement (an effect, or the definition the break value reads) -/
theorem algopt_needs_no_stmts :
    let A : AlgLoop := { g := .lt, i0 := 0, step := 1, bound := 10, literals := true, nonIv := 0, derived := 0,
                         stmts := 1, givs := [], brk := some .inner }
    A.wf ∧ algOpt A = .declined ∧ algOptWith true true false A = .readsInner := by
  refine ⟨⟨fun _ => Or.inr (Or.inr (by decide)), fun k h => by simp at h⟩, by decide, by decide⟩

/-! ### DCE's use collector: every syntactic use position, the callee included -/

theorem dceU_live_mono (cc : Bool) (p : List US) (live : List Nat) : ∀ x, x ∈ live → x ∈ (dceU cc p live).2 := by
  induction p with
  | nil => intro x h; exact h
  | cons s r ih =>
    intro x h
    simp only [dceU]
    split
    · exact List.mem_append_right _ (ih x h)
    · exact ih x h

/-- FULL STRENGTH: every name read — in ANY position: operand, pointer, struct field, closure
context, call argument, variable CALLEE, break value — by a statement that DCE keeps is in the used
set at the entry of the block, and so is every name used afterwards. -/
theorem dceU_kept_uses_live (p : List US) (live : List Nat) :
    ∀ s, s ∈ (dceU true p live).1 → ∀ x, x ∈ s.uses true → x ∈ (dceU true p live).2 := by
  induction p with
  | nil => intro s h; simp [dceU] at h
  | cons t r ih =>
    intro s hs x hx
    simp only [dceU] at hs ⊢
    by_cases hc : t.kept (dceU true r live).2 = true
    · simp only [hc, if_true] at hs ⊢
      simp only [List.mem_cons] at hs
      rcases hs with rfl | hs
      · exact List.mem_append_left _ hx
      · exact List.mem_append_right _ (ih s hs x hx)
    · simp only [hc] at hs ⊢
      exact ih s hs x hx

/-- … hence a definition DCE removes is read by no statement it keeps after it -/
theorem dceU_removed_not_read (t : US) (r : List US) (live : List Nat) (x : Nat)
    (hd : t.defn = some x) (hrem : t.kept (dceU true r live).2 = false) :
    ∀ s, s ∈ (dceU true r live).1 → x ∉ s.uses true := by
  intro s hs hu
  have hin := dceU_kept_uses_live r live s hs x hu
  simp only [US.kept, hd, Bool.or_eq_false_iff] at hrem
  have := hrem.2
  simp at this
  exact this hin

/-- the `While` arm: a loop variable that is dropped is read by no statement that stays in the body —
in no position, the callee included — and by no loop value of a variable that stays a candidate -/
theorem dropped_loop_var_unused (lvs : List (Nat × Operand × Operand)) (body : List US) (after : List Nat) (v : Nat)
    (hv : v ∈ (loopVarsStage1 true lvs body).map (·.1)) (hdrop : v ∉ keptLoopVars true lvs body after) :
    (∀ s, s ∈ (loopBodyDce true lvs body after).1 → v ∉ s.uses true) ∧
    (∀ lv, lv ∈ loopVarsStage1 true lvs body → v ∉ lv.2.2.vars) := by
  obtain ⟨lv0, hlv0, rfl⟩ := List.mem_map.mp hv
  have hnl : lv0.1 ∉ (loopBodyDce true lvs body after).2 := by
    intro hin
    apply hdrop
    simp only [keptLoopVars, List.mem_map, List.mem_filter]
    exact ⟨lv0, ⟨hlv0, by simpa using hin⟩, rfl⟩
  constructor
  · intro s hs hu
    exact hnl (dceU_kept_uses_live body _ s hs _ hu)
  · intro lv hlv hu
    apply hnl
    apply dceU_live_mono
    apply List.mem_append_right
    exact List.mem_flatMap.mpr ⟨lv, hlv, hu⟩

/-- The callee clause is necessary (seeded-fault class C02f): without it a loop variable that holds a
closure and is only CALLED in the body is dropped although the call that stays reads it. -/
theorem callee_must_count_as_use :
    let lvs : List (Nat × Operand × Operand) := [(1, .var 9, .var 3)]
    let body : List US := [.call (some 1) [.var 2] (some 4), .clo 3 (.var 4)]
    keptLoopVars false lvs body [] = [] ∧ keptLoopVars true lvs body [] = [1] ∧
    (US.call (some 1) [.var 2] (some 4)) ∈ (loopBodyDce false lvs body []).1 ∧
    1 ∈ (US.call (some 1) [.var 2] (some 4)).uses true := by decide

/-! ## 10. Common-subexpression elimination never hoists a trap above an effect -/

/-- FULL STRENGTH (`cse_hoist_order`): for all branches and environments, the statements CSE places
in front of an if/else print nothing and cannot trap, so no output of either branch can be lost or
reordered with a trap. -/
theorem cse_hoist_order (s1 s2 : List Simple) (fresh : Nat) (ρ : Nat → Int) :
    (execSimple (cseHoisted (cseCommon s1 s2) fresh) ρ).1 = [] ∧
    ∃ ρ', (execSimple (cseHoisted (cseCommon s1 s2) fresh) ρ).2 = .next ρ' := by
  apply cseHoisted_total
  intro k hk
  exact keysOf_noDiv s1 k (List.mem_filter.mp hk).1

/-- Historical witness (before `fix:` 934d4e6 DIV entered the set): the hoisted division traps before
the branch has printed. -/
theorem cse_div_hoist_counterexample :
    (execSimple [.print (.lit 1), .bin 2 .div (.lit 7) (.var 1)] (fun _ => 0)).1 = [1] ∧
    (execSimple ([.bin 9 .div (.lit 7) (.var 1)] ++ [.print (.lit 1), .bin 2 .div (.lit 7) (.var 1)]) (fun _ => 0)).1 = [] ∧
    cseCommon [.print (.lit 1), .bin 2 .div (.lit 7) (.var 1)] [.print (.lit 2), .bin 3 .div (.lit 7) (.var 1)] = [] := by
  decide
example : cseCommon [.bin 2 .add (.var 0) (.var 1), .bin 3 .div (.var 0) (.var 1)]
                    [.bin 4 .div (.var 0) (.var 1), .bin 5 .add (.var 0) (.var 1)] = [(.add, .var 0, .var 1)] := by decide

/-! ## 11. Inlining: a call replaced by the renamed body of the callee

`inlineBody_preserves` (in `Lemmas/OptKernel.lean`, audited) is the invariant-carrying statement for
the body; the theorem here is the whole replacement of one call. -/

/-- FULL STRENGTH (`inline_preserves`): replacing `c = f(args)` by the renamed body of `f` plus
`c = ret + 0` prints the same values, traps iff the call traps, and leaves every caller-visible name
unchanged and `c` bound to the returned value (as a 32-bit value) — for every SSA callee body, every
injective renaming into names that are fresh for the caller, every argument list and environment. -/
theorem inline_preserves (mg : Nat → Nat) (S : List Nat) (hinj : ∀ x y, mg x = mg y → x = y)
    (hfresh : ∀ x, mg x ∉ S) (f : Callee) (args : List Operand) (c : Nat) (ρ : Nat → Int)
    (hlen : f.ps.length = args.length)
    (hargs : ∀ a, a ∈ args → ∀ v, v ∈ a.vars → v ∈ S)
    (hwf : wfCallee f.body f.ps = true)
    (hret : ∀ v, v ∈ f.ret.vars → v ∈ defsSimple f.body ∨ v ∈ f.ps) :
    (execCall f args c ρ).1 = (execSimple (inlineCall mg f args c) ρ).1 ∧
    (match (execCall f args c ρ).2, (execSimple (inlineCall mg f args c) ρ).2 with
     | .trap, .trap => True
     | .next ρ1, .next ρ2 => ρ2 c = wrap32 (ρ1 c) ∧ ∀ v, v ∈ S → v ≠ c → ρ2 v = ρ1 v
     | _, _ => False) := by
  have hkeys : keys (f.ps.zip args) = f.ps := by
    simp only [keys]
    rw [List.map_fst_zip]; omega
  have h0 := iinv_init mg S f.ps args ρ hargs
  have hb := inlineBody_preserves mg S hinj hfresh f.body (f.ps.zip args) _ ρ ρ (by rw [hkeys]; exact hwf) h0
  simp only [execCall, inlineCall]
  rw [execSimple_append]
  cases h1 : execSimple f.body (bindParams f.ps (args.map (·.eval ρ))) with
  | mk t1 r1 =>
    cases h2 : execSimple (inlineBody mg f.body (f.ps.zip args)).1 ρ with
    | mk t2 r2 =>
      rw [h1, h2] at hb
      simp only at hb
      cases r1 <;> cases r2 <;> simp only at hb ⊢
      · exact ⟨hb.1, trivial⟩
      · exact hb.2.elim
      · exact hb.2.elim
      · exact hb.2.elim
      · exact hb.2.elim
      · exact hb.2.elim
      · exact hb.2.elim
      · exact hb.2.elim
      · rename_i σ' ρ''
        obtain ⟨ht, hI, _⟩ := hb
        have hretk : ∀ v, v ∈ f.ret.vars → v ∈ keys (inlineBody mg f.body (f.ps.zip args)).2 := by
          intro v hv
          rw [keys_inlineBody, hkeys]; exact hret v hv
        have er := irw_eval hI f.ret hretk
        have e0 : (Operand.lit 0).eval ρ'' = 0 := rfl
        simp only [execSimple, evalTarget, er, e0, Int.add_zero, List.append_nil]
        refine ⟨ht, by simp [update], ?_⟩
        intro v hv hvc
        simp only [update, hvc, if_false]
        exact hI.frame v hv

example : inlineCall (· + 1000) { ps := [0, 1], body := [.bin 2 .mul (.var 0) (.var 1), .print (.var 2)], ret := .var 2 }
            [.var 5, .lit 3] 9
        = [.bin 1002 .mul (.var 5) (.lit 3), .print (.var 1002), .bin 9 .add (.var 1002) (.lit 0)] := by decide

/-- CSE over all value kinds: a DIV/MOD value is never among the common values that get hoisted -/
theorem cseC_never_hoists_div (s1 s2 : List CS) :
    ∀ k, k ∈ cseCommonC s1 s2 → ∀ op a b, k = .b (op, a, b) → op ≠ .div ∧ op ≠ .mod := by
  intro k hk
  have hk1 := (List.mem_filter.mp hk).1
  clear hk
  induction s1 with
  | nil => simp [keysOfC] at hk1
  | cons st r ih =>
    cases st with
    | eff => exact ih (by simpa [keysOfC] using hk1)
    | un kind a i =>
      simp only [keysOfC, List.mem_cons] at hk1
      rcases hk1 with rfl | h
      · intro op a' b' e; exact CKey.noConfusion e
      · exact ih h
    | bin op a b =>
      simp only [keysOfC] at hk1
      split at hk1
      · rename_i hc
        simp only [List.mem_cons] at hk1
        rcases hk1 with rfl | h
        · intro op' a' b' e
          injection e with e; injection e with e1 _; subst e1; exact hc
        · exact ih h
      · exact ih hk1

/-! ## 10b. CSE: the rewritten if/else behaves like the original (value equivalence) -/

/-- environments that agree outside a set of names -/
def AgreeS (F : List Nat) (ρ1 ρ2 : Nat → Int) : Prop := ∀ y, y ∉ F → ρ1 y = ρ2 y

theorem eval_of_not_usesS (F : List Nat) (a : Operand) (ρ1 ρ2 : Nat → Int)
    (h : ∀ x, x ∈ F → a.uses x = false) (hA : AgreeS F ρ1 ρ2) : a.eval ρ1 = a.eval ρ2 := by
  cases a with
  | lit n => rfl
  | var y =>
    apply hA y
    intro hy
    have := h y hy
    simp [Operand.uses] at this

theorem agreeS_update (F : List Nat) (ρ1 ρ2 : Nat → Int) (hA : AgreeS F ρ1 ρ2) (y : Nat) (v : Int) :
    AgreeS F (update ρ1 y v) (update ρ2 y v) := by
  intro z hz
  simp only [update]
  split
  · rfl
  · exact hA z hz

theorem agreeS_assignAll (F : List Nat) (l : List (Nat × Int)) (ρ1 ρ2 : Nat → Int) (hA : AgreeS F ρ1 ρ2) :
    AgreeS F (assignAll ρ1 l) (assignAll ρ2 l) := by
  induction l generalizing ρ1 ρ2 with
  | nil => exact hA
  | cons p r ih => obtain ⟨y, v⟩ := p; exact ih _ _ (agreeS_update F _ _ hA y v)

def ResAgreeS (F : List Nat) : Res → Res → Prop
  | .trap, .trap => True
  | .brk v, .brk w => v = w
  | .next ρ1, .next ρ2 => AgreeS F ρ1 ρ2
  | _, _ => False

theorem execSimple_irrelS (F : List Nat) (p : List Simple) (ρ1 ρ2 : Nat → Int)
    (h : ∀ x, x ∈ F → p.any (usesSimple x) = false) (hA : AgreeS F ρ1 ρ2) :
    (execSimple p ρ1).1 = (execSimple p ρ2).1 ∧ ResAgreeS F (execSimple p ρ1).2 (execSimple p ρ2).2 := by
  induction p generalizing ρ1 ρ2 with
  | nil => exact ⟨rfl, hA⟩
  | cons st r ih =>
    have hst : ∀ x, x ∈ F → usesSimple x st = false := fun x hx => by
      have := h x hx; simp only [List.any_cons, Bool.or_eq_false_iff] at this; exact this.1
    have hr : ∀ x, x ∈ F → r.any (usesSimple x) = false := fun x hx => by
      have := h x hx; simp only [List.any_cons, Bool.or_eq_false_iff] at this; exact this.2
    cases st with
    | print a =>
      have ea := eval_of_not_usesS F a ρ1 ρ2 (fun x hx => by simpa [usesSimple] using hst x hx) hA
      have := ih ρ1 ρ2 hr hA
      simp only [execSimple, ea]
      exact ⟨by rw [this.1], this.2⟩
    | brk a =>
      have ea := eval_of_not_usesS F a ρ1 ρ2 (fun x hx => by simpa [usesSimple] using hst x hx) hA
      simp only [execSimple, ea]
      exact ⟨trivial, by simp [ResAgreeS]⟩
    | bin y op a b =>
      have ea := eval_of_not_usesS F a ρ1 ρ2 (fun x hx => by
        have := hst x hx; simp only [usesSimple, Bool.or_eq_false_iff] at this; exact this.1) hA
      have eb := eval_of_not_usesS F b ρ1 ρ2 (fun x hx => by
        have := hst x hx; simp only [usesSimple, Bool.or_eq_false_iff] at this; exact this.2) hA
      simp only [execSimple, ea, eb]
      cases evalTarget op (a.eval ρ2) (b.eval ρ2) with
      | none => exact ⟨rfl, trivial⟩
      | some v => exact ih _ _ hr (agreeS_update F _ _ hA y v)

theorem fas_vals_agreeS (F : List Nat) (fas : List (Nat × Operand × Operand)) (sel : Operand × Operand → Operand)
    (ρ1 ρ2 : Nat → Int) (h : ∀ fa, fa ∈ fas → ∀ x, x ∈ F → (sel fa.2).uses x = false) (hA : AgreeS F ρ1 ρ2) :
    (fas.map fun fa => (fa.1, (sel fa.2).eval ρ1)) = (fas.map fun fa => (fa.1, (sel fa.2).eval ρ2)) := by
  apply List.map_congr_left
  intro fa hfa
  rw [eval_of_not_usesS F _ ρ1 ρ2 (h fa hfa) hA]

theorem execL_irrelS (F : List Nat) (p : List LStmt) (ρ1 ρ2 : Nat → Int)
    (h : ∀ x, x ∈ F → p.any (usesL x) = false) (hA : AgreeS F ρ1 ρ2) :
    (execL p ρ1).1 = (execL p ρ2).1 ∧ ResAgreeS F (execL p ρ1).2 (execL p ρ2).2 := by
  induction p generalizing ρ1 ρ2 with
  | nil => exact ⟨rfl, hA⟩
  | cons st r ih =>
    have hst : ∀ x, x ∈ F → usesL x st = false := fun x hx => by
      have := h x hx; simp only [List.any_cons, Bool.or_eq_false_iff] at this; exact this.1
    have hr : ∀ x, x ∈ F → r.any (usesL x) = false := fun x hx => by
      have := h x hx; simp only [List.any_cons, Bool.or_eq_false_iff] at this; exact this.2
    cases st with
    | s st =>
      have hs := execSimple_irrelS F [st] ρ1 ρ2 (fun x hx => by have := hst x hx; simp only [usesL] at this; simp [this]) hA
      simp only [execL]
      cases h1 : execSimple [st] ρ1 with
      | mk t1 r1 =>
        cases h2 : execSimple [st] ρ2 with
        | mk t2 r2 =>
          rw [h1, h2] at hs
          simp only at hs
          cases r1 <;> cases r2 <;> simp only [ResAgreeS] at hs ⊢
          all_goals first | exact ⟨hs.1, trivial⟩ | exact hs.2.elim | exact ⟨hs.1, hs.2⟩ | skip
          have := ih _ _ hr hs.2
          exact ⟨by rw [hs.1, this.1], this.2⟩
    | sif c inv body =>
      have hc : ∀ x, x ∈ F → c.uses x = false := fun x hx => by
        have := hst x hx; simp only [usesL, Bool.or_eq_false_iff] at this; exact this.1
      have hb : ∀ x, x ∈ F → body.any (usesSimple x) = false := fun x hx => by
        have := hst x hx; simp only [usesL, Bool.or_eq_false_iff] at this; exact this.2
      simp only [execL, eval_of_not_usesS F c ρ1 ρ2 hc hA]
      split
      · have hs := execSimple_irrelS F body ρ1 ρ2 hb hA
        cases h1 : execSimple body ρ1 with
        | mk t1 r1 =>
          cases h2 : execSimple body ρ2 with
          | mk t2 r2 =>
            rw [h1, h2] at hs
            simp only at hs
            cases r1 <;> cases r2 <;> simp only [ResAgreeS] at hs ⊢
            all_goals first | exact ⟨hs.1, trivial⟩ | exact hs.2.elim | exact ⟨hs.1, hs.2⟩ | skip
            have := ih _ _ hr hs.2
            exact ⟨by rw [hs.1, this.1], this.2⟩
      · exact ih _ _ hr hA
    | ife c s1 s2 fas =>
      have hall : ∀ x, x ∈ F → c.uses x = false ∧ s1.any (usesSimple x) = false ∧ s2.any (usesSimple x) = false ∧
          (fas.any fun fa => fa.2.1.uses x || fa.2.2.uses x) = false := fun x hx => by
        have := hst x hx; simp only [usesL, Bool.or_eq_false_iff] at this
        exact ⟨this.1.1.1, this.1.1.2, this.1.2, this.2⟩
      have hf' : ∀ fa, fa ∈ fas → ∀ x, x ∈ F → fa.2.1.uses x = false ∧ fa.2.2.uses x = false := by
        intro fa hfa x hx
        have := List.any_eq_false.mp (hall x hx).2.2.2 fa hfa
        have h2 : (fa.2.1.uses x || fa.2.2.uses x) = false := by simpa using this
        exact Bool.or_eq_false_iff.mp h2
      simp only [execL, eval_of_not_usesS F c ρ1 ρ2 (fun x hx => (hall x hx).1) hA]
      split
      · have hs := execSimple_irrelS F s1 ρ1 ρ2 (fun x hx => (hall x hx).2.1) hA
        cases e1 : execSimple s1 ρ1 with
        | mk t1 r1 =>
          cases e2 : execSimple s1 ρ2 with
          | mk t2 r2 =>
            rw [e1, e2] at hs
            simp only at hs
            cases r1 <;> cases r2 <;> simp only [ResAgreeS] at hs ⊢
            all_goals first | exact ⟨hs.1, trivial⟩ | exact hs.2.elim | exact ⟨hs.1, hs.2⟩ | skip
            rename_i σ1 σ2
            rw [fas_vals_agreeS F fas (fun q => q.1) σ1 σ2 (fun fa hfa x hx => (hf' fa hfa x hx).1) hs.2]
            have := ih _ _ hr (agreeS_assignAll F (fas.map fun fa => (fa.1, fa.2.1.eval σ2)) σ1 σ2 hs.2)
            exact ⟨by rw [hs.1, this.1], this.2⟩
      · have hs := execSimple_irrelS F s2 ρ1 ρ2 (fun x hx => (hall x hx).2.2.1) hA
        cases e1 : execSimple s2 ρ1 with
        | mk t1 r1 =>
          cases e2 : execSimple s2 ρ2 with
          | mk t2 r2 =>
            rw [e1, e2] at hs
            simp only at hs
            cases r1 <;> cases r2 <;> simp only [ResAgreeS] at hs ⊢
            all_goals first | exact ⟨hs.1, trivial⟩ | exact hs.2.elim | exact ⟨hs.1, hs.2⟩ | skip
            rename_i σ1 σ2
            rw [fas_vals_agreeS F fas (fun q => q.2) σ1 σ2 (fun fa hfa x hx => (hf' fa hfa x hx).2) hs.2]
            have := ih _ _ hr (agreeS_assignAll F (fas.map fun fa => (fa.1, fa.2.2.eval σ2)) σ1 σ2 hs.2)
            exact ⟨by rw [hs.1, this.1], this.2⟩

/-- running a block of top-level statements first: `execL` of `.s`-wrapped statements is `execSimple` -/
theorem execL_prefix (h : List Simple) (p : List LStmt) (ρ : Nat → Int) :
    execL (h.map LStmt.s ++ p) ρ =
      match execSimple h ρ with
      | (t, .next ρ') => (t ++ (execL p ρ').1, (execL p ρ').2)
      | (t, other) => (t, other) := by
  induction h generalizing ρ with
  | nil => simp [execSimple]
  | cons st r ih =>
    simp only [List.map_cons, List.cons_append, execL]
    cases st with
    | brk a => simp [execSimple]
    | print a =>
      simp only [execSimple, List.nil_append, List.cons_append, ih]
      cases execSimple r ρ with
      | mk t res => cases res <;> simp
    | bin x op a b =>
      simp only [execSimple]
      cases evalTarget op (a.eval ρ) (b.eval ρ) with
      | none => simp
      | some v => simp only [List.nil_append, ih]

/-- FULL STRENGTH (`fresh_prefix_preserves`): a prefix of statements that prints nothing and cannot trap
or break, and that defines only names the following block never reads, does not change what that
block prints or how it ends; the final environments agree outside the prefix's names. -/
theorem fresh_prefix_preserves (h : List Simple) (p : List LStmt) (ρ ρ' : Nat → Int)
    (hrun : execSimple h ρ = ([], .next ρ'))
    (hfresh : ∀ x, x ∈ defsSimple h → p.any (usesL x) = false) :
    (execL (h.map LStmt.s ++ p) ρ).1 = (execL p ρ).1 ∧
    ResAgreeS (defsSimple h) (execL (h.map LStmt.s ++ p) ρ).2 (execL p ρ).2 := by
  rw [execL_prefix, hrun]
  simp only [List.nil_append]
  have hA : AgreeS (defsSimple h) ρ' ρ := by
    intro y hy
    exact execSimple_frame h ρ ρ' (by rw [hrun]) y hy
  exact execL_irrelS (defsSimple h) p ρ' ρ hfresh hA

theorem defs_cseHoisted (ks : List Key) (fresh : Nat) : defsSimple (cseHoisted ks fresh) = List.range' fresh ks.length := by
  induction ks generalizing fresh with
  | nil => rfl
  | cons k r ih => obtain ⟨op, a, b⟩ := k; simp [cseHoisted, defsSimple, ih, List.range'_succ]

/-- FULL STRENGTH (`cse_preserves`): what CSE makes of an if/else — the values common to both branches
computed under fresh names in front of it, the if/else itself unchanged — prints the same and ends
the same as the if/else alone, whatever follows, for all branches, final assignments, continuations
and environments, provided the fresh names are not read by the program. -/
theorem cse_preserves (c : Operand) (s1 s2 : List Simple) (fas : List (Nat × Operand × Operand)) (rest : List LStmt)
    (fresh : Nat) (ρ : Nat → Int)
    (hfresh : ∀ x, fresh ≤ x → x < fresh + (cseCommon s1 s2).length → (LStmt.ife c s1 s2 fas :: rest).any (usesL x) = false) :
    (execL ((cseHoisted (cseCommon s1 s2) fresh).map LStmt.s ++ LStmt.ife c s1 s2 fas :: rest) ρ).1
      = (execL (LStmt.ife c s1 s2 fas :: rest) ρ).1 ∧
    ResAgreeS (List.range' fresh (cseCommon s1 s2).length)
      (execL ((cseHoisted (cseCommon s1 s2) fresh).map LStmt.s ++ LStmt.ife c s1 s2 fas :: rest) ρ).2
      (execL (LStmt.ife c s1 s2 fas :: rest) ρ).2 := by
  obtain ⟨ht, ρ', hρ'⟩ := cse_hoist_order s1 s2 fresh ρ
  have hrun : execSimple (cseHoisted (cseCommon s1 s2) fresh) ρ = ([], .next ρ') := by
    rw [← ht, ← hρ']
  have := fresh_prefix_preserves (cseHoisted (cseCommon s1 s2) fresh) (LStmt.ife c s1 s2 fas :: rest) ρ ρ' hrun
    (by
      intro x hx
      rw [defs_cseHoisted, List.mem_range'_1] at hx
      exact hfresh x hx.1 hx.2)
  rw [defs_cseHoisted] at this
  exact this

example : (cseHoisted (cseCommon [.bin 2 .add (.var 0) (.var 1)] [.bin 3 .add (.var 0) (.var 1)]) 50)
    = [.bin 50 .add (.var 0) (.var 1)] := by decide

/-! ## 7b. DCE through SingleIf / IfElse -/

def AgreeOn (L : List Nat) (ρ1 ρ2 : Nat → Int) : Prop := ∀ x, x ∈ L → ρ1 x = ρ2 x

def EndRel (L : List Nat) : Res → Res → Prop
  | .trap, .trap => True
  | .brk v, .brk w => v = w
  | .next σ1, .next σ2 => AgreeOn L σ1 σ2
  | _, _ => False

theorem dceS_mono (p : List Simple) (live : List Nat) : ∀ x, x ∈ live → x ∈ (dceS p live).2 := by
  induction p with
  | nil => intro x h; exact h
  | cons st r ih =>
    intro x h
    cases st with
    | bin y op a b =>
      simp only [dceS]
      split
      · exact ih x h
      · exact List.mem_append_right _ (ih x h)
    | print a => simp only [dceS]; exact List.mem_append_right _ (ih x h)
    | brk a => simp only [dceS]; exact List.mem_append_right _ (ih x h)

theorem agreeOn_update (L : List Nat) (ρ1 ρ2 : Nat → Int) (h : AgreeOn L ρ1 ρ2) (y : Nat) (v : Int) :
    AgreeOn L (update ρ1 y v) (update ρ2 y v) := by
  intro x hx; simp only [update]; split
  · rfl
  · exact h x hx

/-- FULL STRENGTH: DCE of a block of Binary / call / Break statements -/
theorem dceS_preserves (p : List Simple) (live : List Nat) (ρ1 ρ2 : Nat → Int)
    (h : AgreeOn (dceS p live).2 ρ1 ρ2) :
    (execSimple p ρ1).1 = (execSimple (dceS p live).1 ρ2).1 ∧
    EndRel live (execSimple p ρ1).2 (execSimple (dceS p live).1 ρ2).2 := by
  induction p generalizing ρ1 ρ2 with
  | nil => exact ⟨rfl, h⟩
  | cons st r ih =>
    cases st with
    | print a =>
      simp only [dceS] at h ⊢
      have ea : a.eval ρ1 = a.eval ρ2 := eval_agree a ρ1 ρ2 (fun x hx => h x (by simp [hx]))
      have := ih ρ1 ρ2 (fun x hx => h x (by simp [hx]))
      simp only [execSimple, ea]
      exact ⟨by rw [this.1], this.2⟩
    | brk a =>
      simp only [dceS] at h ⊢
      have ea : a.eval ρ1 = a.eval ρ2 := eval_agree a ρ1 ρ2 (fun x hx => h x (by simp [hx]))
      simp only [execSimple, ea]
      exact ⟨trivial, by simp [EndRel]⟩
    | bin y op a b =>
      by_cases hc : (!(dceS r live).2.contains y && op != .div && op != .mod) = true
      · have e : dceS (.bin y op a b :: r) live = dceS r live := by simp only [dceS, hc, if_true]
        rw [e] at h ⊢
        simp only [Bool.and_eq_true, Bool.not_eq_true', bne_iff_ne, ne_eq] at hc
        obtain ⟨v, hv⟩ := evalTarget_total_of_not_div op (a.eval ρ1) (b.eval ρ1) hc.1.2 hc.2
        simp only [execSimple, hv]
        apply ih (update ρ1 y v) ρ2
        intro x hx
        have hxy : x ≠ y := fun e' => by
          have := hc.1.1; rw [e'] at hx; simp at this; exact this hx
        simp only [update, hxy, if_false]
        exact h x hx
      · have e : dceS (.bin y op a b :: r) live
            = (.bin y op a b :: (dceS r live).1, a.vars ++ b.vars ++ (dceS r live).2) := by
          simp only [dceS, hc]; rfl
        rw [e] at h ⊢
        have ea : a.eval ρ1 = a.eval ρ2 := eval_agree a ρ1 ρ2 (fun x hx => h x (by simp [hx]))
        have eb : b.eval ρ1 = b.eval ρ2 := eval_agree b ρ1 ρ2 (fun x hx => h x (by simp [hx]))
        simp only [execSimple, ea, eb]
        cases evalTarget op (a.eval ρ2) (b.eval ρ2) with
        | none => exact ⟨rfl, trivial⟩
        | some v =>
          apply ih (update ρ1 y v) (update ρ2 y v)
          exact agreeOn_update _ _ _ (fun x hx => h x (by simp [hx])) y v

theorem dceL_mono (p : List LStmt) (live : List Nat) : ∀ x, x ∈ live → x ∈ (dceL p live).2 := by
  induction p with
  | nil => intro x h; exact h
  | cons st r ih =>
    intro x h
    cases st with
    | s st => simp only [dceL]; exact dceS_mono [st] _ x (ih x h)
    | sif c inv body =>
      simp only [dceL]
      split
      · exact dceS_mono body _ x (ih x h)
      · exact List.mem_append_right _ (dceS_mono body _ x (ih x h))
    | ife c s1 s2 fas =>
      simp only [dceL]
      have h0 : x ∈ (keptFas fas (dceL r live).2).flatMap (fun fa => fa.2.1.vars ++ fa.2.2.vars) ++ (dceL r live).2 :=
        List.mem_append_right _ (ih x h)
      have h2 := dceS_mono s2 _ x (dceS_mono s1 _ x h0)
      split
      · exact h2
      · exact List.mem_append_right _ h2

theorem agreeOn_mono {L L' : List Nat} {ρ1 ρ2 : Nat → Int} (h : AgreeOn L' ρ1 ρ2) (hs : ∀ x, x ∈ L → x ∈ L') :
    AgreeOn L ρ1 ρ2 := fun x hx => h x (hs x hx)

/-- final assignments: the original binds all of them, the optimised block only the live ones -/
theorem assign_kept_agree (L : List Nat) (l : List (Nat × Int)) (σ1 σ2 : Nat → Int) (h : AgreeOn L σ1 σ2) :
    AgreeOn L (assignAll σ1 l) (assignAll σ2 (l.filter fun p => L.contains p.1)) := by
  induction l generalizing σ1 σ2 with
  | nil => exact h
  | cons p r ih =>
    obtain ⟨y, v⟩ := p
    by_cases hy : L.contains y = true
    · simp only [List.filter_cons, hy, if_true, assignAll]
      exact ih _ _ (agreeOn_update L _ _ h y v)
    · simp only [List.filter_cons, hy, assignAll]
      apply ih
      intro x hx
      have : x ≠ y := fun e => hy (by rw [← e]; simpa using hx)
      simp only [update, this, if_false]
      exact h x hx

theorem map_filter_fas (fas : List (Nat × Operand × Operand)) (L : List Nat) (f : Nat × Operand × Operand → Int) :
    (fas.map fun fa => (fa.1, f fa)).filter (fun p => L.contains p.1) = (keptFas fas L).map fun fa => (fa.1, f fa) := by
  unfold keptFas
  rw [List.filter_map]
  rfl

/-- one branch of an if/else followed by its final assignments -/
theorem dce_branch (body : List Simple) (fas : List (Nat × Operand × Operand)) (sel : Operand × Operand → Operand)
    (after l0 : List Nat) (ρ1 ρ2 : Nat → Int)
    (hl0 : ∀ x, x ∈ after → x ∈ l0)
    (huse : ∀ fa, fa ∈ keptFas fas after → ∀ x, x ∈ (sel fa.2).vars → x ∈ l0)
    (h : AgreeOn (dceS body l0).2 ρ1 ρ2) :
    (execSimple body ρ1).1 = (execSimple (dceS body l0).1 ρ2).1 ∧
    (match (execSimple body ρ1).2, (execSimple (dceS body l0).1 ρ2).2 with
     | .trap, .trap => True
     | .brk v, .brk w => v = w
     | .next σ1, .next σ2 =>
        AgreeOn after (assignAll σ1 (fas.map fun fa => (fa.1, (sel fa.2).eval σ1)))
                      (assignAll σ2 ((keptFas fas after).map fun fa => (fa.1, (sel fa.2).eval σ2)))
     | _, _ => False) := by
  have hs := dceS_preserves body l0 ρ1 ρ2 h
  refine ⟨hs.1, ?_⟩
  have hs2 := hs.2
  cases hr1 : execSimple body ρ1 with
  | mk t1 r1 =>
    cases hr2 : execSimple (dceS body l0).1 ρ2 with
    | mk t2 r2 =>
      rw [hr1, hr2] at hs2
      simp only at hs2
      cases r1 <;> cases r2 <;> simp only [EndRel] at hs2 ⊢
      all_goals first | trivial | exact hs2.elim | exact hs2 | skip
      rename_i σ1 σ2
      have hvals : ((keptFas fas after).map fun fa => (fa.1, (sel fa.2).eval σ2))
          = ((keptFas fas after).map fun fa => (fa.1, (sel fa.2).eval σ1)) := by
        apply List.map_congr_left
        intro fa hfa
        rw [eval_agree (sel fa.2) σ1 σ2 (fun x hx => hs2 x (huse fa hfa x hx))]
      rw [hvals, ← map_filter_fas fas after (fun fa => (sel fa.2).eval σ1)]
      exact assign_kept_agree after _ σ1 σ2 (agreeOn_mono hs2 hl0)

theorem assignAll_agree_dead (L : List Nat) (l : List (Nat × Int)) (σ1 σ2 : Nat → Int) (h : AgreeOn L σ1 σ2)
    (hd : ∀ p, p ∈ l → L.contains p.1 = false) : AgreeOn L (assignAll σ1 l) σ2 := by
  have := assign_kept_agree L l σ1 σ2 h
  have he : l.filter (fun p => L.contains p.1) = [] := by
    apply List.filter_eq_nil_iff.mpr
    intro p hp; have := hd p hp; simpa using this
  rw [he] at this
  exact this

/-- FULL STRENGTH (`dceL_preserves`): DCE through `SingleIf` and `IfElse` (with final assignments) over
statement blocks. For every block, every set of names used afterwards and every two environments
that agree on the names DCE considers used at entry: same prints, trap iff trap, break with the same
value, or both fall through with environments that agree on the names used afterwards. -/
theorem dceL_preserves (p : List LStmt) (live : List Nat) (ρ1 ρ2 : Nat → Int)
    (h : AgreeOn (dceL p live).2 ρ1 ρ2) :
    (execL p ρ1).1 = (execL (dceL p live).1 ρ2).1 ∧ EndRel live (execL p ρ1).2 (execL (dceL p live).1 ρ2).2 := by
  induction p generalizing ρ1 ρ2 with
  | nil => exact ⟨rfl, h⟩
  | cons st r ih =>
    cases st with
    | s st =>
      simp only [dceL] at h ⊢
      have hs := dceS_preserves [st] (dceL r live).2 ρ1 ρ2 h
      rw [execL_prefix]
      simp only [execL]
      cases hr1 : execSimple [st] ρ1 with
      | mk t1 r1 =>
        cases hr2 : execSimple (dceS [st] (dceL r live).2).1 ρ2 with
        | mk t2 r2 =>
          rw [hr1, hr2] at hs
          simp only at hs
          cases r1 <;> cases r2 <;> simp only [EndRel] at hs ⊢
          all_goals first | exact ⟨hs.1, trivial⟩ | exact hs.2.elim | exact ⟨hs.1, hs.2⟩ | skip
          have := ih _ _ hs.2
          exact ⟨by rw [hs.1, this.1], this.2⟩
    | sif c inv body =>
      by_cases he : (dceS body (dceL r live).2).1.isEmpty = true
      · -- the whole SingleIf disappears: its body had nothing that must stay
        have e : dceL (.sif c inv body :: r) live = ((dceL r live).1, (dceS body (dceL r live).2).2) := by
          simp only [dceL, he, if_true]
        rw [e] at h ⊢
        have hnil : (dceS body (dceL r live).2).1 = [] := List.isEmpty_iff.mp he
        simp only [execL]
        split
        · have hs := dceS_preserves body (dceL r live).2 ρ1 ρ2 h
          rw [hnil] at hs
          simp only [execSimple] at hs
          cases hr1 : execSimple body ρ1 with
          | mk t1 r1 =>
            rw [hr1] at hs
            simp only at hs
            cases r1 <;> simp only [EndRel] at hs
            · exact hs.2.elim
            · exact hs.2.elim
            · have := ih _ _ hs.2
              simp only
              rw [hs.1]; simpa using this
        · exact ih _ _ (agreeOn_mono h (dceS_mono body _))
      · have e : dceL (.sif c inv body :: r) live
            = (.sif c inv (dceS body (dceL r live).2).1 :: (dceL r live).1, c.vars ++ (dceS body (dceL r live).2).2) := by
          simp only [dceL, he]; rfl
        rw [e] at h ⊢
        have ec : c.eval ρ1 = c.eval ρ2 := eval_agree c ρ1 ρ2 (fun x hx => h x (by simp [hx]))
        have hb : AgreeOn (dceS body (dceL r live).2).2 ρ1 ρ2 := fun x hx => h x (by simp [hx])
        simp only [execL, ec]
        split
        · have hs := dceS_preserves body (dceL r live).2 ρ1 ρ2 hb
          cases hr1 : execSimple body ρ1 with
          | mk t1 r1 =>
            cases hr2 : execSimple (dceS body (dceL r live).2).1 ρ2 with
            | mk t2 r2 =>
              rw [hr1, hr2] at hs
              simp only at hs
              cases r1 <;> cases r2 <;> simp only [EndRel] at hs ⊢
              all_goals first | exact ⟨hs.1, trivial⟩ | exact hs.2.elim | exact ⟨hs.1, hs.2⟩ | skip
              have := ih _ _ hs.2
              exact ⟨by rw [hs.1, this.1], this.2⟩
        · exact ih _ _ (agreeOn_mono hb (dceS_mono body _))
    | ife c s1 s2 fas =>
      -- abbreviations as in the definition
      have hfas : ∀ fa, fa ∈ keptFas fas (dceL r live).2 → ∀ x,
          (x ∈ fa.2.1.vars ∨ x ∈ fa.2.2.vars) →
          x ∈ (keptFas fas (dceL r live).2).flatMap (fun fa => fa.2.1.vars ++ fa.2.2.vars) ++ (dceL r live).2 := by
        intro fa hfa x hx
        apply List.mem_append_left
        apply List.mem_flatMap.mpr
        exact ⟨fa, hfa, by simpa using hx⟩
      have hafter : ∀ x, x ∈ (dceL r live).2 →
          x ∈ (keptFas fas (dceL r live).2).flatMap (fun fa => fa.2.1.vars ++ fa.2.2.vars) ++ (dceL r live).2 :=
        fun x hx => List.mem_append_right _ hx
      generalize hl0 : (keptFas fas (dceL r live).2).flatMap (fun fa => fa.2.1.vars ++ fa.2.2.vars) ++ (dceL r live).2 = l0 at hfas hafter
      by_cases he : ((dceS s1 l0).1.isEmpty && (dceS s2 (dceS s1 l0).2).1.isEmpty && (keptFas fas (dceL r live).2).isEmpty) = true
      · have e : dceL (.ife c s1 s2 fas :: r) live = ((dceL r live).1, (dceS s2 (dceS s1 l0).2).2) := by
          simp only [dceL, hl0, he, if_true]
        rw [e] at h ⊢
        simp only [Bool.and_eq_true] at he
        have hn1 : (dceS s1 l0).1 = [] := List.isEmpty_iff.mp he.1.1
        have hn2 : (dceS s2 (dceS s1 l0).2).1 = [] := List.isEmpty_iff.mp he.1.2
        have hnf : keptFas fas (dceL r live).2 = [] := List.isEmpty_iff.mp he.2
        have hdead : ∀ (f : Nat × Operand × Operand → Int) (p : Nat × Int), p ∈ (fas.map fun fa => (fa.1, f fa)) →
            (dceL r live).2.contains p.1 = false := by
          intro f p hp
          obtain ⟨fa, hfa, rfl⟩ := List.mem_map.mp hp
          cases hcnt : (dceL r live).2.contains fa.1 with
          | false => rfl
          | true =>
            have : fa ∈ keptFas fas (dceL r live).2 := List.mem_filter.mpr ⟨hfa, hcnt⟩
            rw [hnf] at this; simp at this
        simp only [execL]
        split
        · have hs := dceS_preserves s1 l0 ρ1 ρ2 (agreeOn_mono h (dceS_mono s2 _))
          rw [hn1] at hs
          simp only [execSimple] at hs
          cases hr1 : execSimple s1 ρ1 with
          | mk t1 r1 =>
            rw [hr1] at hs
            simp only at hs
            cases r1 <;> simp only [EndRel] at hs
            · exact hs.2.elim
            · exact hs.2.elim
            · rename_i σ1
              have hag : AgreeOn (dceL r live).2 (assignAll σ1 (fas.map fun fa => (fa.1, fa.2.1.eval σ1))) ρ2 :=
                assignAll_agree_dead _ _ σ1 ρ2 (agreeOn_mono hs.2 hafter) (hdead _)
              have := ih _ _ hag
              simp only
              rw [hs.1]; simpa using this
        · have hs := dceS_preserves s2 (dceS s1 l0).2 ρ1 ρ2 h
          rw [hn2] at hs
          simp only [execSimple] at hs
          cases hr1 : execSimple s2 ρ1 with
          | mk t1 r1 =>
            rw [hr1] at hs
            simp only at hs
            cases r1 <;> simp only [EndRel] at hs
            · exact hs.2.elim
            · exact hs.2.elim
            · rename_i σ1
              have hag : AgreeOn (dceL r live).2 (assignAll σ1 (fas.map fun fa => (fa.1, fa.2.2.eval σ1))) ρ2 :=
                assignAll_agree_dead _ _ σ1 ρ2 (agreeOn_mono hs.2 (fun x hx => dceS_mono s1 _ x (hafter x hx))) (hdead _)
              have := ih _ _ hag
              simp only
              rw [hs.1]; simpa using this
      · have e : dceL (.ife c s1 s2 fas :: r) live
            = (.ife c (dceS s1 l0).1 (dceS s2 (dceS s1 l0).2).1 (keptFas fas (dceL r live).2) :: (dceL r live).1,
               c.vars ++ (dceS s2 (dceS s1 l0).2).2) := by
          simp only [dceL, hl0, he]; rfl
        rw [e] at h ⊢
        have ec : c.eval ρ1 = c.eval ρ2 := eval_agree c ρ1 ρ2 (fun x hx => h x (by simp [hx]))
        have h2 : AgreeOn (dceS s2 (dceS s1 l0).2).2 ρ1 ρ2 := fun x hx => h x (by simp [hx])
        simp only [execL, ec]
        split
        · have hb := dce_branch s1 fas (fun q => q.1) (dceL r live).2 l0 ρ1 ρ2 hafter
            (fun fa hfa x hx => hfas fa hfa x (Or.inl hx)) (agreeOn_mono h2 (dceS_mono s2 _))
          cases hr1 : execSimple s1 ρ1 with
          | mk t1 r1 =>
            cases hr2 : execSimple (dceS s1 l0).1 ρ2 with
            | mk t2 r2 =>
              rw [hr1, hr2] at hb
              simp only at hb
              cases r1 <;> cases r2 <;> simp only [EndRel] at hb ⊢
              all_goals first | exact ⟨hb.1, trivial⟩ | exact hb.2.elim | exact ⟨hb.1, hb.2⟩ | skip
              have := ih _ _ hb.2
              exact ⟨by rw [hb.1, this.1], this.2⟩
        · have hb := dce_branch s2 fas (fun q => q.2) (dceL r live).2 (dceS s1 l0).2 ρ1 ρ2
            (fun x hx => dceS_mono s1 _ x (hafter x hx))
            (fun fa hfa x hx => dceS_mono s1 _ x (hfas fa hfa x (Or.inr hx))) h2
          cases hr1 : execSimple s2 ρ1 with
          | mk t1 r1 =>
            cases hr2 : execSimple (dceS s2 (dceS s1 l0).2).1 ρ2 with
            | mk t2 r2 =>
              rw [hr1, hr2] at hb
              simp only at hb
              cases r1 <;> cases r2 <;> simp only [EndRel] at hb ⊢
              all_goals first | exact ⟨hb.1, trivial⟩ | exact hb.2.elim | exact ⟨hb.1, hb.2⟩ | skip
              have := ih _ _ hb.2
              exact ⟨by rw [hb.1, this.1], this.2⟩

example : (dceL [.s (.bin 2 .add (.var 0) (.lit 1)), .sif (.var 0) false [.bin 3 .mul (.var 2) (.var 2)],
                 .ife (.var 1) [.bin 4 .add (.var 2) (.lit 1), .print (.var 4)] [] [(5, .var 4, .lit 0), (6, .var 2, .var 2)]] [6]).1
    = [.s (.bin 2 .add (.var 0) (.lit 1)),
       .ife (.var 1) [.bin 4 .add (.var 2) (.lit 1), .print (.var 4)] [] [(6, .var 2, .var 2)]] := by decide

/-! ## 2b. CCP's boolean shortcut for an if/else -/

/-- FULL STRENGTH: when the shortcut fires (both branches empty, one final assignment with the literal
pair), the if/else followed by ANY continuation behaves like binding the result name to the
condition (pair (1,0)) or to its negation (pair (0,1)), for every boolean condition value. -/
theorem ifshortcut_sound (c : Operand) (r : Nat) (rest : List LStmt) (ρ : Nat → Int)
    (hb : c.eval ρ = 0 ∨ c.eval ρ = 1) :
    (ifShortcut true true [(.lit 1, .lit 0)] = .bindCond ∧
      execL (.ife c [] [] [(r, .lit 1, .lit 0)] :: rest) ρ = execL rest (update ρ r (c.eval ρ))) ∧
    (ifShortcut true true [(.lit 0, .lit 1)] = .xorCond ∧
      execL (.ife c [] [] [(r, .lit 0, .lit 1)] :: rest) ρ = execL rest (update ρ r (1 - c.eval ρ)) ∧
      evalTarget .xor (c.eval ρ) 1 = some (1 - c.eval ρ)) := by
  refine ⟨⟨by decide, ?_⟩, by decide, ?_, ?_⟩
  · generalize hv : c.eval ρ = v at hb
    have e0 : ∀ n : Int, (Operand.lit n).eval ρ = n := fun _ => rfl
    rcases hb with h | h <;> subst h <;> simp [execL, execSimple, assignAll, hv, e0]
  · generalize hv : c.eval ρ = v at hb
    have e0 : ∀ n : Int, (Operand.lit n).eval ρ = n := fun _ => rfl
    rcases hb with h | h <;> subst h <;> simp [execL, execSimple, assignAll, hv, e0]
  · rcases hb with h | h <;> rw [h] <;> decide

/-- the shortcut never fires unless both branches are empty -/
theorem ifshortcut_requires_empty_branches (s1e s2e : Bool) (fas : List (Operand × Operand))
    (h : ifShortcut s1e s2e fas ≠ .keep) : s1e = true ∧ s2e = true ∧ fas.length = 1 := by
  unfold ifShortcut ifShortcutWith at h
  by_cases hc : ((!true || s1e) && (!true || s2e) && fas.length == 1) = true
  · simp only [Bool.not_true, Bool.false_or, Bool.and_eq_true, beq_iff_eq] at hc
    exact ⟨hc.1.1, hc.1.2, hc.2⟩
  · simp at h; exact ⟨h.1, h.2.1, h.2.2.1⟩

/-- The `s2.is_empty()` conjunct is necessary (seeded-fault class C02g): with an effect in the else
branch the original prints when the condition is false, the "shortcut" result never prints. -/
theorem ifshortcut_needs_s2_empty :
    ifShortcut true false [(.lit 1, .lit 0)] = .keep ∧ ifShortcutWith true false true false [(.lit 1, .lit 0)] = .bindCond ∧
    (execL [.ife (.var 0) [] [.print (.lit 7)] [(2, .lit 1, .lit 0)]] (fun _ => 0)).1 = [7] ∧
    (execL ([] : List LStmt) (update (fun _ => 0) 2 0)).1 = [] := by decide

/-- … and so is the `s1.is_empty()` conjunct -/
theorem ifshortcut_needs_s1_empty :
    ifShortcut false true [(.lit 0, .lit 1)] = .keep ∧ ifShortcutWith false true false true [(.lit 0, .lit 1)] = .xorCond ∧
    (execL [.ife (.var 0) [.print (.lit 7)] [] [(2, .lit 0, .lit 1)]] (fun _ => 1)).1 = [7] ∧
    (execL ([] : List LStmt) (update (fun _ => 1) 2 0)).1 = [] := by decide

/-! ## 8b. LICM: hoisted statements first, then the rest of the body = the body -/

def SStmt.reads : SStmt → List Nat
  | .bin _ _ a b => a.vars ++ b.vars
  | .print a => a.vars

def SStmt.defn : SStmt → Option Nat
  | .bin x _ _ _ => some x
  | .print _ => none

/-- SSA discipline of a loop body: every defined name is new, every read name is in scope -/
def wfBody : List SStmt → List Nat → Bool
  | [], _ => true
  | .bin x _ a b :: r, sc => !sc.contains x && a.vars.all sc.contains && b.vars.all sc.contains && wfBody r (x :: sc)
  | .print a :: r, sc => a.vars.all sc.contains && wfBody r sc

def defsS : List SStmt → List Nat
  | [] => []
  | .bin x _ _ _ :: r => x :: defsS r
  | .print _ :: r => defsS r

theorem update_comm (ρ : Nat → Int) (x y : Nat) (v w : Int) (h : x ≠ y) :
    update (update ρ x v) y w = update (update ρ y w) x v := by
  funext z
  simp only [update]
  by_cases h1 : z = y
  · have h2 : z ≠ x := fun e => h (e.symm.trans h1)
    simp [h1]
    intro e; exact absurd e.symm h
  · by_cases h2 : z = x
    · simp [h2]
      intro e; exact absurd e h
    · simp [h1, h2]

/-- swapping a pure, trap-free statement `t` with the statement `s` in front of it -/
theorem commute_one (y : Nat) (opy : Op) (c d : Operand) (s : SStmt) (k : List SStmt) (ρ : Nat → Int)
    (htot : opy ≠ .div ∧ opy ≠ .mod)
    (h1 : y ∉ s.reads) (h2 : s.defn ≠ some y)
    (h3 : ∀ x, s.defn = some x → x ∉ c.vars ∧ x ∉ d.vars) :
    execS (.bin y opy c d :: s :: k) ρ = execS (s :: .bin y opy c d :: k) ρ := by
  obtain ⟨w, hw⟩ := evalTarget_total_of_not_div opy (c.eval ρ) (d.eval ρ) htot.1 htot.2
  cases s with
  | print a =>
    simp only [SStmt.reads] at h1
    simp only [execS, hw, eval_update_of_not_mem a ρ y w h1]
  | bin x op a b =>
    simp only [SStmt.reads, List.mem_append, not_or] at h1
    have hxy : x ≠ y := fun e => h2 (by simp [SStmt.defn, e])
    have h3' := h3 x rfl
    simp only [execS, hw, eval_update_of_not_mem a ρ y w h1.1, eval_update_of_not_mem b ρ y w h1.2]
    cases hv : evalTarget op (a.eval ρ) (b.eval ρ) with
    | none => rfl
    | some v =>
      simp only [eval_update_of_not_mem c ρ x v h3'.1, eval_update_of_not_mem d ρ x v h3'.2, hw]
      rw [update_comm ρ y x w v (fun e => hxy e.symm)]

/-- a hoisted block: pure trap-free statements -/
def PureBlock (h : List SStmt) : Prop := ∀ t, t ∈ h → ∃ y op c d, t = .bin y op c d ∧ op ≠ .div ∧ op ≠ .mod

/-- moving `s` from behind a block of pure trap-free statements to its front -/
theorem commute_block (h : List SStmt) (s : SStmt) (k : List SStmt) (ρ : Nat → Int) (hp : PureBlock h)
    (h1 : ∀ y, y ∈ defsS h → y ∉ s.reads ∧ s.defn ≠ some y)
    (h3 : ∀ x, s.defn = some x → ∀ t, t ∈ h → x ∉ t.reads) :
    execS (h ++ s :: k) ρ = execS (s :: (h ++ k)) ρ := by
  induction h generalizing ρ with
  | nil => rfl
  | cons t r ih =>
    obtain ⟨y, op, c, d, rfl, htot⟩ := hp t (List.mem_cons_self ..)
    have hy := h1 y (by simp [defsS])
    have hr := h3
    -- first run `t`, then use the induction hypothesis, then swap `t` and `s`
    have step : execS (.bin y op c d :: (r ++ s :: k)) ρ = execS (.bin y op c d :: s :: (r ++ k)) ρ := by
      obtain ⟨w, hw⟩ := evalTarget_total_of_not_div op (c.eval ρ) (d.eval ρ) htot.1 htot.2
      simp only [execS, hw]
      have := ih (update ρ y w) (fun t ht => hp t (List.mem_cons_of_mem _ ht))
        (fun z hz => h1 z (by simp [defsS, hz])) (fun x hx t ht => h3 x hx t (List.mem_cons_of_mem _ ht))
      simpa [execS] using this
    simp only [List.cons_append]
    rw [step]
    exact commute_one y op c d s (r ++ k) ρ htot hy.1 hy.2
      (fun x hx => by
        have := h3 x hx (.bin y op c d) (by simp)
        simp only [SStmt.reads, List.mem_append, not_or] at this
        exact this)

theorem licm_hoisted_facts (p : List SStmt) (variant : List Nat) :
    PureBlock (licm p variant).1 ∧
    (∀ t, t ∈ (licm p variant).1 → ∀ x, x ∈ variant → x ∉ t.reads) ∧
    (∀ y, y ∈ defsS (licm p variant).1 → y ∈ defsS p) := by
  induction p generalizing variant with
  | nil => exact ⟨fun t h => by simp [licm] at h, fun t h => by simp [licm] at h, fun y h => by simp [licm, defsS] at h⟩
  | cons st r ih =>
    cases st with
    | print a =>
      simp only [licm]
      obtain ⟨a1, a2, a3⟩ := ih variant
      exact ⟨a1, a2, fun y hy => by simpa [defsS] using a3 y hy⟩
    | bin x op a b =>
      simp only [licm]
      split
      · rename_i hc
        obtain ⟨a1, a2, a3⟩ := ih variant
        refine ⟨?_, ?_, ?_⟩
        · intro t ht
          simp only [List.mem_cons] at ht
          rcases ht with rfl | ht
          · exact ⟨x, op, a, b, rfl, hc.1, hc.2.1⟩
          · exact a1 t ht
        · intro t ht z hz
          simp only [List.mem_cons] at ht
          rcases ht with rfl | ht
          · simp only [SStmt.reads, List.mem_append, not_or]
            have inv : ∀ (o : Operand), o.invariant variant = true → z ∉ o.vars := by
              intro o ho hm
              cases o with
              | lit n => simp [Operand.vars] at hm
              | var w =>
                simp only [Operand.vars, List.mem_singleton] at hm
                subst hm
                simp [Operand.invariant] at ho
                exact ho hz
            exact ⟨inv a hc.2.2.1, inv b hc.2.2.2⟩
          · exact a2 t ht z hz
        · intro y hy
          simp only [defsS, List.mem_cons] at hy ⊢
          rcases hy with h | h
          · exact Or.inl h
          · exact Or.inr (a3 y h)
      · obtain ⟨a1, a2, a3⟩ := ih (x :: variant)
        exact ⟨a1, fun t ht z hz => a2 t ht z (List.mem_cons_of_mem _ hz), fun y hy => by
          simp only [defsS, List.mem_cons]; exact Or.inr (a3 y hy)⟩

theorem wfBody_defs_fresh (p : List SStmt) (sc : List Nat) (h : wfBody p sc = true) : ∀ y, y ∈ defsS p → y ∉ sc := by
  induction p generalizing sc with
  | nil => intro y hy; simp [defsS] at hy
  | cons st r ih =>
    intro y hy
    cases st with
    | print a => simp only [wfBody, Bool.and_eq_true] at h; exact ih sc h.2 y (by simpa [defsS] using hy)
    | bin x op a b =>
      simp only [wfBody, Bool.and_eq_true, Bool.not_eq_true'] at h
      simp only [defsS, List.mem_cons] at hy
      rcases hy with rfl | hy
      · simpa using h.1.1.1
      · intro hs; exact ih (x :: sc) h.2 y hy (List.mem_cons_of_mem _ hs)

/-- FULL STRENGTH (`licm_permutation`): for every SSA loop body, every variant set and every
environment, running the hoisted statements first and the remaining body afterwards gives exactly
what the body gives: the same printed values, the same trap, the same final environment. -/
theorem licm_permutation (p : List SStmt) (variant sc : List Nat) (ρ : Nat → Int) (hwf : wfBody p sc = true) :
    execS ((licm p variant).1 ++ (licm p variant).2.1) ρ = execS p ρ := by
  induction p generalizing variant sc ρ with
  | nil => rfl
  | cons st r ih =>
    cases st with
    | print a =>
      simp only [wfBody, Bool.and_eq_true] at hwf
      obtain ⟨hp, _, hd⟩ := licm_hoisted_facts r variant
      have hfresh := wfBody_defs_fresh r sc hwf.2
      have ha := vars_all hwf.1
      simp only [licm]
      rw [commute_block _ (.print a) _ ρ hp
        (fun y hy => ⟨fun hm => hfresh y (hd y hy) (ha y hm), by simp [SStmt.defn]⟩)
        (fun x hx => by simp [SStmt.defn] at hx)]
      simp only [execS, ih variant sc ρ hwf.2]
    | bin x op a b =>
      simp only [wfBody, Bool.and_eq_true, Bool.not_eq_true'] at hwf
      obtain ⟨⟨⟨hx, ha⟩, hb⟩, hr⟩ := hwf
      have ha := vars_all ha
      have hb := vars_all hb
      simp only [licm]
      split
      · -- hoisted: it stays in front
        simp only [List.cons_append, execS]
        cases evalTarget op (a.eval ρ) (b.eval ρ) with
        | none => rfl
        | some v => exact ih variant (x :: sc) _ hr
      · obtain ⟨hp, hrd, hd⟩ := licm_hoisted_facts r (x :: variant)
        have hfresh := wfBody_defs_fresh r (x :: sc) hr
        rw [commute_block _ (.bin x op a b) _ ρ hp
          (fun y hy => by
            have hy' := hfresh y (hd y hy)
            simp only [List.mem_cons, not_or] at hy'
            refine ⟨?_, by simp [SStmt.defn]; exact fun e => hy'.1 e.symm⟩
            simp only [SStmt.reads, List.mem_append, not_or]
            exact ⟨fun hm => hy'.2 (ha y hm), fun hm => hy'.2 (hb y hm)⟩)
          (fun z hz t ht => by
            simp only [SStmt.defn, Option.some.injEq] at hz
            subst hz
            exact hrd t ht _ (by simp))]
        simp only [execS]
        cases evalTarget op (a.eval ρ) (b.eval ρ) with
        | none => rfl
        | some v => exact ih (x :: variant) (x :: sc) _ hr

example : wfBody [.bin 2 .mul (.var 1) (.lit 3), .print (.var 0), .bin 3 .add (.var 0) (.var 2), .bin 4 .xor (.var 1) (.var 2)] [0, 1] = true := by decide
example : (licm [.bin 2 .mul (.var 1) (.lit 3), .print (.var 0), .bin 3 .add (.var 0) (.var 2), .bin 4 .xor (.var 1) (.var 2)] [0]).1
    = [.bin 2 .mul (.var 1) (.lit 3), .bin 4 .xor (.var 1) (.var 2)] := by decide

end SamVerif.Opt

/-! ## 12. Temporary names across phases: the round driver keeps the heap's counter ahead of every
name it issued (`optimize_sources`, lib.rs:92-124) -/
namespace SamVerif.OptTemp

theorem mem_issued (s n x : Nat) : x ∈ issued s n ↔ s ≤ x ∧ x < s + n := by
  simp [issued, List.mem_range']
  constructor
  · rintro ⟨i, hi, rfl⟩; omega
  · intro h; exact ⟨x - s, by omega, by omega⟩

/-- FULL STRENGTH: if the second phase starts its counter at or above every name the first phase
issued, no name is issued twice. -/
theorem phases_disjoint (s1 n1 s2 n2 : Nat) (h : s1 + n1 ≤ s2) : (issued s1 n1 ++ issued s2 n2).Nodup := by
  rw [List.nodup_append]
  refine ⟨List.nodup_range' .., List.nodup_range' .., ?_⟩
  intro a ha b hb
  rw [mem_issued] at ha hb
  omega

/-- … and a stale start collides as soon as both phases draw a name -/
theorem stale_counter_collides (s1 n1 s2 n2 : Nat) (h1 : s1 ≤ s2) (h2 : s2 < s1 + n1) (hn : 0 < n2) :
    ¬ (issued s1 n1 ++ issued s2 n2).Nodup := by
  rw [List.nodup_append]
  rintro ⟨_, _, hd⟩
  exact hd s2 ((mem_issued ..).mpr ⟨h1, h2⟩) s2 ((mem_issued ..).mpr ⟨Nat.le_refl _, by omega⟩) rfl

/-- the invariant `optimize_sources` owes to the next phase (and which the harness checks on every
optimised program): every issued id is below the heap's next id, for any number of rounds and any
number of requests per round -/
theorem rounds_invariant (h : Nat) (ns : List Nat) :
    h ≤ (runRounds h ns).1 ∧ ∀ x, x ∈ (runRounds h ns).2 → h ≤ x ∧ x < (runRounds h ns).1 := by
  induction ns generalizing h with
  | nil => simp [runRounds]
  | cons n r ih =>
    have := ih (h + n)
    simp only [runRounds]
    refine ⟨by omega, ?_⟩
    intro x hx
    simp only [List.mem_append, mem_issued] at hx
    rcases hx with hx | hx
    · omega
    · have := this.2 x hx; omega

/-- hence the lowering phase, which starts at the heap's next id, never re-issues an optimizer name -/
theorem lowering_disjoint (h : Nat) (ns : List Nat) (m : Nat) :
    ∀ x, x ∈ (runRounds h ns).2 → x ∉ issued (runRounds h ns).1 m := by
  intro x hx hm
  have := (rounds_invariant h ns).2 x hx
  rw [mem_issued] at hm
  omega

/-- Without the sync after the last round the invariant fails whenever that round issued a name
(the seeded-fault class C02c): the lowering phase re-issues it. -/
theorem missing_last_sync_collides (h n m : Nat) (ns : List Nat) (hn : 0 < n) (hm : 0 < m) :
    ∃ x, x ∈ (runRoundsStale h (ns ++ [n])).2 ∧ x ∈ issued (runRoundsStale h (ns ++ [n])).1 m := by
  induction ns generalizing h with
  | nil =>
    refine ⟨h, ?_, ?_⟩ <;> simp [runRoundsStale, mem_issued] <;> omega
  | cons k r ih =>
    obtain ⟨x, hx1, hx2⟩ := ih (h + k)
    have hne : r ++ [n] ≠ [] := by simp
    cases hr : r ++ [n] with
    | nil => exact absurd hr hne
    | cons a t =>
      rw [hr] at hx1 hx2
      refine ⟨x, ?_, ?_⟩
      · simp only [List.cons_append, hr, runRoundsStale, List.mem_append]; exact Or.inr hx1
      · simp only [List.cons_append, hr, runRoundsStale]; exact hx2
example : (runRounds 10 [2, 0, 3]).1 = 15 ∧ (runRoundsStale 10 [2, 0, 3]).1 = 12 := by decide

end SamVerif.OptTemp
