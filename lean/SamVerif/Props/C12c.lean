import SamVerif.Model.MirRename
/-! # C12 — `mir_rename_invariant`: injective renaming of function names, string globals and
variables/temporaries does not change what a program prints. -/
namespace SamVerif.MirRename

def Inj (f : Nat → Nat) : Prop := ∀ a b, f a = f b → a = b

structure RenInj (ρ : Ren) : Prop where
  f : Inj ρ.f
  g : Inj ρ.g
  v : Inj ρ.v

theorem lookup_ren {β γ : Type} (r : Nat → Nat) (hr : Inj r) (h : β → γ) (l : List (Nat × β)) (k : Nat) :
    lookup (l.map fun (k', b) => (r k', h b)) (r k) = (lookup l k).map h := by
  induction l with
  | nil => simp [lookup]
  | cons p ps ih =>
    obtain ⟨k', b⟩ := p
    simp only [List.map_cons, lookup]
    by_cases hk : k = k'
    · subst hk; simp
    · have : ¬ (r k = r k') := fun e => hk (hr _ _ e)
      simp [hk, this, ih]

theorem evalE_ren (ρ : Ren) (hρ : RenInj ρ) (p : Prog) (env : Env) (e : Expr) :
    evalE (renProg ρ p) (renEnv ρ env) (renE ρ e) = evalE p env e := by
  cases e with
  | lit n => simp [renE, evalE]
  | var x =>
    simp only [renE, evalE, renEnv]
    have := lookup_ren ρ.v hρ.v (id : Val → Val) env x
    simpa using this
  | glob g =>
    simp only [renE, evalE, renProg]
    have := lookup_ren ρ.g hρ.g (id : List Nat → List Nat) p.globs g
    simp only [id] at this
    rw [this]
    simp

theorem evalArgs_ren (ρ : Ren) (hρ : RenInj ρ) (p : Prog) (env : Env) (es : List Expr) :
    evalArgs (renProg ρ p) (renEnv ρ env) (es.map (renE ρ)) = evalArgs p env es := by
  induction es with
  | nil => simp [evalArgs]
  | cons e es ih => simp [evalArgs, evalE_ren ρ hρ, ih]

theorem bindParams_ren (ρ : Ren) (xs : List Nat) (vs : List Val) :
    bindParams (xs.map ρ.v) vs = renEnv ρ (bindParams xs vs) := by
  induction xs generalizing vs with
  | nil => simp [bindParams, renEnv]
  | cons x xs ih =>
    cases vs with
    | nil => simp [bindParams, renEnv]
    | cons v vs => simp [bindParams, renEnv, ih]

theorem lookup_fun_ren (ρ : Ren) (hρ : RenInj ρ) (p : Prog) (k : Nat) :
    lookup (renProg ρ p).funs (ρ.f k) = (lookup p.funs k).map (renFn ρ) :=
  lookup_ren ρ.f hρ.f (renFn ρ) p.funs k

theorem lookup_target (ρ : Ren) (hρ : RenInj ρ) (p : Prog) (vc : Val) (f g : Nat) :
    lookup (renProg ρ p).funs (if truthy vc then ρ.f f else ρ.f g) =
      (lookup p.funs (if truthy vc then f else g)).map (renFn ρ) := by
  by_cases h : truthy vc = true <;> simp [h, lookup_fun_ren ρ hρ]

/-- Execution commutes with renaming: same output, renamed final environment. -/
theorem exec_ren (ρ : Ren) (hρ : RenInj ρ) (p : Prog) (fuel : Nat) (body : List Stmt) (env : Env)
    (out : List Val) :
    exec (renProg ρ p) fuel (body.map (renS ρ)) (renEnv ρ env) out =
      (exec p fuel body env out).map fun r => (renEnv ρ r.1, r.2) := by
  fun_induction exec p fuel body env out with
  | case1 fuel env out => simp [exec]
  | case2 fuel x a b rest env out va vb ha hb v hv ih =>
    simp only [List.map_cons, renS, exec, evalE_ren ρ hρ, ha, hb, hv]
    simpa [renEnv] using ih
  | case3 fuel x a b rest env out va vb ha hb hv =>
    simp [renS, exec, evalE_ren ρ hρ, ha, hb, hv]
  | case4 fuel x a b rest env out hne =>
    simp only [List.map_cons, renS, exec, evalE_ren ρ hρ]
    first
      | rfl
      | simp
      | (split
         · rename_i va vb ha hb; exact absurd hb (by simpa using hne va vb ha)
         · simp)
  | case5 fuel e rest env out v he ih =>
    simp only [List.map_cons, renS, exec, evalE_ren ρ hρ, he]
    exact ih
  | case6 fuel e rest env out he =>
    simp [renS, exec, evalE_ren ρ hρ, he]
  | case7 x c f g args rest env out =>
    simp [renS, exec]
  | case8 fuel x c f g args rest env out vc vs hc hargs fn hfn env' out' hbody r hr ih1 ih2 =>
    simp only [List.map_cons, renS, exec, evalE_ren ρ hρ, evalArgs_ren ρ hρ, hc, hargs]
    simp only [dite_eq_ite] at hfn
    have hl : lookup (renProg ρ p).funs (if truthy vc then ρ.f f else ρ.f g) = some (renFn ρ fn) := by
      rw [lookup_target ρ hρ, hfn]; rfl
    simp only [hl, renFn, bindParams_ren]
    rw [ih1, hbody]
    simp only [Option.map_some, evalE_ren ρ hρ, hr]
    simpa [renEnv] using ih2
  | case9 fuel x c f g args rest env out vc vs hc hargs fn hfn env' out' hbody hr =>
    simp only [List.map_cons, renS, exec, evalE_ren ρ hρ, evalArgs_ren ρ hρ, hc, hargs]
    simp only [dite_eq_ite] at hfn
    have hl : lookup (renProg ρ p).funs (if truthy vc then ρ.f f else ρ.f g) = some (renFn ρ fn) := by
      rw [lookup_target ρ hρ, hfn]; rfl
    simp only [hl, renFn, bindParams_ren]
    rename_i ih1
    rw [ih1, hbody]
    simp [evalE_ren ρ hρ, hr]
  | case10 fuel x c f g args rest env out vc vs hc hargs fn hfn hbody ih1 =>
    simp only [List.map_cons, renS, exec, evalE_ren ρ hρ, evalArgs_ren ρ hρ, hc, hargs]
    simp only [dite_eq_ite] at hfn
    have hl : lookup (renProg ρ p).funs (if truthy vc then ρ.f f else ρ.f g) = some (renFn ρ fn) := by
      rw [lookup_target ρ hρ, hfn]; rfl
    simp only [hl, renFn, bindParams_ren]
    rw [ih1, hbody]
    simp
  | case11 fuel x c f g args rest env out vc vs hc hargs hfn =>
    simp only [List.map_cons, renS, exec, evalE_ren ρ hρ, evalArgs_ren ρ hρ, hc, hargs]
    simp only [dite_eq_ite] at hfn
    have hl : lookup (renProg ρ p).funs (if truthy vc then ρ.f f else ρ.f g) = none := by
      rw [lookup_target ρ hρ, hfn]; rfl
    simp [hl]
  | case12 fuel x c f g args rest env out hne =>
    simp only [List.map_cons, renS, exec, evalE_ren ρ hρ, evalArgs_ren ρ hρ]
    first
      | rfl
      | simp

/-- **mir_rename_invariant**: for every injective renaming of function names, string-global names
and variable/temporary names, every entry point, every fuel: the renamed program prints exactly
what the original prints (and gets stuck / runs out of fuel exactly when the original does). -/
theorem mir_rename_invariant (ρ : Ren) (hρ : RenInj ρ) (p : Prog) (fuel main : Nat) :
    run (renProg ρ p) fuel (ρ.f main) = run p fuel main := by
  unfold run
  rw [lookup_fun_ren ρ hρ]
  cases h : lookup p.funs main with
  | none => simp
  | some fn =>
    have := exec_ren ρ hρ p fuel fn.body [] []
    simp only [renEnv, List.map_nil] at this
    simp only [Option.map_some, renFn, this, Option.map_map]
    rfl

/-- non-vacuity: `main` prints a global string and `f(2)` where `f(n) = n + 40`; renamed
`main ↦ 7`, `f ↦ 3`, global `0 ↦ 9`, variables shifted by 100. -/
def demo : Prog :=
  { funs := [(0, ⟨[], [.print (.glob 0), .call 1 (.lit 1) 1 1 [.lit 2], .print (.var 1)], .lit 0⟩),
             (1, ⟨[0], [.bin 2 (.var 0) (.lit 40)], .var 2⟩)],
    globs := [(0, [104, 105])] }
def demoRen : Ren := ⟨fun n => if n = 0 then 7 else n + 2, fun n => n + 9, fun n => n + 100⟩
example : run demo 3 0 = some [.str [104, 105], .int 42] := by
  simp [run, demo, lookup, exec, evalE, evalArgs, bindParams, addV, truthy]
example : run (renProg demoRen demo) 3 7 = some [.str [104, 105], .int 42] := by
  simp [run, demo, demoRen, renProg, renFn, renS, renE, lookup, exec, evalE, evalArgs, bindParams, addV, truthy]

end SamVerif.MirRename
