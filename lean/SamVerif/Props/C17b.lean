import SamVerif.Lemmas.PStr
import SamVerif.Props.C17
/-!
# C17, second part — the 16-byte handle representation

`PStr` equality/hash are computed on the raw 128-bit value and the inline/heap distinction on its
top byte.  The heap model (`Model/Heap.lean`) uses the structural `Handle` type; the theorems below
justify that abstraction for every valid UTF-8 string: tags never collide and the raw encoding is
injective, so raw equality is handle equality.
-/
namespace SamVerif.PStr
open SamVerif.Heap (Handle)
/-- **Tag disjointness**: for every valid UTF-8 string of at most 15 bytes the inline form is never
mistaken for a heap id, whichever field order the compiler chose; a heap id is never mistaken for
an inline string. -/
theorem inline_tag_disjoint (s : String) (h : (bytesOf s).length ≤ 15) :
    isHeap (rawInlineA (bytesOf s)) = false ∧ isHeap (rawInlineB (bytesOf s)) = false ∧
    ∀ id, isHeap (rawId id) = true := by
  refine ⟨?_, ?_, ?_⟩
  · simp only [isHeap, topByte_rawInlineA, beq_eq_false_iff_ne, ne_eq]
    intro hc
    rw [List.getD_eq_getElem?_getD] at hc
    cases hg : (bytesOf s)[14]? with
    | none => rw [hg] at hc; simp at hc
    | some b =>
      rw [hg] at hc; simp at hc; subst hc
      have := bytesOf_lt s 255 (List.mem_of_getElem? hg)
      simp at this
  · simp only [isHeap, topByte_rawInlineB _ h, beq_eq_false_iff_ne, ne_eq]
    intro hc
    have := congrArg UInt8.toNat hc
    simp [UInt8.toNat_ofNat'] at this
    omega
  · intro id; simp [isHeap, topByte_rawId]


/-- Raw 16-byte value of a model handle (field order A). -/
def raw : Handle → Bytes
  | .inl s => rawInlineA s
  | .ref id => rawId id

/-- A handle the heap API can return: an inline string of ≤ 15 UTF-8 bytes or a 32-bit slot id. -/
def Issued : Handle → Prop
  | .inl s => (∃ str : String, bytesOf str = s) ∧ s.length ≤ 15
  | .ref id => id < 2 ^ 32

/-- **Raw equality is handle equality** (hence `Eq`/`Hash` on the `u128` agree with the model's
structural equality, for all issued handles). -/
theorem raw_eq_iff (p q : Handle) (hp : Issued p) (hq : Issued q) : raw p = raw q ↔ p = q := by
  constructor
  · intro h
    cases p with
    | inl s =>
      cases q with
      | inl t => rw [rawInlineA_inj s t hp.2 hq.2 h]
      | ref j =>
        obtain ⟨⟨str, rfl⟩, hl⟩ := hp
        have h1 := (inline_tag_disjoint str hl).1
        have h2 := (inline_tag_disjoint str hl).2.2 j
        simp only [raw] at h; rw [h] at h1; rw [h1] at h2; cases h2
    | ref i =>
      cases q with
      | inl t =>
        obtain ⟨⟨str, rfl⟩, hl⟩ := hq
        have h1 := (inline_tag_disjoint str hl).1
        have h2 := (inline_tag_disjoint str hl).2.2 i
        simp only [raw] at h; rw [← h] at h1; rw [h1] at h2; cases h2
      | ref j => rw [rawId_inj i j hp hq h]
  · intro h; rw [h]

/-- non-vacuity: a 15-byte string ending in a multi-byte character and a slot id -/
example : Issued (.inl (bytesOf "aaaaaaaaaaaaé")) := ⟨⟨_, rfl⟩, by decide⟩
example : isHeap (rawInlineA (bytesOf "aaaaaaaaaaaaé")) = false := by decide
example : isHeap (rawId 7) = true := by decide

end SamVerif.PStr
