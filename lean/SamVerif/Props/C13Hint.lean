import SamVerif.Model.C13Hint
import SamVerif.Generated.C13Phase0
/-!
# C13 (part c) — the hint-ordering kernel of generic-call checking

"Making an inferred lambda-parameter type explicit" may change how an argument of a call with
inferred type arguments is *classified* (`arguments_should_be_checked_without_hint`) and thereby
whether it is checked with or without a hint.  The theorems below say that the classification is
exactly "nothing in a hint position still needs a hint", and that Phase 0 therefore never finalises
an argument that still needs a hint without giving it one — for every argument shape and every
annotation subset.  The two independently seeded faults of this property are exactly the two ways
to break this (`any_annotated_rule_counterexample`, `placeholder_in_type_test_counterexample`).
Tie: `cls` protocol (real classification through hook `verif_hooks_c13`) and
`Generated/C13Phase0.lean` (translator `extract/c13_phase0.py`).
Not modelled: what a hint is and how it is solved (`solve_type_arguments`, `type_meet`).
-/
namespace SamVerif.Hint

/-- specification: the argument contains, in a position through which the contextual type flows
(the argument itself, a lambda body, the final expression of a branch / case / block), something
that cannot be typed without that contextual type: a call, or a lambda parameter without annotation -/
inductive NeedsHint : Arg → Prop
  | call : NeedsHint .call
  | lamParam {anns : List Bool} {body : Arg} : false ∈ anns → NeedsHint (.lambda anns body)
  | lamBody {anns : List Bool} {body : Arg} : NeedsHint body → NeedsHint (.lambda anns body)
  | ifThen {t e : Arg} : NeedsHint t → NeedsHint (.ifElse (some t) e)
  | ifElse {t : Option Arg} {e : Arg} : NeedsHint e → NeedsHint (.ifElse t e)
  | matchArm {cases : List Arg} {c : Arg} : c ∈ cases → NeedsHint c → NeedsHint (.matchE cases)
  | block {f : Arg} : NeedsHint f → NeedsHint (.block (some f))

theorem all_id_iff (l : List Bool) : l.all id = true ↔ false ∉ l := by
  induction l with
  | nil => simp
  | cons b l ih => cases b <;> simp_all

mutual
theorem classification_exact_aux : ∀ a : Arg, withoutHint a = true ↔ ¬ NeedsHint a
  | .simple => by simp only [withoutHint, true_iff]; intro h; cases h
  | .call => by simp only [withoutHint]; constructor; · intro h; cases h
                · intro h; exact absurd .call h
  | .ifElse t e => by
    have ht := classification_opt t
    have he := classification_exact_aux e
    simp only [withoutHint, Bool.and_eq_true, ht, he]
    constructor
    · rintro ⟨h1, h2⟩ h
      cases h with
      | ifThen h' => exact h1 _ rfl h'
      | ifElse h' => exact h2 h'
    · intro h
      exact ⟨fun x hx hn => h (hx ▸ .ifThen hn), fun hn => h (.ifElse hn)⟩
  | .matchE cases => by
    have hc := classification_all cases
    simp only [withoutHint, hc]
    constructor
    · intro h hn
      cases hn with
      | matchArm hm hn' => exact h _ hm hn'
    · intro h c hm hn
      exact h (.matchArm hm hn)
  | .lambda anns body => by
    have hb := classification_exact_aux body
    simp only [withoutHint, Bool.and_eq_true, all_id_iff, hb]
    constructor
    · rintro ⟨h1, h2⟩ h
      cases h with
      | lamParam h' => exact h1 h'
      | lamBody h' => exact h2 h'
    · intro h
      exact ⟨fun hm => h (.lamParam hm), fun hn => h (.lamBody hn)⟩
  | .block f => by
    have hf := classification_opt f
    simp only [withoutHint, hf]
    constructor
    · intro h hn
      cases hn with
      | block h' => exact h _ rfl h'
    · intro h x hx hn
      exact h (hx ▸ .block hn)
theorem classification_opt : ∀ o : Option Arg, withoutHintOpt o = true ↔ ∀ x, o = some x → ¬ NeedsHint x
  | none => by simp [withoutHintOpt]
  | some a => by
    have := classification_exact_aux a
    simp [withoutHintOpt, this]
theorem classification_all : ∀ l : List Arg, withoutHintAll l = true ↔ ∀ c ∈ l, ¬ NeedsHint c
  | [] => by simp [withoutHintAll]
  | a :: as => by
    have h1 := classification_exact_aux a
    have h2 := classification_all as
    simp [withoutHintAll, h1, h2]
end

/-- **`classification_exact`**: an argument is checked without a hint iff nothing in a hint
position of it needs one (all argument shapes, all nesting depths). -/
theorem classification_exact (a : Arg) : withoutHint a = true ↔ ¬ NeedsHint a :=
  classification_exact_aux a

/-- **`needs_hint_gets_hint`**: with the re-check decided by the produced-placeholders flag, an
argument that needs a hint and whose synthesis produced a placeholder is always re-checked with a
hint in Phase 1; and nothing that needs a hint is ever checked with `type_hint::MISSING` only. -/
theorem needs_hint_gets_hint (a : Arg) (produced visible : Bool) (hn : NeedsHint a) :
    phase0 .producedFlag a produced visible ≠ .checkedWithoutHint ∧
    (produced = true → phase0 .producedFlag a produced visible = .recheckedWithHint) := by
  have hw : withoutHint a = false := by
    cases h : withoutHint a
    · rfl
    · exact absurd hn ((classification_exact a).mp h)
  constructor
  · simp only [phase0, hw]; cases produced <;> simp
  · intro hp; simp [phase0, hw, hp]

/-- the same about the code as it stands (the decision test is read from the source) -/
theorem phase0_code_never_starves (a : Arg) (produced visible : Bool) (hn : NeedsHint a)
    (hp : produced = true) :
    phase0 Generated.recheckTest a produced visible = .recheckedWithHint :=
  (needs_hint_gets_hint a produced visible hn).2 hp

/-- **`annotation_never_starves`** (the rewrite of C13, one parameter at a time and in any subset):
annotating parameter `i` of a lambda argument either makes the argument hint-free (then it is
rightly checked without a hint) or leaves it in the re-checked-with-hint class whenever its
synthesis produces a placeholder — it never lands in "needs a hint but gets none". -/
theorem annotation_never_starves (anns : List Bool) (body : Arg) (i : Nat) (produced visible : Bool) :
    (¬ NeedsHint (.lambda (annotateAt i anns) body) ∧
      phase0 Generated.recheckTest (.lambda (annotateAt i anns) body) produced visible = .checkedWithoutHint) ∨
    (NeedsHint (.lambda (annotateAt i anns) body) ∧
      phase0 Generated.recheckTest (.lambda (annotateAt i anns) body) produced visible ≠ .checkedWithoutHint ∧
      (produced = true →
        phase0 Generated.recheckTest (.lambda (annotateAt i anns) body) produced visible = .recheckedWithHint)) := by
  by_cases hn : NeedsHint (.lambda (annotateAt i anns) body)
  · exact Or.inr ⟨hn, needs_hint_gets_hint _ produced visible hn⟩
  · refine Or.inl ⟨hn, ?_⟩
    have := (classification_exact _).mpr hn
    simp [phase0, this]

/-- Phase 0 over a whole argument list: `for arg in function_arguments { … }` -/
def phase0All (test : RecheckTest) (args : List (Arg × Bool × Bool)) : List Status :=
  args.map fun a => phase0 test a.1 a.2.1 a.2.2

/-- **`annotation_is_local`**: Phase 0 decides every argument on its own — making a type explicit in
argument `i` (any rewrite of that argument, and whatever its synthesis then produces) changes the
Phase-0 status of no other argument of the call. -/
theorem annotation_is_local (test : RecheckTest) (args : List (Arg × Bool × Bool)) (i j : Nat)
    (a' : Arg × Bool × Bool) (hij : j ≠ i) :
    (phase0All test (args.set i a'))[j]? = (phase0All test args)[j]? := by
  simp only [phase0All, List.getElem?_map, List.getElem?_set]
  by_cases h : i = j
  · exact absurd h.symm hij
  · simp [h]

example : phase0All .producedFlag [(.lambda [false] .simple, true, true), (.simple, false, false)]
    = [.recheckedWithHint, .checkedWithoutHint] := by decide

/-- annotating never creates a need for a hint -/
theorem annotate_monotone (anns : List Bool) (body : Arg) (i : Nat)
    (h : NeedsHint (.lambda (annotateAt i anns) body)) : NeedsHint (.lambda anns body) := by
  cases h with
  | lamBody h' => exact .lamBody h'
  | lamParam hm =>
    refine .lamParam ?_
    induction anns generalizing i with
    | nil => simp [annotateAt] at hm
    | cons b bs ih =>
      cases i with
      | zero => simp only [annotateAt, List.mem_cons] at hm; rcases hm with h | h
                · cases h
                · exact List.mem_cons_of_mem _ h
      | succ i =>
        simp only [annotateAt, List.mem_cons] at hm
        rcases hm with h | h
        · exact h ▸ List.mem_cons_self
        · exact List.mem_cons_of_mem _ (ih i h)

/-- fault class 1 (seed C13): classifying a lambda by "some parameter annotated" instead of "all"
lets a partially annotated lambda, which needs a hint, be checked without one. -/
theorem any_annotated_rule_counterexample :
    ∃ anns body, NeedsHint (.lambda anns body) ∧ (anns.any id && withoutHint body) = true :=
  ⟨[true, false], .simple, .lamParam (by simp), by decide⟩

/-- fault class 2 (seed C13b): deciding the re-check by "the argument's own type shows a
placeholder" finalises an argument whose placeholder is hidden behind a concrete first branch. -/
theorem placeholder_in_type_test_counterexample :
    ∃ a, NeedsHint a ∧ phase0 .placeholderInType a true false = .synthesisedFinal :=
  ⟨.matchE [.simple, .call], .matchArm (c := .call) (by simp) .call, by decide⟩

/-! ## the produced-placeholders flag across nested synthesis runs -/

mutual
theorem flagAfter_saveRestore : ∀ (evs : List SynthEv) (flag : Bool),
    flagAfter .saveRestore flag evs = (flag || directPlaceholder evs)
  | [], flag => by simp [flagAfter, directPlaceholder]
  | .placeholder :: rest, flag => by
    simp [flagAfter, directPlaceholder, flagAfter_saveRestore rest true]
  | .nested body :: rest, flag => by
    simp [flagAfter, directPlaceholder, runSynth, flagAfter_saveRestore rest flag]
end

/-- **`synth_flag_exact`** (needs the restore): with save / restore, a synthesis run reports
exactly "the flag it was entered with, or a placeholder produced directly in it", and leaves the
caller's flag untouched — whatever nested runs happen inside it, however deep, in whatever order.
In particular a nested run can never *clear* what the enclosing run has already produced. -/
theorem synth_flag_exact (flag : Bool) (body : List SynthEv) :
    runSynth .saveRestore flag body = (flag || directPlaceholder body, flag) := by
  simp [runSynth, flagAfter_saveRestore]

theorem directPlaceholder_perm {a b : List SynthEv} (h : a.Perm b) :
    directPlaceholder a = directPlaceholder b := by
  induction h with
  | nil => rfl
  | cons x _ ih => cases x <;> simp [directPlaceholder, ih]
  | swap x y l => cases x <;> cases y <;> simp [directPlaceholder]
  | trans _ _ ih1 ih2 => exact ih1.trans ih2

/-- **order independence**: reordering what happens inside a run (e.g. swapping the branches of an
if/else argument) does not change what the run reports. -/
theorem synth_flag_order_independent (flag : Bool) {a b : List SynthEv} (h : a.Perm b) :
    runSynth .saveRestore flag a = runSynth .saveRestore flag b := by
  simp [synth_flag_exact, directPlaceholder_perm h]

/-- the same about the code as it stands (discipline read from typing_context.rs) -/
theorem synth_flag_exact_code (flag : Bool) (body : List SynthEv) :
    runSynth Generated.flagDiscipline flag body = (flag || directPlaceholder body, flag) :=
  synth_flag_exact flag body

/-- fault class 4 (seed C13d): resetting the flag on entry without restoring it lets the *last*
nested run overwrite the enclosing run's flag: a run that produced a placeholder and then contains
a nested run without placeholders reports "none produced" — and the report depends on the order. -/
theorem reset_no_restore_counterexample :
    (runSynth .resetNoRestore false [.placeholder, .nested []]).1 = false ∧
    (runSynth .resetNoRestore false [.nested [], .placeholder]).1 = true ∧
    directPlaceholder [.placeholder, .nested []] = true := by
  simp [runSynth, flagAfter, directPlaceholder]

/-! ## bounds of type parameters: explicit and inferred instantiation are validated alike -/

theorem lookupT_mapOf {pairs : List (BParam × BTy)} (hnd : (pairs.map fun e => e.1.name).Nodup)
    {p : BParam} {t : BTy} (hm : (p, t) ∈ pairs) : lookupT p.name (mapOf pairs) = some t := by
  induction pairs with
  | nil => cases hm
  | cons e rest ih =>
    simp only [List.map_cons, List.nodup_cons] at hnd
    rcases List.mem_cons.mp hm with he | hr
    · subst he; simp [mapOf, lookupT]
    · have hne : e.1.name ≠ p.name := fun h => hnd.1 (by
        rw [h]; exact List.mem_map_of_mem (f := fun e : BParam × BTy => e.1.name) hr)
      simp only [mapOf, List.map_cons, lookupT, hne, if_false]
      exact ih hnd.2 hr

theorem explicit_eq_inferred_aux (sat : BTy → BTy → Bool) (σ : List (Nat × BTy))
    (suffix : List (BParam × BTy)) (i : Nat)
    (h : ∀ e ∈ suffix, lookupT e.1.name σ = some e.2) :
    explicitFull sat σ suffix i = inferredViolations sat σ (suffix.map (·.1)) i := by
  induction suffix generalizing i with
  | nil => rfl
  | cons e rest ih =>
    obtain ⟨p, t⟩ := e
    have h0 := h (p, t) (by simp)
    simp only at h0
    simp only [explicitFull, List.map_cons, inferredViolations, h0]
    rw [ih (i + 1) (fun e he => h e (List.mem_cons_of_mem _ he))]

/-- **`validators_agree`**: for every parameter list with pairwise distinct names — any number of
parameters, any bounds, including bounds that mention *other* parameters, earlier or later — and
every list of type arguments, the validator of written generic types (full positional map) and the
validator of inferred type arguments report exactly the same violated parameters. So spelling an
inferred instantiation out (annotation / explicit type arguments) cannot change the verdict. -/
theorem validators_agree (sat : BTy → BTy → Bool) (pairs : List (BParam × BTy))
    (hnd : (pairs.map fun e => e.1.name).Nodup) :
    explicitViolations .fullMap sat pairs = inferredViolations sat (mapOf pairs) (pairs.map (·.1)) 0 :=
  explicit_eq_inferred_aux sat (mapOf pairs) pairs 0 (fun e he => lookupT_mapOf hnd (p := e.1) (t := e.2) he)

/-- the same about the code as it stands (substitution mode read from typing_context.rs) -/
theorem validators_agree_code (sat : BTy → BTy → Bool) (pairs : List (BParam × BTy))
    (hnd : (pairs.map fun e => e.1.name).Nodup) :
    explicitViolations Generated.boundSubst sat pairs
      = inferredViolations sat (mapOf pairs) (pairs.map (·.1)) 0 :=
  validators_agree sat pairs hnd

/-- fault class 5 (seed C13e): growing the map inside the loop leaves a *later* parameter in the
bound of an earlier one unsubstituted: `class Link<A: Conv<B>, B>` instantiated `Link<M, F>` with
`M : Conv<F>` is accepted by the inferred validator and rejected by the fused explicit one. -/
theorem prefix_map_counterexample :
    ∃ (sat : BTy → BTy → Bool) (pairs : List (BParam × BTy)),
      (pairs.map fun e => e.1.name).Nodup ∧
      inferredViolations sat (mapOf pairs) (pairs.map (·.1)) 0 = [] ∧
      explicitViolations .prefixMap sat pairs = [0] :=
  ⟨fun t b => t == .con 10 && b == .app (.con 1) (.con 20),
   [(⟨0, some (.app (.con 1) (.var 1))⟩, .con 10), (⟨1, none⟩, .con 20)],
   by decide, by decide, by decide⟩

/-! ## hint propagation through if / else-if / else -/

/-- **`wrap_keeps_hints`**: with the else part checked against the type of the then-block, wrapping
(or unwrapping) any continuation of an if / else-if chain in a block — `else if c {…}` ⇄
`else { if c {…} }`, at any position, any number of times — changes neither the hint any branch
receives nor the resulting type (for every outer hint, every typing function of the branches). -/
theorem wrap_keeps_hints {β τ : Type} (ty : β → Option τ → τ) (h : Option τ) (t : IfTree β) :
    hints .firstBranch ty h t = hints .firstBranch ty h t.strip := by
  induction t generalizing h with
  | blk b => rfl
  | wrapped t ih => simp only [hints, IfTree.strip]; exact ih h
  | ite b els ih => simp only [hints, IfTree.strip, ih]

/-- the same about the code as it stands (rule read from the source) -/
theorem wrap_keeps_hints_code {β τ : Type} (ty : β → Option τ → τ) (h : Option τ) (t : IfTree β) :
    hints Generated.elseIfHint ty h t = hints Generated.elseIfHint ty h t.strip :=
  wrap_keeps_hints ty h t

/-- **`annotate_keeps_later_hints`**: making the inferred type `T` of an if/else explicit as the
outer hint (annotated `let`) changes no hint of a later branch and not the result, provided the
then-block checked against its own inferred type keeps that type. -/
theorem annotate_keeps_later_hints {β τ : Type} (ty : β → Option τ → τ) (b : β) (els : IfTree β)
    (hstable : ty b (some (ty b none)) = ty b none) :
    (hints .firstBranch ty (some (ty b none)) (.ite b els)).2 = (hints .firstBranch ty none (.ite b els)).2 ∧
    (hints .firstBranch ty (some (ty b none)) (.ite b els)).1.tail =
      (hints .firstBranch ty none (.ite b els)).1.tail := by
  simp only [hints, hstable, List.tail_cons, and_self]

/-- fault class 3 (seed C13c): handing the `else if` continuation the hint of the *enclosing*
if/else makes block-wrapping observable: in a position without outer hint the second branch gets no
hint, whereas the wrapped form `else { if … }` gives it the first branch's type. -/
theorem enclosing_hint_rule_counterexample :
    ∃ (ty : Nat → Option Nat → Nat) (t : IfTree Nat),
      hints .enclosing ty none t ≠ hints .enclosing ty none t.strip :=
  ⟨fun b h => h.getD b, .ite 1 (.wrapped (.ite 2 (.blk 3))), by decide⟩

example : (hints .firstBranch (fun b h => h.getD b) none (.ite 1 (.ite 2 (.blk 3)))).1
    = [(1, none), (2, some 1), (3, some 1)] := by decide

example : withoutHint (.lambda [true, true] (.block (some .simple))) = true := by decide
example : phase0 Generated.recheckTest (.lambda [true, false] .simple) true true = .recheckedWithHint := by decide

end SamVerif.Hint
