import SamVerif.Lemmas.Scope
import SamVerif.Lemmas.ScopeRename
/-!
# C15 — Navigation and rename agree with the language's scoping rules

The service's lookup *is* the checker's `SsaAnalysisResult` (`variable_definition.rs:25-50`), so
"agrees with the checker" reduces to properties of `Model/Scope.lean` (tied to `ssa_analysis.rs`
by the `ssa` protocol and to `query::definition_location` / `query::all_references` by the `q`
protocol) plus the renamer.  `apply_renaming` (`variable_definition.rs:362`) rewrites the name of
exactly the identifier nodes whose location is the definition or one of its uses; on the event
view of a module that is `renameAt`.

History: C15-F1 (`this` was renamable) and C15-F2 (or-patterns nested in a later alternative
were invisible to the analysis) were repaired by the fix commits 69a554a / a157fc5; the model is
the fixed code.
-/
namespace SamVerif.Scope

variable {α : Type} [DecidableEq α]

def keysNodup {κ ν : Type} (m : List (κ × ν)) : Prop := (m.map (·.1)).Nodup

theorem insertKV_keysNodup {κ ν : Type} [DecidableEq κ] (k : κ) (v : ν) (m : List (κ × ν))
    (h : keysNodup m) : keysNodup (insertKV k v m) := by
  simp only [keysNodup, insertKV, List.map_cons, List.nodup_cons]
  refine ⟨?_, (List.filter_sublist.map _).nodup h⟩
  simp only [List.mem_map, List.mem_filter]
  rintro ⟨e, ⟨_, he⟩, rfl⟩
  simp at he

theorem step_useDef_nodup (st : St α) (ev : Ev α) (h : keysNodup st.useDef) :
    keysNodup (step st ev).useDef := by
  cases ev with
  | push => exact h
  | pop k loc =>
    simp only [step]
    split
    · cases k <;> exact h
    · exact h
  | define n l =>
    simp only [step, defineId]
    split
    · split <;> exact h
    · exact h
  | use n l ft =>
    simp only [step, useId]
    split
    · exact insertKV_keysNodup _ _ _ h
    · exact h

/-- **`use_define_map` is a function** in every reachable state: an occurrence resolves to at most
one binding (unbounded event sequences). -/
theorem useDef_functional (evs : List (Ev α)) (st : St α) (h : keysNodup st.useDef) :
    keysNodup (run evs st).useDef := by
  induction evs generalizing st with
  | nil => exact h
  | cons ev evs ih => exact ih (step st ev) (step_useDef_nodup st ev h)

theorem lookupKV_of_mem {κ ν : Type} [DecidableEq κ] {m : List (κ × ν)} (h : keysNodup m)
    {k : κ} {v : ν} (hm : (k, v) ∈ m) : lookupKV k m = some v := by
  induction m with
  | nil => cases hm
  | cons e m ih =>
    obtain ⟨k', v'⟩ := e
    simp only [keysNodup, List.map_cons, List.nodup_cons] at h
    rcases List.mem_cons.mp hm with he | hm'
    · cases he; simp [lookupKV]
    · have : k' ≠ k := fun e => h.1 (e ▸ List.mem_map_of_mem (f := (·.1)) hm')
      simp [lookupKV, this, ih h.2 hm']

theorem mem_of_lookupKV {κ ν : Type} [DecidableEq κ] {m : List (κ × ν)} {k : κ} {v : ν}
    (h : lookupKV k m = some v) : (k, v) ∈ m := by
  induction m with
  | nil => simp [lookupKV] at h
  | cons e m ih =>
    obtain ⟨k', v'⟩ := e
    simp only [lookupKV] at h
    split at h
    · rename_i hk; cases h; simp [hk]
    · exact List.mem_cons_of_mem _ (ih h)

theorem lookupKV_map_self {ν : Type} (g : Nat → ν) {l : List Nat} {d : Nat} (h : d ∈ l) :
    lookupKV d (l.map fun x => (x, g x)) = some (g d) := by
  induction l with
  | nil => cases h
  | cons a l ih =>
    by_cases ha : a = d
    · simp [lookupKV, ha]
    · rcases List.mem_cons.mp h with e | h'
      · exact absurd e.symm ha
      · simp [lookupKV, ha, ih h']

/-- **`def_use_partition`**: in every reachable state, for every definition `d` the reference list
`def_to_use_map[d]` (what `find_all_definition_and_uses` / `all_references` return) is `d` itself
plus *exactly* the occurrences that `use_define_map` resolves to `d`. -/
theorem def_use_partition (evs : List (Ev α)) (d u : Nat)
    (hd : d ∈ (run evs (init : St α)).defLocs) :
    (∃ us, lookupKV d (defToUse (run evs (init : St α))) = some us ∧
      (u ∈ us ↔ u = d ∨ lookupKV u (run evs (init : St α)).useDef = some d)) := by
  have hn : keysNodup (run evs (init : St α)).useDef := useDef_functional evs init (by simp [keysNodup, init])
  generalize run evs (init : St α) = st at hd hn
  refine ⟨d :: (st.useDef.filter (fun e => e.2 = d)).map (·.1), ?_, ?_⟩
  · simp only [defToUse]
    exact lookupKV_map_self _ (List.mem_eraseDups.mpr hd)
  · simp only [List.mem_cons, List.mem_map, List.mem_filter]
    constructor
    · rintro (h | ⟨e, ⟨he, hed⟩, rfl⟩)
      · exact Or.inl h
      · right
        obtain ⟨a, b⟩ := e
        simp only [decide_eq_true_eq] at hed
        subst hed
        exact lookupKV_of_mem hn he
    · rintro (h | h)
      · exact Or.inl h
      · exact Or.inr ⟨(u, d), ⟨mem_of_lookupKV h, by simp⟩, rfl⟩

/-- every use is either resolved (enters `use_define_map`) or reported as unbound — never both,
never neither -/
theorem use_resolved_or_reported (st : St α) (n : α) (loc : Nat) (ft : Bool) :
    (∃ d, lookupKV loc (useId st n loc ft).useDef = some d ∧ (useId st n loc ft).errors = st.errors) ∨
    ((useId st n loc ft).useDef = st.useDef ∧
      (useId st n loc ft).errors = st.errors ++ [Err.cannotResolve loc n]) := by
  simp only [useId]
  split
  · next k l _ => left; exact ⟨l, by simp [insertKV, lookupKV], rfl⟩
  · right; exact ⟨rfl, rfl⟩

/-! ### the renamer (`renameEv`, `renameAt`, `Node.renameAt`: Lemmas/ScopeRename.lean) -/

/-- **`rename_involutive`**: renaming the occurrences `S` (all of which carry the name `old`) to any
name and back restores the original, for every event sequence. -/
theorem rename_involutive (S : List Nat) (old new : α) (evs : List (Ev α))
    (h : ∀ ev ∈ evs, ∀ l, ev.loc = some l → l ∈ S → ev.name? = some old) :
    renameAt S old (renameAt S new evs) = evs := by
  induction evs with
  | nil => rfl
  | cons ev evs ih =>
    have ih' := ih (fun e he => h e (List.mem_cons_of_mem _ he))
    simp only [renameAt, List.map_cons, List.map_map] at ih' ⊢
    rw [ih']
    congr 1
    cases ev with
    | push => rfl
    | pop k l => rfl
    | define n l =>
      have := h (.define n l) (by simp) l rfl
      by_cases hl : l ∈ S
      · have hn : n = old := by simpa [Ev.name?] using this hl
        simp [renameEv, hl, hn]
      · simp [renameEv, hl]
    | use n l ft =>
      have := h (.use n l ft) (by simp) l rfl
      by_cases hl : l ∈ S
      · have hn : n = old := by simpa [Ev.name?] using this hl
        simp [renameEv, hl, hn]
      · simp [renameEv, hl]

/-- **The tree renamer is the event renamer**: visiting the module rewritten by `apply_renaming`
(every identifier node at a location of `S` renamed — variables, pattern binders including
struct-shorthand binders, lambda parameters) yields the renamed events.  So the event-level
theorems below speak about the rewritten syntax tree, for every binding form and nesting. -/
theorem rename_tree_commutes (S : List Nat) (new : α) (n : Node α) :
    visit (Node.renameAt S new n) = renameAt S new (visit n) :=
  visit_renameAt S new n

/-- **`rename_changes_names_only`**: the renamer touches identifier names and nothing else — the
name-erased tree (tags, locations, children: explicit type arguments, annotations, pattern
structure, statement kinds) of the renamed tree is that of the original, for every tree and every
set of renamed locations. Tied generator-independently by the harness: the structural dump of the
re-parsed renamed module equals the dump of the (formatted) original with the new name put back. -/
theorem rename_changes_names_only (S : List Nat) (new : α) (n : Node α) :
    Node.map (fun _ => ()) (Node.renameAt S new n) = Node.map (fun _ => ()) n :=
  renameAt_erase S new n

/-- non-vacuity: a node with explicit type-argument children and a renamed receiver -/
example : Node.map (fun _ => ()) (Node.renameAt [5] 9 (.mk .seq none 0 [.mk .var (some 1) 5 [], .mk .tyUse (some 3) 6 []]))
    = Node.map (fun _ => ()) (Node.mk Tag.seq none 0 [.mk .var (some 1) 5 [], .mk .tyUse (some 3) 6 []]) :=
  rename_changes_names_only [5] 9 _
example : Node.renameAt [5] 9 (.mk .seq none 0 [.mk .var (some 1) 5 [], .mk .tyUse (some 3) 6 []])
    = (.mk .seq none 0 [.mk .var (some 9) 5 [], .mk .tyUse (some 3) 6 []] : Node Nat) := by
  simp [Node.renameAt, Node.renameAtList]

/-- …and at member level, parameters included (`mod_def_id` on `AnnotatedId`s,
`variable_definition.rs:400-450`): type parameters, parameter annotations, return type, parameters,
body. -/
theorem rename_member_commutes (S : List Nat) (new : α) (m : Member α) :
    visitMember (Member.renameAt S new m) = renameAt S new (visitMember m) :=
  visitMember_renameAt S new m

/-- **`rename_preserves_resolution`** (general; no "bound once" condition): let the module be
accepted by scope analysis, `new` fresh, and `S` = the binding `d` plus exactly the occurrences
that resolve to it (`Admissible`, a decidable predicate evaluated along the original run; other
bindings may carry the same old name).  Then the renamed module has the same use→definition map,
the same definition set and reference lists, no new diagnostics, and the same per-scope binding
tables and lambda-capture tables up to the new name (`rnE`: the entry of `d` carries `new`) — no
capture, no escape. -/
theorem rename_preserves_resolution (S : List Nat) (d : Nat) (old new : α) (evs : List (Ev α))
    (h : Admissible S d old new evs init) :
    (run (renameAt S new evs) init).useDef = (run evs (init : St α)).useDef ∧
    (run (renameAt S new evs) init).invalid = (run evs (init : St α)).invalid ∧
    defToUse (run (renameAt S new evs) init) = defToUse (run evs (init : St α)) ∧
    (run (renameAt S new evs) init).errors = (run evs (init : St α)).errors ∧
    (run (renameAt S new evs) init).unbound = (run evs (init : St α)).unbound ∧
    (run (renameAt S new evs) init).scopedDefs =
      (run evs (init : St α)).scopedDefs.map (fun e => (e.1, List.map (rnE d new) e.2)) ∧
    (run (renameAt S new evs) init).lambdaCaps =
      (run evs (init : St α)).lambdaCaps.map (fun e => (e.1, List.map (rnE d new) e.2)) := by
  have hr := run_sim S d old new evs init init (rinv_init d old new) (rel_init d new) h
  exact ⟨hr.useDef, hr.invalid, by simp [defToUse, hr.useDef, hr.defLocs], hr.errors, hr.unbound,
    hr.scopedDefs, hr.lambdaCaps⟩

/-- non-vacuity: two sibling bindings with the same name `1`; renaming the first (location 10, use
11) to `7` is admissible although the name is bound twice. -/
example : Admissible [10, 11] 10 1 7
    [Ev.push, .define 1 10, .use 1 11 false, .pop .scoped 3, .push, .define 1 20, .use 1 21 false,
     .pop .scoped 4] (init : St Nat) := by decide

def swap (a b : α) (n : α) : α := if n = a then b else if n = b then a else n

theorem swap_injective (a b : α) : Function.Injective (swap a b) := by
  intro x y h
  simp only [swap] at h
  split at h <;> split at h <;> (try split at h) <;> (try split at h) <;> simp_all

theorem renameAt_eq_map_swap (S : List Nat) (old new : α) (evs : List (Ev α))
    (hfresh : ∀ ev ∈ evs, ev.name? ≠ some new)
    (hS : ∀ ev ∈ evs, ∀ l, ev.loc = some l → (l ∈ S ↔ ev.name? = some old)) :
    renameAt S new evs = evs.map (Ev.map (swap old new)) := by
  simp only [renameAt]
  apply List.map_congr_left
  intro ev hev
  have hf := hfresh ev hev
  have hs := hS ev hev
  cases ev with
  | push => rfl
  | pop k l => rfl
  | define n l =>
    have h1 := hs l rfl
    simp only [Ev.name?, ne_eq, Option.some.injEq] at hf h1
    by_cases hl : l ∈ S
    · have : n = old := h1.mp hl
      simp [renameEv, hl, this, Ev.map, swap]
    · have h2 : n ≠ old := fun e => hl (h1.mpr e)
      simp [renameEv, hl, Ev.map, swap, h2, hf]
  | use n l ft =>
    have h1 := hs l rfl
    simp only [Ev.name?, ne_eq, Option.some.injEq] at hf h1
    by_cases hl : l ∈ S
    · have : n = old := h1.mp hl
      simp [renameEv, hl, this, Ev.map, swap]
    · have h2 : n ≠ old := fun e => hl (h1.mpr e)
      simp [renameEv, hl, Ev.map, swap, h2, hf]

/-- …and at module level: the whole rewritten module (`apply_renaming`), provided no class
declaration (the binder of `this`) is among the renamed locations (`rewrite::rename` refuses that,
fix 69a554a). -/
theorem rename_module_commutes (S : List Nat) (new this : α) (m : Module α)
    (ht : ∀ t ∈ m.toplevels, t.loc ∉ S) :
    visitModule this (Module.renameAt S new m) = renameAt S new (visitModule this m) :=
  visitModule_renameAt S new this m ht

/-- **whole-module statement**: the analysis (`perform_ssa_analysis_on_module`) of the module
rewritten by the renamer has the same use→definition map, invalid set, reference lists,
diagnostics and unbound names, and the renamed binding / capture tables. -/
theorem rename_module_preserves_resolution (S : List Nat) (d : Nat) (old new this : α) (m : Module α)
    (ht : ∀ t ∈ m.toplevels, t.loc ∉ S)
    (h : Admissible S d old new (visitModule this m) init) :
    (analyze this (Module.renameAt S new m)).useDef = (analyze this m).useDef ∧
    (analyze this (Module.renameAt S new m)).invalid = (analyze this m).invalid ∧
    defToUse (analyze this (Module.renameAt S new m)) = defToUse (analyze this m) ∧
    (analyze this (Module.renameAt S new m)).errors = (analyze this m).errors ∧
    (analyze this (Module.renameAt S new m)).unbound = (analyze this m).unbound ∧
    (analyze this (Module.renameAt S new m)).scopedDefs =
      (analyze this m).scopedDefs.map (fun e => (e.1, List.map (rnE d new) e.2)) ∧
    (analyze this (Module.renameAt S new m)).lambdaCaps =
      (analyze this m).lambdaCaps.map (fun e => (e.1, List.map (rnE d new) e.2)) := by
  simp only [analyze, rename_module_commutes S new this m ht]
  exact rename_preserves_resolution S d old new (visitModule this m) h

/-- **`rename_preserves_resolution_partial`** (kept: it also covers ill-scoped modules, which the
general theorem does not): if the new name is fresh and the
renamed occurrences are *all* occurrences of the old name, everything — including captures and
diagnostics of rejected modules — is preserved up to the renaming. -/
theorem rename_preserves_resolution_partial (S : List Nat) (old new : α) (evs : List (Ev α))
    (hfresh : ∀ ev ∈ evs, ev.name? ≠ some new)
    (hS : ∀ ev ∈ evs, ∀ l, ev.loc = some l → (l ∈ S ↔ ev.name? = some old)) :
    run (renameAt S new evs) init = (run evs (init : St α)).map (swap old new) := by
  rw [renameAt_eq_map_swap S old new evs hfresh hS]
  have := run_map (swap old new) (swap_injective old new) evs init
  rw [init_map] at this
  exact this

/-- The validity test of `rewrite::rename` (`lib.rs:481-486`) is purely lexical (starts with a
lowercase letter, alphanumeric): it does **not** imply freshness.  Witness on the model: renaming
`a` to the already bound `b` in `(a, b) -> a` changes the resolution (capture). -/
theorem fresh_check_unsound_counterexample :
    ∃ (evs : List (Ev Nat)) (S : List Nat) (new : Nat),
      (run (renameAt S new evs) init).useDef ≠ (run evs init).useDef :=
  ⟨[.push, .define 1 10, .define 2 11, .use 1 12 false, .pop .discard 0], [10, 12], 2, by decide⟩

example : renameAt [10, 12] 7 [Ev.push, .define 1 10, .define 2 11, .use 1 12 false]
    = [Ev.push, .define 7 10, .define 2 11, .use 7 12 false] := by decide
/-- struct-shorthand binder `{ f }` (node `pId f`) under an or-pattern: both alternatives renamed -/
example : visit (Node.renameAt [5, 6, 9] 7 (.mk .seq none 0
      [.mk .pOr none 0 [.mk .seq none 0 [.mk .pId (some 1) 5 []], .mk .seq none 0 [.mk .pId (some 1) 6 []]],
       .mk .var (some 1) 9 []]))
    = [Ev.define 7 5, .use 7 6 false, .use 7 9 false] := by decide
example : (run [Ev.push, .define 1 10, .use 1 12 false] init).useDef = [(12, 10)] := by decide

end SamVerif.Scope
