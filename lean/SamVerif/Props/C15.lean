import SamVerif.Lemmas.Scope
/-!
# C15 — Navigation and rename agree with the language's scoping rules

The service's lookup *is* the checker's `SsaAnalysisResult` (`variable_definition.rs:25-50`), so
"agrees with the checker" reduces to properties of `Model/Scope.lean` (tied to `ssa_analysis.rs`
by the `ssa` protocol and to `query::definition_location` / `query::all_references` by the `q`
protocol) plus the renamer.  `apply_renaming` (`variable_definition.rs:362`) rewrites the name of
exactly the identifier nodes whose location is the definition or one of its uses; on the event
view of a module that is `renameAt`.

Pending (stated, not proved): `rename_preserves_resolution` without the side condition of
`rename_preserves_resolution_partial` (the renamed name may also be bound by *other*, sibling
bindings); it is covered by the model-free `rn` oracle on every occurrence of generated programs.
-- theorem rename_preserves_resolution : new ∉ names evs → S = {d} ∪ uses d →
--     graph (run (renameAt S new evs) init) = graph (run evs init)
-/
namespace SamVerif.Scope

variable {α : Type} [DecidableEq α]

def keysNodup {κ ν : Type} (m : List (κ × ν)) : Prop := (m.map (·.1)).Nodup

theorem insertKV_keysNodup {κ ν : Type} [DecidableEq κ] (k : κ) (v : ν) (m : List (κ × ν))
    (h : keysNodup m) : keysNodup (insertKV k v m) := by
  simp only [keysNodup, insertKV, List.map_cons, List.nodup_cons]
  refine ⟨?_, (List.filter_sublist.map _).nodup h⟩
  simp only [List.mem_map, List.mem_filter]
  rintro ⟨e, ⟨_, he⟩, rfl⟩
  simp at he

theorem step_useDef_nodup (st : St α) (ev : Ev α) (h : keysNodup st.useDef) :
    keysNodup (step st ev).useDef := by
  cases ev with
  | push => exact h
  | pop k loc =>
    simp only [step]
    split
    · cases k <;> exact h
    · exact h
  | define n l =>
    simp only [step, defineId]
    split
    · split <;> exact h
    · exact h
  | use n l ft =>
    simp only [step, useId]
    split
    · exact insertKV_keysNodup _ _ _ h
    · exact h

/-- **`use_define_map` is a function** in every reachable state: an occurrence resolves to at most
one binding (unbounded event sequences). -/
theorem useDef_functional (evs : List (Ev α)) (st : St α) (h : keysNodup st.useDef) :
    keysNodup (run evs st).useDef := by
  induction evs generalizing st with
  | nil => exact h
  | cons ev evs ih => exact ih (step st ev) (step_useDef_nodup st ev h)

theorem lookupKV_of_mem {κ ν : Type} [DecidableEq κ] {m : List (κ × ν)} (h : keysNodup m)
    {k : κ} {v : ν} (hm : (k, v) ∈ m) : lookupKV k m = some v := by
  induction m with
  | nil => cases hm
  | cons e m ih =>
    obtain ⟨k', v'⟩ := e
    simp only [keysNodup, List.map_cons, List.nodup_cons] at h
    rcases List.mem_cons.mp hm with he | hm'
    · cases he; simp [lookupKV]
    · have : k' ≠ k := fun e => h.1 (e ▸ List.mem_map_of_mem (f := (·.1)) hm')
      simp [lookupKV, this, ih h.2 hm']

theorem mem_of_lookupKV {κ ν : Type} [DecidableEq κ] {m : List (κ × ν)} {k : κ} {v : ν}
    (h : lookupKV k m = some v) : (k, v) ∈ m := by
  induction m with
  | nil => simp [lookupKV] at h
  | cons e m ih =>
    obtain ⟨k', v'⟩ := e
    simp only [lookupKV] at h
    split at h
    · rename_i hk; cases h; simp [hk]
    · exact List.mem_cons_of_mem _ (ih h)

theorem lookupKV_map_self {ν : Type} (g : Nat → ν) {l : List Nat} {d : Nat} (h : d ∈ l) :
    lookupKV d (l.map fun x => (x, g x)) = some (g d) := by
  induction l with
  | nil => cases h
  | cons a l ih =>
    by_cases ha : a = d
    · simp [lookupKV, ha]
    · rcases List.mem_cons.mp h with e | h'
      · exact absurd e.symm ha
      · simp [lookupKV, ha, ih h']

/-- **`def_use_partition`**: in every reachable state, for every definition `d` the reference list
`def_to_use_map[d]` (what `find_all_definition_and_uses` / `all_references` return) is `d` itself
plus *exactly* the occurrences that `use_define_map` resolves to `d`. -/
theorem def_use_partition (evs : List (Ev α)) (d u : Nat)
    (hd : d ∈ (run evs (init : St α)).defLocs) :
    (∃ us, lookupKV d (defToUse (run evs (init : St α))) = some us ∧
      (u ∈ us ↔ u = d ∨ lookupKV u (run evs (init : St α)).useDef = some d)) := by
  have hn : keysNodup (run evs (init : St α)).useDef := useDef_functional evs init (by simp [keysNodup, init])
  generalize run evs (init : St α) = st at hd hn
  refine ⟨d :: (st.useDef.filter (fun e => e.2 = d)).map (·.1), ?_, ?_⟩
  · simp only [defToUse]
    exact lookupKV_map_self _ (List.mem_eraseDups.mpr hd)
  · simp only [List.mem_cons, List.mem_map, List.mem_filter]
    constructor
    · rintro (h | ⟨e, ⟨he, hed⟩, rfl⟩)
      · exact Or.inl h
      · right
        obtain ⟨a, b⟩ := e
        simp only [decide_eq_true_eq] at hed
        subst hed
        exact lookupKV_of_mem hn he
    · rintro (h | h)
      · exact Or.inl h
      · exact Or.inr ⟨(u, d), ⟨mem_of_lookupKV h, by simp⟩, rfl⟩

/-- every use is either resolved (enters `use_define_map`) or reported as unbound — never both,
never neither -/
theorem use_resolved_or_reported (st : St α) (n : α) (loc : Nat) (ft : Bool) :
    (∃ d, lookupKV loc (useId st n loc ft).useDef = some d ∧ (useId st n loc ft).errors = st.errors) ∨
    ((useId st n loc ft).useDef = st.useDef ∧
      (useId st n loc ft).errors = st.errors ++ [Err.cannotResolve loc n]) := by
  simp only [useId]
  split
  · next k l _ => left; exact ⟨l, by simp [insertKV, lookupKV], rfl⟩
  · right; exact ⟨rfl, rfl⟩

/-! ### the renamer -/

def Ev.loc : Ev α → Option Nat
  | .define _ l => some l
  | .use _ l _ => some l
  | _ => none

def Ev.name? : Ev α → Option α
  | .define n _ => some n
  | .use n _ _ => some n
  | _ => none

/-- `apply_renaming` on the event view: identifier nodes whose location is in `S` (the definition
and its uses) get the new name, nothing else changes. -/
def renameAt (S : List Nat) (new : α) : List (Ev α) → List (Ev α)
  | [] => []
  | .define n l :: evs => .define (if l ∈ S then new else n) l :: renameAt S new evs
  | .use n l ft :: evs => .use (if l ∈ S then new else n) l ft :: renameAt S new evs
  | ev :: evs => ev :: renameAt S new evs

/-- **`rename_involutive`**: renaming the occurrences `S` (all of which carry the name `old`) to any
name and back restores the original, for every event sequence. -/
theorem rename_involutive (S : List Nat) (old new : α) (evs : List (Ev α))
    (h : ∀ ev ∈ evs, ∀ l, ev.loc = some l → l ∈ S → ev.name? = some old) :
    renameAt S old (renameAt S new evs) = evs := by
  induction evs with
  | nil => rfl
  | cons ev evs ih =>
    have ih' := ih (fun e he => h e (List.mem_cons_of_mem _ he))
    cases ev with
    | push => simp [renameAt, ih']
    | pop k l => simp [renameAt, ih']
    | define n l =>
      have := h (.define n l) (by simp) l rfl
      by_cases hl : l ∈ S
      · have hn : n = old := by simpa [Ev.name?] using this hl
        simp [renameAt, hl, hn, ih']
      · simp [renameAt, hl, ih']
    | use n l ft =>
      have := h (.use n l ft) (by simp) l rfl
      by_cases hl : l ∈ S
      · have hn : n = old := by simpa [Ev.name?] using this hl
        simp [renameAt, hl, hn, ih']
      · simp [renameAt, hl, ih']

def swap (a b : α) (n : α) : α := if n = a then b else if n = b then a else n

theorem swap_injective (a b : α) : Function.Injective (swap a b) := by
  intro x y h
  simp only [swap] at h
  split at h <;> split at h <;> (try split at h) <;> (try split at h) <;> simp_all

theorem renameAt_eq_map_swap (S : List Nat) (old new : α) (evs : List (Ev α))
    (hfresh : ∀ ev ∈ evs, ev.name? ≠ some new)
    (hS : ∀ ev ∈ evs, ∀ l, ev.loc = some l → (l ∈ S ↔ ev.name? = some old)) :
    renameAt S new evs = evs.map (Ev.map (swap old new)) := by
  induction evs with
  | nil => rfl
  | cons ev evs ih =>
    have ih' := ih (fun e he => hfresh e (List.mem_cons_of_mem _ he)) (fun e he => hS e (List.mem_cons_of_mem _ he))
    have hf := hfresh ev (by simp)
    have hs := hS ev (by simp)
    cases ev with
    | push => simp [renameAt, ih', Ev.map]
    | pop k l => simp [renameAt, ih', Ev.map]
    | define n l =>
      have h1 := hs l rfl
      simp only [Ev.name?, ne_eq, Option.some.injEq] at hf h1
      by_cases hl : l ∈ S
      · have : n = old := h1.mp hl
        simp [renameAt, hl, this, ih', Ev.map, swap]
      · have h2 : n ≠ old := fun e => hl (h1.mpr e)
        simp [renameAt, hl, ih', Ev.map, swap, h2, hf]
    | use n l ft =>
      have h1 := hs l rfl
      simp only [Ev.name?, ne_eq, Option.some.injEq] at hf h1
      by_cases hl : l ∈ S
      · have : n = old := h1.mp hl
        simp [renameAt, hl, this, ih', Ev.map, swap]
      · have h2 : n ≠ old := fun e => hl (h1.mpr e)
        simp [renameAt, hl, ih', Ev.map, swap, h2, hf]

/-- **`rename_preserves_resolution_partial`**: if the new name is fresh for the module and the
renamed occurrences are *all* occurrences of the old name (decidable side condition; true whenever
the name is bound once in the module), the renamed module has the same def/use graph, the same
invalid definitions, and the same number of diagnostics — no capture, no escape. -/
theorem rename_preserves_resolution_partial (S : List Nat) (old new : α) (evs : List (Ev α))
    (hfresh : ∀ ev ∈ evs, ev.name? ≠ some new)
    (hS : ∀ ev ∈ evs, ∀ l, ev.loc = some l → (l ∈ S ↔ ev.name? = some old)) :
    (run (renameAt S new evs) init).useDef = (run evs (init : St α)).useDef ∧
    (run (renameAt S new evs) init).invalid = (run evs (init : St α)).invalid ∧
    defToUse (run (renameAt S new evs) init) = defToUse (run evs (init : St α)) ∧
    (run (renameAt S new evs) init).errors.length = (run evs (init : St α)).errors.length := by
  rw [renameAt_eq_map_swap S old new evs hfresh hS]
  have := run_map (swap old new) (swap_injective old new) evs init
  rw [init_map] at this
  rw [this]
  simp [St.map, defToUse]

/-- The validity test of `rewrite::rename` (`lib.rs:481-486`) is purely lexical (starts with a
lowercase letter, alphanumeric): it does **not** imply freshness.  Witness on the model: renaming
`a` to the already bound `b` in `(a, b) -> a` changes the resolution (capture). -/
theorem fresh_check_unsound_counterexample :
    ∃ (evs : List (Ev Nat)) (S : List Nat) (new : Nat),
      (run (renameAt S new evs) init).useDef ≠ (run evs init).useDef :=
  ⟨[.push, .define 1 10, .define 2 11, .use 1 12 false, .pop .discard 0], [10, 12], 2, by decide⟩

example : renameAt [10, 12] 7 [Ev.push, .define 1 10, .define 2 11, .use 1 12 false]
    = [Ev.push, .define 7 10, .define 2 11, .use 7 12 false] := by decide
example : (run [Ev.push, .define 1 10, .use 1 12 false] init).useDef = [(12, 10)] := by decide

end SamVerif.Scope
