import SamVerif.Model.CompileGate
import SamVerif.Lemmas.MatchLower
import SamVerif.Model.OptKernel
import SamVerif.Props.C04
import SamVerif.Props.C07
/-!
# C03 — programs accepted by the checker never go wrong: property theorems

The accept-set of the checker cannot be enumerated and the type soundness of the whole checker +
back end is *not* proved here (that part is reached only by the oracle of `vlib/c03.py`: accepted
mutants and generated programs are compiled by the real compiler, validated and executed).  What is
proved, for all inputs, are the gates the property rests on:

1. `compile_gate`            — `compile_sources` lowers nothing unless the error set is empty
                               (Model/CompileGate.lean, lib.rs:35-69).
2. `fold_total…`             — the compile-time arithmetic of the optimizer (C02's kernels) never
                               aborts: false on the code (witnesses), true under explicit side conditions.
3. `ts_literal_closed…`      — a string constant pasted between back quotes is one substitution-free
                               template literal: false (witnesses), true without `` ` ``, `${`, `\`, CR.
4. `exhaustive_no_fallback…` — composition of C07 with the model of `lower_match`
                               (Model/MatchLower.lean): a `match` the checker accepts never reaches the
                               fallback panic and its pattern tests never fault, for all types, arm lists
                               and values.  False on the code for object patterns that name a field twice
                               (finding C03-F3, witness below); proved under `noDupFields`.
-/
namespace SamVerif.C03
open SamVerif

/-! ## 1. The compile gate -/
section gate
open SamVerif.Gate

/-- **compile_gate**: the back end runs exactly when every entry module exists and neither the
parser nor the checker reported an error. -/
theorem compile_gate (i : Input) :
    compileSources i = .lowered ↔
      (∀ e ∈ i.entries, e ∈ i.modules) ∧ i.parseErrors = 0 ∧ i.checkErrors = 0 := by
  unfold compileSources
  constructor
  · intro h
    split at h
    · cases h
    · rename_i hent
      split at h
      · cases h
      · rename_i herr
        refine ⟨?_, by omega, by omega⟩
        intro e he
        simp only [List.any_eq_true, Bool.not_eq_true', not_exists, not_and] at hent
        have := hent e he
        simpa using this
  · rintro ⟨hent, hp, hc⟩
    have h1 : i.entries.any (fun e => !i.modules.contains e) = false := by
      simp only [List.any_eq_false, Bool.not_eq_true', Bool.not_eq_false]
      intro e he
      simpa using hent e he
    simp only [h1, hp, hc]
    decide

/-- any diagnostic blocks lowering, whatever the entries are -/
theorem compile_gate_errors_block (i : Input) (h : 0 < i.parseErrors + i.checkErrors) :
    compileSources i ≠ .lowered := by
  intro hl
  have := (compile_gate i).mp hl
  omega

example : compileSources ⟨[1, 2], [2], 0, 0⟩ = .lowered := by decide
example : compileSources ⟨[1, 2], [2], 0, 3⟩ = .rejected := by decide
example : compileSources ⟨[1, 2], [5], 0, 3⟩ = .invalidEntry := by decide
end gate

/-! ## 2. The optimizer's compile-time arithmetic never aborts -/
section fold
open SamVerif.Opt

/-- **fold_total** (full strength since fix 3b705a0; before it `MAX + 1`, `MIN / -1`, `MIN % -1`,
`1 << 40` aborted the compiler): `evaluate_bin_op` never aborts, for all operators and operands. -/
theorem fold_total (op : Op) (a b : Int) : evalImpl op a b ≠ .panic := by
  cases op <;> simp only [evalImpl] <;> (try split) <;> simp
example : evalImpl .add 2147483647 1 = .val (-2147483648) := by decide
example : evalImpl .div (-2147483648) (-1) = .nofold := by decide

/-- **trip_total** (full strength since fix 0934671): the trip-count closed form never aborts. -/
theorem trip_total (g : Guard) (i0 step bound : Int) : tripCount g i0 step bound ≠ .panic := by
  cases g <;> simp only [tripCount, tripLT] <;> (repeat' split) <;> simp
example : tripCount .le 0 1 2147483647 = .unknown := by decide

/- FULL STATEMENT (false on the unchanged code):
   ∀ outer inner c1 c2, InRange c1 → InRange c2 → mergeBinary outer inner c1 c2 ≠ .panic -/

/-- Witness: `(x + 1) < MIN` - the merged constant `c2 - c1` of a comparison is still computed with
an unchecked `-` (conditional_constant_propagation.rs, `merge_binary_expression`): the dev-profile
compiler aborts on an accepted program (finding C02-F1 = C05-F2, owned there). -/
theorem merge_total_counterexample :
    ¬ (∀ (outer inner : Op) (c1 c2 : Int), InRange c1 → InRange c2 →
        mergeBinary outer inner c1 c2 ≠ .panic) := by
  intro h
  exact h .lt .add 1 (-2147483648) (by decide) (by decide) (by decide)

/-- Side condition for `merge_binary_expression`: the merged constant of a comparison is representable. -/
def MergeSafe (outer inner : Op) (c1 c2 : Int) : Prop :=
  outer.isCmp = true → inner = .add → InRange (c2 - c1)

/-- **merge_total_partial** -/
theorem merge_total_partial (outer inner : Op) (c1 c2 : Int) (h : MergeSafe outer inner c1 c2) :
    mergeBinary outer inner c1 c2 ≠ .panic := by
  cases outer <;> simp only [mergeBinary, MergeSafe, chkM, Op.isCmp] at h ⊢ <;>
    (first
      | (split
         · rename_i hi; have := h trivial hi; simp [this]
         · simp)
      | (split <;> simp)
      | simp)

example : MergeSafe .lt .add 1 5 := by intro _ _; decide
end fold

/-! ## 3. String constants in the emitted TypeScript -/
section tslit
open SamVerif.Backends

/- FULL STATEMENT (false on the unchanged code): every string constant the lexer accepts is, in the
   emitted TypeScript, one well-formed substitution-free template literal:
   ∀ raw, lexAccepts raw = true → (tsDecode (content raw)).isSome -/

/-- Witness `"\01"`: `\0` followed by a digit is an octal escape, which is a SyntaxError inside a
template literal - the emitted `.ts` does not parse (finding C03-F4).  (Back quote and `${`, the
former witnesses, are escaped since fix 0e855e5.) -/
theorem ts_literal_closed_counterexample :
    ¬ (∀ raw : Text, lexAccepts raw = true → (tsDecode (content raw)).isSome = true) := by
  intro h
  have := h [92, 48, 49] (by decide)
  simp [tsDecode, tsEscape, tsCook, content, unescapeQuotes, isDigit] at this

/-- **ts_literal_closed_partial**: any content (ASCII or not, back quotes, `$`, `{` included) without
backslash and carriage return is exactly one substitution-free template literal. -/
theorem ts_literal_closed_partial (s : Text) (h : ∀ c ∈ s, c ≠ 92 ∧ c ≠ 13) :
    (tsDecode s).isSome = true := by
  rw [tsDecode_clean s h]; rfl

example : (tsDecode [233, 96, 36, 123, 49, 125]).isSome = true :=
  ts_literal_closed_partial _ (by decide)
end tslit

/-! ## 4. An accepted `match` never reaches the fallback panic -/
section matching
open SamVerif.Useful SamVerif.MatchLower

/- FULL STATEMENT (false on the unchanged code):
   ∀ sig cx fuel arms t v, CxOk sig cx → cpatTyAll sig arms t = true →
     incompleteCounterexampleF cx fuel (abstractArms arms) = some none → hasTy sig v t = true →
     ∃ i, runMatch (lowerMatch arms) v = .arm i -/

/-- type 0 = int, type 1 = `E(A, B(int))`, type 2 = `S(val f0: E, val f1: int)` -/
def sigW : Sig := fun t =>
  match t with
  | 1 => .enum 0 [(0, []), (1, [0])]
  | 2 => .struct [(0, 1), (1, 0)]
  | _ => .prim
def cxW : Cx := fun c => match c with | 0 => [(0, 0), (1, 1)] | _ => []

/-- `match s { { f0 as B(_), f0 as _, f1 as _ } -> … }` -/
def armW : CPat := .object 2 [0, 0, 1] [.variant ⟨0, 1⟩ [.wild], .wild, .wild]
/-- `S.init(E.A(), 40)` -/
def valW : Val := .con none [.con (some ⟨0, 0⟩) [], .prim 40]

theorem isNone_map {α : Type} (x : Option (Option α)) (h : x.map Option.isNone = some true) :
    x = some none := by
  cases x with
  | none => simp at h
  | some y => cases y <;> simp_all

theorem sigW_cxOk : CxOk sigW cxW := by
  intro t cls vs h
  unfold sigW at h
  split at h <;> first | (injection h with h1 h2; subst h1; subst h2; rfl) | cases h

/-- **Witness (finding C03-F3)**: the arm is a well-typed checked pattern, the exhaustiveness
analysis finds no counterexample for the abstract pattern the checker built (the slot of `f0` was
overwritten by the wildcard), the value is well typed - and the lowered `match` ends in the fallback
panic. -/
theorem exhaustive_no_fallback_counterexample :
    CxOk sigW cxW ∧ cpatTyAll sigW [armW] 2 = true ∧
    incompleteCounterexampleF cxW 10 (abstractArms [armW]) = some none ∧
    hasTy sigW valW 2 = true ∧ runMatch (lowerMatch [armW]) valW = .fallback := by
  refine ⟨sigW_cxOk, by decide, isNone_map _ (by decide), by decide, by decide⟩

/-- the same witness against `lower_correct`: test and abstract pattern disagree -/
theorem lower_correct_counterexample :
    cpatTy sigW armW 2 = true ∧ hasTy sigW valW 2 = true ∧
    evalCode (lowerPat armW) valW = some false ∧ pmatch (absOf armW) valW = true := by
  refine ⟨by decide, by decide, by decide, by decide⟩

/-- **lower_correct_partial**: on a typed checked pattern that names no field twice, the emitted
test computes exactly "the value matches the abstract pattern the exhaustiveness analysis saw" and
performs no faulting access (`≠ none`) - for every well-typed value. -/
theorem lower_correct_partial (sig : Sig) (p : CPat) (t : Nat) (v : Val)
    (hty : cpatTy sig p t = true) (hnd : noDupFields p = true) (hv : hasTy sig v t = true) :
    evalCode (lowerPat p) v = some (pmatch (absOf p) v) :=
  lowerPat_correct sig p t v hty hnd hv

/-- **lowering_total**: lowering a typed checked pattern never indexes the struct mapping out of
range (`resolved_struct_mappings[index]`). -/
theorem lowering_total (sig : Sig) (p : CPat) (t : Nat) (hty : cpatTy sig p t = true) :
    lowerCrash p = false :=
  lowerCrash_typed sig p t hty

/-- the abstract pattern of a typed checked pattern is typed (so C07's theorems apply to it) -/
theorem abstract_typed (sig : Sig) (p : CPat) (t : Nat) (hty : cpatTy sig p t = true) :
    patTy sig (absOf p) t = true :=
  absOf_typed sig p t hty

/-- **exhaustive_no_fallback_partial** (composition of C07's `match_accepted_exhaustive` with the
lowering model): if the checker accepts the arms of a `match` on a scrutinee of type `t` (typed
patterns, no missing case reported) and no arm names a field twice, then for every value of type `t`
the body of some arm runs: never the fallback panic, never a fault.  For all signatures, arm lists
and values; `fuel` is whatever the analysis needed (C07 proves that it terminates). -/
theorem exhaustive_no_fallback_partial (sig : Sig) (cx : Cx) (hcx : CxOk sig cx) (fuel : Nat)
    (arms : List CPat) (t : Nat) (v : Val)
    (hty : cpatTyAll sig arms t = true) (hnd : noDupFieldsL arms = true)
    (hacc : incompleteCounterexampleF cx fuel (abstractArms arms) = some none)
    (hv : hasTy sig v t = true) :
    ∃ i, i < arms.length ∧ runMatch (lowerMatch arms) v = .arm i := by
  obtain ⟨a, hmem, hm⟩ := match_accepted_exhaustive sig cx hcx fuel _ t
    (cpatTyAll_mem sig arms t hty) hacc v hv
  obtain ⟨i, _, h2, h3⟩ := runMatchFrom_of_exists sig t v hv arms 0 hty hnd ⟨a, hmem, hm⟩
  exact ⟨i, by omega, h3⟩

-- non-vacuity: `match s { { f0 as B(_), f1 as _ } -> 0, { f1 as _, f0 as A } -> 1 }` is accepted
-- and both arms are reachable
def armsOk : List CPat :=
  [.object 2 [0, 1] [.variant ⟨0, 1⟩ [.wild], .wild], .object 2 [1, 0] [.wild, .variant ⟨0, 0⟩ []]]
example : cpatTyAll sigW armsOk 2 = true ∧ noDupFieldsL armsOk = true ∧
    incompleteCounterexampleF cxW 10 (abstractArms armsOk) = some none := by
  refine ⟨by decide, by decide, isNone_map _ (by decide)⟩
example : runMatch (lowerMatch armsOk) valW = .arm 1 := by decide
example : runMatch (lowerMatch armsOk) (.con none [.con (some ⟨0, 1⟩) [.prim 2], .prim 40]) = .arm 0 := by
  decide
example : lowerCrash (.tuple 1 [.wild, .wild]) = true := by decide
end matching

end SamVerif.C03
