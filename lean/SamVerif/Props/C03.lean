import SamVerif.Model.CompileGate
import SamVerif.Lemmas.MatchLowerBind
import SamVerif.Lemmas.EnumRepr
import SamVerif.Lemmas.BoundCheck
import SamVerif.Lemmas.CastInsert
import SamVerif.Lemmas.C03Live
import SamVerif.Lemmas.C03Opt
import SamVerif.Lemmas.C03Str
import SamVerif.Props.C07
/-!
# C03 — programs accepted by the checker never go wrong: property theorems

The accept-set of the checker cannot be enumerated and the type soundness of the whole checker +
back end is *not* proved here (that part is reached only by the oracle of `vlib/c03.py`: accepted
mutants and generated programs are compiled by the real compiler, validated and executed).  What is
proved, for all inputs, are the gates the property rests on:

1. `compile_gate`            — `compile_sources` lowers nothing unless the error set is empty
                               (Model/CompileGate.lean, lib.rs:35-69).
2. `fold_total…`             — the compile-time arithmetic of the optimizer (C02's kernels) never
                               aborts: false on the code (witnesses), true under explicit side conditions.
3. `ts_literal_closed`       — every lexer-accepted string constant is, in the emitted TypeScript, one
                               well-formed substitution-free template literal (full strength since fix
                               9fd2988; built on C04's lemmas through Lemmas/C03Str.lean).
4. `exhaustive_no_fallback`  — composition of C07 with the model of `lower_match`
                               (Model/MatchLower.lean): a `match` the checker accepts never reaches the
                               fallback panic and its pattern tests never fault, for all types, arm lists
                               and values (full strength since fix 76a01ae; see the note in section 4);
                               `bindings_correct/_frame/_complete` (temporaries hold the source bindings,
                               first matching alternative of an or-pattern), `iflet_correct`,
                               `let_destructure_total`.
5. `destructure_never_traps` — model of the enum layout choice, the LIR type erasure and the guard code
                               of `ConditionalDestructure` with the `ref.test`/`ref.cast` the wasm
                               lowering inserts (Model/EnumRepr.lean): no illegal cast, for every layout;
                               `variant_fits_erased_type` (full strength since the fix of C03-F7).
-/
namespace SamVerif.C03
open SamVerif

/-! ## 1. The compile gate -/
section gate
open SamVerif.Gate

/-- **compile_gate**: the back end runs exactly when every entry module exists and neither the
parser nor the checker reported an error. -/
theorem compile_gate (i : Input) :
    compileSources i = .lowered ↔
      (∀ e ∈ i.entries, e ∈ i.modules) ∧ i.parseErrors = 0 ∧ i.checkErrors = 0 := by
  unfold compileSources
  constructor
  · intro h
    split at h
    · cases h
    · rename_i hent
      split at h
      · cases h
      · rename_i herr
        refine ⟨?_, by omega, by omega⟩
        intro e he
        simp only [List.any_eq_true, Bool.not_eq_true', not_exists, not_and] at hent
        have := hent e he
        simpa using this
  · rintro ⟨hent, hp, hc⟩
    have h1 : i.entries.any (fun e => !i.modules.contains e) = false := by
      simp only [List.any_eq_false, Bool.not_eq_true', Bool.not_eq_false]
      intro e he
      simpa using hent e he
    simp only [h1, hp, hc]
    decide

/-- any diagnostic blocks lowering, whatever the entries are -/
theorem compile_gate_errors_block (i : Input) (h : 0 < i.parseErrors + i.checkErrors) :
    compileSources i ≠ .lowered := by
  intro hl
  have := (compile_gate i).mp hl
  omega

example : compileSources ⟨[1, 2], [2], 0, 0⟩ = .lowered := by decide
example : compileSources ⟨[1, 2], [2], 0, 3⟩ = .rejected := by decide
example : compileSources ⟨[1, 2], [5], 0, 3⟩ = .invalidEntry := by decide
end gate

/-! ## 2. The optimizer's compile-time arithmetic never aborts -/
section fold
open SamVerif.Opt

/-- **fold_total** (full strength since fix 3b705a0; before it `MAX + 1`, `MIN / -1`, `MIN % -1`,
`1 << 40` aborted the compiler): `evaluate_bin_op` never aborts, for all operators and operands. -/
theorem fold_total (op : Op) (a b : Int) : evalImpl op a b ≠ .panic := C03Opt.evalImpl_total op a b
example : evalImpl .add 2147483647 1 = .val (-2147483648) := by decide
example : evalImpl .div (-2147483648) (-1) = .nofold := by decide

/-- **trip_total** (full strength since fix 0934671): the trip-count closed form never aborts. -/
theorem trip_total (g : Guard) (i0 step bound : Int) : tripCount g i0 step bound ≠ .panic :=
  C03Opt.tripCount_total g i0 step bound
example : tripCount .le 0 1 2147483647 = .unknown := by decide

/- `merge_binary_expression`: until fix 58c3f94 the merged constant `c2 - c1` of `(x + c1) cmp c2` was
   computed with an unchecked `-` (witness `(x + 1) < MIN`: dev-profile compiler abort on an accepted
   program, finding C02-F3); this file carried `merge_total_counterexample` + `merge_total_partial`.
   The kernel now declines such merges.  Totality of the merger is stated in C02's file on C02's model;
   C03 keeps the run-time tie `merge` (the real kernel must never abort) - see Lemmas/C03Opt.lean. -/
end fold

/-! ## 3. String constants in the emitted TypeScript -/
section tslit
open SamVerif.Backends

/- Historical note: before fix 0e855e5 a back quote / `${` (finding C04-F3) and before fix 9fd2988
`\0` followed by a digit (octal escape, finding C03-F4, witness `"\01"`) made the emitted template
literal ill-formed; this file then carried `ts_literal_closed_counterexample` and a `_partial`
theorem for backslash-free content.  Since 9fd2988 the printer (`template_literal_text`, lir.rs)
keeps the eight escapes, writes a raw CR as `\r` and `\0` before a digit as `\x00`. -/

/-- **ts_literal_closed** (full strength): for EVERY string literal the lexer accepts, the text the
compiler prints between back quotes in the emitted TypeScript is exactly one well-formed,
substitution-free template literal (`tsDecode … = some js`: no back quote closes it, no `${` opens
a substitution, no escape is a SyntaxError), and `js` is the UTF-16 form of the characters the
literal denotes.  Built on C04's lemmas through `Lemmas/C03Str.lean`. -/
theorem ts_literal_closed (raw : Text) (h : lexAccepts raw = true) :
    tsDecode (content raw) = some ((wasmUnescape (content raw)).flatMap utf16) :=
  C03Str.wellEsc_closed _ (C03Str.accepted_content_wellEsc raw h)

theorem ts_literal_closed_isSome (raw : Text) (h : lexAccepts raw = true) :
    (tsDecode (content raw)).isSome = true := by
  rw [ts_literal_closed raw h]; rfl

-- the former witnesses are accepted literals and now closed: "\01", "a`b", "${1}", raw CR
example : lexAccepts [92, 48, 49] = true ∧ lexAccepts [97, 96, 98] = true ∧
    lexAccepts [36, 123, 49, 125] = true ∧ lexAccepts [13] = true := by decide
example : (tsDecode (content [92, 48, 49])).isSome = true := ts_literal_closed_isSome _ (by decide)
end tslit

/-! ## 4. Accepted patterns never go wrong: `match`, `if let`, `let` -/
section matching
open SamVerif.Useful SamVerif.MatchLower

/- Historical note (finding C03-F3, fixed by /repo 76a01ae): before that fix the checker accepted an
object pattern naming a field twice (`{ f0 as B(_), f0 as _, f1 as _ }`), the exhaustiveness analysis
kept only the last sub-pattern, and `exhaustive_no_fallback` was false (witness `S.init(E.A(), 40)`
reached the fallback panic); this file then carried `exhaustive_no_fallback_counterexample` and a
`_partial` theorem under `noDupFields`.  The checker now rejects such patterns, `cpatTy` (what the
checker guarantees) includes `nodupNat orders`, and the statements below are at full strength. -/

/-- **lower_correct**: on a typed checked pattern the emitted test computes exactly "the value matches
the abstract pattern the exhaustiveness analysis saw" and performs no faulting access (`≠ none`) -
for every well-typed value. -/
theorem lower_correct (sig : Sig) (p : CPat) (t : Nat) (v : Val)
    (hty : cpatTy sig p t = true) (hv : hasTy sig v t = true) :
    evalCode (lowerPat p) v = some (pmatch (absOf p) v) :=
  lowerPat_correct sig p t v hty hv

/-- **lowering_total**: lowering a typed checked pattern never indexes the struct mapping out of
range (`resolved_struct_mappings[index]`). -/
theorem lowering_total (sig : Sig) (p : CPat) (t : Nat) (hty : cpatTy sig p t = true) :
    lowerCrash p = false :=
  lowerCrash_typed sig p t hty

/-- the abstract pattern of a typed checked pattern is typed (so C07's theorems apply to it) -/
theorem abstract_typed (sig : Sig) (p : CPat) (t : Nat) (hty : cpatTy sig p t = true) :
    patTy sig (absOf p) t = true :=
  absOf_typed sig p t hty

/-- **exhaustive_no_fallback** (composition of C07's `match_accepted_exhaustive` with the lowering
model): if the checker accepts the arms of a `match` on a scrutinee of type `t` (typed patterns, no
missing case reported), then for every value of type `t` the body of some arm runs: never the
fallback panic, never a fault.  For all signatures, arm lists and values; `fuel` is whatever the
analysis needed (C07 proves that it terminates). -/
theorem exhaustive_no_fallback (sig : Sig) (cx : Cx) (hcx : CxOk sig cx) (fuel : Nat)
    (arms : List CPat) (t : Nat) (v : Val)
    (hty : cpatTyAll sig arms t = true)
    (hacc : incompleteCounterexampleF cx fuel (abstractArms arms) = some none)
    (hv : hasTy sig v t = true) :
    ∃ i, i < arms.length ∧ runMatch (lowerMatch arms) v = .arm i := by
  obtain ⟨a, hmem, hm⟩ := match_accepted_exhaustive sig cx hcx fuel _ t
    (cpatTyAll_mem sig arms t hty) hacc v hv
  obtain ⟨i, _, h2, h3⟩ := runMatchFrom_of_exists sig t v hv arms 0 hty ⟨a, hmem, hm⟩
  exact ⟨i, by omega, h3⟩

/-! ### bindings -/

/-- the statement-level semantics (with assignments) has the same condition and the same faults as
the condition-only semantics the theorems above speak about -/
theorem exec_refines_eval (c : Code) (v : Val) : (execCode c v).map (fun r => r.1) = evalCode c v :=
  exec_fst c v

theorem exec_of_eval (c : Code) (v : Val) (b : Bool) (h : evalCode c v = some b) :
    ∃ d, execCode c v = some (b, d) := by
  have := exec_fst c v
  rw [h] at this
  cases he : execCode c v with
  | none => rw [he] at this; simp at this
  | some r => obtain ⟨b', d⟩ := r; rw [he] at this; simp at this; exact ⟨d, by rw [this]⟩

/-- **bindings_correct**: when the emitted test of a typed checked pattern succeeds, every temporary
holds what the source semantics binds - for an or-pattern the bindings of the *first matching*
alternative, although alternatives that failed earlier may have assigned the same temporaries. -/
theorem bindings_correct (sig : Sig) (p : CPat) (t : Nat) (v : Val) (d : Delta)
    (hty : cpatTy sig p t = true) (hb : bindsOk p = true) (hv : hasTy sig v t = true)
    (h : execCode (lowerPat p) v = some (true, d)) :
    ∀ x, d.lookup x = (srcDelta p v).lookup x :=
  exec_binds sig p t v d hty hb hv h

/-- **bindings_frame**: whatever the outcome (also in alternatives that fail), only temporaries of
the pattern's own names are assigned. -/
theorem bindings_frame (p : CPat) (v : Val) (b : Bool) (d : Delta) (hb : bindsOk p = true)
    (h : execCode (lowerPat p) v = some (b, d)) : ∀ x w, (x, w) ∈ d → x ∈ names p :=
  exec_names p v b d hb h

/-- **bindings_complete**: after a successful test every declared temporary has been assigned
(no read of an uninitialised `LateInit` variable in the arm's body). -/
theorem bindings_complete (p : CPat) (v : Val) (d : Delta) (hb : bindsOk p = true)
    (h : execCode (lowerPat p) v = some (true, d)) : ∀ x ∈ names p, (d.lookup x).isSome = true :=
  exec_assigns p v d hb h

/-! ### temporaries -/

/-- **binding_temps_fresh**: the temporaries `binding_names` gives to the (distinct) source names of a
pattern are fresh (at or above the counter, hence different from every temporary allocated before)
and pairwise different. -/
theorem binding_temps_fresh (ns : List Nat) (c : Nat) :
    (∀ b ∈ allocTemps ns c, c ≤ b.2 ∧ b.2 < c + ns.length) ∧
    ((allocTemps ns c).map (fun b => b.2)).Nodup :=
  allocTemps_fresh_injective ns c

/-- **bindings_correct_on_temps**: `bindings_correct` carried over to what the emitted code really
assigns - the temporaries `bn x` - for any renaming that is injective on the names of the pattern
(which `binding_temps_fresh` provides): reading the temporary of `x` after a successful test yields
the source binding of `x`. -/
theorem bindings_correct_on_temps (sig : Sig) (p : CPat) (t : Nat) (v : Val) (d : Delta)
    (bn : Nat → Nat) (hinj : ∀ x ∈ names p, ∀ y ∈ names p, bn y = bn x → y = x)
    (hty : cpatTy sig p t = true) (hb : bindsOk p = true) (hv : hasTy sig v t = true)
    (h : execCode (lowerPat p) v = some (true, d)) :
    ∀ x ∈ names p, (renameDelta bn d).lookup (bn x) = (srcDelta p v).lookup x := by
  intro x hx
  rw [lookup_rename bn x d (fun y w hm heq => hinj x hx y (exec_names p v true d hb h y w hm) heq)]
  exact exec_binds sig p t v d hty hb hv h x

/-! ### `if let` and `let` -/

/-- **iflet_correct**: `if let p = e { a } else { b }` on a typed pattern and value never faults and
runs `a` (with the source bindings) exactly when the value matches - including when the condition
was decided at compile time by the `== ONE` / `== ZERO` shortcuts of `lower_if_else`. -/
theorem iflet_correct (sig : Sig) (p : CPat) (t : Nat) (v : Val)
    (hty : cpatTy sig p t = true) (hv : hasTy sig v t = true) :
    ∃ d, execCode (lowerPat p) v = some (pmatch (absOf p) v, d) ∧
      runIfLet (lowerPat p) v = if pmatch (absOf p) v then .thenB d else .elseB := by
  obtain ⟨d, hd⟩ := exec_of_eval _ _ _ (lowerPat_correct sig p t v hty hv)
  refine ⟨d, hd, ?_⟩
  simp only [runIfLet, hd]
  cases hone : (lowerPat p).isOne with
  | true =>
    have := isOne_sound _ v _ hone (lowerPat_correct sig p t v hty hv)
    simp [this]
  | false =>
    cases hz : (lowerPat p).isZero with
    | true =>
      have hc : lowerPat p = .zero := by
        cases hl : lowerPat p <;> simp [hl, Code.isZero] at hz ⊢
      have := lowerPat_correct sig p t v hty hv
      rw [hc] at this
      simp only [evalCode, Option.some.injEq] at this
      simp [← this]
    | false => simp

/-- **let_destructure_total**: `let p = e;` whose pattern the checker accepted as irrefutable (typed,
exhaustiveness analysis of `[p]` reports nothing) never faults, and afterwards every declared
temporary is assigned and holds the source binding. -/
theorem let_destructure_total (sig : Sig) (cx : Cx) (hcx : CxOk sig cx) (fuel : Nat)
    (p : CPat) (t : Nat) (v : Val)
    (hty : cpatTy sig p t = true) (hb : bindsOk p = true)
    (hacc : incompleteCounterexampleF cx fuel (abstractArms [p]) = some none)
    (hv : hasTy sig v t = true) :
    ∃ d, runLet (lowerPat p) v = some d ∧ (∀ x, d.lookup x = (srcDelta p v).lookup x) ∧
      ∀ x ∈ names p, (d.lookup x).isSome = true := by
  obtain ⟨i, _, hrun⟩ := exhaustive_no_fallback sig cx hcx fuel [p] t v
    (by simp [cpatTyAll, hty]) hacc hv
  have hev : evalCode (lowerPat p) v = some true := by
    simp only [runMatch, lowerMatch, List.map_cons, List.map_nil, runMatchFrom] at hrun
    cases he : evalCode (lowerPat p) v with
    | none => simp [he] at hrun
    | some b => cases b <;> simp [he] at hrun ⊢
  obtain ⟨d, hd⟩ := exec_of_eval _ _ _ hev
  exact ⟨d, by simp [runLet, hd], exec_binds sig p t v d hty hb hv hd, exec_assigns p v d hb hd⟩

/-! ### non-vacuity -/

/-- type 0 = int, type 1 = `E(A, B(int))`, type 2 = `S(val f0: E, val f1: int)` -/
def sigW : Sig := fun t =>
  match t with
  | 1 => .enum 0 [(0, []), (1, [0])]
  | 2 => .struct [(0, 1), (1, 0)]
  | _ => .prim
def cxW : Cx := fun c => match c with | 0 => [(0, 0), (1, 1)] | _ => []

theorem isNone_map {α : Type} (x : Option (Option α)) (h : x.map Option.isNone = some true) :
    x = some none := by
  cases x with
  | none => simp at h
  | some y => cases y <;> simp_all

theorem sigW_cxOk : CxOk sigW cxW := by
  intro t cls vs h
  unfold sigW at h
  split at h <;> first | (injection h with h1 h2; subst h1; subst h2; rfl) | cases h

/-- `S.init(E.A(), 40)` -/
def valW : Val := .con none [.con (some ⟨0, 0⟩) [], .prim 40]
def valB : Val := .con none [.con (some ⟨0, 1⟩) [.prim 2], .prim 40]

-- the former witness of C03-F3 is no longer a typed checked pattern
example : cpatTy sigW (.object 2 [0, 0, 1] [.variant ⟨0, 1⟩ [.wild], .wild, .wild]) 2 = false := by decide

-- `match s { { f1 as k, f0 as B(n) } -> 0, { f1 as _, f0 as A } -> 1 }` (fields out of order) is
-- accepted, both arms are reachable, and the bindings are the source ones
def armsOk : List CPat :=
  [.object 2 [1, 0] [.id 7, .variant ⟨0, 1⟩ [.id 8]], .object 2 [1, 0] [.wild, .variant ⟨0, 0⟩ []]]
example : cpatTyAll sigW armsOk 2 = true ∧ bindsOkL armsOk = true ∧
    incompleteCounterexampleF cxW 10 (abstractArms armsOk) = some none := by
  refine ⟨by decide, by decide, isNone_map _ (by decide)⟩
example : runMatch (lowerMatch armsOk) valW = .arm 1 := by decide
example : runMatch (lowerMatch armsOk) valB = .arm 0 := by decide
example : (execCode (lowerPat (.object 2 [1, 0] [.id 7, .variant ⟨0, 1⟩ [.id 8]])) valB).map
    (fun r => (r.1, r.2.map (fun b => b.1))) = some (true, [8, 7]) := by decide
-- or-pattern whose first alternative assigns `x` and then fails: `(B(x) | A) ` is rejected by
-- `bindsOk` (inconsistent names); `B(x) | B(x)`-style alternatives are consistent
example : bindsOk (.or [.variant ⟨0, 1⟩ [.id 3], .variant ⟨0, 0⟩ []]) = false := by decide
example : bindsOk (.or [.variant ⟨0, 1⟩ [.id 3], .variant ⟨0, 1⟩ [.id 3]]) = true := by decide
example : lowerCrash (.tuple 1 [.wild, .wild]) = true := by decide
example : runIfLet (lowerPat (.variant ⟨0, 1⟩ [.id 5])) (.con (some ⟨0, 0⟩) []) = .elseB := by rfl
end matching

/-! ## 5. Variant values: layout, type erasure and the casts of `ConditionalDestructure` -/
section enumrepr
open SamVerif.EnumRepr

/-- **destructure_never_traps**: for every layout the compiler can choose for an enum (any variant
list, any answer of `type_permit_enum_boxed_optimization`), every variant value `j` (payload of the
right length; an unboxed payload is a pointer of its type, which `permit_payload_pointer` provides)
and every tested tag `k`: the emitted guard code - `ref.test`, the `ref.cast` inserted for a
`(ref eq)` local, the tag load, the `ref.cast` to the variant's sub-struct, the field loads - never
traps (no illegal cast, no struct access on a wrong type), runs the success branch exactly when
`j = k`, and binds exactly the payload. -/
theorem destructure_never_traps (p : Nat → Bool) (variants : List (List Nat)) (e j k : Nat)
    (ps : List RV) (fsj fsk : List Nat)
    (hj : variants[j]? = some fsj) (hk : variants[k]? = some fsk) (hlen : ps.length = fsj.length)
    (hpay : PayloadOk (layoutOf p variants) j ps) :
    runGuard (localTy needsAny (layoutOf p variants) e) (layoutOf p variants) e k
      (reprV (layoutOf p variants) e j ps) = if j = k then .success ps else .fail :=
  destructure_safe_aux p variants e j k ps fsj fsk hj hk hlen hpay

/-- **variant_fits_erased_type**: every variant value has the wasm type of the locals, parameters and
fields that hold values of its enum (`(ref eq)` when the enum is erased to `AnyPointer`, else
`(ref $Enum)`), so storing it validates and needs no cast.  Full strength since the fix of C03-F7. -/
theorem variant_fits_erased_type (p : Nat → Bool) (variants : List (List Nat)) (e j : Nat)
    (ps : List RV) (fsj : List Nat) (hj : variants[j]? = some fsj)
    (hpay : PayloadOk (layoutOf p variants) j ps) :
    rvHasTy (reprV (layoutOf p variants) e j ps) (localTy needsAny (layoutOf p variants) e) = true :=
  repr_fits_local_aux p variants e j ps fsj hj hpay

/-- **Historical witness (finding C03-F7, fixed)**: with the erasure test of the unfixed code (only
int31 variants count) the single-variant enum `class W(Only(P))` keeps the type `(ref $W)` while its
value is a `P` struct: the value does not fit, and the cast the back end inserts traps
(`illegal cast` on an accepted `match`). -/
theorem erasure_old_counterexample :
    let vs := layoutOf (fun _ => true) [[1]]
    PayloadOk vs 0 [.obj (.base 1) []] ∧
    rvHasTy (reprV vs 0 0 [.obj (.base 1) []]) (localTy needsAnyOld vs 0) = false ∧
    refCast (.base 0) (reprV vs 0 0 [.obj (.base 1) []]) = none := by
  refine ⟨?_, by decide, by decide⟩
  intro f hf
  refine ⟨.obj (.base 1) [], rfl, ?_⟩
  have : f = 1 := by
    have h : layoutOf (fun _ => true) [[1]] = [.unboxed 1] := by decide
    simp only [h] at hf
    simpa using hf.symm
  subst this; decide

/-- **permit_payload_pointer**: a typed value of a type for which
`type_permit_enum_boxed_optimization` answers yes is represented by a pointer to a struct of that
type - the hypothesis `PayloadOk` of the two theorems above. -/
theorem permit_payload_pointer (tbl : Table) (lay : Layouts) (self t : Nat) (v : SV)
    (hp : permit tbl lay self t = true) (hv : svTy tbl v t = true)
    (hlen : ∀ vs, tbl.getD t .prim = .enum vs → (layAt lay t).length = vs.length) :
    rvHasTy (repr lay v) (.ref (.base t)) = true :=
  EnumRepr.permit_payload_pointer tbl lay self t v hp hv hlen

-- non-vacuity: `Opt(No, Yes(P))` is [int31, unboxed], `E(A, B(int), C(P, int))` is [int31, boxed, boxed]
example : layoutOf (fun t => t == 1) [[], [1]] = [.int31, .unboxed 1] := by decide
example : layoutOf (fun t => t == 1) [[], [0], [1, 0]] = [.int31, .boxed [0], .boxed [1, 0]] := by decide
example : layoutOf (fun t => t == 1) [[1], [1]] = [.boxed [1], .boxed [1]] := by decide
example : layoutTable [.prim, .struct [0], .enum [[], [1]], .enum [[2]], .enum [[1]]] =
    [none, none, some [.int31, .unboxed 1], some [.boxed [2]], some [.unboxed 1]] := by decide
end enumrepr

/-! ## 6. Bounds of type arguments are validated at every bounded position -/
section bounds
open SamVerif.BoundCheck

/-- **bounds_checked_everywhere**: `validate_type_arguments` reports position `k` exactly when the
`k`-th type parameter has a bound that the `k`-th (explicit or solved) type argument does not satisfy -
wherever the parameter stands in the list, in particular after unbounded parameters. -/
theorem bounds_checked_everywhere (sat : Nat → Nat → Bool) (params : List (Option Nat)) (args : List Nat)
    (k : Nat) :
    k ∈ validate sat params args ↔
      ∃ b a, params[k]? = some (some b) ∧ args[k]? = some a ∧ sat a b = false := by
  unfold validate
  rw [validateFrom_iff]
  constructor
  · rintro ⟨j, b, a, hk, hp, ha, hs⟩
    have : k = j := by omega
    subst this; exact ⟨b, a, hp, ha, hs⟩
  · rintro ⟨b, a, hp, ha, hs⟩
    exact ⟨k, b, a, by omega, hp, ha, hs⟩

/-- **bounds_gate**: no error is reported iff every bounded position is satisfied - so a call the
checker accepts has all its bounds satisfied (the premise of specialising `b.area()` to a member
that exists). -/
theorem bounds_gate (sat : Nat → Nat → Bool) (params : List (Option Nat)) (args : List Nat) :
    validate sat params args = [] ↔
      ∀ (k b a : Nat), params[k]? = some (some b) → args[k]? = some a → sat a b = true := by
  constructor
  · intro h k b a hp ha
    cases hs : sat a b with
    | true => rfl
    | false =>
      have : k ∈ validate sat params args := (bounds_checked_everywhere sat params args k).mpr ⟨b, a, hp, ha, hs⟩
      rw [h] at this; cases this
  · intro h
    cases hv : validate sat params args with
    | nil => rfl
    | cons k rest =>
      obtain ⟨b, a, hp, ha, hs⟩ := (bounds_checked_everywhere sat params args k).mp (by rw [hv]; simp)
      rw [h k b a hp ha] at hs; cases hs

-- `<L, S: HasArea>` instantiated with `<int, Blob>`: position 1 is reported; the `map_while` slip of
-- seeded/C03d reports nothing
example : validate (fun a b => a == b) [none, some 7] [1, 2] = [1] := by decide
example : validateMapWhile (fun a b => a == b) [none, some 7] [1, 2] 0 = [] := by decide
end bounds

/-! ## 7. Type-erased context parameters are downcast wherever a concrete reference is required -/
section castinsert
open SamVerif.CastInsert

/-- **erased_uses_validate**: for every place a value flows into - `struct.new` field, function result,
assignment to a declared local (if-else finals, break and loop values, late init), direct / indirect
call argument, pointer of a `struct.get` - the operand the lowering emits has a type the validator
accepts there, whenever the LIR is well typed up to erasure (the local is declared at the place's type
or erased to `(ref eq)`, as every method's `_this` is).  I.e. every use of an erased `_this` at a
declared reference type is preceded by the downcast. -/
theorem erased_uses_validate (Γ : Locals) (s : Sink) (h : s.ok Γ) :
    validates Γ s (lowerSink Γ s) = true := by
  cases s with
  | structField e t => exact lowerFor_validates Γ e t h
  | ret e t => exact lowerFor_validates Γ e t h
  | assign e t => exact lowerFor_validates Γ e t h
  | arg e t => exact lowerFor_validates Γ e t h
  | load n t => exact lowerPtr_validates Γ n t h

/-- the downcast is inserted only where it is needed: a local that already has the place's type is
read as it is (no cast that could trap is added to well-typed, unerased code) -/
theorem no_cast_without_erasure (Γ : Locals) (n : Nat) (occ target : WTy) (h : Γ n = target) (hne : target ≠ .eq) :
    lowerFor Γ (.var n occ) target = .get n := by
  cases target with
  | i32 => rfl
  | eq => exact absurd rfl hne
  | ref t => simp [lowerFor, h]

/-- **Historical witness (finding C03-F11, fixed by 0ba77ec)**: with the lowering before the fix, the
erased `_this` (local 0 : `(ref eq)`) stored into a struct field, returned or assigned at type
`(ref $7)` is well typed LIR and does NOT validate. -/
theorem erased_uses_old_counterexample :
    let Γ : Locals := fun _ => .eq
    (Sink.structField (.var 0 (.ref 7)) (.ref 7)).ok Γ ∧
    validates Γ (.structField (.var 0 (.ref 7)) (.ref 7)) (lowerSinkOld Γ (.structField (.var 0 (.ref 7)) (.ref 7))) = false ∧
    validates Γ (.ret (.var 0 (.ref 7)) (.ref 7)) (lowerSinkOld Γ (.ret (.var 0 (.ref 7)) (.ref 7))) = false ∧
    validates Γ (.structField (.var 0 (.ref 7)) (.ref 7)) (lowerSink Γ (.structField (.var 0 (.ref 7)) (.ref 7))) = true := by
  refine ⟨⟨rfl, Or.inr ⟨rfl, 7, rfl⟩⟩, by decide, by decide, by decide⟩

/-- **context_signature_survives_tailrec**: the emitted parameter types of a closure-callable function
(context erased to `(ref eq)`, which is what `call_indirect` expects) are the same before and after the
tail-recursion rewrite has renamed its parameters. -/
theorem context_signature_survives_tailrec (rest : List Nat) (tys : List WTy) :
    erasedSig isContext ((THIS :: rest).map tailrec) tys = erasedSig isContext (THIS :: rest) tys := by
  cases tys with
  | nil => rfl
  | cons t ts => simp [erasedSig, isContext, THIS, tailrec]

/-- **Historical witness (finding C03-F12, fixed by 2a09feb)**: with the old test (`== _this` only) the
renamed method keeps its concrete context type, so its signature differs from the one `call_indirect`
uses: the engine traps with `function signature mismatch`. -/
theorem context_signature_old_counterexample :
    erasedSig isContextOld ([THIS, 5].map tailrec) [.ref 7, .i32] ≠ erasedSig isContextOld [THIS, 5] [.ref 7, .i32] := by
  decide

example : lowerSink (fun n => if n = 0 then .eq else .ref 7) (.structField (.var 0 (.ref 7)) (.ref 7)) = .cast 7 0 := by rfl
example : lowerSink (fun _ => .ref 7) (.structField (.var 3 (.ref 7)) (.ref 7)) = .get 3 := by rfl
end castinsert

/-! ## 8. A reference in any use position keeps the referenced entity (liveness of the use collector) -/
section liveness
open SamVerif.Opt SamVerif.C03Live

/-- **sole_reference_kept**: if a statement that stays in the block reads `x` in ANY use position -
operand, pointer of an access, struct field, closure context, call argument, variable callee, break
value - then `x` is in the set the collector hands on, so the entity is not eliminated.  On C02's
use-collector model (one constructor per use position), through `Lemmas/C03Live.lean`. -/
theorem sole_reference_kept (p : List US) (live : List Nat) (s : US) (x : Nat)
    (hs : s ∈ (dceU true p live).1) (hx : x ∈ s.uses true) : x ∈ (dceU true p live).2 :=
  kept_uses_collected p live s hs x hx

/-- a call or a break always stays, so whatever it mentions in any position is collected - even if it
is the only mention in the whole block -/
theorem effectful_reference_kept (p q : List US) (s : US) (live : List Nat) (x : Nat)
    (hm : s.mustStay = true) (hx : x ∈ s.uses true) : x ∈ (dceU true (p ++ s :: q) live).2 :=
  kept_uses_collected _ live s (mustStay_kept p q s live hm) x hx

/-- **loop_value_reference_kept** (the position of seeded fault C03e): a name that occurs only in the
LOOP VALUE (the argument of the self tail call) of a loop variable is among the names the `While` arm
considers mentioned. -/
theorem loop_value_reference_kept (lvs : List (Nat × Operand × Operand)) (body : List US)
    (lv : Nat × Operand × Operand) (x : Nat) (hlv : lv ∈ lvs) (hx : x ∈ lv.2.2.vars) :
    x ∈ whileMentioned lvs body := by
  unfold whileMentioned
  exact List.mem_append_left _ (List.mem_flatMap.mpr ⟨lv, hlv, List.mem_append_right _ hx⟩)

-- one example per use position: the only mention of 9 is in that position, and 9 is collected
example : 9 ∈ (dceU true [.call none [.var 9] none] []).2 := by decide                 -- call argument
example : 9 ∈ (dceU true [.call (some 9) [] none] []).2 := by decide                   -- variable callee
example : 9 ∈ (dceU true [.brk (.var 9)] []).2 := by decide                            -- break value
example : 9 ∈ (dceU true [.strct 1 [.var 9], .brk (.var 1)] []).2 := by decide         -- struct field
example : 9 ∈ (dceU true [.clo 1 (.var 9), .call (some 1) [] none] []).2 := by decide  -- closure context
example : 9 ∈ (dceU true [.idx 1 (.var 9), .brk (.var 1)] []).2 := by decide           -- pointer
example : 9 ∈ (dceU true [.bin 1 (.var 9) (.var 9), .brk (.var 1)] []).2 := by decide  -- operand
example : 9 ∈ whileMentioned [(1, .var 2, .var 9)] [] := by decide                     -- loop value
end liveness

end SamVerif.C03
