import SamVerif.Props.C08
import SamVerif.Lemmas.CommentQueue
/-!
# C09 (part b) — idempotence on the C08 expression fragment, and how comments reach tokens

Uses builder-C08's model `Model/Fmt.lean` (`printE`, `parseE`) and its round-trip theorem.
-/
namespace SamVerif.Fmt

/-- **Formatting the formatter's output returns it unchanged, token for token, on the expression
fragment** (`format_idempotent_fragment`, `_partial`): under C08's side condition `RT` (the printer
leaves operands unparenthesised only where the parser reads them back as operands; decidable and
satisfiable, see `Model/Fmt.lean`), printing the re-parsed output gives the same tokens again.
Opaque atoms stand for delimited units *together with the comments printed directly in front of
them* (the parser hands the comments preceding a token to the production that consumes it, see
`queue_delivers_with_next_token` below), so comments attached to atoms are covered; comments
attached to operator nodes are not part of the fragment (finding C09-F5 shows the text-level
statement is false for them). -/
theorem format_idempotent_fragment_partial (e : Expr) (h : RT e = true) :
    (parseE (printE e)).map printE = some (printE e) := by
  rw [roundtrip_expr_partial e h]; rfl

example : RT (.binary .plus (.atom 1) (.binary .mul (.atom 2) (.atom 3))) = true := by decide

/-- Formatting twice equals formatting once, as a statement about the composed function. -/
theorem format_twice_fragment_partial (e : Expr) (h : RT e = true) :
    ((parseE (printE e)).bind fun e' => (parseE (printE e')).map printE) = some (printE e) := by
  rw [roundtrip_expr_partial e h]
  simp [roundtrip_expr_partial e h]

end SamVerif.Fmt

namespace SamVerif.CommentQueue

/-- The token stream as the productions see it: every real token together with the comments that
precede it (after the previous real token). -/
def decorate : List RawTok → List Comment → List (List Comment × Str)
  | [], _ => []
  | .comment c :: r, acc => decorate r (acc ++ [c])
  | .tok t :: r, acc => (acc, t) :: decorate r []

theorem decorate_drain (r : List RawTok) (pend : List Comment) :
    (∀ t r' p, drain r pend = (.tok t, r', p) → decorate r pend = (p, t) :: decorate r' []) ∧
    (∀ r' p, drain r pend = (.eof, r', p) → decorate r pend = []) := by
  induction r generalizing pend with
  | nil => constructor <;> simp [drain, decorate]
  | cons x xs ih =>
    cases x with
    | comment c => simp only [drain, decorate]; exact ih (pend ++ [c])
    | tok t =>
      constructor
      · intro t' r' p h
        simp only [drain, Prod.mk.injEq, PTok.tok.injEq] at h
        obtain ⟨rfl, rfl, rfl⟩ := h
        simp [decorate]
      · intro r' p h
        simp [drain] at h

/-- **Comments travel with the next token**: on a state with nothing peeked, `consume` returns
exactly the comments written between the previous token and the consumed one, and leaves the rest
of the decorated stream untouched. Hence a comment is always delivered to the production that
consumes the token following it (and the printer's `create_opt_preceding_comment_doc` prints it
directly in front of that production's text). -/
theorem queue_delivers_with_next_token (st : State) (h : st.peeked = none)
    (cs : List Comment) (t : Str) (rest : List (List Comment × Str))
    (hd : decorate st.rest st.pending = (cs, t) :: rest) :
    (peek st).2 = .tok t ∧ (consume st).2 = cs ∧
      decorate (consume st).1.rest (consume st).1.pending = rest ∧ (consume st).1.peeked = none := by
  have hdr := decorate_drain st.rest st.pending
  unfold consume peek
  simp only [h]
  rcases hq : drain st.rest st.pending with ⟨pt, r', p⟩
  cases pt with
  | eof =>
    have := hdr.2 r' p hq
    rw [this] at hd; cases hd
  | tok t' =>
    have := hdr.1 t' r' p hq
    rw [this] at hd
    simp only [List.cons.injEq, Prod.mk.injEq] at hd
    obtain ⟨⟨rfl, rfl⟩, rfl⟩ := hd
    simp

example :
    decorate [.comment ⟨.line, ['a']⟩, .tok ['x'], .tok ['+'], .comment ⟨.block, ['b']⟩, .tok ['y']] [] =
      [([⟨.line, ['a']⟩], ['x']), ([], ['+']), ([⟨.block, ['b']⟩], ['y'])] := by decide

end SamVerif.CommentQueue
