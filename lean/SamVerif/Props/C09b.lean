import SamVerif.Props.C08
import SamVerif.Lemmas.CommentQueue
/-!
# C09 (part b) — idempotence on the C08 expression fragment, and how comments reach tokens

Uses builder-C08's model `Model/Fmt.lean` (`printE`, `parseE`) and its round-trip theorem.
-/
namespace SamVerif.Fmt

/-- **Formatting the formatter's output returns it unchanged, token for token, on the expression
fragment** (`format_idempotent_fragment`, `_partial`): under C08's side condition `RT` (the printer
leaves operands unparenthesised only where the parser reads them back as operands; decidable and
satisfiable, see `Model/Fmt.lean`), printing the re-parsed output gives the same tokens again.
Opaque atoms stand for delimited units *together with the comments printed directly in front of
them* (the parser hands the comments preceding a token to the production that consumes it, see
`queue_delivers_with_next_token` below), so comments attached to atoms are covered; comments
attached to operator nodes are not part of the fragment (finding C09-F5 shows the text-level
statement is false for them). -/
theorem format_idempotent_fragment_partial (e : Expr) (h : RT e = true) :
    (parseE (printE e)).map printE = some (printE e) := by
  rw [roundtrip_expr_partial e h]; rfl

example : RT (.binary .plus (.atom 1) (.binary .mul (.atom 2) (.atom 3))) = true := by decide

/-- Formatting twice equals formatting once, as a statement about the composed function. -/
theorem format_twice_fragment_partial (e : Expr) (h : RT e = true) :
    ((parseE (printE e)).bind fun e' => (parseE (printE e')).map printE) = some (printE e) := by
  rw [roundtrip_expr_partial e h]
  simp [roundtrip_expr_partial e h]

end SamVerif.Fmt

namespace SamVerif.CommentQueue

/-- The token stream as the productions see it: every real token together with the comments that
precede it (after the previous real token). -/
def decorate : List RawTok → List Comment → List (List Comment × Str)
  | [], _ => []
  | .comment c :: r, acc => decorate r (acc ++ [c])
  | .tok t :: r, acc => (acc, t) :: decorate r []

theorem decorate_drain (r : List RawTok) (pend : List Comment) :
    (∀ t r' p, drain r pend = (.tok t, r', p) → decorate r pend = (p, t) :: decorate r' []) ∧
    (∀ r' p, drain r pend = (.eof, r', p) → decorate r pend = []) := by
  induction r generalizing pend with
  | nil => constructor <;> simp [drain, decorate]
  | cons x xs ih =>
    cases x with
    | comment c => simp only [drain, decorate]; exact ih (pend ++ [c])
    | tok t =>
      constructor
      · intro t' r' p h
        simp only [drain, Prod.mk.injEq, PTok.tok.injEq] at h
        obtain ⟨rfl, rfl, rfl⟩ := h
        simp [decorate]
      · intro r' p h
        simp [drain] at h

/-- **Comments travel with the next token**: on a state with nothing peeked, `consume` returns
exactly the comments written between the previous token and the consumed one, and leaves the rest
of the decorated stream untouched. Hence a comment is always delivered to the production that
consumes the token following it (and the printer's `create_opt_preceding_comment_doc` prints it
directly in front of that production's text). -/
theorem queue_delivers_with_next_token (st : State) (h : st.peeked = none)
    (cs : List Comment) (t : Str) (rest : List (List Comment × Str))
    (hd : decorate st.rest st.pending = (cs, t) :: rest) :
    (peek st).2 = .tok t ∧ (consume st).2 = cs ∧
      decorate (consume st).1.rest (consume st).1.pending = rest ∧ (consume st).1.peeked = none := by
  have hdr := decorate_drain st.rest st.pending
  unfold consume peek
  simp only [h]
  rcases hq : drain st.rest st.pending with ⟨pt, r', p⟩
  cases pt with
  | eof =>
    have := hdr.2 r' p hq
    rw [this] at hd; cases hd
  | tok t' =>
    have := hdr.1 t' r' p hq
    rw [this] at hd
    simp only [List.cons.injEq, Prod.mk.injEq] at hd
    obtain ⟨⟨rfl, rfl⟩, rfl⟩ := hd
    simp

example :
    decorate [.comment ⟨.line, ['a']⟩, .tok ['x'], .tok ['+'], .comment ⟨.block, ['b']⟩, .tok ['y']] [] =
      [([⟨.line, ['a']⟩], ['x']), ([], ['+']), ([⟨.block, ['b']⟩], ['y'])] := by decide

end SamVerif.CommentQueue

/-! ## Round trip *with comments* on the fragment (`roundtrip_with_comments`, partial)

After /repo commit "attach additional preceding comments to the sub-expression that owns the first
token" the parser puts every comment written in front of an expression on the sub-expression that owns
the following token; in the fragment these are the opaque atoms. A tree in this normal form is a
`Fmt.Expr` whose atom indices point into a table of (comments, atom) pairs. Printing emits the comments
of an atom directly in front of it (`create_opt_preceding_comment_doc`); reading the text back, the
queue delivers them with that atom again (`queue_delivers_with_next_token`, here `decorateG`). -/
namespace SamVerif.Fmt
open SamVerif.CommentQueue (Comment)

/-- Token stream with comments, as the lexer produces it. -/
inductive CTok where
  | comment (c : Comment)
  | tok (t : Tok)
  deriving DecidableEq, Repr

/-- What the printer writes for a sequence of tokens with their preceding comments. -/
def undecorate : List (List Comment × Tok) → List CTok
  | [] => []
  | (cs, t) :: r => cs.map .comment ++ .tok t :: undecorate r

/-- The parser's view (same recursion as `CommentQueue.decorate`, generic token type). -/
def decorateG : List CTok → List Comment → List (List Comment × Tok)
  | [], _ => []
  | .comment c :: r, acc => decorateG r (acc ++ [c])
  | .tok t :: r, acc => (acc, t) :: decorateG r []

theorem decorateG_comments (cs : List Comment) (rest : List CTok) (acc : List Comment) :
    decorateG (cs.map .comment ++ rest) acc = decorateG rest (acc ++ cs) := by
  induction cs generalizing acc with
  | nil => simp
  | cons c cs ih => simp [decorateG, ih, List.append_assoc]

/-- Reading back what was written gives the same tokens with the same comments. -/
theorem decorate_undecorate (ps : List (List Comment × Tok)) : decorateG (undecorate ps) [] = ps := by
  induction ps with
  | nil => rfl
  | cons p r ih =>
    obtain ⟨cs, t⟩ := p
    simp [undecorate, decorateG_comments, decorateG, ih]

/-- Table of the commented atoms of a tree: index `a` stands for atom `(T[a]).2` with the comments
`(T[a]).1` in front of it. -/
abbrev AtomTable := List (List Comment × Nat)

def idxOfPair (p : List Comment × Nat) : AtomTable → Nat
  | [] => 0
  | q :: r => if q = p then 0 else idxOfPair p r + 1

theorem idxOfPair_get (T : AtomTable) (h : T.Nodup) (a : Nat) (p : List Comment × Nat)
    (ha : T[a]? = some p) : idxOfPair p T = a := by
  induction T generalizing a with
  | nil => simp at ha
  | cons q r ih =>
    cases a with
    | zero => simp at ha; simp [idxOfPair, ha]
    | succ n =>
      simp only [List.getElem?_cons_succ] at ha
      have hmem : p ∈ r := List.mem_of_getElem? ha
      have hne : q ≠ p := by
        intro he; subst he
        exact (List.nodup_cons.mp h).1 hmem
      simp [idxOfPair, hne, ih (List.nodup_cons.mp h).2 n ha]

/-- The printer's output for one token of a normal-form tree. -/
def decorateTok (T : AtomTable) : Tok → List Comment × Tok
  | .atom a => match T[a]? with
    | some p => (p.1, .atom p.2)
    | none => ([], .atom a)
  | t => ([], t)

/-- The parser's reading of one token with the comments delivered with it. -/
def reindexTok (T : AtomTable) : List Comment × Tok → Tok
  | (cs, .atom n) => .atom (idxOfPair (cs, n) T)
  | (_, t) => t

/-- Every atom of the token sequence is an index into the table. -/
def AtomsIn (T : AtomTable) (ts : List Tok) : Prop := ∀ a, Tok.atom a ∈ ts → a < T.length

theorem reindex_decorate (T : AtomTable) (h : T.Nodup) (ts : List Tok) (ha : AtomsIn T ts) :
    (ts.map (decorateTok T)).map (reindexTok T) = ts := by
  induction ts with
  | nil => rfl
  | cons t r ih =>
    have hr : AtomsIn T r := fun a hm => ha a (List.mem_cons_of_mem _ hm)
    simp only [List.map_cons, ih hr, List.cons.injEq, and_true]
    cases t with
    | atom a =>
      have hlt : a < T.length := ha a (by simp)
      have hg : T[a]? = some T[a] := List.getElem?_eq_getElem hlt
      simp only [decorateTok, hg, reindexTok]
      rw [idxOfPair_get T h a T[a] hg]
    | _ => rfl

/-- `format`: print the tree, every atom preceded by its comments. -/
def formatC (T : AtomTable) (e : Expr) : List CTok := undecorate ((printE e).map (decorateTok T))

/-- `parse` of a text with comments: the queue attaches comments to the following token, atoms are
identified with their comments, then the C08 parser model runs. -/
def parseC (T : AtomTable) (s : List CTok) : Option Expr :=
  parseE ((decorateG s []).map (reindexTok T))

/-- **Round trip with comments** (partial: C08's side condition `RT`; comments on atoms only). -/
theorem roundtrip_with_comments_partial (T : AtomTable) (hT : T.Nodup) (e : Expr) (h : RT e = true)
    (ha : AtomsIn T (printE e)) : parseC T (formatC T e) = some e := by
  unfold parseC formatC
  rw [decorate_undecorate, reindex_decorate T hT _ ha, roundtrip_expr_partial e h]

/-- **Formatting the formatter's output returns it unchanged, comments included** (token level). -/
theorem format_idempotent_with_comments_partial (T : AtomTable) (hT : T.Nodup) (e : Expr)
    (h : RT e = true) (ha : AtomsIn T (printE e)) :
    (parseC T (formatC T e)).map (formatC T) = some (formatC T e) := by
  rw [roundtrip_with_comments_partial T hT e h ha]; rfl

example :
    formatC [([⟨.block, ['c']⟩], 7), ([], 8)] (.binary .plus (.atom 0) (.atom 1)) =
      [.comment ⟨.block, ['c']⟩, .tok (.atom 7), .tok (.op .plus), .tok (.atom 8)] := by decide

end SamVerif.Fmt
