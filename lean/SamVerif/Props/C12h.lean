import SamVerif.Props.C12
import SamVerif.Model.ModuleOrder
/-! # C12 — the parse order of the modules: by printed name it is a function of the set of module
names; by `PStr` parts it depends on the allocation ids of name parts longer than 15 bytes. -/
namespace SamVerif.ErrorSet

/-- **parse_order_by_name_invariant**: the parse order computed from the printed names depends only
on the *set of module names* — not on the order in which the caller enumerated / allocated the
modules, not on the iteration order of the source map, and (there is no `ids` in it) not on any
allocation id. -/
theorem parse_order_by_name_invariant (content : Nat → List Nat) (mods mods' : List (List Atom))
    (h : ∀ n, n ∈ mods.map (printedName content) ↔ n ∈ mods'.map (printedName content)) :
    orderByName content mods = orderByName content mods' := by
  unfold orderByName
  apply sorted_ext _ _ lexLt_strictTotal (ofList_sorted _ lexLt_strictTotal) (ofList_sorted _ lexLt_strictTotal)
  intro x
  rw [mem_ofList _ x lexLt_strictTotal, mem_ofList _ x lexLt_strictTotal]
  exact h x

theorem parse_order_by_name_perm_invariant (content : Nat → List Nat) (mods mods' : List (List Atom))
    (hp : mods'.Perm mods) : orderByName content mods' = orderByName content mods :=
  parse_order_by_name_invariant content mods' mods (fun _ => (hp.map _).mem_iff)

def longA : List Nat := [77, 111, 100, 117, 108, 101, 87, 105, 116, 104, 76, 111, 110, 103, 78, 97, 109, 101, 65]
def longB : List Nat := [77, 111, 100, 117, 108, 101, 87, 105, 116, 104, 76, 111, 110, 103, 78, 97, 109, 101, 66]
def contentAB (h : Nat) : List Nat := if h = 0 then longA else longB

example : orderByName contentAB [[.heap 1], [.heap 0]] = [longA, longB] := by decide

theorem ltParts_strictTotal (ids : Nat → Nat) (hi : Inj ids) : StrictTotal (ltParts ids) :=
  ⟨fun _ => lexLt_irrefl _, fun _ _ _ => lexLt_trans _ _ _,
   fun a b h1 h2 => atomsKey_inj ids hi a b (lexLt_total _ _ h1 h2)⟩

/- Full-strength statement for a sort keyed by the parts, **false**:
   `∀ ids ids', Inj ids → Inj ids' → orderByParts ids mods = orderByParts ids' mods`. -/

/-- **parse_order_by_parts_counterexample** (the class of seeded fault C12c): two modules whose
names are single parts longer than 15 bytes; allocating them in the other order reverses the
"sorted" parse order. -/
theorem parse_order_by_parts_counterexample :
    ∃ (ids ids' : Nat → Nat) (mods : List (List Atom)), Inj ids ∧ Inj ids' ∧
      orderByParts ids mods ≠ orderByParts ids' mods :=
  ⟨id, fun n => if n = 0 then 1 else if n = 1 then 0 else n, [[.heap 0], [.heap 1]],
   fun _ _ h => h,
   by intro a b; simp only; split <;> split <;> (try split) <;> (try split) <;> omega,
   by decide⟩

def heapFree : List Atom → Bool
  | [] => true
  | .heap _ :: _ => false
  | _ :: rest => heapFree rest

theorem atomsKey_heapFree (ids ids' : Nat → Nat) (ps : List Atom) (h : heapFree ps = true) :
    atomsKey ids ps = atomsKey ids' ps := by
  induction ps with
  | nil => rfl
  | cons p ps ih =>
    cases p with
    | heap k => simp [heapFree] at h
    | num n => simp only [heapFree] at h; simp [atomsKey, atomKey, ih h]
    | inl bs => simp only [heapFree] at h; simp [atomsKey, atomKey, ih h]

/-- **parse_order_by_parts_partial**: when every name part is at most 15 bytes (inline), the order
by parts does not depend on allocation ids either — which is why no test with short module names
can tell the two sort keys apart. -/
theorem parse_order_by_parts_partial (ids ids' : Nat → Nat) (hi : Inj ids) (hi' : Inj ids')
    (mods : List (List Atom)) (hshort : ∀ m ∈ mods, heapFree m = true) :
    orderByParts ids mods = orderByParts ids' mods := by
  have hs := ltParts_strictTotal ids hi
  have hs' := ltParts_strictTotal ids' hi'
  unfold orderByParts
  apply sorted_ext (lt := ltParts ids') _ _ hs' _ (ofList_sorted _ hs')
  · intro x; rw [mem_ofList _ x hs, mem_ofList _ x hs']
  · apply sorted_transfer _ (ofList_sorted _ hs)
    intro a ha b hb hab
    have ha' := hshort a ((mem_ofList _ a hs).mp ha)
    have hb' := hshort b ((mem_ofList _ b hs).mp hb)
    simpa [ltParts, atomsKey_heapFree ids ids' a ha', atomsKey_heapFree ids ids' b hb'] using hab

example : orderByParts id [[.inl [66]], [.inl [65], .inl [67]]] =
    orderByParts (fun n => n + 3) [[.inl [66]], [.inl [65], .inl [67]]] := by decide

/-! ## The lowering order is a strict total order on distinct module names -/

/-- **lowering_order_total**: under the printed-name comparator no two modules with distinct names
tie — exactly one of them comes first. -/
theorem lowering_order_total (a b : List Nat) (h : a ≠ b) :
    (lexLt a b = true ∧ lexLt b a = false) ∨ (lexLt b a = true ∧ lexLt a b = false) := by
  cases hab : lexLt a b <;> cases hba : lexLt b a
  · exact absurd (lexLt_total a b hab hba) h
  · exact .inr ⟨rfl, rfl⟩
  · exact .inl ⟨rfl, rfl⟩
  · have := lexLt_trans a b a hab hba
    rw [lexLt_irrefl] at this
    cases this

theorem sIns_eq_ins {α : Type} {lt : α → α → Bool} (h : StrictTotal lt) (x : α) (l : List α)
    (hx : x ∉ l) : sIns lt x l = ins lt x l := by
  induction l with
  | nil => rfl
  | cons y ys ih =>
    simp only [List.mem_cons, not_or] at hx
    simp only [sIns, ins]
    by_cases h1 : lt x y = true
    · simp [h1]
    · have h2 : lt y x = true := by
        cases h3 : lt y x with
        | true => rfl
        | false => exact absurd (h.total x y (by simpa using h1) h3) hx.1
      simp [h1, h2, ih hx.2]

theorem sSort_eq_ofList_aux {α : Type} {lt : α → α → Bool} (h : StrictTotal lt) :
    ∀ (l acc : List α), l.Nodup → (∀ x ∈ l, x ∉ acc) →
      l.foldl (fun acc x => sIns lt x acc) acc = l.foldl (fun acc x => ins lt x acc) acc := by
  intro l
  induction l with
  | nil => intro acc _ _; rfl
  | cons x xs ih =>
    intro acc hn hd
    have hn' := List.nodup_cons.mp hn
    simp only [List.foldl_cons]
    rw [sIns_eq_ins h x acc (hd x (by simp))]
    apply ih _ hn'.2
    intro y hy hmem
    rcases (mem_ins x y acc h).mp hmem with rfl | hm
    · exact hn'.1 hy
    · exact hd y (List.mem_cons_of_mem _ hy) hm

/-- **stable_sort_perm_invariant**: a stable sort by a strict total order of pairwise distinct keys
gives the same sequence for every input (hash) order. -/
theorem stable_sort_perm_invariant {α : Type} {lt : α → α → Bool} (h : StrictTotal lt)
    (l l' : List α) (hn : l.Nodup) (hp : l'.Perm l) : sSort lt l' = sSort lt l := by
  have hn' : l'.Nodup := hp.nodup_iff.mpr hn
  have e1 : sSort lt l = ofList lt l := by
    unfold sSort ofList merge
    exact sSort_eq_ofList_aux h l [] hn (by simp)
  have e2 : sSort lt l' = ofList lt l' := by
    unfold sSort ofList merge
    exact sSort_eq_ofList_aux h l' [] hn' (by simp)
  rw [e1, e2]
  exact sorted_enumeration_perm_invariant h l l' hp

/-- the lowering order of the code: printed names, pairwise distinct, in any hash order -/
theorem lowering_order_perm_invariant (names names' : List (List Nat)) (hn : names.Nodup)
    (hp : names'.Perm names) : sSort lexLt names' = sSort lexLt names :=
  stable_sort_perm_invariant lexLt_strictTotal names names' hn hp

example : sSort lexLt [[65, 46, 66], [65]] = sSort lexLt [[65], [65, 46, 66]] := by decide

/- Full-strength statement for the pairwise (`zip`, no length comparison) comparator, **false**:
   `∀ a b, a ≠ b → zipLt a b = true ∨ zipLt b a = true`. -/

/-- **zip_order_tie_counterexample** (class of seeded fault C12f): the module `App` (parts `[App]`)
and the module `App.Tools` (parts `[App, Tools]`) are distinct and tie; a stable sort therefore keeps
them in input (hash) order, and the two input orders give different lowering orders. -/
theorem zip_order_tie_counterexample :
    ∃ a b : List (List Nat), a ≠ b ∧ zipLt a b = false ∧ zipLt b a = false ∧
      sSort zipLt [a, b] ≠ sSort zipLt [b, a] :=
  ⟨[[65]], [[65], [66]], by decide, by decide, by decide, by decide⟩

/-- **zip_order_partial**: the pairwise comparator only ties on prefix-related paths. -/
theorem zip_order_partial (a b : List (List Nat)) (h1 : ¬ a <+: b) (h2 : ¬ b <+: a) :
    zipLt a b = true ∨ zipLt b a = true := by
  induction a generalizing b with
  | nil => exact absurd (List.nil_prefix) h1
  | cons p ps ih =>
    cases b with
    | nil => exact absurd (List.nil_prefix) h2
    | cons q qs =>
      simp only [zipLt]
      cases hpq : lexLt p q
      · cases hqp : lexLt q p
        · have e : p = q := lexLt_total p q hpq hqp
          subst e
          simp only [lexLt_irrefl, Bool.false_eq_true, ↓reduceIte]
          apply ih
          · intro hpre; exact h1 ((List.cons_prefix_cons).mpr ⟨rfl, hpre⟩)
          · intro hpre; exact h2 ((List.cons_prefix_cons).mpr ⟨rfl, hpre⟩)
        · simp
      · simp

end SamVerif.ErrorSet
