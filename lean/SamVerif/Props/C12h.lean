import SamVerif.Props.C12
import SamVerif.Model.ModuleOrder
/-! # C12 — the parse order of the modules: by printed name it is a function of the set of module
names; by `PStr` parts it depends on the allocation ids of name parts longer than 15 bytes. -/
namespace SamVerif.ErrorSet

/-- **parse_order_by_name_invariant**: the parse order computed from the printed names depends only
on the *set of module names* — not on the order in which the caller enumerated / allocated the
modules, not on the iteration order of the source map, and (there is no `ids` in it) not on any
allocation id. -/
theorem parse_order_by_name_invariant (content : Nat → List Nat) (mods mods' : List (List Atom))
    (h : ∀ n, n ∈ mods.map (printedName content) ↔ n ∈ mods'.map (printedName content)) :
    orderByName content mods = orderByName content mods' := by
  unfold orderByName
  apply sorted_ext _ _ lexLt_strictTotal (ofList_sorted _ lexLt_strictTotal) (ofList_sorted _ lexLt_strictTotal)
  intro x
  rw [mem_ofList _ x lexLt_strictTotal, mem_ofList _ x lexLt_strictTotal]
  exact h x

theorem parse_order_by_name_perm_invariant (content : Nat → List Nat) (mods mods' : List (List Atom))
    (hp : mods'.Perm mods) : orderByName content mods' = orderByName content mods :=
  parse_order_by_name_invariant content mods' mods (fun _ => (hp.map _).mem_iff)

def longA : List Nat := [77, 111, 100, 117, 108, 101, 87, 105, 116, 104, 76, 111, 110, 103, 78, 97, 109, 101, 65]
def longB : List Nat := [77, 111, 100, 117, 108, 101, 87, 105, 116, 104, 76, 111, 110, 103, 78, 97, 109, 101, 66]
def contentAB (h : Nat) : List Nat := if h = 0 then longA else longB

example : orderByName contentAB [[.heap 1], [.heap 0]] = [longA, longB] := by decide

theorem ltParts_strictTotal (ids : Nat → Nat) (hi : Inj ids) : StrictTotal (ltParts ids) :=
  ⟨fun _ => lexLt_irrefl _, fun _ _ _ => lexLt_trans _ _ _,
   fun a b h1 h2 => atomsKey_inj ids hi a b (lexLt_total _ _ h1 h2)⟩

/- Full-strength statement for a sort keyed by the parts, **false**:
   `∀ ids ids', Inj ids → Inj ids' → orderByParts ids mods = orderByParts ids' mods`. -/

/-- **parse_order_by_parts_counterexample** (the class of seeded fault C12c): two modules whose
names are single parts longer than 15 bytes; allocating them in the other order reverses the
"sorted" parse order. -/
theorem parse_order_by_parts_counterexample :
    ∃ (ids ids' : Nat → Nat) (mods : List (List Atom)), Inj ids ∧ Inj ids' ∧
      orderByParts ids mods ≠ orderByParts ids' mods :=
  ⟨id, fun n => if n = 0 then 1 else if n = 1 then 0 else n, [[.heap 0], [.heap 1]],
   fun _ _ h => h,
   by intro a b; simp only; split <;> split <;> (try split) <;> (try split) <;> omega,
   by decide⟩

def heapFree : List Atom → Bool
  | [] => true
  | .heap _ :: _ => false
  | _ :: rest => heapFree rest

theorem atomsKey_heapFree (ids ids' : Nat → Nat) (ps : List Atom) (h : heapFree ps = true) :
    atomsKey ids ps = atomsKey ids' ps := by
  induction ps with
  | nil => rfl
  | cons p ps ih =>
    cases p with
    | heap k => simp [heapFree] at h
    | num n => simp only [heapFree] at h; simp [atomsKey, atomKey, ih h]
    | inl bs => simp only [heapFree] at h; simp [atomsKey, atomKey, ih h]

/-- **parse_order_by_parts_partial**: when every name part is at most 15 bytes (inline), the order
by parts does not depend on allocation ids either — which is why no test with short module names
can tell the two sort keys apart. -/
theorem parse_order_by_parts_partial (ids ids' : Nat → Nat) (hi : Inj ids) (hi' : Inj ids')
    (mods : List (List Atom)) (hshort : ∀ m ∈ mods, heapFree m = true) :
    orderByParts ids mods = orderByParts ids' mods := by
  have hs := ltParts_strictTotal ids hi
  have hs' := ltParts_strictTotal ids' hi'
  unfold orderByParts
  apply sorted_ext (lt := ltParts ids') _ _ hs' _ (ofList_sorted _ hs')
  · intro x; rw [mem_ofList _ x hs, mem_ofList _ x hs']
  · apply sorted_transfer _ (ofList_sorted _ hs)
    intro a ha b hb hab
    have ha' := hshort a ((mem_ofList _ a hs).mp ha)
    have hb' := hshort b ((mem_ofList _ b hs).mp hb)
    simpa [ltParts, atomsKey_heapFree ids ids' a ha', atomsKey_heapFree ids ids' b hb'] using hab

example : orderByParts id [[.inl [66]], [.inl [65], .inl [67]]] =
    orderByParts (fun n => n + 3) [[.inl [66]], [.inl [65], .inl [67]]] := by decide

end SamVerif.ErrorSet
