import SamVerif.Lemmas.EnumSpec
import SamVerif.Lemmas.TailRec
import SamVerif.Lemmas.CpeSem
import SamVerif.Lemmas.TailStmt
import SamVerif.Lemmas.CpeProg
import SamVerif.Model.VecRt
import SamVerif.Model.DataSeg
import SamVerif.Model.Launcher
/-!
# C01 — compiled code behaves as the source semantics prescribe: property theorems

K1 (enum variant representation, `mir_generics_specialization.rs`: rewrite_id_type, the enum branch,
type_permit_enum_boxed_optimization, EnumInit encoding, ConditionalDestructure tests):
* `layout_injective` (full strength) — in every state reachable by the demand-driven specialisation,
  for every enum definition produced, well-typed values with equal encodings are equal;
* `lowered_tests_exact` (full strength) — there, the lowered match's test for a variant succeeds on
  an encoded value iff it is that variant, and binds exactly its fields (decode ∘ encode = id);
* `encode_injective_of_inv`, `testVariant_exact_of_inv` — the same for any layout satisfying the
  loop invariant, given that unboxed payloads are heap objects; `ptr_of_hasTy`.
  History: before fix e715c2f (`/repo`) an enum still in progress was taken for a pointer type;
  `class Nat(Z, S(Nat))` got `[Int31, Unboxed Nat]`, `S(Z)` and `Z` were both `i31 0` (finding
  C01-F1, witness corpus/C01/f1-nat.json). The check then carried `layout_injective_counterexample`
  and `_partial` versions; the model now follows the fixed code (`enumsStarted`).

K3 (tail recursion → loop, `mir_tail_recursion_rewrite.rs`; loop update `wasm_lowering.rs:437-441`):
* `tailrec_stmt_equiv` (K3b, `Model/TailStmt.lean`): the rewrite over full MIR statement lists
  (return collectors, final assignments, `Break` values, temporaries, non-tail self calls) preserves
  the function's result for all arguments and fuel, under the front-end shape `good`;
* `lowered_update_parallel`: what LIR lowering emits for the loop variables of any `While` (snapshot
  casts when a loop value is another loop variable — fix c8954cc, finding C01-F4 — then assignments in
  order) is the parallel update, whatever the optimizer made of the loop values;
* `tailrec_equiv_seq` (full strength, the loop as the backends run it), `tailrec_equiv_par`,
  `seqAssign_eq_par_partial` / `_counterexample` (why the snapshot of fix c57720b is needed),
  `swap_regression`. History: before fix c57720b (finding C01-F2) `swap(1, 2, 1)` gave 22.

K6 (string data segment, `samlang-ast/src/wasm.rs` `print_byte_vec`): `assemble_printBytes` — the WAT text of
the shared data segment assembles back to exactly the bytes, for every byte sequence.

K5 (Vec runtime, `libsam.wat` `$__Vec$*`): `wf_push`, `push_contents` (growth preserves contents),
`get_spec`, `set_spec`, `pop_spec` (in range ⇔ value; out of range — negative, `= len`, `> len` — ⇔ the
prescribed panic; never an engine trap).

K4 (constant-parameter elimination decision, `mir_constant_param_elimination.rs`):
* `meet_comm`, `meet_assoc`, `meet_idem`, `paramState_c32_sound`, `paramState_unused_sound`,
  `mem_selfCallReads` (decision kernel);
* `cpe_unused_preserves`, `cpe_const_preserves` (K4b, `Model/CpeSem.lean`): removing a parameter the
  kernel classifies `Unused` / `Int32Constant(n)` preserves printed lines and returned value of a
  self-recursive function (self calls in any position), for all arguments and fuel;
* `cpe_prog_unused_preserves`, `cpe_prog_const_preserves` (K4c, `Model/CpeProg.lean`): the same over a
  program of mutually calling functions — the parameter disappears from `g` and from every call of
  `g` in every function, and every function of the program keeps its printed lines and result;
* `cpe_prog_unused_many_preserves`: several unused parameters removed in one sweep (decision taken once on the
  original program; the shape of the remaining parameters survives each removal);
* `cpe_prog_mixed_sweep_preserves`: constant and unused parameters mixed in one sweep (`elimMany`);
* `cpe_anyslot_counterexample`: the own-slot clause of the self-call exemption is necessary (the any-slot variant
  of seeded faults C01 / C03f classifies a rotated parameter as unused and changes the result).
-/
namespace SamVerif.C01
open SamVerif.EnumLayout


/-- A source-level enum value `(tag, fields)` fits the declaration, and — the side condition that
the unboxing decision is supposed to guarantee — the payload of an unboxed variant really is a
heap object of the payload type. -/
structure FitsVal (variants : List (List Ty)) (rs : List VRepr) (tag : Nat) (fs : List RtVal) : Prop where
  arity : ∃ ts, variants[tag]? = some ts ∧ fs.length = ts.length
  payload : ∀ (t : Nat) (w : RtVal), rs[tag]? = some (.unboxed t) → fs = [w] → isPointerOf t w = true

theorem single_of_head {α} (fs : List α) (v : α) (ts : List Ty) (t : Ty)
    (hl : fs.length = ts.length) (ht : ts = [t]) (hh : fs.head? = some v) : fs = [v] := by
  subst ht
  match fs, hl, hh with
  | [x], _, hh => simpa using hh

theorem encode_injective_of_inv (P : Nat → Prop) (variants : List (List Ty)) (l : LState)
    (inv : LInv P variants l) (n : Nat)
    (t1 t2 : Nat) (fs1 fs2 : List RtVal) (v : RtVal)
    (h1 : FitsVal variants l.out t1 fs1)
    (h2 : FitsVal variants l.out t2 fs2)
    (e1 : encode n l.out t1 fs1 = some v)
    (e2 : encode n l.out t2 fs2 = some v) :
    t1 = t2 ∧ fs1 = fs2 := by
  obtain ⟨len, i31, unb, box, pend, perm⟩ := inv
  obtain ⟨⟨ts1, hv1, ha1⟩, hp1⟩ := h1
  obtain ⟨⟨ts2, hv2, ha2⟩, hp2⟩ := h2
  unfold encode at e1 e2
  generalize hrs : l.out = rs at *
  cases hr1 : rs[t1]? with
  | none => simp [hr1] at e1
  | some r1 =>
    cases hr2 : rs[t2]? with
    | none => simp [hr2] at e2
    | some r2 =>
      simp only [hr1, hr2] at e1 e2
      cases r1 with
      | int31 =>
        cases r2 with
        | int31 =>
          have := i31 t1 hr1; have := i31 t2 hr2
          simp at e1 e2
          subst e1
          have : (t1 : Int) = (t2 : Int) := by grind
          have : t1 = t2 := by omega
          subst this
          grind
        | unboxed u =>
          simp at e1 e2
          have hu := unb t2 u hr2
          have hts : ts2 = [.ref u] := by grind
          have hf := single_of_head fs2 v ts2 _ ha2 hts e2
          have := hp2 u v hr2 hf
          subst e1
          simp [isPointerOf] at this
        | boxed bs => simp at e1 e2; grind
      | unboxed u1 =>
        have hu1 := unb t1 u1 hr1
        cases r2 with
        | int31 =>
          simp at e1 e2
          have hts : ts1 = [.ref u1] := by grind
          have hf := single_of_head fs1 v ts1 _ ha1 hts e1
          have := hp1 u1 v hr1 hf
          subst e2
          simp [isPointerOf] at this
        | unboxed u2 =>
          have hu2 := unb t2 u2 hr2
          simp at e1 e2
          have : t1 = t2 := by
            by_cases h : t1 = t2
            · exact h
            · have := hu1.2.2.2 t2 (Ne.symm h) (by grind)
              grind
          subst this
          have hts : ts1 = [.ref u1] := by grind
          have hts2 : ts2 = [.ref u1] := by grind
          have hf1 := single_of_head fs1 v ts1 _ ha1 hts e1
          have hf2 := single_of_head fs2 v ts2 _ ha2 hts2 e2
          grind
        | boxed bs =>
          exfalso
          have : t2 ≠ t1 := by grind
          have := hu1.2.2.2 t2 this (by grind)
          grind
      | boxed bs1 =>
        cases r2 with
        | int31 => simp at e1 e2; grind
        | unboxed u2 =>
          exfalso
          have hu2 := unb t2 u2 hr2
          have : t1 ≠ t2 := by grind
          have := hu2.2.2.2 t1 this (by grind)
          grind
        | boxed bs2 =>
          simp at e1 e2
          subst e1
          simp at e2
          grind

/-- `decodeByTests ∘ encode = id`, pointwise: on an encoded value the test sequence of the lowered
match succeeds for exactly the variant it was built from, and binds exactly its fields. -/
theorem testVariant_exact_of_inv (P : Nat → Prop) (variants : List (List Ty)) (l : LState)
    (inv : LInv P variants l) (n : Nat)
    (tag tag' : Nat) (fs : List RtVal) (v : RtVal)
    (h : FitsVal variants l.out tag fs)
    (e : encode n l.out tag fs = some v) (ht : tag' < variants.length) :
    testVariant n l.out tag' v = if tag' = tag then some fs else none := by
  obtain ⟨len, i31, unb, box, pend, perm⟩ := inv
  obtain ⟨⟨ts, hv, ha⟩, hp⟩ := h
  unfold encode at e
  unfold testVariant
  generalize hrs : l.out = rs at *
  cases hr : rs[tag]? with
  | none => simp [hr] at e
  | some r =>
    cases hr' : rs[tag']? with
    | none => exfalso; grind
    | some r' =>
      simp only [hr] at e
      cases r with
      | int31 =>
        have hts := i31 tag hr
        have hfs : fs = [] := by
          have : ts = [] := by grind
          subst this
          simpa using ha
        simp at e
        subst e
        cases r' with
        | int31 =>
          simp only []
          by_cases hq : tag' = tag
          · subst hq; simp [hfs]
          · have : (tag : Int) ≠ (tag' : Int) := by omega
            simp [hq, this]
        | unboxed u' =>
          have : tag' ≠ tag := by grind
          simp [isPointerOf, this]
        | boxed bs =>
          have : tag' ≠ tag := by grind
          have hi : hasInt31 rs = true := by
            unfold hasInt31
            simp only [List.any_eq_true]
            exact ⟨.int31, List.mem_of_getElem? hr, by simp⟩
          simp [hi, isVariantObj, this]
      | unboxed u =>
        have hu := unb tag u hr
        have hts : ts = [.ref u] := by grind
        have hf := single_of_head fs v ts _ ha hts e
        have hptr := hp u v hr hf
        by_cases hq : tag' = tag
        · subst hq
          have : r' = .unboxed u := by grind
          subst this
          simp [hptr, hf]
        · have h31 := hu.2.2.2 tag' hq ht
          have : r' = .int31 := by grind
          subst this
          simp only [hq, if_false]
          cases v with
          | i32 k => rfl
          | i31 k => simp [isPointerOf] at hptr
          | obj ty fl => rfl
      | boxed bs =>
        simp at e
        subst e
        cases r' with
        | int31 =>
          have : tag' ≠ tag := by grind
          simp [this]
        | unboxed u' =>
          exfalso
          have hu := unb tag' u' hr'
          have : tag ≠ tag' := by grind
          have := hu.2.2.2 tag this (by grind)
          grind
        | boxed bs' =>
          by_cases hq : tag' = tag
          · subst hq
            simp [isVariantObj]
          · have : (2 * (tag : Int) + 1) ≠ (2 * (tag' : Int) + 1) := by omega
            have hq' : ¬ tag = tag' := fun h => hq h.symm
            simp [isVariantObj, hq, hq', this]

/-- Values of the closed type `n` under the finished definitions `defs`. -/
inductive HasTy (defs : List (Nat × MDef)) : Nat → RtVal → Prop where
  | struct (n k : Nat) (fs : List RtVal) :
      lookupDef defs n = some (.struct k) → HasTy defs n (.obj (.struct n) fs)
  | int31 (n : Nat) (rs : List VRepr) (tag : Nat) :
      lookupDef defs n = some (.enum rs) → rs[tag]? = some .int31 → HasTy defs n (.i31 tag)
  | boxed (n : Nat) (rs : List VRepr) (tag : Nat) (ts : List Ty) (fs : List RtVal) :
      lookupDef defs n = some (.enum rs) → rs[tag]? = some (.boxed ts) →
      HasTy defs n (.obj (.variant n tag) (.i32 (2 * tag + 1) :: fs))
  | unboxed (n : Nat) (rs : List VRepr) (tag t : Nat) (w : RtVal) :
      lookupDef defs n = some (.enum rs) → rs[tag]? = some (.unboxed t) → HasTy defs t w →
      HasTy defs n w


/-- Field values of a source-level enum value `(tag, fields)` have the declared types. -/
structure WellTyped (defs : List (Nat × MDef)) (vs : List (List Ty)) (tag : Nat) (fs : List RtVal) : Prop where
  arity : ∃ ts, vs[tag]? = some ts ∧ fs.length = ts.length
  fields : ∀ (ts : List Ty) (i t : Nat) (w : RtVal), vs[tag]? = some ts → ts[i]? = some (.ref t) →
    fs[i]? = some w → HasTy defs t w

/-- Every value of a type the specialiser classified as "always a pointer" is a heap object. -/
theorem ptr_of_hasTy {env : Env} {st : St} (g : GInv env st) {t : Nat} {w : RtVal}
    (h : Ptr env st.defs t) (hv : HasTy st.defs t w) : isPointerOf t w = true := by
  have notEnum : ∀ rs, lookupDef st.defs t = some (.enum rs) →
      ((∃ fs, bodyOf env t = some (.struct fs)) ∨ (∃ sg, bodyOf env t = some (.closure sg))) → False := by
    intro rs hl hb
    obtain ⟨vs, l, hb', _⟩ := g.enums t rs hl
    rcases hb with ⟨fs, h⟩ | ⟨sg, h⟩ <;> (rw [hb'] at h; cases h)
  match hv with
  | .struct _ k fs hl => simp [isPointerOf]
  | .boxed _ rs tag ts fs hl hr => simp [isPointerOf]
  | .int31 _ rs tag hl hr =>
    rcases h with h | h | ⟨rs', h1, h2⟩
    · exact (notEnum rs hl (Or.inl h)).elim
    · exact (notEnum rs hl (Or.inr h)).elim
    · rw [hl] at h1; cases h1
      have := (List.all_eq_true.mp h2) _ (List.mem_of_getElem? hr)
      simp [VRepr.isBoxed] at this
  | .unboxed _ rs tag t' w' hl hr hw =>
    rcases h with h | h | ⟨rs', h1, h2⟩
    · exact (notEnum rs hl (Or.inl h)).elim
    · exact (notEnum rs hl (Or.inr h)).elim
    · rw [hl] at h1; cases h1
      have := (List.all_eq_true.mp h2) _ (List.mem_of_getElem? hr)
      simp [VRepr.isBoxed] at this

theorem fits_of_wellTyped {env : Env} {st : St} (g : GInv env st) {vs : List (List Ty)} {l : LState}
    (li : LInv (Ptr env st.defs) vs l) {tag : Nat} {fs : List RtVal}
    (h : WellTyped st.defs vs tag fs) : FitsVal vs l.out tag fs := by
  refine ⟨h.arity, ?_⟩
  intro t w hr hf
  obtain ⟨hv, hp, _, _⟩ := li.unb tag t hr
  subst hf
  exact ptr_of_hasTy g hp (h.fields [.ref t] 0 t w hv rfl rfl)

/-- **layout_injective (full strength).** In every state the demand-driven specialisation reaches,
for every enum definition it produced: two well-typed source values `(tag, fields)` with the same
run-time encoding are the same value. (Before fix e715c2f this was false: `class Nat(Z, S(Nat))`
was laid out `[Int31, Unboxed Nat]` because the in-progress `Nat` was taken for a pointer type, so
`S(Z)` and `Z` were both `i31 0`; the check kept `layout_injective_counterexample` and a `_partial`
theorem then.) -/
theorem layout_injective (env : Env) (fuel : Nat) (roots : List Ty) (st : St)
    (h : demandAll env fuel roots = some st) (n : Nat) (rs : List VRepr)
    (hd : lookupDef st.defs n = some (.enum rs)) :
    ∃ vs, bodyOf env n = some (.enum vs) ∧
      ∀ (t1 t2 : Nat) (fs1 fs2 : List RtVal) (v : RtVal),
        WellTyped st.defs vs t1 fs1 → WellTyped st.defs vs t2 fs2 →
        encode n rs t1 fs1 = some v → encode n rs t2 fs2 = some v → t1 = t2 ∧ fs1 = fs2 := by
  have g := demandAll_inv env fuel roots st h
  obtain ⟨vs, l, hb, li, ho⟩ := g.enums n rs hd
  refine ⟨vs, hb, ?_⟩
  intro t1 t2 fs1 fs2 v w1 w2 e1 e2
  subst ho
  exact encode_injective_of_inv _ vs l li n t1 t2 fs1 fs2 v (fits_of_wellTyped g li w1)
    (fits_of_wellTyped g li w2) e1 e2

/-- **decode ∘ encode = id (full strength)**, pointwise: in every reachable state, on the encoding
of a well-typed value the lowered match's test for variant `tag'` succeeds iff `tag' = tag`, and
binds exactly the fields. -/
theorem lowered_tests_exact (env : Env) (fuel : Nat) (roots : List Ty) (st : St)
    (h : demandAll env fuel roots = some st) (n : Nat) (rs : List VRepr)
    (hd : lookupDef st.defs n = some (.enum rs)) :
    ∃ vs, bodyOf env n = some (.enum vs) ∧
      ∀ (tag tag' : Nat) (fs : List RtVal) (v : RtVal), WellTyped st.defs vs tag fs →
        encode n rs tag fs = some v → tag' < vs.length →
        testVariant n rs tag' v = if tag' = tag then some fs else none := by
  have g := demandAll_inv env fuel roots st h
  obtain ⟨vs, l, hb, li, ho⟩ := g.enums n rs hd
  refine ⟨vs, hb, ?_⟩
  intro tag tag' fs v w e ht
  subst ho
  exact testVariant_exact_of_inv _ vs l li n tag tag' fs v (fits_of_wellTyped g li w) e ht


end SamVerif.C01

namespace SamVerif.C01
open SamVerif.TailRec
open SamVerif.Opt (Op evalTarget)


/-- Sequential loop-variable update equals the parallel one when no loop value reads a parameter
already overwritten (the reason the snapshot of fix c57720b is only needed for permuting calls). -/
theorem seqAssign_eq_par_partial (params : List Name) (args : List Expr) (env : Env)
    (hnd : params.Nodup) (hl : args.length = params.length) (hs : noBackwardRef params args = true) :
    params.map (seqAssign env (params.zip args)) = args.map (Expr.eval env) :=
  seqAssign_eq_par params args env hnd hl hs

/-- … and differs without it: `a, b := b, a`. -/
theorem seqAssign_eq_par_counterexample :
    ∃ (params : List Name) (args : List Expr) (env : Env), params.Nodup ∧ args.length = params.length ∧
      params.map (seqAssign env (params.zip args)) ≠ args.map (Expr.eval env) :=
  ⟨[0, 1], [.var 1, .var 0], fun x => if x = 0 then 1 else 2, by decide, by decide, by decide⟩

theorem walk_next_arity (ev : Op → Int → Int → Option Int) (k : Nat) (l : LBody) :
    ∀ (env env' : Env) (args : List Expr), arityOk k l = true →
      walkLoop ev env l = some (.next env' args) → args.length = k := by
  induction l with
  | done a =>
    intro env env' args hs hw
    simp [walkLoop] at hw
    simp [arityOk] at hs
    obtain ⟨_, rfl⟩ := hw
    exact hs
  | bin x op e1 e2 b ih =>
    intro env env' args hs hw
    simp only [walkLoop] at hw
    split at hw
    · simp at hw
    · exact ih _ _ _ (by simpa [arityOk] using hs) hw
  | sif c inv v b ih =>
    intro env env' args hs hw
    simp only [walkLoop] at hw
    split at hw
    · split at hw <;> simp at hw
    · exact ih _ _ _ (by simpa [arityOk] using hs) hw
  | merge c t e _ _ =>
    intro env env' args hs hw
    simp only [walkLoop] at hw
    split at hw <;> simp at hw

/-- **tailrec_equiv with parallel update.** With all loop values read before any loop variable is
written, the rewritten loop computes what the recursion computes — for every operator semantics,
tree, all arguments and every fuel. -/
theorem tailrec_equiv_par (ev : Op → Int → Int → Option Int) (params : List Name) (b : Body) (l : LBody)
    (h : rw b = some l) :
    ∀ (fuel : Nat) (vals : List Int), runRec ev params b fuel vals = runLoop ev false params l fuel vals := by
  intro fuel
  induction fuel with
  | zero => intro vals; rfl
  | succ n ih =>
    intro vals
    simp only [runRec, runLoop]
    have r := walk_rel ev b l (bindParams params vals) h
    revert r
    generalize walkRec ev (bindParams params vals) b = a
    generalize walkLoop ev (bindParams params vals) l = c
    intro r
    cases r with
    | trap => rfl
    | value v => rfl
    | vals vs => exact ih vs
    | exprs env' args => simpa using ih _

/-- **tailrec_equiv_seq (full strength)**: the rewritten function *as the backends run it* (loop
variables assigned one after the other, `wasm_lowering.rs:437-441`) returns what the recursive
function returns — for every operator semantics, every tree the rewrite accepts, all arguments, all
fuel. Hypotheses are the MIR's own well-formedness: distinct parameter names and tail calls with
one argument per parameter. (Before fix c57720b this was false — `swap(b, a, n - 1)` became
`a = b; b = a` and `swap(1, 2, 1)` returned 22 — and the check carried
`tailrec_equiv_seq_counterexample` plus a `_partial` theorem under `safeArgs`.) -/
theorem tailrec_equiv_seq (ev : Op → Int → Int → Option Int) (params : List Name) (b : Body)
    (l : LBody) (h : rw b = some l) (hnd : params.Nodup) (har : arityOk params.length l = true) :
    ∀ (fuel : Nat) (vals : List Int), runRec ev params b fuel vals = runLoop ev true params l fuel vals := by
  intro fuel
  induction fuel with
  | zero => intro vals; rfl
  | succ n ih =>
    intro vals
    simp only [runRec, runLoop]
    have r := walk_rel ev b l (bindParams params vals) h
    have sf := walk_next_arity ev params.length l (bindParams params vals)
    revert r sf
    generalize walkRec ev (bindParams params vals) b = a
    generalize walkLoop ev (bindParams params vals) l = c
    intro r sf
    cases r with
    | trap => rfl
    | value v => rfl
    | vals vs => exact ih vs
    | exprs env' args =>
      have hlen := sf env' args har rfl
      by_cases hro : readsOther params args = true
      · simp only [hro, Bool.not_true, Bool.and_false, Bool.false_eq_true, if_false]
        exact ih _
      · have hro' : readsOther params args = false := by simpa using hro
        simp only [hro', Bool.not_false, Bool.and_true, if_true]
        have hnb := noBackwardRef_of_char params args ((readsOther_false_iff params args).mp hro')
        rw [seqAssign_eq_par params args env' hnd hlen hnb]
        exact ih _

/-- **Lowered loop update = parallel update.** What LIR lowering emits for the loop variables of a
`While` (the optional snapshot casts, then the assignments in order) gives every loop variable the
value its loop value had at the end of the iteration — whatever the loop values are. Hypotheses:
distinct loop variables, one loop value per variable, and fresh temporaries (distinct, not loop
variables, not read by the loop values). -/
theorem lowered_update_parallel (names : List Name) (args : List Expr) (temps : List Name) (env : Env)
    (hnd : names.Nodup) (hlen : args.length = names.length) (htl : temps.length = names.length)
    (htn : temps.Nodup) (hdisj : ∀ t ∈ temps, t ∉ names) (hfresh : ∀ a ∈ args, ∀ t ∈ temps, a ≠ .var t) :
    names.map (seqAssign (seqAssign env (lowerLoopUpdate names args temps).1)
        (names.zip (lowerLoopUpdate names args temps).2)) = args.map (Expr.eval env) := by
  unfold lowerLoopUpdate
  by_cases hro : readsOther names args = true
  · simp only [hro, if_true]
    -- the casts: every temporary receives the value of its loop value
    have hA := seqAssign_eq_par temps args env htn (by omega) (noBackwardRef_of_disjoint temps args hfresh)
    -- the assignments: every loop variable receives its temporary
    have hB := seqAssign_eq_par names (temps.map Expr.var) (seqAssign env (temps.zip args)) hnd
      (by simp [htl]) (noBackwardRef_of_disjoint names (temps.map Expr.var) (by
        intro a ha p hp hap
        obtain ⟨t, ht, rfl⟩ := List.mem_map.mp ha
        cases hap
        exact hdisj p ht hp))
    rw [hB, List.map_map]
    have : (Expr.eval (seqAssign env (temps.zip args)) ∘ Expr.var) = seqAssign env (temps.zip args) := by
      funext t; rfl
    rw [this]
    exact hA
  · have hro' : readsOther names args = false := by simpa using hro
    simp only [hro', Bool.false_eq_true, if_false, seqAssign]
    exact seqAssign_eq_par names args env hnd hlen
      (noBackwardRef_of_char names args ((readsOther_false_iff names args).mp hro'))


/-- `swap(a, b, n) = if n == 0 { a * 10 + b } else { swap(b, a, n - 1) }` -/
def swapBody : Body :=
  .bin 10 .eq (.var 2) (.lit 0)
    (.ite (.var 10)
      (.bin 11 .mul (.var 0) (.lit 10) (.bin 12 .add (.var 11) (.var 1) (.ret (.var 12))))
      (.bin 13 .sub (.var 2) (.lit 1) (.tail [.var 1, .var 0, .var 13])))

def swapLoop : LBody :=
  .bin 10 .eq (.var 2) (.lit 0)
    (.sif (.var 10) false
      (.bin 11 .mul (.var 0) (.lit 10) (.bin 12 .add (.var 11) (.var 1) (.ret (.var 12))))
      (.bin 13 .sub (.var 2) (.lit 1) (.done [.var 1, .var 0, .var 13])))

theorem swap_rw : rw swapBody = some swapLoop := by rfl

/-- Regression witness of C01-F2, now equal: recursion and loop both give 21. -/
theorem swap_regression :
    runRec evalTarget [0, 1, 2] swapBody 5 [1, 2, 1] = some 21 ∧
    runLoop evalTarget true [0, 1, 2] swapLoop 5 [1, 2, 1] = some 21 := by
  constructor <;> decide


theorem meet_comm (a b : PState) : meet a b = meet b a := by
  cases a <;> cases b <;> simp [meet] <;> grind

theorem meet_idem (a : PState) : meet a a = a := by
  cases a <;> simp [meet]

theorem meet_assoc (a b c : PState) : meet (meet a b) c = meet a (meet b c) := by
  cases a <;> cases b <;> cases c <;> simp [meet] <;> grind [meet]

theorem meet_unused (a b : PState) : meet a b = .unused → a = .unused ∨ b = .unused := by
  cases a <;> cases b <;> simp [meet] <;> grind

theorem meet_c32 (a b : PState) (n : Int) : meet a b = .c32 n →
    (a = .c32 n ∨ a = .referenced) ∧ (b = .c32 n ∨ b = .referenced) := by
  cases a <;> cases b <;> simp [meet] <;> grind

theorem meet_referenced (a b : PState) : meet a b = .referenced → a = .referenced ∧ b = .referenced := by
  cases a <;> cases b <;> simp [meet] <;> grind

theorem argState_ne (a : Arg) : argState a ≠ .unused ∧ argState a ≠ .referenced := by
  cases a <;> simp [argState]

theorem fold_unused (i : Nat) (sites : List (List Arg)) : ∀ (s : PState),
    sites.foldl (fun s args => match args[i]? with | some a => meet s (argState a) | none => s) s = .unused →
    s = .unused := by
  induction sites with
  | nil => intro s h; simpa using h
  | cons args rest ih =>
    intro s h
    simp only [List.foldl_cons] at h
    have := ih _ h
    cases ha : args[i]? with
    | none => simpa [ha] using this
    | some a =>
      simp only [ha] at this
      cases meet_unused _ _ this with
      | inl h => exact h
      | inr h => exact absurd h (argState_ne a).1

theorem fold_c32 (i : Nat) (n : Int) (sites : List (List Arg)) : ∀ (s : PState),
    sites.foldl (fun s args => match args[i]? with | some a => meet s (argState a) | none => s) s = .c32 n →
    (s = .c32 n ∨ s = .referenced) ∧ ∀ args ∈ sites, ∀ a, args[i]? = some a → a = .i32 n := by
  induction sites with
  | nil => intro s h; simp at h; simp [h]
  | cons args rest ih =>
    intro s h
    simp only [List.foldl_cons] at h
    have := ih _ h
    cases ha : args[i]? with
    | none =>
      simp only [ha] at this
      refine ⟨this.1, ?_⟩
      intro args' hm a' ha'
      cases List.mem_cons.mp hm with
      | inl h => subst h; simp [ha] at ha'
      | inr h => exact this.2 _ h _ ha'
    | some a =>
      simp only [ha] at this
      obtain ⟨h1, h2⟩ := this
      have hm : meet s (argState a) = .c32 n := by
        cases h1 with
        | inl h => exact h
        | inr h => exact absurd (meet_referenced _ _ h).2 (argState_ne a).2
      have hk := meet_c32 _ _ _ hm
      refine ⟨hk.1, ?_⟩
      intro args' hmem a' ha'
      cases List.mem_cons.mp hmem with
      | inl h =>
        subst h
        rw [ha] at ha'
        cases ha'
        cases hk.2 with
        | inl h => cases a <;> simp [argState] at h; subst h; rfl
        | inr h => exact absurd h (argState_ne a).2
      | inr h => exact h2 _ h _ ha'

/-- **Constant decision is sound**: a parameter is replaced by the constant `n` only if the body
reads it and *every* direct call site of the function passes the literal `n` in that position. -/
theorem paramState_c32_sound (prog : List Fn) (f : Fn) (i : Nat) (p : Name) (n : Int)
    (h : paramState prog f i p = .c32 n) :
    localState f p = .referenced ∧
      ∀ args ∈ callSites prog f.name, ∀ a, args[i]? = some a → a = .i32 n := by
  have := fold_c32 i n (callSites prog f.name) (localState f p) h
  refine ⟨?_, this.2⟩
  cases this.1 with
  | inl h1 => unfold localState at h1; split at h1 <;> simp at h1
  | inr h1 => exact h1

/-- **Unused decision is sound**: a parameter is dropped as unused only if nothing in the body
reads it except self calls that copy it to its own position. -/
theorem paramState_unused_sound (prog : List Fn) (f : Fn) (i : Nat) (p : Name)
    (h : paramState prog f i p = .unused) : p ∉ localReads f := by
  have := fold_unused i (callSites prog f.name) (localState f p) h
  unfold localState at this
  split at this
  · simp at this
  · simpa using ‹¬ (localReads f).contains p = true›

/-- The self-call exemption (l.94-104), stated independently: a name counts as read by a self call
iff it is passed in some position that is not its own. -/
theorem mem_selfCallReads (params : List Name) (args : List Arg) (x : Name) :
    x ∈ selfCallReads params args ↔ ∃ j : Nat, args[j]? = some (Arg.var x) ∧ params[j]? ≠ some x :=
  mem_selfCallReads_iff params args x

section
open SamVerif.CpeSem

/-- The function as the decision kernel sees it. -/
def fnOf (self : Nat) (params : List Name) (body : CBody) : Fn :=
  { name := self, params := params, atoms := atomsOf self body }

/-- **Eliminating a parameter classified `Unused` preserves behaviour.** For every operator
semantics, every self-recursive function of the fragment (self calls in any position, prints,
if-else), every program around it: if the decision kernel ends with `Unused` for parameter `i`, the
function with that parameter removed from its signature and from every self call prints the same
lines and returns the same value — for all arguments and all fuel. (Hypotheses besides the
decision: MIR well-formedness — distinct parameter names, parameters never assigned, self calls
with one argument per parameter.) -/
theorem cpe_unused_preserves (ev : Op → Int → Int → Option Int) (prog : List Fn) (self : Nat)
    (hself : self ≠ 999) (params : List Name) (body : CBody) (i : Nat) (p : Name)
    (hp : params[i]? = some p) (hnd : params.Nodup)
    (hdec : paramState prog (fnOf self params body) i p = .unused)
    (hass : assigns p body = false) (har : callsArity params.length body = true) :
    ∀ (fuel : Nat) (vals : List Int),
      run ev params body fuel vals =
        run ev (params.eraseIdx i) (dropArg i body) fuel (vals.eraseIdx i) := by
  intro fuel vals
  have hr : p ∉ readsOf self params body := by
    have := paramState_unused_sound prog (fnOf self params body) i p hdec
    simpa [fnOf, localReads_eq] using this
  have hok := okUnused_of_reads self hself params p i hp hnd body hr hass har
  exact exec_drop ev params body p i hp hnd hok fuel body _ _ [] (bindParams_erase p params vals i hp hnd) hok

/-- **Eliminating a parameter classified `Int32Constant(n)` preserves behaviour.** If the decision
kernel ends with the constant `n` for parameter `i` of a function that is part of the program, then
— whenever the function is entered with `n` in that position, which is what every call site does
(`paramState_c32_sound`) — the function with the parameter replaced by the literal and removed from
its signature and from every self call behaves the same, for all other arguments and all fuel. -/
theorem cpe_const_preserves (ev : Op → Int → Int → Option Int) (prog : List Fn) (self : Nat)
    (hself : self ≠ 999) (params : List Name) (body : CBody) (i : Nat) (p : Name) (n : Int)
    (hp : params[i]? = some p) (hnd : params.Nodup)
    (hmem : fnOf self params body ∈ prog)
    (hdec : paramState prog (fnOf self params body) i p = .c32 n)
    (hass : assigns p body = false) (har : callsArity params.length body = true) :
    ∀ (fuel : Nat) (vals : List Int), vals[i]? = some n →
      run ev params body fuel vals =
        run ev (params.eraseIdx i) (dropArg i (substVar p n body)) fuel (vals.eraseIdx i) := by
  intro fuel vals hv
  have hsites := (paramState_c32_sound prog (fnOf self params body) i p n hdec).2
  have hi : i < params.length := (List.getElem?_eq_some_iff.mp hp).1
  have hok : okConst p i n params.length body := by
    apply okConst_of_calls p i n params.length hi body _ hass har
    intro args hargs a ha
    apply hsites (args.map exprArg) _ a ha
    simp only [callSites, List.mem_flatMap, List.mem_filterMap]
    refine ⟨fnOf self params body, hmem, .call self (args.map exprArg), ?_, by simp [fnOf]⟩
    exact selfCalls_atoms self hself body args hargs
  exact exec_subst ev params body p i n hp hnd hok fuel body _ _ [] (bindParams_erase p params vals i hp hnd)
    (bindParams_get p params vals i n hp hnd hv) hok

end

end SamVerif.C01

namespace SamVerif.C01
open SamVerif.TailStmt
open SamVerif.TailRec (Name Expr Env upd bindParams seqAssign readsOther)
open SamVerif.Opt (Op evalTarget)

theorem runRec_lit (ev : Op → Int → Int → Option Int) (f : Fn) (m : Int) (hr : f.ret = .lit m) :
    ∀ (fuel : Nat) (vals : List Int) (v : Int), runRec ev f fuel vals = some v → v = m := by
  intro fuel vals v h
  cases fuel with
  | zero => simp [runRec] at h
  | succ k =>
    simp only [runRec] at h
    split at h
    · simp [hr, Expr.eval] at h; exact h.symm
    · cases h

/-- **tailrec_equiv over full statement lists.** For every operator semantics (in which `0 + 0`
does not trap) and every function `f` of the MIR fragment (Binary, Cast, self calls anywhere,
IfElse with final assignments) that the tail-recursion rewrite accepts: the rewritten `While` form
— as the backends run it — returns exactly what the recursive function returns, for all arguments
and all fuel. Hypotheses: distinct parameter names and the front-end shape `good` (final
assignments have distinct names, tail calls are well-typed and their collector is not among their
own arguments, a branch whose value is a literal does not end in a result-dropping self call). -/
theorem tailrec_stmt_equiv (ev : Op → Int → Int → Option Int) (hadd : (ev .add 0 0).isSome = true)
    (f : Fn) (lf : LoopFn) (h : rewriteFn f = some lf) (hp : plain f.body = true)
    (hg : good f.params.length f.body (asVar f.ret) = true) (hnd : f.params.Nodup) :
    ∀ (fuel : Nat) (vals : List Int), runRec ev f fuel vals = runLoop ev lf fuel vals := by
  unfold rewriteFn at h
  cases hrw : tryRw f.params.length f.body (asVar f.ret) 0 with
  | none => simp [hrw] at h
  | some res =>
    obtain ⟨stmts, args, n⟩ := res
    simp only [hrw, Option.some.injEq] at h
    subst h
    have hlen : args.length = f.params.length :=
      tryRw_args_length f.params.length f.body (asVar f.ret) 0 (stmts, args, n) hrw hg
    intro fuel
    induction fuel with
    | zero => intro vals; rfl
    | succ k ih =>
      intro vals
      have hc : runLoop ev ⟨f.params, stmts, args, readsOther f.params args, n, asVar f.ret, f.ret⟩ k =
          runRec ev f k := funext (fun v => (ih v).symm)
      simp only [runRec, runLoop]
      rw [hc]
      have hcore := core ev (runRec ev f k) f.params.length (fun _ _ => trivial) hadd f.body
        (asVar f.ret) 0 (stmts, args, n) hrw hp hg (bindParams f.params vals)
      simp only at hcore
      revert hcore
      generalize execBlk ev (runRec ev f k) (bindParams f.params vals) f.body = r
      generalize execBlk ev (runRec ev f k) (bindParams f.params vals) stmts = l
      intro hcore
      cases l with
      | none =>
        have : r = none := hcore
        subst this; rfl
      | some fl =>
        cases fl with
        | broke v =>
          obtain ⟨env', rfl, hv⟩ : ∃ env', r = some (.next env') ∧ ∀ x, asVar f.ret = some x → env' x = v := hcore
          cases hr : f.ret with
          | lit m => simp [Expr.eval]
          | var x => simp [Expr.eval, hv x (by simp [hr, asVar])]
        | next e2 =>
          -- the loop values, assigned sequentially or through the snapshot, are the argument values
          have hnext : (if readsOther f.params args = true then
                runRec ev f k (args.map (Expr.eval e2))
              else runRec ev f k (f.params.map (seqAssign e2 (f.params.zip args)))) =
              runRec ev f k (args.map (Expr.eval e2)) := by
            split
            · rfl
            · rename_i hro
              have hro' : readsOther f.params args = false := by simpa using hro
              have hnb := TailRec.noBackwardRef_of_char f.params args
                ((TailRec.readsOther_false_iff f.params args).mp hro')
              rw [TailRec.seqAssign_eq_par f.params args e2 hnd hlen hnb]
          simp only [hnext]
          cases hcal : runRec ev f k (args.map (Expr.eval e2)) with
          | none =>
            have : r = none := by simpa [RelL, hcal] using hcore
            subst this; rfl
          | some rv =>
            obtain ⟨env', rfl, hv⟩ : ∃ env', r = some (.next env') ∧ ∀ x, asVar f.ret = some x → env' x = rv := by
              simpa [RelL, hcal] using hcore
            cases hr : f.ret with
            | lit m =>
              have := runRec_lit ev f m hr k _ rv hcal
              simp [Expr.eval, this]
            | var x => simp [Expr.eval, hv x (by simp [hr, asVar])]


/-- swap(a, b, n) with its full plumbing: `c = (n == 0); if c { t = a * 10; r1 = t + b } else { m = n - 1;
r2 = swap(b, a, m) } finals res = r1 | r2; return res` -/
def swapFn : TailStmt.Fn :=
  { params := [0, 1, 2],
    body := .bin 10 .eq (.var 2) (.lit 0)
      (.ifElse (.var 10)
        (.bin 11 .mul (.var 0) (.lit 10) (.bin 12 .add (.var 11) (.var 1) .done))
        (.bin 13 .sub (.var 2) (.lit 1) (.call [.var 1, .var 0, .var 13] (some 14) .done))
        [(15, .var 12, .var 14)] .done),
    ret := .var 15 }
example : (rewriteFn swapFn).isSome = true := by decide
example : plain swapFn.body = true ∧ good 3 swapFn.body (asVar swapFn.ret) = true := by decide
example : (rewriteFn swapFn).map (·.snapshot) = some true := by decide

end SamVerif.C01

namespace SamVerif.C01
open SamVerif.TailRec
open SamVerif.Opt (Op evalTarget)

/-! ## Non-vacuity -/
section
open SamVerif.EnumLayout
-- `class Nat(Z, S(Nat))` (type 0) and `class P(val n: Nat)` (type 1), `Opt<P>` (type 2), `Opt<Opt<P>>` (3)
def demoEnv : EnumLayout.Env :=
  [ { targs := [], body := .enum [[], [.ref 0]] },
    { targs := [], body := .struct [.ref 0] },
    { targs := [.ref 1], body := .enum [[], [.ref 1]] },
    { targs := [.ref 2], body := .enum [[], [.ref 2]] } ]
-- the specialiser terminates on it and produces: Nat boxed (in progress when decided),
-- Opt<P> unboxed (P finished struct), Opt<Opt<P>> boxed (payload has an Int31 variant)
example : (demandAll demoEnv 20 [.ref 3]).map (fun st => st.defs) =
    some [(3, .enum [.int31, .boxed [.int, .ref 2]]), (2, .enum [.int31, .unboxed 1]), (1, .struct 1),
          (0, .enum [.int31, .boxed [.int, .ref 0]])] := by decide
example : typePermit { names := [1, 0], defs := [(1, .struct 1)] } (.ref 1) = true := by decide
-- the in-progress enum is no longer taken for a pointer type
example : typePermit { names := [0], enumsStarted := [0] } (.ref 0) = false := by decide
example : WellTyped [(1, .struct 1)] [[], [.ref 1]] 1 [.obj (.struct 1) [.i32 5]] :=
  ⟨⟨[.ref 1], rfl, rfl⟩, by
    intro ts i t w h1 h2 h3
    simp at h1; subst h1
    cases i with
    | zero => simp at h2 h3; subst h2; subst h3; exact HasTy.struct 1 1 _ rfl
    | succ k => simp at h2⟩
end
-- an accumulator loop and the swap both satisfy the hypotheses of `tailrec_equiv_seq`
example : arityOk 3 swapLoop = true := by decide
example : readsOther [0, 1, 2] [.var 1, .var 0, .var 13] = true := by decide
example : readsOther [0, 1, 2] [.var 0, .var 12, .var 13] = false := by decide
example : [0, 1, 2].Nodup := by decide
example : runRec evalTarget [0, 1, 2] swapBody 5 [1, 2, 2] = some 12 := by decide
section
open SamVerif.CpeSem
-- g(n, c, dead) = if n <= 0 { 0 } else { let r = g(n - 1, 5, dead); print(n, c); c * n + r }, called as g(3, 5, 78)
def gBody : CBody :=
  .bin 10 .le (.var 0) (.lit 0)
    (.ite (.var 10) (.ret (.lit 0))
      (.bin 11 .sub (.var 0) (.lit 1)
        (.call 12 [.var 11, .lit 5, .var 2]
          (.print [.var 0, .var 1]
            (.bin 13 .mul (.var 1) (.var 0) (.bin 14 .add (.var 13) (.var 12) (.ret (.var 14))))))))
def gProg : List Fn :=
  [{ name := 0, params := [], atoms := [.call 1 [.i32 3, .i32 5, .i32 78]] }, fnOf 1 [0, 1, 2] gBody]
-- the hypotheses of both theorems are satisfiable: `dead` is Unused, `c` is the constant 5
example : paramState gProg (fnOf 1 [0, 1, 2] gBody) 2 2 = .unused := by decide
example : paramState gProg (fnOf 1 [0, 1, 2] gBody) 1 1 = .c32 5 := by decide
example : paramState gProg (fnOf 1 [0, 1, 2] gBody) 0 0 = .unopt := by decide
example : assigns 2 gBody = false ∧ assigns 1 gBody = false ∧ callsArity 3 gBody = true := by decide
example : fnOf 1 [0, 1, 2] gBody ∈ gProg := by simp [gProg]
end
-- rotation f(n, a, b) -> f(n - 1, b, a): both parameters are read (seeded fault C01: they must be kept)
example : selfCallReads [0, 1, 2] [.var 9, .var 2, .var 1] = [9, 2, 1] := by decide
example : selfCallReads [0, 1, 2] [.var 9, .var 1, .var 2] = [9] := by decide
example : meet .referenced (.c32 5) = .c32 5 := by decide

end SamVerif.C01

namespace SamVerif.C01
open SamVerif.TailRec SamVerif.CpeProg
open SamVerif.Opt (Op)

theorem lookup_of_mem (prog : Prog) (hu : (prog.map (·.name)).Nodup) (fn : PFn) (hm : fn ∈ prog) :
    lookup prog fn.name = some fn := by
  unfold lookup
  induction prog with
  | nil => cases hm
  | cons f rest ih =>
    simp only [List.map_cons, List.nodup_cons] at hu
    simp only [List.find?_cons]
    rcases List.mem_cons.mp hm with h | h
    · subst h; simp
    · have hne : f.name ≠ fn.name := fun hq => hu.1 (by rw [hq]; exact List.mem_map_of_mem h)
      have : (f.name == fn.name) = false := by simpa using hne
      simp only [this]
      exact ih hu.2 h

/-- Well-formedness of the program with respect to the eliminated parameter: function names are
unique, the parameter is never assigned inside `g`, and every call of `g` anywhere passes one
argument per parameter. -/
structure ProgWf (prog : Prog) (g kg : Nat) (p : Name) : Prop where
  unique : (prog.map (·.name)).Nodup
  arity : ∀ fn ∈ prog, callsArityG g kg fn.body = true
  noAssign : ∀ fn ∈ prog, fn.name = g → assignsP p fn.body = false

/-- **Eliminating an `Unused` parameter from a program of mutually calling functions preserves the
behaviour of every function.** If the decision kernel, run on the summary of the whole program,
ends with `Unused` for parameter `i` of `g`, then after removing it from `g`'s signature and from
every call of `g` in every function, each function of the program prints the same lines and
returns the same value (a caller of `g` itself drops the argument), for all arguments and fuel. -/
theorem cpe_prog_unused_preserves (ev : Op → Int → Int → Option Int) (prog : Prog) (g i : Nat)
    (hg9 : g ≠ 999) (gfn : PFn) (p : Name)
    (hg : lookup prog g = some gfn) (hp : gfn.params[i]? = some p) (hnd : gfn.params.Nodup)
    (hdec : paramState (prog.map CpeProg.fnOf) (CpeProg.fnOf gfn) i p = .unused)
    (hwf : ProgWf prog g gfn.params.length p) :
    ∀ (h : Nat) (fuel : Nat) (vals : List Int),
      run ev prog h fuel vals =
        run ev (dropParam g i prog) h fuel (if h = g then vals.eraseIdx i else vals) := by
  have hgm := lookup_mem hg
  have hr : p ∉ readsOf gfn.name gfn.params gfn.body := by
    have := paramState_unused_sound (prog.map CpeProg.fnOf) (CpeProg.fnOf gfn) i p hdec
    simpa [localReads_fnOf] using this
  have hsame : ∀ fn ∈ prog, fn.name = g → fn = gfn := by
    intro fn hfn hn
    have := lookup_of_mem prog hwf.unique fn hfn
    rw [hn, hg] at this
    exact (Option.some.inj this).symm
  have hall : ∀ fn ∈ prog, okU g i gfn.params.length (hideOf g p fn) fn.body := by
    intro fn hfn
    by_cases hn : fn.name = g
    · have := hsame fn hfn hn
      subst this
      simp only [hideOf, hn, if_true]
      exact okU_of_reads g hg9 fn.params p i hp hnd fn.body (by simpa [hgm.2] using hr)
        (hwf.noAssign fn hfn hn) (hwf.arity fn hfn)
    · simp only [hideOf, hn, if_false]
      exact okU_none g i gfn.params.length fn.body (hwf.arity fn hfn)
  intro h fuel vals
  unfold run
  have hlk : lookup (dropParam g i prog) h = (lookup prog h).map (fun fn : PFn =>
      ({ fn with params := if fn.name = g then fn.params.eraseIdx i else fn.params,
                 body := dropArgs g i fn.body } : PFn)) :=
    lookup_map prog (fun fn : PFn =>
      ({ fn with params := if fn.name = g then fn.params.eraseIdx i else fn.params,
                 body := dropArgs g i fn.body } : PFn)) (fun _ => rfl) h
  rw [hlk]
  cases hl : lookup prog h with
  | none => rfl
  | some fn =>
    have hm := lookup_mem hl
    simp only [Option.map_some]
    by_cases hhg : h = g
    · subst hhg
      have hfn : fn = gfn := by rw [hl] at hg; exact Option.some.inj hg
      subst hfn
      simp only [hm.2, if_true]
      exact exec_dropParam ev prog h i fn p hl hp hnd hall fuel fn.body (some p) _ _ []
        (agreeH_of_agree (CpeSem.bindParams_erase p fn.params vals i hp hnd))
        (by have := hall fn hm.1; simpa [hideOf, hm.2] using this)
    · have hne : fn.name ≠ g := fun hq => hhg (hm.2.symm.trans hq)
      simp only [hne, hhg, if_false]
      exact exec_dropParam ev prog g i gfn p hg hp hnd hall fuel fn.body none _ _ []
        (agreeH_refl _) (by have := hall fn hm.1; simpa [hideOf, hne] using this)

/-- **Eliminating a parameter classified `Int32Constant(n)` from a program preserves the behaviour of
every function**, provided `g` is entered from outside with `n` in that position (every call site
inside the program passes the literal, by `paramState_c32_sound`). -/
theorem cpe_prog_const_preserves (ev : Op → Int → Int → Option Int) (prog : Prog) (g i : Nat)
    (hg9 : g ≠ 999) (gfn : PFn) (p : Name) (n : Int)
    (hg : lookup prog g = some gfn) (hp : gfn.params[i]? = some p) (hnd : gfn.params.Nodup)
    (hdec : paramState (prog.map CpeProg.fnOf) (CpeProg.fnOf gfn) i p = .c32 n)
    (hwf : ProgWf prog g gfn.params.length p) :
    ∀ (h : Nat) (fuel : Nat) (vals : List Int), (h = g → vals[i]? = some n) →
      run ev prog h fuel vals =
        run ev (substParam g i p n prog) h fuel (if h = g then vals.eraseIdx i else vals) := by
  have hgm := lookup_mem hg
  have hi : i < gfn.params.length := (List.getElem?_eq_some_iff.mp hp).1
  have hsites := (paramState_c32_sound (prog.map CpeProg.fnOf) (CpeProg.fnOf gfn) i p n hdec).2
  have hsame : ∀ fn ∈ prog, fn.name = g → fn = gfn := by
    intro fn hfn hn
    have := lookup_of_mem prog hwf.unique fn hfn
    rw [hn, hg] at this
    exact (Option.some.inj this).symm
  have hall : ∀ fn ∈ prog, okC g i gfn.params.length n (hideOf g p fn) fn.body := by
    intro fn hfn
    apply okC_of_calls g i gfn.params.length n _ hi fn.body
    · intro args hargs a ha
      apply hsites (args.map CpeSem.exprArg) _ a ha
      simp only [callSites, List.mem_flatMap, List.mem_filterMap, List.mem_map]
      refine ⟨CpeProg.fnOf fn, ⟨fn, hfn, rfl⟩, .call g (args.map CpeSem.exprArg), ?_, by simp [CpeProg.fnOf, hgm.2]⟩
      exact callsOf_atoms g hg9 fn.body args hargs
    · intro q hq
      by_cases hn : fn.name = g
      · simp only [hideOf, hn, if_true, Option.some.injEq] at hq
        subst hq
        exact hwf.noAssign fn hfn hn
      · simp [hideOf, hn] at hq
    · exact hwf.arity fn hfn
  intro h fuel vals hv
  have hsim := exec_substParam ev prog g i gfn p n hg hp hnd hall fuel
  unfold run
  have hlk : lookup (substParam g i p n prog) h = (lookup prog h).map (fun fn : PFn =>
      ({ fn with params := if fn.name = g then fn.params.eraseIdx i else fn.params,
                 body := dropArgs g i (if fn.name = g then substVar p n fn.body else fn.body) } : PFn)) :=
    lookup_map prog (fun fn : PFn =>
      ({ fn with params := if fn.name = g then fn.params.eraseIdx i else fn.params,
                 body := dropArgs g i (if fn.name = g then substVar p n fn.body else fn.body) } : PFn))
      (fun _ => rfl) h
  rw [hlk]
  cases hl : lookup prog h with
  | none => rfl
  | some fn =>
    have hm := lookup_mem hl
    simp only [Option.map_some]
    by_cases hhg : h = g
    · subst hhg
      have hfn : fn = gfn := by rw [hl] at hg; exact Option.some.inj hg
      subst hfn
      simp only [hm.2, if_true]
      exact hsim.1 fn.body _ _ [] (CpeSem.bindParams_erase p fn.params vals i hp hnd)
        (CpeSem.bindParams_get p fn.params vals i n hp hnd (hv rfl))
        (by have := hall fn hm.1; simpa [hideOf, hm.2] using this)
    · have hne : fn.name ≠ g := fun hq => hhg (hm.2.symm.trans hq)
      simp only [hne, hhg, if_false]
      exact hsim.2 fn.body _ [] (by have := hall fn hm.1; simpa [hideOf, hne] using this)


/-- `h(k, a, b) = if k <= 0 { 0 } else { let r = g(k - 1, b, a, 7); print(k, a); r + 1 }` and
`g(k, a, b, c) = if k <= 0 { c } else { let r = h(k - 1, a, b); r + c }`, entered as `h(3, 1, 2)`:
`c` of `g` is the constant 7. -/
def hgProg : Prog :=
  [ { name := 0, params := [], body := .call 20 1 [.lit 3, .lit 1, .lit 2] (.ret (.var 20)) },
    { name := 1, params := [0, 1, 2],
      body := .bin 10 .le (.var 0) (.lit 0) (.ite (.var 10) (.ret (.lit 0))
        (.bin 11 .sub (.var 0) (.lit 1) (.call 12 2 [.var 11, .var 2, .var 1, .lit 7]
          (.print [.var 0, .var 1] (.bin 13 .add (.var 12) (.lit 1) (.ret (.var 13))))))) },
    { name := 2, params := [0, 1, 2, 3],
      body := .bin 10 .le (.var 0) (.lit 0) (.ite (.var 10) (.ret (.var 3))
        (.bin 11 .sub (.var 0) (.lit 1) (.call 12 1 [.var 11, .var 1, .var 2]
          (.bin 13 .add (.var 12) (.var 3) (.ret (.var 13)))))) } ]
example : paramState (hgProg.map CpeProg.fnOf) (CpeProg.fnOf (hgProg[2]!)) 3 3 = .c32 7 := by decide
example : (hgProg.map (·.name)).Nodup := by decide
example : hgProg.all (fun fn => callsArityG 2 4 fn.body) = true := by decide

end SamVerif.C01

/-! ## K1: the unboxing rule, stated (round 6) -/
namespace SamVerif.C01
open SamVerif.EnumLayout

/-- **The unboxing rule for a finished payload enum, stated**: `type_permit_enum_boxed_optimization`
allows a single-payload variant to be unboxed over a finished enum iff that enum has neither an
`Int31` nor an `Unboxed` variant, i.e. all its variants are `Boxed` (seeded faults C01d / C03g each
drop one half of this). `layout_injective` / `lowered_tests_exact` rest on it through
`typePermit_ptr` (hypothesis there: the state satisfies `GInv`, which `demandAll` guarantees). -/
theorem typePermit_finished_enum_iff (st : St) (n : Nat) (rs : List VRepr)
    (h : lookupDef st.defs n = some (.enum rs)) :
    typePermit st (.ref n) = true ↔ (.int31 ∉ rs ∧ ∀ t, .unboxed t ∉ rs) := by
  simp only [typePermit, h, List.all_eq_true]
  constructor
  · intro hall
    exact ⟨fun hm => by simpa [VRepr.isBoxed] using hall _ hm,
      fun t hm => by simpa [VRepr.isBoxed] using hall _ hm⟩
  · rintro ⟨h1, h2⟩ r hr
    cases r with
    | int31 => exact absurd hr h1
    | unboxed t => exact absurd hr (h2 t)
    | boxed ts => rfl

/-- Necessity, `Int31` half: unboxing `Some(_)` over a payload enum with a constant variant
(`Opt<Opt<P>>` with inner `[Int31, Unboxed P]`) makes `Some(None)` and `None` the same value. -/
theorem unboxed_over_int31_payload_counterexample :
    encode 2 [.int31, .unboxed 1] 0 [] = encode 2 [.int31, .unboxed 1] 1 [.i31 0] ∧
    HasTy [(1, .enum [.int31, .unboxed 0]), (0, .struct 1)] 1 (.i31 0) :=
  ⟨rfl, HasTy.int31 1 [.int31, .unboxed 0] 0 (by decide) (by decide)⟩

/-- Necessity, `Unboxed` half (the shape of C01d / C03g): `class Tagged(Only(Point))` is laid out
`[Unboxed Point]`; unboxing `Some(Tagged)` in `Option<Tagged>` gives `Some(Only(pt)) = pt`, a
`Point` object, on which the lowered test `ref.test Tagged` of the `Some` arm fails: the match no
longer recognises the value it was built from. -/
theorem unboxed_over_unboxed_payload_counterexample :
    encode 2 [.int31, .unboxed 1] 1 [.obj (.struct 0) [.i32 3]] = some (.obj (.struct 0) [.i32 3]) ∧
    HasTy [(1, .enum [.unboxed 0]), (0, .struct 1)] 1 (.obj (.struct 0) [.i32 3]) ∧
    testVariant 2 [.int31, .unboxed 1] 1 (.obj (.struct 0) [.i32 3]) = none := by
  refine ⟨rfl, ?_, rfl⟩
  exact HasTy.unboxed 1 [.unboxed 0] 0 0 _ (by decide) (by decide) (HasTy.struct 0 1 _ (by decide))

end SamVerif.C01

/-! ## K4 round 6: the own-slot clause is necessary; several parameters at once -/
namespace SamVerif.C01
open SamVerif.TailRec SamVerif.CpeSem
open SamVerif.Opt (Op evalTarget)


/-- The variant of the self-call exemption that seeded faults C01 / C03f put in place of
`selfCallReads`: an argument is skipped as soon as it is *some* parameter, in any slot. -/
def selfCallReadsAnySlot (params : List Name) (args : List Arg) : List Name :=
  args.filterMap fun a => match a with
    | .var x => if params.contains x then none else some x
    | _ => none

/-- `rot(n, a, b) = if n <= 0 { a } else { rot(n - 1, b, a) }`: `b` is only ever passed on, into `a`'s slot. -/
def rotBody : CBody :=
  .bin 10 .le (.var 0) (.lit 0)
    (.ite (.var 10) (.ret (.var 1))
      (.bin 11 .sub (.var 0) (.lit 1) (.call 12 [.var 11, .var 2, .var 1] (.ret (.var 12)))))

/-- **The own-slot clause is necessary.** With the any-slot variant `b` is read by nothing (so it
would be classified `Unused`), the real rule classifies it `Referenced`, and removing it changes
the result: `rot(1, 5, 7)` is 7, the function without `b` returns 0. -/
theorem cpe_anyslot_counterexample :
    selfCallReadsAnySlot [0, 1, 2] [.var 11, .var 2, .var 1] = [11] ∧
    localState (fnOf 1 [0, 1, 2] rotBody) 2 = .referenced ∧
    run evalTarget [0, 1, 2] rotBody 3 [1, 5, 7] = some ([], 7) ∧
    run evalTarget ([0, 1, 2].eraseIdx 2) (dropArg 2 rotBody) 3 ([1, 5, 7].eraseIdx 2) = some ([], 0) := by
  refine ⟨by decide, by decide, ?_, ?_⟩
  · simp [run, rotBody, exec, bindParams, upd, Expr.eval, evalTarget, Opt.b2i, Opt.wrap32]
  · simp [run, rotBody, dropArg, exec, bindParams, upd, Expr.eval, evalTarget, Opt.b2i, Opt.wrap32]


end SamVerif.C01

namespace SamVerif.C01
open SamVerif.TailRec SamVerif.CpeProg
open SamVerif.Opt (Op)


/-- Every index of `is` names a parameter of `gfn` for which the whole program has the
"cannot be observed" shape (what the decision `Unused` establishes: `okU_of_reads`, `okU_none`). -/
def AllUnusedShape (prog : Prog) (g : Nat) (gfn : PFn) (is : List Nat) : Prop :=
  ∀ i ∈ is, ∃ p, gfn.params[i]? = some p ∧
    ∀ fn ∈ prog, okU g i gfn.params.length (hideOf g p fn) fn.body

/-- **Composition: eliminating several unused parameters.** If the parameters `is` of `g` (listed
from the highest index down, as `rewrite_sources` removes them in one sweep) all have the
unused shape *in the original program* — the decision is taken once, before any rewriting — then
removing all of them keeps the printed lines and the result of every function of the program.
The proof removes them one at a time and shows that the shape of the remaining ones survives each
removal (`okU_dropArgs`), i.e. eliminating in sequence is justified by the one-shot decision. -/
theorem cpe_prog_unused_many_preserves (ev : Op → Int → Int → Option Int) (g : Nat) :
    ∀ (is : List Nat) (prog : Prog) (gfn : PFn), lookup prog g = some gfn → gfn.params.Nodup →
      is.Pairwise (· > ·) → AllUnusedShape prog g gfn is →
      ∀ (h : Nat) (fuel : Nat) (vals : List Int),
        run ev prog h fuel vals =
          run ev (dropMany g is prog) h fuel (if h = g then eraseMany is vals else vals) := by
  intro is
  induction is with
  | nil => intro prog gfn _ _ _ _ h fuel vals; simp [dropMany, eraseMany]
  | cons i rest ih =>
    intro prog gfn hg hnd hpw hsh h fuel vals
    obtain ⟨p, hp, hall⟩ := hsh i (List.mem_cons_self ..)
    have hi : i < gfn.params.length := (List.getElem?_eq_some_iff.mp hp).1
    have hgm := lookup_mem hg
    rw [run_dropParam ev prog g i gfn p hg hp hnd hall h fuel vals]
    -- the program after the first removal
    let T : PFn → PFn := fun fn =>
      { fn with params := if fn.name = g then fn.params.eraseIdx i else fn.params,
                body := dropArgs g i fn.body }
    have hg' : lookup (dropParam g i prog) g = some (T gfn) := by
      have := lookup_map prog T (fun _ => rfl) g
      rw [hg] at this
      exact this
    have hpar : (T gfn).params = gfn.params.eraseIdx i := by simp [T, hgm.2]
    have hnd' : (T gfn).params.Nodup := by
      rw [hpar]; exact hnd.sublist (List.eraseIdx_sublist ..)
    have hpw' := (List.pairwise_cons.mp hpw)
    have hsh' : AllUnusedShape (dropParam g i prog) g (T gfn) rest := by
      intro j hj
      have hji : j < i := hpw'.1 j hj
      obtain ⟨q, hq, hallq⟩ := hsh j (List.mem_cons_of_mem _ hj)
      refine ⟨q, ?_, ?_⟩
      · rw [hpar, List.getElem?_eraseIdx]; simp [hji, hq]
      · intro fn' hfn'
        obtain ⟨fn, hfn, rfl⟩ := List.mem_map.mp hfn'
        have hlen : (T gfn).params.length = gfn.params.length - 1 := by
          rw [hpar, List.length_eraseIdx]; simp [hi]
        rw [hlen]
        have := okU_dropArgs g i j gfn.params.length (hideOf g q fn) hji hi fn.body (hallq fn hfn)
        simpa [T, hideOf] using this
    have := ih (dropParam g i prog) (T gfn) hg' hnd' hpw'.2 hsh' h fuel (if h = g then vals.eraseIdx i else vals)
    rw [this]
    by_cases hh : h = g <;> simp [hh, dropMany, eraseMany]


-- non-vacuity: in `hgProg` nothing is unused, so the empty list; and a two-parameter instance
example : AllUnusedShape hgProg 2 (hgProg[2]!) [] := fun _ h => by cases h

end SamVerif.C01

/-! ## K4c: constant and unused parameters mixed in one sweep (round 6) -/
namespace SamVerif.C01
open SamVerif.TailRec SamVerif.CpeProg
open SamVerif.Opt (Op)

/-- The shape the decision establishes for one eliminated parameter, in the whole program. -/
def ElimShape (prog : Prog) (g : Nat) (gfn : PFn) : Elim → Prop
  | .unused i => ∃ p, gfn.params[i]? = some p ∧
      ∀ fn ∈ prog, okU g i gfn.params.length (hideOf g p fn) fn.body
  | .const i n => ∃ p, gfn.params[i]? = some p ∧
      ∀ fn ∈ prog, okC g i gfn.params.length n (hideOf g p fn) fn.body

/-- **Composition: constant and unused parameters mixed in one sweep.** If every parameter in `es`
(highest index first) has, in the *original* program, the shape its classification establishes
(`Unused`: `okU`; `Int32Constant(n)`: `okC`), then the whole sweep — dropping the unused ones,
substituting and dropping the constant ones — keeps the printed lines and the result of every
function, provided `g` is entered from outside with the constants in their positions. -/
theorem cpe_prog_mixed_sweep_preserves (ev : Op → Int → Int → Option Int) (g : Nat) :
    ∀ (es : List Elim) (prog : Prog) (gfn : PFn), lookup prog g = some gfn → gfn.params.Nodup →
      (es.map Elim.idx).Pairwise (· > ·) → (∀ e ∈ es, ElimShape prog g gfn e) →
      ∀ (h : Nat) (fuel : Nat) (vals : List Int),
        (h = g → ∀ i n, Elim.const i n ∈ es → vals[i]? = some n) →
        run ev prog h fuel vals =
          run ev (elimMany g es gfn.params prog) h fuel
            (if h = g then eraseMany (es.map Elim.idx) vals else vals) := by
  intro es
  induction es with
  | nil => intro prog gfn _ _ _ _ h fuel vals _; simp [elimMany, eraseMany]
  | cons e rest ih =>
    intro prog gfn hg hnd hpw hsh h fuel vals hv
    have hgm := lookup_mem hg
    have hpw' := List.pairwise_cons.mp (show List.Pairwise (· > ·) (e.idx :: rest.map Elim.idx) from hpw)
    -- common continuation: given the program after the first step, with bodies `dropArgs g i (B fn)`
    have cont : ∀ (i : Nat) (B : PFn → PBody), e.idx = i → i < gfn.params.length →
        (∀ (fn : PFn) (j kg : Nat) (hide : Option Name), okU g j kg hide fn.body → okU g j kg hide (B fn)) →
        (∀ (fn : PFn) (j kg : Nat) (m : Int) (hide : Option Name), okC g j kg m hide fn.body → okC g j kg m hide (B fn)) →
        ∀ (vals' : List Int), (h = g → ∀ j n, Elim.const j n ∈ rest → vals'[j]? = some n) →
        run ev (prog.map fun fn => ({ fn with params := if fn.name = g then fn.params.eraseIdx i else fn.params,
                                              body := dropArgs g i (B fn) } : PFn)) h fuel vals' =
          run ev (elimMany g rest (gfn.params.eraseIdx i)
            (prog.map fun fn => ({ fn with params := if fn.name = g then fn.params.eraseIdx i else fn.params,
                                           body := dropArgs g i (B fn) } : PFn))) h fuel
            (if h = g then eraseMany (rest.map Elim.idx) vals' else vals') := by
      intro i B hei hi hBU hBC vals' hv'
      let T : PFn → PFn := fun fn =>
        { fn with params := if fn.name = g then fn.params.eraseIdx i else fn.params, body := dropArgs g i (B fn) }
      have hg' : lookup (prog.map T) g = some (T gfn) := by
        have := lookup_map prog T (fun _ => rfl) g
        rw [hg] at this; exact this
      have hpar : (T gfn).params = gfn.params.eraseIdx i := by simp [T, hgm.2]
      have hnd' : (T gfn).params.Nodup := by rw [hpar]; exact hnd.sublist (List.eraseIdx_sublist ..)
      have hlen : (T gfn).params.length = gfn.params.length - 1 := by
        rw [hpar, List.length_eraseIdx]; simp [hi]
      have hsh' : ∀ e' ∈ rest, ElimShape (prog.map T) g (T gfn) e' := by
        intro e' he'
        have hji : e'.idx < i := by
          have := hpw'.1 e'.idx (List.mem_map_of_mem he')
          omega
        have horig := hsh e' (List.mem_cons_of_mem _ he')
        cases e' with
        | unused j =>
          obtain ⟨q, hq, hallq⟩ := horig
          refine ⟨q, by rw [hpar, List.getElem?_eraseIdx]; simp [Elim.idx] at hji; simp [hji, hq], ?_⟩
          intro fn' hfn'
          obtain ⟨fn, hfn, rfl⟩ := List.mem_map.mp hfn'
          rw [hlen]
          have := okU_dropArgs g i j gfn.params.length (hideOf g q fn) (by simpa [Elim.idx] using hji) hi (B fn)
            (hBU fn j _ _ (hallq fn hfn))
          simpa [T, hideOf] using this
        | const j m =>
          obtain ⟨q, hq, hallq⟩ := horig
          refine ⟨q, by rw [hpar, List.getElem?_eraseIdx]; simp [Elim.idx] at hji; simp [hji, hq], ?_⟩
          intro fn' hfn'
          obtain ⟨fn, hfn, rfl⟩ := List.mem_map.mp hfn'
          rw [hlen]
          have := okC_dropArgs g i j gfn.params.length m (hideOf g q fn) (by simpa [Elim.idx] using hji) hi (B fn)
            (hBC fn j _ m _ (hallq fn hfn))
          simpa [T, hideOf] using this
      have := ih (prog.map T) (T gfn) hg' hnd' hpw'.2 hsh' h fuel vals' hv'
      rw [hpar] at this
      exact this
    -- entry condition for the rest after erasing index i
    have hvrest : ∀ (i : Nat), e.idx = i →
        (h = g → ∀ j n, Elim.const j n ∈ rest → (if h = g then vals.eraseIdx i else vals)[j]? = some n) := by
      intro i hei hh j n hm
      have hji : j < i := by
        have := hpw'.1 j (List.mem_map.mpr ⟨Elim.const j n, hm, rfl⟩)
        omega
      simp only [hh, if_true]
      rw [List.getElem?_eraseIdx]
      simp [hji, hv hh j n (List.mem_cons_of_mem _ hm)]
    cases e with
    | unused i =>
      obtain ⟨p, hp, hall⟩ := hsh (.unused i) (List.mem_cons_self ..)
      have hi : i < gfn.params.length := (List.getElem?_eq_some_iff.mp hp).1
      rw [run_dropParam ev prog g i gfn p hg hp hnd hall h fuel vals]
      have := cont i (fun fn => fn.body) rfl hi (fun _ _ _ _ hq => hq) (fun _ _ _ _ _ hq => hq)
        (if h = g then vals.eraseIdx i else vals) (hvrest i rfl)
      simp only [elimMany, elimStep, Elim.idx, dropParam, eraseMany, List.map_cons, List.foldl_cons] at this ⊢
      rw [this]
      by_cases hh : h = g <;> simp [hh, eraseMany]
    | const i n =>
      obtain ⟨p, hp, hall⟩ := hsh (.const i n) (List.mem_cons_self ..)
      have hi : i < gfn.params.length := (List.getElem?_eq_some_iff.mp hp).1
      rw [run_substParam ev prog g i gfn p n hg hp hnd hall h fuel vals
        (fun hh => hv hh i n (List.mem_cons_self ..))]
      have := cont i (fun fn => if fn.name = g then substVar p n fn.body else fn.body) rfl hi
        (fun fn j kg hide hq => by split; exact okU_substVar g j kg hide p n fn.body hq; exact hq)
        (fun fn j kg m hide hq => by split; exact okC_substVar g j kg m hide p n fn.body hq; exact hq)
        (if h = g then vals.eraseIdx i else vals) (hvrest i rfl)
      simp only [elimMany, elimStep, Elim.idx, substParam, eraseMany, List.map_cons, List.foldl_cons, hp,
        Option.getD_some] at this ⊢
      rw [this]
      by_cases hh : h = g <;> simp [hh, eraseMany]


-- non-vacuity: in `hgProg` parameter 3 of function 2 (`c`) is the constant 7
example : (Elim.const 3 7).idx = 3 := rfl
example : ([Elim.const 3 7].map Elim.idx).Pairwise (· > ·) := by decide

end SamVerif.C01

/-! ## K5 — the Vec runtime (libsam.wat) -/
namespace SamVerif.C01
open SamVerif.VecRt

theorem wf_empty : Wf empty := by simp [Wf, empty]
theorem wf_withCapacity (c : Nat) : Wf (withCapacity c) := by simp [Wf, withCapacity]
theorem wf_ofV (x : Int) : Wf (ofV x) := by
  refine ⟨by simp [ofV], ?_⟩
  intro i hi
  have : i = 0 := by simp [ofV] at hi; omega
  subst this
  exact ⟨x, by simp [ofV]⟩

theorem reserve_len (v : Vec) (m : Nat) : (reserve v m).len = v.len := by
  unfold reserve; split <;> rfl

theorem reserve_cap (v : Vec) (m : Nat) (h : Wf v) : m ≤ (reserve v m).data.length := by
  unfold reserve
  split
  · assumption
  · simp only [List.length_append, List.length_take, List.length_replicate]
    have := h.1
    split <;> split <;> omega

theorem reserve_slots (v : Vec) (m : Nat) (h : Wf v) (i : Nat) (hi : i < v.len) :
    (reserve v m).data[i]? = v.data[i]? := by
  unfold reserve
  split
  · rfl
  · have := h.1
    simp only
    rw [List.getElem?_append_left (by simp; omega)]
    simp [List.getElem?_take, hi]

/-- `push` keeps the representation invariant. -/
theorem wf_push (v : Vec) (x : Int) (h : Wf v) : Wf (push v x) := by
  have hc := reserve_cap v (v.len + 1) h
  refine ⟨by simp [push]; omega, ?_⟩
  intro i hi
  simp only [push] at hi ⊢
  by_cases hq : i = v.len
  · subst hq
    exact ⟨x, by simp [List.getElem?_set]; omega⟩
  · have hlt : i < v.len := by omega
    obtain ⟨y, hy⟩ := h.2 i hlt
    refine ⟨y, ?_⟩
    rw [List.getElem?_set_ne (by omega), reserve_slots v _ h i hlt, hy]

/-- **Growth preserves contents**: after `push` (with or without reallocation) the Vec stands for
the old sequence followed by the new element. -/
theorem push_contents (v : Vec) (x : Int) (h : Wf v) :
    contents (push v x) = contents v ++ [some x] := by
  have hc := reserve_cap v (v.len + 1) h
  apply List.ext_getElem?
  intro i
  simp only [contents, push]
  by_cases hi : i < v.len
  · rw [List.getElem?_take_of_lt (by omega), List.getElem?_set_ne (by omega), reserve_slots v _ h i hi]
    rw [List.getElem?_append_left (by simp; have := h.1; omega), List.getElem?_take_of_lt hi]
  · by_cases hq : i = v.len
    · subst hq
      rw [List.getElem?_take_of_lt (by omega)]
      have hl : (List.take v.len v.data).length = v.len := by simp; exact Nat.min_eq_left h.1
      rw [List.getElem?_append_right (by omega)]
      simp [hl, List.getElem?_set]
      omega
    · have : v.len + 1 ≤ i := by omega
      rw [List.getElem?_take_eq_none (by omega)]
      have hl : (List.take v.len v.data).length = v.len := by simp; exact Nat.min_eq_left h.1
      rw [List.getElem?_append_right (by omega)]
      simp [hl]
      omega

/-- **`get`: in range ⇔ a value, out of range ⇔ the prescribed panic, never an engine trap.** -/
theorem get_spec (v : Vec) (i : Int) (h : Wf v) :
    (0 ≤ i ∧ i < v.len → ∃ x, get v i = .ok x) ∧ (i < 0 ∨ (v.len : Int) ≤ i → get v i = .panicOob) ∧
      get v i ≠ .trap := by
  unfold VecRt.get oob
  refine ⟨?_, ?_, ?_⟩
  · rintro ⟨h0, h1⟩
    have hn : i.toNat < v.len := by omega
    obtain ⟨x, hx⟩ := h.2 i.toNat hn
    refine ⟨x, ?_⟩
    have : ¬ (i < 0) := by omega
    simp [this, hx]
    omega
  · intro hh
    have : (decide (i < 0) || decide (v.len ≤ i.toNat)) = true := by
      rcases hh with hh | hh
      · simp [hh]
      · simp; right; omega
    simp [this]
  · by_cases hb : (decide (i < 0) || decide (v.len ≤ i.toNat)) = true
    · simp [hb]
    · simp only [hb]
      have hn : i.toNat < v.len := by simp at hb; omega
      obtain ⟨x, hx⟩ := h.2 i.toNat hn
      simp [hx]

/-- **`set`: panics exactly at `i < 0 ∨ i ≥ len` (in particular at `i = len`), stores otherwise,
never an engine trap.** -/
theorem set_spec (v : Vec) (i : Int) (x : Int) (h : Wf v) :
    (set v i x = .panicOob ↔ (i < 0 ∨ (v.len : Int) ≤ i)) ∧ set v i x ≠ .trap ∧
      (0 ≤ i ∧ i < v.len → ∃ v', set v i x = .ok v' ∧ Wf v' ∧ v'.len = v.len ∧ get v' i = .ok x) := by
  have hcap := h.1
  unfold VecRt.set oob
  refine ⟨?_, ?_, ?_⟩
  · constructor
    · intro hs
      by_cases hb : (decide (i < 0) || decide (v.len ≤ i.toNat)) = true
      · simp at hb
        rcases hb with hb | hb
        · exact Or.inl hb
        · by_cases h0 : i < 0
          · exact Or.inl h0
          · exact Or.inr (by omega)
      · simp only [hb] at hs
        by_cases hd : i.toNat < v.data.length
        · simp [hd] at hs
        · simp [hd] at hs
    · intro hh
      have : (decide (i < 0) || decide (v.len ≤ i.toNat)) = true := by
        rcases hh with hh | hh
        · simp [hh]
        · simp; right; omega
      simp [this]
  · by_cases hb : (decide (i < 0) || decide (v.len ≤ i.toNat)) = true
    · simp [hb]
    · simp only [hb]
      have hn : i.toNat < v.data.length := by simp at hb; omega
      simp [hn]
  · rintro ⟨h0, h1⟩
    have hn : i.toNat < v.len := by omega
    have hb : (decide (i < 0) || decide (v.len ≤ i.toNat)) = false := by simp; omega
    have hd : i.toNat < v.data.length := by omega
    simp only [hb, Bool.false_eq_true, if_false, hd, if_true]
    refine ⟨_, rfl, ⟨by simpa using hcap, ?_⟩, rfl, ?_⟩
    · intro j hj
      by_cases hq : j = i.toNat
      · subst hq; exact ⟨x, by simp [List.getElem?_set, hd]⟩
      · obtain ⟨y, hy⟩ := h.2 j hj
        exact ⟨y, by simp only []; rw [List.getElem?_set_ne (fun hh => hq hh.symm), hy]⟩
    · unfold VecRt.get oob
      simp [hb, List.getElem?_set, hd]

/-- `pop` on an empty Vec is the prescribed panic; otherwise it returns the last element, never a trap. -/
theorem pop_spec (v : Vec) (h : Wf v) :
    (v.len = 0 → pop v = .panicPop) ∧ pop v ≠ .trap ∧
      (0 < v.len → ∃ x v', pop v = .ok (x, v') ∧ Wf v' ∧ v'.len = v.len - 1 ∧
        v.data[v.len - 1]? = some (some x)) := by
  unfold pop
  refine ⟨fun h0 => by simp [h0], ?_, ?_⟩
  · by_cases h0 : v.len = 0
    · simp [h0]
    · obtain ⟨x, hx⟩ := h.2 (v.len - 1) (by omega)
      simp [h0, hx]
  · intro hpos
    have h0 : v.len ≠ 0 := by omega
    obtain ⟨x, hx⟩ := h.2 (v.len - 1) (by omega)
    refine ⟨x, { data := v.data.set (v.len - 1) none, len := v.len - 1 }, by simp [h0, hx],
      ⟨by simp; have := h.1; omega, ?_⟩, rfl, hx⟩
    intro j hj
    simp only at hj
    obtain ⟨y, hy⟩ := h.2 j (by omega)
    exact ⟨y, by simp only []; rw [List.getElem?_set_ne (by omega), hy]⟩


example : (push (push (push (push (push empty 1) 2) 3) 4) 5).data.length = 8 := by decide
example : VecRt.set (push (push empty 1) 2) 2 9 = .panicOob := by decide
example : VecRt.set (ofV 7) 1 9 = .panicOob := by decide
example : VecRt.get (push (push empty 1) 2) (-1) = .panicOob := by decide

end SamVerif.C01

/-! ## K6 — the string data segment as WAT text (`print_byte_vec`) -/
namespace SamVerif.C01
open SamVerif.DataSeg

set_option maxRecDepth 100000 in
theorem alnum_byte : ∀ b : Fin 256, isAsciiAlnum b.val = true →
    Char.ofNat b.val ≠ '\\' ∧ utf8 (Char.ofNat b.val) = [b.val] := by decide

set_option maxRecDepth 100000 in
theorem hex_byte : ∀ b : Fin 256, hexVal (hexDigit (b.val / 16)) = some (b.val / 16) ∧
    hexVal (hexDigit (b.val % 16)) = some (b.val % 16) := by decide

theorem assemble_printByte (b : Nat) (hb : b < 256) (rest : List Char) :
    assemble (printByte b ++ rest) = (assemble rest).map (b :: ·) := by
  unfold printByte
  by_cases ha : isAsciiAlnum b = true
  · simp only [ha, if_true, List.singleton_append]
    obtain ⟨hne, hu⟩ := alnum_byte ⟨b, hb⟩ ha
    simp only at hne hu
    rw [assemble]
    · simp [hne, hu]
    · intro a c r h
      exact fun _ => hne h
  · simp only [ha, Bool.false_eq_true, if_false, List.cons_append, List.nil_append]
    obtain ⟨h1, h2⟩ := hex_byte ⟨b, hb⟩
    simp only at h1 h2
    simp only [assemble, h1, h2]
    have : 16 * (b / 16) + b % 16 = b := by omega
    cases assemble rest <;> simp [this]

/-- **The data-segment printer is byte-exact**: assembling what `print_byte_vec` prints gives back
exactly the bytes, for every byte sequence — so the `(offset, length)` pair of every string constant
addresses that constant's own bytes, whatever precedes it in the shared segment. -/
theorem assemble_printBytes (bs : List Nat) (h : ∀ b ∈ bs, b < 256) :
    assemble (printBytes bs) = some bs := by
  induction bs with
  | nil => rfl
  | cons b rest ih =>
    simp only [printBytes, List.flatMap_cons]
    rw [assemble_printByte b (h b (List.mem_cons_self ..))]
    have := ih (fun x hx => h x (List.mem_cons_of_mem _ hx))
    simp only [printBytes] at this
    rw [this]; rfl


-- "é" = c3 a9: two escapes, two bytes back (the seeded fault C01f printed the Latin-1 characters raw: four bytes)
example : printBytes [99, 0xc3, 0xa9] = ['c', '\\', 'c', '3', '\\', 'a', '9'] := by decide
example : assemble ['c', 'Ã', '©'] = some [99, 0xc3, 0x83, 0xc2, 0xa9] := by decide

end SamVerif.C01

/-! ## K7 — launchers of a multi-entry project (`compile_sources`) -/
namespace SamVerif.C01
open SamVerif.Launcher

/-- **The launcher of an entry point is a function of that entry alone**: whatever entry points
come before or after it in the project, launcher number `pre.length` calls exactly the encoded
`Main.main` of its own module (seeded fault C01g let the name buffer accumulate the earlier ones). -/
theorem launcher_independent (pre post : List Mod) (m : Mod) :
    (launchers (pre ++ m :: post))[pre.length]? = some (m, mainName m) := by
  simp [launchers]

example : String.ofList (mainName ["Report".toList]) = "_Report_Main$main" := by decide
example : String.ofList (mainName ["audit".toList, "Log-2".toList]) = "_audit$Log_2_Main$main" := by decide

end SamVerif.C01
