import SamVerif.Lemmas.EnumLayout
import SamVerif.Lemmas.TailRec
/-!
# C01 — compiled code behaves as the source semantics prescribe: property theorems

K1 (enum variant representation, `mir_generics_specialization.rs:580-667`, encoding l.313-361,
tests l.98-260):
* `encode_injective_partial`, `testVariant_exact_partial` — for every declaration, every decision
  function and all values: encoding is injective and the lowered match's tests recover exactly the
  variant and its fields, *provided* the payload of an unboxed variant is a heap object of its type
  (`FitsVal.payload`);
* `typePermit_sound_finished` — the real decision guarantees that proviso for every finished type;
* `typePermit_unsound_in_progress_counterexample`, `layout_injective_counterexample`,
  `decode_counterexample` — it does not for a type still in progress: `Nat(Z, S(Nat))` (finding C01-F1).

K3 (tail recursion → loop, `mir_tail_recursion_rewrite.rs`, loop update `wasm_lowering.rs:437-441`):
* `tailrec_equiv_par` (full strength, parallel update), `tailrec_equiv_seq_partial` (the code as
  run; side condition `safeArgs`), `tailrec_equiv_seq_counterexample` (swap; finding C01-F2),
  `seqAssign_eq_par_partial`.

K4 (constant-parameter elimination decision, `mir_constant_param_elimination.rs`):
* `meet_comm`, `meet_assoc`, `meet_idem`, `paramState_c32_sound`, `paramState_unused_sound`,
  `mem_selfCallReads`.
-/
namespace SamVerif.C01
open SamVerif.EnumLayout


/-- A source-level enum value `(tag, fields)` fits the declaration, and — the side condition that
the unboxing decision is supposed to guarantee — the payload of an unboxed variant really is a
heap object of the payload type. -/
structure FitsVal (variants : List (List Ty)) (rs : List VRepr) (tag : Nat) (fs : List RtVal) : Prop where
  arity : ∃ ts, variants[tag]? = some ts ∧ fs.length = ts.length
  payload : ∀ (t : Nat) (w : RtVal), rs[tag]? = some (.unboxed t) → fs = [w] → isPointerOf t w = true

theorem single_of_head {α} (fs : List α) (v : α) (ts : List Ty) (t : Ty)
    (hl : fs.length = ts.length) (ht : ts = [t]) (hh : fs.head? = some v) : fs = [v] := by
  subst ht
  match fs, hl, hh with
  | [x], _, hh => simpa using hh

theorem encode_injective_partial (p : Ty → Bool) (variants : List (List Ty)) (n : Nat)
    (t1 t2 : Nat) (fs1 fs2 : List RtVal) (v : RtVal)
    (h1 : FitsVal variants (layoutOf p variants) t1 fs1)
    (h2 : FitsVal variants (layoutOf p variants) t2 fs2)
    (e1 : encode n (layoutOf p variants) t1 fs1 = some v)
    (e2 : encode n (layoutOf p variants) t2 fs2 = some v) :
    t1 = t2 ∧ fs1 = fs2 := by
  have inv := layoutOf_inv p variants
  obtain ⟨len, i31, unb, box, pend, perm⟩ := inv
  obtain ⟨⟨ts1, hv1, ha1⟩, hp1⟩ := h1
  obtain ⟨⟨ts2, hv2, ha2⟩, hp2⟩ := h2
  unfold layoutOf at *
  unfold encode at e1 e2
  generalize hrs : (layoutLoop p variants 0 {}).out = rs at *
  cases hr1 : rs[t1]? with
  | none => simp [hr1] at e1
  | some r1 =>
    cases hr2 : rs[t2]? with
    | none => simp [hr2] at e2
    | some r2 =>
      simp only [hr1, hr2] at e1 e2
      cases r1 with
      | int31 =>
        cases r2 with
        | int31 =>
          have := i31 t1 hr1; have := i31 t2 hr2
          simp at e1 e2
          subst e1
          have : (t1 : Int) = (t2 : Int) := by grind
          have : t1 = t2 := by omega
          subst this
          grind
        | unboxed u =>
          simp at e1 e2
          have hu := unb t2 u hr2
          have hts : ts2 = [.ref u] := by grind
          have hf := single_of_head fs2 v ts2 _ ha2 hts e2
          have := hp2 u v hr2 hf
          subst e1
          simp [isPointerOf] at this
        | boxed bs => simp at e1 e2; grind
      | unboxed u1 =>
        have hu1 := unb t1 u1 hr1
        cases r2 with
        | int31 =>
          simp at e1 e2
          have hts : ts1 = [.ref u1] := by grind
          have hf := single_of_head fs1 v ts1 _ ha1 hts e1
          have := hp1 u1 v hr1 hf
          subst e2
          simp [isPointerOf] at this
        | unboxed u2 =>
          have hu2 := unb t2 u2 hr2
          simp at e1 e2
          have : t1 = t2 := by
            by_cases h : t1 = t2
            · exact h
            · have := hu1.2.2.2 t2 (Ne.symm h) (by grind)
              grind
          subst this
          have hts : ts1 = [.ref u1] := by grind
          have hts2 : ts2 = [.ref u1] := by grind
          have hf1 := single_of_head fs1 v ts1 _ ha1 hts e1
          have hf2 := single_of_head fs2 v ts2 _ ha2 hts2 e2
          grind
        | boxed bs =>
          exfalso
          have : t2 ≠ t1 := by grind
          have := hu1.2.2.2 t2 this (by grind)
          grind
      | boxed bs1 =>
        cases r2 with
        | int31 => simp at e1 e2; grind
        | unboxed u2 =>
          exfalso
          have hu2 := unb t2 u2 hr2
          have : t1 ≠ t2 := by grind
          have := hu2.2.2.2 t1 this (by grind)
          grind
        | boxed bs2 =>
          simp at e1 e2
          subst e1
          simp at e2
          grind

/-- `decodeByTests ∘ encode = id`, pointwise: on an encoded value the test sequence of the lowered
match succeeds for exactly the variant it was built from, and binds exactly its fields. -/
theorem testVariant_exact_partial (p : Ty → Bool) (variants : List (List Ty)) (n : Nat)
    (tag tag' : Nat) (fs : List RtVal) (v : RtVal)
    (h : FitsVal variants (layoutOf p variants) tag fs)
    (e : encode n (layoutOf p variants) tag fs = some v) (ht : tag' < variants.length) :
    testVariant n (layoutOf p variants) tag' v = if tag' = tag then some fs else none := by
  have inv := layoutOf_inv p variants
  obtain ⟨len, i31, unb, box, pend, perm⟩ := inv
  obtain ⟨⟨ts, hv, ha⟩, hp⟩ := h
  unfold layoutOf at *
  unfold encode at e
  unfold testVariant
  generalize hrs : (layoutLoop p variants 0 {}).out = rs at *
  cases hr : rs[tag]? with
  | none => simp [hr] at e
  | some r =>
    cases hr' : rs[tag']? with
    | none => exfalso; grind
    | some r' =>
      simp only [hr] at e
      cases r with
      | int31 =>
        have hts := i31 tag hr
        have hfs : fs = [] := by
          have : ts = [] := by grind
          subst this
          simpa using ha
        simp at e
        subst e
        cases r' with
        | int31 =>
          simp only []
          by_cases hq : tag' = tag
          · subst hq; simp [hfs]
          · have : (tag : Int) ≠ (tag' : Int) := by omega
            simp [hq, this]
        | unboxed u' =>
          have : tag' ≠ tag := by grind
          simp [isPointerOf, this]
        | boxed bs =>
          have : tag' ≠ tag := by grind
          have hi : hasInt31 rs = true := by
            unfold hasInt31
            simp only [List.any_eq_true]
            exact ⟨.int31, List.mem_of_getElem? hr, by simp⟩
          simp [hi, isVariantObj, this]
      | unboxed u =>
        have hu := unb tag u hr
        have hts : ts = [.ref u] := by grind
        have hf := single_of_head fs v ts _ ha hts e
        have hptr := hp u v hr hf
        by_cases hq : tag' = tag
        · subst hq
          have : r' = .unboxed u := by grind
          subst this
          simp [hptr, hf]
        · have h31 := hu.2.2.2 tag' hq ht
          have : r' = .int31 := by grind
          subst this
          simp only [hq, if_false]
          cases v with
          | i32 k => rfl
          | i31 k => simp [isPointerOf] at hptr
          | obj ty fl => rfl
      | boxed bs =>
        simp at e
        subst e
        cases r' with
        | int31 =>
          have : tag' ≠ tag := by grind
          simp [this]
        | unboxed u' =>
          exfalso
          have hu := unb tag' u' hr'
          have : tag ≠ tag' := by grind
          have := hu.2.2.2 tag this (by grind)
          grind
        | boxed bs' =>
          by_cases hq : tag' = tag
          · subst hq
            simp [isVariantObj]
          · have : (2 * (tag : Int) + 1) ≠ (2 * (tag' : Int) + 1) := by omega
            have hq' : ¬ tag = tag' := fun h => hq h.symm
            simp [isVariantObj, hq, hq', this]

/-- Values of the closed type `n` under the finished definitions `defs`. -/
inductive HasTy (defs : List (Nat × MDef)) : Nat → RtVal → Prop where
  | struct (n k : Nat) (fs : List RtVal) :
      lookupDef defs n = some (.struct k) → HasTy defs n (.obj (.struct n) fs)
  | int31 (n : Nat) (rs : List VRepr) (tag : Nat) :
      lookupDef defs n = some (.enum rs) → rs[tag]? = some .int31 → HasTy defs n (.i31 tag)
  | boxed (n : Nat) (rs : List VRepr) (tag : Nat) (ts : List Ty) (fs : List RtVal) :
      lookupDef defs n = some (.enum rs) → rs[tag]? = some (.boxed ts) →
      HasTy defs n (.obj (.variant n tag) (.i32 (2 * tag + 1) :: fs))
  | unboxed (n : Nat) (rs : List VRepr) (tag t : Nat) (w : RtVal) :
      lookupDef defs n = some (.enum rs) → rs[tag]? = some (.unboxed t) → HasTy defs t w →
      HasTy defs n w

/-- `type_permit_enum_boxed_optimization` is right about every *finished* type: if it permits
unboxing a payload of type `n` whose definition is finished, every value of that type is a heap
object of that type. (With `encode_injective_partial`: layouts chosen from finished payload types
never conflate values.) -/
theorem typePermit_sound_finished (st : St) (n : Nat) (v : RtVal)
    (hp : typePermit st (.ref n) = true)
    (hv : HasTy st.defs n v) : isPointerOf n v = true := by
  match hv with
  | .struct _ k fs h => simp [isPointerOf]
  | .int31 _ rs tag h hr =>
    simp only [typePermit, h] at hp
    have := (List.all_eq_true.mp hp) _ (List.mem_of_getElem? hr)
    simp [VRepr.isBoxed] at this
  | .boxed _ rs tag ts fs h hr => simp [isPointerOf]
  | .unboxed _ rs tag t w h hr hw =>
    simp only [typePermit, h] at hp
    have := (List.all_eq_true.mp hp) _ (List.mem_of_getElem? hr)
    simp [VRepr.isBoxed] at this

/-- State in which `class Nat(Z, S(Nat))` (closed type 0) is laid out: its name is registered
(l.573-574), its definition is not finished. -/
def natInProgress : St := { names := [0] }
def natLayout : List VRepr := layoutOf (typePermit natInProgress) [[], [.ref 0]]
def natDefs : List (Nat × MDef) := [(0, .enum natLayout)]

theorem nat_layout : natLayout = [.int31, .unboxed 0] := by decide

/-- The decision is wrong for a type that is still in progress: it answers "always a pointer" for
`Nat` while `Z` is an `i31`. -/
theorem typePermit_unsound_in_progress_counterexample :
    typePermit natInProgress (.ref 0) = true ∧ HasTy natDefs 0 (.i31 0) ∧
      isPointerOf 0 (.i31 0) = false := by
  refine ⟨by decide, ?_, by decide⟩
  exact HasTy.int31 0 natLayout 0 (by decide) (by decide)

/-- Full-strength statement (false on the unchanged code):
    `∀ variants st n t1 fs1 t2 fs2 v` with field values of the declared types,
    `encode n (layoutOf (typePermit st) variants) t1 fs1 = some v →
     encode n (layoutOf (typePermit st) variants) t2 fs2 = some v → t1 = t2 ∧ fs1 = fs2`.
Witness: `Nat(Z, S(Nat))`: `S(Z)` and `Z` are both `i31 0` (P1; replayed: prints 0 instead of 2). -/
theorem layout_injective_counterexample :
    ∃ (st : St) (variants : List (List Ty)) (n t1 t2 : Nat) (fs1 fs2 : List RtVal) (v : RtVal),
      let rs := layoutOf (typePermit st) variants
      HasTy [(n, .enum rs)] n v ∧ (∀ w ∈ fs2, HasTy [(n, .enum rs)] n w) ∧
      encode n rs t1 fs1 = some v ∧ encode n rs t2 fs2 = some v ∧ t1 ≠ t2 := by
  refine ⟨natInProgress, [[], [.ref 0]], 0, 0, 1, [], [.i31 0], .i31 0, ?_, ?_, by rfl, by rfl, by decide⟩
  · exact HasTy.int31 0 natLayout 0 (by decide) (by decide)
  · intro w hw
    simp at hw
    subst hw
    exact HasTy.int31 0 natLayout 0 (by decide) (by decide)

/-- and the lowered `match` takes `S(Z)` for `Z`. -/
theorem decode_counterexample :
    decodeByTests 0 natLayout ((encode 0 natLayout 1 [.i31 0]).getD (.i32 0)) = some (0, []) := by
  rfl


end SamVerif.C01

namespace SamVerif.C01
open SamVerif.TailRec
open SamVerif.Opt (Op evalTarget)

/-- Sequential loop-variable update equals the parallel one under the side condition. -/
theorem seqAssign_eq_par_partial (params : List Name) (args : List Expr) (env : Env)
    (hnd : params.Nodup) (hl : args.length = params.length) (hs : noBackwardRef params args = true) :
    params.map (seqAssign env (params.zip args)) = args.map (Expr.eval env) :=
  seqAssign_eq_par params args env hnd hl hs

/-- … and differs without it: `a, b := b, a`. -/
theorem seqAssign_eq_par_counterexample :
    ∃ (params : List Name) (args : List Expr) (env : Env), params.Nodup ∧ args.length = params.length ∧
      params.map (seqAssign env (params.zip args)) ≠ args.map (Expr.eval env) :=
  ⟨[0, 1], [.var 1, .var 0], fun x => if x = 0 then 1 else 2, by decide, by decide, by decide⟩


theorem walk_next_safe (ev : Op → Int → Int → Option Int) (params : List Name) (l : LBody) :
    ∀ (env env' : Env) (args : List Expr), safeArgs params l = true →
      walkLoop ev env l = some (.next env' args) →
      noBackwardRef params args = true ∧ args.length = params.length := by
  induction l with
  | done a =>
    intro env env' args hs hw
    simp [walkLoop] at hw
    simp [safeArgs] at hs
    obtain ⟨_, rfl⟩ := hw
    exact hs
  | bin x op e1 e2 k ih =>
    intro env env' args hs hw
    simp only [walkLoop] at hw
    split at hw
    · simp at hw
    · exact ih _ _ _ (by simpa [safeArgs] using hs) hw
  | sif c inv v k ih =>
    intro env env' args hs hw
    simp only [walkLoop] at hw
    split at hw
    · split at hw <;> simp at hw
    · exact ih _ _ _ (by simpa [safeArgs] using hs) hw
  | merge c t e _ _ =>
    intro env env' args hs hw
    simp only [walkLoop] at hw
    split at hw <;> simp at hw

/-- **tailrec_equiv under parallel update (full strength).** With all loop values read before any
loop variable is written, the rewritten loop computes what the recursion computes — for every tree,
all arguments and every fuel. -/
theorem tailrec_equiv_par (ev : Op → Int → Int → Option Int) (params : List Name) (b : Body) (l : LBody)
    (h : rw b = some l) :
    ∀ (fuel : Nat) (vals : List Int), runRec ev params b fuel vals = runLoop ev false params l fuel vals := by
  intro fuel
  induction fuel with
  | zero => intro vals; rfl
  | succ n ih =>
    intro vals
    simp only [runRec, runLoop]
    have r := walk_rel ev b l (bindParams params vals) h
    revert r
    generalize walkRec ev (bindParams params vals) b = a
    generalize walkLoop ev (bindParams params vals) l = c
    intro r
    cases r with
    | trap => rfl
    | value v => rfl
    | vals vs => exact ih vs
    | exprs env' args => simpa using ih _

/-- **tailrec_equiv for the code as the backends run it (partial).** Side condition: parameters
are distinct and every loop-value list that is used directly (`safeArgs`) reads no parameter that an
earlier loop-variable assignment has overwritten. -/
theorem tailrec_equiv_seq_partial (ev : Op → Int → Int → Option Int) (params : List Name) (b : Body)
    (l : LBody) (h : rw b = some l) (hnd : params.Nodup) (hs : safeArgs params l = true) :
    ∀ (fuel : Nat) (vals : List Int), runRec ev params b fuel vals = runLoop ev true params l fuel vals := by
  intro fuel
  induction fuel with
  | zero => intro vals; rfl
  | succ n ih =>
    intro vals
    simp only [runRec, runLoop]
    have r := walk_rel ev b l (bindParams params vals) h
    have sf := walk_next_safe ev params l (bindParams params vals)
    revert r sf
    generalize walkRec ev (bindParams params vals) b = a
    generalize walkLoop ev (bindParams params vals) l = c
    intro r sf
    cases r with
    | trap => rfl
    | value v => rfl
    | vals vs => exact ih vs
    | exprs env' args =>
      obtain ⟨h1, h2⟩ := sf env' args hs rfl
      simp only [if_true]
      rw [seqAssign_eq_par params args env' hnd h2 h1]
      exact ih _

/-- `swap(a, b, n) = if n == 0 { a * 10 + b } else { swap(b, a, n - 1) }` -/
def swapBody : Body :=
  .bin 10 .eq (.var 2) (.lit 0)
    (.ite (.var 10)
      (.bin 11 .mul (.var 0) (.lit 10) (.bin 12 .add (.var 11) (.var 1) (.ret (.var 12))))
      (.bin 13 .sub (.var 2) (.lit 1) (.tail [.var 1, .var 0, .var 13])))

def swapLoop : LBody :=
  .bin 10 .eq (.var 2) (.lit 0)
    (.sif (.var 10) false
      (.bin 11 .mul (.var 0) (.lit 10) (.bin 12 .add (.var 11) (.var 1) (.ret (.var 12))))
      (.bin 13 .sub (.var 2) (.lit 1) (.done [.var 1, .var 0, .var 13])))

theorem swap_rw : rw swapBody = some swapLoop := by rfl

/-- Full-strength statement (false on the unchanged code):
    `∀ ev params b l, rw b = some l → params.Nodup → ∀ fuel vals,
       runRec ev params b fuel vals = runLoop ev true params l fuel vals`.
Witness: `swap(1, 2, 1)` is 21, the loop returns 22 (replayed on the real compiler: `swap(1, 2, 1001)`
prints 22 on wasm and TS). -/
theorem tailrec_equiv_seq_counterexample :
    ∃ (params : List Name) (b : Body) (l : LBody) (fuel : Nat) (vals : List Int),
      rw b = some l ∧ params.Nodup ∧
      runRec evalTarget params b fuel vals = some 21 ∧
      runLoop evalTarget true params l fuel vals = some 22 :=
  ⟨[0, 1, 2], swapBody, swapLoop, 5, [1, 2, 1], by rfl, by decide, by decide, by decide⟩




theorem meet_comm (a b : PState) : meet a b = meet b a := by
  cases a <;> cases b <;> simp [meet] <;> grind

theorem meet_idem (a : PState) : meet a a = a := by
  cases a <;> simp [meet]

theorem meet_assoc (a b c : PState) : meet (meet a b) c = meet a (meet b c) := by
  cases a <;> cases b <;> cases c <;> simp [meet] <;> grind [meet]

theorem meet_unused (a b : PState) : meet a b = .unused → a = .unused ∨ b = .unused := by
  cases a <;> cases b <;> simp [meet] <;> grind

theorem meet_c32 (a b : PState) (n : Int) : meet a b = .c32 n →
    (a = .c32 n ∨ a = .referenced) ∧ (b = .c32 n ∨ b = .referenced) := by
  cases a <;> cases b <;> simp [meet] <;> grind

theorem meet_referenced (a b : PState) : meet a b = .referenced → a = .referenced ∧ b = .referenced := by
  cases a <;> cases b <;> simp [meet] <;> grind

theorem argState_ne (a : Arg) : argState a ≠ .unused ∧ argState a ≠ .referenced := by
  cases a <;> simp [argState]

theorem fold_unused (i : Nat) (sites : List (List Arg)) : ∀ (s : PState),
    sites.foldl (fun s args => match args[i]? with | some a => meet s (argState a) | none => s) s = .unused →
    s = .unused := by
  induction sites with
  | nil => intro s h; simpa using h
  | cons args rest ih =>
    intro s h
    simp only [List.foldl_cons] at h
    have := ih _ h
    cases ha : args[i]? with
    | none => simpa [ha] using this
    | some a =>
      simp only [ha] at this
      cases meet_unused _ _ this with
      | inl h => exact h
      | inr h => exact absurd h (argState_ne a).1

theorem fold_c32 (i : Nat) (n : Int) (sites : List (List Arg)) : ∀ (s : PState),
    sites.foldl (fun s args => match args[i]? with | some a => meet s (argState a) | none => s) s = .c32 n →
    (s = .c32 n ∨ s = .referenced) ∧ ∀ args ∈ sites, ∀ a, args[i]? = some a → a = .i32 n := by
  induction sites with
  | nil => intro s h; simp at h; simp [h]
  | cons args rest ih =>
    intro s h
    simp only [List.foldl_cons] at h
    have := ih _ h
    cases ha : args[i]? with
    | none =>
      simp only [ha] at this
      refine ⟨this.1, ?_⟩
      intro args' hm a' ha'
      cases List.mem_cons.mp hm with
      | inl h => subst h; simp [ha] at ha'
      | inr h => exact this.2 _ h _ ha'
    | some a =>
      simp only [ha] at this
      obtain ⟨h1, h2⟩ := this
      have hm : meet s (argState a) = .c32 n := by
        cases h1 with
        | inl h => exact h
        | inr h => exact absurd (meet_referenced _ _ h).2 (argState_ne a).2
      have hk := meet_c32 _ _ _ hm
      refine ⟨hk.1, ?_⟩
      intro args' hmem a' ha'
      cases List.mem_cons.mp hmem with
      | inl h =>
        subst h
        rw [ha] at ha'
        cases ha'
        cases hk.2 with
        | inl h => cases a <;> simp [argState] at h; subst h; rfl
        | inr h => exact absurd h (argState_ne a).2
      | inr h => exact h2 _ h _ ha'

/-- **Constant decision is sound**: a parameter is replaced by the constant `n` only if the body
reads it and *every* direct call site of the function passes the literal `n` in that position. -/
theorem paramState_c32_sound (prog : List Fn) (f : Fn) (i : Nat) (p : Name) (n : Int)
    (h : paramState prog f i p = .c32 n) :
    localState f p = .referenced ∧
      ∀ args ∈ callSites prog f.name, ∀ a, args[i]? = some a → a = .i32 n := by
  have := fold_c32 i n (callSites prog f.name) (localState f p) h
  refine ⟨?_, this.2⟩
  cases this.1 with
  | inl h1 => unfold localState at h1; split at h1 <;> simp at h1
  | inr h1 => exact h1

/-- **Unused decision is sound**: a parameter is dropped as unused only if nothing in the body
reads it except self calls that copy it to its own position. -/
theorem paramState_unused_sound (prog : List Fn) (f : Fn) (i : Nat) (p : Name)
    (h : paramState prog f i p = .unused) : p ∉ localReads f := by
  have := fold_unused i (callSites prog f.name) (localState f p) h
  unfold localState at this
  split at this
  · simp at this
  · simpa using ‹¬ (localReads f).contains p = true›

/-- The self-call exemption (l.94-104), stated independently: a name counts as read by a self call
iff it is passed in some position that is not its own. -/
theorem mem_selfCallReads (params : List Name) : ∀ (args : List Arg) (x : Name),
    x ∈ selfCallReads params args ↔ ∃ j : Nat, args[j]? = some (Arg.var x) ∧ params[j]? ≠ some x := by
  induction params with
  | nil =>
    intro args x
    cases args with
    | nil => simp [selfCallReads]
    | cons a rest =>
      simp only [selfCallReads, List.mem_filterMap]
      constructor
      · rintro ⟨b, hb, h⟩
        cases b <;> simp at h
        subst h
        obtain ⟨j, hj⟩ := List.getElem?_of_mem hb
        exact ⟨j, hj, by simp⟩
      · rintro ⟨j, h1, _⟩
        exact ⟨Arg.var x, List.mem_of_getElem? h1, rfl⟩
  | cons p ps ih =>
    intro args x
    cases args with
    | nil => simp [selfCallReads]
    | cons a rest =>
      have shift : (∃ j : Nat, rest[j]? = some (Arg.var x) ∧ ps[j]? ≠ some x) →
          ∃ j : Nat, (a :: rest)[j]? = some (Arg.var x) ∧ (p :: ps)[j]? ≠ some x := by
        rintro ⟨j, h1, h2⟩
        exact ⟨j + 1, by simpa using h1, by simpa using h2⟩
      have unshift : ∀ j : Nat, (a :: rest)[j + 1]? = some (Arg.var x) → (p :: ps)[j + 1]? ≠ some x →
          ∃ j : Nat, rest[j]? = some (Arg.var x) ∧ ps[j]? ≠ some x := by
        intro j h1 h2
        exact ⟨j, by simpa using h1, by simpa using h2⟩
      cases a with
      | var y =>
        by_cases hy : y = p
        · subst hy
          simp only [selfCallReads, if_true, ih]
          constructor
          · exact shift
          · rintro ⟨j, h1, h2⟩
            cases j with
            | zero => simp at h1 h2; exact absurd h1 h2
            | succ j => exact unshift j h1 h2
        · simp only [selfCallReads, hy, if_false, List.mem_cons, ih]
          constructor
          · rintro (h1 | h)
            · subst h1
              exact ⟨0, by simp, by simpa using fun h' => hy h'.symm⟩
            · exact shift h
          · rintro ⟨j, h1, h2⟩
            cases j with
            | zero => simp at h1; left; exact h1.symm
            | succ j => right; exact unshift j h1 h2
      | i32 n =>
        simp only [selfCallReads, ih]
        constructor
        · exact shift
        · rintro ⟨j, h1, h2⟩
          cases j with
          | zero => simp at h1
          | succ j => exact unshift j h1 h2
      | i31 n =>
        simp only [selfCallReads, ih]
        constructor
        · exact shift
        · rintro ⟨j, h1, h2⟩
          cases j with
          | zero => simp at h1
          | succ j => exact unshift j h1 h2
      | str n =>
        simp only [selfCallReads, ih]
        constructor
        · exact shift
        · rintro ⟨j, h1, h2⟩
          cases j with
          | zero => simp at h1
          | succ j => exact unshift j h1 h2


/-! ## Non-vacuity -/
section
open SamVerif.EnumLayout

-- the side conditions are satisfiable and the theorems say something on real shapes:
-- `Opt<P>` with `P` a finished struct is laid out `[Int31, Unboxed P]` and is injective
example : layoutOf (typePermit { names := [1, 0], defs := [(1, .struct 1)] }) [[], [.ref 1]]
    = [.int31, .unboxed 1] := by decide
example : typePermit { names := [1, 0], defs := [(1, .struct 1)] } (.ref 1) = true := by decide
-- `Opt<Opt<P>>`: the payload has an Int31 variant, so it is boxed
example : layoutOf (typePermit { names := [2, 1, 0], defs := [(1, .enum [.int31, .unboxed 0]), (0, .struct 1)] })
    [[], [.ref 1]] = [.int31, .boxed [.int, .ref 1]] := by decide
example : FitsVal [[], [.ref 1]] [.int31, .unboxed 1] 1 [.obj (.struct 1) [.i32 5]] :=
  ⟨⟨[.ref 1], rfl, rfl⟩, by intro t w h1 h2; simp at h1 h2; subst h1; subst h2; rfl⟩
end
-- an accumulator loop satisfies `safeArgs`; the swap does not
example : safeArgs [0, 1, 2] (.done [.var 0, .var 2, .var 2]) = true := by decide
example : safeArgs [0, 1, 2] swapLoop = false := by decide
example : [0, 1, 2].Nodup := by decide
example : runRec evalTarget [0, 1, 2] swapBody 5 [1, 2, 2] = some 12 := by decide
-- rotation f(n, a, b) -> f(n - 1, b, a): both parameters are read (seeded fault C01: they must be kept)
example : selfCallReads [0, 1, 2] [.var 9, .var 2, .var 1] = [9, 2, 1] := by decide
example : selfCallReads [0, 1, 2] [.var 9, .var 1, .var 2] = [9] := by decide
example : meet .referenced (.c32 5) = .c32 5 := by decide

end SamVerif.C01
