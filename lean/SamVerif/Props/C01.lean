import SamVerif.Model.EnumLayout
import SamVerif.Model.TailRec
/-! # C01 — property theorems (work in progress) -/
namespace SamVerif.C01
open SamVerif.EnumLayout

/-- State in which `Nat(Z, S(Nat))` (closed type 0) is laid out: its name is registered, its
definition is not finished. -/
def natInProgress : St := { names := [0] }

theorem nat_layout : layoutOf (typePermit natInProgress) [[], [.ref 0]] = [.int31, .unboxed 0] := by
  decide

end SamVerif.C01
