import SamVerif.Props.C12
import SamVerif.Model.RenderByName
import SamVerif.Model.ModuleOrder
/-! # C12 — diagnostics rendered in module-name order do not depend on module-reference ids

Model of `ErrorSet::pretty_print_error_messages_in_module_name_order` (samlang-errors, used by
`compile_sources`): the in-order sequence of the set, stably sorted by the module's *name*.  A
stable sort by a key is the concatenation, in key order, of the subsequences with that key. -/
namespace SamVerif.ErrorSet

theorem lexLt_cons_same (x : Nat) (r r' : List Nat) : lexLt (x :: r) (x :: r') = lexLt r r' := by
  simp [lexLt]

theorem errLt_same_module (ids ids' : Nat → Nat) (a b : Err) (hm : a.modl = b.modl)
    (ha : atomsKey ids a.atoms = atomsKey ids' a.atoms) (hb : atomsKey ids b.atoms = atomsKey ids' b.atoms) :
    errLt ids a b = errLt ids' a b := by
  simp only [errLt, errKey, hm, lexLt_cons_same, ha, hb]

theorem mem_render (ids : Nat → Nat) (hi : Inj ids) (pm : List (List Err)) (x : Err) :
    x ∈ render ids pm ↔ ∃ l ∈ pm, x ∈ l := by
  have hs := errLt_strictTotal ids hi
  unfold render
  rw [mem_mergeAll _ x hs]
  constructor
  · rintro ⟨l, hl, hx⟩
    obtain ⟨m, hm, rfl⟩ := List.mem_map.mp hl
    exact ⟨m, hm, (mem_ofList _ x hs).mp hx⟩
  · rintro ⟨m, hm, hx⟩
    exact ⟨_, List.mem_map_of_mem hm, (mem_ofList _ x hs).mpr hx⟩

/-- **diagnostics_by_name_independent_of_module_ids** (full strength for the enumeration-order part
of the property, fix of finding C12-F1): two runs that number the module references differently
(any two injective id assignments) render the same report, provided the ids of the handles *inside*
error details (heap strings: deterministic since /repo 06eeb5e) are the same. -/
theorem diagnostics_by_name_independent_of_module_ids (names : List Nat) (ids ids' : Nat → Nat)
    (hi : Inj ids) (hi' : Inj ids') (pm : List (List Err))
    (hatoms : ∀ l ∈ pm, ∀ e ∈ l, atomsKey ids e.atoms = atomsKey ids' e.atoms) :
    renderByName names ids pm = renderByName names ids' pm := by
  have hs := errLt_strictTotal ids hi
  have hs' := errLt_strictTotal ids' hi'
  unfold renderByName
  congr 1
  funext m
  have sorted1 : Sorted (errLt ids) (render ids pm) := mergeAll_sorted _ hs
  have sorted2 : Sorted (errLt ids') (render ids' pm) := mergeAll_sorted _ hs'
  have f1 : Sorted (errLt ids) ((render ids pm).filter (fun e => e.modl == m)) :=
    List.Pairwise.sublist List.filter_sublist sorted1
  have f2 : Sorted (errLt ids') ((render ids' pm).filter (fun e => e.modl == m)) :=
    List.Pairwise.sublist List.filter_sublist sorted2
  apply sorted_ext (lt := errLt ids') _ _ hs' _ f2
  · intro x
    simp only [List.mem_filter, mem_render ids hi, mem_render ids' hi']
  · apply sorted_transfer _ f1
    intro a ha b hb hab
    simp only [List.mem_filter, beq_iff_eq, mem_render ids hi] at ha hb
    obtain ⟨⟨la, hla, hal⟩, hma⟩ := ha
    obtain ⟨⟨lb, hlb, hbl⟩, hmb⟩ := hb
    rw [← errLt_same_module ids ids' a b (hma.trans hmb.symm) (hatoms la hla a hal) (hatoms lb hlb b hbl)]
    exact hab

/-- the witness of C12-F1 now renders identically under both module numberings -/
example : renderByName [0, 1] id [[e1], [e2]] =
    renderByName [0, 1] (fun n => if n = 0 then 1 else if n = 1 then 0 else n) [[e1], [e2]] := by decide

/-! ## The by-name report is a *stable sort by module name* of the set sequence

`errors.sort_by_cached_key(|e| name(e.module))` is a stable sort whose key is deliberately not
unique; `renderByName` models its result as the concatenation of the per-module subsequences in name
order.  The theorem below shows that the stable sort (`sSort`, stable insertion sort) computes
exactly that — for every input sequence — so stability is what the report needs (an unstable sort,
seeded fault C12d, may permute equal-key elements). Module names are represented by their rank in
name order (`key`), names = `List.range N`. -/

section StableByKey
variable {α : Type} (key : α → Nat)

def keyLt (a b : α) : Bool := decide (key a < key b)

def concatByKey (N : Nat) (l : List α) : List α :=
  (List.range N).flatMap fun m => l.filter (fun e => key e == m)

theorem sIns_append_of_all_lt (x : α) (A B : List α) (hB : ∀ b ∈ B, keyLt key x b = true) :
    sIns (keyLt key) x (A ++ B) = sIns (keyLt key) x A ++ B := by
  induction A with
  | nil =>
    cases B with
    | nil => rfl
    | cons b bs => simp [sIns, hB b (by simp)]
  | cons a as ih =>
    simp only [List.cons_append, sIns]
    split
    · rfl
    · rw [ih]; rfl

theorem sIns_append_of_none_lt (x : α) (A B : List α) (hA : ∀ a ∈ A, keyLt key x a = false) :
    sIns (keyLt key) x (A ++ B) = A ++ sIns (keyLt key) x B := by
  induction A with
  | nil => rfl
  | cons a as ih =>
    simp only [List.cons_append, sIns, hA a (by simp), Bool.false_eq_true, ↓reduceIte]
    rw [ih (fun y hy => hA y (List.mem_cons_of_mem _ hy))]

theorem sIns_at_end (x : α) (B : List α) (hB : ∀ b ∈ B, keyLt key x b = false) :
    sIns (keyLt key) x B = B ++ [x] := by
  have := sIns_append_of_none_lt key x B [] hB
  simpa [sIns] using this

theorem concatByKey_succ (N : Nat) (l : List α) :
    concatByKey key (N + 1) l = concatByKey key N l ++ l.filter (fun e => key e == N) := by
  simp [concatByKey, List.range_succ, List.flatMap_append]

theorem concatByKey_append_ge (N : Nat) (l : List α) (x : α) (h : N ≤ key x) :
    concatByKey key N (l ++ [x]) = concatByKey key N l := by
  induction N with
  | zero => simp [concatByKey]
  | succ n ih =>
    rw [concatByKey_succ, concatByKey_succ, ih (by omega)]
    have : (key x == n) = false := by simp; omega
    simp [List.filter_append, this]

theorem mem_concatByKey_lt (N : Nat) (l : List α) (a : α) (h : a ∈ concatByKey key N l) : key a < N := by
  simp only [concatByKey, List.mem_flatMap, List.mem_range, List.mem_filter, beq_iff_eq] at h
  obtain ⟨m, hm, _, hk⟩ := h
  omega

theorem sIns_concatByKey (N : Nat) (l : List α) (x : α) (h : key x < N) :
    sIns (keyLt key) x (concatByKey key N l) = concatByKey key N (l ++ [x]) := by
  induction N with
  | zero => omega
  | succ n ih =>
    rw [concatByKey_succ, concatByKey_succ]
    by_cases hx : key x < n
    · -- inserted inside the earlier blocks; the last block (key n) only has larger keys
      rw [sIns_append_of_all_lt key x _ _ (by
        intro b hb
        simp only [List.mem_filter, beq_iff_eq] at hb
        simp [keyLt]; omega)]
      rw [ih hx]
      have : (key x == n) = false := by simp; omega
      simp [List.filter_append, this]
    · have hxn : key x = n := by omega
      rw [sIns_append_of_none_lt key x _ _ (by
        intro a ha
        have := mem_concatByKey_lt key n l a ha
        simp [keyLt]; omega)]
      rw [sIns_at_end key x _ (by
        intro b hb
        simp only [List.mem_filter, beq_iff_eq] at hb
        simp [keyLt]; omega)]
      rw [concatByKey_append_ge key n l x (by omega)]
      simp [List.filter_append, hxn]

/-- **stable_sort_is_concat_by_key**: a stable sort by a (non-unique) key returns, for every input
sequence, the concatenation in key order of the subsequences with that key. -/
theorem stable_sort_aux (N : Nat) (l p : List α) (h : ∀ x ∈ l, key x < N) :
    l.foldl (fun acc x => sIns (keyLt key) x acc) (concatByKey key N p) = concatByKey key N (p ++ l) := by
  induction l generalizing p with
  | nil => simp
  | cons x xs ih =>
    simp only [List.foldl_cons]
    rw [sIns_concatByKey key N p x (h x (by simp))]
    rw [ih (p ++ [x]) (fun y hy => h y (List.mem_cons_of_mem _ hy))]
    simp

/-- **stable_sort_is_concat_by_key**: a stable sort by a (non-unique) key returns, for every input
sequence, the concatenation in key order of the subsequences with that key. -/
theorem stable_sort_is_concat_by_key (N : Nat) (l : List α) (h : ∀ x ∈ l, key x < N) :
    sSort (keyLt key) l = concatByKey key N l := by
  have := stable_sort_aux key N l [] h
  have e : concatByKey key N ([] : List α) = [] := by simp [concatByKey]
  rw [e] at this
  simpa [sSort] using this

end StableByKey

/-- **report_is_concat_of_module_reports**: the report `compile_sources` renders — the set sequence
stably sorted by module name — equals the concatenation of the per-module reports in module-name
order (`renderByName`), whatever the numbering of the module references. -/
theorem report_is_concat_of_module_reports (N : Nat) (ids : Nat → Nat) (pm : List (List Err))
    (h : ∀ e ∈ render ids pm, e.modl < N) :
    sSort (keyLt (fun e : Err => e.modl)) (render ids pm) = renderByName (List.range N) ids pm := by
  rw [stable_sort_is_concat_by_key (fun e : Err => e.modl) N _ h]
  rfl

example : sSort (keyLt (fun e : Err => e.modl)) (render (fun n => 5 - n) [[e1], [e2]]) = [e1, e2] := by decide

end SamVerif.ErrorSet
