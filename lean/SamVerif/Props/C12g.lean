import SamVerif.Props.C12
import SamVerif.Model.RenderByName
/-! # C12 — diagnostics rendered in module-name order do not depend on module-reference ids

Model of `ErrorSet::pretty_print_error_messages_in_module_name_order` (samlang-errors, used by
`compile_sources`): the in-order sequence of the set, stably sorted by the module's *name*.  A
stable sort by a key is the concatenation, in key order, of the subsequences with that key. -/
namespace SamVerif.ErrorSet

theorem lexLt_cons_same (x : Nat) (r r' : List Nat) : lexLt (x :: r) (x :: r') = lexLt r r' := by
  simp [lexLt]

theorem errLt_same_module (ids ids' : Nat → Nat) (a b : Err) (hm : a.modl = b.modl)
    (ha : atomsKey ids a.atoms = atomsKey ids' a.atoms) (hb : atomsKey ids b.atoms = atomsKey ids' b.atoms) :
    errLt ids a b = errLt ids' a b := by
  simp only [errLt, errKey, hm, lexLt_cons_same, ha, hb]

theorem mem_render (ids : Nat → Nat) (hi : Inj ids) (pm : List (List Err)) (x : Err) :
    x ∈ render ids pm ↔ ∃ l ∈ pm, x ∈ l := by
  have hs := errLt_strictTotal ids hi
  unfold render
  rw [mem_mergeAll _ x hs]
  constructor
  · rintro ⟨l, hl, hx⟩
    obtain ⟨m, hm, rfl⟩ := List.mem_map.mp hl
    exact ⟨m, hm, (mem_ofList _ x hs).mp hx⟩
  · rintro ⟨m, hm, hx⟩
    exact ⟨_, List.mem_map_of_mem hm, (mem_ofList _ x hs).mpr hx⟩

/-- **diagnostics_by_name_independent_of_module_ids** (full strength for the enumeration-order part
of the property, fix of finding C12-F1): two runs that number the module references differently
(any two injective id assignments) render the same report, provided the ids of the handles *inside*
error details (heap strings: deterministic since /repo 06eeb5e) are the same. -/
theorem diagnostics_by_name_independent_of_module_ids (names : List Nat) (ids ids' : Nat → Nat)
    (hi : Inj ids) (hi' : Inj ids') (pm : List (List Err))
    (hatoms : ∀ l ∈ pm, ∀ e ∈ l, atomsKey ids e.atoms = atomsKey ids' e.atoms) :
    renderByName names ids pm = renderByName names ids' pm := by
  have hs := errLt_strictTotal ids hi
  have hs' := errLt_strictTotal ids' hi'
  unfold renderByName
  congr 1
  funext m
  have sorted1 : Sorted (errLt ids) (render ids pm) := mergeAll_sorted _ hs
  have sorted2 : Sorted (errLt ids') (render ids' pm) := mergeAll_sorted _ hs'
  have f1 : Sorted (errLt ids) ((render ids pm).filter (fun e => e.modl == m)) :=
    List.Pairwise.sublist List.filter_sublist sorted1
  have f2 : Sorted (errLt ids') ((render ids' pm).filter (fun e => e.modl == m)) :=
    List.Pairwise.sublist List.filter_sublist sorted2
  apply sorted_ext (lt := errLt ids') _ _ hs' _ f2
  · intro x
    simp only [List.mem_filter, mem_render ids hi, mem_render ids' hi']
  · apply sorted_transfer _ f1
    intro a ha b hb hab
    simp only [List.mem_filter, beq_iff_eq, mem_render ids hi] at ha hb
    obtain ⟨⟨la, hla, hal⟩, hma⟩ := ha
    obtain ⟨⟨lb, hlb, hbl⟩, hmb⟩ := hb
    rw [← errLt_same_module ids ids' a b (hma.trans hmb.symm) (hatoms la hla a hal) (hatoms lb hlb b hbl)]
    exact hab

/-- the witness of C12-F1 now renders identically under both module numberings -/
example : renderByName [0, 1] id [[e1], [e2]] =
    renderByName [0, 1] (fun n => if n = 0 then 1 else if n = 1 then 0 else n) [[e1], [e2]] := by decide

end SamVerif.ErrorSet
