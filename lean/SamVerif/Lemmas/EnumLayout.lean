import SamVerif.Model.EnumLayout
/-! Helper lemmas for C01 / K1: invariant of the enum layout loop. -/
namespace SamVerif.EnumLayout

/-- Invariant of the layout loop after the variants `done` have been processed. -/
structure LInv (p : Ty → Bool) (done : List (List Ty)) (l : LState) : Prop where
  len : l.out.length = done.length
  i31 : ∀ (i : Nat), l.out[i]? = some .int31 → done[i]? = some []
  unb : ∀ (i : Nat) (t : Nat), l.out[i]? = some (.unboxed t) →
    done[i]? = some [.ref t] ∧ p (.ref t) = true ∧ l.pending = some (i, .ref t) ∧
    ∀ (j : Nat), j ≠ i → j < done.length → l.out[j]? = some .int31
  box : ∀ (i : Nat) (ts : List Ty), l.out[i]? = some (.boxed ts) →
    ∃ fs, done[i]? = some fs ∧ fs ≠ [] ∧ ts = .int :: fs
  pend : ∀ (i : Nat) (t : Ty), l.pending = some (i, t) → ∃ n, t = .ref n ∧ l.out[i]? = some (.unboxed n)
  perm : l.permit = true → ∀ (j : Nat), j < done.length → l.out[j]? = some .int31

theorem linv_init (p : Ty → Bool) : LInv p [] {} := by
  constructor <;> simp

theorem linv_step (p : Ty → Bool) (done : List (List Ty)) (l : LState) (fs : List Ty)
    (h : LInv p done l) :
    LInv p (done ++ [fs]) (layoutStep l done.length fs (ansOf p fs)) := by
  obtain ⟨len, i31, unb, box, pend, perm⟩ := h
  unfold layoutStep ansOf
  split
  · -- empty variant
    rename_i he
    have : fs = [] := by simpa using he
    subst this
    constructor
    · simp [len]
    · intro i hi
      grind
    · intro i t hi
      grind
    · intro i ts hi
      grind
    · intro i t hp
      grind
    · intro hp j hj
      grind
  · rename_i he
    have hne : fs ≠ [] := by simpa using he
    cases hp : l.pending with
    | none =>
      simp only []
      split
      · rename_i n
        by_cases hc : (l.permit && p (.ref n)) = true
        · simp only [hc, if_true]
          have hpm : l.permit = true := by grind
          have hpn : p (.ref n) = true := by grind
          have hall := perm hpm
          constructor
          · simp [len]
          · intro i hi; grind
          · intro i t hi; grind
          · intro i ts hi; grind
          · intro i t hp; grind
          · intro hp j hj; grind
        · simp only [hc]
          constructor
          · simp [len]
          · intro i hi; grind
          · intro i t hi; grind
          · intro i ts hi; grind
          · intro i t hp; grind
          · intro hp j hj; grind
      · constructor
        · simp [len]
        · intro i hi; grind
        · intro i t hi; grind
        · intro i ts hi; grind
        · intro i t hp; grind
        · intro hp j hj; grind
    | some it =>
      obtain ⟨i0, t0⟩ := it
      obtain ⟨n0, ht0, ho0⟩ := pend i0 t0 hp
      have hu := unb i0 n0 ho0
      have hi0 : i0 < l.out.length := by
        have := ho0
        grind
      have hperm : l.permit = false := by
        cases hq : l.permit with
        | false => rfl
        | true =>
          have := perm hq i0 (by omega)
          grind
      simp only [hperm]
      have key : ∀ (k : Nat), (l.out.set i0 (.boxed [.int, t0]))[k]? =
          if k = i0 then some (.boxed [.int, t0]) else l.out[k]? := by
        intro k
        by_cases hk : k = i0
        · subst hk; simp [hi0]
        · simp [hk, List.getElem?_set_ne (Ne.symm hk)]
      split
      · constructor
        · simp [len]
        · intro i hi; grind
        · intro i t hi; grind
        · intro i ts hi; grind
        · intro i t hp; grind
        · intro hp j hj; grind
      · constructor
        · simp [len]
        · intro i hi; grind
        · intro i t hi; grind
        · intro i ts hi; grind
        · intro i t hp; grind
        · intro hp j hj; grind

theorem layoutLoop_inv (p : Ty → Bool) (vs : List (List Ty)) :
    ∀ (done : List (List Ty)) (l : LState), LInv p done l →
      LInv p (done ++ vs) (layoutLoop p vs done.length l) := by
  induction vs with
  | nil => intro done l h; simpa [layoutLoop] using h
  | cons fs rest ih =>
    intro done l h
    have h1 := linv_step p done l fs h
    have h2 := ih (done ++ [fs]) _ h1
    simpa [layoutLoop, List.append_assoc] using h2

/-- What the loop guarantees about its result. -/
theorem layoutOf_inv (p : Ty → Bool) (variants : List (List Ty)) :
    LInv p variants (layoutLoop p variants 0 {}) := by
  have := layoutLoop_inv p variants [] {} (linv_init p)
  simpa using this

end SamVerif.EnumLayout
