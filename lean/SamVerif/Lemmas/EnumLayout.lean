import SamVerif.Model.EnumLayout
/-! Helper lemmas for C01 / K1: invariant of the enum layout loop. -/
namespace SamVerif.EnumLayout

/-- Invariant of the layout loop after the variants `done` have been processed. -/
structure LInv (P : Nat → Prop) (done : List (List Ty)) (l : LState) : Prop where
  len : l.out.length = done.length
  i31 : ∀ (i : Nat), l.out[i]? = some .int31 → done[i]? = some []
  unb : ∀ (i : Nat) (t : Nat), l.out[i]? = some (.unboxed t) →
    done[i]? = some [.ref t] ∧ P t ∧ l.pending = some (i, .ref t) ∧
    ∀ (j : Nat), j ≠ i → j < done.length → l.out[j]? = some .int31
  box : ∀ (i : Nat) (ts : List Ty), l.out[i]? = some (.boxed ts) →
    ∃ fs, done[i]? = some fs ∧ fs ≠ [] ∧ ts = .int :: fs
  pend : ∀ (i : Nat) (t : Ty), l.pending = some (i, t) → ∃ n, t = .ref n ∧ l.out[i]? = some (.unboxed n)
  perm : l.permit = true → ∀ (j : Nat), j < done.length → l.out[j]? = some .int31

theorem linv_init (P : Nat → Prop) : LInv P [] {} := by
  constructor <;> simp

/-- One loop iteration keeps the invariant, whatever answered the query, as long as a positive
answer for a single field `ref n` establishes `P n`. -/
theorem linv_step (P : Nat → Prop) (done : List (List Ty)) (l : LState) (fs : List Ty) (ans : Bool)
    (h : LInv P done l) (hans : ∀ n, fs = [.ref n] → ans = true → P n) :
    LInv P (done ++ [fs]) (layoutStep l done.length fs ans) := by
  obtain ⟨len, i31, unb, box, pend, perm⟩ := h
  unfold layoutStep
  split
  · -- empty variant
    rename_i he
    have : fs = [] := by simpa using he
    subst this
    constructor
    · simp [len]
    · intro i hi
      grind
    · intro i t hi
      grind
    · intro i ts hi
      grind
    · intro i t hp
      grind
    · intro hp j hj
      grind
  · rename_i he
    have hne : fs ≠ [] := by simpa using he
    cases hp : l.pending with
    | none =>
      simp only []
      split
      · rename_i n
        by_cases hc : (l.permit && ans) = true
        · simp only [hc, if_true]
          have hpm : l.permit = true := by grind
          have hpn : P n := hans n rfl (by grind)
          have hall := perm hpm
          constructor
          · simp [len]
          · intro i hi; grind
          · intro i t hi; grind
          · intro i ts hi; grind
          · intro i t hp; grind
          · intro hp j hj; grind
        · simp only [hc]
          constructor
          · simp [len]
          · intro i hi; grind
          · intro i t hi; grind
          · intro i ts hi; grind
          · intro i t hp; grind
          · intro hp j hj; grind
      · constructor
        · simp [len]
        · intro i hi; grind
        · intro i t hi; grind
        · intro i ts hi; grind
        · intro i t hp; grind
        · intro hp j hj; grind
    | some it =>
      obtain ⟨i0, t0⟩ := it
      obtain ⟨n0, ht0, ho0⟩ := pend i0 t0 hp
      have hu := unb i0 n0 ho0
      have hi0 : i0 < l.out.length := by
        have := ho0
        grind
      have hperm : l.permit = false := by
        cases hq : l.permit with
        | false => rfl
        | true =>
          have := perm hq i0 (by omega)
          grind
      simp only [hperm]
      have key : ∀ (k : Nat), (l.out.set i0 (.boxed [.int, t0]))[k]? =
          if k = i0 then some (.boxed [.int, t0]) else l.out[k]? := by
        intro k
        by_cases hk : k = i0
        · subst hk; simp [hi0]
        · simp [hk, List.getElem?_set_ne (Ne.symm hk)]
      split
      · constructor
        · simp [len]
        · intro i hi; grind
        · intro i t hi; grind
        · intro i ts hi; grind
        · intro i t hp; grind
        · intro hp j hj; grind
      · constructor
        · simp [len]
        · intro i hi; grind
        · intro i t hi; grind
        · intro i ts hi; grind
        · intro i t hp; grind
        · intro hp j hj; grind

theorem layoutLoop_inv (p : Ty → Bool) (vs : List (List Ty)) :
    ∀ (done : List (List Ty)) (l : LState), LInv (fun t => p (.ref t) = true) done l →
      LInv (fun t => p (.ref t) = true) (done ++ vs) (layoutLoop p vs done.length l) := by
  induction vs with
  | nil => intro done l h; simpa [layoutLoop] using h
  | cons fs rest ih =>
    intro done l h
    have h1 := linv_step _ done l fs (ansOf p fs) h (by
      intro n hf ha; subst hf; simpa [ansOf] using ha)
    have h2 := ih (done ++ [fs]) _ h1
    simpa [layoutLoop, List.append_assoc] using h2

/-- What the loop guarantees about its result. -/
theorem layoutOf_inv (p : Ty → Bool) (variants : List (List Ty)) :
    LInv (fun t => p (.ref t) = true) variants (layoutLoop p variants 0 {}) := by
  have := layoutLoop_inv p variants [] {} (linv_init _)
  simpa using this

theorem LInv.mono {P Q : Nat → Prop} {done : List (List Ty)} {l : LState}
    (h : LInv P done l) (hpq : ∀ t, P t → Q t) : LInv Q done l := by
  obtain ⟨len, i31, unb, box, pend, perm⟩ := h
  exact ⟨len, i31, fun i t hi => by
    obtain ⟨a, b, c, d⟩ := unb i t hi
    exact ⟨a, hpq t b, c, d⟩, box, pend, perm⟩

end SamVerif.EnumLayout
