import SamVerif.Model.Gc
import SamVerif.Props.C17
/-! Lemmas about the GC driver model (C11). -/
namespace SamVerif.Gc
open SamVerif.Heap

/-- The slot behind `p` is not an unmarked temporary, i.e. a covering sweep will not reclaim it. -/
def SweepSafe (h : Heap) (p : Handle) : Prop :=
  ∀ id, p = .ref id → ∀ s : Bytes, h.slots[id]? ≠ some (Slot.temp s false)

theorem mark_unmarked (h : Heap) (p : Handle) : (mark h p).unmarked = h.unmarked := by
  rcases mark_cases h p with he | ⟨id, s, m, _, _, he⟩ <;> rw [he]

theorem mark_safe_self (h : Heap) (p : Handle) : SweepSafe (mark h p) p := by
  intro id hp s
  subst hp
  rcases mark_cases h (.ref id) with he | ⟨id', t, m, hp, hsl, he⟩
  · rw [he]
    intro hc
    simp only [mark, hc] at he
    have := congrArg (fun x => x.slots[id]?) he
    simp only [getElem?_set'] at this
    grind
  · cases hp; rw [he]; simp only [getElem?_set']; grind

theorem mark_safe_mono (h : Heap) (p q : Handle) (hq : SweepSafe h q) : SweepSafe (mark h p) q := by
  intro id hqe s
  have := hq id hqe
  rcases mark_cases h p with he | ⟨id', t, m, hp, hsl, he⟩ <;> rw [he]
  · exact this s
  · simp only [getElem?_set']; grind

theorem mark_read (h : Heap) (p q : Handle) (s : Bytes) (hr : read h q = some s) :
    read (mark h p) q = some s := by
  rcases mark_cases h p with he | ⟨id', t, m, hp, hsl, he⟩ <;> rw [he]
  · exact hr
  · cases q with
    | inl a => exact hr
    | ref j =>
      simp only [Heap.read, getElem?_set'] at hr ⊢
      by_cases hj : id' = j
      · subst hj; rw [hsl] at hr
        have hlt : id' < h.slots.length := (List.getElem?_eq_some_iff.mp hsl).1
        simp [hlt]; simpa using hr
      · simp [hj]; exact hr

theorem markAll_unmarked (ps : List Handle) (h : Heap) : (markAll h ps).unmarked = h.unmarked := by
  induction ps generalizing h with
  | nil => rfl
  | cons p ps ih => simp only [markAll, List.foldl_cons] at ih ⊢; rw [ih, mark_unmarked]

theorem markAll_safe_mono (ps : List Handle) (h : Heap) (q : Handle) (hq : SweepSafe h q) :
    SweepSafe (markAll h ps) q := by
  induction ps generalizing h with
  | nil => exact hq
  | cons p ps ih => simp only [markAll, List.foldl_cons] at ih ⊢; exact ih _ (mark_safe_mono h p q hq)

theorem markAll_safe_mem (ps : List Handle) (h : Heap) (q : Handle) (hq : q ∈ ps) :
    SweepSafe (markAll h ps) q := by
  induction ps generalizing h with
  | nil => cases hq
  | cons p ps ih =>
    simp only [markAll, List.foldl_cons] at ih ⊢
    rcases List.mem_cons.mp hq with rfl | hq
    · exact markAll_safe_mono ps _ q (mark_safe_self h q)
    · exact ih _ hq

theorem markAll_read (ps : List Handle) (h : Heap) (q : Handle) (s : Bytes)
    (hr : read h q = some s) : read (markAll h ps) q = some s := by
  induction ps generalizing h with
  | nil => exact hr
  | cons p ps ih => simp only [markAll, List.foldl_cons] at ih ⊢; exact ih _ (mark_read h p q s hr)

theorem inv_markAll {h : Heap} (hi : Inv h) (ps : List Handle) : Inv (markAll h ps) := by
  induction ps generalizing h with
  | nil => exact hi
  | cons p ps ih => simp only [markAll, List.foldl_cons] at ih ⊢; exact ih (inv_mark hi p)

theorem addAll_slots (cs : List Nat) (h : Heap) : (addAll h cs).slots = h.slots := by
  induction cs generalizing h with
  | nil => rfl
  | cons c cs ih =>
    simp only [addAll, List.foldl_cons] at ih ⊢
    rw [ih]; unfold addUnmarked; split <;> rfl

theorem addAll_mem (cs : List Nat) (h : Heap) (m : Nat) (hm : m ∈ cs ∨ m ∈ h.unmarked) :
    m ∈ (addAll h cs).unmarked := by
  induction cs generalizing h with
  | nil => simpa [addAll] using hm
  | cons c cs ih =>
    simp only [addAll, List.foldl_cons] at ih ⊢
    apply ih
    rcases hm with hm | hm
    · rcases List.mem_cons.mp hm with rfl | hm
      · right; unfold addUnmarked; split
        · assumption
        · simp
      · left; exact hm
    · right; unfold addUnmarked; split
      · exact hm
      · simp [hm]

theorem inv_addAll {h : Heap} (hi : Inv h) (cs : List Nat) : Inv (addAll h cs) := by
  induction cs generalizing h with
  | nil => exact hi
  | cons c cs ih => simp only [addAll, List.foldl_cons] at ih ⊢; exact ih (inv_addUnmarked hi c)

theorem addAll_read (cs : List Nat) (h : Heap) (q : Handle) : read (addAll h cs) q = read h q := by
  cases q with
  | inl a => rfl
  | ref j => simp only [Heap.read, addAll_slots]

/-- Loop invariant: every checked module is still queued, or all its handles are sweep-safe. -/
def Queued (all : List Module) (h : Heap) : Prop :=
  ∀ md ∈ all, md.id ∈ h.unmarked ∨ ∀ p ∈ md.marks, SweepSafe h p

theorem findModule_some {all : List Module} {m : Nat} {md : Module}
    (h : findModule all m = some md) : md ∈ all ∧ md.id = m := by
  unfold findModule at h
  have h1 := List.mem_of_find?_eq_some h
  have h2 := List.find?_some h
  exact ⟨h1, by simpa using h2⟩

theorem findModule_none {all : List Module} {m : Nat} (h : findModule all m = none) :
    ∀ md ∈ all, md.id ≠ m := by
  unfold findModule at h
  intro md hmd hc
  have := List.find?_eq_none.mp h md hmd
  simp [hc] at this

/-- Module ids are the keys of a `HashMap`: pairwise distinct. -/
def DistinctIds (all : List Module) : Prop :=
  ∀ a ∈ all, ∀ b ∈ all, a.id = b.id → a = b

theorem markLoop_props (all : List Module) (hd : DistinctIds all) (cs : List (Option Nat))
    (slice : Nat) (h : Heap) (hi : Inv h) (hq : Queued all h) :
    Inv (markLoop all cs slice h) ∧ Queued all (markLoop all cs slice h) ∧
    (∀ q s, read h q = some s → read (markLoop all cs slice h) q = some s) ∧
    (∀ q, SweepSafe h q → SweepSafe (markLoop all cs slice h) q) := by
  induction cs generalizing slice h with
  | nil => exact ⟨hi, hq, fun _ _ hr => hr, fun _ hs => hs⟩
  | cons c cs ih =>
    simp only [markLoop]
    split
    · exact ⟨hi, hq, fun _ _ hr => hr, fun _ hs => hs⟩
    · cases c with
      | none => exact ⟨hi, hq, fun _ _ hr => hr, fun _ hs => hs⟩
      | some m =>
        simp only
        cases hp : popUnmarked h (some m) with
        | none => exact ⟨hi, hq, fun _ _ hr => hr, fun _ hs => hs⟩
        | some h' =>
          simp only
          have hi' : Inv h' := inv_popUnmarked hi _ hp
          have hpop : h'.slots = h.slots ∧ h'.unmarked = h.unmarked.filter (· ≠ m) := by
            simp only [popUnmarked] at hp
            split at hp
            · cases hp; exact ⟨rfl, rfl⟩
            · cases hp
          have hsafe' : ∀ q, SweepSafe h q → SweepSafe h' q := by
            intro q hs id hqe s; rw [hpop.1]; exact hs id hqe s
          have hread' : ∀ q s, read h q = some s → read h' q = some s := by
            intro q s hr
            cases q with
            | inl a => exact hr
            | ref j => simpa only [Heap.read, hpop.1] using hr
          cases hf : findModule all m with
          | some md =>
            simp only
            obtain ⟨hmd, hid⟩ := findModule_some hf
            have hq' : Queued all (markAll h' md.marks) := by
              intro md2 hmd2
              by_cases he : md2.id = m
              · have : md2 = md := hd md2 hmd2 md hmd (by rw [he, hid])
                subst this
                right; intro p hp; exact markAll_safe_mem _ _ p hp
              · rcases hq md2 hmd2 with hu | hs
                · left; rw [markAll_unmarked, hpop.2]; simp [hu, he]
                · right; intro p hp; exact markAll_safe_mono _ _ p (hsafe' p (hs p hp))
            obtain ⟨a, b, c, d⟩ := ih (slice - 1) (markAll h' md.marks) (inv_markAll hi' _) hq'
            exact ⟨a, b, fun q s hr => c q s (markAll_read _ _ q s (hread' q s hr)),
              fun q hs => d q (markAll_safe_mono _ _ q (hsafe' q hs))⟩
          | none =>
            simp only
            have hnone := findModule_none hf
            have hq' : Queued all h' := by
              intro md2 hmd2
              rcases hq md2 hmd2 with hu | hs
              · left; rw [hpop.2]; simp [hu, hnone md2 hmd2]
              · right; intro p hp; exact hsafe' p (hs p hp)
            obtain ⟨a, b, c, d⟩ := ih slice h' hi' hq'
            exact ⟨a, b, fun q s hr => c q s (hread' q s hr), fun q hs => d q (hsafe' q hs)⟩

end SamVerif.Gc
