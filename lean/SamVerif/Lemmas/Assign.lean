import SamVerif.Model.Assign
/-! Helper lemmas about `Model/Assign.lean` (the property theorems are in `Props/C06.lean`). -/
namespace SamVerif.Assign

mutual
theorem assignable_iff_eq : ∀ (a b : Ty), anyFree a = true → anyFree b = true →
    (assignable a b = true ↔ a = b)
  | .any _, _, h, _ => by simp [anyFree] at h
  | .prim a, b, _, hb => by cases b <;> simp_all [assignable, anyFree]
  | .generic a, b, _, hb => by cases b <;> simp_all [assignable, anyFree]
  | .nominal s m i ts, b, ha, hb => by
    cases b with
    | nominal s' m' i' ts' =>
      have := assignableL_iff_eq ts ts' (by simpa [anyFree] using ha) (by simpa [anyFree] using hb)
      simp only [assignable, Bool.and_eq_true, beq_iff_eq, this, Ty.nominal.injEq]
      constructor
      · rintro ⟨⟨⟨h1, h2⟩, h3⟩, h4⟩; exact ⟨h3, h1, h2, h4⟩
      · rintro ⟨h3, h1, h2, h4⟩; exact ⟨⟨⟨h1, h2⟩, h3⟩, h4⟩
    | _ => simp_all [assignable, anyFree]
  | .fn as r, b, ha, hb => by
    cases b with
    | fn bs r' =>
      simp only [anyFree, Bool.and_eq_true] at ha hb
      have h1 := assignableL_iff_eq as bs ha.1 hb.1
      have h2 := assignable_iff_eq r r' ha.2 hb.2
      simp only [assignable, Bool.and_eq_true, h1, h2, Ty.fn.injEq]
    | _ => simp_all [assignable, anyFree]
theorem assignableL_iff_eq : ∀ (as bs : List Ty), anyFreeL as = true → anyFreeL bs = true →
    (assignableL as bs = true ↔ as = bs)
  | [], [], _, _ => by simp [assignableL]
  | [], _ :: _, _, _ => by simp [assignableL]
  | _ :: _, [], _, _ => by simp [assignableL]
  | a :: as, b :: bs, ha, hb => by
    simp only [anyFreeL, Bool.and_eq_true] at ha hb
    have h1 := assignable_iff_eq a b ha.1 hb.1
    have h2 := assignableL_iff_eq as bs ha.2 hb.2
    simp only [assignableL, Bool.and_eq_true, h1, h2, List.cons.injEq]
end

mutual
theorem meet_isSome_eq : ∀ (a b : Ty), (meet a b).isSome = assignable a b
  | .any _, b => by cases b <;> simp [meet, assignable]
  | .prim a, b => by
    cases b <;> simp [meet, assignable]
    split <;> simp_all
  | .generic a, b => by
    cases b <;> simp [meet, assignable]
    split <;> simp_all
  | .nominal s m i ts, b => by
    cases b with
    | nominal s' m' i' ts' =>
      have := meetL_isSome_eq ts ts'
      simp only [meet, assignable]
      split
      · rename_i h; rw [h, Bool.true_and, ← this]; split <;> simp_all
      · rename_i h; simp only [Bool.not_eq_true] at h; rw [h]; simp
    | _ => simp [meet, assignable]
  | .fn as r, b => by
    cases b with
    | fn bs r' =>
      have h1 := meetL_isSome_eq as bs
      have h2 := meet_isSome_eq r r'
      simp only [meet, assignable, ← h1, ← h2]
      split
      · split <;> simp_all
      · simp_all
    | _ => simp [meet, assignable]
theorem meetL_isSome_eq : ∀ (as bs : List Ty), (meetL as bs).isSome = assignableL as bs
  | [], [] => by simp [meetL, assignableL]
  | [], _ :: _ => by simp [meetL, assignableL]
  | _ :: _, [] => by simp [meetL, assignableL]
  | a :: as, b :: bs => by
    have h1 := meet_isSome_eq a b
    have h2 := meetL_isSome_eq as bs
    simp only [meetL, assignableL, ← h1, ← h2]
    split
    · split <;> simp_all
    · simp_all
end

mutual
theorem meet_anyFree : ∀ (a b c : Ty), anyFree a = true → anyFree b = true → meet a b = some c → c = a
  | .any _, _, _, h, _, _ => by simp [anyFree] at h
  | .prim a, b, c, _, hb, h => by cases b <;> simp_all [meet, anyFree]
  | .generic a, b, c, _, hb, h => by cases b <;> simp_all [meet, anyFree]
  | .nominal s m i ts, b, c, ha, hb, h => by
    cases b with
    | nominal s' m' i' ts' =>
      simp only [meet] at h
      split at h
      · split at h
        · rename_i cs hcs
          have := meetL_anyFree ts ts' cs (by simpa [anyFree] using ha) (by simpa [anyFree] using hb) hcs
          simp_all
        · simp at h
      · simp at h
    | _ => simp_all [meet, anyFree]
  | .fn as r, b, c, ha, hb, h => by
    cases b with
    | fn bs r' =>
      simp only [anyFree, Bool.and_eq_true] at ha hb
      simp only [meet] at h
      split at h
      · rename_i cs hcs
        split at h
        · rename_i c' hc'
          have h1 := meetL_anyFree as bs cs ha.1 hb.1 hcs
          have h2 := meet_anyFree r r' c' ha.2 hb.2 hc'
          simp_all
        · simp at h
      · simp at h
    | _ => simp_all [meet, anyFree]
theorem meetL_anyFree : ∀ (as bs cs : List Ty), anyFreeL as = true → anyFreeL bs = true →
    meetL as bs = some cs → cs = as
  | [], [], cs, _, _, h => by simp_all [meetL]
  | [], _ :: _, _, _, _, h => by simp [meetL] at h
  | _ :: _, [], _, _, _, h => by simp [meetL] at h
  | a :: as, b :: bs, cs, ha, hb, h => by
    simp only [anyFreeL, Bool.and_eq_true] at ha hb
    simp only [meetL] at h
    split at h
    · rename_i c hc
      split at h
      · rename_i cs' hcs'
        have h1 := meet_anyFree a b c ha.1 hb.1 hc
        have h2 := meetL_anyFree as bs cs' ha.2 hb.2 hcs'
        simp_all
      · simp at h
    · simp at h
end

mutual
theorem sameType_iff_eq : ∀ (a b : Ty), anyFree a = true → anyFree b = true →
    noStatics a = true → noStatics b = true → (sameType a b = true ↔ a = b)
  | .any _, _, h, _, _, _ => by simp [anyFree] at h
  | .prim a, b, _, hb, _, _ => by cases b <;> simp_all [sameType, anyFree]
  | .generic a, b, _, hb, _, _ => by cases b <;> simp_all [sameType, anyFree]
  | .nominal s m i ts, b, ha, hb, sa, sb => by
    cases b with
    | nominal s' m' i' ts' =>
      simp only [noStatics, Bool.and_eq_true, Bool.not_eq_true'] at sa sb
      have := sameTypeL_iff_eq ts ts' (by simpa [anyFree] using ha) (by simpa [anyFree] using hb) sa.2 sb.2
      simp only [sameType, Bool.and_eq_true, beq_iff_eq, this, Ty.nominal.injEq, sa.1, sb.1, true_and]
      constructor
      · rintro ⟨⟨h1, h2⟩, h4⟩; exact ⟨h1, h2, h4⟩
      · rintro ⟨h1, h2, h4⟩; exact ⟨⟨h1, h2⟩, h4⟩
    | _ => simp_all [sameType, anyFree]
  | .fn as r, b, ha, hb, sa, sb => by
    cases b with
    | fn bs r' =>
      simp only [anyFree, noStatics, Bool.and_eq_true] at ha hb sa sb
      have h1 := sameTypeL_iff_eq as bs ha.1 hb.1 sa.1 sb.1
      have h2 := sameType_iff_eq r r' ha.2 hb.2 sa.2 sb.2
      simp only [sameType, Bool.and_eq_true, h1, h2, Ty.fn.injEq]
    | _ => simp_all [sameType, anyFree]
theorem sameTypeL_iff_eq : ∀ (as bs : List Ty), anyFreeL as = true → anyFreeL bs = true →
    noStaticsL as = true → noStaticsL bs = true → (sameTypeL as bs = true ↔ as = bs)
  | [], [], _, _, _, _ => by simp [sameTypeL]
  | [], _ :: _, _, _, _, _ => by simp [sameTypeL]
  | _ :: _, [], _, _, _, _ => by simp [sameTypeL]
  | a :: as, b :: bs, ha, hb, sa, sb => by
    simp only [anyFreeL, noStaticsL, Bool.and_eq_true] at ha hb sa sb
    have h1 := sameType_iff_eq a b ha.1 hb.1 sa.1 sb.1
    have h2 := sameTypeL_iff_eq as bs ha.2 hb.2 sa.2 sb.2
    simp only [sameTypeL, Bool.and_eq_true, h1, h2, List.cons.injEq]
end

mutual
theorem assignable_refl : ∀ (a : Ty), assignable a a = true
  | .any _ => by simp [assignable]
  | .prim _ => by simp [assignable]
  | .generic _ => by simp [assignable]
  | .nominal _ _ _ ts => by simp [assignable, assignableL_refl ts]
  | .fn as r => by simp [assignable, assignableL_refl as, assignable_refl r]
theorem assignableL_refl : ∀ (as : List Ty), assignableL as as = true
  | [] => by simp [assignableL]
  | a :: as => by simp [assignableL, assignable_refl a, assignableL_refl as]
end

end SamVerif.Assign
