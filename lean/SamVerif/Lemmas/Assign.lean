import SamVerif.Model.Assign
/-! Helper lemmas about `Model/Assign.lean` (the property theorems are in `Props/C06.lean`). -/
namespace SamVerif.Assign

mutual
theorem assignable_iff_eq : ∀ (a b : Ty), anyFree a = true → anyFree b = true →
    (assignable a b = true ↔ a = b)
  | .any _, _, h, _ => by simp [anyFree] at h
  | .prim a, b, _, hb => by cases b <;> simp_all [assignable, anyFree]
  | .generic a, b, _, hb => by cases b <;> simp_all [assignable, anyFree]
  | .nominal s m i ts, b, ha, hb => by
    cases b with
    | nominal s' m' i' ts' =>
      have := assignableL_iff_eq ts ts' (by simpa [anyFree] using ha) (by simpa [anyFree] using hb)
      simp only [assignable, Bool.and_eq_true, beq_iff_eq, this, Ty.nominal.injEq]
      constructor
      · rintro ⟨⟨⟨h1, h2⟩, h3⟩, h4⟩; exact ⟨h3, h1, h2, h4⟩
      · rintro ⟨h3, h1, h2, h4⟩; exact ⟨⟨⟨h1, h2⟩, h3⟩, h4⟩
    | _ => simp_all [assignable, anyFree]
  | .fn as r, b, ha, hb => by
    cases b with
    | fn bs r' =>
      simp only [anyFree, Bool.and_eq_true] at ha hb
      have h1 := assignableL_iff_eq as bs ha.1 hb.1
      have h2 := assignable_iff_eq r r' ha.2 hb.2
      simp only [assignable, Bool.and_eq_true, h1, h2, Ty.fn.injEq]
    | _ => simp_all [assignable, anyFree]
theorem assignableL_iff_eq : ∀ (as bs : List Ty), anyFreeL as = true → anyFreeL bs = true →
    (assignableL as bs = true ↔ as = bs)
  | [], [], _, _ => by simp [assignableL]
  | [], _ :: _, _, _ => by simp [assignableL]
  | _ :: _, [], _, _ => by simp [assignableL]
  | a :: as, b :: bs, ha, hb => by
    simp only [anyFreeL, Bool.and_eq_true] at ha hb
    have h1 := assignable_iff_eq a b ha.1 hb.1
    have h2 := assignableL_iff_eq as bs ha.2 hb.2
    simp only [assignableL, Bool.and_eq_true, h1, h2, List.cons.injEq]
end

mutual
theorem meet_isSome_eq : ∀ (a b : Ty), (meet a b).isSome = assignable a b
  | .any _, b => by cases b <;> simp [meet, assignable]
  | .prim a, b => by
    cases b <;> simp [meet, assignable]
    split <;> simp_all
  | .generic a, b => by
    cases b <;> simp [meet, assignable]
    split <;> simp_all
  | .nominal s m i ts, b => by
    cases b with
    | nominal s' m' i' ts' =>
      have := meetL_isSome_eq ts ts'
      simp only [meet, assignable]
      split
      · rename_i h; rw [h, Bool.true_and, ← this]; split <;> simp_all
      · rename_i h; simp only [Bool.not_eq_true] at h; rw [h]; simp
    | _ => simp [meet, assignable]
  | .fn as r, b => by
    cases b with
    | fn bs r' =>
      have h1 := meetL_isSome_eq as bs
      have h2 := meet_isSome_eq r r'
      simp only [meet, assignable, ← h1, ← h2]
      split
      · split <;> simp_all
      · simp_all
    | _ => simp [meet, assignable]
theorem meetL_isSome_eq : ∀ (as bs : List Ty), (meetL as bs).isSome = assignableL as bs
  | [], [] => by simp [meetL, assignableL]
  | [], _ :: _ => by simp [meetL, assignableL]
  | _ :: _, [] => by simp [meetL, assignableL]
  | a :: as, b :: bs => by
    have h1 := meet_isSome_eq a b
    have h2 := meetL_isSome_eq as bs
    simp only [meetL, assignableL, ← h1, ← h2]
    split
    · split <;> simp_all
    · simp_all
end

mutual
theorem meet_anyFree : ∀ (a b c : Ty), anyFree a = true → anyFree b = true → meet a b = some c → c = a
  | .any _, _, _, h, _, _ => by simp [anyFree] at h
  | .prim a, b, c, _, hb, h => by cases b <;> simp_all [meet, anyFree]
  | .generic a, b, c, _, hb, h => by cases b <;> simp_all [meet, anyFree]
  | .nominal s m i ts, b, c, ha, hb, h => by
    cases b with
    | nominal s' m' i' ts' =>
      simp only [meet] at h
      split at h
      · split at h
        · rename_i cs hcs
          have := meetL_anyFree ts ts' cs (by simpa [anyFree] using ha) (by simpa [anyFree] using hb) hcs
          simp_all
        · simp at h
      · simp at h
    | _ => simp_all [meet, anyFree]
  | .fn as r, b, c, ha, hb, h => by
    cases b with
    | fn bs r' =>
      simp only [anyFree, Bool.and_eq_true] at ha hb
      simp only [meet] at h
      split at h
      · rename_i cs hcs
        split at h
        · rename_i c' hc'
          have h1 := meetL_anyFree as bs cs ha.1 hb.1 hcs
          have h2 := meet_anyFree r r' c' ha.2 hb.2 hc'
          simp_all
        · simp at h
      · simp at h
    | _ => simp_all [meet, anyFree]
theorem meetL_anyFree : ∀ (as bs cs : List Ty), anyFreeL as = true → anyFreeL bs = true →
    meetL as bs = some cs → cs = as
  | [], [], cs, _, _, h => by simp_all [meetL]
  | [], _ :: _, _, _, _, h => by simp [meetL] at h
  | _ :: _, [], _, _, _, h => by simp [meetL] at h
  | a :: as, b :: bs, cs, ha, hb, h => by
    simp only [anyFreeL, Bool.and_eq_true] at ha hb
    simp only [meetL] at h
    split at h
    · rename_i c hc
      split at h
      · rename_i cs' hcs'
        have h1 := meet_anyFree a b c ha.1 hb.1 hc
        have h2 := meetL_anyFree as bs cs' ha.2 hb.2 hcs'
        simp_all
      · simp at h
    · simp at h
end

mutual
theorem sameType_iff_eq : ∀ (a b : Ty), anyFree a = true → anyFree b = true →
    noStatics a = true → noStatics b = true → (sameType a b = true ↔ a = b)
  | .any _, _, h, _, _, _ => by simp [anyFree] at h
  | .prim a, b, _, hb, _, _ => by cases b <;> simp_all [sameType, anyFree]
  | .generic a, b, _, hb, _, _ => by cases b <;> simp_all [sameType, anyFree]
  | .nominal s m i ts, b, ha, hb, sa, sb => by
    cases b with
    | nominal s' m' i' ts' =>
      simp only [noStatics, Bool.and_eq_true, Bool.not_eq_true'] at sa sb
      have := sameTypeL_iff_eq ts ts' (by simpa [anyFree] using ha) (by simpa [anyFree] using hb) sa.2 sb.2
      simp only [sameType, Bool.and_eq_true, beq_iff_eq, this, Ty.nominal.injEq, sa.1, sb.1, true_and]
      constructor
      · rintro ⟨⟨h1, h2⟩, h4⟩; exact ⟨h1, h2, h4⟩
      · rintro ⟨h1, h2, h4⟩; exact ⟨⟨h1, h2⟩, h4⟩
    | _ => simp_all [sameType, anyFree]
  | .fn as r, b, ha, hb, sa, sb => by
    cases b with
    | fn bs r' =>
      simp only [anyFree, noStatics, Bool.and_eq_true] at ha hb sa sb
      have h1 := sameTypeL_iff_eq as bs ha.1 hb.1 sa.1 sb.1
      have h2 := sameType_iff_eq r r' ha.2 hb.2 sa.2 sb.2
      simp only [sameType, Bool.and_eq_true, h1, h2, Ty.fn.injEq]
    | _ => simp_all [sameType, anyFree]
theorem sameTypeL_iff_eq : ∀ (as bs : List Ty), anyFreeL as = true → anyFreeL bs = true →
    noStaticsL as = true → noStaticsL bs = true → (sameTypeL as bs = true ↔ as = bs)
  | [], [], _, _, _, _ => by simp [sameTypeL]
  | [], _ :: _, _, _, _, _ => by simp [sameTypeL]
  | _ :: _, [], _, _, _, _ => by simp [sameTypeL]
  | a :: as, b :: bs, ha, hb, sa, sb => by
    simp only [anyFreeL, noStaticsL, Bool.and_eq_true] at ha hb sa sb
    have h1 := sameType_iff_eq a b ha.1 hb.1 sa.1 sb.1
    have h2 := sameTypeL_iff_eq as bs ha.2 hb.2 sa.2 sb.2
    simp only [sameTypeL, Bool.and_eq_true, h1, h2, List.cons.injEq]
end

mutual
theorem assignable_refl : ∀ (a : Ty), assignable a a = true
  | .any _ => by simp [assignable]
  | .prim _ => by simp [assignable]
  | .generic _ => by simp [assignable]
  | .nominal _ _ _ ts => by simp [assignable, assignableL_refl ts]
  | .fn as r => by simp [assignable, assignableL_refl as, assignable_refl r]
theorem assignableL_refl : ∀ (as : List Ty), assignableL as as = true
  | [] => by simp [assignableL]
  | a :: as => by simp [assignableL, assignable_refl a, assignableL_refl as]
end

mutual
theorem fillInt_anyFree : ∀ (t : Ty), anyFree (fillInt t) = true
  | .any _ => by simp [fillInt, anyFree]
  | .prim _ => by simp [fillInt, anyFree]
  | .generic _ => by simp [fillInt, anyFree]
  | .nominal _ _ _ ts => by simp [fillInt, anyFree, fillIntL_anyFree ts]
  | .fn as r => by simp [fillInt, anyFree, fillIntL_anyFree as, fillInt_anyFree r]
theorem fillIntL_anyFree : ∀ (ts : List Ty), anyFreeL (fillIntL ts) = true
  | [] => by simp [fillIntL, anyFreeL]
  | t :: ts => by simp [fillIntL, anyFreeL, fillInt_anyFree t, fillIntL_anyFree ts]
end

mutual
theorem refines_fillInt : ∀ (t : Ty), refines t (fillInt t) = true
  | .any _ => by simp [fillInt, refines]
  | .prim _ => by simp [fillInt, refines]
  | .generic _ => by simp [fillInt, refines]
  | .nominal _ _ _ ts => by simp [fillInt, refines, refinesL_fillInt ts]
  | .fn as r => by simp [fillInt, refines, refinesL_fillInt as, refines_fillInt r]
theorem refinesL_fillInt : ∀ (ts : List Ty), refinesL ts (fillIntL ts) = true
  | [] => by simp [fillIntL, refinesL]
  | t :: ts => by simp [fillIntL, refinesL, refines_fillInt t, refinesL_fillInt ts]
end

-- soundness direction: accepted ⇒ `common a b` is an any-free common instance
mutual
theorem common_spec : ∀ (a b : Ty), assignable a b = true →
    anyFree (common a b) = true ∧ refines a (common a b) = true ∧ refines b (common a b) = true
  | .any _, b, _ => by
    simp [common, refines, fillInt_anyFree, refines_fillInt]
  | .prim k, b, h => by
    cases b <;> simp_all [assignable, common, refines, anyFree]
  | .generic n, b, h => by
    cases b <;> simp_all [assignable, common, refines, anyFree]
  | .nominal s m i as, b, h => by
    cases b with
    | nominal s' m' i' bs =>
      simp only [assignable, Bool.and_eq_true, beq_iff_eq] at h
      obtain ⟨⟨⟨rfl, rfl⟩, rfl⟩, hl⟩ := h
      have := commonL_spec as bs hl
      simp [common, anyFree, refines, this]
    | any p =>
      simp [common, refines, fillInt_anyFree, refines_fillInt]
    | _ => simp [assignable] at h
  | .fn as r, b, h => by
    cases b with
    | fn bs r' =>
      simp only [assignable, Bool.and_eq_true] at h
      have h1 := commonL_spec as bs h.1
      have h2 := common_spec r r' h.2
      simp [common, anyFree, refines, h1, h2]
    | any p =>
      simp [common, refines, fillInt_anyFree, refines_fillInt]
    | _ => simp [assignable] at h
theorem commonL_spec : ∀ (as bs : List Ty), assignableL as bs = true →
    anyFreeL (commonL as bs) = true ∧ refinesL as (commonL as bs) = true ∧ refinesL bs (commonL as bs) = true
  | [], [], _ => by simp [commonL, anyFreeL, refinesL]
  | [], _ :: _, h => by simp [assignableL] at h
  | _ :: _, [], h => by simp [assignableL] at h
  | a :: as, b :: bs, h => by
    simp only [assignableL, Bool.and_eq_true] at h
    have h1 := common_spec a b h.1
    have h2 := commonL_spec as bs h.2
    simp [commonL, anyFreeL, refinesL, h1, h2]
end

-- completeness direction
mutual
theorem assignable_of_common_instance : ∀ (a b c : Ty), anyFree c = true →
    refines a c = true → refines b c = true → assignable a b = true
  | .any _, _, _, _, _, _ => by simp [assignable]
  | .prim k, b, c, hc, ha, hb => by
    cases b <;> cases c <;> simp_all [assignable, refines, anyFree]
  | .generic n, b, c, hc, ha, hb => by
    cases b <;> cases c <;> simp_all [assignable, refines, anyFree]
  | .nominal s m i as, b, c, hc, ha, hb => by
    cases c with
    | nominal s2 m2 i2 cs =>
      cases b with
      | nominal s1 m1 i1 bs =>
        simp only [refines, Bool.and_eq_true, beq_iff_eq] at ha hb
        simp only [anyFree] at hc
        have := assignableL_of_common_instance as bs cs hc ha.2 hb.2
        simp [assignable, this, ha.1, hb.1]
      | any p => simp [assignable]
      | _ => simp [refines] at hb
    | _ => simp [refines] at ha
  | .fn as r, b, c, hc, ha, hb => by
    cases c with
    | fn cs rc =>
      cases b with
      | fn bs rb =>
        simp only [refines, Bool.and_eq_true] at ha hb
        simp only [anyFree, Bool.and_eq_true] at hc
        have h1 := assignableL_of_common_instance as bs cs hc.1 ha.1 hb.1
        have h2 := assignable_of_common_instance r rb rc hc.2 ha.2 hb.2
        simp [assignable, h1, h2]
      | any p => simp [assignable]
      | _ => simp [refines] at hb
    | _ => simp [refines] at ha
theorem assignableL_of_common_instance : ∀ (as bs cs : List Ty), anyFreeL cs = true →
    refinesL as cs = true → refinesL bs cs = true → assignableL as bs = true
  | [], [], _, _, _, _ => by simp [assignableL]
  | [], _ :: _, cs, _, ha, hb => by cases cs <;> simp_all [refinesL]
  | _ :: _, [], cs, _, ha, hb => by cases cs <;> simp_all [refinesL]
  | a :: as, b :: bs, cs, hc, ha, hb => by
    cases cs with
    | nil => simp [refinesL] at ha
    | cons c cs =>
      simp only [refinesL, anyFreeL, Bool.and_eq_true] at ha hb hc
      have h1 := assignable_of_common_instance a b c hc.1 ha.1 hb.1
      have h2 := assignableL_of_common_instance as bs cs hc.2 ha.2 hb.2
      simp [assignableL, h1, h2]
end


/-- all bound values are any-free -/
def AnyFreeVals (s : Subst) : Prop := ∀ n t, s.get n = some t → anyFree t = true
/-- all keys are type parameters -/
def KeysIn (tps : List Nat) (s : Subst) : Prop := ∀ n t, s.get n = some t → n ∈ tps
/-- `s'` keeps every binding of `s` -/
def Ext (s s' : Subst) : Prop := ∀ n t, s.get n = some t → s'.get n = some t

theorem Ext.refl (s : Subst) : Ext s s := fun _ _ h => h
theorem Ext.trans {a b c : Subst} (h1 : Ext a b) (h2 : Ext b c) : Ext a c :=
  fun n t h => h2 n t (h1 n t h)

theorem get_append_single (s : Subst) (k : Nat) (v : Ty) (n : Nat) :
    (s ++ [(k, v)]).get n = match s.get n with
      | some t => some t
      | none => if k = n then some v else none := by
  induction s with
  | nil => simp [Subst.get]
  | cons kv rest ih =>
    obtain ⟨k', v'⟩ := kv
    simp only [List.cons_append, Subst.get]
    split
    · rfl
    · exact ih

mutual
theorem containsPlaceholder_of_anyFree : ∀ (t : Ty), anyFree t = true → containsPlaceholder t = false
  | .any _, h => by simp [anyFree] at h
  | .prim _, _ => by simp [containsPlaceholder]
  | .generic _, _ => by simp [containsPlaceholder]
  | .nominal _ _ _ ts, h => by
    simp only [anyFree] at h
    simp [containsPlaceholder, containsPlaceholderL_of_anyFree ts h]
  | .fn as r, h => by
    simp only [anyFree, Bool.and_eq_true] at h
    simp [containsPlaceholder, containsPlaceholderL_of_anyFree as h.1, containsPlaceholder_of_anyFree r h.2]
theorem containsPlaceholderL_of_anyFree : ∀ (ts : List Ty), anyFreeL ts = true → containsPlaceholderL ts = false
  | [], _ => by simp [containsPlaceholderL]
  | t :: ts, h => by
    simp only [anyFreeL, Bool.and_eq_true] at h
    simp [containsPlaceholderL, containsPlaceholder_of_anyFree t h.1, containsPlaceholderL_of_anyFree ts h.2]
end

-- solve only appends bindings of type parameters to any-free subterms of the concrete type
mutual
theorem solve_inv (tps : List Nat) : ∀ (g c : Ty) (s : Subst), anyFree c = true →
    AnyFreeVals s → KeysIn tps s →
    Ext s (solve tps c g s) ∧ AnyFreeVals (solve tps c g s) ∧ KeysIn tps (solve tps c g s)
  | .any _, c, s, _, hv, hk => by simp [solve, Ext.refl, hv, hk]
  | .prim _, c, s, _, hv, hk => by simp [solve, Ext.refl, hv, hk]
  | .generic n, c, s, hc, hv, hk => by
    simp only [solve]
    split
    · rename_i hcond
      simp only [Bool.and_eq_true, List.contains_iff_mem, Option.isNone_iff_eq_none] at hcond
      rw [containsPlaceholder_of_anyFree c hc]
      simp only [Bool.not_false, if_true]
      refine ⟨?_, ?_, ?_⟩
      · intro m t hm; rw [get_append_single, hm]
      · intro m t hm
        rw [get_append_single] at hm
        split at hm
        · rename_i t' ht'; simp at hm; subst hm; exact hv m t' ht'
        · split at hm
          · simp at hm; subst hm; exact hc
          · simp at hm
      · intro m t hm
        rw [get_append_single] at hm
        split at hm
        · rename_i t' ht'; exact hk m t' ht'
        · split at hm
          · rename_i hkn; subst hkn; exact hcond.1
          · simp at hm
    · exact ⟨Ext.refl s, hv, hk⟩
  | .nominal _ gm gi gts, c, s, hc, hv, hk => by
    cases c with
    | nominal cs cm ci cts =>
      simp only [solve]
      split
      · simp only [anyFree] at hc
        exact solveL_inv tps gts cts s hc hv hk
      · exact ⟨Ext.refl s, hv, hk⟩
    | _ => simp [solve, Ext.refl, hv, hk]
  | .fn gas gr, c, s, hc, hv, hk => by
    cases c with
    | fn cas cr =>
      simp only [solve]
      simp only [anyFree, Bool.and_eq_true] at hc
      have h1 := solveL_inv tps gas cas s hc.1 hv hk
      have h2 := solve_inv tps gr cr (solveL tps cas gas s) hc.2 h1.2.1 h1.2.2
      exact ⟨h1.1.trans h2.1, h2.2.1, h2.2.2⟩
    | _ => simp [solve, Ext.refl, hv, hk]
theorem solveL_inv (tps : List Nat) : ∀ (gs cs : List Ty) (s : Subst), anyFreeL cs = true →
    AnyFreeVals s → KeysIn tps s →
    Ext s (solveL tps cs gs s) ∧ AnyFreeVals (solveL tps cs gs s) ∧ KeysIn tps (solveL tps cs gs s)
  | [], cs, s, _, hv, hk => by cases cs <;> simp [solveL, Ext.refl, hv, hk]
  | g :: gs, [], s, _, hv, hk => by simp [solveL, Ext.refl, hv, hk]
  | g :: gs, c :: cs, s, hc, hv, hk => by
    simp only [anyFreeL, Bool.and_eq_true] at hc
    simp only [solveL]
    have h1 := solve_inv tps g c s hc.1 hv hk
    have h2 := solveL_inv tps gs cs (solve tps c g s) hc.2 h1.2.1 h1.2.2
    exact ⟨h1.1.trans h2.1, h2.2.1, h2.2.2⟩
end

theorem substL_length (m : Subst) : ∀ (ts : List Ty), (substL m ts).length = ts.length
  | [] => by simp [substL]
  | t :: ts => by simp [substL, substL_length m ts]

theorem assignableL_length : ∀ (xs ys : List Ty), assignableL xs ys = true → xs.length = ys.length
  | [], [], _ => rfl
  | [], _ :: _, h => by simp [assignableL] at h
  | _ :: _, [], h => by simp [assignableL] at h
  | x :: xs, y :: ys, h => by
    simp only [assignableL, Bool.and_eq_true] at h
    simp [assignableL_length xs ys h.2]

-- accepted by the final check => the substituted generic type IS the concrete type
mutual
theorem solve_exact (tps : List Nat) : ∀ (g c : Ty) (s sf : Subst), anyFree c = true → anyFree g = true →
    AnyFreeVals s → KeysIn tps s → Ext (solve tps c g s) sf → KeysIn tps sf →
    assignable c (subst sf g) = true → subst sf g = c
  | .any _, _, _, _, _, hg, _, _, _, _, _ => by simp [anyFree] at hg
  | .prim k, c, s, sf, hc, _, _, _, _, _, ha => by
    simp only [subst] at ha ⊢
    exact ((assignable_iff_eq c (.prim k) hc (by simp [anyFree])).1 ha).symm
  | .generic n, c, s, sf, hc, _, hv, hk, hext, hkf, ha => by
    by_cases hcond : (tps.contains n && (s.get n).isNone) = true
    · have hcond' : n ∈ tps ∧ s.get n = none := by simpa using hcond
      have hs : solve tps c (.generic n) s = s ++ [(n, c)] := by
        simp [solve, hcond'.1, hcond'.2, containsPlaceholder_of_anyFree c hc]
      replace hcond := hcond'
      have : sf.get n = some c := by
        apply hext
        rw [hs, get_append_single, hcond.2]
        simp
      simp [subst, this]
    · have hs : solve tps c (.generic n) s = s := by
        simp only [solve]
        split
        · rename_i h; exact absurd h hcond
        · rfl
      rw [hs] at hext
      cases hget : s.get n with
      | some t =>
        have hf := hext n t hget
        simp only [subst, hf] at ha ⊢
        exact ((assignable_iff_eq c t hc (hv n t hget)).1 ha).symm
      | none =>
        have hnot : n ∉ tps := by
          intro hmem
          apply hcond
          simp [hmem, hget]
        have hf : sf.get n = none := by
          cases h' : sf.get n with
          | none => rfl
          | some t => exact absurd (hkf n t h') hnot
        simp only [subst, hf] at ha ⊢
        exact ((assignable_iff_eq c (.generic n) hc (by simp [anyFree])).1 ha).symm
  | .nominal gs gm gi gts, c, s, sf, hc, hg, hv, hk, hext, hkf, ha => by
    cases c with
    | nominal cs cm ci cts =>
      simp only [subst, assignable, Bool.and_eq_true, beq_iff_eq] at ha
      obtain ⟨⟨⟨h1, h2⟩, h3⟩, hl⟩ := ha
      have hlen : gts.length = cts.length := by
        have := assignableL_length _ _ hl
        rw [substL_length] at this
        exact this.symm
      have hs : solve tps (.nominal cs cm ci cts) (.nominal gs gm gi gts) s = solveL tps cts gts s := by
        simp [solve, hlen, h1, h2]
      rw [hs] at hext
      simp only [anyFree] at hc hg
      have := solveL_exact tps gts cts s sf hc hg hv hk hext hkf hl
      simp [subst, this, h1, h2, h3]
    | any _ => simp [anyFree] at hc
    | _ => simp [subst, assignable] at ha
  | .fn gas gr, c, s, sf, hc, hg, hv, hk, hext, hkf, ha => by
    cases c with
    | fn cas cr =>
      simp only [subst, assignable, Bool.and_eq_true] at ha
      simp only [anyFree, Bool.and_eq_true] at hc hg
      have hs : solve tps (.fn cas cr) (.fn gas gr) s = solve tps cr gr (solveL tps cas gas s) := by
        simp [solve]
      rw [hs] at hext
      have h1 := solveL_inv tps gas cas s hc.1 hv hk
      have h2 := solve_inv tps gr cr (solveL tps cas gas s) hc.2 h1.2.1 h1.2.2
      have ha1 := solveL_exact tps gas cas s sf hc.1 hg.1 hv hk (h2.1.trans hext) hkf ha.1
      have ha2 := solve_exact tps gr cr (solveL tps cas gas s) sf hc.2 hg.2 h1.2.1 h1.2.2 hext hkf ha.2
      simp [subst, ha1, ha2]
    | any _ => simp [anyFree] at hc
    | _ => simp [subst, assignable] at ha
theorem solveL_exact (tps : List Nat) : ∀ (gs cs : List Ty) (s sf : Subst), anyFreeL cs = true → anyFreeL gs = true →
    AnyFreeVals s → KeysIn tps s → Ext (solveL tps cs gs s) sf → KeysIn tps sf →
    assignableL cs (substL sf gs) = true → substL sf gs = cs
  | [], cs, _, _, _, _, _, _, _, _, ha => by
    cases cs with
    | nil => simp [substL]
    | cons _ _ => simp [substL, assignableL] at ha
  | g :: gs, [], _, _, _, _, _, _, _, _, ha => by simp [substL, assignableL] at ha
  | g :: gs, c :: cs, s, sf, hc, hg, hv, hk, hext, hkf, ha => by
    simp only [anyFreeL, Bool.and_eq_true] at hc hg
    simp only [substL, assignableL, Bool.and_eq_true] at ha
    simp only [solveL] at hext
    have h1 := solve_inv tps g c s hc.1 hv hk
    have h2 := solveL_inv tps gs cs (solve tps c g s) hc.2 h1.2.1 h1.2.2
    have ha1 := solve_exact tps g c s sf hc.1 hg.1 hv hk (h2.1.trans hext) hkf ha.1
    have ha2 := solveL_exact tps gs cs (solve tps c g s) sf hc.2 hg.2 h1.2.1 h1.2.2 hext hkf ha.2
    simp [substL, ha1, ha2]
end

-- fillPlaceholders keeps bindings and only adds type-parameter keys
theorem fill_inv (tps all : List Nat) (s : Subst) (hk : KeysIn all s) (hsub : ∀ n ∈ tps, n ∈ all) :
    Ext s (tps.foldl (fun s n => if (s.get n).isNone then s ++ [(n, .any true)] else s) s) ∧
    KeysIn all (tps.foldl (fun s n => if (s.get n).isNone then s ++ [(n, .any true)] else s) s) := by
  induction tps generalizing s with
  | nil => exact ⟨Ext.refl s, hk⟩
  | cons n tps ih =>
    simp only [List.foldl_cons]
    have hsub' : ∀ m ∈ tps, m ∈ all := fun m hm => hsub m (by simp [hm])
    split
    · rename_i hnone
      have hk' : KeysIn all (s ++ [(n, .any true)]) := by
        intro m t hm
        rw [get_append_single] at hm
        split at hm
        · rename_i t' ht'; exact hk m t' ht'
        · split at hm
          · rename_i hnm; subst hnm; exact hsub n (by simp)
          · simp at hm
      have hext' : Ext s (s ++ [(n, .any true)]) := by
        intro m t hm; rw [get_append_single, hm]
      have := ih (s ++ [(n, .any true)]) hk' hsub'
      exact ⟨hext'.trans this.1, this.2⟩
    · exact ih s hk hsub'


end SamVerif.Assign
