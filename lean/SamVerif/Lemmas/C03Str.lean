import SamVerif.Props.C04
/-!
The only place where C03 depends on the *names* of C04's string-constant lemmas
(`Props/C04.lean`): what C03 needs is re-exported here under C03's own names, so that a rename or a
restructuring upstream shows up in this file alone.

Used upstream names: `lexAccepts_wellEscQ`, `content_wellEsc`, `cook_escape`
(and the model functions `lexAccepts`, `content`, `tsDecode`, `tsEscape`, `tsCook`, `wasmUnescape`,
`utf16`, `WellEsc` of `Model/Backends.lean` / `Props/C04.lean`).
-/
namespace SamVerif.C03Str
open SamVerif.Backends

/-- the content of a literal the lexer accepts is well-escaped (every backslash starts one of the
eight escape sequences or `\\`) -/
theorem accepted_content_wellEsc (raw : Text) (h : lexAccepts raw = true) : WellEsc (content raw) :=
  (content_wellEsc raw (lexAccepts_wellEscQ raw h)).1

/-- well-escaped content, as printed by `template_literal_text` between back quotes, is one
substitution-free template literal; JS cooks it to the UTF-16 form of the characters the escapes denote -/
theorem wellEsc_closed (s : Text) (hw : WellEsc s) :
    tsDecode s = some ((wasmUnescape s).flatMap utf16) := by
  unfold tsDecode
  exact cook_escape s.length s (Nat.le_refl _) hw

end SamVerif.C03Str
