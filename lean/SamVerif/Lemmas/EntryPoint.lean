import SamVerif.Model.EntryPoint
/-! Totality of type rewriting when every free type variable has a replacement (C05 entry points). -/
namespace SamVerif.EntryPoint

mutual
theorem substOpt_total (m : List (Nat × Ty)) (t : Ty)
    (h : ∀ v ∈ freeVars t, (m.find? (·.1 == v)).isSome) : (substOpt m t).isSome := by
  match t with
  | .prim => simp [substOpt]
  | .generic v => simpa [substOpt, freeVars] using h v (by simp [freeVars])
  | .nominal args =>
    have := substOptL_total m args (by intro v hv; exact h v (by simpa [freeVars] using hv))
    simp only [substOpt, Option.isSome_map]; exact this
  | .fn args ret =>
    have h1 := substOptL_total m args (by intro v hv; exact h v (by simp [freeVars, hv]))
    have h2 := substOpt_total m ret (by intro v hv; exact h v (by simp [freeVars, hv]))
    simp only [substOpt]
    cases ha : substOptL m args <;> cases hr : substOpt m ret <;> simp_all
theorem substOptL_total (m : List (Nat × Ty)) (ts : List Ty)
    (h : ∀ v ∈ freeVarsL ts, (m.find? (·.1 == v)).isSome) : (substOptL m ts).isSome := by
  match ts with
  | [] => simp [substOptL]
  | t :: rest =>
    have h1 := substOpt_total m t (by intro v hv; exact h v (by simp [freeVarsL, hv]))
    have h2 := substOptL_total m rest (by intro v hv; exact h v (by simp [freeVarsL, hv]))
    simp only [substOptL]
    cases ha : substOpt m t <;> cases hr : substOptL m rest <;> simp_all
end

end SamVerif.EntryPoint
