import SamVerif.Model.Source
/-! Consistent renaming of variables (SRC, for `alpha_invariant`): the renaming of patterns,
expressions, values, states, results and programs by a map `ρ` on names, and the proof that every
building block of the evaluator commutes with it when `ρ` is injective and fixes `this`. -/
namespace SamVerif.Source

/-! ## Renaming -/

mutual
def Pat.ren (ρ : String → String) : Pat → Pat
  | .wild => .wild
  | .var x => .var (ρ x)
  | .tuple ps => .tuple (Pat.renList ρ ps)
  | .obj idxs ps => .obj idxs (Pat.renList ρ ps)
  | .variant t ps => .variant t (Pat.renList ρ ps)
  | .or ps => .or (Pat.renList ρ ps)
def Pat.renList (ρ : String → String) : List Pat → List Pat
  | [] => []
  | p :: ps => Pat.ren ρ p :: Pat.renList ρ ps
end

mutual
def Expr.ren (ρ : String → String) : Expr → Expr
  | .int n => .int n
  | .bool b => .bool b
  | .str raw => .str raw
  | .var x => .var (ρ x)
  | .classId c => .classId c
  | .tuple c es => .tuple c (Expr.renList ρ es)
  | .field i e => .field i (Expr.ren ρ e)
  | .method r n e => .method r n (Expr.ren ρ e)
  | .unary op e => .unary op (Expr.ren ρ e)
  | .call f args => .call (Expr.ren ρ f) (Expr.renList ρ args)
  | .binary op a b => .binary op (Expr.ren ρ a) (Expr.ren ρ b)
  | .ite c a b => .ite (Expr.ren ρ c) (Expr.ren ρ a) (Expr.ren ρ b)
  | .iflet p e a b => .iflet (Pat.ren ρ p) (Expr.ren ρ e) (Expr.ren ρ a) (Expr.ren ρ b)
  | .match e cases => .match (Expr.ren ρ e) (Expr.renCases ρ cases)
  | .lam ps b => .lam (ps.map ρ) (Expr.ren ρ b)
  | .block stmts final => .block (Expr.renCases ρ stmts) (Expr.renOpt ρ final)
def Expr.renList (ρ : String → String) : List Expr → List Expr
  | [] => []
  | e :: es => Expr.ren ρ e :: Expr.renList ρ es
def Expr.renCases (ρ : String → String) : List (Pat × Expr) → List (Pat × Expr)
  | [] => []
  | c :: rest => Expr.renCase ρ c :: Expr.renCases ρ rest
def Expr.renCase (ρ : String → String) : Pat × Expr → Pat × Expr
  | (p, e) => (Pat.ren ρ p, Expr.ren ρ e)
def Expr.renOpt (ρ : String → String) : Option Expr → Option Expr
  | none => none
  | some e => some (Expr.ren ρ e)
end

mutual
def Val.ren (ρ : String → String) : Val → Val
  | .int n => .int n
  | .bool b => .bool b
  | .str s => .str s
  | .unit => .unit
  | .obj c t fs => .obj c t (Val.renList ρ fs)
  | .clo ps b env => .clo (ps.map ρ) (Expr.ren ρ b) (Val.renEnv ρ env)
  | .mref c n self => .mref c n (Val.ren ρ self)
  | .vec a => .vec a
  | .cls c => .cls c
def Val.renList (ρ : String → String) : List Val → List Val
  | [] => []
  | v :: vs => Val.ren ρ v :: Val.renList ρ vs
def Val.renEnv (ρ : String → String) : List (String × Val) → List (String × Val)
  | [] => []
  | b :: rest => Val.renBind ρ b :: Val.renEnv ρ rest
def Val.renBind (ρ : String → String) : String × Val → String × Val
  | (x, v) => (ρ x, Val.ren ρ v)
end


/-! ## Lists, environments, lookup -/

theorem Val.renList_eq_map (ρ : String → String) (vs : List Val) :
    Val.renList ρ vs = vs.map (Val.ren ρ) := by
  induction vs with
  | nil => rfl
  | cons v vs ih => simp [Val.renList, ih]

theorem Val.renEnv_append (ρ : String → String) (b env : Env) :
    Val.renEnv ρ (b ++ env) = Val.renEnv ρ b ++ Val.renEnv ρ env := by
  induction b with
  | nil => rfl
  | cons x b ih => simp [Val.renEnv, ih]

theorem Val.renList_getElem? (ρ : String → String) (vs : List Val) (i : Nat) :
    (Val.renList ρ vs)[i]? = (vs[i]?).map (Val.ren ρ) := by
  simp [Val.renList_eq_map]

theorem lookup_ren {ρ : String → String} (hinj : ∀ a b, ρ a = ρ b → a = b) (x : String) (env : Env) :
    lookup (ρ x) (Val.renEnv ρ env) = (lookup x env).map (Val.ren ρ) := by
  induction env with
  | nil => rfl
  | cons b env ih =>
    obtain ⟨y, v⟩ := b
    simp only [Val.renEnv, Val.renBind, lookup]
    by_cases h : x = y
    · subst h; simp
    · have h' : ρ x ≠ ρ y := fun e => h (hinj _ _ e)
      simp [h, h', ih]

theorem bindParams_ren (ρ : String → String) (ps : List String) (vs : List Val) :
    bindParams (ps.map ρ) (Val.renList ρ vs) = Val.renEnv ρ (bindParams ps vs) := by
  induction ps generalizing vs with
  | nil => simp [bindParams, Val.renEnv]
  | cons p ps ih =>
    cases vs with
    | nil => simp [bindParams, Val.renList, Val.renEnv]
    | cons v vs => simp [bindParams, Val.renList, Val.renEnv, Val.renBind, ih]

/-! ## Pattern matching commutes with renaming (no injectivity needed) -/

mutual
theorem matchPat_ren (ρ : String → String) : ∀ (p : Pat) (v : Val),
    matchPat (Pat.ren ρ p) (Val.ren ρ v) = (matchPat p v).map (Val.renEnv ρ)
  | .wild, v => by simp [Pat.ren, matchPat, Val.renEnv]
  | .var x, v => by simp [Pat.ren, matchPat, Val.renEnv, Val.renBind]
  | .tuple ps, v => by
    cases v <;> simp only [Pat.ren, Val.ren, matchPat, Option.map_none]
    exact matchPats_ren ρ ps _
  | .obj idxs ps, v => by
    cases v <;> simp only [Pat.ren, Val.ren, matchPat, Option.map_none]
    exact matchFields_ren ρ idxs ps _
  | .variant t ps, v => by
    cases v <;> simp only [Pat.ren, Val.ren, matchPat, Option.map_none]
    split
    · exact matchPats_ren ρ ps _
    · rfl
  | .or ps, v => by
    simp only [Pat.ren, matchPat]
    exact matchAlts_ren ρ ps v
theorem matchPats_ren (ρ : String → String) : ∀ (ps : List Pat) (vs : List Val),
    matchPats (Pat.renList ρ ps) (Val.renList ρ vs) = (matchPats ps vs).map (Val.renEnv ρ)
  | [], vs => by simp [Pat.renList, matchPats, Val.renEnv]
  | p :: ps, [] => by simp [Pat.renList, Val.renList, matchPats]
  | p :: ps, v :: vs => by
    simp only [Pat.renList, Val.renList, matchPats]
    rw [matchPat_ren ρ p v, matchPats_ren ρ ps vs]
    cases matchPat p v with
    | none => rfl
    | some b =>
      cases matchPats ps vs with
      | none => rfl
      | some bs => simp [Val.renEnv_append]
theorem matchFields_ren (ρ : String → String) : ∀ (idxs : List Nat) (ps : List Pat) (fs : List Val),
    matchFields idxs (Pat.renList ρ ps) (Val.renList ρ fs) =
      (matchFields idxs ps fs).map (Val.renEnv ρ)
  | [], ps, fs => by cases ps <;> simp [Pat.renList, matchFields, Val.renEnv]
  | i :: idxs, [], fs => by simp [Pat.renList, matchFields, Val.renEnv]
  | i :: idxs, p :: ps, fs => by
    simp only [Pat.renList, matchFields, Val.renList_getElem?]
    cases fs[i]? with
    | none => rfl
    | some v =>
      simp only [Option.map_some]
      rw [matchPat_ren ρ p v, matchFields_ren ρ idxs ps fs]
      cases matchPat p v with
      | none => rfl
      | some b =>
        cases matchFields idxs ps fs with
        | none => rfl
        | some bs => simp [Val.renEnv_append]
theorem matchAlts_ren (ρ : String → String) : ∀ (ps : List Pat) (v : Val),
    matchAlts (Pat.renList ρ ps) (Val.ren ρ v) = (matchAlts ps v).map (Val.renEnv ρ)
  | [], v => by simp [Pat.renList, matchAlts]
  | p :: ps, v => by
    simp only [Pat.renList, matchAlts]
    rw [matchPat_ren ρ p v]
    cases matchPat p v with
    | none => exact matchAlts_ren ρ ps v
    | some b => rfl
end


/-! ## States, results -/

def St.ren (ρ : String → String) (s : St) : St :=
  { s with vecs := s.vecs.map (fun a => a.map (Val.ren ρ)) }

def Res.ren {α : Type} (f : α → α) (ρ : String → String) : Res α → Res α
  | .ok a s => .ok (f a) (s.ren ρ)
  | .panic m s => .panic m (s.ren ρ)
  | .trap k s => .trap k (s.ren ρ)
  | .oof => .oof

@[simp] theorem St.ren_out (ρ : String → String) (s : St) : (s.ren ρ).out = s.out := rfl
@[simp] theorem St.ren_flags (ρ : String → String) (s : St) : (s.ren ρ).flags = s.flags := rfl
@[simp] theorem St.ren_flagOvf (ρ : String → String) (s : St) : s.flagOvf.ren ρ = (s.ren ρ).flagOvf := rfl
@[simp] theorem St.ren_flagRefeq (ρ : String → String) (s : St) : s.flagRefeq.ren ρ = (s.ren ρ).flagRefeq := rfl
@[simp] theorem St.ren_flagNegdiv (ρ : String → String) (s : St) : s.flagNegdiv.ren ρ = (s.ren ρ).flagNegdiv := rfl
@[simp] theorem St.ren_flagVec31 (ρ : String → String) (s : St) : s.flagVec31.ren ρ = (s.ren ρ).flagVec31 := rfl
@[simp] theorem St.ren_flagCap (ρ : String → String) (s : St) : s.flagCap.ren ρ = (s.ren ρ).flagCap := rfl
@[simp] theorem St.ren_flagToint (ρ : String → String) (s : St) : s.flagToint.ren ρ = (s.ren ρ).flagToint := rfl

/-- the bind of renamed computations is the renamed bind -/
theorem bind_ren {α β : Type} {ρ : String → String} {f : α → α} {g : β → β} (r : Res α)
    (k k' : α → St → Res β) (hk : ∀ a s, k' (f a) (s.ren ρ) = (k a s).ren g ρ) :
    (r.ren f ρ).bind k' = (r.bind k).ren g ρ := by
  cases r <;> simp [Res.ren, Res.bind, hk]

/-! ## Primitive operations -/

theorem isPrim_ren (ρ : String → String) (v : Val) : isPrim (Val.ren ρ v) = isPrim v := by
  cases v <;> rfl

mutual
theorem valEq_ren (ρ : String → String) : ∀ (a b : Val),
    valEq (Val.ren ρ a) (Val.ren ρ b) = valEq a b
  | .int _, b => by cases b <;> simp [Val.ren, valEq]
  | .bool _, b => by cases b <;> simp [Val.ren, valEq]
  | .str _, b => by cases b <;> simp [Val.ren, valEq]
  | .unit, b => by cases b <;> simp [Val.ren, valEq]
  | .obj c t fs, b => by
    cases b <;> simp only [Val.ren, valEq]
    rw [valEqList_ren ρ fs _]
  | .clo _ _ _, b => by cases b <;> simp [Val.ren, valEq]
  | .mref _ _ _, b => by cases b <;> simp [Val.ren, valEq]
  | .vec _, b => by cases b <;> simp [Val.ren, valEq]
  | .cls _, b => by cases b <;> simp [Val.ren, valEq]
theorem valEqList_ren (ρ : String → String) : ∀ (as bs : List Val),
    valEqList (Val.renList ρ as) (Val.renList ρ bs) = valEqList as bs
  | [], bs => by cases bs <;> simp [Val.renList, valEqList]
  | a :: as, [] => by simp [Val.renList, valEqList]
  | a :: as, b :: bs => by
    simp only [Val.renList, valEqList]
    rw [valEq_ren ρ a b, valEqList_ren ρ as bs]
end

theorem eqOp_ren (ρ : String → String) (a b : Val) (s : St) :
    eqOp (Val.ren ρ a) (Val.ren ρ b) (s.ren ρ) = ((eqOp a b s).1, (eqOp a b s).2.ren ρ) := by
  simp only [eqOp, valEq_ren, isPrim_ren]
  split <;> rfl

theorem arith_ren (ρ : String → String) (r : Int) (s : St) :
    arith r (s.ren ρ) = (arith r s).ren (Val.ren ρ) ρ := by
  simp only [arith]
  split <;> simp [Res.ren, Val.ren]

theorem stuck_ren (ρ : String → String) (f : Val → Val) (w : String) (s : St) :
    (stuck w (s.ren ρ) : Res Val) = (stuck w s : Res Val).ren f ρ := rfl

theorem unop_ren (ρ : String → String) (op : UnOp) (v : Val) (s : St) :
    unop op (Val.ren ρ v) (s.ren ρ) = (unop op v s).ren (Val.ren ρ) ρ := by
  cases op <;> cases v <;> simp [unop, Val.ren, Res.ren, arith_ren, stuck]

theorem binop_ren (ρ : String → String) (op : BinOp) (a b : Val) (s : St) :
    binop op (Val.ren ρ a) (Val.ren ρ b) (s.ren ρ) = (binop op a b s).ren (Val.ren ρ) ρ := by
  cases op
  case eq => simp [binop, eqOp_ren, Res.ren, Val.ren]
  case ne => simp [binop, eqOp_ren, Res.ren, Val.ren]
  case div =>
    cases a <;> cases b <;> try (simp [binop, Val.ren, Res.ren, stuck]; done)
    rename_i x y
    simp only [binop, Val.ren]
    by_cases hy : y = 0
    · simp [hy, Res.ren]
    · simp only [beq_iff_eq, hy, if_false]
      split
      · exact arith_ren ρ _ s.flagNegdiv
      · exact arith_ren ρ _ s
  case mod =>
    cases a <;> cases b <;> try (simp [binop, Val.ren, Res.ren, stuck]; done)
    rename_i x y
    simp only [binop, Val.ren]
    by_cases hy : y = 0
    · simp [hy, Res.ren]
    · simp only [beq_iff_eq, hy, if_false]
      exact arith_ren ρ _ s
  all_goals
    cases a <;> cases b <;> simp [binop, Val.ren, Res.ren, arith_ren, stuck]


/-! ## Built-ins -/

@[simp] theorem St.ren_vecs_size (ρ : String → String) (s : St) : (s.ren ρ).vecs.size = s.vecs.size := by
  simp [St.ren]

theorem vecGet_ren (ρ : String → String) (s : St) (a : Nat) :
    (s.ren ρ).vecGet a = (s.vecGet a).map (Val.ren ρ) := by
  simp only [St.vecGet, St.ren, Array.getElem?_map]
  cases s.vecs[a]? <;> simp

theorem vecAlloc_ren (ρ : String → String) (s : St) (arr : Array Val) :
    (s.ren ρ).vecAlloc (arr.map (Val.ren ρ)) = (s.vecAlloc arr).ren (Val.ren ρ) ρ := by
  simp [St.vecAlloc, Res.ren, Val.ren, St.ren]

theorem vecSet_ren (ρ : String → String) (s : St) (a : Nat) (arr : Array Val) :
    (s.ren ρ).vecSet a (arr.map (Val.ren ρ)) = (s.vecSet a arr).ren ρ := by
  simp [St.vecSet, St.ren]

theorem flagElem_ren (ρ : String → String) (v : Val) (s : St) :
    flagElem (Val.ren ρ v) (s.ren ρ) = (flagElem v s).ren ρ := by
  cases v <;> simp only [flagElem, Val.ren]
  split <;> rfl

theorem vecElemsEq_ren (ρ : String → String) : ∀ (xs ys : List Val) (s : St),
    vecElemsEq (xs.map (Val.ren ρ)) (ys.map (Val.ren ρ)) (s.ren ρ) =
      ((vecElemsEq xs ys s).1, (vecElemsEq xs ys s).2.ren ρ)
  | [], [], s => rfl
  | [], _ :: _, s => rfl
  | _ :: _, [], s => rfl
  | x :: xs, y :: ys, s => by
    simp only [List.map_cons, vecElemsEq, eqOp_ren]
    split
    · exact vecElemsEq_ren ρ xs ys _
    · rfl

local macro "stuckcase" : tactic =>
  `(tactic| (simp [runBuiltin, Val.ren, Val.renList, Res.ren, stuck, St.ren]; done))

theorem runBuiltin_ren (ρ : String → String) (b : Builtin) (self : Val) (args : List Val) (s : St) :
    runBuiltin b (Val.ren ρ self) (Val.renList ρ args) (s.ren ρ) =
      (runBuiltin b self args s).ren (Val.ren ρ) ρ := by
  cases b
  case println =>
    rcases args with _ | ⟨a, _ | ⟨b, rest⟩⟩ <;> (try cases a) <;> stuckcase
  case panic =>
    rcases args with _ | ⟨a, _ | ⟨b, rest⟩⟩ <;> (try cases a) <;> stuckcase
  case fromInt =>
    rcases args with _ | ⟨a, _ | ⟨b, rest⟩⟩ <;> (try cases a) <;> stuckcase
  case toInt =>
    cases self <;> rcases args with _ | ⟨a, rest⟩ <;> (try stuckcase)
    simp only [runBuiltin, Val.ren, Val.renList]
    split <;> simp [Res.ren, Val.ren]
  case vEmpty =>
    rcases args with _ | ⟨a, rest⟩ <;> (try stuckcase)
    simpa [runBuiltin, Val.renList] using vecAlloc_ren ρ s #[]
  case vOf =>
    rcases args with _ | ⟨a, _ | ⟨b, rest⟩⟩ <;> (try stuckcase)
    simpa [runBuiltin, Val.renList, flagElem_ren] using vecAlloc_ren ρ (flagElem a s) #[a]
  case vWithCapacity =>
    rcases args with _ | ⟨a, _ | ⟨b, rest⟩⟩ <;> (try cases a) <;> (try stuckcase)
    simp only [runBuiltin, Val.ren, Val.renList]
    split
    · simpa using vecAlloc_ren ρ s.flagCap #[]
    · simpa using vecAlloc_ren ρ s #[]
  case vLength =>
    cases self <;> rcases args with _ | ⟨a, rest⟩ <;> (try stuckcase)
    simp [runBuiltin, Val.ren, Val.renList, vecGet_ren, Res.ren]
  case vCapacity =>
    cases self <;> rcases args with _ | ⟨a, rest⟩ <;> (try stuckcase)
    simp [runBuiltin, Val.ren, Val.renList, vecGet_ren, Res.ren]
  case vReserve =>
    cases self <;> rcases args with _ | ⟨a, _ | ⟨b, rest⟩⟩ <;> (try cases a) <;> (try stuckcase)
  case vPush =>
    cases self <;> rcases args with _ | ⟨a, _ | ⟨b, rest⟩⟩ <;> (try stuckcase)
    simp only [runBuiltin, Val.ren, Val.renList, flagElem_ren, vecGet_ren, Res.ren]
    rw [← Array.map_push, vecSet_ren]
  case vPop =>
    cases self <;> rcases args with _ | ⟨a, rest⟩ <;> (try stuckcase)
    simp only [runBuiltin, Val.ren, Val.renList, vecGet_ren, Array.back?_map]
    cases (s.vecGet _).back? with
    | none => simp [Res.ren]
    | some v =>
      simp only [Option.map_some, Res.ren]
      rw [← Array.map_pop, vecSet_ren]
  case vGet =>
    cases self <;> rcases args with _ | ⟨a, _ | ⟨b, rest⟩⟩ <;> (try cases a) <;> (try stuckcase)
    rename_i addr i
    simp only [runBuiltin, Val.ren, Val.renList, vecGet_ren, Array.getElem?_map]
    split
    · simp [Res.ren]
    · cases (s.vecGet addr)[i.toNat]? <;> simp [Res.ren]
  case vSet =>
    cases self <;> rcases args with _ | ⟨a, _ | ⟨b, _ | ⟨c, rest⟩⟩⟩ <;> (try cases a) <;> (try stuckcase)
    simp only [runBuiltin, Val.ren, Val.renList, vecGet_ren, flagElem_ren, Array.size_map]
    split
    · simp [Res.ren]
    · simp only [Res.ren]
      rw [← Array.map_setIfInBounds, vecSet_ren]
      simp [Val.ren]
  case vEq =>
    cases self <;> rcases args with _ | ⟨a, _ | ⟨b, rest⟩⟩ <;> (try cases a) <;> (try stuckcase)
    simp only [runBuiltin, Val.ren, Val.renList, vecGet_ren, Array.size_map, Array.toList_map,
      vecElemsEq_ren]
    split
    · simp [Res.ren, Val.ren]
    · split <;> simp [Res.ren, Val.ren]

theorem builtin_ren (ρ : String → String) (cls name : String) (self : Val) (args : List Val) (s : St) :
    builtin cls name (Val.ren ρ self) (Val.renList ρ args) (s.ren ρ) =
      (builtin cls name self args s).ren (Val.ren ρ) ρ := by
  simp only [builtin]
  cases builtinOf cls name with
  | none => rfl
  | some b => exact runBuiltin_ren ρ b self args s

/-! ## Programs, calls -/

def MemberDef.ren (ρ : String → String) (m : MemberDef) : MemberDef :=
  { m with params := m.params.map ρ, body := Expr.ren ρ m.body }

def ClassDef.ren (ρ : String → String) (c : ClassDef) : ClassDef :=
  { c with members := c.members.map (MemberDef.ren ρ) }

/-- every parameter and every local variable of every member renamed by `ρ` -/
def Program.ren (ρ : String → String) (P : Program) : Program :=
  ⟨fun c => (P.classOf c).map (ClassDef.ren ρ)⟩

/-- `ev'` is `ev` on renamed inputs -/
def EvHom (ρ : String → String) (ev ev' : Ev) : Prop :=
  ∀ env s e, ev' (Val.renEnv ρ env) (s.ren ρ) (Expr.ren ρ e) = (ev env s e).ren (Val.ren ρ) ρ

theorem classOfVal_ren (ρ : String → String) (v : Val) : classOfVal (Val.ren ρ v) = classOfVal v := by
  cases v <;> rfl

theorem resolveCls_ren (ρ : String → String) (P : Program) (r : Recv) (v : Val) :
    resolveCls (P.ren ρ) r (Val.ren ρ v) = resolveCls P r v := by
  cases r <;> simp [resolveCls, Program.ren, classOfVal_ren]

theorem findMember_ren (ρ : String → String) (name : String) (ms : List MemberDef) :
    findMember name (ms.map (MemberDef.ren ρ)) = (findMember name ms).map (MemberDef.ren ρ) := by
  induction ms with
  | nil => rfl
  | cons m ms ih =>
    simp only [List.map_cons, findMember]
    have : (MemberDef.ren ρ m).name = m.name := rfl
    rw [this]
    split
    · rfl
    · exact ih

theorem invoke_ren {ρ : String → String} (hthis : ρ "this" = "this") (P : Program) {ev ev' : Ev}
    (h : EvHom ρ ev ev') (cls name : String) (self : Val) (args : List Val) (s : St) :
    invoke (P.ren ρ) ev' cls name (Val.ren ρ self) (Val.renList ρ args) (s.ren ρ) =
      (invoke P ev cls name self args s).ren (Val.ren ρ) ρ := by
  unfold invoke
  split
  · exact builtin_ren ρ cls name self args s
  · simp only [Program.ren]
    cases hc : P.classOf cls with
    | none => rfl
    | some c =>
      simp only [Option.map_some, ClassDef.ren, findMember_ren]
      cases hm : findMember name c.members with
      | some m =>
        simp only [Option.map_some, MemberDef.ren]
        rw [← h]
        congr 1
        rw [Val.renEnv_append, bindParams_ren]
        cases m.isMethod <;> simp [Val.renEnv, Val.renBind, hthis]
      | none =>
        simp only [Option.map_none]
        cases htd : c.td with
        | struct fs =>
          simp only
          by_cases hn : name = "init" <;> simp [hn, Res.ren, Val.ren, stuck]
        | enum vs =>
          simp only
          cases hv : findVariant name vs 0 <;> simp [Res.ren, Val.ren, stuck]
        | none => rfl

theorem applyVal_ren {ρ : String → String} (hthis : ρ "this" = "this") (P : Program) {ev ev' : Ev}
    (h : EvHom ρ ev ev') (f : Val) (args : List Val) (s : St) :
    applyVal (P.ren ρ) ev' (Val.ren ρ f) (Val.renList ρ args) (s.ren ρ) =
      (applyVal P ev f args s).ren (Val.ren ρ) ρ := by
  cases f <;> simp only [applyVal, Val.ren] <;> try rfl
  · rw [← h, Val.renEnv_append, bindParams_ren]
  · exact invoke_ren hthis P h _ _ _ _ _

/-! ## The evaluator -/

theorem evalList_ren {ρ : String → String} {ev ev' : Ev} (h : EvHom ρ ev ev') (env : Env) :
    ∀ (es : List Expr) (s : St),
      evalList ev' (Val.renEnv ρ env) (s.ren ρ) (Expr.renList ρ es) =
        (evalList ev env s es).ren (Val.renList ρ) ρ
  | [], s => rfl
  | e :: es, s => by
    simp only [Expr.renList, evalList]
    rw [h]
    apply bind_ren
    intro v s1
    rw [evalList_ren h env es s1]
    apply bind_ren
    intro vs s2
    rfl

theorem evalStmts_ren {ρ : String → String} {ev ev' : Ev} (h : EvHom ρ ev ev') :
    ∀ (stmts : List (Pat × Expr)) (env : Env) (s : St),
      evalStmts ev' (Val.renEnv ρ env) (s.ren ρ) (Expr.renCases ρ stmts) =
        (evalStmts ev env s stmts).ren (Val.renEnv ρ) ρ
  | [], env, s => rfl
  | (p, e) :: rest, env, s => by
    simp only [Expr.renCases, Expr.renCase, evalStmts]
    rw [h]
    apply bind_ren
    intro v s1
    rw [matchPat_ren]
    cases matchPat p v with
    | none => rfl
    | some b =>
      simp only [Option.map_some]
      rw [← Val.renEnv_append]
      exact evalStmts_ren h rest _ _

theorem evalCases_ren {ρ : String → String} {ev ev' : Ev} (h : EvHom ρ ev ev') (env : Env) (s : St)
    (v : Val) : ∀ (cases : List (Pat × Expr)),
      evalCases ev' (Val.renEnv ρ env) (s.ren ρ) (Val.ren ρ v) (Expr.renCases ρ cases) =
        (evalCases ev env s v cases).ren (Val.ren ρ) ρ
  | [] => rfl
  | (p, body) :: rest => by
    simp only [Expr.renCases, Expr.renCase, evalCases]
    rw [matchPat_ren]
    cases matchPat p v with
    | none => exact evalCases_ren h env s v rest
    | some b =>
      simp only [Option.map_some]
      rw [← Val.renEnv_append]
      exact h _ _ _

theorem step_ren {ρ : String → String} (hinj : ∀ a b, ρ a = ρ b → a = b) (hthis : ρ "this" = "this")
    (P : Program) {ev ev' : Ev} (h : EvHom ρ ev ev') : EvHom ρ (step P ev) (step (P.ren ρ) ev') := by
  intro env s e
  cases e with
  | int n => rfl
  | bool b => rfl
  | str raw => rfl
  | var x =>
    simp only [Expr.ren, step, lookup_ren hinj]
    cases lookup x env <;> rfl
  | classId c => rfl
  | tuple c es =>
    simp only [Expr.ren, step]
    rw [evalList_ren h]
    apply bind_ren
    intro vs s1
    rfl
  | field i e =>
    simp only [Expr.ren, step]
    rw [h]
    apply bind_ren
    intro v s1
    cases v <;> simp only [Val.ren] <;> try rfl
    rename_i c t fs
    rw [Val.renList_getElem?]
    cases fs[i]? <;> rfl
  | method r name o =>
    simp only [Expr.ren, step]
    rw [h]
    apply bind_ren
    intro v s1
    simp [resolveCls_ren, Res.ren, Val.ren]
  | unary op e =>
    simp only [Expr.ren, step]
    rw [h]
    apply bind_ren
    intro v s1
    exact unop_ren ρ op v s1
  | call f args =>
    simp only [Expr.ren, step]
    rw [h]
    apply bind_ren
    intro fv s1
    rw [evalList_ren h]
    apply bind_ren
    intro vs s2
    exact applyVal_ren hthis P h fv vs s2
  | binary op e1 e2 =>
    cases op <;> simp only [Expr.ren, step] <;> rw [h] <;> apply bind_ren <;> intro a s1
    case and =>
      cases a <;> try rfl
      rename_i b
      cases b
      · rfl
      · simp only [Val.ren]
        rw [h]
        apply bind_ren
        intro b s2
        cases b <;> rfl
    case or =>
      cases a <;> try rfl
      rename_i b
      cases b
      · simp only [Val.ren]
        rw [h]
        apply bind_ren
        intro b s2
        cases b <;> rfl
      · rfl
    all_goals
      rw [h]
      apply bind_ren
      intro b s2
      exact binop_ren ρ _ a b s2
  | ite c e1 e2 =>
    simp only [Expr.ren, step]
    rw [h]
    apply bind_ren
    intro v s1
    cases v <;> try rfl
    rename_i b
    cases b <;> simp only [Val.ren] <;> exact h _ _ _
  | iflet p e e1 e2 =>
    simp only [Expr.ren, step]
    rw [h]
    apply bind_ren
    intro v s1
    rw [matchPat_ren]
    cases matchPat p v with
    | none => exact h _ _ _
    | some b =>
      simp only [Option.map_some]
      rw [← Val.renEnv_append]
      exact h _ _ _
  | «match» e cases =>
    simp only [Expr.ren, step]
    rw [h]
    apply bind_ren
    intro v s1
    exact evalCases_ren h env s1 v cases
  | lam ps body => rfl
  | block stmts final =>
    simp only [Expr.ren, step]
    rw [evalStmts_ren h]
    apply bind_ren
    intro env' s1
    cases final with
    | none => rfl
    | some e => exact h _ _ _

theorem eval_ren {ρ : String → String} (hinj : ∀ a b, ρ a = ρ b → a = b) (hthis : ρ "this" = "this")
    (P : Program) : ∀ n, EvHom ρ (eval P n) (eval (P.ren ρ) n)
  | 0 => fun _ _ _ => rfl
  | n + 1 => step_ren hinj hthis P (eval_ren hinj hthis P n)

theorem outcomeOf_ren (ρ : String → String) (r : Res Val) :
    outcomeOf (r.ren (Val.ren ρ) ρ) = outcomeOf r := by
  cases r <;> rfl

end SamVerif.Source
