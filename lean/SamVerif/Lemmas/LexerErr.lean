import SamVerif.Lemmas.Lexer
/-! Diagnostics lemmas (C05 `syntax_error_reported`): error tokens and out-of-range integers always
leave an entry in the error set. -/
namespace SamVerif.Lexer

theorem regexMatch_kind_ne_error (rest : Bytes) (h : 0 < (regexMatch rest).2) :
    (regexMatch rest).1 ≠ .error := by
  unfold regexMatch at *
  split
  · simp at h
  · repeat' split
    all_goals simp_all

theorem logosNext_kind_ne_error {rest : Bytes} {k : Kind} {n : Nat} {t : Bytes}
    (h : logosNext rest = .tok k n t) : k ≠ .error := by
  unfold logosNext at h
  simp only at h
  split at h
  · contradiction
  · split at h
    · cases h; simp
    · split at h
      · cases h; simp
      · rename_i h1 h2 h3
        cases h
        exact regexMatch_kind_ne_error rest (by omega)

/-- a scanner step that yields an `error` token also reports "Invalid token." at its span -/
theorem nextRaw_error_reported {input : Bytes} {pos0 : Pos} {s : Scanned}
    (h : nextRaw input pos0 = .tok s) (hk : s.tok.kind = .error) :
    (⟨s.tok.start, s.tok.stop, .tok⟩ : Err) ∈ s.errs := by
  unfold nextRaw at h
  simp only at h
  split at h
  · contradiction
  · rename_i rest hb
    generalize wsPos input pos0 = pos at h
    cases h1 : lexStrLit rest pos with
    | yes s1 =>
      simp only [h1, ofTry] at h; cases h
      unfold lexStrLit at h1
      (repeat' split at h1) <;> first | contradiction | (cases h1; simp at hk)
    | panic => simp [h1, ofTry] at h
    | no =>
      cases h2 : lexLineComment rest pos with
      | yes s2 =>
        simp only [h1, h2, ofTry] at h; cases h
        unfold lexLineComment at h2
        split at h2
        · split at h2
          · dsimp only at h2
            split at h2
            · contradiction
            · cases h2; simp at hk
          · contradiction
        · contradiction
      | panic => simp [h1, h2, ofTry] at h
      | no =>
        cases h3 : lexBlockComment rest pos with
        | yes s3 =>
          simp only [h1, h2, h3, ofTry] at h; cases h
          unfold lexBlockComment at h3
          split at h3
          · split at h3
            · split at h3
              · contradiction
              · split at h3
                · contradiction
                · dsimp only at h3
                  split at h3
                  · contradiction
                  · cases h3
                    simp only at hk
                    split at hk <;> contradiction
            · contradiction
          · contradiction
        | panic => simp [h1, h2, h3, ofTry] at h
        | no =>
          simp only [h1, h2, h3, ofTry] at h
          split at h
          · contradiction
          · split at h
            · cases h4 : lexError rest pos with
              | yes s4 =>
                simp only [h4] at h; cases h
                unfold lexError at h4
                dsimp only at h4
                split at h4
                · contradiction
                · cases h4; simp
              | panic => simp [h4] at h
              | no => simp [h4] at h
            · rename_i k n text hl
              cases h
              exact absurd hk (logosNext_kind_ne_error hl)

theorem rawLoop_error_reported (fuel : Nat) (rest : Bytes) (pos : Pos) :
    ∀ t ∈ (rawLoop fuel rest pos).toks, t.kind = .error →
      (⟨t.start, t.stop, .tok⟩ : Err) ∈ (rawLoop fuel rest pos).errs := by
  induction fuel generalizing rest pos with
  | zero => simp [rawLoop]
  | succ fuel ih =>
    unfold rawLoop
    split
    · simp
    · simp
    · rename_i s hs
      intro t ht hk
      simp only [List.mem_cons] at ht
      simp only [List.mem_append]
      rcases ht with rfl | ht
      · left; exact nextRaw_error_reported hs hk
      · right; exact ih s.rest s.pos t ht hk

/-! ### the producer fold -/

/-- tokens the producer holds or has yielded -/
def PState.all (st : PState) : List Token := st.out ++ st.pending.toList

/-- integer rule: an integer literal (not the merged `-2147483648`) of value ≥ 2³¹ has its error -/
def IntReported (errs : List Err) (t : Token) : Prop :=
  t.kind = .int → t.text.head? ≠ some 45 → twoPow31 ≤ digitsVal t.text 0 →
    (⟨t.start, t.stop, .int⟩ : Err) ∈ errs

/-- the three things `process_raw_token` + `pending.replace` can do -/
theorem processRaw_cases (st : PState) (t : Token) :
    (t.kind = .int ∧ processRaw st t =
        ⟨some t, st.out ++ st.pending.toList, st.errs ++ [⟨t.start, t.stop, .int⟩]⟩) ∨
    ((t.kind = .int → digitsVal t.text 0 < twoPow31) ∧ processRaw st t =
        ⟨some t, st.out ++ st.pending.toList, st.errs⟩) ∨
    (∃ p, st.pending = some p ∧ processRaw st t =
        ⟨some ⟨.int, 45 :: t.text, posMin p.start t.start, posMax p.stop t.stop⟩, st.out, st.errs⟩) := by
  unfold processRaw
  obtain ⟨pending, out, errs⟩ := st
  cases pending with
  | none =>
    simp only [Option.toList_none, List.append_nil]
    split
    · rename_i hk
      split
      · left; exact ⟨hk, rfl⟩
      · rename_i hv
        right; left
        refine ⟨fun _ => ?_, ?_⟩
        · simp at hv; omega
        · split <;> rfl
    · rename_i hk
      right; left; exact ⟨fun h => absurd h hk, rfl⟩
  | some p =>
    simp only [Option.toList_some]
    split
    · rename_i hk
      split
      · left; exact ⟨hk, rfl⟩
      · rename_i hv
        split
        · rename_i hv2
          split
          · right; right; exact ⟨p, rfl, rfl⟩
          · rename_i hm
            exfalso
            apply hv
            right
            exact ⟨hv2, by simpa using hm⟩
        · rename_i hv2
          right; left
          refine ⟨fun _ => ?_, rfl⟩
          simp at hv; omega
    · rename_i hk
      right; left; exact ⟨fun h => absurd h hk, rfl⟩

theorem processRaw_inv (st : PState) (t : Token) (seen : List Token)
    (hin : ∀ u ∈ st.all, IntReported st.errs u)
    (hseen : ∀ u ∈ st.all, u.kind = .error → u ∈ seen) :
    (∀ u ∈ (processRaw st t).all, IntReported (processRaw st t).errs u) ∧
      (∀ u ∈ (processRaw st t).all, u.kind = .error → u ∈ t :: seen) ∧
      (∀ e ∈ st.errs, e ∈ (processRaw st t).errs) := by
  rcases processRaw_cases st t with ⟨hk, he⟩ | ⟨hv, he⟩ | ⟨p, hp, he⟩ <;> rw [he] <;>
    simp only [PState.all, Option.toList_some, List.mem_append, List.mem_singleton,
      List.append_assoc] at *
  · refine ⟨?_, ?_, (by intro e h; first | exact Or.inl h | exact List.mem_append_left _ h)⟩
    · rintro u (hu | hu | rfl)
      · intro h1 h2 h3; exact List.mem_append_left _ (hin u (Or.inl hu) h1 h2 h3)
      · intro h1 h2 h3; exact List.mem_append_left _ (hin u (Or.inr hu) h1 h2 h3)
      · intro _ _ _; exact List.mem_append_right _ (List.mem_singleton.mpr rfl)
    · rintro u (hu | hu | rfl) hkk
      · exact List.mem_cons_of_mem _ (hseen u (Or.inl hu) hkk)
      · exact List.mem_cons_of_mem _ (hseen u (Or.inr hu) hkk)
      · exact List.mem_cons_self ..
  · refine ⟨?_, ?_, fun e h => h⟩
    · rintro u (hu | hu | rfl)
      · exact hin u (Or.inl hu)
      · exact hin u (Or.inr hu)
      · intro h1 _ h3; have := hv h1; omega
    · rintro u (hu | hu | rfl) hkk
      · exact List.mem_cons_of_mem _ (hseen u (Or.inl hu) hkk)
      · exact List.mem_cons_of_mem _ (hseen u (Or.inr hu) hkk)
      · exact List.mem_cons_self ..
  · refine ⟨?_, ?_, fun e h => h⟩
    · rintro u (hu | rfl)
      · exact hin u (Or.inl hu)
      · intro _ h2 _; simp at h2
    · rintro u (hu | rfl) hkk
      · exact List.mem_cons_of_mem _ (hseen u (Or.inl hu) hkk)
      · simp at hkk

theorem foldl_processRaw_inv (ts : List Token) (st : PState) (seen : List Token)
    (hin : ∀ u ∈ st.all, IntReported st.errs u)
    (hseen : ∀ u ∈ st.all, u.kind = .error → u ∈ seen) :
    (∀ u ∈ (ts.foldl processRaw st).all, IntReported (ts.foldl processRaw st).errs u) ∧
      (∀ u ∈ (ts.foldl processRaw st).all, u.kind = .error → u ∈ ts ++ seen) := by
  induction ts generalizing st seen with
  | nil => exact ⟨hin, by simpa using hseen⟩
  | cons t ts ih =>
    simp only [List.foldl_cons]
    obtain ⟨h1, h2, _⟩ := processRaw_inv st t seen hin hseen
    obtain ⟨r1, r2⟩ := ih (processRaw st t) (t :: seen) h1 h2
    refine ⟨r1, ?_⟩
    intro u hu hk
    have := r2 u hu hk
    simp only [List.mem_append, List.mem_cons] at this ⊢
    rcases this with h | h | h
    · exact Or.inl (Or.inr h)
    · exact Or.inl (Or.inl h)
    · exact Or.inr h

end SamVerif.Lexer
