import SamVerif.Model.Differ
/-! Helper lemmas for the list differ model (C16). -/
namespace SamVerif.Differ
variable {α : Type} [DecidableEq α]
set_option linter.unusedSectionVars false

/-! ## Part A: `followSnake` / BFS only build valid traces -/

/-- Newest-first trace (the `Rc` cons list) all of whose points are matches, strictly decreasing,
and strictly below `(x, y)`. -/
def RValid (old new : List α) : Nat → Nat → Trace → Prop
  | _, _, [] => True
  | x, y, (a, b) :: tr =>
    a < x ∧ b < y ∧ (∃ e, old[a]? = some e ∧ new[b]? = some e) ∧ RValid old new a b tr

theorem RValid.mono {old new : List α} {x y x' y' : Nat} {tr : Trace}
    (h : RValid old new x y tr) (hx : x ≤ x') (hy : y ≤ y') : RValid old new x' y' tr := by
  cases tr with
  | nil => trivial
  | cons p tr =>
    obtain ⟨a, b⟩ := p
    simp only [RValid] at h ⊢
    exact ⟨by omega, by omega, h.2.2.1, h.2.2.2⟩

theorem followSnake_rvalid (old new : List α) (x y : Nat) (tr : Trace)
    (h : RValid old new x y tr) :
    RValid old new (followSnake old new x y tr).1 (followSnake old new x y tr).2.1
      (followSnake old new x y tr).2.2 := by
  fun_induction followSnake old new x y tr with
  | case1 x y tr hx hb ih =>
    apply ih
    simp only [RValid]
    exact ⟨by omega, by omega, ⟨old[x], List.getElem?_eq_getElem hx, hb⟩, h⟩
  | case2 => exact h
  | case3 => exact h
  | case4 => exact h

/-- The snake never walks out of the rectangle it started in. -/
theorem followSnake_bounds (old new : List α) (x y : Nat) (tr : Trace) :
    x ≤ (followSnake old new x y tr).1 ∧ y ≤ (followSnake old new x y tr).2.1 ∧
    (x ≤ old.length → (followSnake old new x y tr).1 ≤ old.length) ∧
    (y ≤ new.length → (followSnake old new x y tr).2.1 ≤ new.length) := by
  fun_induction followSnake old new x y tr with
  | case1 x y tr hx hb ih =>
    have := (List.getElem?_eq_some_iff.mp hb).1
    refine ⟨by omega, by omega, fun _ => ih.2.2.1 (by omega), fun _ => ih.2.2.2 (by omega)⟩
  | case2 => simp
  | case3 => simp
  | case4 => simp

theorem ValidFrom.mono {old new : List α} {lx ly lx' ly' : Nat} {tr : Trace}
    (h : ValidFrom old new lx ly tr) (hx : lx' ≤ lx) (hy : ly' ≤ ly) : ValidFrom old new lx' ly' tr := by
  cases tr with
  | nil => trivial
  | cons p tr =>
    obtain ⟨a, b⟩ := p
    simp only [ValidFrom] at h ⊢
    exact ⟨by omega, by omega, h.2.2.1, h.2.2.2⟩

theorem rvalid_reverse_aux (old new : List α) (tr : Trace) :
    ∀ (x y : Nat) (acc : Trace), RValid old new x y tr → ValidFrom old new x y acc →
      ValidFrom old new 0 0 (tr.reverse ++ acc) := by
  induction tr with
  | nil => intro x y acc _ h; simpa using h.mono (Nat.zero_le _) (Nat.zero_le _)
  | cons p tr ih =>
    intro x y acc h hacc
    obtain ⟨a, b⟩ := p
    simp only [RValid] at h
    have := ih a b ((a, b) :: acc) h.2.2.2
      (by simp only [ValidFrom]; exact ⟨Nat.le_refl _, Nat.le_refl _, h.2.2.1, hacc.mono (by omega) (by omega)⟩)
    simpa using this

theorem rvalid_reverse (old new : List α) (tr : Trace) (x y : Nat) (h : RValid old new x y tr) :
    ValidTrace old new tr.reverse := by
  have := rvalid_reverse_aux old new tr x y [] h trivial
  simpa [ValidTrace] using this

/-- Invariant of `visited`: every stored trace is valid below its key. -/
def VInv (old new : List α) (v : Visited) : Prop :=
  ∀ e ∈ v, RValid old new e.1.1 e.1.2 e.2

theorem lookupV_some {v : Visited} {k : Nat × Nat} {t : Trace} (h : lookupV v k = some t) :
    (k, t) ∈ v := by
  unfold lookupV at h
  cases hf : v.find? (fun e => e.1 = k) with
  | none => simp [hf] at h
  | some e =>
    simp [hf] at h
    have h1 := List.mem_of_find?_eq_some hf
    have h2 := List.find?_some hf
    simp at h2
    obtain ⟨a, b⟩ := e
    simp_all

theorem visit_inv {old new : List α} {v : Visited} {nf : List (Nat × Nat)} {k : Nat × Nat} {t : Trace}
    (hv : VInv old new v) (ht : RValid old new k.1 k.2 t) : VInv old new (visit v nf k t).1 := by
  unfold visit
  split
  · exact hv
  · intro e he
    simp only [List.mem_cons] at he
    rcases he with rfl | he
    · exact ht
    · exact hv e he

theorem expand_inv (old new : List α) (fr : List (Nat × Nat)) (v : Visited) (nf : List (Nat × Nat))
    (hv : VInv old new v) : VInv old new (expand old new fr v nf).1 := by
  fun_induction expand old new fr v nf with
  | case1 => exact hv
  | case2 x y fr v nf hl ih => exact ih hv
  | case3 x y fr v nf tr hl a b r1 r2 ih =>
    apply ih
    have ht := hv _ (lookupV_some hl)
    simp only at ht
    apply visit_inv
    · apply visit_inv hv
      exact followSnake_rvalid old new (x + 1) y tr (ht.mono (by omega) (by omega))
    · exact followSnake_rvalid old new x (y + 1) tr (ht.mono (by omega) (by omega))

theorem bfs_valid (old new : List α) (fuel : Nat) (v : Visited) (fr : List (Nat × Nat))
    (hv : VInv old new v) (tr : Trace) (h : bfs old new fuel v fr = some tr) :
    ValidTrace old new tr := by
  fun_induction bfs old new fuel v fr with
  | case1 => simp at h
  | case2 fuel v fr t hl =>
    simp at h
    subst h
    exact rvalid_reverse old new t _ _ (hv _ (lookupV_some hl))
  | case3 fuel v fr hl r ih => exact ih (expand_inv old new fr v [] hv) h


/-! ## Part C: fusion and application of the position-sorted script -/

/-- A run of deletes for old positions `a, a+1, …, a+len-1`. -/
def delRun (old : List α) : Nat → Nat → Script α
  | _, 0 => []
  | a, len + 1 =>
    match old[a]? with
    | some e => (Int.ofNat a, Change.delete e) :: delRun old (a + 1) len
    | none => delRun old (a + 1) len

/-- An insert unless there is nothing to insert. -/
def insOpt (p : Int) (items : List α) (ld : Bool) : Script α :=
  if items = [] then [] else [(p, Change.insert items ld)]

/-- The position-sorted script before fusion, segment by segment: `px` is the previous matched old
position (`-1` at the start), `c = px + 1`, `first` the first new index not yet accounted for. -/
def segs (old new : List α) : Int → Nat → Nat → Trace → Script α
  | px, first, c, [] =>
    insOpt px (slice new first new.length) false ++ delRun old c (old.length - c)
  | px, first, c, (x, y) :: tr =>
    insOpt px (slice new first y) false ++ (delRun old c (x - c) ++ segs old new (Int.ofNat x) (y + 1) (x + 1) tr)

/-- The head of the script is not a delete at a position `≤ b`. -/
def NoDelUpTo (b : Int) : Script α → Prop
  | (p, .delete _) :: _ => b < p
  | _ => True

theorem fuse_del_cons (p : Int) (e : α) (q : Script α) :
    fuse ((p, Change.delete e) :: q) = (p, Change.delete e) :: fuse q := by
  cases q with
  | nil => simp [fuse]
  | cons n q => simp [fuse]

theorem fuse_ins_cons_nofuse (p : Int) (items : List α) (ld : Bool) (q : Script α)
    (h : NoDelUpTo (p + 1) q) :
    fuse ((p, Change.insert items ld) :: q) = (p, Change.insert items ld) :: fuse q := by
  cases q with
  | nil => simp [fuse]
  | cons n q =>
    obtain ⟨i2, c⟩ := n
    cases c with
    | insert a b => simp [fuse]
    | replace a b => simp [fuse]
    | delete y =>
      simp only [NoDelUpTo] at h
      cases items with
      | nil => simp [fuse]
      | cons it rest =>
        rw [fuse]
        have : ¬ p = i2 - 1 := by omega
        simp [this]

theorem fuse_ins_del (c : Nat) (it : α) (rest : List α) (ld : Bool) (e : α) (q : Script α) :
    fuse ((Int.ofNat c - 1, Change.insert (it :: rest) ld) :: (Int.ofNat c, Change.delete e) :: q) =
      (Int.ofNat c, Change.replace e it) :: fuse (insOpt (Int.ofNat (c + 1) - 1) rest true ++ q) := by
  rw [fuse]
  simp only [↓reduceIte]
  have : (Int.ofNat (c + 1) - 1) = Int.ofNat c := by simp
  rw [this]
  cases rest with
  | nil => simp [insOpt]
  | cons a r => simp [insOpt]

theorem slice_eq_take_drop (l : List α) (a b : Nat) : slice l a b = (l.drop a).take (b - a) := rfl

theorem take_drop_slice (old : List α) (c0 c : Nat) :
    (old.drop c0).take (c - c0) = slice old c0 c := rfl

theorem slice_self (l : List α) (a : Nat) : slice l a a = [] := by simp [slice]

theorem slice_succ_right (l : List α) (a b : Nat) (e : α) (hab : a ≤ b) (hb : l[b]? = some e) :
    slice l a (b + 1) = slice l a b ++ [e] := by
  unfold slice
  have hlt := (List.getElem?_eq_some_iff.mp hb).1
  have : b + 1 - a = (b - a) + 1 := by omega
  rw [this, List.take_add_one]
  congr 1
  simp only [List.getElem?_drop]
  have : a + (b - a) = b := by omega
  rw [this, hb]; rfl

theorem slice_append_drop (l : List α) (a b : Nat) (hab : a ≤ b) :
    slice l a b ++ l.drop b = l.drop a := by
  unfold slice
  have : l.drop b = (l.drop a).drop (b - a) := by
    rw [List.drop_drop]; congr 1; omega
  rw [this, List.take_append_drop]

/-- Fusion and application of one segment: an optional insert after `c - 1`, then deletes of
`c … c+len-1`, then a rest that does not interfere. -/
theorem seg_apply (old : List α) (len : Nat) :
    ∀ (items : List α) (ld : Bool) (c c0 : Nat) (rest : Script α) (R : List α),
      c0 ≤ c → c + len ≤ old.length → NoDelUpTo (Int.ofNat (c + len)) rest →
      (∀ c1, c1 ≤ c + len → applyFrom (Int.ofNat c1) (old.drop c1) (fuse rest) = slice old c1 (c + len) ++ R) →
      applyFrom (Int.ofNat c0) (old.drop c0) (fuse (insOpt (Int.ofNat c - 1) items ld ++ (delRun old c len ++ rest)))
        = slice old c0 c ++ (items ++ R) := by
  induction len with
  | zero =>
    intro items ld c c0 rest R h0 hn hnd hrest
    simp only [delRun, List.nil_append, Nat.add_zero] at *
    by_cases hi : items = []
    · subst hi
      simp only [insOpt, ↓reduceIte, List.nil_append]
      exact hrest c0 h0
    · simp only [insOpt, hi, ↓reduceIte, List.singleton_append]
      rw [fuse_ins_cons_nofuse _ _ _ _ (by simpa using hnd)]
      simp only [applyFrom]
      have hk : (Int.ofNat c - 1 + 1 - Int.ofNat c0).toNat = c - c0 := by
        simp only [Int.ofNat_eq_natCast]; omega
      rw [hk]
      have hpos : Int.ofNat c0 + ((c - c0 : Nat) : Int) = Int.ofNat c := by
        simp only [Int.ofNat_eq_natCast]; omega
      rw [hpos, List.drop_drop]
      have : c0 + (c - c0) = c := by omega
      rw [this, hrest c (Nat.le_refl _), slice_self]
      simp [slice]
  | succ len ih =>
    intro items ld c c0 rest R h0 hn hnd hrest
    have hc : c < old.length := by omega
    have hget : old[c]? = some old[c] := List.getElem?_eq_getElem hc
    have hrun : delRun old c (len + 1) = (Int.ofNat c, Change.delete old[c]) :: delRun old (c + 1) len := by
      simp only [delRun, hget]
    have hlen : c + 1 + len = c + (len + 1) := by omega
    have ih' := fun items ld => ih items ld (c + 1) (c + 1) rest R (Nat.le_refl _) (by omega)
      (by rw [hlen]; exact hnd) (by intro c1 h1; rw [hlen]; exact hrest c1 (by omega))
    have hk : (Int.ofNat c - Int.ofNat c0).toNat = c - c0 := by
      simp only [Int.ofNat_eq_natCast]; omega
    have hpos : Int.ofNat c0 + ((c - c0 : Nat) : Int) + 1 = Int.ofNat (c + 1) := by
      simp only [Int.ofNat_eq_natCast]; omega
    have hdrop : (old.drop c0).drop (c - c0 + 1) = old.drop (c + 1) := by
      rw [List.drop_drop]; congr 1; omega
    rw [hrun]
    cases items with
    | nil =>
      simp only [insOpt, ↓reduceIte, List.nil_append, List.cons_append]
      rw [fuse_del_cons]
      simp only [applyFrom]
      rw [hk, hpos, hdrop]
      have := ih' [] true
      simp only [insOpt, ↓reduceIte, List.nil_append] at this
      rw [this, slice_self]
      simp [slice]
    | cons it items =>
      simp only [insOpt, List.cons_ne_nil, ↓reduceIte, List.cons_append, List.nil_append]
      rw [fuse_ins_del]
      simp only [applyFrom]
      rw [hk, hpos, hdrop, ih' items true, slice_self]
      simp [slice]


theorem nodel_insOpt_append (b p : Int) (items : List α) (ld : Bool) (s : Script α)
    (h : NoDelUpTo b s) : NoDelUpTo b (insOpt p items ld ++ s) := by
  unfold insOpt
  split
  · simpa using h
  · simp [NoDelUpTo]

theorem nodel_delRun_append (old : List α) (b : Int) (len : Nat) :
    ∀ (a : Nat) (s : Script α), b < Int.ofNat a → NoDelUpTo b s → NoDelUpTo b (delRun old a len ++ s) := by
  induction len with
  | zero => intro a s _ h; simpa [delRun] using h
  | succ len ih =>
    intro a s hb h
    simp only [delRun]
    split
    · simp only [List.cons_append, NoDelUpTo]; exact hb
    · exact ih (a + 1) s (by simp only [Int.ofNat_eq_natCast] at *; omega) h

theorem nodel_segs (old new : List α) (tr : Trace) :
    ∀ (px : Int) (first c : Nat) (b : Int), ValidFrom old new c first tr → b < Int.ofNat c →
      NoDelUpTo b (segs old new px first c tr) := by
  induction tr with
  | nil =>
    intro px first c b _ hb
    simp only [segs]
    apply nodel_insOpt_append
    have := nodel_delRun_append old b (old.length - c) c [] hb trivial
    simpa using this
  | cons p tr ih =>
    intro px first c b hv hb
    obtain ⟨x, y⟩ := p
    simp only [ValidFrom] at hv
    simp only [segs]
    apply nodel_insOpt_append
    exact nodel_delRun_append old b (x - c) c _ hb
      (ih _ _ _ _ hv.2.2.2 (by simp only [Int.ofNat_eq_natCast] at *; omega))

theorem segs_apply (old new : List α) (tr : Trace) :
    ∀ (first c c0 : Nat), ValidFrom old new c first tr → c ≤ old.length → first ≤ new.length → c0 ≤ c →
      applyFrom (Int.ofNat c0) (old.drop c0) (fuse (segs old new (Int.ofNat c - 1) first c tr))
        = slice old c0 c ++ new.drop first := by
  induction tr with
  | nil =>
    intro first c c0 _ hc hf h0
    simp only [segs]
    have := seg_apply old (old.length - c) (slice new first new.length) false c c0 [] [] h0 (by omega)
      trivial (by
        intro c1 h1
        simp only [fuse, applyFrom, List.append_nil, slice]
        rw [List.take_of_length_le]; simp; omega)
    simp only [List.append_nil] at this
    rw [this]
    congr 1
    simp only [slice]
    rw [List.take_of_length_le]; simp
  | cons p tr ih =>
    intro first c c0 hv hc hf h0
    obtain ⟨x, y⟩ := p
    simp only [ValidFrom] at hv
    obtain ⟨hcx, hfy, ⟨e, hox, hny⟩, hv'⟩ := hv
    have hx := (List.getElem?_eq_some_iff.mp hox).1
    have hy := (List.getElem?_eq_some_iff.mp hny).1
    simp only [segs]
    have hsum : c + (x - c) = x := by omega
    have := seg_apply old (x - c) (slice new first y) false c c0
      (segs old new (Int.ofNat x) (y + 1) (x + 1) tr) (new.drop y) h0 (by omega)
      (by rw [hsum]; exact nodel_segs old new tr _ _ _ _ hv' (by simp only [Int.ofNat_eq_natCast]; omega))
      (by
        intro c1 h1
        rw [hsum] at h1 ⊢
        have hpx : Int.ofNat x = Int.ofNat (x + 1) - 1 := by simp
        rw [hpx, ih (y + 1) (x + 1) c1 hv' (by omega) (by omega) (by omega)]
        rw [slice_succ_right old c1 x e h1 hox, List.append_assoc]
        congr 1
        rw [List.drop_eq_getElem_cons hy]
        have : new[y] = e := by
          have := List.getElem?_eq_getElem hy
          rw [hny] at this; exact (Option.some.inj this).symm
        rw [this]; rfl)
    rw [this, slice_append_drop new first y hfy]


/-! ## Part B: the sorted script is the segment-by-segment script -/

theorem deletesIn_append (old : List α) (xs : List Nat) (a l1 l2 : Nat) :
    deletesIn old xs a (l1 + l2) = deletesIn old xs a l1 ++ deletesIn old xs (a + l1) l2 := by
  simp only [deletesIn, ← List.range'_append_1, List.filter_append, List.filterMap_append]

theorem deletesIn_eq_delRun (old : List α) (xs : List Nat) (len : Nat) :
    ∀ a, (∀ p, a ≤ p → p < a + len → p ∉ xs) → deletesIn old xs a len = delRun old a len := by
  induction len with
  | zero => intro a _; simp [deletesIn, delRun]
  | succ len ih =>
    intro a h
    have ha : a ∉ xs := h a (Nat.le_refl _) (by omega)
    have ih' := ih (a + 1) (fun p h1 h2 => h p (by omega) (by omega))
    simp only [deletesIn] at ih' ⊢
    simp only [List.range'_succ, delRun]
    have : (!xs.contains a) = true := by simpa using ha
    rw [List.filter_cons_of_pos (p := fun p => !xs.contains p) this, List.filterMap_cons]
    cases old[a]? with
    | none => simpa using ih'
    | some e => simp only [Option.map_some]; rw [ih']

theorem deletesIn_hit (old : List α) (xs : List Nat) (a : Nat) (h : a ∈ xs) :
    deletesIn old xs a 1 = [] := by
  simp [deletesIn, h]

theorem deletesIn_drop_small (old : List α) (x : Nat) (xs : List Nat) (a len : Nat) (h : x < a) :
    deletesIn old (x :: xs) a len = deletesIn old xs a len := by
  simp only [deletesIn]
  congr 1
  apply List.filter_congr
  intro p hp
  have := (List.mem_range'_1.mp hp).1
  have hne : ¬ p = x := by omega
  simp [hne]

theorem validFrom_fst_ge {old new : List α} {lx ly : Nat} {tr : Trace}
    (h : ValidFrom old new lx ly tr) : ∀ p ∈ tr.map Prod.fst, lx ≤ p := by
  induction tr generalizing lx ly with
  | nil => simp
  | cons q tr ih =>
    obtain ⟨x, y⟩ := q
    simp only [ValidFrom] at h
    intro p hp
    simp only [List.map_cons, List.mem_cons] at hp
    rcases hp with rfl | hp
    · exact h.1
    · have := ih h.2.2.2 p hp; omega

/-- The insert loop written with `insOpt` (equal to `insertsFrom` for traces inside `new`). -/
def insStruct (new : List α) : Int → Nat → Trace → Script α
  | px, first, [] => insOpt px (slice new first new.length) false
  | px, first, (x, y) :: tr => insOpt px (slice new first y) false ++ insStruct new (Int.ofNat x) (y + 1) tr

theorem length_slice (l : List α) (a b : Nat) (hb : b ≤ l.length) : (slice l a b).length = b - a := by
  simp only [slice, List.length_take, List.length_drop]; omega

theorem insHere_eq (new : List α) (start : Int) (first last : Nat) (hl : last ≤ new.length) :
    (if first < last then [(start, Change.insert (slice new first last) false)] else [])
      = insOpt start (slice new first last) false := by
  unfold insOpt
  have hlen := length_slice new first last hl
  by_cases h : first < last
  · have : slice new first last ≠ [] := by
      intro h0; rw [h0] at hlen; simp at hlen; omega
    simp [h, this]
  · have : slice new first last = [] := by
      apply List.eq_nil_of_length_eq_zero; omega
    simp [h, this]

theorem insertsFrom_eq (old new : List α) (tr : Trace) :
    ∀ (prev : Option (Nat × Nat)) (lx ly : Nat), ValidFrom old new lx ly tr →
      insertsFrom new prev tr =
        insStruct new (match prev with | none => -1 | some p => (p.1 : Int))
          (match prev with | none => 0 | some p => p.2 + 1) tr := by
  induction tr with
  | nil =>
    intro prev lx ly _
    unfold insertsFrom
    simp only [insStruct]
    exact insHere_eq new _ _ _ (Nat.le_refl _)
  | cons q tr ih =>
    intro prev lx ly hv
    obtain ⟨x, y⟩ := q
    simp only [ValidFrom] at hv
    obtain ⟨_, _, ⟨e, _, hny⟩, hv'⟩ := hv
    have hy := (List.getElem?_eq_some_iff.mp hny).1
    unfold insertsFrom
    simp only [insStruct]
    rw [insHere_eq new _ _ _ (by omega), ih (some (x, y)) _ _ hv']
    rfl

theorem perm_shuffle (A B H C S : Script α) (h : (B ++ C).Perm S) :
    ((A ++ B) ++ (H ++ C)).Perm (H ++ (A ++ S)) := by
  have h1 : ((A ++ B) ++ (H ++ C)).Perm (H ++ ((A ++ B) ++ C)) := by
    rw [← List.append_assoc, ← List.append_assoc H]
    exact (List.perm_append_comm (l₁ := A ++ B) (l₂ := H)).append_right C
  refine h1.trans (List.Perm.append_left H ?_)
  rw [List.append_assoc]
  exact List.Perm.append_left A h

theorem presort_perm_segs (old new : List α) (tr : Trace) :
    ∀ (px : Int) (first c : Nat), ValidFrom old new c first tr → c ≤ old.length →
      (deletesIn old (tr.map Prod.fst) c (old.length - c) ++ insStruct new px first tr).Perm
        (segs old new px first c tr) := by
  induction tr with
  | nil =>
    intro px first c _ _
    simp only [List.map_nil, insStruct, segs]
    rw [deletesIn_eq_delRun old [] _ c (by simp)]
    exact List.perm_append_comm
  | cons q tr ih =>
    intro px first c hv hc
    obtain ⟨x, y⟩ := q
    have hge := validFrom_fst_ge (by simpa only [ValidFrom] using hv.2.2.2)
    simp only [ValidFrom] at hv
    obtain ⟨hcx, _, ⟨e, hox, _⟩, hv'⟩ := hv
    have hx := (List.getElem?_eq_some_iff.mp hox).1
    simp only [List.map_cons, insStruct, segs]
    have hsplit : old.length - c = (x - c) + (1 + (old.length - (x + 1))) := by omega
    rw [hsplit, deletesIn_append, deletesIn_append]
    have h1 : deletesIn old (x :: tr.map Prod.fst) c (x - c) = delRun old c (x - c) := by
      apply deletesIn_eq_delRun
      intro p hp1 hp2 hmem
      simp only [List.mem_cons] at hmem
      rcases hmem with rfl | hmem
      · omega
      · have := hge p hmem; omega
    have hcx' : c + (x - c) = x := by omega
    rw [h1, hcx', deletesIn_hit old _ x (by simp), List.nil_append,
      deletesIn_drop_small old x _ (x + 1) _ (by omega)]
    exact perm_shuffle _ _ _ _ _ (ih (Int.ofNat x) (y + 1) (x + 1) hv' (by omega))

theorem delRun_no_insert (old : List α) (len : Nat) :
    ∀ (a : Nat) (p : Int) (items : List α) (ld : Bool), (p, Change.insert items ld) ∉ delRun old a len := by
  induction len with
  | zero => intro a p items ld; simp [delRun]
  | succ len ih =>
    intro a p items ld
    simp only [delRun]
    split
    · simp only [List.mem_cons, not_or]
      exact ⟨by simp, ih _ _ _ _⟩
    · exact ih _ _ _ _

def posLt (a b : Int × Change α) : Prop := a.1 < b.1

theorem delRun_bounds (old : List α) (len : Nat) :
    ∀ a, (∀ e ∈ delRun old a len, Int.ofNat a ≤ e.1 ∧ e.1 < Int.ofNat (a + len)) ∧
      (delRun old a len).Pairwise posLt := by
  induction len with
  | zero => intro a; simp [delRun]
  | succ len ih =>
    intro a
    obtain ⟨hb, hp⟩ := ih (a + 1)
    have hb' : ∀ e ∈ delRun old (a + 1) len, Int.ofNat a < e.1 ∧ e.1 < Int.ofNat (a + (len + 1)) := by
      intro e he
      have := hb e he
      simp only [Int.ofNat_eq_natCast] at *
      constructor <;> omega
    simp only [delRun]
    split
    · refine ⟨?_, ?_⟩
      · intro e he
        simp only [List.mem_cons] at he
        rcases he with rfl | he
        · simp only [Int.ofNat_eq_natCast]; constructor <;> omega
        · exact ⟨Int.le_of_lt (hb' e he).1, (hb' e he).2⟩
      · exact List.pairwise_cons.mpr ⟨fun e he => (hb' e he).1, hp⟩
    · exact ⟨fun e he => ⟨Int.le_of_lt (hb' e he).1, (hb' e he).2⟩, hp⟩

theorem mem_insOpt {p : Int} {items : List α} {ld : Bool} {e : Int × Change α}
    (h : e ∈ insOpt p items ld) : e = (p, Change.insert items ld) ∧ items ≠ [] := by
  unfold insOpt at h
  split at h
  · simp at h
  · simp at h; exact ⟨h, by assumption⟩

theorem pairwise_insOpt (p : Int) (items : List α) (ld : Bool) :
    (insOpt p items ld).Pairwise posLt := by
  unfold insOpt; split <;> simp

theorem segs_sorted (old new : List α) (tr : Trace) :
    ∀ (px : Int) (first c : Nat), ValidFrom old new c first tr → px < Int.ofNat c →
      (∀ e ∈ segs old new px first c tr, px ≤ e.1) ∧ (segs old new px first c tr).Pairwise posLt := by
  induction tr with
  | nil =>
    intro px first c _ hpx
    simp only [segs]
    obtain ⟨hb, hp⟩ := delRun_bounds old (old.length - c) c
    refine ⟨?_, ?_⟩
    · intro e he
      simp only [List.mem_append] at he
      rcases he with he | he
      · rw [(mem_insOpt he).1]; exact Int.le_refl _
      · have := (hb e he).1; omega
    · refine List.pairwise_append.mpr ⟨pairwise_insOpt _ _ _, hp, ?_⟩
      intro a ha b hb'
      rw [(mem_insOpt ha).1]
      have := (hb b hb').1
      simp only [posLt]; omega
  | cons q tr ih =>
    intro px first c hv hpx
    obtain ⟨x, y⟩ := q
    simp only [ValidFrom] at hv
    obtain ⟨hcx, _, _, hv'⟩ := hv
    simp only [segs]
    obtain ⟨hb, hp⟩ := delRun_bounds old (x - c) c
    obtain ⟨hb2, hp2⟩ := ih (Int.ofNat x) (y + 1) (x + 1) hv' (by simp only [Int.ofNat_eq_natCast]; omega)
    have hcx' : Int.ofNat (c + (x - c)) = Int.ofNat x := by congr 1; omega
    have hxc : Int.ofNat c ≤ Int.ofNat x := by simp only [Int.ofNat_eq_natCast]; omega
    refine ⟨?_, ?_⟩
    · intro e he
      simp only [List.mem_append] at he
      rcases he with he | he | he
      · rw [(mem_insOpt he).1]; exact Int.le_refl _
      · have := (hb e he).1; omega
      · have := hb2 e he; omega
    · refine List.pairwise_append.mpr ⟨pairwise_insOpt _ _ _, ?_, ?_⟩
      · refine List.pairwise_append.mpr ⟨hp, hp2, ?_⟩
        intro a ha b hb'
        have h1 := (hb a ha).2
        have h2 := hb2 b hb'
        rw [hcx'] at h1
        simp only [posLt]; omega
      · intro a ha b hb'
        rw [(mem_insOpt ha).1]
        simp only [List.mem_append] at hb'
        simp only [posLt]
        rcases hb' with hb' | hb'
        · have := (hb b hb').1; omega
        · have := hb2 b hb'; omega

theorem posLt_unique {l : Script α} (h : l.Pairwise posLt) :
    ∀ a ∈ l, ∀ b ∈ l, a.1 = b.1 → a = b := by
  induction l with
  | nil => simp
  | cons c l ih =>
    obtain ⟨hc, hl⟩ := List.pairwise_cons.mp h
    intro a ha b hb hab
    simp only [List.mem_cons] at ha hb
    rcases ha with rfl | ha <;> rcases hb with rfl | hb
    · rfl
    · have := hc b hb; simp only [posLt] at this; omega
    · have := hc a ha; simp only [posLt] at this; omega
    · exact ih hl a ha b hb hab

theorem cle_trans (a b c : Int × Change α) (h1 : cle a b = true) (h2 : cle b c = true) : cle a c = true := by
  simp only [cle, Bool.or_eq_true, Bool.and_eq_true, decide_eq_true_eq, beq_iff_eq] at *
  omega

theorem cle_total (a b : Int × Change α) : (cle a b || cle b a) = true := by
  simp only [cle, Bool.or_eq_true, Bool.and_eq_true, decide_eq_true_eq, beq_iff_eq]
  omega

/-- **The sort step**: for a valid trace the stably sorted script is the segment script. -/
theorem sorted_eq_segs (old new : List α) (tr : Trace) (hv : ValidTrace old new tr) :
    (presort old new tr).mergeSort cle = segs old new (-1) 0 0 tr := by
  have hperm : (presort old new tr).Perm (segs old new (-1) 0 0 tr) := by
    unfold presort deletes
    rw [insertsFrom_eq old new tr none 0 0 hv]
    have := presort_perm_segs old new tr (-1) 0 0 hv (Nat.zero_le _)
    simpa using this
  obtain ⟨_, hsorted⟩ := segs_sorted old new tr (-1) 0 0 hv (by simp)
  have hp2 : ((presort old new tr).mergeSort cle).Perm (segs old new (-1) 0 0 tr) :=
    (List.mergeSort_perm _ _).trans hperm
  apply List.Perm.eq_of_pairwise (le := fun a b => cle a b = true) _
    (List.pairwise_mergeSort cle_trans cle_total _) _ hp2
  · intro a b ha hb h1 h2
    have ha' := hp2.subset ha
    apply posLt_unique hsorted a ha' b hb
    simp only [cle, Bool.or_eq_true, Bool.and_eq_true, decide_eq_true_eq, beq_iff_eq] at h1 h2
    omega
  · apply hsorted.imp
    intro a b hab
    simp only [posLt] at hab
    simp only [cle, Bool.or_eq_true, Bool.and_eq_true, decide_eq_true_eq, beq_iff_eq]
    omega


/-! ## Part D: order of the final script -/

/-- `e` lies behind position `b`: at a larger position, or it is the insert right behind `b`. -/
def GE (b : Int) (e : Int × Change α) : Prop := b < e.1 ∨ (e.1 = b ∧ ∃ it ld, e.2 = Change.insert it ld)

def NoReplace (s : Script α) : Prop := ∀ e ∈ s, ∀ x y, e.2 ≠ Change.replace x y

/-- deletes and replaces sit at real (non-negative) old positions -/
def NonNeg (s : Script α) : Prop := ∀ e ∈ s, (∀ it ld, e.2 ≠ Change.insert it ld) → 0 ≤ e.1

theorem fuse_ge (b : Int) (s : Script α) (h : ∀ e ∈ s, GE b e) : ∀ e ∈ fuse s, GE b e := by
  fun_induction fuse s with
  | case1 => simp
  | case2 c => simpa using h
  | case3 it rest ld i2 y q ih1 ih2 =>
    have hd : b < i2 := by
      have := h (i2, Change.delete y) (by simp)
      rcases this with h1 | ⟨_, _, _, h2⟩
      · exact h1
      · cases h2
    have hq : ∀ e ∈ q, GE b e := fun e he => h e (by simp [he])
    intro e he
    simp only [List.mem_cons] at he
    rcases he with rfl | he
    · exact Or.inl hd
    · split at he
      · exact ih1 (by assumption) hq e he
      · refine ih2 ?_ e he
        intro e' he'
        simp only [List.mem_cons] at he'
        rcases he' with rfl | he'
        · exact Or.inl hd
        · exact hq e' he'
  | case4 i1 it rest ld i2 y q hne ih =>
    intro e he
    simp only [List.mem_cons] at he
    rcases he with rfl | he
    · exact h _ (by simp)
    · exact ih (fun e' he' => h e' (by simp only [List.mem_cons] at he' ⊢; exact Or.inr he')) e he
  | case5 c n q hne ih =>
    intro e he
    simp only [List.mem_cons] at he
    rcases he with rfl | he
    · exact h _ (by simp)
    · exact ih (fun e' he' => h e' (by simp only [List.mem_cons] at he' ⊢; exact Or.inr he')) e he

theorem fuse_gt (b : Int) (s : Script α) (h : ∀ e ∈ s, b < e.1) : ∀ e ∈ fuse s, b < e.1 := by
  fun_induction fuse s with
  | case1 => simp
  | case2 c => simpa using h
  | case3 it rest ld i2 y q ih1 ih2 =>
    have hd : b < i2 := h (i2, Change.delete y) (by simp)
    have hq : ∀ e ∈ q, b < e.1 := fun e he => h e (by simp [he])
    intro e he
    simp only [List.mem_cons] at he
    rcases he with rfl | he
    · exact hd
    · split at he
      · exact ih1 (by assumption) hq e he
      · refine ih2 ?_ e he
        intro e' he'
        simp only [List.mem_cons] at he'
        rcases he' with rfl | he'
        · exact hd
        · exact hq e' he'
  | case4 i1 it rest ld i2 y q hne ih =>
    intro e he
    simp only [List.mem_cons] at he
    rcases he with rfl | he
    · exact h _ (by simp)
    · exact ih (fun e' he' => h e' (by simp only [List.mem_cons] at he' ⊢; exact Or.inr he')) e he
  | case5 c n q hne ih =>
    intro e he
    simp only [List.mem_cons] at he
    rcases he with rfl | he
    · exact h _ (by simp)
    · exact ih (fun e' he' => h e' (by simp only [List.mem_cons] at he' ⊢; exact Or.inr he')) e he

theorem before_of_gt {a e : Int × Change α} (h : a.1 < e.1) : Before a e := Or.inl h

theorem fuse_sorted (s : Script α) (hs : s.Pairwise posLt) (hn : NoReplace s) :
    (fuse s).Pairwise Before := by
  fun_induction fuse s with
  | case1 => simp
  | case2 c => simp
  | case3 it rest ld i2 y q ih1 ih2 =>
    obtain ⟨h1, hs1⟩ := List.pairwise_cons.mp hs
    obtain ⟨h2, hq⟩ := List.pairwise_cons.mp hs1
    have hq2 : ∀ e ∈ q, i2 < e.1 := fun e he => h2 e he
    have hnq : NoReplace q := fun e he => hn e (by simp [he])
    refine List.pairwise_cons.mpr ⟨?_, ?_⟩
    · intro e he
      split at he
      · exact before_of_gt (fuse_gt i2 q hq2 e he)
      · have := fuse_ge i2 ((i2, Change.insert rest true) :: q) (by
          intro e' he'
          simp only [List.mem_cons] at he'
          rcases he' with rfl | he'
          · exact Or.inr ⟨rfl, _, _, rfl⟩
          · exact Or.inl (hq2 e' he')) e he
        rcases this with h | ⟨h, hins⟩
        · exact Or.inl h
        · exact Or.inr ⟨h.symm, ⟨_, _, rfl⟩, hins⟩
    · split
      · exact ih1 (by assumption) hq hnq
      · apply ih2
        · exact List.pairwise_cons.mpr ⟨fun e he => hq2 e he, hq⟩
        · intro e he
          simp only [List.mem_cons] at he
          rcases he with rfl | he
          · intro x y h; cases h
          · exact hnq e he
  | case4 i1 it rest ld i2 y q hne ih =>
    obtain ⟨h1, hs1⟩ := List.pairwise_cons.mp hs
    refine List.pairwise_cons.mpr ⟨?_, ih hs1 (fun e he => hn e (by simp only [List.mem_cons] at he ⊢; exact Or.inr he))⟩
    intro e he
    exact before_of_gt (fuse_gt i1 _ (fun e' he' => h1 e' he') e he)
  | case5 c n q hne ih =>
    obtain ⟨h1, hs1⟩ := List.pairwise_cons.mp hs
    refine List.pairwise_cons.mpr ⟨?_, ih hs1 (fun e he => hn e (by simp only [List.mem_cons] at he ⊢; exact Or.inr he))⟩
    intro e he
    exact before_of_gt (fuse_gt c.1 _ (fun e' he' => h1 e' he') e he)

theorem delRun_kind (old : List α) (len : Nat) :
    ∀ (a : Nat) e, e ∈ delRun old a len → (∃ x, e.2 = Change.delete x) ∧ 0 ≤ e.1 := by
  induction len with
  | zero => intro a e; simp [delRun]
  | succ len ih =>
    intro a e
    simp only [delRun]
    split
    · intro he
      simp only [List.mem_cons] at he
      rcases he with rfl | he
      · exact ⟨⟨_, rfl⟩, by simp⟩
      · exact ih _ _ he
    · exact ih _ _

theorem segs_kind (old new : List α) (tr : Trace) :
    ∀ (px : Int) (first c : Nat) e, e ∈ segs old new px first c tr →
      (∃ it ld, e.2 = Change.insert it ld) ∨ ((∃ x, e.2 = Change.delete x) ∧ 0 ≤ e.1) := by
  induction tr with
  | nil =>
    intro px first c e he
    simp only [segs, List.mem_append] at he
    rcases he with he | he
    · rw [(mem_insOpt he).1]; exact Or.inl ⟨_, _, rfl⟩
    · exact Or.inr (delRun_kind old _ _ _ he)
  | cons q tr ih =>
    intro px first c e he
    obtain ⟨x, y⟩ := q
    simp only [segs, List.mem_append] at he
    rcases he with he | he | he
    · rw [(mem_insOpt he).1]; exact Or.inl ⟨_, _, rfl⟩
    · exact Or.inr (delRun_kind old _ _ _ he)
    · exact ih _ _ _ _ he

theorem segs_noReplace (old new : List α) (tr : Trace) (px : Int) (first c : Nat) :
    NoReplace (segs old new px first c tr) := by
  intro e he x y h
  rcases segs_kind old new tr px first c e he with ⟨_, _, h'⟩ | ⟨⟨_, h'⟩, _⟩ <;> rw [h'] at h <;> cases h


theorem fuse_nonneg (s : Script α) (h : NonNeg s) : NonNeg (fuse s) := by
  fun_induction fuse s with
  | case1 => exact h
  | case2 c => exact h
  | case3 it rest ld i2 y q ih1 ih2 =>
    have hd : 0 ≤ i2 := h (i2, Change.delete y) (by simp) (by intro _ _ h; cases h)
    have hq : NonNeg q := fun e he => h e (by simp [he])
    intro e he
    simp only [List.mem_cons] at he
    rcases he with rfl | he
    · intro _; exact hd
    · split at he
      · exact ih1 (by assumption) hq e he
      · refine ih2 ?_ e he
        intro e' he'
        simp only [List.mem_cons] at he'
        rcases he' with rfl | he'
        · intro hni; exact absurd rfl (hni _ _)
        · exact hq e' he'
  | case4 i1 it rest ld i2 y q hne ih =>
    intro e he
    simp only [List.mem_cons] at he
    rcases he with rfl | he
    · exact h _ (by simp)
    · exact ih (fun e' he' => h e' (by simp only [List.mem_cons] at he' ⊢; exact Or.inr he')) e he
  | case5 c n q hne ih =>
    intro e he
    simp only [List.mem_cons] at he
    rcases he with rfl | he
    · exact h _ (by simp)
    · exact ih (fun e' he' => h e' (by simp only [List.mem_cons] at he' ⊢; exact Or.inr he')) e he

theorem segs_nonneg (old new : List α) (tr : Trace) (px : Int) (first c : Nat) :
    NonNeg (segs old new px first c tr) := by
  intro e he hni
  rcases segs_kind old new tr px first c e he with ⟨it, ld, h'⟩ | ⟨_, h'⟩
  · exact absurd h' (hni it ld)
  · exact h'

/-- One pair of consecutive-or-later changes: `Before` gives ordered, non-overlapping ranges in every
monotone layout. -/
theorem range_le_of_before (st en : Nat → Nat) (hmono : ∀ i j, i < j → en i ≤ st j)
    (hle : ∀ i, st i ≤ en i) (a b : Int × Change α)
    (ha : (∀ it ld, a.2 ≠ Change.insert it ld) → 0 ≤ a.1)
    (hb : (∀ it ld, b.2 ≠ Change.insert it ld) → 0 ≤ b.1)
    (hab : Before a b) : (rangeOf st en a).2 ≤ (rangeOf st en b).1 := by
  have hst0 : ∀ j, st 0 ≤ st j := by
    intro j
    cases j with
    | zero => exact Nat.le_refl _
    | succ j => exact Nat.le_trans (hle 0) (hmono 0 (j + 1) (by omega))
  have hen : ∀ i j, i < j → en i ≤ en j := fun i j h => Nat.le_trans (hmono i j h) (hle j)
  have hst0en : ∀ j, st 0 ≤ en j := fun j => Nat.le_trans (hst0 j) (hle j)
  obtain ⟨pa, ca⟩ := a
  obtain ⟨pb, cb⟩ := b
  have toNat_lt : ∀ (p q : Int), 0 ≤ p → p < q → p.toNat < q.toNat := by intro p q h1 h2; omega
  rcases hab with h | ⟨h, ⟨x, y, hx⟩, ⟨it, ld, hi⟩⟩
  · simp only at h
    cases ca with
    | insert ia la =>
      cases cb with
      | insert ib lb =>
        simp only [rangeOf]
        by_cases h1 : pa < 0 <;> by_cases h2 : pb < 0 <;> simp only [h1, h2, ↓reduceIte]
        · exact Nat.le_refl _
        · exact hst0en _
        · omega
        · exact hen _ _ (toNat_lt _ _ (by omega) h)
      | delete xb =>
        have hb0 : 0 ≤ pb := hb (by intro _ _ h; cases h)
        simp only [rangeOf]
        by_cases h1 : pa < 0 <;> simp only [h1, ↓reduceIte]
        · exact hst0 _
        · exact hmono _ _ (toNat_lt _ _ (by omega) h)
      | replace xb yb =>
        have hb0 : 0 ≤ pb := hb (by intro _ _ h; cases h)
        simp only [rangeOf]
        by_cases h1 : pa < 0 <;> simp only [h1, ↓reduceIte]
        · exact hst0 _
        · exact hmono _ _ (toNat_lt _ _ (by omega) h)
    | delete xa =>
      have ha0 : 0 ≤ pa := ha (by intro _ _ h; cases h)
      cases cb with
      | insert ib lb =>
        simp only [rangeOf]
        have : ¬ pb < 0 := by omega
        simp only [this, ↓reduceIte]
        exact hen _ _ (toNat_lt _ _ ha0 h)
      | delete xb => simp only [rangeOf]; exact hmono _ _ (toNat_lt _ _ ha0 h)
      | replace xb yb => simp only [rangeOf]; exact hmono _ _ (toNat_lt _ _ ha0 h)
    | replace xa ya =>
      have ha0 : 0 ≤ pa := ha (by intro _ _ h; cases h)
      cases cb with
      | insert ib lb =>
        simp only [rangeOf]
        have : ¬ pb < 0 := by omega
        simp only [this, ↓reduceIte]
        exact hen _ _ (toNat_lt _ _ ha0 h)
      | delete xb => simp only [rangeOf]; exact hmono _ _ (toNat_lt _ _ ha0 h)
      | replace xb yb => simp only [rangeOf]; exact hmono _ _ (toNat_lt _ _ ha0 h)
  · simp only at h hx hi
    subst hx hi h
    have ha0 : 0 ≤ pa := ha (by intro _ _ h; cases h)
    simp only [rangeOf]
    have : ¬ pa < 0 := by omega
    simp only [this, ↓reduceIte]
    exact Nat.le_refl _


/-! ## Part E: position bounds -/

theorem fuse_lt (N : Int) (s : Script α) (h : ∀ e ∈ s, e.1 < N) : ∀ e ∈ fuse s, e.1 < N := by
  fun_induction fuse s with
  | case1 => simp
  | case2 c => simpa using h
  | case3 it rest ld i2 y q ih1 ih2 =>
    have hd : i2 < N := h (i2, Change.delete y) (by simp)
    have hq : ∀ e ∈ q, e.1 < N := fun e he => h e (by simp [he])
    intro e he
    simp only [List.mem_cons] at he
    rcases he with rfl | he
    · exact hd
    · split at he
      · exact ih1 (by assumption) hq e he
      · refine ih2 ?_ e he
        intro e' he'
        simp only [List.mem_cons] at he'
        rcases he' with rfl | he'
        · exact hd
        · exact hq e' he'
  | case4 i1 it rest ld i2 y q hne ih =>
    intro e he
    simp only [List.mem_cons] at he
    rcases he with rfl | he
    · exact h _ (by simp)
    · exact ih (fun e' he' => h e' (by simp only [List.mem_cons] at he' ⊢; exact Or.inr he')) e he
  | case5 c n q hne ih =>
    intro e he
    simp only [List.mem_cons] at he
    rcases he with rfl | he
    · exact h _ (by simp)
    · exact ih (fun e' he' => h e' (by simp only [List.mem_cons] at he' ⊢; exact Or.inr he')) e he

theorem segs_lt (old new : List α) (tr : Trace) :
    ∀ (px : Int) (first c : Nat), ValidFrom old new c first tr → c ≤ old.length → px < Int.ofNat c →
      ∀ e ∈ segs old new px first c tr, e.1 < Int.ofNat old.length := by
  induction tr with
  | nil =>
    intro px first c _ hc hpx e he
    simp only [segs, List.mem_append] at he
    rcases he with he | he
    · rw [(mem_insOpt he).1]; simp only [Int.ofNat_eq_natCast] at *; omega
    · have := ((delRun_bounds old (old.length - c) c).1 e he).2
      simp only [Int.ofNat_eq_natCast] at *; omega
  | cons q tr ih =>
    intro px first c hv hc hpx e he
    obtain ⟨x, y⟩ := q
    simp only [ValidFrom] at hv
    obtain ⟨hcx, _, ⟨a, hox, _⟩, hv'⟩ := hv
    have hx := (List.getElem?_eq_some_iff.mp hox).1
    simp only [segs, List.mem_append] at he
    rcases he with he | he | he
    · rw [(mem_insOpt he).1]; simp only [Int.ofNat_eq_natCast] at *; omega
    · have := ((delRun_bounds old (x - c) c).1 e he).2
      simp only [Int.ofNat_eq_natCast] at *; omega
    · exact ih (Int.ofNat x) (y + 1) (x + 1) hv' (by omega) (by simp only [Int.ofNat_eq_natCast]; omega) e he


/-! ## Part F: the auto-import shape `old ++ [x]` -/

/-- The diagonal trace `(k,k), (k+1,k+1), …` of length `d` (oldest first). -/
def diag (k d : Nat) : Trace := (List.range' k d).map (fun i => (i, i))

theorem diag_succ (k d : Nat) : diag k (d + 1) = (k, k) :: diag (k + 1) d := by
  simp [diag, List.range'_succ]

theorem snake_diag (old : List α) (x : α) (d : Nat) :
    ∀ (k : Nat) (tr : Trace), k + d = old.length →
      followSnake old (old ++ [x]) k k tr = (old.length, old.length, (diag k d).reverse ++ tr) := by
  induction d with
  | zero =>
    intro k tr hk
    have : k = old.length := by omega
    subst this
    rw [followSnake]
    simp [diag]
  | succ d ih =>
    intro k tr hk
    have hlt : k < old.length := by omega
    rw [followSnake]
    have hnew : (old ++ [x])[k]? = some old[k] := by
      rw [List.getElem?_append_left hlt, List.getElem?_eq_getElem hlt]
    simp only [hlt, ↓reduceDIte, hnew, ↓reduceIte]
    rw [ih (k + 1) ((k, k) :: tr) (by omega), diag_succ]
    simp

theorem segs_diag (old : List α) (x : α) (d : Nat) :
    ∀ (k : Nat), k + d = old.length →
      segs old (old ++ [x]) (Int.ofNat k - 1) k k (diag k d)
        = [(Int.ofNat old.length - 1, Change.insert [x] false)] := by
  induction d with
  | zero =>
    intro k hk
    have : k = old.length := by omega
    subst this
    simp only [diag, List.range'_zero, List.map_nil, segs, List.length_append, List.length_singleton,
      Nat.sub_self, delRun, List.append_nil]
    have : slice (old ++ [x]) old.length (old.length + 1) = [x] := by
      simp [slice]
    rw [this]
    simp [insOpt]
  | succ d ih =>
    intro k hk
    rw [diag_succ]
    simp only [segs, slice_self, insOpt, ↓reduceIte, Nat.sub_self, delRun, List.nil_append]
    have : Int.ofNat k = Int.ofNat (k + 1) - 1 := by simp
    rw [this]
    exact ih (k + 1) (by omega)


theorem snake_diag_self (old : List α) (d : Nat) :
    ∀ (k : Nat) (tr : Trace), k + d = old.length →
      followSnake old old k k tr = (old.length, old.length, (diag k d).reverse ++ tr) := by
  induction d with
  | zero =>
    intro k tr hk
    have : k = old.length := by omega
    subst this
    rw [followSnake]
    simp [diag]
  | succ d ih =>
    intro k tr hk
    have hlt : k < old.length := by omega
    rw [followSnake]
    simp only [hlt, ↓reduceDIte, List.getElem?_eq_getElem hlt, ↓reduceIte]
    rw [ih (k + 1) ((k, k) :: tr) (by omega), diag_succ]
    simp

theorem segs_diag_self (old : List α) (d : Nat) :
    ∀ (k : Nat) (px : Int), k + d = old.length → segs old old px k k (diag k d) = [] := by
  induction d with
  | zero =>
    intro k px hk
    have : k = old.length := by omega
    subst this
    simp [diag, segs, slice_self, insOpt, delRun]
  | succ d ih =>
    intro k px hk
    rw [diag_succ]
    simp only [segs, slice_self, insOpt, ↓reduceIte, Nat.sub_self, delRun, List.nil_append]
    exact ih (k + 1) _ (by omega)

/-! ## Part G: the breadth-first search terminates (completeness) -/

theorem followSnake_pos_indep (old new : List α) (x y : Nat) (tr : Trace) :
    ∀ tr', (followSnake old new x y tr).1 = (followSnake old new x y tr').1 ∧
      (followSnake old new x y tr).2.1 = (followSnake old new x y tr').2.1 := by
  fun_induction followSnake old new x y tr with
  | case1 x y tr hx hb ih =>
    intro tr'
    rw [followSnake.eq_def old new x y tr']
    simp only [hx, ↓reduceDIte, hb, ↓reduceIte]
    exact ih _
  | case2 x y tr hx b hb hne =>
    intro tr'
    rw [followSnake.eq_def old new x y tr']
    simp [hx, hb, hne]
  | case3 x y tr hx hb =>
    intro tr'
    rw [followSnake.eq_def old new x y tr']
    simp [hx, hb]
  | case4 x y tr hx =>
    intro tr'
    rw [followSnake.eq_def old new x y tr']
    simp [hx]

/-- End point of the snake that starts at `(x, y)`. -/
def snakeEnd (old new : List α) (x y : Nat) : Nat × Nat :=
  ((followSnake old new x y []).1, (followSnake old new x y []).2.1)

theorem followSnake_key (old new : List α) (x y : Nat) (tr : Trace) :
    ((followSnake old new x y tr).1, (followSnake old new x y tr).2.1) = snakeEnd old new x y := by
  have := followSnake_pos_indep old new x y tr []
  simp only [snakeEnd, this.1, this.2]

def hasKey (v : Visited) (k : Nat × Nat) : Prop := ∃ t, (k, t) ∈ v

theorem lookupV_isSome_iff (v : Visited) (k : Nat × Nat) : (lookupV v k).isSome = true ↔ hasKey v k := by
  constructor
  · intro h
    cases hl : lookupV v k with
    | none => simp [hl] at h
    | some t => exact ⟨t, lookupV_some hl⟩
  · intro ⟨t, ht⟩
    unfold lookupV
    simp only [Option.isSome_map, List.find?_isSome]
    exact ⟨(k, t), ht, by simp⟩

theorem lookupV_none_iff (v : Visited) (k : Nat × Nat) : lookupV v k = none ↔ ¬ hasKey v k := by
  rw [← lookupV_isSome_iff]
  cases lookupV v k <;> simp

theorem visit_spec (v : Visited) (nf : List (Nat × Nat)) (k : Nat × Nat) (t : Trace) :
    hasKey (visit v nf k t).1 k ∧
    (∀ k', hasKey v k' → hasKey (visit v nf k t).1 k') ∧
    (∀ k', hasKey (visit v nf k t).1 k' → hasKey v k' ∨ k' ∈ (visit v nf k t).2) ∧
    (∀ k' ∈ nf, k' ∈ (visit v nf k t).2) ∧
    (∀ k' ∈ (visit v nf k t).2, k' ∈ nf ∨ hasKey (visit v nf k t).1 k') := by
  unfold visit
  split
  · rename_i h
    have hk := (lookupV_isSome_iff v k).mp h
    exact ⟨hk, fun _ h => h, fun _ h => Or.inl h, fun _ h => h, fun _ h => Or.inl h⟩
  · refine ⟨⟨t, by simp⟩, ?_, ?_, ?_, ?_⟩
    · intro k' ⟨t', ht'⟩; exact ⟨t', by simp [ht']⟩
    · intro k' ⟨t', ht'⟩
      simp only [List.mem_cons, Prod.mk.injEq] at ht'
      rcases ht' with ⟨rfl, _⟩ | ht'
      · right; simp
      · left; exact ⟨t', ht'⟩
    · intro k' hk'; simp [hk']
    · intro k' hk'
      simp only [List.mem_append, List.mem_singleton] at hk'
      rcases hk' with hk' | rfl
      · exact Or.inl hk'
      · right; exact ⟨t, by simp⟩

theorem expand_spec (old new : List α) (fr : List (Nat × Nat)) (v : Visited) (nf : List (Nat × Nat)) :
    (∀ k, hasKey v k → hasKey (expand old new fr v nf).1 k) ∧
    (∀ k, hasKey (expand old new fr v nf).1 k → hasKey v k ∨ k ∈ (expand old new fr v nf).2) ∧
    (∀ k ∈ nf, k ∈ (expand old new fr v nf).2) ∧
    (∀ k ∈ (expand old new fr v nf).2, k ∈ nf ∨ hasKey (expand old new fr v nf).1 k) ∧
    (∀ p ∈ fr, hasKey v p →
      hasKey (expand old new fr v nf).1 (snakeEnd old new (p.1 + 1) p.2) ∧
      hasKey (expand old new fr v nf).1 (snakeEnd old new p.1 (p.2 + 1))) := by
  fun_induction expand old new fr v nf with
  | case1 v nf =>
    exact ⟨fun _ h => h, fun _ h => Or.inl h, fun _ h => h, fun _ h => Or.inl h, by simp⟩
  | case2 x y fr v nf hl ih =>
    obtain ⟨i1, i2, i3, i4, i5⟩ := ih
    refine ⟨i1, i2, i3, i4, ?_⟩
    intro p hp hk
    simp only [List.mem_cons] at hp
    rcases hp with rfl | hp
    · exact absurd hk ((lookupV_none_iff v _).mp hl)
    · exact i5 p hp hk
  | case3 x y fr v nf tr hl a b r1 r2 ih =>
    obtain ⟨i1, i2, i3, i4, i5⟩ := ih
    obtain ⟨a1, a2, a3, a4, a5⟩ := visit_spec v nf (a.1, a.2.1) a.2.2
    obtain ⟨b1, b2, b3, b4, b5⟩ := visit_spec r1.1 r1.2 (b.1, b.2.1) b.2.2
    have ka : (a.1, a.2.1) = snakeEnd old new (x + 1) y := followSnake_key old new (x + 1) y tr
    have kb : (b.1, b.2.1) = snakeEnd old new x (y + 1) := followSnake_key old new x (y + 1) tr
    refine ⟨?_, ?_, ?_, ?_, ?_⟩
    · intro k hk; exact i1 k (b2 k (a2 k hk))
    · intro k hk
      rcases i2 k hk with h | h
      · rcases b3 k h with h | h
        · rcases a3 k h with h | h
          · exact Or.inl h
          · exact Or.inr (i3 k (b4 k h))
        · exact Or.inr (i3 k h)
      · exact Or.inr h
    · intro k hk; exact i3 k (b4 k (a4 k hk))
    · intro k hk
      rcases i4 k hk with h | h
      · rcases b5 k h with h | h
        · rcases a5 k h with h | h
          · exact Or.inl h
          · exact Or.inr (i1 k (b2 k h))
        · exact Or.inr (i1 k h)
      · exact Or.inr h
    · intro p hp hk
      simp only [List.mem_cons] at hp
      rcases hp with rfl | hp
      · simp only
        rw [← ka, ← kb]
        exact ⟨i1 _ (b2 _ a1), i1 _ b1⟩
      · exact i5 p hp (b2 p (a2 p hk))

section total
variable (old new : List α)

def Good (p : Nat × Nat) : Prop := p.1 ≤ old.length ∧ p.2 ≤ new.length
def rank (p : Nat × Nat) : Nat := (old.length - p.1) + (new.length - p.2)
/-- the successor that certainly makes progress inside the rectangle -/
def succN (p : Nat × Nat) : Nat × Nat :=
  if p.1 < old.length then snakeEnd old new (p.1 + 1) p.2 else snakeEnd old new p.1 (p.2 + 1)

theorem succN_good (p : Nat × Nat) (hg : Good old new p) (hne : p ≠ (old.length, new.length)) :
    Good old new (succN old new p) ∧ rank old new (succN old new p) < rank old new p := by
  obtain ⟨x, y⟩ := p
  simp only [Good] at hg
  unfold succN snakeEnd
  simp only
  split
  · rename_i hx
    have := followSnake_bounds old new (x + 1) y []
    simp only [Good, rank]
    have h3 := this.2.2.1 (by omega)
    have h4 := this.2.2.2 hg.2
    refine ⟨⟨h3, h4⟩, by omega⟩
  · rename_i hx
    have hxe : x = old.length := by omega
    have hy : y < new.length := by
      rcases Nat.lt_or_ge y new.length with h | h
      · exact h
      · exfalso; apply hne; simp only [Prod.mk.injEq]; omega
    have := followSnake_bounds old new x (y + 1) []
    simp only [Good, rank]
    have h3 := this.2.2.1 hg.1
    have h4 := this.2.2.2 (by omega)
    refine ⟨⟨h3, h4⟩, by omega⟩

theorem chain (v : Visited) (hnm : ¬ hasKey v (old.length, new.length)) :
    ∀ (r : Nat) (g : Nat × Nat), rank old new g ≤ r → hasKey v g → Good old new g →
      ∃ h, hasKey v h ∧ Good old new h ∧ rank old new h ≤ rank old new g ∧
        h ≠ (old.length, new.length) ∧ ¬ hasKey v (succN old new h) := by
  intro r
  induction r with
  | zero =>
    intro g hr hk hg
    exfalso; apply hnm
    have : g = (old.length, new.length) := by
      obtain ⟨x, y⟩ := g
      simp only [rank, Good] at hr hg
      simp only [Prod.mk.injEq]; omega
    rw [← this]; exact hk
  | succ r ih =>
    intro g hr hk hg
    have hne : g ≠ (old.length, new.length) := by
      intro h; apply hnm; rw [← h]; exact hk
    by_cases hs : hasKey v (succN old new g)
    · obtain ⟨hg', hr'⟩ := succN_good old new g hg hne
      obtain ⟨h, h1, h2, h3, h4, h5⟩ := ih (succN old new g) (by omega) hs hg'
      exact ⟨h, h1, h2, by omega, h4, h5⟩
    · exact ⟨g, hk, hg, Nat.le_refl _, hne, hs⟩

/-- BFS invariant: frontier nodes are visited; a visited node inside the rectangle that is not in
the frontier has already been expanded (its progressing successor is visited). -/
def BInv (v : Visited) (fr : List (Nat × Nat)) : Prop :=
  (∀ p ∈ fr, hasKey v p) ∧
  (∀ p, hasKey v p → Good old new p → p ≠ (old.length, new.length) → p ∉ fr → hasKey v (succN old new p))

theorem bfs_total (f : Nat) :
    ∀ (v : Visited) (fr : List (Nat × Nat)), BInv old new v fr →
      (∃ g, hasKey v g ∧ Good old new g ∧ rank old new g < f) → ∃ tr, bfs old new f v fr = some tr := by
  induction f with
  | zero => intro v fr _ ⟨g, _, _, h⟩; omega
  | succ f ih =>
    intro v fr hinv ⟨g, hk, hg, hr⟩
    rw [bfs]
    cases hl : lookupV v (old.length, new.length) with
    | some t => exact ⟨_, rfl⟩
    | none =>
      simp only
      have hnm := (lookupV_none_iff v _).mp hl
      obtain ⟨h, h1, h2, h3, h4, h5⟩ := chain old new v hnm (rank old new g) g (Nat.le_refl _) hk hg
      have hfr : h ∈ fr := by
        apply Classical.byContradiction
        intro hnot
        exact h5 (hinv.2 h h1 h2 h4 hnot)
      obtain ⟨e1, e2, e3, e4, e5⟩ := expand_spec old new fr v []
      have hsucc : hasKey (expand old new fr v []).1 (succN old new h) := by
        have := e5 h hfr h1
        unfold succN
        split
        · exact this.1
        · exact this.2
      obtain ⟨hg', hr'⟩ := succN_good old new h h2 h4
      apply ih
      · refine ⟨?_, ?_⟩
        · intro p hp
          rcases e4 p hp with h | h
          · simp at h
          · exact h
        · intro p hp hgp hnp hnf
          rcases e2 p hp with hv | hv
          · by_cases hpf : p ∈ fr
            · have := e5 p hpf hv
              unfold succN
              split
              · exact this.1
              · exact this.2
            · exact e1 _ (hinv.2 p hv hgp hnp hpf)
          · exact absurd hv hnf
      · exact ⟨succN old new h, hsucc, hg', by omega⟩

end total

end SamVerif.Differ
