import SamVerif.Model.Doc
/-! Helper lemmas for `Props/C09.lean` (layout engine). -/
namespace SamVerif.Doc
open Doc

/-- The collector only ever grows during a call (so truncating to the old length restores it). -/
theorem genBest_prefix (w : Nat) (col : List Tok) (c : Nat) (e : Bool) (l : List (Nat × Doc)) :
    ∃ t, (genBest w col c e l).2 = col ++ t := by
  fun_induction genBest w col c e l
  case case1 => exact ⟨[], (List.append_nil _).symm⟩
  case case2 => exact ⟨[], (List.append_nil _).symm⟩
  case case3 => exact ⟨[], (List.append_nil _).symm⟩
  case case4 ih => exact ih
  case case5 ih => exact ih
  case case6 ih => exact ih
  case case7 ih => obtain ⟨t, ht⟩ := ih; exact ⟨[_] ++ t, by rw [ht, List.append_assoc]⟩
  case case8 ih => obtain ⟨t, ht⟩ := ih; exact ⟨[_] ++ t, by rw [ht, List.append_assoc]⟩
  case case9 ih => obtain ⟨t, ht⟩ := ih; exact ⟨[_] ++ t, by rw [ht, List.append_assoc]⟩
  case case10 ih => obtain ⟨t, ht⟩ := ih; exact ⟨[_] ++ t, by rw [ht, List.append_assoc]⟩
  case case11 ih => obtain ⟨t, ht⟩ := ih; exact ⟨[_] ++ t, by rw [ht, List.append_assoc]⟩
  case case12 r hr ih => exact ih
  case case13 r hr ih1 ih2 =>
    obtain ⟨t, ht⟩ := ih1
    rw [show r.snd = _ from ht, List.take_left] at ih2 ⊢
    exact ih2

/-- Without an enforced budget the engine never reports failure (the top-level call). -/
theorem genBest_true (w : Nat) (col : List Tok) (c : Nat) (e : Bool) (l : List (Nat × Doc))
    (he : e = false) : (genBest w col c e l).1 = true := by
  fun_induction genBest w col c e l
  case case1 h => simp [he] at h
  case case2 => rfl
  case case3 h => simp [he] at h
  case case4 ih => exact ih he
  case case5 ih => exact ih he
  case case6 ih => exact ih he
  case case7 ih => exact ih he
  case case8 ih => exact ih he
  case case9 ih => exact ih rfl
  case case10 ih => exact ih rfl
  case case11 ih => exact ih rfl
  case case12 r hr ih => exact hr
  case case13 r hr ih1 ih2 => exact ih2 he

variable {α : Type}

def lval (k : Key α) : List (Nat × Doc) → List α
  | [] => []
  | (_, d) :: r => val k d ++ lval k r

def LAgree (k : Key α) : List (Nat × Doc) → Prop
  | [] => True
  | (_, d) :: r => Agree k d ∧ LAgree k r

def tval (k : Key α) (ts : List Tok) : List α := ts.flatMap k.tok

theorem tval_append (k : Key α) (a b : List Tok) : tval k (a ++ b) = tval k a ++ tval k b := by
  simp [tval]

/-- Core invariant of `generate_best_doc`: a successful call appends to the collector exactly the
content of the work list (whatever branches it committed to), for every key the `Union`s agree on. -/
theorem genBest_val (k : Key α) (w : Nat) (col : List Tok) (c : Nat) (e : Bool)
    (l : List (Nat × Doc)) (ha : LAgree k l) (hr : (genBest w col c e l).1 = true) :
    tval k (genBest w col c e l).2 = tval k col ++ lval k l := by
  fun_induction genBest w col c e l
  case case1 => simp at hr
  case case2 => simp [lval]
  case case3 => simp at hr
  case case4 ih => simpa [lval, val] using ih ha.2 hr
  case case5 ih =>
    have := ih ⟨ha.1.1, ha.1.2, ha.2⟩ hr
    simpa [lval, val, List.append_assoc] using this
  case case6 ih => simpa [lval, val] using ih ⟨ha.1, ha.2⟩ hr
  case case7 ih => simpa [lval, val, tval_append, tval, Key.tok, List.append_assoc] using ih ha.2 hr
  case case8 ih => simpa [lval, val, tval_append, tval, Key.tok, List.append_assoc] using ih ha.2 hr
  case case9 ih => simpa [lval, val, tval_append, tval, Key.tok, List.append_assoc] using ih ha.2 hr
  case case10 ih => simpa [lval, val, tval_append, tval, Key.tok, List.append_assoc] using ih ha.2 hr
  case case11 ih => simpa [lval, val, tval_append, tval, Key.tok, List.append_assoc] using ih ha.2 hr
  case case12 r hr1 ih =>
    have := ih ⟨ha.1.2.1, ha.2⟩ hr1
    simpa [lval, val] using this
  case case13 r hr1 ih1 ih2 =>
    obtain ⟨t, ht⟩ := genBest_prefix _ _ _ true _
    rw [show r.snd = _ from ht, List.take_left] at ih2 hr ⊢
    have := ih2 ⟨ha.1.2.2, ha.2⟩ hr
    simpa [lval, val, ha.1.1] using this

/-! ### From tokens to the final string: only whitespace is touched -/

theorem nonWs_append (a b : Str) : nonWs (a ++ b) = nonWs a ++ nonWs b := by simp [nonWs]

theorem filter_dropWhile_not {β : Type} (p : β → Bool) (l : List β) :
    (l.dropWhile p).filter (fun c => !p c) = l.filter (fun c => !p c) := by
  induction l with
  | nil => rfl
  | cons x xs ih =>
    by_cases hx : p x
    · simp [List.dropWhile, hx, ih]
    · simp [List.dropWhile, hx]

theorem nonWs_reverse (s : Str) : nonWs s.reverse = (nonWs s).reverse := by
  simp [nonWs, List.filter_reverse]

theorem nonWs_trimEnd (s : Str) : nonWs (trimEnd s) = nonWs s := by
  unfold trimEnd
  rw [nonWs_reverse]
  have := filter_dropWhile_not isWs s.reverse
  unfold nonWs at *
  rw [this, List.filter_reverse, List.reverse_reverse]

theorem nonWs_newline_indent (n : Nat) : nonWs ('\n' :: List.replicate n ' ') = [] := by
  have h1 : isWs '\n' = true := by decide
  have h2 : isWs ' ' = true := by decide
  simp [nonWs, h1, h2]

theorem renderStep_nonWs (st : Str × Bool) (t : Tok) :
    nonWs (renderStep st t).1 = nonWs st.1 ++ textKey.tok t := by
  cases t with
  | text s => simp [renderStep, nonWs_append, Key.tok, textKey]
  | nstext s => simp [renderStep, nonWs_append, Key.tok, textKey]
  | line i h =>
    simp only [renderStep, Key.tok, List.append_nil]
    rw [nonWs_append, nonWs_newline_indent, List.append_nil]
    split
    · exact nonWs_trimEnd _
    · rfl

theorem foldl_renderStep_nonWs (toks : List Tok) (st : Str × Bool) :
    nonWs (toks.foldl renderStep st).1 = nonWs st.1 ++ tval textKey toks := by
  induction toks generalizing st with
  | nil => simp [tval]
  | cons t ts ih =>
    simp only [List.foldl_cons]
    rw [ih, renderStep_nonWs]
    simp [tval, List.append_assoc]

theorem render_nonWs (toks : List Tok) : nonWs (render toks) = tval textKey toks := by
  unfold render
  rw [foldl_renderStep_nonWs]
  simp [nonWs]

theorem splitNl_ne_nil (s : Str) : splitNl s ≠ [] := by
  induction s with
  | nil => simp [splitNl]
  | cons c cs ih =>
    simp only [splitNl]
    split
    · simp
    · split <;> simp

theorem splitNl_nonWs (s : Str) : (splitNl s).flatMap nonWs = nonWs s := by
  induction s with
  | nil => simp [splitNl, nonWs]
  | cons c cs ih =>
    simp only [splitNl]
    split
    · rename_i hc
      have h1 : isWs '\n' = true := by decide
      subst hc
      simp [ih, nonWs, h1] 
    · split
      · rename_i h; exact absurd h (splitNl_ne_nil cs)
      · rename_i w ws h
        rw [h] at ih
        simp only [List.flatMap_cons] at ih ⊢
        by_cases hw : isWs c
        · simp [nonWs, hw] at ih ⊢; exact ih
        · simp [nonWs, hw] at ih ⊢; exact ih

theorem joinNl_nonWs (ls : List Str) : nonWs (joinNl ls) = ls.flatMap nonWs := by
  induction ls with
  | nil => simp [joinNl, nonWs]
  | cons x xs ih =>
    cases xs with
    | nil => simp [joinNl]
    | cons y rest =>
      have h1 : isWs '\n' = true := by decide
      simp only [joinNl, nonWs_append, List.flatMap_cons] at ih ⊢
      rw [← ih]
      simp [nonWs, h1]

theorem post_nonWs (sb : Str) : nonWs (post sb) = nonWs sb := by
  have key : nonWs (trimEnd (joinNl ((splitNl sb).map trimEnd))) = nonWs sb := by
    rw [nonWs_trimEnd, joinNl_nonWs, List.flatMap_map]
    rw [← splitNl_nonWs sb]
    congr 1
    funext l
    exact nonWs_trimEnd l
  unfold post
  simp only
  split
  · exact key
  · have h1 : isWs '\n' = true := by decide
    rw [nonWs_append, key]
    simp [nonWs, h1]

/-! ### The `Union` builders -/

theorem flatten_val (k : Key α) (hsp : k.text [' '] = []) (d f : Doc) (h : flatten d = some f) :
    val k f = val k d := by
  induction d generalizing f with
  | nil => simp [flatten] at h; subst h; rfl
  | concat a b iha ihb =>
    simp only [flatten] at h
    split at h
    · rename_i a' b' ha hb
      cases h
      simp [val, iha a' ha, ihb b' hb]
    · cases h
  | nest n d ih =>
    simp only [flatten, Option.map_eq_some_iff] at h
    obtain ⟨d', hd, rfl⟩ := h
    simp [val, ih d' hd]
  | text s => simp [flatten] at h; subst h; rfl
  | nstext s => simp [flatten] at h; subst h; rfl
  | line => simp [flatten] at h; subst h; simp [val, hsp]
  | lineNil => simp [flatten] at h; subst h; rfl
  | lineHard => simp [flatten] at h
  | union a b iha _ => simp only [flatten] at h; simp [val, iha f h]

theorem flatten_agree (k : Key α) (d f : Doc) (h : flatten d = some f) : Agree k f := by
  induction d generalizing f with
  | nil => simp [flatten] at h; subst h; trivial
  | concat a b iha ihb =>
    simp only [flatten] at h
    split at h
    · rename_i a' b' ha hb
      cases h
      exact ⟨iha a' ha, ihb b' hb⟩
    · cases h
  | nest n d ih =>
    simp only [flatten, Option.map_eq_some_iff] at h
    obtain ⟨d', hd, rfl⟩ := h
    exact ih d' hd
  | text s => simp [flatten] at h; subst h; trivial
  | nstext s => simp [flatten] at h; subst h; trivial
  | line => simp [flatten] at h; subst h; trivial
  | lineNil => simp [flatten] at h; subst h; trivial
  | lineHard => simp [flatten] at h
  | union a b iha _ => simp only [flatten] at h; exact iha f h

theorem group_val (k : Key α) (hsp : k.text [' '] = []) (d : Doc) : val k (group d) = val k d := by
  unfold group
  split
  · rename_i f hf; simp [val, flatten_val k hsp d f hf]
  · rfl

theorem group_agree (k : Key α) (hsp : k.text [' '] = []) (d : Doc) (hd : Agree k d) :
    Agree k (group d) := by
  unfold group
  split
  · rename_i f hf; exact ⟨flatten_val k hsp d f hf, flatten_agree k d f hf, hd⟩
  · exact hd

theorem concatV_val (k : Key α) (ds : List Doc) : val k (concatV ds) = ds.flatMap (val k) := by
  induction ds with
  | nil => rfl
  | cons x xs ih =>
    cases xs with
    | nil => simp [concatV]
    | cons y rest => simp only [concatV, val, ih, List.flatMap_cons]

theorem concatV_agree (k : Key α) (ds : List Doc) (h : ∀ d ∈ ds, Agree k d) :
    Agree k (concatV ds) := by
  induction ds with
  | nil => trivial
  | cons x xs ih =>
    cases xs with
    | nil => exact h x (by simp)
    | cons y rest =>
      exact ⟨h x (by simp), ih (fun d hd => h d (by simp at hd ⊢; right; exact hd))⟩

theorem bracketFlexible_val (k : Key α) (hsp : k.text [' '] = []) (l r : Str) (sep doc : Doc) :
    val k (bracketFlexible l sep doc r) = k.text l ++ (val k sep ++ val k doc) ++ val k sep ++ k.text r := by
  unfold bracketFlexible
  rw [group_val k hsp, concatV_val]
  simp [val]

theorem bracketFlexible_agree (k : Key α) (hsp : k.text [' '] = []) (l r : Str) (sep doc : Doc)
    (hs : Agree k sep) (hd : Agree k doc) : Agree k (bracketFlexible l sep doc r) := by
  unfold bracketFlexible
  apply group_agree k hsp
  apply concatV_agree
  intro d hmem
  simp at hmem
  rcases hmem with rfl | rfl | rfl | rfl
  · trivial
  · exact ⟨hs, hd⟩
  · exact hs
  · trivial

theorem splitSp_ne_nil (s : Str) : splitSp s ≠ [] := by
  induction s with
  | nil => simp [splitSp]
  | cons c cs ih =>
    simp only [splitSp]
    split
    · simp
    · split <;> simp

/-- Splitting at blanks loses nothing but blanks. -/
theorem splitSp_nonWs (s : Str) : (splitSp s).flatMap nonWs = nonWs s := by
  induction s with
  | nil => simp [splitSp, nonWs]
  | cons c cs ih =>
    simp only [splitSp]
    split
    · rename_i hc
      have h1 : isWs ' ' = true := by decide
      subst hc
      simp [ih, nonWs, h1]
    · split
      · rename_i h; exact absurd h (splitSp_ne_nil cs)
      · rename_i w ws h
        rw [h] at ih
        simp only [List.flatMap_cons] at ih ⊢
        by_cases hw : isWs c
        · simp [nonWs, hw] at ih ⊢; exact ih
        · simp [nonWs, hw] at ih ⊢; exact ih

theorem commentWord_val (k : Key α) (leader w : Str) (hsp : k.text [' '] = []) :
    val k (commentWord leader w) = k.ns w := by
  simp [commentWord, val, hsp]

theorem commentWord_agree (k : Key α) (leader w : Str) (hsp : k.text [' '] = [])
    (hl : k.text leader = []) : Agree k (commentWord leader w) := by
  refine ⟨?_, ⟨trivial, trivial⟩, ?_⟩
  · simp [concatV, val, hsp, hl]
  · exact ⟨trivial, trivial, trivial⟩

theorem words_val (k : Key α) (leader : Str) (hsp : k.text [' '] = []) (ws : List Str) :
    (ws.map (commentWord leader)).flatMap (val k) = ws.flatMap k.ns := by
  induction ws with
  | nil => rfl
  | cons w ws ih => simp [commentWord_val k leader w hsp, ih]

theorem lineComment_val (k : Key α) (t : Str) (hl : k.text leaderLine = []) :
    val k (lineComment t) = k.ns t := by
  simp [lineComment, val, hl]

theorem lineComment_agree (k : Key α) (t : Str) (hsp : k.text [' '] = [])
    (hl : k.text leaderLine = []) (hw : k.ns t = (splitSp t).flatMap k.ns) :
    Agree k (lineComment t) := by
  refine ⟨?_, ⟨trivial, trivial⟩, ?_⟩
  · rw [concatV_val]
    simp only [val, hl, List.nil_append, List.flatMap_cons]
    rw [words_val k leaderLine hsp, hw]
  · apply concatV_agree
    intro d hd
    simp at hd
    rcases hd with rfl | ⟨w, _, rfl⟩
    · trivial
    · exact commentWord_agree k leaderLine w hsp hl

theorem multilineComment_val (k : Key α) (starter t : Str) (hsp : k.text [' '] = []) :
    val k (multilineComment starter t) = k.text starter ++ k.ns t ++ k.text [' ', '*', '/'] := by
  simp [multilineComment, concatV, val, hsp]

theorem multilineComment_agree (k : Key α) (starter t : Str) (hsp : k.text [' '] = [])
    (hl : k.text leaderStar = []) (hw : k.ns t = (splitSp t).flatMap k.ns) :
    Agree k (multilineComment starter t) := by
  refine ⟨?_, ?_, ?_⟩
  · rw [concatV_val, concatV_val]
    simp only [List.flatMap_append, List.flatMap_cons, List.flatMap_nil, val, hsp, hl,
      List.nil_append, List.append_nil]
    rw [words_val k leaderStar hsp, hw]
    simp [List.append_assoc]
  · exact ⟨trivial, trivial, trivial, trivial⟩
  · apply concatV_agree
    intro d hd
    simp at hd
    rcases hd with rfl | rfl | rfl | ⟨w, _, rfl⟩ | rfl | rfl
    · trivial
    · trivial
    · trivial
    · exact commentWord_agree k leaderStar w hsp hl
    · trivial
    · trivial

/-! ### The collected tokens are a linearisation of the document along some choice of branches -/

/-- `Lin i d ts`: `ts` is what `d` prints to at indentation `i` for *some* choice of one branch
per `Union` (no leaf invented, dropped, duplicated or reordered; every line break carries the
indentation accumulated from the enclosing `Nest`s). -/
inductive Lin : Nat → Doc → List Tok → Prop
  | nil (i) : Lin i .nil []
  | concat {i a b ta tb} : Lin i a ta → Lin i b tb → Lin i (.concat a b) (ta ++ tb)
  | nest {i n d t} : Lin (i + n) d t → Lin i (.nest n d) t
  | text (i s) : Lin i (.text s) [.text s]
  | nstext (i s) : Lin i (.nstext s) [.nstext s]
  | line (i) : Lin i .line [.line i false]
  | lineNil (i) : Lin i .lineNil [.line i false]
  | lineHard (i) : Lin i .lineHard [.line i true]
  | unionL {i a b t} : Lin i a t → Lin i (.union a b) t
  | unionR {i a b t} : Lin i b t → Lin i (.union a b) t

inductive LinL : List (Nat × Doc) → List Tok → Prop
  | nil : LinL [] []
  | cons {i d rest t ts} : Lin i d t → LinL rest ts → LinL ((i, d) :: rest) (t ++ ts)

theorem genBest_lin (w : Nat) (col : List Tok) (c : Nat) (e : Bool) (l : List (Nat × Doc))
    (hr : (genBest w col c e l).1 = true) :
    ∃ ts, (genBest w col c e l).2 = col ++ ts ∧ LinL l ts := by
  fun_induction genBest w col c e l
  case case1 => simp at hr
  case case2 => exact ⟨[], by simp, .nil⟩
  case case3 => simp at hr
  case case4 ih =>
    obtain ⟨ts, h1, h2⟩ := ih hr
    exact ⟨ts, h1, by simpa using LinL.cons (Lin.nil _) h2⟩
  case case5 ih =>
    obtain ⟨ts, h1, h2⟩ := ih hr
    cases h2 with
    | cons ha h2 =>
      cases h2 with
      | cons hb h3 =>
        refine ⟨_, h1, ?_⟩
        rw [← List.append_assoc]
        exact .cons (.concat ha hb) h3
  case case6 ih =>
    obtain ⟨ts, h1, h2⟩ := ih hr
    cases h2 with
    | cons ha h3 => exact ⟨_, h1, .cons (.nest ha) h3⟩
  case case7 ih =>
    obtain ⟨ts, h1, h2⟩ := ih hr
    exact ⟨[_] ++ ts, by rw [h1, List.append_assoc], .cons (.text _ _) h2⟩
  case case8 ih =>
    obtain ⟨ts, h1, h2⟩ := ih hr
    exact ⟨[_] ++ ts, by rw [h1, List.append_assoc], .cons (.nstext _ _) h2⟩
  case case9 ih =>
    obtain ⟨ts, h1, h2⟩ := ih hr
    exact ⟨[_] ++ ts, by rw [h1, List.append_assoc], .cons (.line _) h2⟩
  case case10 ih =>
    obtain ⟨ts, h1, h2⟩ := ih hr
    exact ⟨[_] ++ ts, by rw [h1, List.append_assoc], .cons (.lineNil _) h2⟩
  case case11 ih =>
    obtain ⟨ts, h1, h2⟩ := ih hr
    exact ⟨[_] ++ ts, by rw [h1, List.append_assoc], .cons (.lineHard _) h2⟩
  case case12 r hr1 ih =>
    obtain ⟨ts, h1, h2⟩ := ih hr1
    cases h2 with
    | cons ha h3 => exact ⟨_, h1, .cons (.unionL ha) h3⟩
  case case13 r hr1 ih1 ih2 =>
    obtain ⟨t, ht⟩ := genBest_prefix _ _ _ true _
    rw [show r.snd = _ from ht, List.take_left] at ih2 hr ⊢
    obtain ⟨ts, h1, h2⟩ := ih2 hr
    cases h2 with
    | cons hb h3 => exact ⟨_, h1, .cons (.unionR hb) h3⟩
