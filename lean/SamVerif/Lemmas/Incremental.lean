import SamVerif.Model.Incremental
/-! Helper lemmas for C10 (`Props/C10.lean`): association lists, the `transitive_set` loop,
the dependency graph, `recheck`. -/
set_option linter.unusedSectionVars false
set_option linter.unusedSimpArgs false
namespace SamVerif.Incremental

section AList
variable {Mod : Type} [DecidableEq Mod] {α β : Type}

theorem lookup_erase (l : List (Mod × α)) (k x : Mod) :
    lookup (erase l k) x = if k = x then none else lookup l x := by
  induction l with
  | nil => simp [erase, lookup]
  | cons p t ih =>
    obtain ⟨k', v⟩ := p
    simp only [erase, List.filter_cons] at ih ⊢
    by_cases h : k' = k
    · subst h
      simp only [ne_eq, not_true_eq_false, decide_false, Bool.false_eq_true, ↓reduceIte, ih, lookup]
      split <;> simp_all
    · simp only [ne_eq, h, not_false_eq_true, decide_true, ↓reduceIte, lookup, ih]
      split <;> split <;> simp_all

theorem lookup_insert (l : List (Mod × α)) (k : Mod) (v : α) (x : Mod) :
    lookup (insert l k v) x = if k = x then some v else lookup l x := by
  simp only [insert, lookup, lookup_erase]
  split <;> simp_all

theorem mem_keys_of_lookup {l : List (Mod × α)} {k : Mod} {v : α} (h : lookup l k = some v) :
    k ∈ keys l := by
  induction l with
  | nil => simp [lookup] at h
  | cons p t ih =>
    obtain ⟨k', v'⟩ := p
    simp only [lookup] at h
    simp only [keys, List.map_cons, List.mem_cons]
    split at h
    · left; simp_all
    · right; exact ih h

theorem lookup_some_of_mem_keys {l : List (Mod × α)} {k : Mod} (h : k ∈ keys l) :
    ∃ v, lookup l k = some v := by
  induction l with
  | nil => simp [keys] at h
  | cons p t ih =>
    obtain ⟨k', v'⟩ := p
    simp only [keys, List.map_cons, List.mem_cons] at h
    simp only [lookup]
    by_cases hk : k' = k
    · exact ⟨v', by simp [hk]⟩
    · rcases h with h | h
      · exact absurd h.symm hk
      · obtain ⟨v, hv⟩ := ih h
        exact ⟨v, by simp [hk, hv]⟩

theorem lookup_map_val (l : List (Mod × α)) (f : Mod → α → β) (x : Mod) :
    lookup (l.map (fun p => (p.1, f p.1 p.2))) x = (lookup l x).map (f x) := by
  induction l with
  | nil => simp [lookup]
  | cons p t ih =>
    obtain ⟨k', v'⟩ := p
    simp only [List.map_cons, lookup, ih]
    split
    · simp_all
    · rfl

theorem lookup_none_of_not_mem_keys {l : List (Mod × α)} {k : Mod} (h : k ∉ keys l) :
    lookup l k = none := by
  cases hl : lookup l k with
  | none => rfl
  | some v => exact absurd (mem_keys_of_lookup hl) h

theorem keys_erase (l : List (Mod × α)) (k x : Mod) :
    x ∈ keys (erase l k) ↔ x ∈ keys l ∧ x ≠ k := by
  simp only [keys, erase, List.mem_map, List.mem_filter, decide_eq_true_eq]
  constructor
  · rintro ⟨p, ⟨hp, hne⟩, rfl⟩; exact ⟨⟨p, hp, rfl⟩, hne⟩
  · rintro ⟨⟨p, hp, rfl⟩, hne⟩; exact ⟨p, ⟨hp, hne⟩, rfl⟩

/-- Each key once (what a Rust `HashMap` guarantees). -/
def NodupKeys (l : List (Mod × α)) : Prop := (keys l).Nodup

theorem nodupKeys_erase (l : List (Mod × α)) (k : Mod) (h : NodupKeys l) :
    NodupKeys (erase l k) := by
  unfold NodupKeys keys erase at *
  exact (List.Nodup.sublist (List.Sublist.map _ List.filter_sublist) h)

theorem nodupKeys_insert (l : List (Mod × α)) (k : Mod) (v : α) (h : NodupKeys l) :
    NodupKeys (insert l k v) := by
  have h2 := nodupKeys_erase l k h
  unfold NodupKeys at *
  simp only [insert, keys, List.map_cons, List.nodup_cons]
  refine ⟨?_, h2⟩
  intro hk
  have := (keys_erase l k k).mp hk
  exact this.2 rfl

theorem nodupKeys_foldl_insert (L : List (Mod × α)) (S : List (Mod × α)) (h : NodupKeys S) :
    NodupKeys (L.foldl (fun acc p => insert acc p.1 p.2) S) := by
  induction L generalizing S with
  | nil => exact h
  | cons p t ih => exact ih _ (nodupKeys_insert S p.1 p.2 h)

theorem mem_iff_lookup_of_nodup {l : List (Mod × α)} (h : NodupKeys l) (k : Mod) (v : α) :
    (k, v) ∈ l ↔ lookup l k = some v := by
  induction l with
  | nil => simp [lookup]
  | cons p t ih =>
    obtain ⟨k', v'⟩ := p
    unfold NodupKeys at h ih
    simp only [keys, List.map_cons, List.nodup_cons] at h
    simp only [List.mem_cons, Prod.mk.injEq, lookup]
    by_cases hk : k' = k
    · subst hk
      simp only [↓reduceIte, Option.some.injEq]
      constructor
      · rintro (⟨_, rfl⟩ | hm)
        · rfl
        · exact absurd (List.mem_map.mpr ⟨(k', v), hm, rfl⟩) h.1
      · intro hv; exact .inl ⟨trivial, hv.symm⟩
    · simp only [hk, ↓reduceIte]
      constructor
      · rintro (⟨rfl, _⟩ | hm)
        · exact absurd rfl hk
        · exact (ih h.2).mp hm
      · intro hl; exact .inr ((ih h.2).mpr hl)

end AList

/-! ## `transitive_set` -/

section Dfs
variable {Mod : Type} [DecidableEq Mod]

/-- `b` is reachable from `a` along edges of `g` (reflexive-transitive). -/
inductive Reach (g : Mod → List Mod) : Mod → Mod → Prop
  | refl (a : Mod) : Reach g a a
  | step {a b c : Mod} : b ∈ g a → Reach g b c → Reach g a c

theorem Reach.trans {g : Mod → List Mod} {a b c : Mod} (h1 : Reach g a b) (h2 : Reach g b c) :
    Reach g a c := by
  induction h1 with
  | refl => exact h2
  | step e _ ih => exact .step e (ih h2)

theorem Reach.tail {g : Mod → List Mod} {a b c : Mod} (h1 : Reach g a b) (e : c ∈ g b) :
    Reach g a c := h1.trans (.step e (.refl c))

/-- Soundness of the loop for every fuel: only reachable nodes are added. -/
theorem dfs_sound (g : Mod → List Mod) (n : Nat) (st r : List Mod) (x : Mod)
    (hx : x ∈ dfs g n st r) : x ∈ r ∨ ∃ s ∈ st, Reach g s x := by
  induction n generalizing st r with
  | zero => left; simpa [dfs] using hx
  | succ n ih =>
    cases st with
    | nil => left; simpa [dfs] using hx
    | cons m st =>
      simp only [dfs] at hx
      split at hx
      · rcases ih st r hx with h | ⟨s, hs, hr⟩
        · exact .inl h
        · exact .inr ⟨s, List.mem_cons_of_mem _ hs, hr⟩
      · rcases ih (g m ++ st) (m :: r) hx with h | ⟨s, hs, hr⟩
        · rcases List.mem_cons.mp h with h | h
          · subst h; exact .inr ⟨x, List.mem_cons_self, .refl x⟩
          · exact .inl h
        · rcases List.mem_append.mp hs with hs | hs
          · exact .inr ⟨m, List.mem_cons_self, .step hs hr⟩
          · exact .inr ⟨s, List.mem_cons_of_mem _ hs, hr⟩

theorem wsum_mono (g : Mod → List Mod) (U r : List Mod) (m : Mod) :
    wsum g U (m :: r) ≤ wsum g U r := by
  induction U with
  | nil => simp [wsum]
  | cons u U ih =>
    simp only [wsum, List.mem_cons]
    split <;> split <;> simp_all <;> omega

theorem wsum_visit (g : Mod → List Mod) (U r : List Mod) (m : Mod) (hm : m ∈ U) (hr : m ∉ r) :
    wsum g U (m :: r) + 1 + (g m).length ≤ wsum g U r := by
  induction U with
  | nil => simp at hm
  | cons u U ih =>
    simp only [wsum, List.mem_cons]
    by_cases hum : u = m
    · subst hum
      have := wsum_mono g U r u
      simp [hr]; omega
    · have hm' : m ∈ U := by
        rcases List.mem_cons.mp hm with h | h
        · exact absurd h.symm hum
        · exact h
      have := ih hm'
      split <;> split <;> simp_all <;> omega

/-- With enough fuel the loop ends with an empty stack: the result contains the stack and the
old result and is closed under edges. -/
theorem dfs_closed (g : Mod → List Mod) (U : List Mod) (hU : ∀ x y, y ∈ g x → y ∈ U)
    (n : Nat) (st r : List Mod) (hst : ∀ x ∈ st, x ∈ U)
    (hinv : ∀ x ∈ r, ∀ y ∈ g x, y ∈ r ∨ y ∈ st)
    (hfuel : st.length + wsum g U r < n) :
    (∀ x ∈ r, x ∈ dfs g n st r) ∧ (∀ x ∈ st, x ∈ dfs g n st r) ∧
      (∀ x ∈ dfs g n st r, ∀ y ∈ g x, y ∈ dfs g n st r) := by
  induction n generalizing st r with
  | zero => omega
  | succ n ih =>
    cases st with
    | nil =>
      simp only [dfs]
      refine ⟨fun x h => h, by simp, fun x hx y hy => ?_⟩
      rcases hinv x hx y hy with h | h
      · exact h
      · simp at h
    | cons m st =>
      simp only [dfs]
      split
      · rename_i hm
        have h := ih st r (fun x hx => hst x (List.mem_cons_of_mem _ hx))
          (fun x hx y hy => by
            rcases hinv x hx y hy with h | h
            · exact .inl h
            · rcases List.mem_cons.mp h with h | h
              · subst h; exact .inl hm
              · exact .inr h)
          (by simp only [List.length_cons] at hfuel; omega)
        refine ⟨h.1, fun x hx => ?_, h.2.2⟩
        rcases List.mem_cons.mp hx with hx | hx
        · subst hx; exact h.1 _ hm
        · exact h.2.1 x hx
      · rename_i hm
        have hmU : m ∈ U := hst m List.mem_cons_self
        have hw := wsum_visit g U r m hmU hm
        have h := ih (g m ++ st) (m :: r)
          (fun x hx => by
            rcases List.mem_append.mp hx with hx | hx
            · exact hU m x hx
            · exact hst x (List.mem_cons_of_mem _ hx))
          (fun x hx y hy => by
            rcases List.mem_cons.mp hx with hx | hx
            · subst hx; exact .inr (List.mem_append_left _ hy)
            · rcases hinv x hx y hy with h | h
              · exact .inl (List.mem_cons_of_mem _ h)
              · rcases List.mem_cons.mp h with h | h
                · subst h; exact .inl List.mem_cons_self
                · exact .inr (List.mem_append_right _ h))
          (by simp only [List.length_cons, List.length_append] at hfuel ⊢; omega)
        refine ⟨fun x hx => h.1 x (List.mem_cons_of_mem _ hx), fun x hx => ?_, h.2.2⟩
        rcases List.mem_cons.mp hx with hx | hx
        · subst hx; exact h.1 _ List.mem_cons_self
        · exact h.2.1 x (List.mem_append_right _ hx)

/-- `transitive_set` computes exactly reachability from the initial set. -/
theorem mem_transitiveSet (g : Mod → List Mod) (U : List Mod) (hU : ∀ x y, y ∈ g x → y ∈ U)
    (init : List Mod) (x : Mod) :
    x ∈ transitiveSet g U init ↔ ∃ i ∈ init, Reach g i x := by
  constructor
  · intro h
    rcases dfs_sound g _ init [] x h with h | h
    · simp at h
    · exact h
  · rintro ⟨i, hi, hr⟩
    have h := dfs_closed g (U ++ init) (fun a b hb => List.mem_append_left _ (hU a b hb))
      (init.length + wsum g (U ++ init) [] + 1) init []
      (fun a ha => List.mem_append_right _ ha) (by simp) (by omega)
    have hi' : i ∈ transitiveSet g U init := h.2.1 i hi
    clear hi
    induction hr with
    | refl => exact hi'
    | step e _ ih => exact ih (h.2.2 _ hi' _ e)

end Dfs

/-! ## The dependency graph -/

section Graph
variable {Mod Content Sig Err : Type} [DecidableEq Mod]
variable (ck : Checker Mod Content Sig Err)

theorem fwd_mem_nodes (S : Sources Mod Content) (x y : Mod) (h : y ∈ fwdEdges ck S x) :
    y ∈ nodes ck S := by
  unfold fwdEdges at h
  split at h
  · rename_i c hc
    refine List.mem_append_right _ (List.mem_flatMap.mpr ⟨x, mem_keys_of_lookup hc, ?_⟩)
    simp [fwdEdges, hc, h]
  · simp at h

theorem mem_revEdges (S : Sources Mod Content) (x m : Mod) :
    m ∈ revEdges ck S x ↔ x ∈ fwdEdges ck S m := by
  simp only [revEdges, List.mem_filter, decide_eq_true_eq]
  constructor
  · exact fun h => h.2
  · intro h
    refine ⟨?_, h⟩
    unfold fwdEdges at h
    split at h
    · rename_i c hc; exact mem_keys_of_lookup hc
    · simp at h

theorem rev_mem_nodes (S : Sources Mod Content) (x y : Mod) (h : y ∈ revEdges ck S x) :
    y ∈ nodes ck S := by
  simp only [revEdges, List.mem_filter] at h
  exact List.mem_append_left _ h.1

/-- Reverse reachability is forward reachability read backwards. -/
theorem reach_rev (S : Sources Mod Content) (d m : Mod) :
    Reach (revEdges ck S) d m ↔ Reach (fwdEdges ck S) m d := by
  constructor
  · intro h
    induction h with
    | refl => exact .refl _
    | step e _ ih => exact ih.tail ((mem_revEdges ck S _ _).mp e)
  · intro h
    induction h with
    | refl => exact .refl _
    | step e _ ih => exact ih.tail ((mem_revEdges ck S _ _).mpr e)

/-- `affected_set(dirty)`: every module reachable (forwards) from a module that reaches
(forwards) a dirty one. -/
theorem mem_affectedSet (S : Sources Mod Content) (dirty : List Mod) (k : Mod) :
    k ∈ affectedSet ck S dirty ↔
      ∃ a, (∃ d ∈ dirty, Reach (fwdEdges ck S) a d) ∧ Reach (fwdEdges ck S) a k := by
  unfold affectedSet
  rw [mem_transitiveSet _ _ (fun x y h => fwd_mem_nodes ck S x y h)]
  constructor
  · rintro ⟨a, ha, hr⟩
    rw [mem_transitiveSet _ _ (fun x y h => rev_mem_nodes ck S x y h)] at ha
    obtain ⟨d, hd, hda⟩ := ha
    exact ⟨a, ⟨d, hd, (reach_rev ck S d a).mp hda⟩, hr⟩
  · rintro ⟨a, ⟨d, hd, hda⟩, hr⟩
    refine ⟨a, ?_, hr⟩
    rw [mem_transitiveSet _ _ (fun x y h => rev_mem_nodes ck S x y h)]
    exact ⟨d, hd, (reach_rev ck S d a).mpr hda⟩

end Graph

/-! ## `recheck`, `fresh` -/

section Recheck
variable {Mod Content Sig Err : Type} [DecidableEq Mod]
variable (ck : Checker Mod Content Sig Err)

theorem mem_groupFor (es : List (Mod × Err)) (k : Mod) (e : Err) :
    e ∈ groupFor es k ↔ (k, e) ∈ es := by
  simp only [groupFor, List.mem_map, List.mem_filter, decide_eq_true_eq]
  constructor
  · rintro ⟨⟨k', e'⟩, ⟨h1, h2⟩, h3⟩
    simp only at h2 h3; subst h2; subst h3; exact h1
  · intro h; exact ⟨(k, e), ⟨h, rfl⟩, rfl⟩

theorem lookup_overwrite (errs : List (Mod × List Err)) (produced : List (Mod × Err))
    (touched : List Mod) (k : Mod) :
    lookup (overwrite errs produced touched) k =
      if k ∈ touched then some (groupFor produced k) else lookup errs k := by
  unfold overwrite
  induction touched generalizing errs with
  | nil => simp
  | cons t ts ih =>
    simp only [List.foldl_cons, ih, lookup_insert, List.mem_cons]
    by_cases h1 : k ∈ ts
    · simp [h1]
    · by_cases h2 : t = k
      · subst h2; simp [h1]
      · have h3 : ¬ k = t := fun h => h2 h.symm
        simp [h1, h2, h3]

theorem mem_checkAll (S : Sources Mod Content) (G : List (Mod × Sig)) (R : List Mod)
    (k : Mod) (e : Err) :
    (k, e) ∈ checkAll ck S G R ↔
      ∃ m ∈ R, ∃ c, lookup S m = some c ∧ (k, e) ∈ ck.check m c (lookup G) := by
  simp only [checkAll, List.mem_flatMap]
  constructor
  · rintro ⟨m, hm, h⟩
    split at h
    · rename_i c hc; exact ⟨m, hm, c, hc, h⟩
    · simp at h
  · rintro ⟨m, hm, c, hc, h⟩
    exact ⟨m, hm, by simp [hc, h]⟩

theorem mem_retained (s : State Mod Content Sig Err) (R : List Mod) (k : Mod) (e : Err) :
    (k, e) ∈ retained ck s R ↔ k ∈ R ∧ e ∈ getErrors s k ∧ ck.isSyntax e = true := by
  simp only [retained, List.mem_flatMap, tagged, List.mem_map, List.mem_filter, Prod.mk.injEq]
  constructor
  · rintro ⟨m, hm, a, ⟨ha, hs⟩, rfl, rfl⟩; exact ⟨hm, ha, hs⟩
  · rintro ⟨h1, h2, h3⟩; exact ⟨k, h1, e, ⟨h2, h3⟩, rfl, rfl⟩

/-- What `get_errors` returns after `recheck`. -/
theorem mem_getErrors_recheck (s : State Mod Content Sig Err) (pending : List (Mod × Err))
    (R : List Mod) (k : Mod) (e : Err) :
    e ∈ getErrors (recheck ck s pending R) k ↔
      (k, e) ∈ pending ++ (retained ck s R ++ checkAll ck s.sources s.globalCx R) ∨
        (k ∉ R ∧
          (∀ e', (k, e') ∉ pending ++ (retained ck s R ++ checkAll ck s.sources s.globalCx R)) ∧
          e ∈ getErrors s k) := by
  simp only [getErrors, recheck, lookup_overwrite]
  split
  · rename_i ht
    simp only [Option.getD_some, mem_groupFor]
    constructor
    · exact fun h => .inl h
    · rintro (h | ⟨h1, h2, _⟩)
      · exact h
      · rcases List.mem_append.mp ht with ht | ht
        · obtain ⟨⟨k', e'⟩, hp, hk⟩ := List.mem_map.mp ht
          simp only at hk; subst hk
          exact absurd hp (h2 e')
        · exact absurd ht h1
  · rename_i ht
    have h1 : k ∉ R := fun h => ht (List.mem_append_right _ h)
    have h2 : ∀ e', (k, e') ∉
        pending ++ (retained ck s R ++ checkAll ck s.sources s.globalCx R) := fun e' h =>
      ht (List.mem_append_left _ (List.mem_map.mpr ⟨(k, e'), h, rfl⟩))
    constructor
    · exact fun h => .inr ⟨h1, h2, h⟩
    · rintro (h | ⟨_, _, h⟩)
      · exact absurd h (h2 e)
      · exact h

theorem lookup_freshCx (S : Sources Mod Content) (x : Mod) :
    lookup (freshCx ck S) x =
      if ck.root = x then some ck.builtin else (lookup S x).map (ck.sig x) := by
  simp only [freshCx, lookup_insert, lookup_map_val]

theorem mem_tagged (m k : Mod) (es : List Err) (e : Err) :
    (k, e) ∈ tagged m es ↔ k = m ∧ e ∈ es := by
  simp only [tagged, List.mem_map, Prod.mk.injEq]
  constructor
  · rintro ⟨a, ha, rfl, rfl⟩; exact ⟨rfl, ha⟩
  · rintro ⟨rfl, h⟩; exact ⟨e, h, rfl, rfl⟩

/-- The diagnostics a from-scratch server holds for module `k`. -/
theorem mem_getErrors_fresh (S : Sources Mod Content) (k : Mod) (e : Err) :
    e ∈ getErrors (fresh ck S) k ↔
      (∃ c, lookup S k = some c ∧ e ∈ ck.parseErrs c) ∨
        ∃ m c, lookup S m = some c ∧ (k, e) ∈ ck.check m c (lookup (freshCx ck S)) := by
  have hprod : (k, e) ∈ freshProduced ck S ↔
      (∃ c, lookup S k = some c ∧ e ∈ ck.parseErrs c) ∨
        ∃ m c, lookup S m = some c ∧ (k, e) ∈ ck.check m c (lookup (freshCx ck S)) := by
    simp only [freshProduced, List.mem_append, mem_checkAll, List.mem_flatMap]
    constructor
    · rintro (⟨m, hm, h⟩ | ⟨m, _, c, hc, h⟩)
      · split at h
        · rename_i c hc
          obtain ⟨rfl, he⟩ := (mem_tagged _ _ _ _).mp h
          exact .inl ⟨c, hc, he⟩
        · simp at h
      · exact .inr ⟨m, c, hc, h⟩
    · rintro (⟨c, hc, he⟩ | ⟨m, c, hc, h⟩)
      · exact .inl ⟨k, mem_keys_of_lookup hc, by simp [hc, mem_tagged, he]⟩
      · exact .inr ⟨m, mem_keys_of_lookup hc, c, hc, h⟩
  rw [← hprod]
  simp only [getErrors, fresh, lookup_overwrite]
  split
  · simp [mem_groupFor]
  · rename_i ht
    simp only [lookup, Option.getD_none, List.not_mem_nil, false_iff]
    exact fun h => ht (List.mem_map.mpr ⟨(k, e), h, rfl⟩)

end Recheck


/-! ## Hypotheses on the checker parameter, invariants -/

section Inv
variable {Mod Content Sig Err : Type} [DecidableEq Mod]
variable (ck : Checker Mod Content Sig Err)

/-- **Frame hypothesis**: the diagnostics of `m` against a from-scratch global signature depend
only on the sources in the forward import closure of `m` (ROOT's builtin signature is the same in
every from-scratch signature). -/
def Frame : Prop :=
  ∀ (S S' : Sources Mod Content) (m : Mod) (c : Content), lookup S m = some c →
    (∀ x, Reach (fwdEdges ck S) m x → lookup S' x = lookup S x) →
    ck.check m c (lookup (freshCx ck S')) = ck.check m c (lookup (freshCx ck S))

/-- **Weak locality hypothesis** (what the real checker satisfies): an error that checking `m`
against a from-scratch signature reports *into another module* `k` lies in the forward import
closure of `m` and is also reported by `k`'s own check.  (E.g. `interface A : E` re-reports E's
supertype error at E's location.) -/
def LocalW : Prop :=
  ∀ (S : Sources Mod Content) (m : Mod) (c : Content) (k : Mod) (e : Err),
    lookup S m = some c → (k, e) ∈ ck.check m c (lookup (freshCx ck S)) →
    k = m ∨ (Reach (fwdEdges ck S) m k ∧
      ∃ c', lookup S k = some c' ∧ (k, e) ∈ ck.check k c' (lookup (freshCx ck S)))

/-- Parse errors are syntax errors, type-check errors are not (`ErrorDetail::InvalidSyntax` is
only ever reported by the parser). -/
def Kinds : Prop :=
  (∀ (c : Content) (e : Err), e ∈ ck.parseErrs c → ck.isSyntax e = true) ∧
    ∀ (S : Sources Mod Content) (m : Mod) (c : Content) (k : Mod) (e : Err),
      (k, e) ∈ ck.check m c (lookup (freshCx ck S)) → ck.isSyntax e = false

def GoodCx (S : Sources Mod Content) (G : List (Mod × Sig)) : Prop :=
  ∀ x, lookup G x = lookup (freshCx ck S) x

def ErrInv (s : State Mod Content Sig Err) : Prop :=
  ∀ k e, e ∈ getErrors s k ↔ e ∈ getErrors (fresh ck s.sources) k

def Inv (s : State Mod Content Sig Err) : Prop :=
  GoodCx ck s.sources s.globalCx ∧ ErrInv ck s

theorem foldl_inv {σ α : Type} (P : σ → Prop) (f : σ → α → σ) (l : List α)
    (h : ∀ s a, a ∈ l → P s → P (f s a)) (s : σ) (hs : P s) : P (l.foldl f s) := by
  induction l generalizing s with
  | nil => exact hs
  | cons a l ih =>
    simp only [List.foldl_cons]
    exact ih (fun s b hb => h s b (List.mem_cons_of_mem _ hb)) _ (h s a List.mem_cons_self hs)

/-- Diagnostics of a from-scratch server, per module: its own syntax errors and its own type
errors (errors other modules report into it are duplicates, by `LocalW`). -/
theorem fresh_char (hL : LocalW ck) (S : Sources Mod Content) (k : Mod) (e : Err) :
    e ∈ getErrors (fresh ck S) k ↔
      ∃ c, lookup S k = some c ∧
        (e ∈ ck.parseErrs c ∨ (k, e) ∈ ck.check k c (lookup (freshCx ck S))) := by
  rw [mem_getErrors_fresh]
  constructor
  · rintro (⟨c, h1, h2⟩ | ⟨m, c, h1, h2⟩)
    · exact ⟨c, h1, .inl h2⟩
    · rcases hL S m c k e h1 h2 with rfl | ⟨_, c', h3, h4⟩
      · exact ⟨c, h1, .inr h2⟩
      · exact ⟨c', h3, .inr h4⟩
  · rintro ⟨c, h1, h2 | h2⟩
    · exact .inl ⟨c, h1, h2⟩
    · exact .inr ⟨k, c, h1, h2⟩

theorem reach_closed (S : Sources Mod Content) (R : List Mod)
    (hcl : ∀ y c x, y ∈ R → lookup S y = some c → x ∈ ck.imports c → x ∈ R)
    (m k : Mod) (hm : m ∈ R) (hr : Reach (fwdEdges ck S) m k) : k ∈ R := by
  induction hr with
  | refl => exact hm
  | @step a b _ e _ ih =>
    apply ih
    unfold fwdEdges at e
    split at e
    · rename_i c hc; exact hcl a c b hm hc e
    · simp at e

/-- The common core of the three operations.  `s1` is the state the caller hands to `recheck`:
sources changed only inside `D`; `global_cx` equal to the from-scratch one; for every module
either nothing was touched (`errors` entry, source, no pending syntax errors) or its `errors`
entry was dropped and its pending syntax errors are those of its current text (`syn`); the
recheck set covers `D` and every module whose forward closure (old or new graph) meets `D`, and
is closed under the imports of the new sources. -/
theorem recheck_inv (hF : Frame ck) (hL : LocalW ck) (hK : Kinds ck)
    (s s1 : State Mod Content Sig Err) (syn : List (Mod × List Err))
    (pending : List (Mod × Err)) (D R : List Mod) (hinv : Inv ck s)
    (hcx : GoodCx ck s1.sources s1.globalCx)
    (hpend : ∀ k e, (k, e) ∈ pending ↔ ∃ es, lookup syn k = some es ∧ e ∈ es)
    (hQ : ∀ k, (lookup s1.errors k = lookup s.errors k ∧ lookup s1.sources k = lookup s.sources k ∧
        lookup syn k = none) ∨
      (lookup s1.errors k = none ∧ lookup syn k = (lookup s1.sources k).map ck.parseErrs))
    (hQA : ∀ k, k ∉ D → lookup s1.errors k = lookup s.errors k ∧ lookup syn k = none)
    (hD : ∀ x, x ∉ D → lookup s1.sources x = lookup s.sources x)
    (hDR : ∀ x ∈ D, x ∈ R)
    (hcov : ∀ k, k ∉ R → (∀ x, Reach (fwdEdges ck s.sources) k x → x ∉ D) ∨
      (∀ x, Reach (fwdEdges ck s1.sources) k x → x ∉ D))
    (hcl : ∀ y c x, y ∈ R → lookup s1.sources y = some c → x ∈ ck.imports c → x ∈ R) :
    Inv ck (recheck ck s1 pending R) := by
  have hG : lookup s1.globalCx = lookup (freshCx ck s1.sources) := funext hcx
  refine ⟨hcx, ?_⟩
  intro k e
  rw [mem_getErrors_recheck]
  show _ ↔ e ∈ getErrors (fresh ck s1.sources) k
  rw [fresh_char ck hL s1.sources]
  simp only [List.mem_append, mem_checkAll, mem_retained, hpend, hG]
  -- the old entry of `k`, read through the invariant of `s`
  have hold : ∀ e, e ∈ getErrors s k ↔ ∃ c, lookup s.sources k = some c ∧
      (e ∈ ck.parseErrs c ∨ (k, e) ∈ ck.check k c (lookup (freshCx ck s.sources))) := fun e => by
    rw [hinv.2 k e, fresh_char ck hL s.sources]
  -- what other rechecked modules report into `k` is what `k` reports itself
  have hforeign : ∀ e', (∃ m ∈ R, ∃ c, lookup s1.sources m = some c ∧
      (k, e') ∈ ck.check m c (lookup (freshCx ck s1.sources))) →
      k ∈ R ∧ ∃ c, lookup s1.sources k = some c ∧
        (k, e') ∈ ck.check k c (lookup (freshCx ck s1.sources)) := by
    rintro e' ⟨m, hm, c, h1, h2⟩
    rcases hL s1.sources m c k e' h1 h2 with rfl | ⟨hr, c', h3, h4⟩
    · exact ⟨hm, c, h1, h2⟩
    · exact ⟨reach_closed ck s1.sources R hcl m k hm hr, c', h3, h4⟩
  by_cases hk : k ∈ R
  · constructor
    · rintro ((⟨es, h1, h2⟩ | ⟨_, h2, h3⟩ | h) | ⟨h, _⟩)
      · -- pending syntax error
        rcases hQ k with ⟨_, _, hn⟩ | ⟨_, hs⟩
        · rw [hn] at h1; cases h1
        · rw [hs] at h1
          cases hc : lookup s1.sources k with
          | none => rw [hc] at h1; cases h1
          | some c =>
            rw [hc] at h1; cases h1
            exact ⟨c, rfl, .inl h2⟩
      · -- retained syntax error
        rcases hQ k with ⟨he, hsrc, _⟩ | ⟨he, _⟩
        · have h2' : e ∈ getErrors s k := by simpa only [getErrors, he] using h2
          obtain ⟨c, hc, hor⟩ := (hold e).mp h2'
          rcases hor with hp | ht
          · exact ⟨c, by rw [hsrc]; exact hc, .inl hp⟩
          · have := hK.2 s.sources k c k e ht
            rw [this] at h3; cases h3
        · simp [getErrors, he] at h2
      · obtain ⟨_, c, h1, h2⟩ := hforeign e h
        exact ⟨c, h1, .inr h2⟩
      · exact absurd hk h
    · rintro ⟨c, h1, h2 | h2⟩
      · rcases hQ k with ⟨he, hsrc, _⟩ | ⟨_, hs⟩
        · -- untouched: retained from the old entry
          refine .inl (.inr (.inl ⟨hk, ?_, hK.1 c e h2⟩))
          have : e ∈ getErrors s k := (hold e).mpr ⟨c, by rw [← hsrc]; exact h1, .inl h2⟩
          simpa only [getErrors, he] using this
        · exact .inl (.inl ⟨ck.parseErrs c, by rw [hs, h1]; rfl, h2⟩)
      · exact .inl (.inr (.inr ⟨k, hk, c, h1, h2⟩))
  · have hkD : k ∉ D := fun h => hk (hDR k h)
    obtain ⟨he, hn⟩ := hQA k hkD
    have hge : getErrors s1 k = getErrors s k := by simp only [getErrors, he]
    have hno : ∀ e', ¬ ((∃ es, lookup syn k = some es ∧ e' ∈ es) ∨
        (k ∈ R ∧ e' ∈ getErrors s k ∧ ck.isSyntax e' = true) ∨
        ∃ m ∈ R, ∃ c, lookup s1.sources m = some c ∧
          (k, e') ∈ ck.check m c (lookup (freshCx ck s1.sources))) := by
      rintro e' (⟨es, h1, _⟩ | ⟨h, _⟩ | h)
      · rw [hn] at h1; cases h1
      · exact hk h
      · exact hk (hforeign e' h).1
    have hsame : (∃ c, lookup s.sources k = some c ∧
          (e ∈ ck.parseErrs c ∨ (k, e) ∈ ck.check k c (lookup (freshCx ck s.sources)))) ↔
        ∃ c, lookup s1.sources k = some c ∧
          (e ∈ ck.parseErrs c ∨ (k, e) ∈ ck.check k c (lookup (freshCx ck s1.sources))) := by
      rw [hD k hkD]
      have heq : ∀ c, lookup s.sources k = some c →
          ck.check k c (lookup (freshCx ck s1.sources)) =
            ck.check k c (lookup (freshCx ck s.sources)) := by
        intro c hc
        rcases hcov k hk with h | h
        · exact hF s.sources s1.sources k c hc (fun x hx => hD x (h x hx))
        · exact (hF s1.sources s.sources k c (by rw [hD k hkD]; exact hc)
            (fun x hx => (hD x (h x hx)).symm)).symm
      constructor
      · rintro ⟨c, h1, h2⟩; exact ⟨c, h1, by rw [heq c h1]; exact h2⟩
      · rintro ⟨c, h1, h2⟩; exact ⟨c, h1, by rw [← heq c h1]; exact h2⟩
    rw [hge]
    constructor
    · rintro (h | ⟨_, _, h⟩)
      · exact absurd h (hno e)
      · exact hsame.mp ((hold e).mp h)
    · intro h
      exact .inr ⟨hk, hno, (hold e).mpr (hsame.mpr h)⟩

end Inv

/-! ## The three operations preserve the invariant -/

section Ops
variable {Mod Content Sig Err : Type} [DecidableEq Mod]
variable (ck : Checker Mod Content Sig Err)

@[simp] theorem rebuildGraph_sources (s : State Mod Content Sig Err) :
    (rebuildGraph s).sources = s.sources := rfl
@[simp] theorem rebuildGraph_globalCx (s : State Mod Content Sig Err) :
    (rebuildGraph s).globalCx = s.globalCx := rfl
@[simp] theorem rebuildGraph_errors (s : State Mod Content Sig Err) :
    (rebuildGraph s).errors = s.errors := rfl
@[simp] theorem rebuildGraph_checked (s : State Mod Content Sig Err) :
    (rebuildGraph s).checked = s.checked := rfl
@[simp] theorem rebuildGraph_graph (s : State Mod Content Sig Err) :
    (rebuildGraph s).graph = s.sources := rfl

theorem self_mem_affectedSet (S : Sources Mod Content) (D : List Mod) (x : Mod) (hx : x ∈ D) :
    x ∈ affectedSet ck S D :=
  (mem_affectedSet ck S D x).mpr ⟨x, ⟨x, hx, .refl x⟩, .refl x⟩

theorem cov_affectedSet (S : Sources Mod Content) (D : List Mod) (k : Mod)
    (hk : k ∉ affectedSet ck S D) : ∀ x, Reach (fwdEdges ck S) k x → x ∉ D :=
  fun x hx hxD => hk ((mem_affectedSet ck S D k).mpr ⟨k, ⟨x, hxD, hx⟩, .refl k⟩)

theorem affected_closed (S : Sources Mod Content) (D : List Mod) (y x : Mod)
    (hy : y ∈ affectedSet ck S D) (hx : x ∈ fwdEdges ck S y) : x ∈ affectedSet ck S D := by
  obtain ⟨a, ha, hay⟩ := (mem_affectedSet ck S D y).mp hy
  exact (mem_affectedSet ck S D x).mpr ⟨a, ha, hay.tail hx⟩

theorem mem_fwdEdges_of_lookup (S : Sources Mod Content) (y : Mod) (c : Content) (x : Mod)
    (hc : lookup S y = some c) (hx : x ∈ ck.imports c) : x ∈ fwdEdges ck S y := by
  simp [fwdEdges, hc, hx]

/-! ### folds over a batch -/

theorem lookup_foldl_insert {α : Type} (U : List (Mod × α)) (hU : NodupKeys U)
    (S : List (Mod × α)) (x : Mod) :
    lookup (U.foldl (fun S p => insert S p.1 p.2) S) x =
      match lookup U x with
      | some c => some c
      | none => lookup S x := by
  induction U generalizing S with
  | nil => simp [lookup]
  | cons p t ih =>
    obtain ⟨k, v⟩ := p
    have hU' := hU
    unfold NodupKeys at hU'
    simp only [keys, List.map_cons, List.nodup_cons] at hU'
    simp only [List.foldl_cons, ih hU'.2, lookup_insert, lookup]
    by_cases hk : k = x
    · subst hk
      rw [lookup_none_of_not_mem_keys hU'.1]; simp
    · simp [hk]

theorem lookup_foldl_erase {α β : Type} (U : List β) (f : β → Mod) (E : List (Mod × α)) (x : Mod) :
    lookup (U.foldl (fun E p => erase E (f p)) E) x =
      if x ∈ U.map f then none else lookup E x := by
  induction U generalizing E with
  | nil => simp
  | cons p t ih =>
    simp only [List.foldl_cons, ih, lookup_erase, List.map_cons, List.mem_cons]
    by_cases h1 : x ∈ t.map f
    · simp [h1]
    · by_cases h2 : f p = x
      · simp [h2]
      · have : ¬ x = f p := fun h => h2 h.symm
        simp [h1, h2, this]

theorem writeBatch_nodup (root : Mod) (ups : List (Mod × Content)) :
    NodupKeys (writeBatch root ups) :=
  nodupKeys_foldl_insert _ [] (by simp [NodupKeys, keys])

theorem writeBatch_noroot (root : Mod) (ups : List (Mod × Content)) :
    root ∉ keys (writeBatch root ups) := by
  unfold writeBatch
  refine foldl_inv (fun acc : List (Mod × Content) => root ∉ keys acc)
    (fun (acc : List (Mod × Content)) (p : Mod × Content) => insert acc p.1 p.2) _ ?_ []
    (by simp [keys])
  intro acc p hp hacc
  have hp1 : p.1 ≠ root := by simpa using (List.mem_filter.mp hp).2
  simp only [insert, keys, List.map_cons, List.mem_cons, not_or]
  refine ⟨fun h => hp1 h.symm, fun h => ?_⟩
  exact hacc ((keys_erase acc p.1 root).mp h).1

theorem update_fold_sources (s : State Mod Content Sig Err) (U : List (Mod × Content)) :
    (U.foldl (updateOne ck) s).sources = U.foldl (fun S p => insert S p.1 p.2) s.sources := by
  induction U generalizing s with
  | nil => rfl
  | cons p t ih => simp only [List.foldl_cons, ih]; rfl

theorem update_fold_errors (s : State Mod Content Sig Err) (U : List (Mod × Content)) :
    (U.foldl (updateOne ck) s).errors = U.foldl (fun E p => erase E p.1) s.errors := by
  induction U generalizing s with
  | nil => rfl
  | cons p t ih => simp only [List.foldl_cons, ih]; rfl

theorem mem_flatMap_tagged {α : Type} (U : List (Mod × α)) (hU : NodupKeys U) (f : α → List Err)
    (k : Mod) (e : Err) :
    (k, e) ∈ U.flatMap (fun p => tagged p.1 (f p.2)) ↔
      ∃ es, lookup (U.map (fun p => (p.1, f p.2))) k = some es ∧ e ∈ es := by
  have hl : lookup (U.map (fun p => (p.1, f p.2))) k = (lookup U k).map f :=
    lookup_map_val U (fun _ a => f a) k
  rw [hl]
  simp only [List.mem_flatMap, mem_tagged]
  constructor
  · rintro ⟨⟨k', a⟩, hp, rfl, he⟩
    exact ⟨f a, by rw [(mem_iff_lookup_of_nodup hU k a).mp hp]; rfl, he⟩
  · rintro ⟨es, h1, h2⟩
    cases hc : lookup U k with
    | none => rw [hc] at h1; cases h1
    | some a =>
      rw [hc] at h1; cases h1
      exact ⟨(k, a), (mem_iff_lookup_of_nodup hU k a).mpr hc, rfl, h2⟩

theorem update_inv (hF : Frame ck) (hL : LocalW ck) (hK : Kinds ck)
    (s : State Mod Content Sig Err) (ups : List (Mod × Content)) (hinv : Inv ck s) :
    Inv ck (update ck s ups) := by
  unfold update
  generalize hUdef : writeBatch ck.root ups = U
  have hUn : NodupKeys U := hUdef ▸ writeBatch_nodup ck.root ups
  have hUr : ck.root ∉ keys U := hUdef ▸ writeBatch_noroot ck.root ups
  simp only
  have hcx : GoodCx ck (U.foldl (updateOne ck) s).sources (U.foldl (updateOne ck) s).globalCx :=
    foldl_inv (fun s' : State Mod Content Sig Err => GoodCx ck s'.sources s'.globalCx)
      (updateOne ck) U
      (by
        intro s' p hp h2 x
        have hpk : p.1 ∈ keys U := List.mem_map.mpr ⟨p, hp, rfl⟩
        have := h2 x
        simp only [updateOne, lookup_insert, lookup_freshCx] at this ⊢
        by_cases hr : ck.root = x
        · have : p.1 ≠ x := fun h => hUr (by rw [hr, ← h]; exact hpk)
          simp_all
        · by_cases hx : p.1 = x
          · subst hx; simp [hr]
          · simp_all)
      s hinv.1
  have hsrc : ∀ x, lookup (U.foldl (updateOne ck) s).sources x =
      match lookup U x with
      | some c => some c
      | none => lookup s.sources x := fun x => by
    rw [update_fold_sources, lookup_foldl_insert U hUn]
  have herr : ∀ x, lookup (U.foldl (updateOne ck) s).errors x =
      if x ∈ keys U then none else lookup s.errors x := fun x => by
    rw [update_fold_errors, lookup_foldl_erase U (fun p => p.1)]; rfl
  have hsyn : ∀ k, lookup (U.map (fun p => (p.1, ck.parseErrs p.2))) k =
      (lookup U k).map ck.parseErrs := fun k => lookup_map_val U (fun _ a => ck.parseErrs a) k
  refine recheck_inv ck hF hL hK s _ (U.map (fun p => (p.1, ck.parseErrs p.2))) _ (keys U) _ hinv
    hcx (mem_flatMap_tagged U hUn ck.parseErrs) ?_ ?_ ?_
    (fun x hx => self_mem_affectedSet ck _ _ x hx)
    (fun k hk => .inr (cov_affectedSet ck _ _ k hk))
    (fun y c x hy hc hx => affected_closed ck _ _ y x hy (mem_fwdEdges_of_lookup ck _ y c x hc hx))
  · intro k
    try simp only [rebuildGraph_sources, rebuildGraph_errors, rebuildGraph_graph]
    by_cases hk : k ∈ keys U
    · right
      obtain ⟨c, hc⟩ := lookup_some_of_mem_keys hk
      rw [herr, hsrc, hsyn, hc]; simp [hk]
    · left
      rw [herr, hsrc, hsyn, lookup_none_of_not_mem_keys hk]; simp [hk]
  · intro k hk
    try simp only [rebuildGraph_sources, rebuildGraph_errors, rebuildGraph_graph]
    rw [herr, hsyn, lookup_none_of_not_mem_keys hk]; simp [hk]
  · intro x hx
    try simp only [rebuildGraph_sources, rebuildGraph_errors, rebuildGraph_graph]
    rw [hsrc, lookup_none_of_not_mem_keys hx]

theorem remove_fold (s : State Mod Content Sig Err) (ms : List Mod) :
    (ms.foldl removeOne s).sources = ms.foldl erase s.sources ∧
      (ms.foldl removeOne s).errors = ms.foldl erase s.errors := by
  induction ms generalizing s with
  | nil => exact ⟨rfl, rfl⟩
  | cons p t ih => simp only [List.foldl_cons]; exact ih _

theorem remove_inv (hF : Frame ck) (hL : LocalW ck) (hK : Kinds ck)
    (s : State Mod Content Sig Err) (ms : List Mod) (hg : s.graph = s.sources) (hinv : Inv ck s) :
    Inv ck (remove ck s ms) := by
  unfold remove
  generalize hmdef : ms.filter (fun m => m ≠ ck.root) = ms'
  have hr : ck.root ∉ ms' := by
    rw [← hmdef]; intro h; simpa using (List.mem_filter.mp h).2
  simp only
  rw [hg]
  have hcx : GoodCx ck (ms'.foldl removeOne s).sources (ms'.foldl removeOne s).globalCx :=
    foldl_inv (fun s' : State Mod Content Sig Err => GoodCx ck s'.sources s'.globalCx)
      removeOne ms'
      (by
        intro s' m hm h2 x
        have := h2 x
        simp only [removeOne, lookup_erase, lookup_freshCx] at this ⊢
        by_cases hrx : ck.root = x
        · have : m ≠ x := fun h => hr (by rw [hrx, ← h]; exact hm)
          simp_all
        · by_cases hx : m = x
          · subst hx; simp [hrx]
          · simp_all)
      s hinv.1
  have hsrc : ∀ x, lookup (ms'.foldl removeOne s).sources x =
      if x ∈ ms' then none else lookup s.sources x := fun x => by
    rw [(remove_fold s ms').1]
    have := lookup_foldl_erase ms' (fun m => m) s.sources x
    simpa using this
  have herr : ∀ x, lookup (ms'.foldl removeOne s).errors x =
      if x ∈ ms' then none else lookup s.errors x := fun x => by
    rw [(remove_fold s ms').2]
    have := lookup_foldl_erase ms' (fun m => m) s.errors x
    simpa using this
  refine recheck_inv ck hF hL hK s _ [] [] ms' _ hinv hcx (by simp [lookup]) ?_ ?_ ?_
    (fun x hx => self_mem_affectedSet ck _ _ x hx)
    (fun k hk => .inl (cov_affectedSet ck _ _ k hk))
    (fun y c x hy hc hx => by
      try simp only [rebuildGraph_sources, rebuildGraph_errors, rebuildGraph_graph] at hc
      rw [hsrc] at hc
      split at hc
      · cases hc
      · exact affected_closed ck _ _ y x hy (mem_fwdEdges_of_lookup ck _ y c x hc hx))
  · intro k
    try simp only [rebuildGraph_sources, rebuildGraph_errors, rebuildGraph_graph]
    by_cases hk : k ∈ ms'
    · right; rw [herr, hsrc]; simp [hk, lookup]
    · left; rw [herr, hsrc]; simp [hk, lookup]
  · intro k hk; try simp only [rebuildGraph_sources, rebuildGraph_errors, rebuildGraph_graph]; rw [herr]; simp [hk, lookup]
  · intro x hx; try simp only [rebuildGraph_sources, rebuildGraph_errors, rebuildGraph_graph]; rw [hsrc]; simp [hx]

theorem rename_inv (hF : Frame ck) (hL : LocalW ck) (hK : Kinds ck)
    (s : State Mod Content Sig Err) (rens : List (Mod × Mod)) (hg : s.graph = s.sources)
    (hinv : Inv ck s) :
    Inv ck (rename ck s rens) := by
  unfold rename
  generalize hrdef : renamePairs ck.root rens = rs
  have hroot : ∀ p ∈ rs, p.1 ≠ ck.root ∧ p.2 ≠ ck.root := by
    intro p hp; rw [← hrdef] at hp
    simpa [renamePairs] using (List.mem_filter.mp hp).2
  simp only
  rw [hg]
  generalize hDdef : rs.flatMap (fun p => [p.1, p.2]) = D
  have hfold := foldl_inv
    (fun acc : State Mod Content Sig Err × List (Mod × List Err) =>
      GoodCx ck acc.1.sources acc.1.globalCx ∧ NodupKeys acc.2 ∧
      (∀ k, (lookup acc.1.errors k = lookup s.errors k ∧
          lookup acc.1.sources k = lookup s.sources k ∧ lookup acc.2 k = none) ∨
        (lookup acc.1.errors k = none ∧
          lookup acc.2 k = (lookup acc.1.sources k).map ck.parseErrs)) ∧
      (∀ k, k ∉ D → lookup acc.1.errors k = lookup s.errors k ∧ lookup acc.2 k = none) ∧
      (∀ x, x ∉ D → lookup acc.1.sources x = lookup s.sources x) ∧
      (∀ y c, lookup acc.1.sources y = some c →
        ∃ o, lookup s.sources o = some c ∧ (o ∈ D ∨ o = y)))
    (renameOne ck) rs
    (by
      rintro ⟨s', syn⟩ p hp ⟨h1, hn, hq, hqa, hd, ho⟩
      simp only at h1 hn hq hqa hd ho
      have hpD1 : p.1 ∈ D := hDdef ▸ List.mem_flatMap.mpr ⟨p, hp, by simp⟩
      have hpD2 : p.2 ∈ D := hDdef ▸ List.mem_flatMap.mpr ⟨p, hp, by simp⟩
      have hr1 := (hroot p hp).1
      have hr2 := (hroot p hp).2
      unfold renameOne
      simp only
      cases hl : lookup s'.sources p.1 with
      | none => exact ⟨h1, hn, hq, hqa, hd, ho⟩
      | some c =>
        simp only
        refine ⟨?_, nodupKeys_insert _ _ _ (nodupKeys_erase _ _ hn), ?_, ?_, ?_, ?_⟩
        · intro x
          have := h1 x
          simp only [lookup_insert, lookup_erase, lookup_freshCx] at this ⊢
          by_cases hr : ck.root = x
          · have e1 : p.1 ≠ x := fun h => hr1 (by rw [h, hr])
            have e2 : p.2 ≠ x := fun h => hr2 (by rw [h, hr])
            simp_all
          · by_cases hx2 : p.2 = x
            · subst hx2; simp [hr]
            · by_cases hx1 : p.1 = x
              · subst hx1; simp [hr, hx2]
              · simp_all
        · intro k
          simp only [lookup_insert, lookup_erase]
          by_cases hk2 : p.2 = k
          · right; simp [hk2]
          · by_cases hk1 : p.1 = k
            · right; simp [hk1, hk2]
            · simp only [hk1, hk2, ↓reduceIte]; exact hq k
        · intro k hk
          have e1 : p.1 ≠ k := fun h => hk (h ▸ hpD1)
          have e2 : p.2 ≠ k := fun h => hk (h ▸ hpD2)
          simp only [lookup_insert, lookup_erase, e1, e2, ↓reduceIte]
          exact hqa k hk
        · intro x hx
          have e1 : p.1 ≠ x := fun h => hx (h ▸ hpD1)
          have e2 : p.2 ≠ x := fun h => hx (h ▸ hpD2)
          simp only [lookup_insert, lookup_erase, e1, e2, ↓reduceIte]
          exact hd x hx
        · intro y c' hc
          simp only [lookup_insert, lookup_erase] at hc
          split at hc
          · cases hc
            obtain ⟨o, ho1, ho2⟩ := ho p.1 c hl
            refine ⟨o, ho1, .inl ?_⟩
            rcases ho2 with h | h
            · exact h
            · rw [h]; exact hpD1
          · split at hc
            · cases hc
            · exact ho y c' hc)
    (s, []) ⟨hinv.1, by simp [NodupKeys, keys], fun _ => .inl ⟨rfl, rfl, rfl⟩,
      fun _ _ => ⟨rfl, rfl⟩, fun _ _ => rfl, fun y c hc => ⟨y, hc, .inr rfl⟩⟩
  obtain ⟨h1, hn, hq, hqa, hd, ho⟩ := hfold
  have hpend := mem_flatMap_tagged (rs.foldl (renameOne ck) (s, [])).2 hn (fun es => es)
  have hmapid : (rs.foldl (renameOne ck) (s, [])).2.map (fun p => (p.1, p.2)) =
      (rs.foldl (renameOne ck) (s, [])).2 := by simp
  rw [hmapid] at hpend
  refine recheck_inv ck hF hL hK s _ _ _ D _ hinv h1 hpend hq hqa hd
    (fun x hx => self_mem_affectedSet ck _ _ x hx)
    (fun k hk => .inl (cov_affectedSet ck _ _ k hk))
    (fun y c x hy hc hx => by
      obtain ⟨o, ho1, ho2⟩ := ho y c hc
      have hoR : o ∈ affectedSet ck s.sources D := by
        rcases ho2 with h | h
        · exact self_mem_affectedSet ck _ _ o h
        · rw [h]; exact hy
      exact affected_closed ck _ _ o x hoR (mem_fwdEdges_of_lookup ck _ o c x ho1 hx))

theorem step_inv (hF : Frame ck) (hL : LocalW ck) (hK : Kinds ck)
    (s : State Mod Content Sig Err) (op : Op Mod Content) (hg : s.graph = s.sources)
    (hinv : Inv ck s) : Inv ck (step ck s op) := by
  cases op with
  | update ups => exact update_inv ck hF hL hK s ups hinv
  | rename rens => exact rename_inv ck hF hL hK s rens hg hinv
  | remove ms => exact remove_inv ck hF hL hK s ms hg hinv

/-- `GraphFresh`: the stored dependency graph is the graph of the current sources. -/
def GraphFresh (s : State Mod Content Sig Err) : Prop := s.graph = s.sources

theorem graphFresh_step (s : State Mod Content Sig Err) (op : Op Mod Content) :
    GraphFresh (step ck s op) := by
  cases op <;> rfl

theorem fresh_inv (S : Sources Mod Content) : Inv ck (fresh ck S) :=
  ⟨fun _ => rfl, fun _ _ => Iff.rfl⟩

/-! ### The server's file map is the file-system view -/

theorem sources_renameOne (acc : State Mod Content Sig Err × List (Mod × List Err))
    (p : Mod × Mod) : (renameOne ck acc p).1.sources = applyRename acc.1.sources p := by
  unfold renameOne applyRename
  simp only
  cases lookup acc.1.sources p.1 <;> rfl

theorem sources_rename_fold (acc : State Mod Content Sig Err × List (Mod × List Err))
    (rens : List (Mod × Mod)) :
    (rens.foldl (renameOne ck) acc).1.sources = rens.foldl applyRename acc.1.sources := by
  induction rens generalizing acc with
  | nil => rfl
  | cons p ps ih => simp only [List.foldl_cons, ih, sources_renameOne]

theorem sources_step (s : State Mod Content Sig Err) (op : Op Mod Content) :
    (step ck s op).sources = applyOp ck.root s.sources op := by
  cases op with
  | update ups => exact update_fold_sources ck s _
  | rename rens => exact sources_rename_fold ck (s, []) _
  | remove ms => exact (remove_fold s _).1

theorem sources_run (ops : List (Op Mod Content)) (s : State Mod Content Sig Err) :
    (run ck ops s).sources = applyOps ck.root ops s.sources := by
  induction ops generalizing s with
  | nil => rfl
  | cons op ops ih =>
    simp only [run, applyOps, List.foldl_cons] at ih ⊢
    rw [ih, sources_step]

end Ops

/-! ## `checked_modules` bookkeeping -/

section Checked
variable {Mod Content Sig Err : Type} [DecidableEq Mod]
variable (ck : Checker Mod Content Sig Err)

/-- keys(`checked_modules`) = keys(`parsed_modules`) = keys(`string_sources`). -/
def CheckedOk (s : State Mod Content Sig Err) : Prop :=
  ∀ m, m ∈ s.checked ↔ (lookup s.sources m).isSome = true

theorem recheck_checked (s s1 : State Mod Content Sig Err) (pending : List (Mod × Err))
    (D R : List Mod) (h : CheckedOk s)
    (hsub : ∀ m, m ∈ s1.checked → (lookup s1.sources m).isSome = true)
    (hout : ∀ m, m ∉ D → (m ∈ s1.checked ↔ m ∈ s.checked) ∧
      lookup s1.sources m = lookup s.sources m)
    (hDR : ∀ x ∈ D, x ∈ R) : CheckedOk (recheck ck s1 pending R) := by
  intro m
  show m ∈ R.filter (fun m => (lookup s1.sources m).isSome) ++ s1.checked ↔
    (lookup s1.sources m).isSome = true
  simp only [List.mem_append, List.mem_filter]
  constructor
  · rintro (⟨_, h1⟩ | h1)
    · exact h1
    · exact hsub m h1
  · intro hs
    by_cases hm : m ∈ R
    · exact .inl ⟨hm, hs⟩
    · have hmD : m ∉ D := fun hd => hm (hDR m hd)
      obtain ⟨h1, h2⟩ := hout m hmD
      exact .inr (h1.mpr ((h m).mpr (by rw [← h2]; exact hs)))

theorem update_checked (s : State Mod Content Sig Err) (ups : List (Mod × Content))
    (h : CheckedOk s) : CheckedOk (update ck s ups) := by
  unfold update
  generalize writeBatch ck.root ups = U
  simp only
  have hf := foldl_inv
    (fun s' : State Mod Content Sig Err =>
      (∀ m, m ∈ s'.checked → (lookup s'.sources m).isSome = true) ∧
      ∀ m, m ∉ keys U → (m ∈ s'.checked ↔ m ∈ s.checked) ∧
        lookup s'.sources m = lookup s.sources m)
    (updateOne ck) U
    (by
      rintro s' p hp ⟨h1, h2⟩
      have hpk : p.1 ∈ keys U := List.mem_map.mpr ⟨p, hp, rfl⟩
      refine ⟨fun m hm => ?_, fun m hm => ?_⟩
      · have := h1 m hm
        simp only [updateOne, lookup_insert]
        split <;> simp_all
      · have hne : p.1 ≠ m := fun e => hm (e ▸ hpk)
        simp only [updateOne, lookup_insert, hne, ↓reduceIte]
        exact h2 m hm)
    s ⟨fun m hm => (h m).mp hm, fun _ _ => ⟨Iff.rfl, rfl⟩⟩
  exact recheck_checked ck s _ _ (keys U) _ h hf.1 hf.2
    (fun x hx => self_mem_affectedSet ck _ _ x hx)

theorem remove_checked (s : State Mod Content Sig Err) (ms : List Mod)
    (h : CheckedOk s) : CheckedOk (remove ck s ms) := by
  unfold remove
  generalize ms.filter (fun m => m ≠ ck.root) = ms'
  simp only
  have hf := foldl_inv
    (fun s' : State Mod Content Sig Err =>
      (∀ m, m ∈ s'.checked → (lookup s'.sources m).isSome = true) ∧
      ∀ m, m ∉ ms' → (m ∈ s'.checked ↔ m ∈ s.checked) ∧
        lookup s'.sources m = lookup s.sources m)
    removeOne ms'
    (by
      rintro s' k hk ⟨h1, h2⟩
      refine ⟨fun m hm => ?_, fun m hm => ?_⟩
      · simp only [removeOne, List.mem_filter, decide_eq_true_eq] at hm
        have hne : k ≠ m := fun e => hm.2 e.symm
        simp only [removeOne, lookup_erase, hne, ↓reduceIte]
        exact h1 m hm.1
      · have hne : k ≠ m := fun e => hm (e ▸ hk)
        have hne' : m ≠ k := fun e => hne e.symm
        simp only [removeOne, lookup_erase, hne, ↓reduceIte, List.mem_filter, decide_eq_true_eq,
          hne', ne_eq, not_false_eq_true, and_true]
        exact h2 m hm)
    s ⟨fun m hm => (h m).mp hm, fun _ _ => ⟨Iff.rfl, rfl⟩⟩
  exact recheck_checked ck s _ _ ms' _ h hf.1 hf.2
    (fun x hx => self_mem_affectedSet ck _ _ x hx)

theorem rename_checked (s : State Mod Content Sig Err) (rens : List (Mod × Mod))
    (h : CheckedOk s) : CheckedOk (rename ck s rens) := by
  unfold rename
  generalize renamePairs ck.root rens = rs
  simp only
  generalize hDdef : rs.flatMap (fun p => [p.1, p.2]) = D
  have hf := foldl_inv
    (fun acc : State Mod Content Sig Err × List (Mod × List Err) =>
      (∀ m, m ∈ acc.1.checked → (lookup acc.1.sources m).isSome = true) ∧
      ∀ m, m ∉ D → (m ∈ acc.1.checked ↔ m ∈ s.checked) ∧
        lookup acc.1.sources m = lookup s.sources m)
    (renameOne ck) rs
    (by
      rintro ⟨s', syn⟩ p hp ⟨h1, h2⟩
      simp only at h1 h2
      have hpD1 : p.1 ∈ D := hDdef ▸ List.mem_flatMap.mpr ⟨p, hp, by simp⟩
      have hpD2 : p.2 ∈ D := hDdef ▸ List.mem_flatMap.mpr ⟨p, hp, by simp⟩
      unfold renameOne
      simp only
      cases hl : lookup s'.sources p.1 with
      | none =>
        refine ⟨fun m hm => ?_, fun m hm => ?_⟩
        · simp only [List.mem_filter] at hm
          exact h1 m hm.1
        · have hne : m ≠ p.1 := fun e => hm (e ▸ hpD1)
          simp only [List.mem_filter, decide_eq_true_eq, hne, ne_eq, not_false_eq_true, and_true]
          exact h2 m hm
      | some c =>
        refine ⟨fun m hm => ?_, fun m hm => ?_⟩
        · simp only [List.mem_filter, decide_eq_true_eq] at hm
          have hne : p.1 ≠ m := fun e => hm.2 e.symm
          have := h1 m hm.1
          simp only [lookup_insert, lookup_erase, hne, ↓reduceIte]
          split <;> simp_all
        · have e1 : p.1 ≠ m := fun e => hm (e ▸ hpD1)
          have e2 : p.2 ≠ m := fun e => hm (e ▸ hpD2)
          have e1' : m ≠ p.1 := fun e => e1 e.symm
          simp only [lookup_insert, lookup_erase, e1, e2, ↓reduceIte, List.mem_filter,
            decide_eq_true_eq, e1', ne_eq, not_false_eq_true, and_true]
          exact h2 m hm)
    (s, []) ⟨fun m hm => (h m).mp hm, fun _ _ => ⟨Iff.rfl, rfl⟩⟩
  exact recheck_checked ck s _ _ D _ h hf.1 hf.2
    (fun x hx => self_mem_affectedSet ck _ _ x hx)

theorem fresh_checked (S : Sources Mod Content) : CheckedOk (fresh ck S) := by
  intro m
  show m ∈ keys S ↔ (lookup S m).isSome = true
  constructor
  · intro hm
    obtain ⟨v, hv⟩ := lookup_some_of_mem_keys hm
    rw [hv]; rfl
  · intro hs
    cases hl : lookup S m with
    | none => rw [hl] at hs; cases hs
    | some v => exact mem_keys_of_lookup hl

theorem step_checked (s : State Mod Content Sig Err) (op : Op Mod Content)
    (h : CheckedOk s) : CheckedOk (step ck s op) := by
  cases op with
  | update ups => exact update_checked ck s ups h
  | rename rens => exact rename_checked ck s rens h
  | remove ms => exact remove_checked ck s ms h

end Checked

/-! ## LSP glue -/

section Glue
variable {Mod Content Sig Err : Type} [DecidableEq Mod]

theorem delete_glue (root : Mod) (files : List (Option Mod))
    (h : ∀ m, some m ∈ files → m ≠ root) :
    (files.map (fun o => o.getD root)).filter (fun m => m ≠ root) = files.filterMap id := by
  induction files with
  | nil => rfl
  | cons o t ih =>
    have ih' := ih (fun m hm => h m (List.mem_cons_of_mem _ hm))
    cases o with
    | none =>
      simp only [List.map_cons, Option.getD_none, List.filter_cons, ne_eq, not_true_eq_false,
        decide_false, Bool.false_eq_true, ↓reduceIte, List.filterMap_cons, id_eq]
      exact ih'
    | some m =>
      have hm : m ≠ root := h m List.mem_cons_self
      simp only [List.map_cons, Option.getD_some, List.filter_cons, ne_eq, hm, not_false_eq_true,
        decide_true, ↓reduceIte, List.filterMap_cons, id_eq]
      rw [← ih']

theorem insidePairs_noroot (root : Mod) (pairs : List (Option Mod × Option Mod))
    (h : ∀ p ∈ pairs, p.1 ≠ some root ∧ p.2 ≠ some root) :
    ∀ q ∈ insidePairs pairs, q.1 ≠ root ∧ q.2 ≠ root := by
  intro q hq
  simp only [insidePairs, List.mem_filterMap] at hq
  obtain ⟨p, hp, hpq⟩ := hq
  have := h p hp
  obtain ⟨p1, p2⟩ := p
  cases p1 <;> cases p2 <;> simp_all
  obtain ⟨rfl, rfl⟩ := hpq
  exact ⟨this.1, this.2⟩

/-- The handlers' calls have the file-system effect of the notification. -/
theorem glue_file_view (root : Mod) (S : Sources Mod Content) (ev : Event Mod Content)
    (h : EventNoRoot root ev) : applyOp root S (glue root ev) = applyEvent root S ev := by
  cases ev with
  | didChange m t =>
    cases m with
    | none => simp [applyOp, glue, applyEvent, writeBatch]
    | some m =>
      have hm : m ≠ root := fun e => h (by rw [e])
      simp [applyOp, glue, applyEvent, writeBatch, hm, insert, erase]
  | didCreate files => rfl
  | didRename pairs =>
    have : renamePairs root (insidePairs pairs) = insidePairs pairs := by
      unfold renamePairs
      rw [List.filter_eq_self]
      intro p hp
      have := insidePairs_noroot root pairs h p hp
      simp [this.1, this.2]
    simp only [applyOp, glue, applyEvent, this]
  | didDelete files =>
    simp only [applyOp, glue, applyEvent]
    rw [delete_glue root files h]

theorem glue_file_view_run (root : Mod) (evs : List (Event Mod Content))
    (h : ∀ ev ∈ evs, EventNoRoot root ev) (S : Sources Mod Content) :
    applyOps root (evs.map (glue root)) S = applyEvents root evs S := by
  induction evs generalizing S with
  | nil => rfl
  | cons ev evs ih =>
    simp only [applyOps, applyEvents, List.map_cons, List.foldl_cons] at ih ⊢
    rw [glue_file_view root S ev (h ev List.mem_cons_self)]
    exact ih (fun e he => h e (List.mem_cons_of_mem _ he)) _

end Glue

/-! ## Epochs -/

section Epochs
variable {Mod Content Sig Err : Type} [DecidableEq Mod]

theorem at_eq_of_stable (e : EChecker Mod Content Sig Err) (h : NamesStable e) (t t' : Nat) :
    e.at t = e.at t' := by
  have : e.sigAt t = e.sigAt t' := funext fun m => funext fun c => h t t' m c
  simp only [EChecker.at, this]

theorem runE_eq_run (e : EChecker Mod Content Sig Err) (h : NamesStable e) (t : Nat)
    (ops : List (Op Mod Content)) (s : State Mod Content Sig Err) :
    runE e t ops s = run (e.at 0) ops s := by
  induction ops generalizing t s with
  | nil => rfl
  | cons op ops ih =>
    simp only [runE, run, List.foldl_cons]
    rw [ih, at_eq_of_stable e h t 0]
    rfl

end Epochs

end SamVerif.Incremental
